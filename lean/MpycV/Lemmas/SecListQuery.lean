/-
Lemmas for the seclist model, part 2: count / contains / find / index, the `_norm` scan and the
lexicographic comparisons, equality, sort.
-/
import MpycV.Lemmas.SecList

namespace MpycV.SecList
open Py

/-! ### count, contains -/

theorem count_eq (x : List Int) (v : Int) : count x v = (x.count v : Nat) := by
  unfold count
  induction x with
  | nil => rfl
  | cons a x ih =>
    simp only [List.map_cons, sum]
    rw [ih, List.count_cons]
    unfold eqBit
    by_cases h : a = v <;> simp [h] <;> omega

theorem contains_eq (x : List Int) (v : Int) : contains x v = if v ∈ x then 1 else 0 := by
  unfold contains neBit
  rw [count_eq]
  by_cases h : v ∈ x
  · have : 0 < x.count v := List.count_pos_iff.mpr h
    simp only [h, if_true]
    rw [if_neg]; omega
  · have : x.count v = 0 := List.count_eq_zero.mpr h
    simp [h, this]

/-! ### find: the halving recursion returns (not found, first index) -/

theorem ifElse_zero (x y : Int) : ifElse 0 x y = y := by simp [ifElse]
theorem ifElse_one (x y : Int) : ifElse 1 x y = x := by simp [ifElse]

theorem findCl_single (off b : Int) : findCl off [b] = (b, off + b) := by
  rw [findCl.eq_def]; simp

theorem findCl_step (off : Int) (l : List Int) (h : 2 ≤ l.length) :
    findCl off l =
      (ifElse (findCl off (l.take (l.length / 2))).1
          (findCl (off + (l.length / 2 : Nat)) (l.drop (l.length / 2))).1 (findCl off (l.take (l.length / 2))).1,
       ifElse (findCl off (l.take (l.length / 2))).1
          (findCl (off + (l.length / 2 : Nat)) (l.drop (l.length / 2))).2 (findCl off (l.take (l.length / 2))).2) := by
  rw [findCl.eq_def]
  have : ¬ l.length < 2 := by omega
  simp only [this, if_false]

theorem take_half_ne_nil {α : Type} (l : List α) (h : 2 ≤ l.length) : l.take (l.length / 2) ≠ [] := by
  intro e
  have := congrArg List.length e
  rw [List.length_take, List.length_nil] at this
  omega

theorem drop_half_ne_nil {α : Type} (l : List α) (h : 2 ≤ l.length) : l.drop (l.length / 2) ≠ [] := by
  intro e
  have := congrArg List.length e
  rw [List.length_drop, List.length_nil] at this
  omega

theorem findCl_spec (x : List Int) (v : Int) (off : Int) (hx : x ≠ []) :
    findCl off (x.map (fun b => neBit b v)) = (if v ∈ x then 0 else 1, off + (x.idxOf v : Nat)) := by
  induction hn : x.length using Nat.strongRecOn generalizing x off with
  | _ n ih =>
    by_cases hlt : x.length < 2
    · match x, hx, hlt with
      | [b], _, _ =>
        rw [List.map_cons, List.map_nil, findCl_single]
        simp only [neBit, List.mem_singleton, List.idxOf_cons, List.idxOf_nil]
        by_cases h : b = v
        · simp [h]
        · have h' : ¬ v = b := fun e => h e.symm
          have hb : (b == v) = false := by simpa using h
          simp [h, h', hb]
    · have hlen : 2 ≤ x.length := by omega
      rw [findCl_step _ _ (by simpa using hlen)]
      simp only [List.length_map]
      have h1 := take_half_ne_nil x hlen
      have h2 := drop_half_ne_nil x hlen
      have e1 := ih (x.take (x.length / 2)).length (by simp; omega) (x.take (x.length / 2)) off h1 rfl
      have e2 := ih (x.drop (x.length / 2)).length (by simp; omega) (x.drop (x.length / 2))
        (off + (x.length / 2 : Nat)) h2 rfl
      rw [← List.map_take, ← List.map_drop, e1, e2]
      have hsplit : x = x.take (x.length / 2) ++ x.drop (x.length / 2) := (List.take_append_drop _ _).symm
      have hmem : v ∈ x ↔ v ∈ x.take (x.length / 2) ∨ v ∈ x.drop (x.length / 2) := by
        conv => lhs; rw [hsplit]
        exact List.mem_append
      have hidx : x.idxOf v = if v ∈ x.take (x.length / 2) then (x.take (x.length / 2)).idxOf v
          else (x.drop (x.length / 2)).idxOf v + (x.take (x.length / 2)).length := by
        conv => lhs; rw [hsplit]
        exact List.idxOf_append
      have htl : (x.take (x.length / 2)).length = x.length / 2 := by simp; omega
      by_cases ha : v ∈ x.take (x.length / 2)
      · have : v ∈ x := hmem.mpr (Or.inl ha)
        simp only [ha, this, if_true, ifElse_zero]
        rw [hidx, if_pos ha]
      · simp only [ha, if_false, ifElse_one]
        by_cases hb : v ∈ x.drop (x.length / 2)
        · have : v ∈ x := hmem.mpr (Or.inr hb)
          simp only [hb, this, if_true]
          rw [hidx, if_neg ha, htl]
          congr 1
          push_cast
          omega
        · have : ¬ v ∈ x := fun h => (hmem.mp h).elim ha hb
          simp only [hb, this, if_false]
          rw [hidx, if_neg ha, htl]
          congr 1
          push_cast
          omega

theorem rtFind_eq (x : List Int) (v : Int) (hx : x ≠ []) : rtFind x v = pyFind x v := by
  unfold rtFind pyFind
  rw [findCl_spec x v 0 hx]
  by_cases h : v ∈ x
  · simp [h, ifElse_zero]
  · simp [h, ifElse_one]

theorem find_eq (x : List Int) (v : Int) : find x v = pyFind x v := by
  unfold find
  by_cases hx : x = []
  · subst hx; simp [pyFind]
  · rw [if_neg hx, rtFind_eq x v hx]

theorem pyFind_neg_iff (x : List Int) (v : Int) : pyFind x v = -1 ↔ ¬ v ∈ x := by
  unfold pyFind
  by_cases h : v ∈ x
  · simp only [h, if_true, not_true_eq_false, iff_false]
    omega
  · simp [h]

theorem index_eq (x : List Int) (v : Int) :
    index x v = if v ∈ x then .ok (x.idxOf v : Nat) else .error Err.ValueError := by
  unfold index
  by_cases hx : x = []
  · subst hx; simp
  · rw [if_neg hx, rtFind_eq x v hx]
    by_cases h : v ∈ x
    · have : ¬ pyFind x v = -1 := fun e => (pyFind_neg_iff x v).mp e h
      simp only [this, if_false, h, if_true]
      simp [pyFind, h]
    · have : pyFind x v = -1 := (pyFind_neg_iff x v).mpr h
      simp [this, h]

theorem erase_eq_eraseIdx_idxOf (x : List Int) (v : Int) : x.erase v = x.eraseIdx (x.idxOf v) := by
  induction x with
  | nil => rfl
  | cons a x ih =>
    by_cases h : a = v
    · subst h; simp [List.idxOf_cons]
    · have hb : (a == v) = false := by simpa using h
      simp [List.erase_cons, List.idxOf_cons, hb, ih]

/-! ### `_norm`: first non-zero sign decides -/

/-- the bit `_norm` is meant to compute from the signs: decided by the first non-zero sign;
if there is none: `EQ` (i.e. `len(x) < len(y)`) -/
def lexBit (EQ : Bool) : List Int → Int
  | [] => if EQ then 1 else 0
  | a :: r => if a = 0 then lexBit EQ r else if a < 0 then 1 else 0

def nzBit : List Int → Int
  | [] => 0
  | a :: r => if a = 0 then nzBit r else 1

theorem lexBit_append (EQ : Bool) (l1 l2 : List Int) :
    lexBit EQ (l1 ++ l2) = if nzBit l1 = 0 then lexBit EQ l2 else lexBit EQ l1 := by
  induction l1 with
  | nil => simp [nzBit]
  | cons a r ih =>
    by_cases h : a = 0
    · simp [lexBit, nzBit, h, ih]
    · simp [lexBit, nzBit, h]

theorem nzBit_append (l1 l2 : List Int) :
    nzBit (l1 ++ l2) = if nzBit l1 = 0 then nzBit l2 else 1 := by
  induction l1 with
  | nil => simp [nzBit]
  | cons a r ih =>
    by_cases h : a = 0
    · simp [nzBit, h, ih]
    · simp [nzBit, h]

theorem nzBit_cases (l : List Int) : nzBit l = 0 ∨ nzBit l = 1 := by
  induction l with
  | nil => simp [nzBit]
  | cons a r ih => by_cases h : a = 0 <;> simp [nzBit, h, ih]

/-- a list of signs -/
def Signs (s : List Int) : Prop := ∀ a ∈ s, a = -1 ∨ a = 0 ∨ a = 1

theorem norm_single (EQ : Bool) (a a2 : Int) :
    norm EQ [a] [a2] = (if EQ then 1 - (a2 + a) / 2 else (a2 - a) / 2, a2) := by
  rw [norm.eq_def]; simp

theorem norm_step (EQ : Bool) (x x2 : List Int) (h : 2 ≤ x.length) :
    norm EQ x x2 =
      (ifElse (norm EQ (x.take (x.length / 2)) (x2.take (x.length / 2))).2
          (norm EQ (x.take (x.length / 2)) (x2.take (x.length / 2))).1
          (norm EQ (x.drop (x.length / 2)) (x2.drop (x.length / 2))).1,
       ifElse (norm EQ (x.take (x.length / 2)) (x2.take (x.length / 2))).2
          (norm EQ (x.take (x.length / 2)) (x2.take (x.length / 2))).2
          (norm EQ (x.drop (x.length / 2)) (x2.drop (x.length / 2))).2) := by
  rw [norm.eq_def]
  have : ¬ x.length < 2 := by omega
  simp only [this, if_false]

theorem norm_spec (EQ : Bool) (s : List Int) (hs : Signs s) (hne : s ≠ []) :
    norm EQ s (s.map (fun a => a * a)) = (lexBit EQ s, nzBit s) := by
  induction hn : s.length using Nat.strongRecOn generalizing s with
  | _ n ih =>
    by_cases hlt : s.length < 2
    · match s, hne, hlt, hs with
      | [a], _, _, hs =>
        have ha := hs a (by simp)
        rw [List.map_cons, List.map_nil, norm_single]
        simp only [lexBit, nzBit]
        rcases ha with h | h | h <;> subst h <;> cases EQ <;> decide
    · have hlen : 2 ≤ s.length := by omega
      rw [norm_step _ _ _ hlen]
      have h1 := take_half_ne_nil s hlen
      have h2 := drop_half_ne_nil s hlen
      have hs1 : Signs (s.take (s.length / 2)) := fun a ha => hs a (List.mem_of_mem_take ha)
      have hs2 : Signs (s.drop (s.length / 2)) := fun a ha => hs a (List.mem_of_mem_drop ha)
      have e1 := ih (s.take (s.length / 2)).length (by simp; omega) (s.take (s.length / 2)) hs1 h1 rfl
      have e2 := ih (s.drop (s.length / 2)).length (by simp; omega) (s.drop (s.length / 2)) hs2 h2 rfl
      rw [← List.map_take, ← List.map_drop, e1, e2]
      have hsplit : s = s.take (s.length / 2) ++ s.drop (s.length / 2) := (List.take_append_drop _ _).symm
      have hl : lexBit EQ s = if nzBit (s.take (s.length / 2)) = 0 then lexBit EQ (s.drop (s.length / 2))
          else lexBit EQ (s.take (s.length / 2)) := by
        conv => lhs; rw [hsplit]
        exact lexBit_append EQ _ _
      have hz : nzBit s = if nzBit (s.take (s.length / 2)) = 0 then nzBit (s.drop (s.length / 2)) else 1 := by
        conv => lhs; rw [hsplit]
        exact nzBit_append _ _
      rw [hl, hz]
      rcases nzBit_cases (s.take (s.length / 2)) with h | h
      · simp [h, ifElse_zero]
      · simp [h, ifElse_one]

theorem schurProd_self (s : List Int) : schurProd s s = s.map (fun a => a * a) := by
  unfold schurProd
  induction s with
  | nil => rfl
  | cons a s ih => simp [ih]

theorem sgn_cases (a : Int) : sgn a = -1 ∨ sgn a = 0 ∨ sgn a = 1 := by
  unfold sgn
  by_cases h : a < 0
  · simp [h]
  · by_cases h0 : a = 0 <;> simp [h, h0]

theorem signs_zipWith (x y : List Int) : Signs (List.zipWith (fun a b => sgn (a - b)) x y) := by
  intro a ha
  induction x generalizing y with
  | nil => simp at ha
  | cons c x ih =>
    cases y with
    | nil => simp at ha
    | cons d y =>
      simp only [List.zipWith_cons_cons, List.mem_cons] at ha
      rcases ha with rfl | ha
      · exact sgn_cases _
      · exact ih y ha

/-- the scan over the signs of the differences is the lexicographic order of Python lists
(first differing element decides; else the shorter list is smaller) -/
theorem lexBit_zipWith (x y : List Int) :
    lexBit (decide (x.length < y.length)) (List.zipWith (fun a b => sgn (a - b)) x y)
      = if x < y then 1 else 0 := by
  induction x generalizing y with
  | nil =>
    cases y with
    | nil => simp [lexBit]
    | cons d y => simp [lexBit, List.nil_lt_cons]
  | cons c x ih =>
    cases y with
    | nil => simp [lexBit]
    | cons d y =>
      have := ih y
      simp only [List.length_cons, Nat.add_lt_add_iff_right, List.zipWith_cons_cons, lexBit,
        List.cons_lt_cons_iff]
      rw [this]
      unfold sgn
      by_cases h1 : c < d
      · have : c - d < 0 := by omega
        have hne : ¬ c = d := by omega
        simp [this, h1]
      · by_cases h2 : c = d
        · subst h2; simp
        · have h3 : ¬ c - d < 0 := by omega
          have h4 : ¬ c - d = 0 := by omega
          simp [h1, h2, h3, h4]

theorem lessThan_eq (x y : List Int) : lessThan x y = if x < y then 1 else 0 := by
  rw [← lexBit_zipWith]
  unfold lessThan
  by_cases hs : List.zipWith (fun a b => sgn (a - b)) x y = []
  · simp only [hs, if_true, lexBit]
    cases x with
    | nil =>
      cases y with
      | nil => simp
      | cons d y => simp
    | cons c x =>
      cases y with
      | nil => simp
      | cons d y => simp at hs
  · simp only [hs, if_false]
    rw [schurProd_self, norm_spec _ _ (signs_zipWith x y) hs]

theorem listEq_eq (x y : List Int) : listEq x y = if x = y then 1 else 0 := by
  unfold listEq
  by_cases hl : x.length = y.length
  · simp only [hl, ne_eq, not_true_eq_false, if_false]
    induction x generalizing y with
    | nil =>
      cases y with
      | nil => simp [allBits]
      | cons _ _ => simp at hl
    | cons a x ih =>
      cases y with
      | nil => simp at hl
      | cons b y =>
        have := ih y (by simpa using hl)
        simp only [List.zipWith_cons_cons, allBits, this, eqBit, List.cons.injEq]
        by_cases h1 : a = b <;> by_cases h2 : x = y <;> simp [h1, h2]
  · have : x ≠ y := fun e => hl (by rw [e])
    simp [hl, this]

theorem cmp_eq (o : CmpOp) (x y : List Int) : cmp o x y = if pyCmp o x y then 1 else 0 := by
  cases o <;> simp only [cmp, pyCmp, lessThan_eq, listEq_eq]
  · by_cases h : x < y <;> simp [h]
  · by_cases h : y < x <;> simp [h]
  · by_cases h : x = y <;> simp [h]
  · by_cases h : x < y <;> simp [h]
  · by_cases h : y < x <;> simp [h]
  · by_cases h : x = y <;> simp [h]

/-! ### sort: any sorted permutation is THE ascending arrangement -/

/-- what `runtime._sort` is assumed to deliver (proved for the sorting network in C29) -/
def SortSpec (srt : List Int → List Int) : Prop :=
  ∀ l : List Int, (srt l).Pairwise (· ≤ ·) ∧ (srt l).Perm l

theorem insertSorted_perm (a : Int) (l : List Int) : (insertSorted a l).Perm (a :: l) := by
  induction l with
  | nil => exact List.Perm.refl _
  | cons b l ih =>
    unfold insertSorted
    by_cases h : a ≤ b
    · simp [h]
    · simp only [h, if_false]
      exact (List.Perm.cons b ih).trans (List.Perm.swap a b l)

theorem isort_perm (l : List Int) : (isort l).Perm l := by
  induction l with
  | nil => exact List.Perm.refl _
  | cons a l ih => exact (insertSorted_perm a (isort l)).trans (List.Perm.cons a ih)

theorem insertSorted_pairwise (a : Int) (l : List Int) (h : l.Pairwise (· ≤ ·)) :
    (insertSorted a l).Pairwise (· ≤ ·) := by
  induction l with
  | nil => simp [insertSorted]
  | cons b l ih =>
    unfold insertSorted
    rw [List.pairwise_cons] at h
    by_cases hab : a ≤ b
    · simp only [hab, if_true, List.pairwise_cons]
      refine ⟨?_, h.1, h.2⟩
      intro c hc
      rcases List.mem_cons.mp hc with rfl | hc
      · exact hab
      · exact Int.le_trans hab (h.1 c hc)
    · simp only [hab, if_false, List.pairwise_cons]
      refine ⟨?_, ih h.2⟩
      intro c hc
      have := (insertSorted_perm a l).mem_iff.mp hc
      rcases List.mem_cons.mp this with rfl | hc'
      · omega
      · exact h.1 c hc'

theorem isort_pairwise (l : List Int) : (isort l).Pairwise (· ≤ ·) := by
  induction l with
  | nil => simp [isort]
  | cons a l ih => exact insertSorted_pairwise a _ ih

theorem sorted_perm_unique (l1 l2 : List Int) (h1 : l1.Pairwise (· ≤ ·)) (h2 : l2.Pairwise (· ≤ ·))
    (hp : l1.Perm l2) : l1 = l2 :=
  List.Perm.eq_of_pairwise (fun _ _ _ _ hab hba => Int.le_antisymm hab hba) h1 h2 hp

theorem srt_eq_isort (srt : List Int → List Int) (h : SortSpec srt) (l : List Int) : srt l = isort l :=
  sorted_perm_unique _ _ (h l).1 (isort_pairwise l) ((h l).2.trans (isort_perm l).symm)

theorem isort_short (l : List Int) (h : l.length < 2) : isort l = l := by
  match l, h with
  | [], _ => rfl
  | [a], _ => rfl

theorem sortOp_eq (srt : List Int → List Int) (h : SortSpec srt) (x : List Int) (r : Bool) :
    sortOp srt x r = if r then (isort x).reverse else isort x := by
  unfold sortOp
  by_cases hl : x.length < 2
  · rw [if_pos hl, isort_short x hl]
    match x, hl with
    | [], _ => simp
    | [a], _ => simp
  · rw [if_neg hl, srt_eq_isort srt h]

end MpycV.SecList
