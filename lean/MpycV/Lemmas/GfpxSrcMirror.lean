/- MIRROR of the translator output (harness/py2lean_gfpx.py on mpyc/gfpx.py as pinned in /repo), kept by hand: the
bridge lemmas (Lemmas/GfpxSrcBridge*.lean) prove these definitions equal to the model MpycV.Model.GFpX;
PropsGen/C23Src.lean and C24Src.lean prove the freshly generated MpycV.GfpxSrc definitions equal to these by `rfl`.
Regenerate with
  python -c "import py2lean_gfpx as T; print(T.translate_source(open('/repo/mpyc/gfpx.py').read(), ns='MpycV.GfpxMirror')[0])"
(then re-prove the bridge) when /repo legitimately changes. -/
import MpycV.Model.PyPoly
namespace MpycV.GfpxMirror
open MpycV MpycV.PyList MpycV.PyLoop MpycV.PyPoly
set_option linter.unusedVariables false


-- ≙ gfpx.py:225 `_degree`
def degree (a : List Int) : Except TErr (Int) :=
  .ok (((a.length : Int) - 1))

-- ≙ gfpx.py:156 `_to_int`
def to_int (p : Int) (a : List Int) : Except TErr (Int) :=
  let s := 0
  match pyFor (ε := TErr) (σ := Int) (List.reverse a) s (fun it_ st_ => match it_, st_ with
      | ai, s =>
        let s := (s * p)
        let s := (s + ai)
        .ok s) with
  | .error exc_ => .error exc_
  | .ok s =>
    .ok (s)

-- ≙ gfpx.py:144 `_from_int`
def from_int (p : Int) (a : Int) : Except TErr (List Int) :=
  let neg := decide (a < 0)
  let a :=
    if neg = true then
      let a := (-a)
      (a)
    else
      (a)
  let c := ([] : List Int)
  onLoop (loop (σ := Int × List Int) (ρ := Empty) TErr.fuel (fun st_ => match st_ with
      | (a, c) =>
        if a ≠ 0 then
          let (a, r) := (a / p, a % p)
          let c := c ++ [(if (neg = true ∧ r ≠ 0) then (p - r) else r)]
          .ok (.next (a, c))
        else
          .ok (.brk (a, c))) (a.natAbs + 1) (a, c))
    (fun r_ => nomatch r_)
    (fun st_ => match st_ with
      | (a, c) =>
        .ok (c))

-- ≙ gfpx.py:229 `_monic`
def monic (p : Int) (a : List Int) : Except TErr (List Int) :=
  if (a ≠ []) ∧ pyIdxOk a.length (-1) = false then .error .indexError else
  let a1 := (if a ≠ [] then (pyGet a (-1)) else 0)
  match (show Except TErr (List Int × Int) from
    if (a ≠ [] ∧ a1 ≠ 1) then
      let a := a
      match invertE a1 p with
      | .error exc_ => .error exc_
      | .ok v1 =>
        let a1 := v1
        match pyFor (ε := TErr) (σ := List Int) (pyRange 0 ((a.length : Int) - 1)) a (fun it_ st_ => match it_, st_ with
            | i, a =>
              if pyIdxOk a.length i = false then .error .indexError else
              let a := pySet a i ((pyGet a i) * a1)
              if pyIdxOk a.length i = false then .error .indexError else
              let a := pySet a i ((pyGet a i) % p)
              .ok a) with
        | .error exc_ => .error exc_
        | .ok a =>
          if pyIdxOk a.length (-1) = false then .error .indexError else
          let a := pySet a (-1) 1
          .ok (a, a1)
    else
      .ok (a, a1)) with
  | .error exc_ => .error exc_
  | .ok (a, a1) =>
    .ok (a)

-- ≙ gfpx.py:229 `_monic`
def monic_lc (p : Int) (a : List Int) : Except TErr ((List Int × Int)) :=
  if (a ≠ []) ∧ pyIdxOk a.length (-1) = false then .error .indexError else
  let a1 := (if a ≠ [] then (pyGet a (-1)) else 0)
  match (show Except TErr (List Int × Int) from
    if (a ≠ [] ∧ a1 ≠ 1) then
      let a := a
      match invertE a1 p with
      | .error exc_ => .error exc_
      | .ok v1 =>
        let a1 := v1
        match pyFor (ε := TErr) (σ := List Int) (pyRange 0 ((a.length : Int) - 1)) a (fun it_ st_ => match it_, st_ with
            | i, a =>
              if pyIdxOk a.length i = false then .error .indexError else
              let a := pySet a i ((pyGet a i) * a1)
              if pyIdxOk a.length i = false then .error .indexError else
              let a := pySet a i ((pyGet a i) % p)
              .ok a) with
        | .error exc_ => .error exc_
        | .ok a =>
          if pyIdxOk a.length (-1) = false then .error .indexError else
          let a := pySet a (-1) 1
          .ok (a, a1)
    else
      .ok (a, a1)) with
  | .error exc_ => .error exc_
  | .ok (a, a1) =>
    .ok ((a, a1))

-- ≙ gfpx.py:284 `_add`
def add (p : Int) (a : List Int) (b : List Int) : Except TErr (List Int) :=
  let (a, b) :=
    if (a.length : Int) < (b.length : Int) then
      let (a, b) := (b, a)
      (a, b)
    else
      (a, b)
  let c := a
  match pyFor (ε := TErr) (σ := List Int) (pyEnum b) c (fun it_ st_ => match it_, st_ with
      | (i, b_i), c =>
        if pyIdxOk c.length i = false then .error .indexError else
        let c := pySet c i ((pyGet c i) + b_i)
        if pyIdxOk c.length i = false then .error .indexError else
        if (pyGet c i) ≥ p then
          if pyIdxOk c.length i = false then .error .indexError else
          let c := pySet c i ((pyGet c i) - p)
          .ok c
        else
          .ok c) with
  | .error exc_ => .error exc_
  | .ok c =>
    let c := pyStrip c
    .ok (c)

-- ≙ gfpx.py:299 `_sub`
def sub (p : Int) (a : List Int) (b : List Int) : Except TErr (List Int) :=
  let c := (a ++ (List.replicate (((b.length : Int) - (a.length : Int))).toNat (0 : Int)))
  match pyFor (ε := TErr) (σ := List Int) (pyEnum b) c (fun it_ st_ => match it_, st_ with
      | (i, b_i), c =>
        if pyIdxOk c.length i = false then .error .indexError else
        let c := pySet c i ((pyGet c i) - b_i)
        if pyIdxOk c.length i = false then .error .indexError else
        if (pyGet c i) < 0 then
          if pyIdxOk c.length i = false then .error .indexError else
          let c := pySet c i ((pyGet c i) + p)
          .ok c
        else
          .ok c) with
  | .error exc_ => .error exc_
  | .ok c =>
    let c := pyStrip c
    .ok (c)

-- ≙ gfpx.py:332 `_sq`
def sq (p : Int) (a : List Int) : Except TErr (List Int) :=
  if ¬ (a ≠ []) then
    .ok (([] : List Int))
  else
    let c := (List.replicate (((2 * (a.length : Int)) - 1)).toNat (0 : Int))
    match pyFor (ε := TErr) (σ := List Int) (pyEnum a) c (fun it_ st_ => match it_, st_ with
        | (i, a_i), c =>
          if a_i ≠ 0 then
            let h := (pyShl i 1)
            if pyIdxOk c.length h = false then .error .indexError else
            let c := pySet c h ((pyGet c h) + (pyPow a_i 2))
            let h := (h + 1)
            let a_i_2 := (a_i * 2)
            match pyFor (ε := TErr) (σ := List Int) (pyEnum (pySliceFrom a (i + 1))) c (fun it_ st_ => match it_, st_ with
                | (j, a_j), c =>
                  if pyIdxOk c.length (h + j) = false then .error .indexError else
                  let c := pySet c (h + j) ((pyGet c (h + j)) + (a_i_2 * a_j))
                  .ok c) with
            | .error exc_ => .error exc_
            | .ok c =>
              .ok c
          else
            .ok c) with
    | .error exc_ => .error exc_
    | .ok c =>
      match pyFor (ε := TErr) (σ := List Int) (pyRange 0 (c.length : Int)) c (fun it_ st_ => match it_, st_ with
          | i, c =>
            if pyIdxOk c.length i = false then .error .indexError else
            let c := pySet c i ((pyGet c i) % p)
            .ok c) with
      | .error exc_ => .error exc_
      | .ok c =>
        .ok (c)

-- ≙ gfpx.py:311 `_mul`
def mul (p : Int) (same : Bool) (a : List Int) (b : List Int) : Except TErr (List Int) :=
  if same = true then
    match sq p a with
    | .error exc_ => .error exc_
    | .ok v1 =>
      .ok (v1)
  else
    let (a, b) :=
      if (a.length : Int) > (b.length : Int) then
        let (a, b) := (b, a)
        (a, b)
      else
        (a, b)
    if ¬ (a ≠ []) then
      .ok (([] : List Int))
    else
      let c := (List.replicate ((((a.length : Int) + (b.length : Int)) - 1)).toNat (0 : Int))
      match pyFor (ε := TErr) (σ := List Int) (pyEnum a) c (fun it_ st_ => match it_, st_ with
          | (i, a_i), c =>
            if a_i ≠ 0 then
              match pyFor (ε := TErr) (σ := List Int) (pyEnum b) c (fun it_ st_ => match it_, st_ with
                  | (j, b_j), c =>
                    if pyIdxOk c.length (i + j) = false then .error .indexError else
                    let c := pySet c (i + j) ((pyGet c (i + j)) + (a_i * b_j))
                    .ok c) with
              | .error exc_ => .error exc_
              | .ok c =>
                .ok c
            else
              .ok c) with
      | .error exc_ => .error exc_
      | .ok c =>
        match pyFor (ε := TErr) (σ := List Int) (pyRange 0 (c.length : Int)) c (fun it_ st_ => match it_, st_ with
            | i, c =>
              if pyIdxOk c.length i = false then .error .indexError else
              let c := pySet c i ((pyGet c i) % p)
              .ok c) with
        | .error exc_ => .error exc_
        | .ok c =>
          .ok (c)

-- ≙ gfpx.py:362 `_mod`
def mod_N (p : Int) (a : List Int) : Except TErr (List Int) :=
  .ok (a)

-- ≙ gfpx.py:362 `_mod`
def mod (p : Int) (a : List Int) (b : List Int) : Except TErr (List Int) :=
  if b = ([] : List Int) then
    .error .zeroDivisionError
  else
    let m := (a.length : Int)
    let n := (b.length : Int)
    if m < n then
      .ok (a)
    else
      if pyIdxOk b.length (-1) = false then .error .indexError else
      match invertE (pyGet b (-1)) p with
      | .error exc_ => .error exc_
      | .ok v1 =>
        let b1 := v1
        let r := a
        match pyFor (ε := TErr) (σ := List Int) (pyRangeDown (m - n) (-1)) r (fun it_ st_ => match it_, st_ with
            | i, r =>
              if (r.length : Int) ≥ (i + n) then
                if pyIdxOk r.length (-1) = false then .error .indexError else
                let q_i := (((pyGet r (-1)) * b1) % p)
                match pyFor (ε := TErr) (σ := List Int) (pyRange 0 n) r (fun it_ st_ => match it_, st_ with
                    | j, r =>
                      if pyIdxOk r.length (i + j) = false then .error .indexError else
                      if pyIdxOk b.length j = false then .error .indexError else
                      let r := pySet r (i + j) ((pyGet r (i + j)) - (q_i * (pyGet b j)))
                      if pyIdxOk r.length (i + j) = false then .error .indexError else
                      let r := pySet r (i + j) ((pyGet r (i + j)) % p)
                      .ok r) with
                | .error exc_ => .error exc_
                | .ok r =>
                  let r := pyStrip r
                  .ok r
              else
                .ok r) with
        | .error exc_ => .error exc_
        | .ok r =>
          .ok (r)

-- ≙ gfpx.py:388 `_divmod`
def divmod (p : Int) (a : List Int) (b : List Int) : Except TErr ((List Int × List Int)) :=
  if b = ([] : List Int) then
    .error .zeroDivisionError
  else
    let m := (a.length : Int)
    let n := (b.length : Int)
    if m < n then
      .ok ((([] : List Int), a))
    else
      if pyIdxOk b.length (-1) = false then .error .indexError else
      match invertE (pyGet b (-1)) p with
      | .error exc_ => .error exc_
      | .ok v1 =>
        let b1 := v1
        let (q, r) := ((List.replicate (((m - n) + 1)).toNat (0 : Int)), a)
        match pyFor (ε := TErr) (σ := List Int × List Int) (pyRangeDown (m - n) (-1)) (q, r) (fun it_ st_ => match it_, st_ with
            | i, (q, r) =>
              if (r.length : Int) ≥ (i + n) then
                if pyIdxOk r.length (-1) = false then .error .indexError else
                let w2 := (((pyGet r (-1)) * b1) % p)
                if pyIdxOk q.length i = false then .error .indexError else
                let q := pySet q i w2
                let q_i := w2
                match pyFor (ε := TErr) (σ := List Int) (pyRange 0 n) r (fun it_ st_ => match it_, st_ with
                    | j, r =>
                      if pyIdxOk r.length (i + j) = false then .error .indexError else
                      if pyIdxOk b.length j = false then .error .indexError else
                      let r := pySet r (i + j) ((pyGet r (i + j)) - (q_i * (pyGet b j)))
                      if pyIdxOk r.length (i + j) = false then .error .indexError else
                      let r := pySet r (i + j) ((pyGet r (i + j)) % p)
                      .ok r) with
                | .error exc_ => .error exc_
                | .ok r =>
                  let r := pyStrip r
                  .ok (q, r)
              else
                .ok (q, r)) with
        | .error exc_ => .error exc_
        | .ok (q, r) =>
          .ok ((q, r))

-- ≙ gfpx.py:431 `_gcd`
def gcd (p : Int) (a : List Int) (b : List Int) : Except TErr (List Int) :=
  onLoop (loop (σ := List Int × List Int) (ρ := Empty) TErr.fuel (fun st_ => match st_ with
      | (a, b) =>
        if b ≠ [] then
          match mod p a b with
          | .error exc_ => .error exc_
          | .ok v1 =>
            let (a, b) := (b, v1)
            .ok (.next (a, b))
        else
          .ok (.brk (a, b))) (b.length + 1) (a, b))
    (fun r_ => nomatch r_)
    (fun st_ => match st_ with
      | (a, b) =>
        match monic p a with
        | .error exc_ => .error exc_
        | .ok v2 =>
          let a := v2
          .ok (a))

-- ≙ gfpx.py:438 `_gcdext`
def gcdext (p : Int) (a : List Int) (b : List Int) : Except TErr ((List Int × List Int × List Int)) :=
  let (s, s1) := (([1] : List Int), ([] : List Int))
  let (t, t1) := (([] : List Int), ([1] : List Int))
  onLoop (loop (σ := List Int × List Int × List Int × List Int × List Int × List Int) (ρ := Empty) TErr.fuel (fun st_ => match st_ with
      | (a, b, s, s1, t, t1) =>
        if b ≠ [] then
          match divmod p a b with
          | .error exc_ => .error exc_
          | .ok (v1, v2) =>
            let (a, (q, b)) := (b, (v1, v2))
            match mul p false q s1 with
            | .error exc_ => .error exc_
            | .ok v3 =>
              match sub p s v3 with
              | .error exc_ => .error exc_
              | .ok v4 =>
                let (s, s1) := (s1, v4)
                match mul p false q t1 with
                | .error exc_ => .error exc_
                | .ok v5 =>
                  match sub p t v5 with
                  | .error exc_ => .error exc_
                  | .ok v6 =>
                    let (t, t1) := (t1, v6)
                    .ok (.next (a, b, s, s1, t, t1))
        else
          .ok (.brk (a, b, s, s1, t, t1))) (b.length + 1) (a, b, s, s1, t, t1))
    (fun r_ => nomatch r_)
    (fun st_ => match st_ with
      | (a, b, s, s1, t, t1) =>
        match monic_lc p a with
        | .error exc_ => .error exc_
        | .ok (v7, v8) =>
          let (a, a1) := (v7, v8)
          match (show Except TErr (List Int × List Int) from
            if a1 ≥ 2 then
              match pyFor (ε := TErr) (σ := List Int) (pyRange 0 (s.length : Int)) s (fun it_ st_ => match it_, st_ with
                  | i, s =>
                    if pyIdxOk s.length i = false then .error .indexError else
                    let s := pySet s i ((pyGet s i) * a1)
                    if pyIdxOk s.length i = false then .error .indexError else
                    let s := pySet s i ((pyGet s i) % p)
                    .ok s) with
              | .error exc_ => .error exc_
              | .ok s =>
                match pyFor (ε := TErr) (σ := List Int) (pyRange 0 (t.length : Int)) t (fun it_ st_ => match it_, st_ with
                    | i, t =>
                      if pyIdxOk t.length i = false then .error .indexError else
                      let t := pySet t i ((pyGet t i) * a1)
                      if pyIdxOk t.length i = false then .error .indexError else
                      let t := pySet t i ((pyGet t i) % p)
                      .ok t) with
                | .error exc_ => .error exc_
                | .ok t =>
                  .ok (s, t)
            else
              .ok (s, t)) with
          | .error exc_ => .error exc_
          | .ok (s, t) =>
            .ok ((a, s, t)))

-- ≙ gfpx.py:458 `_invert`
def invert (p : Int) (a : List Int) (b : List Int) : Except TErr (List Int) :=
  if b = ([] : List Int) then
    .error .zeroDivisionError
  else
    let (s, s1) := (([1] : List Int), ([] : List Int))
    onLoop (loop (σ := List Int × List Int × List Int × List Int) (ρ := Empty) TErr.fuel (fun st_ => match st_ with
        | (a, b, s, s1) =>
          if b ≠ [] then
            match divmod p a b with
            | .error exc_ => .error exc_
            | .ok (v1, v2) =>
              let (a, (q, b)) := (b, (v1, v2))
              match mul p false q s1 with
              | .error exc_ => .error exc_
              | .ok v3 =>
                match sub p s v3 with
                | .error exc_ => .error exc_
                | .ok v4 =>
                  let (s, s1) := (s1, v4)
                  .ok (.next (a, b, s, s1))
          else
            .ok (.brk (a, b, s, s1))) (b.length + 1) (a, b, s, s1))
      (fun r_ => nomatch r_)
      (fun st_ => match st_ with
        | (a, b, s, s1) =>
          if (a.length : Int) ≠ 1 then
            .error .zeroDivisionError
          else
            if pyIdxOk a.length 0 = false then .error .indexError else
            match invertE (pyGet a 0) p with
            | .error exc_ => .error exc_
            | .ok v5 =>
              let a1 := v5
              match pyFor (ε := TErr) (σ := List Int) (pyRange 0 (s.length : Int)) s (fun it_ st_ => match it_, st_ with
                  | i, s =>
                    if pyIdxOk s.length i = false then .error .indexError else
                    let s := pySet s i ((pyGet s i) * a1)
                    if pyIdxOk s.length i = false then .error .indexError else
                    let s := pySet s i ((pyGet s i) % p)
                    .ok s) with
              | .error exc_ => .error exc_
              | .ok s =>
                .ok (s))

-- ≙ gfpx.py:411 `_powmod`
def powmod_N (p : Int) (a : List Int) (n : Int) : Except TErr (List Int) :=
  if n = 0 then
    match from_int p 1 with
    | .error exc_ => .error exc_
    | .ok v1 =>
      .ok (v1)
  else
    if n < 0 then
      .error .valueError
    else
      let b := a
      match pyFor (ε := TErr) (σ := List Int) (pyRangeDown (((NumTh.bitLength n : Nat) : Int) - 2) (-1)) b (fun it_ st_ => match it_, st_ with
          | i, b =>
            match sq p b with
            | .error exc_ => .error exc_
            | .ok v2 =>
              let b := v2
              match mod_N p b with
              | .error exc_ => .error exc_
              | .ok v3 =>
                let b := v3
                if i < 0 then .error .valueError else
                if ((pyShr n i) % 2) ≠ 0 then
                  match mul p false b a with
                  | .error exc_ => .error exc_
                  | .ok v4 =>
                    let b := v4
                    match mod_N p b with
                    | .error exc_ => .error exc_
                    | .ok v5 =>
                      let b := v5
                      .ok b
                else
                  .ok b) with
      | .error exc_ => .error exc_
      | .ok b =>
        .ok (b)

-- ≙ gfpx.py:411 `_powmod`
def powmod (p : Int) (a : List Int) (n : Int) (modulus : List Int) : Except TErr (List Int) :=
  if n = 0 then
    match from_int p 1 with
    | .error exc_ => .error exc_
    | .ok v1 =>
      .ok (v1)
  else
    if n < 0 then
      match invert p a modulus with
      | .error exc_ => .error exc_
      | .ok v2 =>
        let a := v2
        let n := (-n)
        let b := a
        match pyFor (ε := TErr) (σ := List Int) (pyRangeDown (((NumTh.bitLength n : Nat) : Int) - 2) (-1)) b (fun it_ st_ => match it_, st_ with
            | i, b =>
              match sq p b with
              | .error exc_ => .error exc_
              | .ok v3 =>
                let b := v3
                match mod p b modulus with
                | .error exc_ => .error exc_
                | .ok v4 =>
                  let b := v4
                  if i < 0 then .error .valueError else
                  if ((pyShr n i) % 2) ≠ 0 then
                    match mul p false b a with
                    | .error exc_ => .error exc_
                    | .ok v5 =>
                      let b := v5
                      match mod p b modulus with
                      | .error exc_ => .error exc_
                      | .ok v6 =>
                        let b := v6
                        .ok b
                  else
                    .ok b) with
        | .error exc_ => .error exc_
        | .ok b =>
          .ok (b)
    else
      let b := a
      match pyFor (ε := TErr) (σ := List Int) (pyRangeDown (((NumTh.bitLength n : Nat) : Int) - 2) (-1)) b (fun it_ st_ => match it_, st_ with
          | i, b =>
            match sq p b with
            | .error exc_ => .error exc_
            | .ok v7 =>
              let b := v7
              match mod p b modulus with
              | .error exc_ => .error exc_
              | .ok v8 =>
                let b := v8
                if i < 0 then .error .valueError else
                if ((pyShr n i) % 2) ≠ 0 then
                  match mul p false b a with
                  | .error exc_ => .error exc_
                  | .ok v9 =>
                    let b := v9
                    match mod p b modulus with
                    | .error exc_ => .error exc_
                    | .ok v10 =>
                      let b := v10
                      .ok b
                else
                  .ok b) with
      | .error exc_ => .error exc_
      | .ok b =>
        .ok (b)

-- ≙ gfpx.py:478 `_is_irreducible`
def is_irreducible (p : Int) (a : List Int) : Except TErr (Bool) :=
  match degree a with
  | .error exc_ => .error exc_
  | .ok v1 =>
    if v1 ≤ 0 then
      .ok (false)
    else
      let b := ([0, 1] : List Int)
      match degree a with
      | .error exc_ => .error exc_
      | .ok v2 =>
        let stop3 := (v2 / 2)
        let i_ := 0
        onLoop (loop (σ := List Int × Int) (ρ := Bool) TErr.fuel (fun st_ => match st_ with
            | (b, i_) =>
              if i_ < stop3 then
                match powmod p b p a with
                | .error exc_ => .error exc_
                | .ok v4 =>
                  let b := v4
                  match sub p b ([0, 1] : List Int) with
                  | .error exc_ => .error exc_
                  | .ok v5 =>
                    match gcd p v5 a with
                    | .error exc_ => .error exc_
                    | .ok v6 =>
                      if v6 ≠ ([1] : List Int) then
                        .ok (.ret false)
                      else
                        let i_ := (i_ + 1)
                        .ok (.next (b, i_))
              else
                .ok (.brk (b, i_))) ((stop3 - i_).toNat + 1) (b, i_))
          (fun r_ => .ok r_)
          (fun st_ => match st_ with
            | (b, i_) =>
              .ok (true))

-- ≙ gfpx.py:493 `_next_irreducible`
def next_irreducible (p : Int) (fuel : Nat) (a : List Int) : Except TErr (List Int) :=
  match to_int p a with
  | .error exc_ => .error exc_
  | .ok v1 =>
    let a := v1
    onLoop (loop (σ := Int) (ρ := List Int) TErr.fuel (fun st_ => match st_ with
        | a =>
          let a := (a + 1)
          let a :=
            if ((a % p) = 0 ∧ a ≠ p) then
              let a := (a + 1)
              (a)
            else
              (a)
          match from_int p a with
          | .error exc_ => .error exc_
          | .ok v2 =>
            let u_a := v2
            if pyIdxOk u_a.length (-1) = false then .error .indexError else
            if (pyGet u_a (-1)) ≠ 1 then
              let a := ((pyPow p (u_a.length : Int)) - 1)
              .ok (.next a)
            else
              match is_irreducible p u_a with
              | .error exc_ => .error exc_
              | .ok v3 =>
                if v3 = true then
                  match (show Except TErr (List Int) from
                    .ok (u_a)) with
                  | .error exc_ => .error exc_
                  | .ok r_ => .ok (.ret r_)
                else
                  .ok (.next a)) (fuel) a)
      (fun r_ => .ok r_)
      (fun _ => .error TErr.fuel)

-- ≙ gfpx.py:938 `_degree`
def b_degree (a : Int) : Except TErr (Int) :=
  .ok ((((NumTh.bitLength a : Nat) : Int) - 1))

-- ≙ gfpx.py:1007 `_sq`
def b_sq (a : Int) : Except TErr (Int) :=
  let d := 1
  let c := 0
  onLoop (loop (σ := Int × Int × Int) (ρ := Empty) TErr.fuel (fun st_ => match st_ with
      | (c, d, a) =>
        if a ≠ 0 then
          let c :=
            if (a % 2) ≠ 0 then
              let c := (pyOr c d)
              (c)
            else
              (c)
          let d := (pyShl d 2)
          let a := (pyShr a 1)
          .ok (.next (c, d, a))
        else
          .ok (.brk (c, d, a))) (a.toNat + 1) (c, d, a))
    (fun r_ => nomatch r_)
    (fun st_ => match st_ with
      | (c, d, a) =>
        .ok (c))

-- ≙ gfpx.py:990 `_mul`
def b_mul (a : Int) (b : Int) : Except TErr (Int) :=
  if a = b then
    match b_sq a with
    | .error exc_ => .error exc_
    | .ok v1 =>
      .ok (v1)
  else
    let (a, b) :=
      if a < b then
        let (a, b) := (b, a)
        (a, b)
      else
        (a, b)
    let c := 0
    onLoop (loop (σ := Int × Int × Int) (ρ := Empty) TErr.fuel (fun st_ => match st_ with
        | (c, a, b) =>
          if b ≠ 0 then
            let c :=
              if (b % 2) ≠ 0 then
                let c := (pyXor c a)
                (c)
              else
                (c)
            let a := (pyShl a 1)
            let b := (pyShr b 1)
            .ok (.next (c, a, b))
          else
            .ok (.brk (c, a, b))) (b.toNat + 1) (c, a, b))
      (fun r_ => nomatch r_)
      (fun st_ => match st_ with
        | (c, a, b) =>
          .ok (c))

-- ≙ gfpx.py:1027 `_mod`
def b_mod (a : Int) (b : Int) : Except TErr (Int) :=
  if b = 0 then
    .error .zeroDivisionError
  else
    let m := ((NumTh.bitLength a : Nat) : Int)
    let n := ((NumTh.bitLength b : Nat) : Int)
    if m < n then
      .ok (a)
    else
      if (m - n) < 0 then .error .valueError else
      let b := (pyShl b (m - n))
      let a := (pyXor a b)
      match pyFor (ε := TErr) (σ := Int × Int) (pyRangeDown (m - 2) (n - 2)) (b, a) (fun it_ st_ => match it_, st_ with
          | i, (b, a) =>
            let b := (pyShr b 1)
            if i < 0 then .error .valueError else
            if ((pyShr a i) % 2) ≠ 0 then
              let a := (pyXor a b)
              .ok (b, a)
            else
              .ok (b, a)) with
      | .error exc_ => .error exc_
      | .ok (b, a) =>
        .ok (a)

-- ≙ gfpx.py:1048 `_divmod`
def b_divmod (a : Int) (b : Int) : Except TErr ((Int × Int)) :=
  if b = 0 then
    .error .zeroDivisionError
  else
    let m := ((NumTh.bitLength a : Nat) : Int)
    let n := ((NumTh.bitLength b : Nat) : Int)
    if m < n then
      .ok ((0, a))
    else
      if (m - n) < 0 then .error .valueError else
      let b := (pyShl b (m - n))
      let q := 1
      let a := (pyXor a b)
      match pyFor (ε := TErr) (σ := Int × Int × Int) (pyRangeDown (m - 2) (n - 2)) (b, q, a) (fun it_ st_ => match it_, st_ with
          | i, (b, q, a) =>
            let b := (pyShr b 1)
            let q := (pyShl q 1)
            if i < 0 then .error .valueError else
            if ((pyShr a i) % 2) ≠ 0 then
              let q := (pyXor q 1)
              let a := (pyXor a b)
              .ok (b, q, a)
            else
              .ok (b, q, a)) with
      | .error exc_ => .error exc_
      | .ok (b, q, a) =>
        .ok ((q, a))

-- ≙ gfpx.py:1069 `_gcd`
def b_gcd (a : Int) (b : Int) : Except TErr (Int) :=
  onLoop (loop (σ := Int × Int) (ρ := Empty) TErr.fuel (fun st_ => match st_ with
      | (a, b) =>
        if b ≠ 0 then
          match b_mod a b with
          | .error exc_ => .error exc_
          | .ok v1 =>
            let (a, b) := (b, v1)
            .ok (.next (a, b))
        else
          .ok (.brk (a, b))) (NumTh.bitLength b + 1) (a, b))
    (fun r_ => nomatch r_)
    (fun st_ => match st_ with
      | (a, b) =>
        .ok (a))

-- ≙ gfpx.py:1075 `_gcdext`
def b_gcdext (a : Int) (b : Int) : Except TErr ((Int × Int × Int)) :=
  let (s, s1) := (1, 0)
  let (t, t1) := (0, 1)
  onLoop (loop (σ := Int × Int × Int × Int × Int × Int) (ρ := Empty) TErr.fuel (fun st_ => match st_ with
      | (a, b, s, s1, t, t1) =>
        if b ≠ 0 then
          match b_divmod a b with
          | .error exc_ => .error exc_
          | .ok (v1, v2) =>
            let (a, (q, b)) := (b, (v1, v2))
            match b_mul q s1 with
            | .error exc_ => .error exc_
            | .ok v3 =>
              let (s, s1) := (s1, (pyXor s v3))
              match b_mul q t1 with
              | .error exc_ => .error exc_
              | .ok v4 =>
                let (t, t1) := (t1, (pyXor t v4))
                .ok (.next (a, b, s, s1, t, t1))
        else
          .ok (.brk (a, b, s, s1, t, t1))) (NumTh.bitLength b + 1) (a, b, s, s1, t, t1))
    (fun r_ => nomatch r_)
    (fun st_ => match st_ with
      | (a, b, s, s1, t, t1) =>
        .ok ((a, s, t)))

-- ≙ gfpx.py:1085 `_invert`
def b_invert (a : Int) (b : Int) : Except TErr (Int) :=
  if b = 0 then
    .error .zeroDivisionError
  else
    let (s, s1) := (1, 0)
    onLoop (loop (σ := Int × Int × Int × Int) (ρ := Empty) TErr.fuel (fun st_ => match st_ with
        | (a, b, s, s1) =>
          if b ≠ 0 then
            match b_divmod a b with
            | .error exc_ => .error exc_
            | .ok (v1, v2) =>
              let (a, (q, b)) := (b, (v1, v2))
              match b_mul q s1 with
              | .error exc_ => .error exc_
              | .ok v3 =>
                let (s, s1) := (s1, (pyXor s v3))
                .ok (.next (a, b, s, s1))
          else
            .ok (.brk (a, b, s, s1))) (NumTh.bitLength b + 1) (a, b, s, s1))
      (fun r_ => nomatch r_)
      (fun st_ => match st_ with
        | (a, b, s, s1) =>
          if a ≠ 1 then
            .error .zeroDivisionError
          else
            .ok (s))

-- ≙ gfpx.py:1099 `_is_irreducible`
def b_is_irreducible (a : Int) : Except TErr (Bool) :=
  if a ≤ 1 then
    .ok (false)
  else
    let b := 2
    match b_degree a with
    | .error exc_ => .error exc_
    | .ok v1 =>
      let stop2 := (v1 / 2)
      let i_ := 0
      onLoop (loop (σ := Int × Int) (ρ := Bool) TErr.fuel (fun st_ => match st_ with
          | (b, i_) =>
            if i_ < stop2 then
              match b_mul b b with
              | .error exc_ => .error exc_
              | .ok v3 =>
                let b := v3
                match b_mod b a with
                | .error exc_ => .error exc_
                | .ok v4 =>
                  let b := v4
                  match b_gcd (pyXor b 2) a with
                  | .error exc_ => .error exc_
                  | .ok v5 =>
                    if v5 ≠ 1 then
                      .ok (.ret false)
                    else
                      let i_ := (i_ + 1)
                      .ok (.next (b, i_))
            else
              .ok (.brk (b, i_))) ((stop2 - i_).toNat + 1) (b, i_))
        (fun r_ => .ok r_)
        (fun st_ => match st_ with
          | (b, i_) =>
            .ok (true))

-- ≙ gfpx.py:1114 `_next_irreducible`
def b_next_irreducible (fuel : Nat) (a : Int) : Except TErr (Int) :=
  match (show Except TErr (Int) from
    if a ≤ 1 then
      let a := 2
      .ok (a)
    else
      let a := (a + (1 + (a % 2)))
      onLoop (loop (σ := Int) (ρ := Empty) TErr.fuel (fun st_ => match st_ with
          | a =>
            match b_is_irreducible a with
            | .error exc_ => .error exc_
            | .ok v1 =>
              if ¬ (v1 = true) then
                let a := (a + 2)
                .ok (.next a)
              else
                .ok (.brk a)) (fuel) a)
        (fun r_ => nomatch r_)
        (fun st_ => match st_ with
          | a =>
            .ok (a))) with
  | .error exc_ => .error exc_
  | .ok a =>
    .ok (a)

end MpycV.GfpxMirror
