/-
Lemmas for C30, unit_vector: one loop round maps the unit vector for the high bits to the one for one
more bit (`uvStep_EV`), the loop (`uvLoop_EV`), `unitVector_spec'` (0 ≤ a < n) and the documented wrap
a = n ↦ e_0 (`unitVector_wrap'`).
-/
import MpycV.Lemmas.BitsAdd

set_option linter.unusedSimpArgs false
set_option linter.unreachableTactic false
set_option linter.unusedTactic false
namespace MpycV.Bits

/-! ### unit_vector -/

/-- indicator `[j + 1 = A]` -/
def ind (A j : Nat) : Int := if j + 1 = A then 1 else 0

/-- positions `s, …, s+B-1`: 1 at position `A - 1` (if it lies in the range), 0 elsewhere -/
def EV (A s B : Nat) : List Int := (List.range' s B).map (ind A)

theorem sum_mul_EV (c : Int) (A : Nat) : ∀ (B s : Nat),
    ((List.range' s B).map (fun j => c * ind A j)).sum = if s + 1 ≤ A ∧ A ≤ s + B then c else 0
  | 0, s => by
      have : ¬ (s + 1 ≤ A ∧ A ≤ s + 0) := by omega
      (simp [this]; all_goals (intros; omega))
  | B + 1, s => by
      rw [List.range'_succ, List.map_cons, List.sum_cons, sum_mul_EV c A B (s + 1)]
      unfold ind
      by_cases h1 : s + 1 = A
      · have h2 : ¬ (s + 1 + 1 ≤ A ∧ A ≤ s + 1 + B) := by omega
        have h3 : s + 1 ≤ A ∧ A ≤ s + (B + 1) := by omega
        (simp [h1, h2, h3]; all_goals (intros; omega))
      · by_cases h2 : s + 1 + 1 ≤ A ∧ A ≤ s + 1 + B
        · have h3 : s + 1 ≤ A ∧ A ≤ s + (B + 1) := by omega
          (simp [h1, h2, h3]; all_goals (intros; omega))
        · have h3 : ¬ (s + 1 ≤ A ∧ A ≤ s + (B + 1)) := by omega
          (simp [h1, h2, h3]; all_goals (intros; omega))

theorem interleave_EV (xi : Int) (hx : xi = 0 ∨ xi = 1) (A : Nat) (xn : Nat) (hxn : xi = (xn : Int)) :
    ∀ (B s : Nat),
      interleave ((List.range' s B).map (fun j => ind A j - xi * ind A j))
        ((List.range' s B).map (fun j => xi * ind A j)) = EV (2 * A + xn) (2 * s + 1) (2 * B)
  | 0, s => by (simp [interleave, EV]; all_goals (intros; omega))
  | B + 1, s => by
      have ih := interleave_EV xi hx A xn hxn B (s + 1)
      have e : 2 * (B + 1) = (2 * B + 1) + 1 := by omega
      have e2 : 2 * (s + 1) + 1 = 2 * s + 1 + 1 + 1 := by omega
      rw [List.range'_succ]
      simp only [List.map_cons, interleave]
      rw [ih]
      unfold EV
      rw [e, List.range'_succ, List.range'_succ, List.map_cons, List.map_cons, e2]
      congr 1
      · unfold ind
        rcases hx with h0 | h1
        · have : xn = 0 := by rw [h0] at hxn; exact_mod_cast hxn.symm
          subst this; rw [h0]
          by_cases h : s + 1 = A
          · have : 2 * s + 1 + 1 = 2 * A + 0 := by omega
            (simp [h, this]; all_goals (intros; omega))
          · have : ¬ 2 * s + 1 + 1 = 2 * A + 0 := by omega
            (simp [h, this]; all_goals (intros; omega))
        · have : xn = 1 := by rw [h1] at hxn; exact_mod_cast hxn.symm
          subst this; rw [h1]
          have : ¬ 2 * s + 1 + 1 = 2 * A + 1 := by omega
          (simp [this]; all_goals (intros; omega))
      · congr 1
        unfold ind
        rcases hx with h0 | h1
        · have : xn = 0 := by rw [h0] at hxn; exact_mod_cast hxn.symm
          subst this; rw [h0]
          have : ¬ 2 * s + 1 + 1 + 1 = 2 * A + 0 := by omega
          (simp [this]; all_goals (intros; omega))
        · have : xn = 1 := by rw [h1] at hxn; exact_mod_cast hxn.symm
          subst this; rw [h1]
          by_cases h : s + 1 = A
          · have : 2 * s + 1 + 1 + 1 = 2 * A + 1 := by omega
            (simp [h, this]; all_goals (intros; omega))
          · have : ¬ 2 * s + 1 + 1 + 1 = 2 * A + 1 := by omega
            (simp [h, this]; all_goals (intros; omega))

/-- one round of the loop: from the (A-1)st unit vector of length B (all-zero for A = 0) to the
(A'-1)st of length B' with `A' = 2A + x_i`, `B' = 2B + b_i` — provided `A ≤ B` or `x_i = 0`. -/
theorem uvStep_EV (xn : Nat) (hxn : xn = 0 ∨ xn = 1) (bi : Bool) (A B : Nat) (hAB : A ≤ B ∨ xn = 0) :
    uvStep (xn : Int) bi (EV A 0 B) = EV (2 * A + xn) 0 (2 * B + bi.toNat) := by
  have hx : (xn : Int) = 0 ∨ (xn : Int) = 1 := by rcases hxn with h | h <;> simp [h]
  unfold uvStep
  have hv : (EV A 0 B).map ((xn : Int) * ·) = (List.range' 0 B).map (fun j => (xn : Int) * ind A j) := by
    unfold EV; rw [List.map_map]; rfl
  have hw : List.zipWith (· - ·) (EV A 0 B) ((EV A 0 B).map ((xn : Int) * ·))
      = (List.range' 0 B).map (fun j => ind A j - (xn : Int) * ind A j) := by
    rw [hv]; unfold EV
    rw [List.zipWith_map_left, List.zipWith_map_right, List.zipWith_self]
  simp only []
  rw [hw, hv]
  rw [sum_mul_EV, interleave_EV _ hx A xn rfl]
  have hhead : ((xn : Int) - if 0 + 1 ≤ A ∧ A ≤ 0 + B then (xn : Int) else 0) = ind (2 * A + xn) 0 := by
    unfold ind
    rcases hxn with h | h
    · subst h
      have : ¬ 1 = 2 * A := by omega
      simp [this]
    · subst h
      have hA : A ≤ B := by rcases hAB with h | h; exact h; omega
      by_cases hA0 : A = 0
      · subst hA0; simp
      · have h1 : 1 ≤ A := by omega
        simp [h1, hA, hA0]
  rw [hhead]
  have hfull : ind (2 * A + xn) 0 :: EV (2 * A + xn) (2 * 0 + 1) (2 * B) = EV (2 * A + xn) 0 (2 * B + 1) := by
    unfold EV; rw [List.range'_succ, List.map_cons]
  rw [hfull]
  cases bi with
  | true => simp
  | false =>
    simp only [Bool.false_eq_true, if_false, Bool.toNat_false, add_zero]
    unfold EV
    rw [List.range'_concat, List.map_append, List.map_cons, List.map_nil, List.dropLast_concat]


theorem div_pow_step (n i : Nat) : n / 2 ^ i = 2 * (n / 2 ^ (i + 1)) + n / 2 ^ i % 2 := by
  have h1 := Nat.div_add_mod (n / 2 ^ i) 2
  have h2 : n / 2 ^ i / 2 = n / 2 ^ (i + 1) := by rw [Nat.div_div_eq_div_mul, Nat.pow_succ]
  rw [h2] at h1; omega

/-- the loop of `unit_vector`, started at bit position `i` with the unit vector for the high parts -/
theorem uvLoop_EV (a b : Nat) (x : List Int) : ∀ i : Nat,
    (∀ j, j < i → x.getD j 0 = ((a / 2 ^ j % 2 : Nat) : Int)) →
    (∀ j, j < i → a / 2 ^ (j + 1) ≤ b / 2 ^ (j + 1) ∨ a / 2 ^ j % 2 = 0) →
    uvLoop b x i (EV (a / 2 ^ i) 0 (b / 2 ^ i)) = EV a 0 b
  | 0, _, _ => by simp [uvLoop]
  | i + 1, hx, hab => by
      rw [uvLoop, hx i (by omega)]
      have hbit : a / 2 ^ i % 2 = 0 ∨ a / 2 ^ i % 2 = 1 := by omega
      rw [uvStep_EV (a / 2 ^ i % 2) hbit (b.testBit i) _ _ (hab i (by omega)),
        Nat.toNat_testBit, ← div_pow_step, ← div_pow_step]
      exact uvLoop_EV a b x i (fun j hj => hx j (by omega)) (fun j hj => hab j (by omega))

theorem lt_two_pow_bitLength (b : Nat) : b < 2 ^ bitLength b := by
  unfold bitLength
  split
  · rename_i h; subst h; simp
  · exact Nat.lt_log2_self

theorem getD_bitsOf (a : Nat) (k j : Nat) (hj : j < k) :
    (bitsOf (a : Int) k).getD j 0 = ((a / 2 ^ j % 2 : Nat) : Int) := by
  unfold bitsOf
  rw [List.getD_eq_getElem?_getD, List.getElem?_map, List.getElem?_range hj]
  simp only [Option.map_some, Option.getD_some]
  push_cast
  rfl

/-- the a-th unit vector of length n -/
def unitVec (a n : Nat) : List Int := (List.range n).map (fun j => if j = a then 1 else 0)

theorem cons_EV_eq_unitVec (a b : Nat) (ha : a ≤ b) :
    (1 - (EV a 0 b).sum) :: EV a 0 b = unitVec a (b + 1) := by
  have hs := sum_mul_EV 1 a b 0
  simp only [one_mul] at hs
  unfold EV
  rw [show (List.range' 0 b).map (ind a) = (List.range' 0 b).map (fun j => ind a j) from rfl, hs]
  unfold unitVec
  rw [List.range_succ_eq_map, List.map_cons, List.map_map, List.range_eq_range']
  congr 1
  · by_cases h0 : a = 0
    · subst h0; simp
    · have h1 : 1 ≤ a := by omega
      have h0' : ¬ 0 = a := fun h => h0 h.symm
      simp [h1, ha, h0']

/-- `unit_vector(a, n)` for 0 ≤ a < n, given the k = bit_length(n-1) low bits of a -/
theorem unitVector_spec' (a n : Nat) (hn : 0 < n) (ha : a < n) :
    unitVector (bitsOf (a : Int) (bitLength (n - 1))) n = unitVec a n := by
  unfold unitVector
  simp only
  have hb := lt_two_pow_bitLength (n - 1)
  have ha' : a ≤ n - 1 := by omega
  have h0a : a / 2 ^ bitLength (n - 1) = 0 := Nat.div_eq_of_lt (by omega)
  have h0b : (n - 1) / 2 ^ bitLength (n - 1) = 0 := Nat.div_eq_of_lt hb
  have hloop := uvLoop_EV a (n - 1) (bitsOf (a : Int) (bitLength (n - 1))) (bitLength (n - 1))
    (fun j hj => getD_bitsOf a _ j hj)
    (fun j _ => Or.inl (Nat.div_le_div_right ha'))
  rw [h0a, h0b] at hloop
  have hnil : EV 0 0 0 = [] := rfl
  rw [hnil] at hloop
  rw [hloop, cons_EV_eq_unitVec a (n - 1) ha']
  congr 1; omega


theorem succ_div_or_even (b j : Nat) :
    (b + 1) / 2 ^ (j + 1) ≤ b / 2 ^ (j + 1) ∨ (b + 1) / 2 ^ j % 2 = 0 := by
  by_cases h : 2 ^ (j + 1) ∣ b + 1
  · right
    obtain ⟨q, hq⟩ := h
    have : b + 1 = 2 ^ j * (2 * q) := by rw [hq, Nat.pow_succ]; ring
    rw [this, Nat.mul_div_cancel_left _ (Nat.two_pow_pos j)]; omega
  · left
    rw [Nat.succ_div_of_not_dvd h]

theorem EV_succ_eq_zeros (b : Nat) : EV (b + 1) 0 b = List.replicate b 0 := by
  unfold EV
  rw [List.eq_replicate_iff]
  refine ⟨by simp, ?_⟩
  intro x hx
  simp only [List.mem_map, List.mem_range'_1] at hx
  obtain ⟨j, hj, rfl⟩ := hx
  unfold ind
  have : ¬ j = b := by omega
  simp [this]

theorem unitVec_zero (n : Nat) (hn : 0 < n) : unitVec 0 n = 1 :: List.replicate (n - 1) 0 := by
  obtain ⟨m, rfl⟩ : ∃ m, n = m + 1 := ⟨n - 1, by omega⟩
  unfold unitVec
  rw [List.range_succ_eq_map, List.map_cons, List.map_map]
  simp only [if_true, Nat.add_sub_cancel]
  congr 1
  rw [List.eq_replicate_iff]
  refine ⟨by simp, ?_⟩
  intro x hx
  simp only [List.mem_map, Function.comp] at hx
  obtain ⟨j, _, rfl⟩ := hx
  simp

/-- the documented wrap: `unit_vector(n, n)` (a = n) is the unit vector e_0 -/
theorem unitVector_wrap' (n : Nat) (hn : 0 < n) :
    unitVector (bitsOf (n : Int) (bitLength (n - 1))) n = unitVec 0 n := by
  have hb := lt_two_pow_bitLength (n - 1)
  by_cases hpow : n = 2 ^ bitLength (n - 1)
  · -- n is a power of two: the k low bits of a = n vanish
    have e : bitsOf (n : Int) (bitLength (n - 1)) = bitsOf ((0 : Nat) : Int) (bitLength (n - 1)) := by
      rw [← bitsOf_emod (n : Int)]
      congr 1
      conv => lhs; lhs; rw [hpow]
      push_cast
      simp
    rw [e]
    exact unitVector_spec' 0 n hn hn
  · have hlt : n < 2 ^ bitLength (n - 1) := by omega
    unfold unitVector
    simp only
    have h0a : n / 2 ^ bitLength (n - 1) = 0 := Nat.div_eq_of_lt hlt
    have h0b : (n - 1) / 2 ^ bitLength (n - 1) = 0 := Nat.div_eq_of_lt hb
    have hn1 : n = (n - 1) + 1 := by omega
    have hloop := uvLoop_EV n (n - 1) (bitsOf (n : Int) (bitLength (n - 1))) (bitLength (n - 1))
      (fun j hj => getD_bitsOf n _ j hj)
      (fun j _ => by
        have := succ_div_or_even (n - 1) j
        rw [← hn1] at this; exact this)
    rw [h0a, h0b] at hloop
    have hnil : EV 0 0 0 = [] := rfl
    rw [hnil] at hloop
    rw [hloop, unitVec_zero n hn]
    have hz : EV n 0 (n - 1) = List.replicate (n - 1) 0 := by
      conv => lhs; rw [hn1]
      exact EV_succ_eq_zeros (n - 1)
    rw [hz]
    simp

end MpycV.Bits
