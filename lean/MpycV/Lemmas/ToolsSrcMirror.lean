/- MIRROR of the translator output (harness/py2lean_tools.py on mpyc/mpctools.py at the pinned commit), kept by hand: the
bridge lemmas (Lemmas/ToolsSrcBridge.lean) prove these definitions equal to the model MpycV.Model.Tools for every `f`;
PropsGen/C32Src.lean proves the freshly generated MpycV.MpctoolsSrc definitions equal to these by `rfl`.  Regenerate with
  python harness/py2lean_tools.py /tmp/x.lean && sed s/MpctoolsSrc/MpctoolsMirror/g   (then re-prove the bridge)
when /repo legitimately changes. -/
import MpycV.Model.PyTools
namespace MpycV.MpctoolsMirror
open MpycV.PyLoop MpycV.PyTools
set_option linter.unusedVariables false


-- ≙ mpctools.py:19 `reduce`
def reduce {α : Type} (f : α → α → α) (x : List α) (initial : Option α) : Except TErr (α) :=
  let x := (pyList x)
  match ((match initial with
      | some initial_v1 =>
        let x := pyInsert x 0 initial_v1
        .ok x
      | none =>
        .ok x) : Except TErr (List α)) with
  | .error exc_ => .error exc_
  | .ok x =>
    if x.isEmpty then
      .error .typeError
    else
      onLoop (loop (σ := List α) (ρ := Empty) TErr.fuel (fun st => match st with
          | x =>
            if (x.length : Int) > 1 then
              match pyMapM (pyRangeStep ((x.length : Int) % 2) (x.length : Int) 2) (fun i =>
                  match pyGet? x i with
                  | none => .error .indexError
                  | some v2 =>
                    match pyGet? x (i + 1) with
                    | none => .error .indexError
                    | some v3 =>
                      .ok (f v2 v3)) with
              | .error exc_ => .error exc_
              | .ok v4 =>
                let x := pySliceSet x (some ((x.length : Int) % 2)) none v4
                .ok (.next x)
            else
              .ok (.brk x)) (x.length) x)
        (fun r => nomatch r)
        (fun st => match st with
          | x =>
            match pyGet? x 0 with
            | none => .error .indexError
            | some v5 =>
              .ok v5)

-- ≙ mpctools.py:75 nested `acc` of `accumulate`
def accumulate.acc_1 {α : Type} (f : α → α → α) : Nat → List α → Int → Int → Except TErr (List α)
  | 0, _, _, _ => .error .fuel
  | fuel + 1, x, i, j =>
    let h := ((i + j) / 2)
    if i < h then
      match accumulate.acc_1 f fuel x i h with
      | .error exc_ => .error exc_
      | .ok x =>
        match pyGet? x (h - 1) with
        | none => .error .indexError
        | some v1 =>
          let a := v1
          match ((if i ≠ 0 then
                match pyGet? x (i - 1) with
                | none => .error .indexError
                | some v2 =>
                  match pySet? x (h - 1) (f v2 a) with
                  | none => .error .indexError
                  | some x =>
                    .ok x
              else
                .ok x) : Except TErr (List α)) with
          | .error exc_ => .error exc_
          | .ok x =>
            match accumulate.acc_1 f fuel x h j with
            | .error exc_ => .error exc_
            | .ok x =>
              match pyGet? x (j - 1) with
              | none => .error .indexError
              | some v3 =>
                match pySet? x (j - 1) (f a v3) with
                | none => .error .indexError
                | some x =>
                  .ok x
    else
      .ok x

-- ≙ mpctools.py:87 nested `acc` of `accumulate`
def accumulate.acc_2 {α : Type} (f : α → α → α) : Nat → List α → Int → Int → Except TErr (List α)
  | 0, _, _, _ => .error .fuel
  | fuel + 1, x, i, j =>
    let h := ((i + j) / 2)
    if i < h then
      match accumulate.acc_2 f fuel x i h with
      | .error exc_ => .error exc_
      | .ok x =>
        match pyGet? x (h - 1) with
        | none => .error .indexError
        | some v1 =>
          let a := v1
          match accumulate.acc_2 f fuel x h j with
          | .error exc_ => .error exc_
          | .ok x =>
            let x := pySliceSet x (some h) (some j) (List.map (fun b => (f a b)) (pySlice x (some h) (some j)))
            .ok x
    else
      .ok x

-- ≙ mpctools.py:45 `accumulate`
def accumulate {α : Type} (f : α → α → α) (no_prss : Bool) (x : List α) (initial : Option α) (method : Option String) : Except TErr (List α) :=
  let x := (pyList x)
  match ((match initial with
      | some initial_v1 =>
        let x := pyInsert x 0 initial_v1
        .ok x
      | none =>
        .ok x) : Except TErr (List α)) with
  | .error exc_ => .error exc_
  | .ok x =>
    let n := (x.length : Int)
    match ((match method with
        | some method_v2 =>
          .ok method_v2
        | none =>
          let method := (if (no_prss && decide (n ≥ 32)) = true then "Brent-Kung" else "Sklansky")
          .ok method) : Except TErr (String)) with
    | .error exc_ => .error exc_
    | .ok method =>
      match ((if method = "Brent-Kung" then
            .ok (accumulate.acc_1 f)
          else
            if method = "Sklansky" then
              .ok (accumulate.acc_2 f)
            else
              .error .valueError) : Except TErr (Nat → List α → Int → Int → Except TErr (List α))) with
      | .error exc_ => .error exc_
      | .ok acc =>
        match acc (x.length + 1) x 0 n with
        | .error exc_ => .error exc_
        | .ok x =>
          .ok x

end MpycV.MpctoolsMirror
