/-
Lemmas about the model of mpyc/random.py: inner products with unit vectors, the Fisher–Yates step is a
transposition, shuffle / sample / derangement loops, choice.
-/
import MpycV.Lemmas.RandomVec

namespace MpycV.Random

/-! ### inner products -/

theorem foldl_add_init (l : List Int) (a : Int) : l.foldl (· + ·) a = a + l.foldl (· + ·) 0 := by
  induction l generalizing a with
  | nil => simp
  | cons b l ih => simp only [List.foldl_cons]; rw [ih (a + b), ih (0 + b)]; omega

theorem inProd_nil_left (v : List Int) : inProd [] v = 0 := by simp [inProd]
theorem inProd_nil_right (u : List Int) : inProd u [] = 0 := by simp [inProd]

theorem inProd_cons (a b : Int) (u v : List Int) : inProd (a :: u) (b :: v) = a * b + inProd u v := by
  simp only [inProd, List.zipWith_cons_cons, List.foldl_cons]
  rw [foldl_add_init]; omega

theorem inProd_comm (u v : List Int) : inProd u v = inProd v u := by
  induction u generalizing v with
  | nil => simp [inProd_nil_left, inProd_nil_right]
  | cons a u ih =>
    cases v with
    | nil => simp [inProd_nil_left, inProd_nil_right]
    | cons b v => rw [inProd_cons, inProd_cons, ih, Int.mul_comm]

theorem inProd_zeros (t : List Int) (q : Nat) : inProd t (List.replicate q 0) = 0 := by
  induction t generalizing q with
  | nil => exact inProd_nil_left _
  | cons a t ih =>
    cases q with
    | zero => exact inProd_nil_right _
    | succ q => rw [List.replicate_succ, inProd_cons, ih]; simp

theorem scalarMul_cons (d a : Int) (u : List Int) : scalarMul d (a :: u) = d * a :: scalarMul d u := rfl

theorem scalarMul_zeros (d : Int) (q : Nat) : scalarMul d (List.replicate q 0) = List.replicate q 0 := by
  simp [scalarMul]

theorem vectorAdd_cons (a b : Int) (u v : List Int) : vectorAdd (a :: u) (b :: v) = (a + b) :: vectorAdd u v := rfl

theorem vectorAdd_zeros (t : List Int) : vectorAdd t (List.replicate t.length 0) = t := by
  induction t with
  | nil => rfl
  | cons a t ih => rw [List.length_cons, List.replicate_succ, vectorAdd_cons, ih]; simp

/-- `in_prod(t, e_p)` picks an element `c` of `t`, and adding `(x0 - c)·e_p` to `t` puts `x0` in its place:
the result together with `c` is a rearrangement of `x0 :: t` -/
theorem unit_pick (q : Nat) : ∀ (p : Nat) (t : List Int) (x0 : Int), t.length = p + q + 1 →
    (inProd t (unitAt p q) :: vectorAdd t (scalarMul (x0 - inProd t (unitAt p q)) (unitAt p q))).Perm (x0 :: t)
    ∧ (vectorAdd t (scalarMul (x0 - inProd t (unitAt p q)) (unitAt p q))).length = t.length
    ∧ inProd t (unitAt p q) ∈ t := by
  intro p
  induction p with
  | zero =>
    intro t x0 hlen
    cases t with
    | nil => simp at hlen
    | cons c r =>
      have hr : r.length = q := by simp at hlen; omega
      rw [unitAt_zero, inProd_cons, inProd_zeros, scalarMul_cons, scalarMul_zeros, vectorAdd_cons]
      have hz := vectorAdd_zeros r
      rw [hr] at hz
      rw [hz]
      have e : c + (x0 - (c * 1 + 0)) * 1 = x0 := by ring
      have e2 : c * 1 + 0 = c := by ring
      rw [e, e2]
      exact ⟨List.Perm.swap _ _ _, by simp, by simp⟩
  | succ p ih =>
    intro t x0 hlen
    cases t with
    | nil => simp at hlen
    | cons a t' =>
      have ht' : t'.length = p + q + 1 := by simp at hlen; omega
      obtain ⟨h1, h2, h3⟩ := ih t' x0 ht'
      rw [unitAt_succ, inProd_cons, scalarMul_cons, vectorAdd_cons]
      have e2 : a * 0 + inProd t' (unitAt p q) = inProd t' (unitAt p q) := by ring
      rw [e2]
      have e3 : a + (x0 - inProd t' (unitAt p q)) * 0 = a := by ring
      rw [e3]
      refine ⟨?_, by simp [h2], List.mem_cons_of_mem _ h3⟩
      exact ((List.Perm.swap _ _ _).trans (h1.cons a)).trans (List.Perm.swap _ _ _)

/-- one Fisher–Yates step rearranges the suffix -/
theorem fyStep_perm {xs u : List Int} (hu : IsUnitVec u) (hlen : u.length = xs.length) :
    (fyStep xs u).Perm xs ∧ (fyStep xs u).length = xs.length := by
  obtain ⟨p, q, rfl⟩ := hu
  rw [unitAt_length] at hlen
  cases xs with
  | nil => simp at hlen
  | cons x0 t =>
    have ht : t.length = p + q := by simp at hlen; omega
    unfold fyStep
    simp only [List.headD_cons, List.tail_cons]
    cases p with
    | zero =>
      rw [unitAt_zero, inProd_cons, inProd_zeros, scalarMul_cons, scalarMul_zeros, vectorAdd_cons]
      have hz := vectorAdd_zeros t
      rw [ht, Nat.zero_add] at hz
      rw [hz]
      have e : x0 * 1 + 0 + (x0 - (x0 * 1 + 0)) * 1 = x0 := by ring
      rw [e]
      exact ⟨List.Perm.refl _, rfl⟩
    | succ p =>
      obtain ⟨h1, h2, _⟩ := unit_pick q p t x0 (by omega)
      rw [unitAt_succ, inProd_cons, scalarMul_cons, vectorAdd_cons]
      have e2 : x0 * 0 + inProd t (unitAt p q) = inProd t (unitAt p q) := by ring
      rw [e2]
      have e3 : inProd t (unitAt p q) + (x0 - inProd t (unitAt p q)) * 0 = inProd t (unitAt p q) := by ring
      rw [e3]
      exact ⟨h1, by simp [h2]⟩

/-- `for i in range(cnt): …` rearranges the list, for every bit stream -/
theorem fyLoop_perm : ∀ (cnt : Nat) (xs : List Int) (s : List Bool) (o : Out (List Int)),
    fyLoop cnt xs s = .ok o → o.val.Perm xs := by
  intro cnt
  induction cnt with
  | zero => intro xs s o h; simp only [fyLoop, Res.ok.injEq] at h; subst h; exact List.Perm.refl _
  | succ cnt ih =>
    intro xs s o h
    unfold fyLoop at h
    obtain ⟨o1, o2, hr, h2, hv, _, _⟩ := bind_ok h
    have hn : 1 ≤ xs.length := by
      by_contra hc
      have : xs.length = 0 := by omega
      rw [this] at hr
      simp [randomUnitVector] at hr
    obtain ⟨hu, hl⟩ := randomUnitVector_unit hn hr
    obtain ⟨hp, hlen⟩ := fyStep_perm hu hl
    obtain ⟨o3, h3, hv3, _, _⟩ := map_ok h2
    have := ih _ _ _ h3
    rw [hv, hv3]
    cases hys : fyStep xs o1.val with
    | nil => rw [hys] at hlen; simp at hlen; omega
    | cons y ys =>
      rw [hys] at this hp
      simp only [List.headD_cons, List.tail_cons] at this ⊢
      exact (this.cons y).trans hp

theorem shuffle_perm' {x : List Int} {s : List Bool} {o : Out (List Int)} (h : shuffle x s = .ok o) :
    o.val.Perm x := by
  unfold shuffle at h
  split at h
  · cases h
  · exact fyLoop_perm _ _ _ _ h

/-! ### products -/

theorem foldl_mul_init (l : List Int) (a : Int) : l.foldl (· * ·) a = a * l.foldl (· * ·) 1 := by
  induction l generalizing a with
  | nil => simp
  | cons b l ih => simp only [List.foldl_cons]; rw [ih (a * b), ih (1 * b)]; ring

theorem prod_cons (a : Int) (l : List Int) : prod (a :: l) = a * prod l := by
  simp only [prod, List.foldl_cons]; rw [foldl_mul_init]; ring

theorem prod_ne_zero {l : List Int} (h : prod l ≠ 0) : ∀ a ∈ l, a ≠ 0 := by
  induction l with
  | nil => intro a ha; cases ha
  | cons b l ih =>
    rw [prod_cons] at h
    intro a ha
    rcases List.mem_cons.1 ha with rfl | ha
    · intro h0; apply h; rw [h0]; simp
    · exact ih (fun h0 => h (by rw [h0]; simp)) a ha

theorem vectorSub_getElem (u v : List Int) (i : Nat) (h1 : i < u.length) (h2 : i < v.length) :
    (vectorSub u v)[i]'(by simp [vectorSub]; omega) = u[i] - v[i] := by
  simp [vectorSub]

/-! ### random_derangement -/

theorem derangeLoop_spec (x : List Int) : ∀ (fuel : Nat) (y : List Int) (opened s : List Bool) (o : Out (List Int)),
    y.Perm x → derangeLoop x fuel y opened s = .ok o →
    o.val.Perm x ∧ prod (vectorSub o.val x) ≠ 0 := by
  intro fuel
  induction fuel with
  | zero => intro y opened s o _ h; simp [derangeLoop] at h
  | succ fuel ih =>
    intro y opened s o hy h
    unfold derangeLoop at h
    cases hs : shuffle y s with
    | ok o1 =>
      simp only [hs] at h
      have hp := (shuffle_perm' hs).trans hy
      by_cases ht : prod (vectorSub o1.val x) = 0
      · simp only [ht, if_true] at h
        exact ih _ _ _ _ hp h
      · simp only [ht, if_false] at h
        cases h
        exact ⟨hp, ht⟩
    | exhausted => simp [hs] at h
    | fuel => simp [hs] at h
    | error e => simp [hs] at h

/-! ### choice -/

theorem choice_mem' {seq : List Int} {s : List Bool} {o : Out Int} (h : choice seq s = .ok o) : o.val ∈ seq := by
  unfold choice at h
  split at h
  · cases h
  · rename_i hne
    obtain ⟨o', hr, hv, _, _⟩ := map_ok h
    have hn : 1 ≤ seq.length := by
      cases seq with
      | nil => simp at hne
      | cons a l => simp
    obtain ⟨⟨p, q, hu⟩, hl⟩ := randomUnitVector_unit hn hr
    rw [hv, hu, inProd_comm]
    rw [hu, unitAt_length] at hl
    exact (unit_pick q p seq 0 (by omega)).2.2

end MpycV.Random
