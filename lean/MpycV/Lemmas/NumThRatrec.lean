import MpycV.Lemmas.NumThBasic
import Mathlib.Tactic.Ring
import Mathlib.Tactic.Linarith

namespace MpycV.NumTh

/-! ### ratrec: soundness -/

/-- invariant of Wang's loop from its second state on -/
structure RatInv (x y n0 n d0 d : Int) : Prop where
  n_nonneg : 0 ≤ n
  n_lt : n < n0
  signs : (0 ≤ d0 ∧ d < 0) ∨ (d0 ≤ 0 ∧ 0 < d)
  cong0 : y ∣ n0 - x * d0
  cong : y ∣ n - x * d

theorem ratrecLoop_spec (x y N : Int) (hN : 0 ≤ N) (fuel : Nat) (n0 n d0 d : Int)
    (h : RatInv x y n0 n d0 d) (hf : n.toNat < fuel) :
    ∃ n' d', ratrecLoop N fuel n0 n d0 d = .ok (n', d') ∧ 0 ≤ n' ∧ n' ≤ N ∧ d' ≠ 0 ∧ y ∣ n' - x * d' := by
  induction fuel generalizing n0 n d0 d with
  | zero => omega
  | succ f ih =>
    obtain ⟨h1, h2, h3, h4, h5⟩ := h
    simp only [ratrecLoop]
    by_cases hn : n > N
    · rw [if_pos hn]
      have hnpos : 0 < n := by omega
      have hr0 : 0 ≤ n0 % n := Int.emod_nonneg _ (by omega)
      have hrn : n0 % n < n := Int.emod_lt_of_pos _ hnpos
      have hdm : n * (n0 / n) + n0 % n = n0 := Int.mul_ediv_add_emod n0 n
      have hq : 1 ≤ n0 / n := by
        by_contra hlt
        have : n0 / n ≤ 0 := by omega
        have : n * (n0 / n) ≤ 0 := Int.mul_nonpos_of_nonneg_of_nonpos (by omega) this
        omega
      apply ih
      · refine ⟨hr0, hrn, ?_, h5, ?_⟩
        · rcases h3 with ⟨p1, p2⟩ | ⟨p1, p2⟩
          · right; exact ⟨by omega, by nlinarith⟩
          · left; exact ⟨by omega, by nlinarith⟩
        · have : n0 % n - x * (d0 - n0 / n * d) = (n0 - x * d0) - (n0 / n) * (n - x * d) := by
            have : n0 % n = n0 - n * (n0 / n) := by linarith
            rw [this]; ring
          rw [this]
          exact Int.dvd_sub h4 (Dvd.dvd.mul_left h5 _)
      · omega
    · rw [if_neg hn]
      refine ⟨n, d, rfl, h1, by omega, ?_, h5⟩
      rcases h3 with ⟨_, p2⟩ | ⟨_, p2⟩ <;> omega

theorem ratrecCore_invalid (x y N D : Int) (h : N < 0 ∨ D ≤ 0 ∨ 2 * N * D ≥ y) :
    ratrecCore x y N D = .error .valueError := by
  unfold ratrecCore; rw [if_pos h]

theorem ratrecCore_sound (x y N D n d : Int) (h : ratrecCore x y N D = .ok (n, d)) :
    0 ≤ N ∧ 0 < D ∧ 2 * N * D < y ∧
    y ∣ n - x * d ∧ -N ≤ n ∧ n ≤ N ∧ 0 < d ∧ d ≤ D ∧ Int.gcd n d = 1 := by
  unfold ratrecCore at h
  by_cases hv : N < 0 ∨ D ≤ 0 ∨ 2 * N * D ≥ y
  · rw [if_pos hv] at h; simp at h
  · rw [if_neg hv] at h
    have hN : 0 ≤ N := by omega
    have hD : 0 < D := by omega
    have hy : 2 * N * D < y := by omega
    have hND : 0 ≤ 2 * N * D := by positivity
    have hypos : 0 < y := by omega
    have hNy : N < y := by nlinarith
    -- first iteration by hand: (x, y, 1, 0) -> (y, x % y, 0, 1)
    have hfirst : ratrecLoop N (y.toNat + 2) x y 1 0 = ratrecLoop N (y.toNat + 1) y (x % y) 0 1 := by
      simp only [ratrecLoop]
      rw [if_pos (by omega)]
      simp
    have hinv : RatInv x y y (x % y) 0 1 := by
      refine ⟨Int.emod_nonneg _ (by omega), Int.emod_lt_of_pos _ hypos, Or.inr ⟨le_refl _, by omega⟩,
        by simp, ?_⟩
      have : x % y - x * 1 = -(y * (x / y)) := by
        have := Int.mul_ediv_add_emod x y; linarith
      rw [this]; exact Int.dvd_neg.mpr (Int.dvd_mul_right _ _)
    obtain ⟨n', d', hl, h1, h2, h3, h4⟩ := ratrecLoop_spec x y N hN (y.toNat + 1) y (x % y) 0 1 hinv
      (by have := Int.emod_lt_of_pos x hypos; have := Int.emod_nonneg x (by omega : y ≠ 0); omega)
    rw [hfirst, hl] at h
    simp only [] at h
    by_cases hd : d' < 0
    · rw [if_pos hd] at h
      simp only [] at h
      split at h
      · next hc =>
        simp only [Except.ok.injEq, Prod.mk.injEq] at h
        obtain ⟨rfl, rfl⟩ := h
        refine ⟨hN, hD, hy, ?_, by omega, by omega, by omega, hc.1, hc.2⟩
        have : -n' - x * -d' = -(n' - x * d') := by ring
        rw [this]; exact Int.dvd_neg.mpr h4
      · simp at h
    · rw [if_neg hd] at h
      simp only [] at h
      split at h
      · next hc =>
        simp only [Except.ok.injEq, Prod.mk.injEq] at h
        obtain ⟨rfl, rfl⟩ := h
        exact ⟨hN, hD, hy, h4, by omega, by omega, by omega, hc.1, hc.2⟩
      · simp at h

/-- the fuel of `ratrecCore` always suffices: it never returns `Err.fuel` -/
theorem ratrecCore_no_fuel (x y N D : Int) : ratrecCore x y N D ≠ .error .fuel := by
  unfold ratrecCore
  by_cases hv : N < 0 ∨ D ≤ 0 ∨ 2 * N * D ≥ y
  · rw [if_pos hv]; simp
  · rw [if_neg hv]
    have hN : 0 ≤ N := by omega
    have hD : 0 < D := by omega
    have hy : 2 * N * D < y := by omega
    have hND : 0 ≤ 2 * N * D := by positivity
    have hypos : 0 < y := by omega
    have hNy : N < y := by nlinarith
    have hfirst : ratrecLoop N (y.toNat + 2) x y 1 0 = ratrecLoop N (y.toNat + 1) y (x % y) 0 1 := by
      simp only [ratrecLoop]
      rw [if_pos (by omega)]
      simp
    have hinv : RatInv x y y (x % y) 0 1 := by
      refine ⟨Int.emod_nonneg _ (by omega), Int.emod_lt_of_pos _ hypos, Or.inr ⟨le_refl _, by omega⟩,
        by simp, ?_⟩
      have : x % y - x * 1 = -(y * (x / y)) := by
        have := Int.mul_ediv_add_emod x y; linarith
      rw [this]; exact Int.dvd_neg.mpr (Int.dvd_mul_right _ _)
    obtain ⟨n', d', hl, _⟩ := ratrecLoop_spec x y N hN (y.toNat + 1) y (x % y) 0 1 hinv
      (by have := Int.emod_lt_of_pos x hypos; have := Int.emod_nonneg x (by omega : y ≠ 0); omega)
    rw [hfirst, hl]
    simp only []
    split <;> split <;> simp

end MpycV.NumTh
