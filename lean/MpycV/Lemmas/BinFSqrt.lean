/-
Square roots in binary fields: `BinF.sqrt` agrees with `ExtF.sqrt` at p = 2 through `toList`.
-/
import MpycV.Lemmas.BinF
import MpycV.Lemmas.ExtFSqrt

namespace MpycV.BinF

open MpycV.GFpX (Poly WF)
open MpycV.BinPoly (toList bitLen)
open MpycV.PrimeF (Err)

local instance : Fact (Nat.Prime 2) := Nat.fact_prime_two

variable {m : ℕ}

theorem order_eq (m : ℕ) : ExtF.order 2 (toList m) = order m := by
  unfold ExtF.order order; rw [BinPoly.toList_length]

theorem bitLen_ge_two_of_check (h : BinPoly.isIrreducible m = true) : 2 ≤ bitLen m := by
  have M := isModulus_of_check h
  have h1 := M.irr.natDegree_pos
  rw [GFpX.natDegree_toPoly M.wf M.ne_nil, BinPoly.toList_length] at h1
  omega

theorem order_even (h2 : 2 ≤ bitLen m) : order m % 2 = 0 := by
  unfold order
  obtain ⟨k, hk⟩ : ∃ k, bitLen m - 1 = k + 1 := ⟨bitLen m - 2, by omega⟩
  rw [hk, pow_succ]; omega

theorem toList_sqrt (hm : m ≠ 0) (h2 : 2 ≤ bitLen m) (a : ℕ) (inv : Bool) :
    (sqrt m a inv).map toList = ExtF.sqrt 2 (toList m) (toList a) inv := by
  unfold sqrt ExtF.sqrt sqrtRaw ExtF.sqrtRaw
  simp only [order_eq]
  by_cases ha : a = 0
  · subst ha
    rw [if_pos rfl, toList_zero]
    cases inv
    · simp only [Bool.false_eq_true, ↓reduceIte, beq_self_eq_true, Except.map]
      rw [toList_mk hm, toList_zero]
    · simp [Except.map]
  · have hne : (toList a == []) = false := by
      simpa using fun h => ha (BinPoly.toList_eq_nil_iff.mp h)
    rw [if_neg ha, hne]
    simp only [Bool.false_eq_true, ↓reduceIte]
    rw [if_pos (order_even h2)]
    unfold ExtF.powm
    have := BinPoly.toList_powmod a (((if inv = true then (order m >>> 1) - 1 else order m >>> 1 : ℕ)) : ℤ) (some m)
    simp only [Option.map_some] at this
    rw [← this, ← map_lift, map_map_except, map_map_except]
    congr 1; funext r; exact toList_mk hm r

end MpycV.BinF
