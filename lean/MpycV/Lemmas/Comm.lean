/-
Lemmas about the communication patterns (MpycV.Model.Comm).
-/
import MpycV.Model.Comm
import Mathlib.Data.List.Nodup

namespace MpycV.Comm

/-- value of `v % m` for v < 2m -/
theorem mod_two_range (m v : Nat) (hv : v < 2 * m) :
    v % m = if v < m then v else v - m := by
  by_cases h : v < m
  · simp [h, Nat.mod_eq_of_lt h]
  · simp only [h, if_false]
    rw [Nat.mod_eq_sub_mod (by omega)]
    exact Nat.mod_eq_of_lt (by omega)

theorem subMod_eq (m a b : Nat) (ha : a < m) (hb : b < m) :
    subMod m a b = if b ≤ a then a - b else a + m - b := by
  unfold subMod
  rw [Nat.mod_eq_of_lt hb, mod_two_range m _ (by omega)]
  by_cases h : b ≤ a
  · have : ¬ a + m - b < m := by omega
    simp only [this, h, if_false, if_true]; omega
  · have : a + m - b < m := by omega
    simp [this, h]

theorem subMod_lt (m a b : Nat) (hm : 0 < m) : subMod m a b < m := Nat.mod_lt _ hm

/-- the k-th predecessor expression of `output` -/
theorem pred_eq (m t j k : Nat) (hj : j < m) (ht : t < m) (hk : k < t) :
    (j + m - t % m + k) % m = if t - k ≤ j then j - (t - k) else j + m - (t - k) := by
  rw [Nat.mod_eq_of_lt ht, mod_two_range m _ (by omega)]
  by_cases h : t - k ≤ j
  · have : ¬ j + m - t + k < m := by omega
    simp only [this, h, if_false, if_true]; omega
  · have : j + m - t + k < m := by omega
    simp only [this, h, if_true, if_false]; omega

theorem mem_outRecvs (m t i j : Nat) (R : List Nat) (hi : i < m) (hj : j < m) (ht : t < m) :
    i ∈ outRecvs m t j R ↔ j ∈ R ∧ 0 < subMod m j i ∧ subMod m j i ≤ t := by
  unfold outRecvs
  by_cases hR : j ∈ R
  · simp only [hR, if_true, List.mem_map, List.mem_range, true_and]
    rw [subMod_eq m j i hj hi]
    constructor
    · rintro ⟨k, hk, he⟩
      rw [pred_eq m t j k hj ht hk] at he
      split at he <;> split <;> omega
    · intro h
      split at h
      · refine ⟨t - (j - i), by omega, ?_⟩
        rw [pred_eq m t j _ hj ht (by omega)]
        split <;> omega
      · refine ⟨t - (j + m - i), by omega, ?_⟩
        rw [pred_eq m t j _ hj ht (by omega)]
        split <;> omega
  · simp [hR]

theorem mem_outSends (m t i j : Nat) (R : List Nat) :
    j ∈ outSends m t i R ↔ j ∈ R ∧ 0 < subMod m j i ∧ subMod m j i ≤ t := by
  unfold outSends
  simp [List.mem_filter]

theorem outRecvs_nodup (m t j : Nat) (R : List Nat) (hj : j < m) (ht : t < m) :
    (outRecvs m t j R).Nodup := by
  unfold outRecvs
  split
  · apply List.Nodup.map_on _ List.nodup_range
    intro a ha b hb he
    rw [List.mem_range] at ha hb
    rw [pred_eq m t j a hj ht ha, pred_eq m t j b hj ht hb] at he
    split at he <;> split at he <;> omega
  · exact List.nodup_nil

theorem outSends_nodup (m t i : Nat) (R : List Nat) (hR : R.Nodup) : (outSends m t i R).Nodup :=
  List.Nodup.filter _ hR

/-- a party never sends an output share to itself -/
theorem self_not_mem_outSends (m t i : Nat) (R : List Nat) (hi : i < m) : i ∉ outSends m t i R := by
  rw [mem_outSends, subMod_eq m i i hi hi]; simp

/-! ### _reshare -/

theorem resh_idx (m uci k : Nat) (hk : k < m) :
    (uci + k) % m = if uci % m + k < m then uci % m + k else uci % m + k - m := by
  have hm : 0 < m := by omega
  rw [Nat.add_mod, Nat.mod_eq_of_lt hk]
  exact mod_two_range m _ (by have := Nat.mod_lt uci hm; omega)

theorem subMod_uci (m i uci : Nat) (hi : i < m) :
    subMod m i uci = if uci % m ≤ i then i - uci % m else i + m - uci % m := by
  have hm : 0 < m := by omega
  have hu := Nat.mod_lt uci hm
  unfold subMod
  rw [mod_two_range m _ (by omega)]
  by_cases h : uci % m ≤ i
  · have : ¬ i + m - uci % m < m := by omega
    simp only [this, h, if_false, if_true]; omega
  · have : i + m - uci % m < m := by omega
    simp [this, h]

theorem mem_reshRecvs (m t i j uci : Nat) (hi : i < m) (h2t : 2 * t < m) :
    i ∈ reshRecvs m t j uci ↔ i ≠ j ∧ subMod m i uci ≤ 2 * t := by
  unfold reshRecvs
  simp only [List.mem_filter, List.mem_map, List.mem_range, bne_iff_ne, ne_eq]
  rw [subMod_uci m i uci hi]
  have hm : 0 < m := by omega
  have hu := Nat.mod_lt uci hm
  constructor
  · rintro ⟨⟨k, hk, he⟩, hne⟩
    refine ⟨hne, ?_⟩
    rw [resh_idx m uci k (by omega)] at he
    split at he <;> split <;> omega
  · rintro ⟨hne, h⟩
    refine ⟨?_, hne⟩
    split at h
    · refine ⟨i - uci % m, by omega, ?_⟩
      rw [resh_idx m uci _ (by omega)]
      split <;> omega
    · refine ⟨i + m - uci % m, by omega, ?_⟩
      rw [resh_idx m uci _ (by omega)]
      split <;> omega

theorem mem_reshSends (m t i j uci : Nat) :
    j ∈ reshSends m t i uci ↔ subMod m i uci ≤ 2 * t ∧ j < m ∧ j ≠ i := by
  unfold reshSends
  split
  · simp_all [List.mem_filter]
  · rename_i h
    simp only [List.not_mem_nil, false_iff]
    intro h'; omega

theorem reshRecvs_nodup (m t j uci : Nat) (h2t : 2 * t < m) : (reshRecvs m t j uci).Nodup := by
  unfold reshRecvs
  apply List.Nodup.filter
  apply List.Nodup.map_on _ List.nodup_range
  intro a ha b hb he
  rw [List.mem_range] at ha hb
  have hm : 0 < m := by omega
  have hu := Nat.mod_lt uci hm
  rw [resh_idx m uci a (by omega), resh_idx m uci b (by omega)] at he
  split at he <;> split at he <;> omega

theorem reshSends_nodup (m t i uci : Nat) : (reshSends m t i uci).Nodup := by
  unfold reshSends
  split
  · exact List.Nodup.filter _ List.nodup_range
  · exact List.nodup_nil

end MpycV.Comm
