/-
Rounding lemma for C34: `(N + d // 2) // d` is round-half-up of the exact quotient `N / d` over ℚ.
-/
import MpycV.Lemmas.StatsBase
import Mathlib.Tactic.Ring
import Mathlib.Tactic.Linarith
import Mathlib.Tactic.FieldSimp
import Mathlib.Algebra.Order.Floor.Ring
import Mathlib.Data.Rat.Floor
namespace MpycV.Stats

/-- integer form: `q = (N + d/2) / d` is the unique integer with `2 q d ≤ 2 N + d < 2 (q+1) d` -/
theorem div_round_bounds (N d : Int) (hd : 0 < d) :
    2 * ((N + d / 2) / d) * d ≤ 2 * N + d ∧ 2 * N + d < 2 * ((N + d / 2) / d + 1) * d := by
  have h1 := Int.ediv_mul_add_emod (N + d / 2) d
  have h2 := Int.emod_nonneg (N + d / 2) (ne_of_gt hd)
  have h3 := Int.emod_lt_of_pos (N + d / 2) hd
  generalize (N + d / 2) / d = q at *
  generalize (N + d / 2) % d = r at *
  have e1 : 2 * q * d = 2 * (q * d) := by ring
  have e2 : 2 * (q + 1) * d = 2 * (q * d) + 2 * d := by ring
  rw [e1, e2]
  generalize q * d = qd at *
  constructor <;> omega

/-- `(N + d // 2) // d = ⌊N / d + 1/2⌋` for integers `N`, `d > 0` -/
theorem div_round_half_up (N d : Int) (hd : 0 < d) :
    (N + d / 2) / d = ⌊(N : ℚ) / (d : ℚ) + 1 / 2⌋ := by
  symm
  rw [Int.floor_eq_iff]
  obtain ⟨h1, h2⟩ := div_round_bounds N d hd
  generalize (N + d / 2) / d = q at *
  have hd' : (0 : ℚ) < d := by exact_mod_cast hd
  have h1' : (2 * q * d : ℚ) ≤ 2 * N + d := by exact_mod_cast h1
  have h2' : (2 * N + d : ℚ) < 2 * (q + 1) * d := by exact_mod_cast h2
  constructor
  · rw [← sub_le_iff_le_add, le_div_iff₀ hd']; linarith
  · rw [← lt_sub_iff_add_lt, div_lt_iff₀ hd']; linarith

/-- nearest-integer property of `q = (N + d // 2) // d` -/
theorem div_round_nearest (N d : Int) (hd : 0 < d) :
    2 * |d * ((N + d / 2) / d) - N| ≤ d := by
  obtain ⟨h1, h2⟩ := div_round_bounds N d hd
  generalize (N + d / 2) / d = q at *
  have h4 : d * q = q * d := Int.mul_comm _ _
  rw [h4]
  have e1 : 2 * q * d = 2 * (q * d) := by ring
  have e2 : 2 * (q + 1) * d = 2 * (q * d) + 2 * d := by ring
  rw [e1] at h1; rw [e2] at h2
  generalize q * d = qd at *
  rcases abs_cases (qd - N) with ⟨h, _⟩ | ⟨h, _⟩ <;> rw [h] <;> omega
