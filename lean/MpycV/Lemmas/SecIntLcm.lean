import MpycV.Lemmas.SecIntGcd
namespace MpycV.SecInt

/-- `lcm(a, b)` is Python's `math.lcm`, provided the divstep loop terminated ("partial": Bernstein–Yang Thm 11.2
is the hypothesis `Terminates`) -/
theorem lcm_partial (l : Nat) (a b : Int)
    (ha : -(2 : Int) ^ l < a ∧ a < (2 : Int) ^ l) (hb : -(2 : Int) ^ l < b ∧ b < (2 : Int) ^ l)
    (hab : ¬ (a = 0 ∧ b = 0)) (hterm : Terminates l a b) :
    lcmModel l a b = Int.lcm a b := by
  have hg := gcdRaw_natAbs l a b (gcp2I_odd l a b ha hb hab) hterm
  set g := (gcdRaw l a b).1 with hgdef
  have hG0 : Int.gcd a b ≠ 0 := by
    intro h
    rw [Int.gcd_eq_zero_iff] at h
    exact hab h
  have hg0 : g ≠ 0 := by
    intro h; rw [h] at hg; exact hG0 hg.symm
  have hgb : g ∣ b := by
    rw [← Int.natAbs_dvd_natAbs, hg]
    exact Int.natAbs_dvd_natAbs.mpr (Int.gcd_dvd_right a b) |> fun h => by simpa using h
  have hmodel : lcmModel l a b = ((a * (b / g)).natAbs : Int) := by
    show (if a * (b / (g + (if g = 0 then 1 else 0))) < 0 then -(a * (b / (g + (if g = 0 then 1 else 0))))
      else a * (b / (g + (if g = 0 then 1 else 0)))) = _
    rw [if_neg hg0, add_zero]
    split <;> omega
  rw [hmodel, Int.natAbs_mul, Int.natAbs_ediv_of_dvd hgb, hg]
  unfold Int.lcm Nat.lcm
  congr 1
  have hdvd : Int.gcd a b ∣ b.natAbs := by
    have := Int.gcd_dvd_right a b
    exact Int.natAbs_dvd_natAbs.mpr this |> fun h => by simpa using h
  rw [← Nat.mul_div_assoc _ hdvd]
  rfl
end MpycV.SecInt
