/-
Bridge, part 3: the loops of `ThreshaMirror.recombine_list` / `recombine_one` (translated `recombine`): the triple loop
accumulates `sums[r][h] = Σ_i shares[i][h] * vector[r][i]` (plain integers), the optional second pass reduces mod p.
-/
import MpycV.Lemmas.ThreshaSrcBridgeSplit
import Mathlib.Algebra.BigOperators.Intervals

namespace MpycV.Thresha

open MpycV.PyList

/-- innermost loop (over the recombination points `r`) for share `i`, entry `h` -/
lemma rc_r_loop (W N : ℕ) (h : ℕ) (hh : h < N) (i : Int) (s : Int) (vector : List (List Int))
    (hv : ∀ r < W, pyIdxOk vector.length (r : Int) = true ∧ pyIdxOk (pyGet vector (r : Int)).length i = true)
    (F : ℕ → ℕ → Int) :
    pyFor (ε := TErr) (σ := List (List Int)) (pyRange 0 (W : Int)) (mat W N F) (fun it_ st_ => match it_, st_ with
        | r, sums =>
          if pyIdxOk sums.length r = false then .error .indexError else
          if pyIdxOk (pyGet sums r).length (h : Int) = false then .error .indexError else
          if pyIdxOk vector.length r = false then .error .indexError else
          if pyIdxOk (pyGet vector r).length i = false then .error .indexError else
          let sums := pySet sums r (pySet (pyGet sums r) (h : Int) ((pyGet (pyGet sums r) (h : Int)) + (s * (pyGet (pyGet vector r) i))))
          .ok sums)
      = .ok (mat W N (fun r' h' => if h' = h then F r' h' + s * pyGet (pyGet vector (r' : Int)) i else F r' h')) := by
  have key := pyFor_range_states' (ε := TErr) 0 (W : Int) W (by simp)
    (fun it_ st_ => match it_, st_ with
        | r, sums =>
          if pyIdxOk sums.length r = false then .error .indexError else
          if pyIdxOk (pyGet sums r).length (h : Int) = false then .error .indexError else
          if pyIdxOk vector.length r = false then .error .indexError else
          if pyIdxOk (pyGet vector r).length i = false then .error .indexError else
          let sums := pySet sums r (pySet (pyGet sums r) (h : Int) ((pyGet (pyGet sums r) (h : Int)) + (s * (pyGet (pyGet vector r) i))))
          .ok sums)
    (fun k => mat W N (fun r' h' => if h' = h ∧ r' < k then F r' h' + s * pyGet (pyGet vector (r' : Int)) i else F r' h'))
    (by
      intro k hk
      simp only [zero_add]
      obtain ⟨g1, g2⟩ := mat_guard W N
        (fun r' h' => if h' = h ∧ r' < k then F r' h' + s * pyGet (pyGet vector (r' : Int)) i else F r' h') hk hh
      rw [g1, g2, (hv k hk).1, (hv k hk).2]
      simp only [Bool.true_eq_false, ↓reduceIte]
      rw [mat_get W N _ hk hh, mat_set W N _ hk hh]
      congr 1
      apply mat_congr
      intro r' _ h' _
      by_cases h1 : r' = k ∧ h' = h
      · obtain ⟨rfl, rfl⟩ := h1
        simp
      · simp only [h1, ↓reduceIte]
        by_cases h2 : h' = h
        · have : r' ≠ k := fun e => h1 ⟨e, h2⟩
          have e3 : r' < k + 1 ↔ r' < k := by omega
          simp [h2, e3]
        · simp [h2])
  have e0 : mat W N (fun r' h' => if h' = h ∧ r' < 0 then F r' h' + s * pyGet (pyGet vector (r' : Int)) i else F r' h')
      = mat W N F := by
    apply mat_congr; intro r _ c' _; simp
  rw [e0] at key
  rw [key]
  congr 1
  apply mat_congr
  intro r hr c' _
  simp [hr]

/-- middle loop (over the entries `h` of share `i`) -/
lemma rc_h_loop (isField : Bool) (W N : ℕ) (i : Int) (share_i : List Int) (hs : N ≤ share_i.length)
    (vector : List (List Int))
    (hv : ∀ r < W, pyIdxOk vector.length (r : Int) = true ∧ pyIdxOk (pyGet vector (r : Int)).length i = true)
    (F : ℕ → ℕ → Int) :
    pyFor (ε := TErr) (σ := List (List Int)) (pyRange 0 (N : Int)) (mat W N F) (fun it_ st_ => match it_, st_ with
        | h, sums =>
          if pyIdxOk share_i.length h = false then .error .indexError else
          let s := (pyGet share_i h)
          let s :=
            if isField = true then
              let s := s
              (s)
            else
              (s)
          match pyFor (ε := TErr) (σ := List (List Int)) (pyRange 0 (W : Int)) sums (fun it_ st_ => match it_, st_ with
              | r, sums =>
                if pyIdxOk sums.length r = false then .error .indexError else
                if pyIdxOk (pyGet sums r).length h = false then .error .indexError else
                if pyIdxOk vector.length r = false then .error .indexError else
                if pyIdxOk (pyGet vector r).length i = false then .error .indexError else
                let sums := pySet sums r (pySet (pyGet sums r) h ((pyGet (pyGet sums r) h) + (s * (pyGet (pyGet vector r) i))))
                .ok sums) with
          | .error exc_ => .error exc_
          | .ok sums =>
            .ok sums)
      = .ok (mat W N (fun r' h' => F r' h' + pyGet share_i (h' : Int) * pyGet (pyGet vector (r' : Int)) i)) := by
  have key := pyFor_range_states' (ε := TErr) 0 (N : Int) N (by simp)
    (fun it_ st_ => match it_, st_ with
        | h, sums =>
          if pyIdxOk share_i.length h = false then .error .indexError else
          let s := (pyGet share_i h)
          let s :=
            if isField = true then
              let s := s
              (s)
            else
              (s)
          match pyFor (ε := TErr) (σ := List (List Int)) (pyRange 0 (W : Int)) sums (fun it_ st_ => match it_, st_ with
              | r, sums =>
                if pyIdxOk sums.length r = false then .error .indexError else
                if pyIdxOk (pyGet sums r).length h = false then .error .indexError else
                if pyIdxOk vector.length r = false then .error .indexError else
                if pyIdxOk (pyGet vector r).length i = false then .error .indexError else
                let sums := pySet sums r (pySet (pyGet sums r) h ((pyGet (pyGet sums r) h) + (s * (pyGet (pyGet vector r) i))))
                .ok sums) with
          | .error exc_ => .error exc_
          | .ok sums =>
            .ok sums)
    (fun k => mat W N (fun r' h' =>
      if h' < k then F r' h' + pyGet share_i (h' : Int) * pyGet (pyGet vector (r' : Int)) i else F r' h'))
    (by
      intro k hk
      simp only [zero_add, ite_self]
      rw [pyIdxOk_nat (show k < share_i.length by omega)]
      simp only [Bool.true_eq_false, ↓reduceIte]
      rw [rc_r_loop W N k hk i (pyGet share_i (k : Int)) vector hv]
      simp only []
      congr 1
      apply mat_congr
      intro r' _ h' _
      by_cases h1 : h' = k
      · subst h1; simp
      · have e3 : h' < k + 1 ↔ h' < k := by omega
        simp [h1, e3])
  have e0 : mat W N (fun r' h' =>
      if h' < 0 then F r' h' + pyGet share_i (h' : Int) * pyGet (pyGet vector (r' : Int)) i else F r' h') = mat W N F := by
    apply mat_congr; intro r _ c' _; simp
  rw [e0] at key
  rw [key]
  congr 1
  apply mat_congr
  intro r _ c' hc'
  simp [hc']

/-- outer loop (over the shares): the raw integer sums -/
lemma rc_i_loop (isField : Bool) (W N : ℕ) (shares : List (List Int)) (hs : ∀ sh ∈ shares, N ≤ sh.length)
    (vector : List (List Int))
    (hv : ∀ r < W, ∀ i < shares.length,
      pyIdxOk vector.length (r : Int) = true ∧ pyIdxOk (pyGet vector (r : Int)).length (i : Int) = true) :
    pyFor (ε := TErr) (σ := List (List Int)) (pyEnum shares) (mat W N (fun _ _ => 0)) (fun it_ st_ => match it_, st_ with
        | (i, share_i), sums =>
          match pyFor (ε := TErr) (σ := List (List Int)) (pyRange 0 (N : Int)) sums (fun it_ st_ => match it_, st_ with
              | h, sums =>
                if pyIdxOk share_i.length h = false then .error .indexError else
                let s := (pyGet share_i h)
                let s :=
                  if isField = true then
                    let s := s
                    (s)
                  else
                    (s)
                match pyFor (ε := TErr) (σ := List (List Int)) (pyRange 0 (W : Int)) sums (fun it_ st_ => match it_, st_ with
                    | r, sums =>
                      if pyIdxOk sums.length r = false then .error .indexError else
                      if pyIdxOk (pyGet sums r).length h = false then .error .indexError else
                      if pyIdxOk vector.length r = false then .error .indexError else
                      if pyIdxOk (pyGet vector r).length i = false then .error .indexError else
                      let sums := pySet sums r (pySet (pyGet sums r) h ((pyGet (pyGet sums r) h) + (s * (pyGet (pyGet vector r) i))))
                      .ok sums) with
                | .error exc_ => .error exc_
                | .ok sums =>
                  .ok sums) with
          | .error exc_ => .error exc_
          | .ok sums =>
            .ok sums)
      = .ok (mat W N (fun r' h' => ∑ i' ∈ Finset.range shares.length,
          pyGet (pyGet shares (i' : Int)) (h' : Int) * pyGet (pyGet vector (r' : Int)) (i' : Int))) := by
  have key := pyFor_enum_states (ε := TErr) shares
    (fun it_ st_ => match it_, st_ with
        | (i, share_i), sums =>
          match pyFor (ε := TErr) (σ := List (List Int)) (pyRange 0 (N : Int)) sums (fun it_ st_ => match it_, st_ with
              | h, sums =>
                if pyIdxOk share_i.length h = false then .error .indexError else
                let s := (pyGet share_i h)
                let s :=
                  if isField = true then
                    let s := s
                    (s)
                  else
                    (s)
                match pyFor (ε := TErr) (σ := List (List Int)) (pyRange 0 (W : Int)) sums (fun it_ st_ => match it_, st_ with
                    | r, sums =>
                      if pyIdxOk sums.length r = false then .error .indexError else
                      if pyIdxOk (pyGet sums r).length h = false then .error .indexError else
                      if pyIdxOk vector.length r = false then .error .indexError else
                      if pyIdxOk (pyGet vector r).length i = false then .error .indexError else
                      let sums := pySet sums r (pySet (pyGet sums r) h ((pyGet (pyGet sums r) h) + (s * (pyGet (pyGet vector r) i))))
                      .ok sums) with
                | .error exc_ => .error exc_
                | .ok sums =>
                  .ok sums) with
          | .error exc_ => .error exc_
          | .ok sums =>
            .ok sums)
    (fun k => mat W N (fun r' h' => ∑ i' ∈ Finset.range k,
          pyGet (pyGet shares (i' : Int)) (h' : Int) * pyGet (pyGet vector (r' : Int)) (i' : Int)))
    (by
      intro k hk
      simp only []
      rw [rc_h_loop isField W N (k : Int) shares[k] (hs _ (List.getElem_mem hk)) vector (fun r hr => hv r hr k hk)]
      simp only []
      congr 1
      apply mat_congr
      intro r' _ h' _
      rw [Finset.sum_range_succ, pyGet_nat shares hk])
  simp only [Finset.range_zero, Finset.sum_empty] at key
  exact key

/-- second pass, inner loop: row `r` is reduced mod p -/
lemma rc_red_h (p : Int) (W N : ℕ) (r : ℕ) (hr : r < W) (F : ℕ → ℕ → Int) :
    pyFor (ε := TErr) (σ := List (List Int)) (pyRange 0 (N : Int)) (mat W N F) (fun it_ st_ => match it_, st_ with
        | h, sums =>
          if pyIdxOk sums.length (r : Int) = false then .error .indexError else
          if pyIdxOk (pyGet sums (r : Int)).length h = false then .error .indexError else
          if pyIdxOk sums.length (r : Int) = false then .error .indexError else
          if pyIdxOk (pyGet sums (r : Int)).length h = false then .error .indexError else
          let sums := pySet sums (r : Int) (pySet (pyGet sums (r : Int)) h ((pyGet (pyGet sums (r : Int)) h) % p))
          .ok sums)
      = .ok (mat W N (fun r' h' => if r' = r then F r' h' % p else F r' h')) := by
  have key := pyFor_range_states' (ε := TErr) 0 (N : Int) N (by simp)
    (fun it_ st_ => match it_, st_ with
        | h, sums =>
          if pyIdxOk sums.length (r : Int) = false then .error .indexError else
          if pyIdxOk (pyGet sums (r : Int)).length h = false then .error .indexError else
          if pyIdxOk sums.length (r : Int) = false then .error .indexError else
          if pyIdxOk (pyGet sums (r : Int)).length h = false then .error .indexError else
          let sums := pySet sums (r : Int) (pySet (pyGet sums (r : Int)) h ((pyGet (pyGet sums (r : Int)) h) % p))
          .ok sums)
    (fun k => mat W N (fun r' h' => if r' = r ∧ h' < k then F r' h' % p else F r' h'))
    (by
      intro k hk
      simp only [zero_add]
      obtain ⟨g1, g2⟩ := mat_guard W N (fun r' h' => if r' = r ∧ h' < k then F r' h' % p else F r' h') hr hk
      rw [g1, g2]
      simp only [Bool.true_eq_false, ↓reduceIte]
      rw [mat_get W N _ hr hk, mat_set W N _ hr hk]
      congr 1
      apply mat_congr
      intro r' _ h' _
      by_cases h1 : r' = r ∧ h' = k
      · obtain ⟨rfl, rfl⟩ := h1
        simp
      · simp only [h1, ↓reduceIte]
        by_cases h2 : r' = r
        · have : h' ≠ k := fun e => h1 ⟨h2, e⟩
          have e3 : h' < k + 1 ↔ h' < k := by omega
          simp [h2, e3]
        · simp [h2])
  have e0 : mat W N (fun r' h' => if r' = r ∧ h' < 0 then F r' h' % p else F r' h') = mat W N F := by
    apply mat_congr; intro r _ c' _; simp
  rw [e0] at key
  rw [key]
  congr 1
  apply mat_congr
  intro r' _ c' hc'
  simp [hc']

/-- second pass: every entry is reduced mod p -/
lemma rc_red_r (p : Int) (W N : ℕ) (F : ℕ → ℕ → Int) :
    pyFor (ε := TErr) (σ := List (List Int)) (pyRange 0 (W : Int)) (mat W N F) (fun it_ st_ => match it_, st_ with
        | r, sums =>
          match pyFor (ε := TErr) (σ := List (List Int)) (pyRange 0 (N : Int)) sums (fun it_ st_ => match it_, st_ with
              | h, sums =>
                if pyIdxOk sums.length r = false then .error .indexError else
                if pyIdxOk (pyGet sums r).length h = false then .error .indexError else
                if pyIdxOk sums.length r = false then .error .indexError else
                if pyIdxOk (pyGet sums r).length h = false then .error .indexError else
                let sums := pySet sums r (pySet (pyGet sums r) h ((pyGet (pyGet sums r) h) % p))
                .ok sums) with
          | .error exc_ => .error exc_
          | .ok sums =>
            .ok sums)
      = .ok (mat W N (fun r' h' => F r' h' % p)) := by
  have key := pyFor_range_states' (ε := TErr) 0 (W : Int) W (by simp)
    (fun it_ st_ => match it_, st_ with
        | r, sums =>
          match pyFor (ε := TErr) (σ := List (List Int)) (pyRange 0 (N : Int)) sums (fun it_ st_ => match it_, st_ with
              | h, sums =>
                if pyIdxOk sums.length r = false then .error .indexError else
                if pyIdxOk (pyGet sums r).length h = false then .error .indexError else
                if pyIdxOk sums.length r = false then .error .indexError else
                if pyIdxOk (pyGet sums r).length h = false then .error .indexError else
                let sums := pySet sums r (pySet (pyGet sums r) h ((pyGet (pyGet sums r) h) % p))
                .ok sums) with
          | .error exc_ => .error exc_
          | .ok sums =>
            .ok sums)
    (fun k => mat W N (fun r' h' => if r' < k then F r' h' % p else F r' h'))
    (by
      intro k hk
      simp only [zero_add]
      rw [rc_red_h p W N k hk]
      simp only []
      congr 1
      apply mat_congr
      intro r' _ h' _
      by_cases h1 : r' = k
      · subst h1; simp
      · have e3 : r' < k + 1 ↔ r' < k := by omega
        simp [h1, e3])
  have e0 : mat W N (fun r' h' => if r' < 0 then F r' h' % p else F r' h') = mat W N F := by
    apply mat_congr; intro r _ c' _; simp
  rw [e0] at key
  rw [key]
  congr 1
  apply mat_congr
  intro r' hr' c' _
  simp [hr']

/-- the raw sums of `recombine` -/
def rawSum (shares vector : List (List Int)) (r h : ℕ) : Int :=
  ∑ i' ∈ Finset.range shares.length, pyGet (pyGet shares (i' : Int)) (h : Int) * pyGet (pyGet vector (r : Int)) (i' : Int)

/-- ★ loops of the translated `recombine` with a list of recombination points: under the preconditions that make
the Python code run without exception (at least one point, share vectors of length ≥ n = len(shares[0]) ≥ 1, no
ZeroDivisionError in the recombination vectors), the result is the matrix of the sums
`Σ_i shares[i][h] * vector[r][i]`, reduced mod p iff the shares are field elements. -/
theorem recombine_list_loops (p : Int) (isField : Bool) (points : List (Int × List Int)) (x_rs : List Int)
    (hpts : points ≠ []) (N : ℕ) (hN : (pyGet (points.map Prod.snd) 0).length = N) (hN0 : 0 < N)
    (hrows : ∀ sh ∈ points.map Prod.snd, N ≤ sh.length) (vf : Int → List Int)
    (hvec : ∀ xr ∈ x_rs, ThreshaMirror.recombination_vector p (points.map Prod.fst) xr = .ok (vf xr))
    (hvlen : ∀ xr ∈ x_rs, (vf xr).length = points.length) :
    ThreshaMirror.recombine_list p isField points x_rs
      = .ok (mat x_rs.length N (fun r h =>
          if isField = true then rawSum (points.map Prod.snd) (x_rs.map vf) r h % p
          else rawSum (points.map Prod.snd) (x_rs.map vf) r h)) := by
  unfold ThreshaMirror.recombine_list
  simp -iota only []
  rw [if_neg hpts]
  have hm : pyMapM x_rs (fun (x_r : Int) =>
      match ThreshaMirror.recombination_vector p (List.map Prod.fst points) x_r with
      | .error exc_ => .error exc_
      | .ok v1 => .ok (v1)) = .ok (x_rs.map vf) := by
    apply pyMapM_ok
    intro a ha
    rw [hvec a ha]
  erw [hm]
  try simp -iota only []
  have hK : 0 < (points.map Prod.snd).length := by
    simpa using List.length_pos_iff.2 hpts
  have hg0 : pyIdxOk (List.map Prod.snd points).length 0 = true := by
    have := pyIdxOk_nat (k := 0) hK
    simpa using this
  have hg1 : pyIdxOk N 0 = true := by
    have := pyIdxOk_nat (k := 0) hN0
    simpa using this
  have hT : decide (((N : ℕ) : Int) > 0 ∧ isField = true) = isField := by
    cases isField <;> simp [hN0]
  rw [hg0, hN]
  simp only [hg1, hT, Bool.true_eq_false, and_false, ↓reduceIte]
  rw [init_mat]
  simp only [Int.toNat_natCast]
  have hv : ∀ r < x_rs.length, ∀ i < (points.map Prod.snd).length,
      pyIdxOk (x_rs.map vf).length (r : Int) = true ∧
        pyIdxOk (pyGet (x_rs.map vf) (r : Int)).length (i : Int) = true := by
    intro r hr i hi
    have hr' : r < (x_rs.map vf).length := by simpa using hr
    refine ⟨pyIdxOk_nat hr', ?_⟩
    rw [pyGet_nat _ hr']
    apply pyIdxOk_nat
    simp only [List.getElem_map]
    rw [hvlen _ (List.getElem_mem _)]
    simpa using hi
  have key := rc_i_loop isField x_rs.length N (points.map Prod.snd) hrows (x_rs.map vf) hv
  simp -iota only [] at key
  erw [key]
  try simp -iota only []
  cases isField with
  | false =>
    simp only [Bool.false_eq_true, ↓reduceIte]
    rfl
  | true =>
    simp only [↓reduceIte]
    have k2 := rc_red_r p x_rs.length N (fun r' h' => ∑ i' ∈ Finset.range (points.map Prod.snd).length,
      pyGet (pyGet (points.map Prod.snd) (i' : Int)) (h' : Int) * pyGet (pyGet (x_rs.map vf) (r' : Int)) (i' : Int))
    simp -iota only [] at k2
    erw [k2]
    rfl

/-- ★ the same for a single recombination point (`x_rs` not a list): row 0 of the matrix -/
theorem recombine_one_loops (p : Int) (isField : Bool) (points : List (Int × List Int)) (x_r : Int)
    (hpts : points ≠ []) (N : ℕ) (hN : (pyGet (points.map Prod.snd) 0).length = N) (hN0 : 0 < N)
    (hrows : ∀ sh ∈ points.map Prod.snd, N ≤ sh.length) (v : List Int)
    (hvec : ThreshaMirror.recombination_vector p (points.map Prod.fst) x_r = .ok v)
    (hvlen : v.length = points.length) :
    ThreshaMirror.recombine_one p isField points x_r
      = .ok ((List.range N).map (fun h =>
          if isField = true then rawSum (points.map Prod.snd) [v] 0 h % p
          else rawSum (points.map Prod.snd) [v] 0 h)) := by
  unfold ThreshaMirror.recombine_one
  simp -iota only []
  rw [if_neg hpts]
  have hm : pyMapM [x_r] (fun (x_r : Int) =>
      match ThreshaMirror.recombination_vector p (List.map Prod.fst points) x_r with
      | .error exc_ => .error exc_
      | .ok v1 => .ok (v1)) = .ok [v] := by
    rw [pyMapM_cons, hvec]; rfl
  erw [hm]
  try simp -iota only []
  have hK : 0 < (points.map Prod.snd).length := by
    simpa using List.length_pos_iff.2 hpts
  have hg0 : pyIdxOk (List.map Prod.snd points).length 0 = true := by
    have := pyIdxOk_nat (k := 0) hK
    simpa using this
  have hg1 : pyIdxOk N 0 = true := by
    have := pyIdxOk_nat (k := 0) hN0
    simpa using this
  have hT : decide (((N : ℕ) : Int) > 0 ∧ isField = true) = isField := by
    cases isField <;> simp [hN0]
  rw [hg0, hN]
  simp only [hg1, hT, Bool.true_eq_false, and_false, ↓reduceIte]
  rw [init_mat]
  simp only [Int.toNat_natCast]
  have hv : ∀ r < [x_r].length, ∀ i < (points.map Prod.snd).length,
      pyIdxOk [v].length (r : Int) = true ∧ pyIdxOk (pyGet [v] (r : Int)).length (i : Int) = true := by
    intro r hr i hi
    have hr0 : r = 0 := by simpa using hr
    subst hr0
    refine ⟨pyIdxOk_nat (by simp), ?_⟩
    rw [pyGet_nat _ (by simp)]
    apply pyIdxOk_nat
    simp only [List.getElem_cons_zero]
    rw [hvlen]; simpa using hi
  have key := rc_i_loop isField [x_r].length N (points.map Prod.snd) hrows [v] hv
  simp -iota only [] at key
  erw [key]
  try simp -iota only []
  have hfin : ∀ (G : ℕ → ℕ → Int),
      (if pyIdxOk (mat [x_r].length N G).length 0 = false then (Except.error TErr.indexError : Except TErr (List Int))
        else .ok (pyGet (mat [x_r].length N G) 0)) = .ok ((List.range N).map (fun h => G 0 h)) := by
    intro G
    have h1 : (0 : ℕ) < (mat [x_r].length N G).length := by simp [length_mat]
    have g := pyIdxOk_nat h1
    have e := pyGet_nat (mat [x_r].length N G) h1
    simp only [Nat.cast_zero] at g e
    rw [g, e, getElem_mat]
    simp
  cases isField with
  | false =>
    simp only [Bool.false_eq_true, ↓reduceIte]
    exact hfin _
  | true =>
    simp only [↓reduceIte]
    have k2 := rc_red_r p [x_r].length N (fun r' h' => ∑ i' ∈ Finset.range (points.map Prod.snd).length,
      pyGet (pyGet (points.map Prod.snd) (i' : Int)) (h' : Int) * pyGet (pyGet [v] (r' : Int)) (i' : Int))
    simp -iota only [] at k2
    erw [k2]
    exact hfin _

end MpycV.Thresha
