import MpycV.Lemmas.NumThPrime

namespace MpycV.NumTh

/-- Exact characterisation of the `True` answers of `is_prime` (for the bases drawn). -/
theorem isPrimeB_iff (bases : List Nat) (x : Int) :
    isPrimeB bases x = true ↔
      x = 2 ∨ (2 < x ∧ x % 2 = 1 ∧
        ((∃ p ∈ smallPrimes, x = (p : Int)) ∨
         ((∀ p ∈ smallPrimes, x.toNat % p ≠ 0) ∧ ∀ a ∈ bases, SPRP x.toNat a))) := by
  unfold isPrimeB
  by_cases h : x ≤ 2 ∨ x % 2 = 0
  · rw [if_pos h]
    constructor
    · intro h2; left; simpa using h2
    · rintro (h2 | ⟨h2, h3, _⟩)
      · simp [h2]
      · omega
  · rw [if_neg h]
    have hx2 : 2 < x := by omega
    have hodd : x % 2 = 1 := by omega
    have hxn : (x.toNat : Int) = x := Int.toNat_of_nonneg (by omega)
    have hxn2 : 2 < x.toNat := by omega
    have hxnodd : x.toNat % 2 = 1 := by omega
    simp only []
    split
    · next b hb =>
      obtain ⟨p, hp, hdiv, hbp⟩ := trialDiv_some hb
      subst hbp
      constructor
      · intro h2
        right
        refine ⟨hx2, hodd, Or.inl ⟨p, hp, ?_⟩⟩
        have : x.toNat = p := by simpa using h2
        omega
      · rintro (h2 | ⟨_, _, ⟨q, hq, hxq⟩ | ⟨h3, _⟩⟩)
        · omega
        · have hqn : x.toNat = q := by omega
          have hqp := smallPrimes_prime q hq
          have hpp := smallPrimes_prime p hp
          have hdvd : p ∣ q := by rw [← hqn]; exact Nat.dvd_of_mod_eq_zero hdiv
          have := (Nat.prime_dvd_prime_iff_eq hpp hqp).mp hdvd
          simp [hqn, this]
        · exact absurd hdiv (h3 p hp)
    · next hnone =>
      rw [trialDiv_none] at hnone
      rw [List.all_eq_true]
      constructor
      · intro h2
        right
        refine ⟨hx2, hodd, Or.inr ⟨hnone, fun a ha => ?_⟩⟩
        exact (mrRound_iff _ a hxn2 hxnodd).mp (h2 a ha)
      · rintro (h2 | ⟨_, _, ⟨q, hq, hxq⟩ | ⟨_, h3⟩⟩)
        · omega
        · exfalso
          have hqn : x.toNat = q := by omega
          apply hnone q hq
          rw [hqn]; exact Nat.mod_self q
        · intro a ha
          exact (mrRound_iff _ a hxn2 hxnodd).mpr (h3 a ha)

theorem isPrimeB_of_prime (bases : List Nat) (x : Int) (hp : Nat.Prime x.toNat)
    (hb : ∀ a ∈ bases, ¬ x.toNat ∣ a) : isPrimeB bases x = true := by
  rw [isPrimeB_iff]
  have h2 := hp.two_le
  have hxn : (x.toNat : Int) = x := Int.toNat_of_nonneg (by omega)
  rcases Nat.lt_or_ge 2 x.toNat with h3 | h3
  · right
    have hodd : x.toNat % 2 = 1 := by
      rcases hp.eq_two_or_odd with h | h
      · omega
      · exact h
    refine ⟨by omega, by omega, ?_⟩
    by_cases hex : ∃ p ∈ smallPrimes, x.toNat % p = 0
    · obtain ⟨p, hps, hdiv⟩ := hex
      left
      refine ⟨p, hps, ?_⟩
      have := (Nat.prime_dvd_prime_iff_eq (smallPrimes_prime p hps) hp).mp (Nat.dvd_of_mod_eq_zero hdiv)
      omega
    · right
      refine ⟨fun p hps hdiv => hex ⟨p, hps, hdiv⟩, fun a ha => prime_SPRP _ a hp (hb a ha)⟩
  · left; omega

/-- the trial-division stage is exact -/
theorem isPrimeB_trial_exact (bases : List Nat) (x : Int)
    (h : x ≤ 2 ∨ x % 2 = 0 ∨ ∃ p ∈ smallPrimes, x.toNat % p = 0) :
    isPrimeB bases x = true ↔ Nat.Prime x.toNat := by
  rw [isPrimeB_iff]
  constructor
  · rintro (h2 | ⟨h2, h3, ⟨q, hq, hxq⟩ | ⟨h4, _⟩⟩)
    · subst h2; exact Nat.prime_two
    · have : x.toNat = q := by omega
      rw [this]; exact smallPrimes_prime q hq
    · rcases h with h | h | ⟨p, hp, hd⟩
      · omega
      · omega
      · exact absurd hd (h4 p hp)
  · intro hp
    have h2 := hp.two_le
    rcases h with h | h | ⟨p, hps, hd⟩
    · left; omega
    · left
      rcases hp.eq_two_or_odd with h5 | h5
      · omega
      · omega
    · have := (Nat.prime_dvd_prime_iff_eq (smallPrimes_prime p hps) hp).mp (Nat.dvd_of_mod_eq_zero hd)
      have hp3 : 3 ≤ p := by
        simp only [smallPrimes, List.mem_cons, List.not_mem_nil, or_false] at hps
        omega
      right
      refine ⟨by omega, ?_, Or.inl ⟨p, hps, by omega⟩⟩
      rcases hp.eq_two_or_odd with h5 | h5
      · omega
      · omega

end MpycV.NumTh
