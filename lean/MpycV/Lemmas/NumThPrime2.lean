import MpycV.Lemmas.NumThPrime

namespace MpycV.NumTh

/-- Exact characterisation of the `True` answers of `is_prime` (for the bases drawn). -/
theorem isPrimeB_iff (bases : List Nat) (x : Int) :
    isPrimeB bases x = true ↔
      x = 2 ∨ (2 < x ∧ x % 2 = 1 ∧
        ((∃ p ∈ smallPrimes, x = (p : Int)) ∨
         ((∀ p ∈ smallPrimes, x.toNat % p ≠ 0) ∧ ∀ a ∈ bases, SPRP x.toNat a))) := by
  unfold isPrimeB
  by_cases h : x ≤ 2 ∨ x % 2 = 0
  · rw [if_pos h]
    constructor
    · intro h2; left; simpa using h2
    · rintro (h2 | ⟨h2, h3, _⟩)
      · simp [h2]
      · omega
  · rw [if_neg h]
    have hx2 : 2 < x := by omega
    have hodd : x % 2 = 1 := by omega
    have hxn : (x.toNat : Int) = x := Int.toNat_of_nonneg (by omega)
    have hxn2 : 2 < x.toNat := by omega
    have hxnodd : x.toNat % 2 = 1 := by omega
    simp only []
    split
    · next b hb =>
      obtain ⟨p, hp, hdiv, hbp⟩ := trialDiv_some hb
      subst hbp
      constructor
      · intro h2
        right
        refine ⟨hx2, hodd, Or.inl ⟨p, hp, ?_⟩⟩
        have : x.toNat = p := by simpa using h2
        omega
      · rintro (h2 | ⟨_, _, ⟨q, hq, hxq⟩ | ⟨h3, _⟩⟩)
        · omega
        · have hqn : x.toNat = q := by omega
          have hqp := smallPrimes_prime q hq
          have hpp := smallPrimes_prime p hp
          have hdvd : p ∣ q := by rw [← hqn]; exact Nat.dvd_of_mod_eq_zero hdiv
          have := (Nat.prime_dvd_prime_iff_eq hpp hqp).mp hdvd
          simp [hqn, this]
        · exact absurd hdiv (h3 p hp)
    · next hnone =>
      rw [trialDiv_none] at hnone
      rw [List.all_eq_true]
      constructor
      · intro h2
        right
        refine ⟨hx2, hodd, Or.inr ⟨hnone, fun a ha => ?_⟩⟩
        exact (mrRound_iff _ a hxn2 hxnodd).mp (h2 a ha)
      · rintro (h2 | ⟨_, _, ⟨q, hq, hxq⟩ | ⟨_, h3⟩⟩)
        · omega
        · exfalso
          have hqn : x.toNat = q := by omega
          apply hnone q hq
          rw [hqn]; exact Nat.mod_self q
        · intro a ha
          exact (mrRound_iff _ a hxn2 hxnodd).mpr (h3 a ha)

theorem isPrimeB_of_prime (bases : List Nat) (x : Int) (hp : Nat.Prime x.toNat)
    (hb : ∀ a ∈ bases, ¬ x.toNat ∣ a) : isPrimeB bases x = true := by
  rw [isPrimeB_iff]
  have h2 := hp.two_le
  have hxn : (x.toNat : Int) = x := Int.toNat_of_nonneg (by omega)
  rcases Nat.lt_or_ge 2 x.toNat with h3 | h3
  · right
    have hodd : x.toNat % 2 = 1 := by
      rcases hp.eq_two_or_odd with h | h
      · omega
      · exact h
    refine ⟨by omega, by omega, ?_⟩
    by_cases hex : ∃ p ∈ smallPrimes, x.toNat % p = 0
    · obtain ⟨p, hps, hdiv⟩ := hex
      left
      refine ⟨p, hps, ?_⟩
      have := (Nat.prime_dvd_prime_iff_eq (smallPrimes_prime p hps) hp).mp (Nat.dvd_of_mod_eq_zero hdiv)
      omega
    · right
      refine ⟨fun p hps hdiv => hex ⟨p, hps, hdiv⟩, fun a ha => prime_SPRP _ a hp (hb a ha)⟩
  · left; omega

/-- the trial-division stage is exact -/
theorem isPrimeB_trial_exact (bases : List Nat) (x : Int)
    (h : x ≤ 2 ∨ x % 2 = 0 ∨ ∃ p ∈ smallPrimes, x.toNat % p = 0) :
    isPrimeB bases x = true ↔ Nat.Prime x.toNat := by
  rw [isPrimeB_iff]
  constructor
  · rintro (h2 | ⟨h2, h3, ⟨q, hq, hxq⟩ | ⟨h4, _⟩⟩)
    · subst h2; exact Nat.prime_two
    · have : x.toNat = q := by omega
      rw [this]; exact smallPrimes_prime q hq
    · rcases h with h | h | ⟨p, hp, hd⟩
      · omega
      · omega
      · exact absurd hd (h4 p hp)
  · intro hp
    have h2 := hp.two_le
    rcases h with h | h | ⟨p, hps, hd⟩
    · left; omega
    · left
      rcases hp.eq_two_or_odd with h5 | h5
      · omega
      · omega
    · have := (Nat.prime_dvd_prime_iff_eq (smallPrimes_prime p hps) hp).mp (Nat.dvd_of_mod_eq_zero hd)
      have hp3 : 3 ≤ p := by
        simp only [smallPrimes, List.mem_cons, List.not_mem_nil, or_false] at hps
        omega
      right
      refine ⟨by omega, ?_, Or.inl ⟨p, hps, by omega⟩⟩
      rcases hp.eq_two_or_odd with h5 | h5
      · omega
      · omega

/-! ### linear searches -/

theorem searchUp_spec (isP : Int → Bool) (step : Int) (fuel : Nat) (c : Int)
    (h : ∃ j, j < fuel ∧ isP (c + step * j) = true) :
    ∃ j, j < fuel ∧ searchUp isP step fuel c = .ok (c + step * j) ∧ isP (c + step * j) = true ∧
      ∀ i, i < j → isP (c + step * i) = false := by
  induction fuel generalizing c with
  | zero => obtain ⟨j, hj, _⟩ := h; omega
  | succ f ih =>
    simp only [searchUp]
    by_cases h0 : isP c = true
    · exact ⟨0, by omega, by simp [h0], by simpa using h0, by intro i hi; omega⟩
    · obtain ⟨j, hj, hP⟩ := h
      rcases Nat.eq_zero_or_pos j with hj0 | hj0
      · subst hj0; simp at hP; exact absurd hP h0
      · have : ∃ j', j' < f ∧ isP (c + step + step * j') = true := by
          refine ⟨j - 1, by omega, ?_⟩
          have : c + step + step * ((j - 1 : Nat) : Int) = c + step * (j : Int) := by
            rw [Nat.cast_sub hj0]; push_cast; ring
          rw [this]; exact hP
        obtain ⟨j', hj', h1, h2, h3⟩ := ih (c + step) this
        refine ⟨j' + 1, by omega, ?_, ?_, ?_⟩
        · rw [if_neg h0, h1]; congr 1; push_cast; ring
        · have : c + step * ((j' + 1 : Nat) : Int) = c + step + step * (j' : Int) := by push_cast; ring
          rw [this]; exact h2
        · intro i hi
          rcases Nat.eq_zero_or_pos i with hi0 | hi0
          · subst hi0; simpa using h0
          · have := h3 (i - 1) (by omega)
            have e : c + step + step * ((i - 1 : Nat) : Int) = c + step * (i : Int) := by
              rw [Nat.cast_sub hi0]; push_cast; ring
            rwa [e] at this

theorem searchDown_eq (isP : Int → Bool) (fuel : Nat) (c : Int) :
    searchDown isP fuel c = searchUp isP (-2) fuel c := by
  induction fuel generalizing c with
  | zero => rfl
  | succ f ih => simp only [searchDown, searchUp, ih]; rfl

/-- a primality oracle that is correct on every integer -/
def CorrectOracle (isP : Int → Bool) : Prop := ∀ y : Int, isP y = true ↔ Nat.Prime y.toNat

theorem nextPrime_spec (isP : Int → Bool) (hP : CorrectOracle isP) (x : Int) :
    ∃ p : Int, nextPrime isP x = .ok p ∧ Nat.Prime p.toNat ∧ x < p ∧
      ∀ q : Int, Nat.Prime q.toNat → x < q → p ≤ q := by
  unfold nextPrime
  by_cases hx : x ≤ 1
  · rw [if_pos hx]
    refine ⟨2, rfl, Nat.prime_two, by omega, fun q hq _ => ?_⟩
    have := hq.two_le; omega
  · rw [if_neg hx]
    have hx2 : 2 ≤ x := by omega
    set c := x + (1 + x % 2) with hc
    have hcodd : c % 2 = 1 := by omega
    obtain ⟨q, hq, hq1, hq2⟩ := Nat.exists_prime_lt_and_le_two_mul x.toNat (by omega)
    have hqodd : q % 2 = 1 := by
      rcases hq.eq_two_or_odd with h | h
      · omega
      · exact h
    have hqc : c ≤ (q : Int) := by omega
    have hex : ∃ j, j < x.toNat + 2 ∧ isP (c + 2 * (j : Int)) = true := by
      refine ⟨((q : Int) - c).toNat / 2, by omega, ?_⟩
      have : c + 2 * ((((q : Int) - c).toNat / 2 : Nat) : Int) = (q : Int) := by omega
      rw [this, hP]; simpa using hq
    obtain ⟨j, hj, h1, h2, h3⟩ := searchUp_spec isP 2 _ c hex
    refine ⟨c + 2 * j, h1, (hP _).mp h2, by omega, fun q' hq' hxq' => ?_⟩
    by_contra hlt
    have hq'2 := hq'.two_le
    have hq'odd : q'.toNat % 2 = 1 := by
      rcases hq'.eq_two_or_odd with h | h
      · omega
      · exact h
    have := h3 ((q' - c).toNat / 2) (by omega)
    have e : c + 2 * (((q' - c).toNat / 2 : Nat) : Int) = q' := by omega
    rw [e] at this
    have := (hP q').mpr hq'
    simp_all

theorem prevPrime_spec (isP : Int → Bool) (hP : CorrectOracle isP) (x : Int) :
    (x < 3 → prevPrime isP x = .error .valueError) ∧
    (3 ≤ x → ∃ p : Int, prevPrime isP x = .ok p ∧ Nat.Prime p.toNat ∧ p < x ∧
      ∀ q : Int, Nat.Prime q.toNat → q < x → q ≤ p) := by
  unfold prevPrime
  constructor
  · intro h; rw [if_pos h]
  · intro h
    rw [if_neg (by omega)]
    by_cases h3 : x = 3
    · rw [if_pos h3]
      refine ⟨2, rfl, Nat.prime_two, by omega, fun q hq hq3 => ?_⟩
      omega
    · rw [if_neg h3, searchDown_eq]
      set c := x - (1 + x % 2) with hc
      have hc3 : 3 ≤ c := by omega
      have hcodd : c % 2 = 1 := by omega
      have hex : ∃ j, j < x.toNat ∧ isP (c + (-2) * (j : Int)) = true := by
        refine ⟨(c - 3).toNat / 2, by omega, ?_⟩
        have : c + (-2) * (((c - 3).toNat / 2 : Nat) : Int) = 3 := by omega
        rw [this, hP]; exact Nat.prime_three
      obtain ⟨j, hj, h1, h2, h3'⟩ := searchUp_spec isP (-2) _ c hex
      have hj3 : 3 ≤ c + (-2) * (j : Int) := by
        by_contra hlt
        have := h3' ((c - 3).toNat / 2) (by omega)
        have e : c + (-2) * (((c - 3).toNat / 2 : Nat) : Int) = 3 := by omega
        rw [e] at this
        have h33 : isP 3 = true := by rw [hP]; exact Nat.prime_three
        simp_all
      refine ⟨c + (-2) * j, h1, (hP _).mp h2, by omega, fun q hq hqx => ?_⟩
      by_contra hlt
      have hq2 := hq.two_le
      rcases hq.eq_two_or_odd with h | h
      · omega
      · have := h3' ((c - q).toNat / 2) (by omega)
        have e : c + (-2) * (((c - q).toNat / 2 : Nat) : Int) = q := by omega
        rw [e] at this
        have := (hP q).mpr hq
        simp_all

end MpycV.NumTh
