/-
Bridge, part: the translated `_powmod` (both specialisations), `_is_irreducible`, `_next_irreducible` equal the model
`GFpX.powmod`, `isIrreducible`, `nextIrreducible`.
-/
import MpycV.Lemmas.GfpxSrcBridgeGcd
import MpycV.Lemmas.GfpxSrcBridgeInt
import MpycV.Lemmas.GFpXPow
import MpycV.Lemmas.GFpXBin

namespace MpycV.GfpxBridge
open MpycV.PyList MpycV.PyLoop MpycV.PyPoly MpycV.GFpX

variable {p : ℕ}

/-! ### binary digits: the list the model walks = the indices the Python loop walks -/

def bitAt (n i : ℕ) : Bool := decide (n / 2 ^ i % 2 = 1)

def msbBits (n : ℕ) : List Bool := ((List.range (BinPoly.bitLen n)).reverse).map (bitAt n)

theorem msbBits_succ {n : ℕ} (hn : n ≠ 0) : msbBits n = msbBits (n / 2) ++ [decide (n % 2 = 1)] := by
  unfold msbBits
  rw [BinPoly.bitLen_succ_div hn, List.range_succ_eq_map, List.reverse_cons, List.map_append, ← List.map_reverse,
    List.map_map]
  congr 1
  · apply List.map_congr_left
    intro i _
    simp only [Function.comp, bitAt, pow_succ]
    rw [Nat.mul_comm, ← Nat.div_div_eq_div_mul]
  · simp [bitAt]

theorem bitsAux_eq : ∀ (f n : ℕ) (acc : List Bool), n ≤ f → bitsAux f n acc = msbBits n ++ acc := by
  intro f
  induction f with
  | zero =>
    intro n acc h
    have : n = 0 := by omega
    subst this
    simp [bitsAux, msbBits, BinPoly.bitLen]
  | succ f ih =>
    intro n acc h
    rw [bitsAux]
    by_cases hn : n = 0
    · subst hn; simp [msbBits, BinPoly.bitLen]
    · rw [if_neg hn, ih (n / 2) _ (by omega), msbBits_succ hn]
      simp

theorem bitsMSB_tail (n : ℕ) :
    (bitsMSB n).tail = ((List.range (BinPoly.bitLen n - 1)).reverse).map (bitAt n) := by
  unfold bitsMSB
  rw [bitsAux_eq n n [] le_rfl, List.append_nil, msbBits]
  cases h : BinPoly.bitLen n with
  | zero => simp
  | succ k => simp [List.range_succ]

theorem bitLength_eq_bitLen (n : ℕ) : NumTh.bitLength (n : Int) = BinPoly.bitLen n := by
  simp [NumTh.bitLength, BinPoly.bitLen]

theorem shr_bit (n i : ℕ) : ((pyShr (n : Int) (i : Int)) % 2 ≠ 0) ↔ bitAt n i = true := by
  unfold pyShr bitAt
  simp only [Int.toNat_natCast, decide_eq_true_eq]
  have : ((n : Int) / 2 ^ i) = ((n / 2 ^ i : ℕ) : Int) := by push_cast; rfl
  rw [this]
  omega

/-! ### the square-and-multiply loop -/

/-- one pass of the loop body, abstractly: `modI` is the translated `_mod(·, modulus)` for the modulus at hand -/
theorem pow_loop [Fact p.Prime] (n : ℕ) (a : List ℕ) (m : Option Poly) (ha : WF p a)
    (hm : ∀ M, m = some M → WF p M)
    (body : Int → List Int → Except TErr (List Int))
    (hb : ∀ (i : ℕ) (b : List ℕ), WF p b → body (i : Int) (up b) = liftE up (powStep p a m b (bitAt n i))) :
    ∀ (is : List ℕ) (b : List ℕ), WF p b →
      pyFor (is.map fun (i : ℕ) => (i : Int)) (up b) body = liftE up (powLoop p a m (is.map (bitAt n)) b) := by
  intro is
  induction is with
  | nil => intro b _; rfl
  | cons i is ih =>
    intro b hbw
    simp only [List.map_cons, pyFor, powLoop, hb i b hbw]
    cases hstep : powStep p a m b (bitAt n i) with
    | error e => cases e <;> rfl
    | ok b' =>
      have hw' : WF p b' := by
        cases m with
        | none =>
          have h1 := wf_sq hbw
          simp only [powStep, modOpt, bind, Except.bind, pure, Except.pure] at hstep
          split at hstep
          · simp only [Except.ok.injEq] at hstep; rw [← hstep]; exact wf_mul h1 ha
          · simp only [Except.ok.injEq] at hstep; rw [← hstep]; exact h1
        | some M =>
          have hM := hm M rfl
          by_cases hM0 : M = []
          · subst hM0
            simp [powStep, modOpt, GFpX.mod, bind, Except.bind] at hstep
          · obtain ⟨r, e, w, _⟩ := powStep_some_spec ha hM hM0 hbw (bitAt n i)
            rw [e] at hstep
            simp only [Except.ok.injEq] at hstep
            rw [← hstep]; exact w
      simp only [liftE, bind, Except.bind]
      exact ih b' hw'

/-- the loop of `_powmod` for a positive exponent `n` -/
theorem pow_for [Fact p.Prime] (n : ℕ) (hn : 0 < n) (a : List ℕ) (m : Option Poly) (ha : WF p a)
    (hm : ∀ M, m = some M → WF p M)
    (body : Int → List Int → Except TErr (List Int))
    (hb : ∀ (i : ℕ) (b : List ℕ), WF p b → body (i : Int) (up b) = liftE up (powStep p a m b (bitAt n i)))
    (b : List ℕ) (hbw : WF p b) :
    pyFor (pyRangeDown (((NumTh.bitLength (n : Int) : ℕ) : Int) - 2) (-1)) (up b) body
      = liftE up (powLoop p a m (bitsMSB n).tail b) := by
  rw [bitLength_eq_bitLen, bitsMSB_tail]
  have hL : 1 ≤ BinPoly.bitLen n := by
    have := BinPoly.bitLen_eq_zero_iff (a := n)
    omega
  have e : ((BinPoly.bitLen n : ℕ) : Int) - 2 = ((BinPoly.bitLen n - 1 : ℕ) : Int) - 1 := by omega
  rw [e, pyRangeDown_nat]
  exact pow_loop n a m ha hm body hb _ b hbw

/-- body of the loop in `powmod` (modulus a list) -/
theorem pow_body_some [Fact p.Prime] (n : ℕ) (a : List ℕ) {M : List ℕ} (hM : WF p M) (i : ℕ) (b : List ℕ) :
    (match GfpxMirror.sq (p : Int) (up b) with
      | .error exc_ => .error exc_
      | .ok v3 =>
        match GfpxMirror.mod (p : Int) v3 (up M) with
        | .error exc_ => .error exc_
        | .ok v4 =>
          if (i : Int) < 0 then .error .valueError else
          if ((pyShr (n : Int) (i : Int)) % 2) ≠ 0 then
            match GfpxMirror.mul (p : Int) false v4 (up a) with
            | .error exc_ => .error exc_
            | .ok v5 =>
              match GfpxMirror.mod (p : Int) v5 (up M) with
              | .error exc_ => .error exc_
              | .ok v6 => .ok v6
          else
            .ok v4 : Except TErr (List Int)) = liftE up (powStep p a (some M) b (bitAt n i)) := by
  simp only [sq_eq, mod_eq p _ hM, powStep, modOpt, bind, Except.bind]
  cases h1 : GFpX.mod p (sq p b) M with
  | error e => cases e <;> rfl
  | ok b1 =>
    simp only [liftE]
    have hi : ¬ ((i : Int) < 0) := by omega
    simp only [hi, if_false]
    by_cases hbit : bitAt n i = true
    · have hs := (shr_bit n i).mpr hbit
      simp only [if_pos hs, hbit, mul_eq, mod_eq p _ hM, if_true]
      cases GFpX.mod p (mul p b1 a) M with
      | error e => cases e <;> rfl
      | ok b2 => rfl
    · have hs : ¬ ((pyShr (n : Int) (i : Int)) % 2 ≠ 0) := fun h => hbit ((shr_bit n i).mp h)
      simp only [if_neg hs, if_false, hbit, Bool.false_eq_true, pure, Except.pure, liftE]

/-- body of the loop in `powmod_N` (no modulus) -/
theorem pow_body_none [Fact p.Prime] (n : ℕ) (a : List ℕ) (i : ℕ) (b : List ℕ) :
    (match GfpxMirror.sq (p : Int) (up b) with
      | .error exc_ => .error exc_
      | .ok v2 =>
        match GfpxMirror.mod_N (p : Int) v2 with
        | .error exc_ => .error exc_
        | .ok v3 =>
          if (i : Int) < 0 then .error .valueError else
          if ((pyShr (n : Int) (i : Int)) % 2) ≠ 0 then
            match GfpxMirror.mul (p : Int) false v3 (up a) with
            | .error exc_ => .error exc_
            | .ok v4 =>
              match GfpxMirror.mod_N (p : Int) v4 with
              | .error exc_ => .error exc_
              | .ok v5 => .ok v5
          else
            .ok v3 : Except TErr (List Int)) = liftE up (powStep p a none b (bitAt n i)) := by
  simp only [sq_eq, mod_N_eq, powStep, modOpt, bind, Except.bind]
  have hi : ¬ ((i : Int) < 0) := by omega
  simp only [hi, if_false]
  by_cases hbit : bitAt n i = true
  · have hs := (shr_bit n i).mpr hbit
    simp only [if_pos hs, if_true, hbit, mul_eq, mod_N_eq, liftE]
  · have hs : ¬ ((pyShr (n : Int) (i : Int)) % 2 ≠ 0) := fun h => hbit ((shr_bit n i).mp h)
    simp only [if_neg hs, if_false, hbit, Bool.false_eq_true, pure, Except.pure, liftE]

theorem fromInt_one (hp : 1 < p) : fromInt p 1 = [1] := by
  simp [fromInt, digits, digitsAux, Nat.mod_eq_of_lt hp]

/-- `_powmod(a, n, modulus)` with a polynomial modulus -/
theorem powmod_eq [Fact p.Prime] {a M : List ℕ} (ha : WF p a) (hM : WF p M) (n : Int) :
    GfpxMirror.powmod (p : Int) (up a) n (up M) = liftE up (GFpX.powmod p a n (some M)) := by
  have hp : 1 < p := (Fact.out : p.Prime).one_lt
  unfold GfpxMirror.powmod GFpX.powmod
  by_cases h0 : n = 0
  · subst h0
    simp only [if_true, from_int_eq p hp, Int.cast_ofNat_Int, fromInt_one hp, pure, Except.pure, liftE]
  simp only [h0, if_false]
  by_cases hneg : n < 0
  · obtain ⟨k, rfl⟩ : ∃ k : ℕ, n = -(k : Int) := ⟨n.natAbs, by omega⟩
    have hk : 0 < k := by omega
    simp only [hneg, if_true, invert_eq ha hM, neg_neg, Int.natAbs_neg, Int.natAbs_natCast, bind, Except.bind]
    cases hinv : GFpX.invert p a M with
    | error e => cases e <;> rfl
    | ok a' =>
      have wa' := ((GFpX.invert_spec ha hM).2 a' hinv).1
      simp only [liftE]
      generalize hx : pyFor _ _ _ = x
      have h2 : x = liftE up (powLoop p a' (some M) (bitsMSB k).tail a') := by
        rw [← hx]
        refine pow_for k hk a' (some M) wa' (fun M' h => by cases h; exact hM) _ ?_ a' wa'
        intro i b _
        exact pow_body_some k a' hM i b
      rw [h2]
      cases powLoop p a' (some M) (bitsMSB k).tail a' with
      | error e => cases e <;> rfl
      | ok v => rfl
  · obtain ⟨k, rfl⟩ : ∃ k : ℕ, n = (k : Int) := ⟨n.natAbs, by omega⟩
    have hk : 0 < k := by omega
    simp only [hneg, if_false, Int.natAbs_natCast]
    generalize hx : pyFor _ _ _ = x
    have h2 : x = liftE up (powLoop p a (some M) (bitsMSB k).tail a) := by
      rw [← hx]
      refine pow_for k hk a (some M) ha (fun M' h => by cases h; exact hM) _ ?_ a ha
      intro i b _
      exact pow_body_some k a hM i b
    rw [h2]
    cases powLoop p a (some M) (bitsMSB k).tail a with
    | error e => cases e <;> rfl
    | ok v => rfl

/-- `_powmod(a, n)` without modulus -/
theorem powmod_N_eq [Fact p.Prime] {a : List ℕ} (ha : WF p a) (n : Int) :
    GfpxMirror.powmod_N (p : Int) (up a) n = liftE up (GFpX.powmod p a n none) := by
  have hp : 1 < p := (Fact.out : p.Prime).one_lt
  unfold GfpxMirror.powmod_N GFpX.powmod
  by_cases h0 : n = 0
  · subst h0
    simp only [if_true, from_int_eq p hp, Int.cast_ofNat_Int, fromInt_one hp, pure, Except.pure, liftE]
  simp only [h0, if_false]
  by_cases hneg : n < 0
  · simp only [hneg, if_true, liftE]
  · obtain ⟨k, rfl⟩ : ∃ k : ℕ, n = (k : Int) := ⟨n.natAbs, by omega⟩
    have hk : 0 < k := by omega
    simp only [hneg, if_false, Int.natAbs_natCast]
    generalize hx : pyFor _ _ _ = x
    have h2 : x = liftE up (powLoop p a none (bitsMSB k).tail a) := by
      rw [← hx]
      refine pow_for k hk a none ha (fun M' h => by cases h) _ ?_ a ha
      intro i b _
      exact pow_body_none k a i b
    rw [h2]
    cases powLoop p a none (bitsMSB k).tail a with
    | error e => cases e <;> rfl
    | ok v => rfl

end MpycV.GfpxBridge

namespace MpycV.GfpxBridge
open MpycV.PyList MpycV.PyLoop MpycV.PyPoly MpycV.GFpX

variable {p : ℕ}

/-! ### is_irreducible -/

theorem irr_loop [Fact p.Prime] {a : List ℕ} (ha : WF p a) (hane : a ≠ []) (stop : ℕ)
    (body : List Int × Int → Except TErr (Ctl (List Int × Int) Bool))
    (hb1 : ∀ (i : ℕ) (b : List ℕ), i < stop → body (up b, (i : Int)) =
      match GfpxMirror.powmod (p : Int) (up b) (p : Int) (up a) with
      | .error exc_ => .error exc_
      | .ok v4 =>
        match GfpxMirror.sub (p : Int) v4 ([0, 1] : List Int) with
        | .error exc_ => .error exc_
        | .ok v5 =>
          match GfpxMirror.gcd (p : Int) v5 (up a) with
          | .error exc_ => .error exc_
          | .ok v6 => if v6 ≠ ([1] : List Int) then .ok (.ret false) else .ok (.next (v4, (i : Int) + 1)))
    (hb2 : ∀ (i : ℕ) (b : List ℕ), ¬ i < stop → body (up b, (i : Int)) = .ok (.brk (up b, (i : Int)))) :
    ∀ (f k i : ℕ) (b : List ℕ), WF p b → i + k = stop → k < f →
      onLoop (loop TErr.fuel body f (up b, (i : Int))) (fun r_ => .ok r_) (fun _ => .ok true)
        = .ok (irrLoop p a k b) := by
  have hp : 0 < p := (Fact.out : p.Prime).pos
  have hp1 : 1 < p := (Fact.out : p.Prime).one_lt
  have wX : Reduced p [0, 1] := by intro x hx; simp at hx; omega
  intro f
  induction f with
  | zero => intro k i b _ _ h; omega
  | succ f ih =>
    intro k i b hbw hik hkf
    rw [loop]
    cases k with
    | zero =>
      rw [hb2 i b (by omega)]
      simp [onLoop, irrLoop]
    | succ k =>
      rw [hb1 i b (by omega), powmod_eq hbw ha]
      obtain ⟨r, e, w, _, _⟩ := powmod_pos_some hbw ha hane hp
      rw [irrLoop, e]
      simp only [liftE]
      have e01 : ([0, 1] : List Int) = up [0, 1] := rfl
      have e1 : ([1] : List Int) = up [1] := rfl
      rw [e01, sub_eq p r wX]
      have hsw := wf_sub hp w.1 wX
      simp only [gcd_eq hsw ha, e1]
      by_cases hg : GFpX.gcd p (GFpX.sub p r [0, 1]) a = [1]
      · have : ¬ (up (GFpX.gcd p (GFpX.sub p r [0, 1]) a) ≠ up [1]) := by rw [hg]; simp
        rw [if_neg this, if_neg (by simpa using hg)]
        have := ih k (i + 1) r w (by omega) (by omega)
        simpa using this
      · have : up (GFpX.gcd p (GFpX.sub p r [0, 1]) a) ≠ up [1] := fun h => hg (up_injective h)
        rw [if_pos this, if_pos (by simpa using hg)]
        rfl

theorem is_irreducible_eq [Fact p.Prime] {a : List ℕ} (ha : WF p a) :
    GfpxMirror.is_irreducible (p : Int) (up a) = .ok (isIrreducible p a) := by
  unfold GfpxMirror.is_irreducible isIrreducible
  simp only [degree_eq, GFpX.degree]
  by_cases hlen : a.length ≤ 1
  · have : ((a.length : Int) - 1) ≤ 0 := by omega
    simp only [this, if_true, hlen]
  · have h1 : ¬ ((a.length : Int) - 1) ≤ 0 := by omega
    have hane : a ≠ [] := by rintro rfl; simp at hlen
    simp only [h1, if_false, hlen]
    have hstop : ((a.length : Int) - 1) / 2 = (((a.length - 1) / 2 : ℕ) : Int) := by omega
    rw [hstop]
    have e01 : ([0, 1] : List Int) = up [0, 1] := rfl
    have wX : WF p [0, 1] := ⟨by
      have := (Fact.out : p.Prime).one_lt
      intro x hx; simp at hx; omega, by simp [Normalised]⟩
    have hloop := fun body hb1 hb2 => irr_loop (p := p) ha hane ((a.length - 1) / 2) body hb1 hb2
      ((a.length - 1) / 2 + 1) ((a.length - 1) / 2) 0 [0, 1] wX (by omega) (by omega)
    rw [← e01] at hloop
    have hfuel : ((((a.length - 1) / 2 : ℕ) : Int) - ((0 : ℕ) : Int)).toNat + 1 = (a.length - 1) / 2 + 1 := by omega
    rw [hfuel]
    refine hloop _ (fun i b hi => ?_) (fun i b hi => ?_)
    · have : (i : Int) < (((a.length - 1) / 2 : ℕ) : Int) := by exact_mod_cast hi
      simp only [if_pos this]
      rfl
    · have : ¬ (i : Int) < (((a.length - 1) / 2 : ℕ) : Int) := by
        intro h; exact hi (by exact_mod_cast h)
      simp only [if_neg this]

end MpycV.GfpxBridge

namespace MpycV.GfpxBridge
open MpycV.PyList MpycV.PyLoop MpycV.PyPoly MpycV.GFpX

variable {p : ℕ}

/-! ### next_irreducible -/

theorem next_loop [Fact p.Prime] (body : Int → Except TErr (Ctl Int (List Int)))
    (hb : ∀ a : Int, body a =
      (let a := (a + 1)
       let a := if ((a % (p : Int)) = 0 ∧ a ≠ (p : Int)) then a + 1 else a
       match GfpxMirror.from_int (p : Int) a with
       | .error exc_ => .error exc_
       | .ok v2 =>
         if pyIdxOk v2.length (-1) = false then .error .indexError else
         if (pyGet v2 (-1)) ≠ 1 then .ok (.next ((pyPow (p : Int) (v2.length : Int)) - 1))
         else
           match GfpxMirror.is_irreducible (p : Int) v2 with
           | .error exc_ => .error exc_
           | .ok v3 => if v3 = true then .ok (.ret v2) else .ok (.next a))) :
    ∀ (fuel a : ℕ), onLoop (loop TErr.fuel body fuel (a : Int)) (fun r_ => .ok r_) (fun _ => .error TErr.fuel) =
      match nextIrrLoop p fuel a with
      | some c => .ok (up c)
      | none => .error TErr.fuel := by
  have hp1 : 1 < p := (Fact.out : p.Prime).one_lt
  intro fuel
  induction fuel with
  | zero => intro a; rfl
  | succ f ih =>
    intro a
    rw [loop, hb, nextIrrLoop]
    dsimp only
    -- the candidate after the skip
    have hskip : (if (((a : Int) + 1) % (p : Int) = 0 ∧ (a : Int) + 1 ≠ (p : Int)) then (a : Int) + 1 + 1 else (a : Int) + 1)
        = ((if (a + 1) % p = 0 ∧ a + 1 ≠ p then a + 1 + 1 else a + 1 : ℕ) : Int) := by
      have e : ((a : Int) + 1) % (p : Int) = (((a + 1) % p : ℕ) : Int) := by push_cast; rfl
      by_cases hc : (a + 1) % p = 0 ∧ a + 1 ≠ p
      · have hc' : ((a : Int) + 1) % (p : Int) = 0 ∧ (a : Int) + 1 ≠ (p : Int) := by
          rw [e]; exact ⟨by exact_mod_cast hc.1, by intro h; exact hc.2 (by exact_mod_cast h)⟩
        rw [if_pos hc', if_pos hc]; push_cast; rfl
      · have hc' : ¬ (((a : Int) + 1) % (p : Int) = 0 ∧ (a : Int) + 1 ≠ (p : Int)) := by
          rw [e]; intro h; exact hc ⟨by exact_mod_cast h.1, by intro h2; exact h.2 (by exact_mod_cast h2)⟩
        rw [if_neg hc', if_neg hc]; push_cast; rfl
    rw [hskip]
    set a2 := (if (a + 1) % p = 0 ∧ a + 1 ≠ p then a + 1 + 1 else a + 1) with ha2
    have ha2pos : a2 ≠ 0 := by rw [ha2]; split <;> omega
    rw [from_int_eq p hp1, fromInt_nonneg]
    set c := digits p a2 with hc
    have hcne : c ≠ [] := by
      rw [hc, digits_eq hp1]; exact Nat.digits_ne_nil_iff_ne_zero.mpr ha2pos
    have hupne : up c ≠ [] := fun h => hcne (up_eq_nil.mp h)
    have hwc : WF p c := wf_digits hp1 a2
    have hidx : pyIdxOk c.length (-1) = true := by
      have := pyIdxOk_neg_one hupne; rwa [up_length] at this
    simp only [pyIdxOk_neg_one hupne, hidx, Bool.true_eq_false, if_false, pyGet_neg_one hupne, up_getLastD, up_length]
    by_cases hlead : c.getLastD 0 ≠ 1
    · have hlead' : ((c.getLastD 0 : ℕ) : Int) ≠ 1 := by exact_mod_cast hlead
      rw [if_pos hlead', if_pos hlead]
      have hpow : (pyPow (p : Int) (c.length : Int)) - 1 = ((p ^ c.length - 1 : ℕ) : Int) := by
        unfold pyPow
        have : 1 ≤ p ^ c.length := Nat.one_le_pow _ _ (by omega)
        rw [Int.toNat_natCast]; push_cast [this]; rfl
      rw [hpow]
      exact ih _
    · have hlead' : ¬ ((c.getLastD 0 : ℕ) : Int) ≠ 1 := by
        intro h; exact hlead (by exact_mod_cast h)
      rw [if_neg hlead', if_neg hlead, is_irreducible_eq hwc]
      by_cases hirr : isIrreducible p c = true
      · simp [hirr, onLoop]
      · simp only [hirr, Bool.false_eq_true, if_false]
        exact ih _

theorem next_irreducible_eq [Fact p.Prime] (fuel : ℕ) (a : List ℕ) :
    GfpxMirror.next_irreducible (p : Int) fuel (up a) =
      match nextIrreducible p fuel a with
      | some c => .ok (up c)
      | none => .error TErr.fuel := by
  unfold GfpxMirror.next_irreducible nextIrreducible
  rw [to_int_eq]
  dsimp only
  exact next_loop _ (fun a => rfl) fuel (toInt p a)

end MpycV.GfpxBridge
