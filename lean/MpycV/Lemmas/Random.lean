/-
Lemmas about the model of mpyc/random.py: bit helpers, `_randbelow` range invariant.
-/
import MpycV.Model.Random
import Mathlib.Tactic.Ring
import Mathlib.Tactic.Linarith

namespace MpycV.Random

/-! ### bits -/

theorem toNat_le_one (b : Bool) : b.toNat ≤ 1 := by cases b <;> simp

@[simp] theorem fromBits_nil : fromBits [] = 0 := rfl

@[simp] theorem fromBits_cons (a : Bool) (x : List Bool) : fromBits (a :: x) = a.toNat + 2 * fromBits x := rfl

theorem fromBits_lt (x : List Bool) : fromBits x < 2 ^ x.length := by
  induction x with
  | nil => simp
  | cons a x ih =>
    have := toNat_le_one a
    simp only [fromBits_cons, List.length_cons, Nat.pow_succ]
    omega

theorem fromBits_append (x y : List Bool) : fromBits (x ++ y) = fromBits x + 2 ^ x.length * fromBits y := by
  induction x with
  | nil => simp
  | cons a x ih =>
    simp only [List.cons_append, fromBits_cons, ih, List.length_cons, Nat.pow_succ]
    ring

/-- `x = x[:i] ++ x[i:]` on values -/
theorem fromBits_take_drop (x : List Bool) (i : Nat) (hi : i ≤ x.length) :
    fromBits x = fromBits (x.take i) + 2 ^ i * fromBits (x.drop i) := by
  conv => lhs; rw [← List.take_append_drop i x]
  rw [fromBits_append, List.length_take, Nat.min_eq_left hi]

theorem fromBits_drop_step (x : List Bool) (i : Nat) (hi : i < x.length) :
    fromBits (x.drop i) = (x.getD i false).toNat + 2 * fromBits (x.drop (i + 1)) := by
  rw [List.drop_eq_getElem_cons hi, fromBits_cons]
  simp [List.getD_eq_getElem?_getD, List.getElem?_eq_getElem hi]

theorem takeBits_some {n : Nat} {s nb s' : List Bool} (h : takeBits n s = some (nb, s')) :
    nb.length = n ∧ s = nb ++ s' := by
  unfold takeBits at h
  split at h
  · rename_i hle
    simp only [Option.some.injEq, Prod.mk.injEq] at h
    obtain ⟨rfl, rfl⟩ := h
    exact ⟨by simp [List.length_take, Nat.min_eq_left hle], (List.take_append_drop n s).symm⟩
  · simp at h

theorem takeBits_length {n : Nat} {s nb s' : List Bool} (h : takeBits n s = some (nb, s')) :
    s'.length + n = s.length := by
  obtain ⟨h1, h2⟩ := takeBits_some h
  rw [h2, List.length_append, h1]; omega

/-! ### division facts -/

theorem div_pow_pred (b i : Nat) (hi : 1 ≤ i) :
    b / 2 ^ (i - 1) = 2 * (b / 2 ^ i) + b / 2 ^ (i - 1) % 2 := by
  have h1 : 2 ^ i = 2 ^ (i - 1) * 2 := by
    rw [← Nat.pow_succ]; congr 1; omega
  rw [h1, ← Nat.div_div_eq_div_mul]
  omega

theorem testBit_iff (b i : Nat) : b.testBit i = true ↔ b / 2 ^ i % 2 = 1 := by
  rw [Nat.testBit_eq_decide_div_mod_eq]; simp

/-! ### getrandbits -/

theorem getrandbitsBits_ok {k : Nat} {s : List Bool} {o : Out (List Bool)}
    (h : getrandbitsBits k s = .ok o) : o.val.length = k ∧ o.opened = [] ∧ s = o.val ++ o.rest := by
  unfold getrandbitsBits at h
  split at h
  · rename_i x s' hx
    cases h
    obtain ⟨h1, h2⟩ := takeBits_some hx
    exact ⟨h1, rfl, h2⟩
  · cases h

theorem map_ok {α β : Type} {f : α → β} {r : Res α} {o : Out β} (h : r.map f = .ok o) :
    ∃ o', r = .ok o' ∧ o.val = f o'.val ∧ o.opened = o'.opened ∧ o.rest = o'.rest := by
  cases r with
  | ok o' => simp only [Res.map, Res.ok.injEq] at h; subst h; exact ⟨o', rfl, rfl, rfl, rfl⟩
  | exhausted => simp [Res.map] at h
  | fuel => simp [Res.map] at h
  | error e => simp [Res.map] at h

theorem bind_ok {α β : Type} {r : Res α} {f : α → List Bool → Res β} {o : Out β} (h : r.bind f = .ok o) :
    ∃ o1 o2, r = .ok o1 ∧ f o1.val o1.rest = .ok o2 ∧ o.val = o2.val ∧ o.opened = o1.opened ++ o2.opened ∧
      o.rest = o2.rest := by
  cases r with
  | ok o1 =>
    simp only [Res.bind] at h
    cases h2 : f o1.val o1.rest with
    | ok o2 => rw [h2] at h; simp only [Res.ok.injEq] at h; subst h; exact ⟨o1, o2, rfl, h2, rfl, rfl, rfl⟩
    | exhausted => rw [h2] at h; cases h
    | fuel => rw [h2] at h; cases h
    | error e => rw [h2] at h; cases h
  | exhausted => simp [Res.bind] at h
  | fuel => simp [Res.bind] at h
  | error e => simp [Res.bind] at h

/-! ### `_randbelow`: the range invariant of the rejection loop

`X i = fromBits (x.drop i)` is the number formed by the bits `x[i:]`, `B i = b / 2^i` the same for `b`.
Invariant: `X i ≤ B i` and `h = 1 ↔ X i = B i`. -/

theorem rbLoop_inv (b k t : Nat) (hb : b < 2 ^ k) (ht : 1 ≤ t) :
    ∀ (fuel : Nat) (x : List Bool) (h : Bool) (i : Nat) (opened s : List Bool) (o : Out (List Bool)),
      x.length = k → i ≤ k → fromBits (x.drop i) ≤ b / 2 ^ i →
      (h = true ↔ fromBits (x.drop i) = b / 2 ^ i) →
      rbLoop b k t fuel x h i opened s = .ok o →
      o.val.length = k ∧ ∃ j, j < t ∧ j ≤ k ∧ fromBits (o.val.drop j) ≤ b / 2 ^ j := by
  intro fuel
  induction fuel with
  | zero => intro x h i opened s o _ _ _ _ hr; simp [rbLoop] at hr
  | succ fuel ih =>
    intro x h i opened s o hx hik hle hh hr
    unfold rbLoop at hr
    by_cases hti : t ≤ i
    · simp only [hti, if_true] at hr
      have hi1 : 1 ≤ i := by omega
      have hi' : i - 1 < x.length := by omega
      have hX := fromBits_drop_step x (i - 1) hi'
      have hii : i - 1 + 1 = i := by omega
      rw [hii] at hX
      have hB := div_pow_pred b i hi1
      have hbit := toNat_le_one (x.getD (i - 1) false)
      by_cases hbt : b.testBit (i - 1) = true
      · simp only [hbt, if_true] at hr
        have hb1 := (testBit_iff b (i - 1)).1 hbt
        refine ih x (h && x.getD (i - 1) false) (i - 1) opened s o hx (by omega) (by omega) ?_ hr
        constructor
        · intro hand
          simp only [Bool.and_eq_true] at hand
          have h1 := hh.1 hand.1
          have h2 : (x.getD (i - 1) false).toNat = 1 := by rw [hand.2]; rfl
          omega
        · intro heq
          have h1 : fromBits (x.drop i) = b / 2 ^ i := by omega
          have h2 : (x.getD (i - 1) false).toNat = 1 := by omega
          simp only [Bool.and_eq_true]
          refine ⟨hh.2 h1, ?_⟩
          cases hg : x.getD (i - 1) false
          · rw [hg] at h2; simp at h2
          · rfl
      · have hbf : b.testBit (i - 1) = false := by simpa using hbt
        simp only [hbf] at hr
        have hb0 : b / 2 ^ (i - 1) % 2 = 0 := by
          have := (testBit_iff b (i - 1)).not.1 hbt
          omega
        by_cases ho : (h && x.getD (i - 1) false) = true
        · simp only [ho, if_true] at hr
          cases htk : takeBits (k - (i - 1)) s with
          | none => simp [htk] at hr
          | some p =>
            obtain ⟨nb, s'⟩ := p
            simp only [htk] at hr
            obtain ⟨hnb, _⟩ := takeBits_some htk
            simp only [Bool.and_eq_true] at ho
            have hlen : (x.take (i - 1) ++ nb).length = k := by
              rw [List.length_append, List.length_take, hnb]; omega
            have hk0 : b / 2 ^ k = 0 := Nat.div_eq_of_lt hb
            refine ih (x.take (i - 1) ++ nb) h k _ s' o hlen (Nat.le_refl k) ?_ ?_ hr
            · rw [List.drop_of_length_le (by omega)]; simp
            · rw [List.drop_of_length_le (by omega), hk0]; simp [ho.1]
        · have hof : (h && x.getD (i - 1) false) = false := by simpa using ho
          simp only [hof] at hr
          refine ih x h (i - 1) _ s o hx (by omega) ?_ ?_ hr
          · cases hhv : h
            · have : ¬ fromBits (x.drop i) = b / 2 ^ i := by
                intro he; have := hh.2 he; rw [hhv] at this; cases this
              omega
            · rw [hhv] at hof
              have hx0 : x.getD (i - 1) false = false := by simpa using hof
              have h2 : (x.getD (i - 1) false).toNat = 0 := by rw [hx0]; rfl
              omega
          · cases hhv : h
            · have : ¬ fromBits (x.drop i) = b / 2 ^ i := by
                intro he; have := hh.2 he; rw [hhv] at this; cases this
              constructor
              · intro hc; cases hc
              · intro he; omega
            · rw [hhv] at hof
              have hx0 : x.getD (i - 1) false = false := by simpa using hof
              have h2 : (x.getD (i - 1) false).toNat = 0 := by rw [hx0]; rfl
              have h1 := hh.1 hhv
              constructor
              · intro _; omega
              · intro _; rfl
    · simp only [hti, if_false] at hr
      cases hr
      exact ⟨hx, i, by omega, hik, hle⟩

/-! ### bit lengths, `n & (n-1)`, `n & -n` -/

theorem bitLength_spec (n : Nat) (hn : n ≠ 0) : 2 ^ (bitLength n - 1) ≤ n ∧ n < 2 ^ bitLength n := by
  unfold bitLength
  simp only [hn, if_false, Nat.add_sub_cancel]
  exact ⟨Nat.log2_self_le hn, Nat.lt_log2_self⟩

theorem lt_two_pow_bitLength (n : Nat) : n < 2 ^ bitLength n := by
  by_cases hn : n = 0
  · subst hn; simp [bitLength]
  · exact (bitLength_spec n hn).2

theorem bitLength_pos {n : Nat} (hn : n ≠ 0) : 1 ≤ bitLength n := by
  unfold bitLength; simp [hn]

theorem le_of_lt_bitLength {a i : Nat} (h : i < bitLength a) : 2 ^ i ≤ a := by
  have ha : a ≠ 0 := by
    intro h0; subst h0; simp [bitLength] at h
  have := (bitLength_spec a ha).1
  exact Nat.le_trans (Nat.pow_le_pow_right (by omega) (by omega)) this

theorem testBit_top {y k : Nat} (h1 : 2 ^ k ≤ y) (h2 : y < 2 ^ (k + 1)) : y.testBit k = true := by
  rw [testBit_iff]
  have : y / 2 ^ k = 1 := by
    apply Nat.div_eq_of_lt_le
    · simpa using h1
    · rw [Nat.pow_succ] at h2; omega
  rw [this]

/-- `n & (n-1) = 0` (n ≥ 1) means `n` is the power of two `2^((n-1).bit_length())` -/
theorem pow2_of_and_pred {n : Nat} (hn : 1 ≤ n) (h : n &&& (n - 1) = 0) : n = 2 ^ bitLength (n - 1) := by
  by_cases h1 : n = 1
  · subst h1; simp [bitLength]
  · have hm : n - 1 ≠ 0 := by omega
    obtain ⟨hlo, hhi⟩ := bitLength_spec (n - 1) hm
    have hk := bitLength_pos hm
    by_contra hne
    have hlt : n < 2 ^ bitLength (n - 1) := by omega
    have hkk : bitLength (n - 1) - 1 + 1 = bitLength (n - 1) := by omega
    have t1 : n.testBit (bitLength (n - 1) - 1) = true := testBit_top (by omega) (by rw [hkk]; exact hlt)
    have t2 : (n - 1).testBit (bitLength (n - 1) - 1) = true := testBit_top hlo (by rw [hkk]; exact hhi)
    have : (n &&& (n - 1)).testBit (bitLength (n - 1) - 1) = true := by
      rw [Nat.testBit_and, t1, t2]; rfl
    rw [h] at this
    simp at this

/-- every position below the bit length of `n & -n` divides `n`: `t - 1` is the 2-adic valuation of n -/
theorem dvd_of_lt_bitLength_andNeg {n i : Nat} (hn : 1 ≤ n) (hi : i < bitLength (andNeg n)) : 2 ^ i ∣ n := by
  have ha := le_of_lt_bitLength hi
  obtain ⟨p, hpi, hp⟩ := Nat.exists_ge_and_testBit_of_ge_two_pow ha
  unfold andNeg at hp
  have hnL := lt_two_pow_bitLength n
  have hx : n - 1 < 2 ^ bitLength n := by omega
  have hsub : 2 ^ bitLength n - n = 2 ^ bitLength n - (n - 1 + 1) := by omega
  rw [Nat.testBit_and, hsub, Nat.testBit_two_pow_sub_succ hx] at hp
  simp only [Bool.and_eq_true, decide_eq_true_eq, Bool.not_eq_true'] at hp
  obtain ⟨hp1, _, hp2⟩ := hp
  -- bits of n below p are zero
  have hmod : n % 2 ^ p = 0 := by
    by_contra hr
    have hr1 : 1 ≤ n % 2 ^ p := by omega
    have hdiv : (n - 1) / 2 ^ p = n / 2 ^ p := by
      have hpos : 0 < 2 ^ p := Nat.two_pow_pos p
      have e1 : n = 2 ^ p * (n / 2 ^ p) + n % 2 ^ p := (Nat.div_add_mod n (2 ^ p)).symm
      have hlt : n % 2 ^ p < 2 ^ p := Nat.mod_lt _ hpos
      have e2 : n - 1 = 2 ^ p * (n / 2 ^ p) + (n % 2 ^ p - 1) := by omega
      rw [e2, Nat.mul_add_div hpos, Nat.div_eq_of_lt (Nat.lt_of_le_of_lt (Nat.sub_le _ _) hlt)]; simp
    have := (testBit_iff n p).1 hp1
    have h2 : (n - 1).testBit p = true := by rw [testBit_iff, hdiv]; exact this
    rw [h2] at hp2; cases hp2
  have hdp : 2 ^ p ∣ n := Nat.dvd_of_mod_eq_zero hmod
  exact Nat.dvd_trans (Nat.pow_dvd_pow 2 hpi) hdp

theorem bitLength_andNeg_pos {n : Nat} (hn : 1 ≤ n) : 1 ≤ bitLength (andNeg n) := by
  apply bitLength_pos
  -- the lowest set bit of n survives
  intro h0
  obtain ⟨p, hp⟩ := Nat.exists_testBit_of_ne_zero (x := n) (by omega)
  -- take the least such p
  have : ∃ q, n.testBit q = true ∧ ∀ r < q, n.testBit r = false := by
    classical
    have hex : ∃ q, n.testBit q = true := ⟨p, hp⟩
    refine ⟨Nat.find hex, Nat.find_spec hex, fun r hr => ?_⟩
    have := Nat.find_min hex hr
    simpa using this
  obtain ⟨q, hq, hmin⟩ := this
  have hnL := lt_two_pow_bitLength n
  have hx : n - 1 < 2 ^ bitLength n := by omega
  have hsub : 2 ^ bitLength n - n = 2 ^ bitLength n - (n - 1 + 1) := by omega
  have hqL : q < bitLength n := by
    by_contra hge
    have : n.testBit q = false := Nat.testBit_lt_two_pow (Nat.lt_of_lt_of_le hnL (Nat.pow_le_pow_right (by omega) (by omega)))
    rw [this] at hq; cases hq
  -- bit q of n-1 is 0: n = 2^q * odd
  have hmod : n % 2 ^ q = 0 := by
    apply Nat.eq_of_testBit_eq
    intro r
    rw [Nat.testBit_mod_two_pow]
    by_cases hrq : r < q
    · simp [hrq, hmin r hrq]
    · simp [hrq]
  have hpos : 0 < 2 ^ q := Nat.two_pow_pos q
  have hq1 : n / 2 ^ q % 2 = 1 := (testBit_iff n q).1 hq
  have hbit : (n - 1).testBit q = false := by
    have e1 : n = 2 ^ q * (n / 2 ^ q) := by
      have := (Nat.div_add_mod n (2 ^ q)).symm; rw [hmod] at this; simpa using this
    have hd : 1 ≤ n / 2 ^ q := Nat.pos_of_ne_zero (fun h => by rw [h] at hq1; simp at hq1)
    have e2 : n - 1 = 2 ^ q * (n / 2 ^ q - 1) + (2 ^ q - 1) := by
      have : 2 ^ q * (n / 2 ^ q) = 2 ^ q * (n / 2 ^ q - 1) + 2 ^ q := by
        rw [← Nat.mul_succ]; congr 1; omega
      omega
    have hdiv : (n - 1) / 2 ^ q = n / 2 ^ q - 1 := by
      rw [e2, Nat.mul_add_div hpos, Nat.div_eq_of_lt (Nat.sub_lt hpos (by omega))]; simp
    have : ¬ ((n - 1).testBit q = true) := by
      rw [testBit_iff, hdiv]; omega
    simpa using this
  have : (andNeg n).testBit q = true := by
    unfold andNeg
    rw [Nat.testBit_and, hsub, Nat.testBit_two_pow_sub_succ hx, hq, hbit]
    simp [hqL]
  rw [h0] at this
  simp at this

/-- the exit condition of the loop: with `j ≤ v₂(n)`, `X j ≤ B j` gives `x ≤ n - 1` -/
theorem fromBits_le_of_high_le {n j : Nat} (x : List Bool) (hn : 1 ≤ n) (hj : j ≤ x.length) (hd : 2 ^ j ∣ n)
    (hle : fromBits (x.drop j) ≤ (n - 1) / 2 ^ j) : fromBits x < n := by
  obtain ⟨c, hc⟩ := hd
  have hpos : 0 < 2 ^ j := Nat.two_pow_pos j
  have hc1 : 1 ≤ c := by
    rcases c with _ | c
    · simp at hc; omega
    · omega
  have e2 : n - 1 = 2 ^ j * (c - 1) + (2 ^ j - 1) := by
    have : 2 ^ j * c = 2 ^ j * (c - 1) + 2 ^ j := by
      rw [← Nat.mul_succ]; congr 1; omega
    omega
  have hdiv : (n - 1) / 2 ^ j = c - 1 := by
    rw [e2, Nat.mul_add_div hpos, Nat.div_eq_of_lt (Nat.sub_lt hpos (by omega))]; simp
  rw [hdiv] at hle
  have hlow := fromBits_lt (x.take j)
  rw [List.length_take, Nat.min_eq_left hj] at hlow
  rw [fromBits_take_drop x j hj]
  have := Nat.mul_le_mul_left (2 ^ j) hle
  omega


/-! ### `_randbelow` is below n -/

theorem randbelowBits_lt {n : Nat} {s : List Bool} {o : Out (List Bool)} (hn : 1 ≤ n)
    (h : randbelowBits n s = .ok o) : fromBits o.val < n := by
  unfold randbelowBits at h
  have hn0 : n ≠ 0 := by omega
  simp only [hn0, if_false] at h
  by_cases hp : n &&& (n - 1) = 0
  · simp only [hp, if_true] at h
    obtain ⟨hlen, _, _⟩ := getrandbitsBits_ok h
    have := fromBits_lt o.val
    rw [hlen, ← pow2_of_and_pred hn hp] at this
    exact this
  · simp only [hp, if_false] at h
    cases htk : takeBits (bitLength (n - 1)) s with
    | none => simp [htk] at h
    | some p =>
      obtain ⟨x, s'⟩ := p
      simp only [htk] at h
      obtain ⟨hx, _⟩ := takeBits_some htk
      have hb := lt_two_pow_bitLength (n - 1)
      have hk0 : (n - 1) / 2 ^ bitLength (n - 1) = 0 := Nat.div_eq_of_lt hb
      obtain ⟨hlen, j, hjt, hjk, hle⟩ :=
        rbLoop_inv (n - 1) (bitLength (n - 1)) (bitLength (andNeg n)) hb (bitLength_andNeg_pos hn) _ x true
          (bitLength (n - 1)) [] s' o hx (Nat.le_refl _)
          (by rw [List.drop_of_length_le (by omega)]; simp)
          (by rw [List.drop_of_length_le (by omega), hk0]; simp) h
      exact fromBits_le_of_high_le o.val hn (by omega) (dvd_of_lt_bitLength_andNeg hn hjt) hle

theorem randbelow_lt' {n : Nat} {s : List Bool} {o : Out Nat} (hn : 1 ≤ n) (h : randbelow n s = .ok o) :
    o.val < n := by
  unfold randbelow at h
  obtain ⟨o', h', hv, _, _⟩ := map_ok h
  rw [hv]; exact randbelowBits_lt hn h'

end MpycV.Random
