/-
Search for the next irreducible polynomial (≙ gfpx.py `_next_irreducible`, finfields.py `find_irreducible`):
the result is the monic irreducible polynomial with the least integer value above the argument
(the loop skips the multiples of `p` other than `p` itself: those are the proper multiples of `X`).
-/
import MpycV.Lemmas.GFpXIrr
import MpycV.Lemmas.GFpXInt

open Polynomial

namespace MpycV.GFpX

variable {p : ℕ}

/-- what the loop of `_next_irreducible` looks for: monic and passes `_is_irreducible` -/
def Cand (p n : ℕ) : Prop :=
  (digits p n).getLastD 0 = 1 ∧ isIrreducible p (digits p n) = true

/-- a nonzero number is `lo + p^(L-1) * lead` with `lo < p^(L-1)` (`L` digits, leading digit `lead`) -/
theorem digits_decomp (hp : 1 < p) {k : ℕ} (hk : k ≠ 0) :
    ∃ lo, lo < p ^ ((Nat.digits p k).length - 1) ∧
      k = lo + p ^ ((Nat.digits p k).length - 1) * (Nat.digits p k).getLastD 0 := by
  have hne : Nat.digits p k ≠ [] := Nat.digits_ne_nil_iff_ne_zero.mpr hk
  refine ⟨Nat.ofDigits p (Nat.digits p k).dropLast, ?_, ?_⟩
  · have := Nat.ofDigits_lt_base_pow_length (l := (Nat.digits p k).dropLast) hp
      (fun x hx => Nat.digits_lt_base hp (List.mem_of_mem_dropLast hx))
    simpa using this
  · conv_lhs => rw [← Nat.ofDigits_digits p k, ← dropLast_append_getLastD hne, Nat.ofDigits_append]
    simp

theorem digits_length_eq_of_le (hp : 1 < p) {n m : ℕ} (hn : n ≠ 0) (hnm : n ≤ m)
    (hm : m < p ^ (Nat.digits p n).length) : (Nat.digits p m).length = (Nat.digits p n).length := by
  have hm0 : m ≠ 0 := by omega
  rw [Nat.length_digits p n hp hn] at hm ⊢
  rw [Nat.length_digits p m hp hm0]
  have h1 : Nat.log p n ≤ Nat.log p m := Nat.log_mono_right hnm
  have h2 : Nat.log p m < Nat.log p n + 1 := Nat.log_lt_of_lt_pow hm0 hm
  omega

/-- between a number whose leading digit is ≥ 2 and the next power of `p` no number has leading digit 1 -/
theorem lead_ne_one (hp : 1 < p) {n m : ℕ} (hn : n ≠ 0) (hnm : n ≤ m)
    (hm : m < p ^ (Nat.digits p n).length) (hl : (Nat.digits p n).getLastD 0 ≠ 1) :
    (Nat.digits p m).getLastD 0 ≠ 1 := by
  have hm0 : m ≠ 0 := by omega
  have hlen := digits_length_eq_of_le hp hn hnm hm
  obtain ⟨lo, hlo, hdn⟩ := digits_decomp hp hn
  obtain ⟨lo', hlo', hdm⟩ := digits_decomp hp hm0
  rw [hlen] at hlo' hdm
  have hl0 : (Nat.digits p n).getLastD 0 ≠ 0 := by
    have h := Nat.getLast_digit_ne_zero p hn
    rw [List.getLastD_eq_getLast?, List.getLast?_eq_some_getLast (Nat.digits_ne_nil_iff_ne_zero.mpr hn)]
    simpa using h
  intro h1
  rw [h1, mul_one] at hdm
  have h2 : 2 ≤ (Nat.digits p n).getLastD 0 := by omega
  have := Nat.mul_le_mul_left (p ^ ((Nat.digits p n).length - 1)) h2
  generalize p ^ ((Nat.digits p n).length - 1) * (Nat.digits p n).getLastD 0 = Q at *
  generalize p ^ ((Nat.digits p n).length - 1) = P at *
  omega

/-! ### candidates, semantically -/

theorem monic_iff_getLastD [Fact p.Prime] {d : Poly} (hd : WF p d) :
    (toPoly p d).Monic ↔ d.getLastD 0 = 1 := by
  have hp := (Fact.out : p.Prime).one_lt
  by_cases hne : d = []
  · subst hne
    simp only [toPoly_nil, List.getLastD_nil, zero_ne_one, iff_false]
    exact not_monic_zero
  · rw [Monic, leadingCoeff_toPoly hd hne]
    constructor
    · intro h
      apply natCast_inj_of_lt (getLastD_lt hd.1 hne) hp
      rw [h]; simp
    · intro h; rw [h]; simp

theorem toInt_mod (a : Poly) : toInt p a % p = a.headD 0 % p := by
  cases a with
  | nil => simp [toInt]
  | cons x a => rw [toInt_eq, Nat.ofDigits_cons]; simp

/-- for a monic irreducible polynomial: constant term zero iff it is `X` -/
theorem toInt_mod_eq_zero_iff [Fact p.Prime] {d : Poly} (hd : WF p d) (hm : (toPoly p d).Monic)
    (hi : Irreducible (toPoly p d)) : toInt p d % p = 0 ↔ toPoly p d = X := by
  have hp := (Fact.out : p.Prime).pos
  have hc : (toPoly p d).coeff 0 = ((d.headD 0 : ℕ) : ZMod p) := by
    rw [coeff_toPoly]; cases d <;> simp
  have hlt : d.headD 0 < p := by
    cases d with
    | nil => simpa using hp
    | cons x l => exact hd.1 x (by simp)
  rw [toInt_mod, Nat.mod_eq_of_lt hlt]
  constructor
  · intro h0
    have hX : X ∣ toPoly p d := by rw [X_dvd_iff, hc, h0]; simp
    exact (eq_of_monic_of_associated monic_X hm (irreducible_X.associated_of_dvd hi hX)).symm
  · intro hX
    rw [hX, coeff_X_zero] at hc
    by_contra hne
    exact natCast_ne_zero_of_lt hlt hne hc.symm

theorem cand_toInt_iff [Fact p.Prime] {d : Poly} (hd : WF p d) :
    Cand p (toInt p d) ↔ (toPoly p d).Monic ∧ Irreducible (toPoly p d) := by
  have hp := (Fact.out : p.Prime).one_lt
  unfold Cand
  rw [digits_toInt hp hd, ← monic_iff_getLastD hd, isIrreducible_iff hd]

theorem toInt_X : toInt p [0, 1] = p := by simp [toInt]

/-- the multiples of `p` other than `p` itself (proper multiples of `X`) are never candidates:
this is what the skip `if a % p == 0 and a != p: a += 1` relies on -/
theorem not_cand_of_dvd [Fact p.Prime] {m : ℕ} (h0 : m % p = 0) (hne : m ≠ p) : ¬ Cand p m := by
  have hp := (Fact.out : p.Prime).one_lt
  intro hc
  have hw := wf_digits hp m
  have hm := toInt_digits hp m
  rw [← hm] at hc h0
  obtain ⟨h1, h2⟩ := (cand_toInt_iff hw).mp hc
  have hX := (toInt_mod_eq_zero_iff hw h1 h2).mp h0
  have : digits p m = [0, 1] := toPoly_inj hw wf_X (by rw [hX, toPoly_X])
  rw [this, toInt_X] at hm
  exact hne hm.symm

/-- the search loop returns the least candidate above its start value -/
theorem nextIrrLoop_spec [Fact p.Prime] : ∀ (f a : ℕ) (c : Poly), nextIrrLoop p f a = some c →
    ∃ n, c = digits p n ∧ a < n ∧ Cand p n ∧ ∀ m, a < m → m < n → ¬ Cand p m := by
  have hp := (Fact.out : p.Prime).one_lt
  intro f
  induction f with
  | zero => intro a c h; simp [nextIrrLoop] at h
  | succ f ih =>
    intro a c h
    rw [nextIrrLoop] at h
    set a2 := if (a + 1) % p = 0 ∧ a + 1 ≠ p then a + 1 + 1 else a + 1 with ha2
    have h_lt : a < a2 := by rw [ha2]; split <;> omega
    have h_skip : ∀ m, a < m → m < a2 → ¬ Cand p m := by
      intro m h1 h2
      have : ((a + 1) % p = 0 ∧ a + 1 ≠ p) ∧ m = a + 1 := by
        rw [ha2] at h2; split at h2
        · rename_i h0; exact ⟨h0, by omega⟩
        · omega
      rw [this.2]
      exact not_cand_of_dvd this.1.1 this.1.2
    have ha20 : a2 ≠ 0 := by omega
    split at h
    · -- leading coefficient ≠ 1: jump to p^len - 1
      rename_i hlead
      obtain ⟨n, hc, hn, hcand, hmin⟩ := ih _ _ h
      rw [digits_eq hp] at hlead hn hmin
      have hbound : a2 < p ^ (Nat.digits p a2).length := Nat.lt_base_pow_length_digits hp
      refine ⟨n, hc, by omega, hcand, ?_⟩
      intro m h1 h2 hcm
      rcases Nat.lt_or_ge m a2 with h3 | h3
      · exact h_skip m h1 h3 hcm
      rcases Nat.lt_or_ge m (p ^ (Nat.digits p a2).length) with h4 | h4
      · have := lead_ne_one hp ha20 h3 h4 hlead
        rw [← digits_eq hp] at this
        exact this hcm.1
      · exact hmin m (by omega) h2 hcm
    · rename_i hlead
      simp only [ne_eq, not_not] at hlead
      split at h
      · rename_i hirr
        simp only [Option.some.injEq] at h
        exact ⟨a2, h.symm, h_lt, ⟨hlead, hirr⟩, h_skip⟩
      · rename_i hirr
        obtain ⟨n, hc, hn, hcand, hmin⟩ := ih _ _ h
        refine ⟨n, hc, by omega, hcand, ?_⟩
        intro m h1 h2 hcm
        rcases Nat.lt_or_ge m a2 with h3 | h3
        · exact h_skip m h1 h3 hcm
        rcases Nat.eq_or_lt_of_le h3 with h5 | h5
        · rw [← h5] at hcm; exact hirr hcm.2
        · exact hmin m h5 h2 hcm

/-- **next_irreducible**: whenever it returns, the result is well-formed, monic, irreducible,
has integer value above the argument, and is the least such polynomial in the integer order -/
theorem nextIrreducible_spec [Fact p.Prime] {f : ℕ} {a c : Poly}
    (h : nextIrreducible p f a = some c) :
    WF p c ∧ (toPoly p c).Monic ∧ Irreducible (toPoly p c) ∧ toInt p a < toInt p c ∧
      ∀ d, WF p d → (toPoly p d).Monic → Irreducible (toPoly p d) →
        toInt p a < toInt p d → toInt p c ≤ toInt p d := by
  have hp := (Fact.out : p.Prime).one_lt
  obtain ⟨n, hc, hn, hcand, hmin⟩ := nextIrrLoop_spec f (toInt p a) c h
  have hw : WF p c := by rw [hc]; exact wf_digits hp n
  have hcn : toInt p c = n := by rw [hc, toInt_digits hp]
  rw [← hcn] at hcand hn
  obtain ⟨m1, m2⟩ := (cand_toInt_iff hw).mp hcand
  refine ⟨hw, m1, m2, hn, ?_⟩
  intro d hd d1 d2 hlt
  by_contra hcon
  exact hmin (toInt p d) hlt (by omega) ((cand_toInt_iff hd).mpr ⟨d1, d2⟩)

theorem toInt_fromInt_pred_pow [Fact p.Prime] (d : ℕ) :
    toInt p (fromInt p ((p ^ d - 1 : ℕ) : ℤ)) = p ^ d - 1 :=
  int_roundtrip (Fact.out : p.Prime).one_lt _

/-- **find_irreducible(p, d)** (odd p): the least monic irreducible polynomial with integer value
`≥ p^d` (i.e. of degree ≥ d) -/
theorem findIrreducible_spec [Fact p.Prime] {d f : ℕ} {c : Poly}
    (h : findIrreducible p d f = some c) :
    WF p c ∧ (toPoly p c).Monic ∧ Irreducible (toPoly p c) ∧ p ^ d ≤ toInt p c ∧
      ∀ e, WF p e → (toPoly p e).Monic → Irreducible (toPoly p e) →
        p ^ d ≤ toInt p e → toInt p c ≤ toInt p e := by
  have hpos : 0 < p ^ d := Nat.pos_of_ne_zero (by
    have := (Fact.out : p.Prime).pos
    positivity)
  obtain ⟨w, m1, m2, hlt, hmin⟩ := nextIrreducible_spec h
  rw [toInt_fromInt_pred_pow] at hlt hmin
  exact ⟨w, m1, m2, by omega, fun e he e1 e2 hle => hmin e he e1 e2 (by omega)⟩

end MpycV.GFpX
