/-
Step lemmas for the SecFld argument resolution (MpycV.Model.SecFldCfg): what each stage of
`resolveArgs` guarantees when it does not raise.
-/
import MpycV.Lemmas.SecFldCfg

namespace MpycV.SecFldCfg

/-- a truthy Python value -/
def Truthy (x : Option Nat) (c : Nat) : Prop := x = some c ∧ 0 < c

/-- a genuine finite field description -/
def Field.Valid (F : Field) : Prop := Nat.Prime F.char ∧ 1 ≤ F.extDeg ∧ F.order = F.char ^ F.extDeg

theorem mkField_ok {o : Oracles} {md : Modulus} {F : Field} (h : mkField o md = .ok F) :
    (∃ n, md = .int n ∧ isPrime n = true ∧ F = ⟨n, 1, n, none⟩) ∨
    (∃ p f, md = .poly p f ∧ o.irr p f = true ∧ F = ⟨p, f.length - 1, p ^ (f.length - 1), some f⟩) := by
  unfold mkField at h
  cases md with
  | none => cases h
  | str cs => cases h
  | int n =>
    simp only [gfInt] at h
    split at h
    · rename_i hp
      simp only [Except.ok.injEq] at h
      exact Or.inl ⟨n, rfl, hp, h.symm⟩
    · cases h
  | poly p f =>
    simp only [gfPoly] at h
    split at h
    · rename_i hp
      simp only [Except.ok.injEq] at h
      exact Or.inr ⟨p, f, rfl, hp, h.symm⟩
    · cases h

theorem le_of_orD_some_le {n d b : Nat} (h : orD (some n) d ≤ b) : n ≤ b := by
  cases n with
  | zero => exact Nat.zero_le _
  | succ k => simpa [orD] using h

theorem orD_truthy {x : Option Nat} {d c : Nat} (h : Truthy x c) : orD x d = c := orD_some_pos h.1 h.2

theorem stepOrder_ok {a : Args} {c e : Option Nat} (h : stepOrder a = .ok (c, e)) :
    (a.order = none ∧ c = a.char ∧ e = a.extDeg) ∨
    (∃ x p d, a.order = some x ∧ Nat.Prime p ∧ 1 ≤ d ∧ p ^ d = x ∧ c = some p ∧ e = some d ∧
      (∀ c0, Truthy a.char c0 → c0 = p) ∧ (∀ d0, Truthy a.extDeg d0 → d0 = d)) := by
  unfold stepOrder at h
  cases ho : a.order with
  | none =>
    simp only [ho, pure, Except.pure, Except.ok.injEq, Prod.mk.injEq] at h
    exact Or.inl ⟨rfl, h.1.symm, h.2.symm⟩
  | some x =>
    right
    simp only [ho] at h
    cases hf : factorPrimePower x with
    | none => simp [hf] at h
    | some pd =>
      obtain ⟨p, d⟩ := pd
      simp only [hf] at h
      obtain ⟨hp, hd, hx⟩ := (factorPrimePower_spec x).1 p d hf
      rw [bind_eq_ok] at h
      obtain ⟨_, h1, h⟩ := h
      rw [bind_eq_ok] at h
      obtain ⟨_, h2, h⟩ := h
      rw [check_eq_ok, beq_iff_eq] at h1 h2
      simp only [pure, Except.pure, Except.ok.injEq, Prod.mk.injEq] at h
      refine ⟨x, p, d, rfl, hp, hd, hx, ?_, ?_, ?_, ?_⟩
      · rw [← h.1, h1]
      · rw [← h.2, h2]
      · intro c0 hc0; rw [← h1, orD_truthy hc0]
      · intro d0 hd0; rw [← h2, orD_truthy hd0]

theorem stepConv_ok {c c' : Option Nat} {md md' : Modulus} (h : stepConv c md = .ok (c', md')) :
    (∀ c0, Truthy c c0 → c' = some c0) ∧
    (∀ cs, md' ≠ .str cs) ∧
    (md' = .none → md = .none ∧ c' = c) ∧
    (∀ n, md' = .int n → md = .int n ∧ c' = c) ∧
    (∀ p f, md' = .poly p f →
      (md = .poly p f ∧ c' = c) ∨
      (Nat.Prime p ∧ c' = some p ∧
        ((∃ cs, md = .str cs ∧ f = ofCoeffs p cs ∧ p = orD c 2) ∨
         (∃ n, md = .int n ∧ f = ofInt p n ∧ p < n ∧ Truthy c p)))) := by
  unfold stepConv at h
  cases md with
  | none =>
    simp only [pure, Except.pure, Except.ok.injEq, Prod.mk.injEq] at h
    obtain ⟨rfl, rfl⟩ := h
    exact ⟨fun c0 hc => hc.1, by simp, by simp, by simp, by simp⟩
  | poly p f =>
    simp only [pure, Except.pure, Except.ok.injEq, Prod.mk.injEq] at h
    obtain ⟨rfl, rfl⟩ := h
    refine ⟨fun c0 hc => hc.1, by simp, by simp, by simp, ?_⟩
    intro p' f' hpf
    left; exact ⟨hpf, rfl⟩
  | str cs =>
    simp only at h
    rw [bind_eq_ok] at h
    obtain ⟨_, h1, h⟩ := h
    rw [gfpxType_eq_ok] at h1
    split at h
    · simp at h
    · simp only [pure, Except.pure, Except.ok.injEq, Prod.mk.injEq] at h
      obtain ⟨rfl, rfl⟩ := h
      refine ⟨fun c0 hc => by rw [orD_truthy hc], by simp, by simp, by simp, ?_⟩
      intro p f hpf
      simp only [Modulus.poly.injEq] at hpf
      obtain ⟨rfl, rfl⟩ := hpf
      right
      exact ⟨h1, rfl, Or.inl ⟨cs, rfl, rfl, rfl⟩⟩
  | int n =>
    simp only at h
    split at h
    · rename_i c0
      split at h
      · rename_i hn
        rw [bind_eq_ok] at h
        obtain ⟨_, h1, h⟩ := h
        rw [gfpxType_eq_ok] at h1
        simp only [pure, Except.pure, Except.ok.injEq, Prod.mk.injEq] at h
        obtain ⟨rfl, rfl⟩ := h
        refine ⟨fun c1 hc => hc.1, by simp, by simp, by simp, ?_⟩
        intro p f hpf
        simp only [Modulus.poly.injEq] at hpf
        obtain ⟨rfl, rfl⟩ := hpf
        right
        exact ⟨h1, rfl, Or.inr ⟨n, rfl, rfl, hn, rfl, Nat.succ_pos _⟩⟩
      · simp only [pure, Except.pure, Except.ok.injEq, Prod.mk.injEq] at h
        obtain ⟨rfl, rfl⟩ := h
        exact ⟨fun c1 hc => hc.1, by simp, by simp, by simp, by simp⟩
    · simp only [pure, Except.pure, Except.ok.injEq, Prod.mk.injEq] at h
      obtain ⟨rfl, rfl⟩ := h
      exact ⟨fun c1 hc => hc.1, by simp, by simp, by simp, by simp⟩

theorem stepPoly_ok {c e mo : Option Nat} {p : Nat} {f : Poly} {r : Resolved}
    (h : stepPoly c e mo p f = .ok r) :
    r = ⟨p, f.length - 1, .poly p f⟩ ∧ 2 ≤ f.length ∧
    (∀ c0, Truthy c c0 → c0 = p) ∧ (∀ d0, Truthy e d0 → d0 = f.length - 1) := by
  unfold stepPoly at h
  rw [bind_eq_ok] at h
  obtain ⟨_, h1, h⟩ := h
  rw [check_eq_ok, beq_iff_eq] at h1
  split at h
  · split at h
    · simp at h
    · split at h <;> simp at h
  · rename_i hlen
    rw [bind_eq_ok] at h
    obtain ⟨_, h2, h⟩ := h
    rw [check_eq_ok, beq_iff_eq] at h2
    simp only [pure, Except.pure, Except.ok.injEq] at h
    refine ⟨?_, by omega, ?_, ?_⟩
    · rw [← h, h1, h2]
    · intro c0 hc0; rw [← h1, orD_truthy hc0]
    · intro d0 hd0; rw [← h2, orD_truthy hd0]

theorem stepInt_ok {c e : Option Nat} {n : Nat} {r : Resolved} (h : stepInt c e n = .ok r) :
    r = ⟨n, 1, .int n⟩ ∧ (∀ c0, Truthy c c0 → c0 = n) ∧ (∀ d0, Truthy e d0 → d0 = 1) := by
  unfold stepInt at h
  rw [bind_eq_ok] at h
  obtain ⟨_, h1, h⟩ := h
  rw [bind_eq_ok] at h
  obtain ⟨_, h2, h⟩ := h
  rw [check_eq_ok, beq_iff_eq] at h1 h2
  simp only [pure, Except.pure, Except.ok.injEq] at h
  refine ⟨?_, ?_, ?_⟩
  · rw [← h, h1, h2]
  · intro c0 hc0; rw [← h1, orD_truthy hc0]
  · intro d0 hd0; rw [← h2, orD_truthy hd0]

theorem pickModulus_ok {o : Oracles} {c e : Nat} {md : Modulus} (h : pickModulus o c e = .ok md) :
    (e = 1 ∧ md = .int c) ∨ (e ≠ 1 ∧ Nat.Prime c ∧ md = .poly c (o.findIrr c e)) := by
  unfold pickModulus at h
  split at h
  · rename_i he
    simp only [pure, Except.pure, Except.ok.injEq] at h
    exact Or.inl ⟨by simpa using he, h.symm⟩
  · rename_i he
    rw [bind_eq_ok] at h
    obtain ⟨_, h1, h⟩ := h
    rw [gfpxType_eq_ok] at h1
    simp only [pure, Except.pure, Except.ok.injEq] at h
    exact Or.inr ⟨by simpa using he, h1, h.symm⟩

theorem stepNone_ok {o : Oracles} {c e mo mo' : Option Nat} {r : Resolved}
    (h : stepNone o c e mo = .ok (r, mo')) :
    ((r.extDeg = 1 ∧ r.modulus = .int r.char) ∨
      (r.extDeg ≠ 1 ∧ Nat.Prime r.char ∧ r.modulus = .poly r.char (o.findIrr r.char r.extDeg))) ∧
    (∀ c0, Truthy c c0 → r.char = c0) ∧ (∀ d0, Truthy e d0 → r.extDeg = d0) ∧
    (mo = none → mo' = some (r.char ^ r.extDeg)) ∧ (∀ n, mo = some n → mo' = some n) ∧
    (∀ n, mo = some n → c = none →
      r.extDeg = orD e 1 ∧ r.char = leastPrimeGe (ceilRoot n (orD e 1))) ∧
    (∀ n c0, mo = some n → c = some c0 → e = none → r.extDeg = clog c0 n ∧ r.char = c0 ∧ 1 < c0 ∧ 0 < n) := by
  unfold stepNone at h
  cases mo with
  | none =>
    simp only at h
    rw [bind_eq_ok] at h
    obtain ⟨md, h1, h⟩ := h
    simp only [pure, Except.pure, Except.ok.injEq, Prod.mk.injEq] at h
    obtain ⟨rfl, rfl⟩ := h
    refine ⟨pickModulus_ok h1, fun c0 hc => orD_truthy hc, fun d0 hd => orD_truthy hd,
      fun _ => rfl, by simp, by simp, by simp⟩
  | some n =>
    simp only at h
    rw [bind_eq_ok] at h
    obtain ⟨⟨c1, e1⟩, h0, h⟩ := h
    rw [bind_eq_ok] at h
    obtain ⟨md, h1, h⟩ := h
    simp only [pure, Except.pure, Except.ok.injEq, Prod.mk.injEq] at h
    obtain ⟨rfl, rfl⟩ := h
    unfold pickCharDeg at h0
    refine ⟨pickModulus_ok h1, ?_, ?_, by simp, by simp, ?_, ?_⟩
    · intro c0 hc
      obtain ⟨rfl, _⟩ := hc
      cases e with
      | none =>
        simp only at h0
        split at h0
        · cases h0
        · simp only [pure, Except.pure, Except.ok.injEq, Prod.mk.injEq] at h0
          exact h0.1.symm
      | some e0 =>
        simp only [pure, Except.pure, Except.ok.injEq, Prod.mk.injEq] at h0
        exact h0.1.symm
    · intro d0 hd
      obtain ⟨rfl, hpos⟩ := hd
      cases c with
      | none =>
        simp only [pure, Except.pure, Except.ok.injEq, Prod.mk.injEq] at h0
        rw [← h0.2]; exact orD_some_pos rfl hpos
      | some c0 =>
        simp only [pure, Except.pure, Except.ok.injEq, Prod.mk.injEq] at h0
        exact h0.2.symm
    · intro n' hn hc
      simp only [Option.some.injEq] at hn
      subst hn hc
      simp only [pure, Except.pure, Except.ok.injEq, Prod.mk.injEq] at h0
      exact ⟨h0.2.symm, h0.1.symm⟩
    · intro n' c0 hn hc he
      simp only [Option.some.injEq] at hn
      subst hn hc he
      simp only at h0
      split at h0
      · cases h0
      · rename_i hg
        simp only [pure, Except.pure, Except.ok.injEq, Prod.mk.injEq] at h0
        obtain ⟨rfl, rfl⟩ := h0
        refine ⟨rfl, rfl, ?_, ?_⟩ <;> omega

end MpycV.SecFldCfg
