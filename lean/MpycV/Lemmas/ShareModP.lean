/-
C11 — transfer of the share-layer theorems to the executable prime field `modP p` (what the driver runs):
`consistentB` decides consistency over `ZMod p`, and the executable operations preserve a positive verdict.
-/
import MpycV.Lemmas.ShareModel
import MpycV.Lemmas.ThreshaModP

open Polynomial Finset

namespace MpycV.Share

open MpycV.Thresha

/-! ### homomorphic images of the model functions -/

section hom
variable {K F : Type} [Field F] {o : FieldOps K} {φ : K → F}

omit [Field F] in
lemma map_xsOf (o : FieldOps K) (φ : K → F) (n : ℕ) :
    (xsOf o n).map φ = (List.range n).map fun i => φ (o.ofNat (i + 1)) := by
  simp [xsOf]

lemma map_interp (h : IsHom o φ) (t : ℕ) (shares : List K) (x : K) :
    φ (interp o t shares x) = interp (imageOps o φ) t (shares.map φ) (φ x) := by
  unfold interp
  rw [map_dot h, map_recombVec h, map_xsOf, List.map_take]
  rfl

lemma map_headD (h : IsHom o φ) (l : List K) : φ (l.headD o.zero) = (l.map φ).headD 0 := by
  cases l <;> simp [h.zero]

lemma map_reshareParty (h : IsHom o φ) (m t uci i : ℕ) (sub : ℕ → K) :
    φ (reshareParty o m t uci i sub) = reshareParty (imageOps o φ) m t uci i (fun d => φ (sub d)) := by
  unfold reshareParty
  rw [map_headD h, map_recombine1 h]
  simp only [List.map_map, Function.comp_def, List.map_cons, List.map_nil]
  rfl

lemma map_sumDealt_getD (h : IsHom o φ) (rows : List (List K)) (i : ℕ) :
    φ (rows.foldl (fun acc r => o.add acc (r.getD i o.zero)) o.zero)
      = (rows.map (List.map φ)).foldl
          (fun acc r => (imageOps o φ).add acc (r.getD i (imageOps o φ).zero)) (imageOps o φ).zero := by
  have : ∀ acc : K, φ (rows.foldl (fun acc r => o.add acc (r.getD i o.zero)) acc)
      = (rows.map (List.map φ)).foldl
          (fun acc r => (imageOps o φ).add acc (r.getD i (imageOps o φ).zero)) (φ acc) := by
    induction rows with
    | nil => intro acc; rfl
    | cons r rows ih =>
      intro acc
      rw [List.foldl_cons, ih, List.map_cons, List.foldl_cons, h.add, getD_map_hom h]
      rfl
  rw [this, h.zero]; rfl

end hom

/-! ### GF(p) -/

variable (p : ℕ) [hp : Fact p.Prime]

local notation "cast" => (Nat.cast : ℕ → ZMod p)

lemma getD_map_cast (l : List ℕ) (i : ℕ) : (l.map cast).getD i 0 = ((l.getD i 0 : ℕ) : ZMod p) := by
  simp only [List.getD_eq_getElem?_getD, List.getElem?_map]
  cases l[i]? <;> simp

lemma map_cast_mod (l : List ℕ) : (l.map (· % p)).map cast = l.map cast := by
  rw [List.map_map]
  apply List.map_congr_left
  intro x _
  simp [ZMod.natCast_mod]

omit hp in
lemma interp_modP_lt (hp0 : 0 < p) (t : ℕ) (shares : List ℕ) (x : ℕ) : interp (modP p) t shares x < p :=
  dot_modP_lt p hp0 _ _

omit hp in
lemma consistentOps_modP_lt (hp0 : 0 < p) (t : ℕ) (shares : List ℕ) {v : ℕ}
    (h : consistentOps (modP p) t shares = some v) : v < p := by
  unfold consistentOps at h
  split at h
  · simp at h
  · split at h
    · simp only [Option.some.injEq] at h
      rw [← h]; exact interp_modP_lt p hp0 _ _ _
    · simp at h

/-- the executable procedure on canonical representatives and the field-level procedure agree -/
lemma consistentOps_modP_map (t : ℕ) (shares : List ℕ) (hs : ∀ x ∈ shares, x < p) :
    (consistentOps (modP p) t shares).map cast
      = consistentOps (fieldOps (ZMod p) (embP p)) t (shares.map cast) := by
  unfold consistentOps
  rw [List.length_map]
  by_cases hl : shares.length ≤ t
  · simp [hl]
  · rw [if_neg hl, if_neg hl]
    have hcond : (List.range shares.length).all
          (fun i => decide (interp (modP p) t shares ((modP p).ofNat (i + 1))
            = shares.getD i (modP p).zero))
        = (List.range shares.length).all
          (fun i => decide (interp (fieldOps (ZMod p) (embP p)) t (shares.map cast)
            ((fieldOps (ZMod p) (embP p)).ofNat (i + 1))
              = (shares.map cast).getD i (fieldOps (ZMod p) (embP p)).zero)) := by
      rw [Bool.eq_iff_iff]
      simp only [List.all_eq_true, List.mem_range, decide_eq_true_eq]
      have hiff : ∀ i < shares.length,
          (interp (modP p) t shares ((modP p).ofNat (i + 1)) = shares.getD i (modP p).zero)
          ↔ (interp (fieldOps (ZMod p) (embP p)) t (shares.map cast)
            ((fieldOps (ZMod p) (embP p)).ofNat (i + 1))
              = (shares.map cast).getD i (fieldOps (ZMod p) (embP p)).zero) := by
        intro i hi'
        have hmi := map_interp (modP_isHom p) t shares ((modP p).ofNat (i + 1))
        rw [imageOps_modP] at hmi
        have hg : shares.getD i (modP p).zero < p := by
          rw [getD_lt _ _ hi']; exact hs _ (List.getElem_mem _)
        constructor
        · intro h
          rw [fieldOps_zero, getD_map_cast, ← show (modP p).zero = 0 from rfl, ← h, hmi]
          rfl
        · intro h
          apply cast_inj_of_lt p (interp_modP_lt p hp.out.pos _ _ _) hg
          rw [hmi, show (modP p).zero = 0 from rfl, ← getD_map_cast]
          exact h
      constructor
      · intro h i hi; exact (hiff i hi).1 (h i hi)
      · intro h i hi; exact (hiff i hi).2 (h i hi)
    rw [hcond]
    split
    · simp only [Option.map_some, Option.some.injEq]
      have := map_interp (modP_isHom p) t shares ((modP p).ofNat 0)
      rw [imageOps_modP] at this
      exact this
    · rfl

/-- ★ `consistentB_spec`: for a prime `p > m`, `t < m = #shares`, the executable decision procedure answers
`some v` exactly if `v` is canonical and the shares (as elements of `ZMod p`) are a consistent sharing of `v`
of degree ≤ t: sound and complete. -/
theorem consistentB_spec (t : ℕ) (shares : List ℕ) (htm : t < shares.length) (hm : shares.length < p)
    (v : ℕ) :
    consistentB p t shares = some v
      ↔ v < p ∧ Consistent (embP p) shares.length t (fun i => ((shares.getD i 0 : ℕ) : ZMod p))
          (v : ZMod p) := by
  unfold consistentB
  have hs : ∀ x ∈ shares.map (· % p), x < p := by
    intro x hx
    obtain ⟨y, _, rfl⟩ := List.mem_map.1 hx
    exact Nat.mod_lt _ hp.out.pos
  have hA := consistentOps_modP_map p t _ hs
  rw [map_cast_mod] at hA
  have hspec := consistentOps_spec (emb := embP p) (t := t) (embP_zero p) (shares.map cast)
    (by rw [List.length_map]; exact embP_injOn p hm) (by rw [List.length_map]; exact htm)
  have hfn : ∀ w : ZMod p, Consistent (embP p) (shares.map cast).length t (shFn (shares.map cast)) w
      ↔ Consistent (embP p) shares.length t (fun i => ((shares.getD i 0 : ℕ) : ZMod p)) w := by
    intro w
    rw [List.length_map]
    constructor
    · intro h; exact h.congr fun i _ => by simp only [shFn]; rw [getD_map_cast]
    · intro h; exact h.congr fun i _ => by simp only [shFn]; rw [getD_map_cast]
  constructor
  · intro h
    refine ⟨consistentOps_modP_lt p hp.out.pos _ _ h, ?_⟩
    rw [h] at hA
    exact (hfn _).1 ((hspec _).1 hA.symm)
  · rintro ⟨hv, hc⟩
    have := (hspec _).2 ((hfn _).2 hc)
    rw [← hA] at this
    cases hres : consistentOps (modP p) t (shares.map (· % p)) with
    | none => rw [hres] at this; simp at this
    | some w =>
      rw [hres] at this
      simp only [Option.map_some, Option.some.injEq] at this
      rw [cast_inj_of_lt p (consistentOps_modP_lt p hp.out.pos _ _ hres) hv this]

/-! ### the executable operations preserve a positive verdict -/

/-- the executable share vector read as a function into `ZMod p` -/
def zfn (l : List ℕ) : ℕ → ZMod p := fun i => ((l.getD i 0 : ℕ) : ZMod p)

/-- local multiplication of two sharings accepted by `consistentB` is accepted with the product secret and the
sum of the degrees -/
theorem mulShares_consistentB {m : ℕ} (hm : m < p) (a b : List ℕ) (hla : a.length = m)
    (hlb : b.length = m) {t₁ t₂ va vb : ℕ} (ht : t₁ + t₂ < m)
    (ha : consistentB p t₁ a = some va) (hb : consistentB p t₂ b = some vb) :
    consistentB p (t₁ + t₂) (mulShares (modP p) a b) = some (va * vb % p) := by
  have hlen : (mulShares (modP p) a b).length = m := by simp [mulShares, hla, hlb]
  obtain ⟨_, hA⟩ := (consistentB_spec p t₁ a (by omega) (by omega) va).1 ha
  obtain ⟨_, hB⟩ := (consistentB_spec p t₂ b (by omega) (by omega) vb).1 hb
  rw [hla] at hA; rw [hlb] at hB
  apply (consistentB_spec p (t₁ + t₂) _ (by omega) (by omega) _).2
  refine ⟨Nat.mod_lt _ hp.out.pos, ?_⟩
  rw [hlen]
  have := hA.mul hB
  rw [show ((va * vb % p : ℕ) : ZMod p) = (va : ZMod p) * vb by simp [ZMod.natCast_mod]]
  refine this.congr fun i hi => ?_
  simp only [mulShares]
  rw [getD_zipWith' _ a b 0 (by omega) (by omega)]
  simp [modP, ZMod.natCast_mod]

/-- resharing: if the (product) sharing is accepted with degree 2t and every dealer's row is an accepted
degree-t sharing of that dealer's share, the reshared vector is accepted with degree t and the same secret -/
theorem reshareShares_consistentB {m : ℕ} (hm : m < p) {t : ℕ} (h2t : 2 * t < m) (uci : ℕ)
    (sh : List ℕ) (hls : sh.length = m) {v : ℕ} (hsh : consistentB p (2 * t) sh = some v)
    (rows : List (ℕ × List ℕ))
    (hrows : ∀ d ∈ dealers m t uci, ∃ row, rowOf rows d = some row ∧ row.length = m ∧
        consistentB p t row = some (sh.getD d 0 % p)) :
    consistentB p t (reshareShares (modP p) t m uci rows) = some v := by
  have hlen : (reshareShares (modP p) t m uci rows).length = m := by simp [reshareShares]
  obtain ⟨hv, hS⟩ := (consistentB_spec p (2 * t) sh (by omega) (by omega) v).1 hsh
  rw [hls] at hS
  apply (consistentB_spec p t _ (by omega) (by omega) _).2
  refine ⟨hv, ?_⟩
  rw [hlen]
  have key := reshare_consistent (embP_zero p) (embP_injOn p hm) h2t uci hS
    (fun d i => ((((rowOf rows d).getD []).getD i 0 : ℕ) : ZMod p)) (by
      intro d hd
      obtain ⟨row, h1, h2, h3⟩ := hrows d hd
      obtain ⟨_, hR⟩ := (consistentB_spec p t row (by omega) (by omega) _).1 h3
      rw [h2] at hR
      simpa [h1, ZMod.natCast_mod] using hR)
  refine key.congr fun i hi => ?_
  simp only [reshareShares]
  rw [getD_map_range' _ _ hi, map_reshareParty (modP_isHom p), imageOps_modP]
  rfl

/-- no-PRSS randoms: if every sender's row is an accepted degree-t sharing, so is the vector of sums, with
secret the sum of the senders' values -/
theorem sumDealt_consistentB {m : ℕ} (hm : m < p) {t : ℕ} (htm : t < m) (rows : List (List ℕ))
    (r : List ℕ → ℕ) (hrows : ∀ row ∈ rows, row.length = m ∧ consistentB p t row = some (r row)) :
    consistentB p t (sumDealt (modP p) m rows) = some ((rows.map r).sum % p) := by
  have hlen : (sumDealt (modP p) m rows).length = m := by simp [sumDealt]
  apply (consistentB_spec p t _ (by omega) (by omega) _).2
  refine ⟨Nat.mod_lt _ hp.out.pos, ?_⟩
  rw [hlen]
  have key := consistent_list_sum (emb := embP p) (m := m) (t := t) rows
    (fun row i => ((row.getD i 0 : ℕ) : ZMod p)) (fun row => ((r row : ℕ) : ZMod p)) (by
      intro row hrow
      obtain ⟨h1, h2⟩ := hrows row hrow
      obtain ⟨_, hR⟩ := (consistentB_spec p t row (by omega) (by omega) _).1 h2
      rw [h1] at hR
      exact hR)
  have hv : (((rows.map r).sum % p : ℕ) : ZMod p) = (rows.map fun row => ((r row : ℕ) : ZMod p)).sum := by
    rw [ZMod.natCast_mod, Nat.cast_list_sum, List.map_map]; rfl
  rw [hv]
  refine key.congr fun i hi => ?_
  simp only [sumDealt]
  rw [getD_map_range' _ _ hi, map_sumDealt_getD (modP_isHom p), imageOps_modP,
    foldl_add_eq_sum (embP p) (fun r : List (ZMod p) => r.getD i (fieldOps (ZMod p) (embP p)).zero)]
  simp only [fieldOps_zero, zero_add, List.map_map, Function.comp_def]
  congr 1
  apply List.map_congr_left
  intro row _
  rw [getD_map_cast]

/-- dealing: column `h` of the executable `random_split` is accepted with degree t and secret `s[h]`,
for ANY coefficient stream -/
theorem deal_consistentB {m : ℕ} (hm : m < p) {t : ℕ} (htm : t < m) (s coeffs : List ℕ) {h : ℕ}
    (hh : h < s.length) :
    consistentB p t ((randomSplit (modP p) s coeffs t m).map fun row => row.getD h 0)
      = some (s.getD h 0 % p) := by
  have hlen : ((randomSplit (modP p) s coeffs t m).map fun row => row.getD h 0).length = m := by
    simp [randomSplit]
  apply (consistentB_spec p t _ (by omega) (by omega) _).2
  refine ⟨Nat.mod_lt _ hp.out.pos, ?_⟩
  rw [hlen]
  have key := consistent_deal (embP p) (s.map cast) (coeffs.map cast) t m (h := h) (by simpa using hh)
  rw [getD_map_cast] at key
  rw [ZMod.natCast_mod]
  refine key.congr fun i hi => ?_
  rw [← imageOps_modP, ← map_randomSplit (modP_isHom p), ← getD_map_nil, getD_map_cast]
  congr 1
  have hi' : i < (randomSplit (modP p) s coeffs t m).length := by simpa [randomSplit] using hi
  rw [getD_lt _ _ (by simpa using hi'), getD_lt _ _ hi']
  simp

end MpycV.Share
