/-
Integer <-> polynomial conversions (≙ gfpx.py `_to_int`, `_from_int`), Horner evaluation (`__call__`),
and the order `_lt` as the order of the integer values.
-/
import MpycV.Lemmas.GFpXRing
import Mathlib.Data.Nat.Digits.Lemmas
import Mathlib.Algebra.Polynomial.Eval.Defs

open Polynomial

namespace MpycV.GFpX

variable {p : ℕ}

theorem digitsAux_eq (hp : 1 < p) : ∀ (f n : ℕ), n ≤ f → digitsAux p f n = Nat.digits p n := by
  intro f
  induction f with
  | zero =>
    intro n h
    have : n = 0 := by omega
    subst this; simp [digitsAux]
  | succ f ih =>
    intro n h
    rw [digitsAux]
    split
    · rename_i h0; subst h0; simp
    · rename_i h0
      rw [Nat.digits_def' hp (by omega), ih (n / p) ?_]
      have : n / p < n := Nat.div_lt_self (by omega) hp
      omega

/-- the model's base-p digits are Mathlib's `Nat.digits` -/
theorem digits_eq (hp : 1 < p) (n : ℕ) : digits p n = Nat.digits p n := digitsAux_eq hp n n le_rfl

/-- `_to_int` is Mathlib's `Nat.ofDigits` -/
theorem toInt_eq (a : Poly) : toInt p a = Nat.ofDigits p a := by
  induction a with
  | nil => rfl
  | cons x a ih =>
    rw [Nat.ofDigits_cons, ← ih]
    simp only [toInt, List.foldr_cons]
    ring

theorem wf_digits (hp : 1 < p) (n : ℕ) : WF p (digits p n) := by
  rw [digits_eq hp]
  constructor
  · intro x hx; exact Nat.digits_lt_base hp hx
  · by_cases hn : n = 0
    · subst hn; simp [Normalised]
    · have h := Nat.getLast_digit_ne_zero p hn
      unfold Normalised
      rw [List.getLast?_eq_some_getLast (Nat.digits_ne_nil_iff_ne_zero.mpr hn)]
      simpa using h

/-- `int(P(n)) = n` for `n ≥ 0` -/
theorem toInt_digits (hp : 1 < p) (n : ℕ) : toInt p (digits p n) = n := by
  rw [toInt_eq, digits_eq hp, Nat.ofDigits_digits]

/-- `P(int(a)) = a` for well-formed `a` -/
theorem digits_toInt (hp : 1 < p) {a : Poly} (ha : WF p a) : digits p (toInt p a) = a := by
  rw [toInt_eq, digits_eq hp]
  apply Nat.digits_ofDigits p hp a ha.1
  intro hne
  have := ha.2
  unfold Normalised at this
  rw [List.getLast?_eq_some_getLast hne] at this
  simpa using this

theorem fromInt_nonneg (n : ℕ) : fromInt p (n : ℤ) = digits p n := by
  simp [fromInt]

theorem fromInt_neg {n : ℕ} (hn : 0 < n) : fromInt p (-(n : ℤ)) = neg p (digits p n) := by
  unfold fromInt neg
  rw [if_pos (by omega)]
  simp

/-- `_from_int` of an arbitrary integer is well-formed; negative ints give the negated polynomial -/
theorem wf_fromInt [Fact p.Prime] (z : ℤ) : WF p (fromInt p z) := by
  have hp := (Fact.out : p.Prime).one_lt
  rcases lt_or_ge z 0 with h | h
  · obtain ⟨n, rfl⟩ : ∃ n : ℕ, z = -(n : ℤ) := ⟨z.natAbs, by omega⟩
    rw [fromInt_neg (by omega)]
    exact wf_neg (wf_digits hp n)
  · obtain ⟨n, rfl⟩ : ∃ n : ℕ, z = (n : ℤ) := ⟨z.natAbs, by omega⟩
    rw [fromInt_nonneg]; exact wf_digits hp n

/-- the polynomial of an integer: base-p digits, i.e. `Σ dᵢ Xⁱ` with `n = Σ dᵢ pⁱ` -/
theorem int_roundtrip (hp : 1 < p) (n : ℕ) : toInt p (fromInt p (n : ℤ)) = n := by
  rw [fromInt_nonneg, toInt_digits hp]

/-! ### evaluation -/

theorem eval_cast (hp : 0 < p) (a : Poly) (x : ℤ) :
    ((eval p a x : ℕ) : ZMod p) = (toPoly p a).eval (x : ZMod p) := by
  unfold eval
  have hx : (((x % (p : ℤ)).toNat : ℕ) : ZMod p) = (x : ZMod p) := by
    have hnn : 0 ≤ x % (p : ℤ) := Int.emod_nonneg _ (by omega)
    rw [← Int.cast_natCast (R := ZMod p), Int.toNat_of_nonneg hnn, ZMod.intCast_mod]
  induction a with
  | nil => simp
  | cons c a ih =>
    simp only [List.foldr_cons, toPoly_cons, eval_add, eval_C, eval_mul, eval_X] at ih ⊢
    rw [ZMod.natCast_mod, Nat.cast_add, Nat.cast_mul, ih, hx]
    ring

theorem eval_lt (hp : 0 < p) (a : Poly) (x : ℤ) : eval p a x < p := by
  unfold eval
  cases a with
  | nil => simpa using hp
  | cons c a => exact Nat.mod_lt _ hp

/-- **Horner evaluation** `a(x)` is the value of the polynomial at `x` in `ZMod p` -/
theorem eval_horner [Fact p.Prime] (a : Poly) (x : ℤ) :
    eval p a x = ((toPoly p a).eval (x : ZMod p)).val := by
  have hp := (Fact.out : p.Prime).pos
  rw [← eval_cast hp, ZMod.val_natCast, Nat.mod_eq_of_lt (eval_lt hp a x)]

/-! ### order -/

theorem ofDigits_append_singleton (l : List ℕ) (x : ℕ) :
    Nat.ofDigits p (l ++ [x]) = Nat.ofDigits p l + p ^ l.length * x := by
  rw [Nat.ofDigits_append]; simp

/-- comparing reversed equal-length reduced lists from the top is comparing the integer values -/
theorem ltRev_iff (hp : 1 < p) : ∀ (ra rb : List ℕ), ra.length = rb.length →
    (∀ x ∈ ra, x < p) → (∀ x ∈ rb, x < p) →
    (ltRev ra rb = true ↔ Nat.ofDigits p ra.reverse < Nat.ofDigits p rb.reverse) := by
  intro ra
  induction ra with
  | nil =>
    intro rb hl _ _
    have : rb = [] := by
      cases rb with
      | nil => rfl
      | cons _ _ => simp at hl
    subst this; simp [ltRev]
  | cons x ra ih =>
    intro rb hl ha hb
    cases rb with
    | nil => simp at hl
    | cons y rb =>
      simp only [List.length_cons, Nat.add_right_cancel_iff] at hl
      have ha' : ∀ z ∈ ra, z < p := fun z hz => ha z (List.mem_cons_of_mem _ hz)
      have hb' : ∀ z ∈ rb, z < p := fun z hz => hb z (List.mem_cons_of_mem _ hz)
      have la : Nat.ofDigits p ra.reverse < p ^ ra.length := by
        have := Nat.ofDigits_lt_base_pow_length (l := ra.reverse) hp (by simpa using ha')
        simpa using this
      have lb : Nat.ofDigits p rb.reverse < p ^ ra.length := by
        have := Nat.ofDigits_lt_base_pow_length (l := rb.reverse) hp (by simpa using hb')
        simpa [hl] using this
      simp only [ltRev, List.reverse_cons, ofDigits_append_singleton, List.length_reverse, ← hl]
      have hpos : 0 < p ^ ra.length := Nat.pos_of_ne_zero (by positivity)
      split
      · rename_i hxy
        subst hxy
        rw [ih rb hl ha' hb']
        omega
      · rename_i hxy
        simp only [decide_eq_true_eq]
        constructor
        · intro hlt
          have := Nat.mul_le_mul_left (p ^ ra.length) (Nat.succ_le_of_lt hlt)
          rw [Nat.mul_succ] at this
          clear ih
          generalize Nat.ofDigits p ra.reverse = A at *
          generalize Nat.ofDigits p rb.reverse = B at *
          generalize p ^ ra.length * x = Px at *
          generalize p ^ ra.length * y = Py at *
          generalize p ^ ra.length = P at *
          omega
        · intro hlt
          by_contra hge
          have hyx : y + 1 ≤ x := by omega
          have := Nat.mul_le_mul_left (p ^ ra.length) hyx
          rw [Nat.mul_succ] at this
          clear ih
          generalize Nat.ofDigits p ra.reverse = A at *
          generalize Nat.ofDigits p rb.reverse = B at *
          generalize p ^ ra.length * x = Px at *
          generalize p ^ ra.length * y = Py at *
          generalize p ^ ra.length = P at *
          omega

/-- **order**: `_lt` (shorter is smaller; equal length: lexicographic from the leading coefficient)
is the order of the integer values `int(a) < int(b)` -/
theorem lt_iff_toInt_lt (hp : 1 < p) {a b : Poly} (ha : WF p a) (hb : WF p b) :
    lt a b = true ↔ toInt p a < toInt p b := by
  have hlen : ∀ {c d : Poly}, WF p c → WF p d → c.length < d.length → toInt p c < toInt p d := by
    intro c d hc hd hcd
    rw [toInt_eq, toInt_eq]
    have h1 := Nat.ofDigits_lt_base_pow_length (l := c) hp hc.1
    have hdne : d ≠ [] := by intro h; subst h; simp at hcd
    have hdd := digits_toInt hp hd
    rw [toInt_eq, digits_eq hp] at hdd
    have hd0 : Nat.ofDigits p d ≠ 0 := by
      intro h0; rw [h0] at hdd; simp at hdd; exact hdne hdd
    have h2 := Nat.base_pow_length_digits_le p _ hp hd0
    rw [hdd] at h2
    have h3 : p ^ c.length * p ≤ p ^ d.length := by
      rw [← pow_succ]; exact Nat.pow_le_pow_right (by omega) hcd
    have : p ^ c.length * p ≤ p * Nat.ofDigits p d := le_trans h3 h2
    have h4 : p ^ c.length ≤ Nat.ofDigits p d := by
      rw [mul_comm] at this
      exact Nat.le_of_mul_le_mul_left this (by omega)
    omega
  unfold lt
  split
  · rename_i hne
    simp only [decide_eq_true_eq]
    constructor
    · intro h; exact hlen ha hb h
    · intro h
      by_contra hge
      have := hlen hb ha (by omega)
      omega
  · rename_i heq
    simp only [ne_eq, not_not] at heq
    rw [ltRev_iff hp a.reverse b.reverse (by simpa using heq)
      (fun x hx => ha.1 x (List.mem_reverse.mp hx)) (fun x hx => hb.1 x (List.mem_reverse.mp hx)),
      List.reverse_reverse, List.reverse_reverse, toInt_eq, toInt_eq]

end MpycV.GFpX
