/-
Bridge, part 2: `ThreshaMirror.random_split` (translated source, coefficient draws read from an explicit stream)
= the model's `randomSplit` on the integer operations `intModP p`.
-/
import MpycV.Lemmas.ThreshaSrcBridge

namespace MpycV.Thresha

open MpycV.PyList

variable (p : ℕ) [hp : Fact p.Prime]

/-- raw integer Horner followed by one reduction = Horner with reduction after every step -/
lemma horner_raw_cast (c : List Int) (x : Int) (y y' : Int) (h : (y : ZMod p) = (y' : ZMod p)) :
    ((c.foldl (fun y cj => (y + cj) * x) y : Int) : ZMod p)
      = ((c.foldl (fun y cj => (intModP p).mul ((intModP p).add y cj) (x % (p : Int))) y' : Int) : ZMod p) := by
  induction c generalizing y y' with
  | nil => exact h
  | cons a c ih =>
    rw [List.foldl_cons, List.foldl_cons]
    apply ih
    simp only [intModP]
    rw [ZMod.intCast_mod, Int.cast_mul, Int.cast_mul, ZMod.intCast_mod, ZMod.intCast_mod, Int.cast_add, Int.cast_add, h]

lemma share_raw_eq (c : List Int) (s : Int) (i1 : ℕ) :
    ((c.foldl (fun y cj => (y + cj) * ((i1 : ℕ) : Int)) 0) + s) % (p : Int) = shareAt (intModP p) s c i1 := by
  unfold shareAt horner
  show _ = ((List.foldl _ _ c + s) % (p : Int))
  apply emod_eq_of_cast
  rw [Int.cast_add, Int.cast_add]
  congr 1
  exact horner_raw_cast p c _ 0 0 rfl

/-- the Horner loop -/
lemma rs_y_loop (c : List Int) (i1 y0 : Int) :
    pyFor (ε := TErr) (σ := Int) c y0 (fun it_ st_ => match it_, st_ with
        | c_j, y =>
          let y := ((y + c_j) * i1)
          .ok y)
      = .ok (c.foldl (fun y cj => (y + cj) * i1) y0) :=
  pyFor_ok _ _ _ _ (fun _ _ _ => rfl)

/-- the loop over the parties for one secret: column `h` of the share matrix is filled -/
lemma rs_i1_loop (M N : ℕ) (m : Int) (hm : m.toNat = M) (h : ℕ) (hh : h < N) (c : List Int) (s_h : Int)
    (F : ℕ → ℕ → Int) :
    pyFor (ε := TErr) (σ := List (List Int)) (pyRange 1 (m + 1)) (mat M N F) (fun it_ st_ => match it_, st_ with
        | i1, shares =>
          let y := 0
          match pyFor (ε := TErr) (σ := Int) c y (fun it_ st_ => match it_, st_ with
              | c_j, y =>
                let y := ((y + c_j) * i1)
                .ok y) with
          | .error exc_ => .error exc_
          | .ok y =>
            if pyIdxOk shares.length (i1 - 1) = false then .error .indexError else
            if pyIdxOk (pyGet shares (i1 - 1)).length (h : Int) = false then .error .indexError else
            let shares := pySet shares (i1 - 1) (pySet (pyGet shares (i1 - 1)) (h : Int) ((y + s_h) % (p : Int)))
            .ok shares)
      = .ok (mat M N (fun r c' => if c' = h then shareAt (intModP p) s_h c (r + 1) else F r c')) := by
  have key := pyFor_range_states' (ε := TErr) 1 (m + 1) M (by rw [← hm]; congr 1; ring)
    (fun it_ st_ => match it_, st_ with
        | i1, shares =>
          let y := 0
          match pyFor (ε := TErr) (σ := Int) c y (fun it_ st_ => match it_, st_ with
              | c_j, y =>
                let y := ((y + c_j) * i1)
                .ok y) with
          | .error exc_ => .error exc_
          | .ok y =>
            if pyIdxOk shares.length (i1 - 1) = false then .error .indexError else
            if pyIdxOk (pyGet shares (i1 - 1)).length (h : Int) = false then .error .indexError else
            let shares := pySet shares (i1 - 1) (pySet (pyGet shares (i1 - 1)) (h : Int) ((y + s_h) % (p : Int)))
            .ok shares)
    (fun k => mat M N (fun r c' => if c' = h ∧ r < k then shareAt (intModP p) s_h c (r + 1) else F r c'))
    (by
      intro k hk
      simp only []
      rw [rs_y_loop]
      simp only []
      have e1 : (1 + (k : Int) - 1) = (k : Int) := by ring
      rw [e1]
      obtain ⟨g1, g2⟩ := mat_guard M N
        (fun r c' => if c' = h ∧ r < k then shareAt (intModP p) s_h c (r + 1) else F r c') hk hh
      rw [g1, g2]
      simp only [Bool.true_eq_false, ↓reduceIte]
      rw [mat_set M N _ hk hh]
      congr 1
      apply mat_congr
      intro r hr c' hc'
      have e2 : (1 + (k : Int)) = ((k + 1 : ℕ) : Int) := by push_cast; ring
      by_cases h1 : r = k ∧ c' = h
      · obtain ⟨rfl, rfl⟩ := h1
        simp only [and_self, ↓reduceIte, Nat.lt_succ_self]
        rw [e2, share_raw_eq]
      · simp only [h1, ↓reduceIte]
        by_cases h2 : c' = h
        · have : r ≠ k := fun hrk => h1 ⟨hrk, h2⟩
          simp only [h2, true_and]
          by_cases h3 : r < k
          · simp [h3, Nat.lt_succ_of_lt h3]
          · have : ¬ r < k + 1 := by omega
            simp [h3, this]
        · simp [h2])
  have e0 : mat M N (fun r c' => if c' = h ∧ r < 0 then shareAt (intModP p) s_h c (r + 1) else F r c') = mat M N F := by
    apply mat_congr; intro r _ c' _; simp
  rw [e0] at key
  rw [key]
  congr 1
  apply mat_congr
  intro r hr c' _
  simp [hr]

omit hp in
/-- the initial matrix `[[None] * len(s) for _ in range(m)]` -/
lemma init_mat (N : ℕ) (m : Int) :
    List.map (fun (_ : Int) => List.replicate ((N : Int)).toNat (0 : Int)) (pyRange 0 m)
      = mat m.toNat N (fun _ _ => 0) := by
  unfold mat pyRange
  rw [List.map_map]
  simp only [sub_zero, Int.toNat_natCast]
  apply List.map_congr_left
  intro r _
  simp only [Function.comp]
  apply List.ext_getElem <;> simp

omit hp in
/-- the model's share matrix by entries -/
lemma randomSplit_eq_mat (o : FieldOps Int) (s coeffs : List Int) (t m : ℕ) :
    randomSplit o s coeffs t m
      = mat m s.length (fun r c' => shareAt o (s.getD c' 0) (coeffsFor coeffs t c') (r + 1)) := by
  unfold randomSplit mat
  apply List.map_congr_left
  intro r _
  apply List.ext_getElem
  · simp
  · intro i h1 h2
    have hi : i < s.length := by simpa using h1
    simp [List.getD_eq_getElem?_getD, List.getElem?_eq_getElem hi]

omit hp in
/-- the `t` coefficients of secret number `h` are read from the stream -/
lemma draw_ok (_hp0 : 0 < (p : Int)) (stream : List Int) (t : Int) (N h : ℕ) (hh : h < N)
    (hlen : t.toNat * N ≤ stream.length)
    (hrange : ∀ v ∈ stream.take (t.toNat * N), 0 ≤ v ∧ v < (p : Int)) :
    pyDraw (p : Int) t (stream.drop (h * t.toNat))
      = .ok (coeffsFor stream t.toNat h, stream.drop ((h + 1) * t.toNat)) := by
  unfold pyDraw
  simp only []
  have hle : (h + 1) * t.toNat ≤ t.toNat * N := by
    calc (h + 1) * t.toNat ≤ N * t.toNat := Nat.mul_le_mul_right _ hh
      _ = t.toNat * N := Nat.mul_comm _ _
  have hl : (List.take t.toNat (List.drop (h * t.toNat) stream)).length = t.toNat := by
    rw [List.length_take, List.length_drop]
    have : (h + 1) * t.toNat = h * t.toNat + t.toNat := by ring
    omega
  have hall : (List.take t.toNat (List.drop (h * t.toNat) stream)).all
      (fun v => decide (0 ≤ v ∧ v < (p : Int))) = true := by
    rw [List.all_eq_true]
    intro v hv
    obtain ⟨j, hj, rfl⟩ := List.getElem_of_mem hv
    have hj' : j < t.toNat := by rw [hl] at hj; exact hj
    have hidx : h * t.toNat + j < t.toNat * N := by
      have : (h + 1) * t.toNat = h * t.toNat + t.toNat := by ring
      omega
    have hlt : h * t.toNat + j < stream.length := by omega
    have : (List.take t.toNat (List.drop (h * t.toNat) stream))[j] = stream[h * t.toNat + j] := by
      simp [List.getElem_take, List.getElem_drop]
    rw [this]
    have hm : stream[h * t.toNat + j] ∈ stream.take (t.toNat * N) := by
      rw [List.mem_iff_getElem]
      refine ⟨h * t.toNat + j, by simp [List.length_take]; omega, by simp [List.getElem_take]⟩
    simpa using hrange _ hm
  rw [if_neg]
  · simp only [coeffsFor, List.drop_drop]
    congr 3
    ring
  · rw [hl, hall]; simp

/-- ★ bridge: the translated `random_split`, reading its coefficient draws from `stream` (values in range(p), at
least `t` per secret), is the model's `randomSplit` on the integer operations with the same stream as coefficients -/
theorem random_split_eq (isField : Bool) (s : List Int) (t m : Int) (stream : List Int) (hs : s ≠ [])
    (hguard : t = 0 ∨ m < (p : Int))
    (hlen : t.toNat * s.length ≤ stream.length)
    (hrange : ∀ v ∈ stream.take (t.toNat * s.length), 0 ≤ v ∧ v < (p : Int)) :
    ThreshaMirror.random_split p isField s t m stream
      = .ok (randomSplit (intModP p) s stream t.toNat m.toNat) := by
  have hp0 : 0 < (p : Int) := by exact_mod_cast hp.out.pos
  have hN : 0 < s.length := List.length_pos_iff.2 hs
  unfold ThreshaMirror.random_split
  simp -iota only []
  have hng : ¬ (t ≠ 0 ∧ m ≥ (p : Int)) := by
    rintro ⟨h1, h2⟩
    rcases hguard with h | h
    · exact h1 h
    · omega
  rw [if_neg hng]
  have hg : pyIdxOk s.length 0 = true := by
    simp [pyIdxOk]; omega
  have hT : decide ((s.length : Int) > 0 ∧ isField = true) = isField := by
    cases isField <;> simp [hN]
  rw [init_mat]
  simp only [hg, hT, Bool.true_eq_false, and_false, ↓reduceIte]
  have key := pyFor_enum_states (ε := TErr) s
    (fun it_ st_ => match it_, st_ with
      | (h, s_h), (stream, shares) =>
        let s_h :=
          if isField = true then
            let s_h := s_h
            (s_h)
          else
            (s_h)
        match pyDraw (p : Int) t stream with
        | .error exc_ => .error exc_
        | .ok (c, stream) =>
          match pyFor (ε := TErr) (σ := List (List Int)) (pyRange 1 (m + 1)) shares (fun it_ st_ => match it_, st_ with
              | i1, shares =>
                let y := 0
                match pyFor (ε := TErr) (σ := Int) c y (fun it_ st_ => match it_, st_ with
                    | c_j, y =>
                      let y := ((y + c_j) * i1)
                      .ok y) with
                | .error exc_ => .error exc_
                | .ok y =>
                  if pyIdxOk shares.length (i1 - 1) = false then .error .indexError else
                  if pyIdxOk (pyGet shares (i1 - 1)).length h = false then .error .indexError else
                  let shares := pySet shares (i1 - 1) (pySet (pyGet shares (i1 - 1)) h ((y + s_h) % (p : Int)))
                  .ok shares) with
          | .error exc_ => .error exc_
          | .ok shares =>
            .ok (stream, shares))
    (fun h => (stream.drop (h * t.toNat), mat m.toNat s.length (fun r c' =>
        if c' < h then shareAt (intModP p) (s.getD c' 0) (coeffsFor stream t.toNat c') (r + 1) else 0)))
    (by
      intro h hh
      simp only [ite_self]
      rw [draw_ok p hp0 stream t s.length h hh hlen hrange]
      simp only []
      rw [rs_i1_loop p m.toNat s.length m rfl h hh]
      simp only []
      congr 2
      apply mat_congr
      intro r _ c' _
      by_cases h1 : c' = h
      · subst h1
        simp [List.getD_eq_getElem?_getD, List.getElem?_eq_getElem hh]
      · have : c' < h + 1 ↔ c' < h := by omega
        simp [h1, this])
  have e0 : (stream.drop (0 * t.toNat), mat m.toNat s.length (fun r c' =>
        if c' < 0 then shareAt (intModP p) (s.getD c' 0) (coeffsFor stream t.toNat c') (r + 1) else 0))
      = (stream, mat m.toNat s.length (fun _ _ => (0 : Int))) := by
    simp
  rw [e0] at key
  simp -iota only [] at key
  erw [key]
  simp only []
  rw [randomSplit_eq_mat]
  congr 1
  apply mat_congr
  intro r _ c' hc'
  simp [hc']

end MpycV.Thresha
