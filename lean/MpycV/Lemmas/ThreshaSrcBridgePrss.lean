/-
Bridge, part 6: `ThreshaMirror.pseudorandom_share` / `pseudorandom_share_zero` (translated source, PRF outputs as an
explicit parameter) = the model's `prssShare` / `prssZero` on the integer operations.
-/
import MpycV.Lemmas.ThreshaSrcBridgeFS

namespace MpycV.Thresha

open MpycV.PyList

/-! ### one-dimensional lists given by their entries -/

def vec (N : ℕ) (f : ℕ → Int) : List Int := (List.range N).map f

lemma length_vec (N : ℕ) (f : ℕ → Int) : (vec N f).length = N := by simp [vec]

lemma vec_guard (N : ℕ) (f : ℕ → Int) {k : ℕ} (hk : k < N) : pyIdxOk (vec N f).length (k : Int) = true :=
  pyIdxOk_nat (by rwa [length_vec])

lemma vec_get (N : ℕ) (f : ℕ → Int) {k : ℕ} (hk : k < N) : pyGet (vec N f) (k : Int) = f k := by
  rw [pyGet_nat _ (by rwa [length_vec])]; simp [vec]

lemma vec_set (N : ℕ) (f : ℕ → Int) {k : ℕ} (_hk : k < N) (v : Int) :
    pySet (vec N f) (k : Int) v = vec N (fun h => if h = k then v else f h) := by
  rw [pySet_nat]
  apply List.ext_getElem
  · simp [vec]
  · intro i h1 h2
    rw [List.getElem_set]
    by_cases hik : k = i
    · subst hik; simp [vec]
    · simp [vec, hik, Ne.symm hik]

lemma vec_congr (N : ℕ) (f g : ℕ → Int) (h : ∀ k < N, f k = g k) : vec N f = vec N g := by
  unfold vec
  apply List.map_congr_left
  intro k hk
  exact h k (by simpa using hk)

lemma replicate_eq_vec (n : ℕ) : List.replicate ((n : Int)).toNat (0 : Int) = vec n (fun _ => 0) := by
  simp only [Int.toNat_natCast, vec]
  apply List.ext_getElem <;> simp

/-- a loop over `range(N)` whose iteration `k` updates entry `k` only -/
lemma vec_loop (N : ℕ) (body : Int → List Int → Except TErr (List Int)) (upd : ℕ → Int → Int)
    (hb : ∀ k < N, ∀ G : ℕ → Int,
      body (k : Int) (vec N G) = .ok (vec N (fun h => if h = k then upd k (G k) else G h)))
    (F : ℕ → Int) :
    pyFor (pyRange 0 (N : Int)) (vec N F) body = .ok (vec N (fun h => upd h (F h))) := by
  have key := pyFor_range_states' (ε := TErr) 0 (N : Int) N (by simp) body
    (fun k => vec N (fun h => if h < k then upd h (F h) else F h))
    (by
      intro k hk
      rw [zero_add, hb k hk]
      congr 1
      apply vec_congr
      intro h _
      by_cases h1 : h = k
      · subst h1; simp
      · have e3 : h < k + 1 ↔ h < k := by omega
        simp [h1, e3])
  have e0 : vec N (fun h => if h < 0 then upd h (F h) else F h) = vec N F := by
    apply vec_congr; intro h _; simp
  rw [e0] at key
  rw [key]
  congr 1
  apply vec_congr
  intro h hh
  simp [hh]

/-! ### pseudorandom_share -/

/-- the loops of the translated `pseudorandom_share`: raw integer sums over the subsets, then one reduction -/
theorem prss_share_loops (p : Int) (m i : Int) (prfs : List (List Int × List Int)) (n : ℕ) (fv : List Int → Int)
    (hf : ∀ Sp ∈ prfs, ThreshaMirror.f_S_i p m i Sp.1 = .ok (fv Sp.1))
    (hlen : ∀ Sp ∈ prfs, n ≤ Sp.2.length) :
    ThreshaMirror.pseudorandom_share p m i prfs (n : Int)
      = .ok (vec n (fun h => (∑ k ∈ Finset.range prfs.length,
          pyGet (prfs.getD k ([], [])).2 (h : Int) * fv (prfs.getD k ([], [])).1) % p)) := by
  unfold ThreshaMirror.pseudorandom_share
  simp -iota only []
  rw [replicate_eq_vec]
  have key := pyFor_states (ε := TErr) prfs
    (fun it_ st_ => match it_, st_ with
      | (S, prf_S), sums =>
        match ThreshaMirror.f_S_i p m i S with
        | .error exc_ => .error exc_
        | .ok v1 =>
          let f_S_i := v1
          let prl := (List.take ((n : Int)).toNat prf_S)
          match pyFor (ε := TErr) (σ := List Int) (pyRange 0 (n : Int)) sums (fun it_ st_ => match it_, st_ with
              | h, sums =>
                if pyIdxOk sums.length h = false then .error .indexError else
                if pyIdxOk prl.length h = false then .error .indexError else
                let sums := pySet sums h ((pyGet sums h) + ((pyGet prl h) * f_S_i))
                .ok sums) with
          | .error exc_ => .error exc_
          | .ok sums =>
            .ok sums)
    (fun k => vec n (fun h => ∑ k' ∈ Finset.range k,
          pyGet (prfs.getD k' ([], [])).2 (h : Int) * fv (prfs.getD k' ([], [])).1))
    (by
      intro k hk
      have hmem : prfs[k] ∈ prfs := List.getElem_mem hk
      rcases hpk : prfs[k] with ⟨S, prf_S⟩
      simp only []
      rw [show ThreshaMirror.f_S_i p m i S = .ok (fv S) from by simpa [hpk] using hf _ hmem]
      simp only [Int.toNat_natCast]
      have hl : n ≤ prf_S.length := by simpa [hpk] using hlen _ hmem
      rw [vec_loop n _ (fun h x => x + pyGet (List.take n prf_S) (h : Int) * fv S)]
      · simp only []
        congr 1
        apply vec_congr
        intro h hh
        rw [Finset.sum_range_succ]
        have e1 : prfs.getD k ([], []) = (S, prf_S) := by
          simp [List.getD_eq_getElem?_getD, List.getElem?_eq_getElem hk, hpk]
        rw [e1]
        have e2 : pyGet (List.take n prf_S) (h : Int) = pyGet prf_S (h : Int) := by
          rw [pyGet_int_nat, pyGet_int_nat]
          simp [List.getD_eq_getElem?_getD, hh]
        rw [e2]
      · intro k' hk' G
        rw [vec_guard n G hk', pyIdxOk_nat (show k' < (List.take n prf_S).length by
          rw [List.length_take]; omega)]
        simp only [Bool.true_eq_false, ↓reduceIte]
        rw [vec_get n G hk', vec_set n G hk'])
  simp only [Finset.range_zero, Finset.sum_empty] at key
  try simp -iota only [] at key
  erw [key]
  simp only []
  rw [vec_loop n _ (fun _ x => x % p)]
  · intro k' hk' G
    rw [vec_guard n G hk']
    simp only [Bool.true_eq_false, ↓reduceIte]
    rw [vec_get n G hk', vec_set n G hk']

/-! ### pseudorandom_share_zero -/

/-- the Horner value `Σ_j prl[h*d+j] * i1^(d-j)` as the translated loop computes it (plain integers) -/
def zeroY (prf : List Int) (h D : ℕ) (i1 : Int) : Int :=
  (List.range D).foldl (fun (y : Int) (j : ℕ) => (y + pyGet prf ((h : Int) * (D : Int) + (j : Int))) * i1) 0

/-- the inner Horner loop of `pseudorandom_share_zero` -/
lemma zy_loop (prl : List Int) (h D : ℕ) (i1 : Int) (hlen : (h + 1) * D ≤ prl.length) :
    pyFor (ε := TErr) (σ := Int) (pyRange 0 (D : Int)) 0 (fun it_ st_ => match it_, st_ with
        | j, y =>
          if pyIdxOk prl.length (((h : Int) * (D : Int)) + j) = false then .error .indexError else
          let y := ((y + (pyGet prl (((h : Int) * (D : Int)) + j))) * i1)
          .ok y)
      = .ok (zeroY prl h D i1) := by
  unfold pyRange zeroY
  rw [pyFor_map]
  simp only [sub_zero, Int.toNat_natCast]
  apply pyFor_ok
  intro a ha s
  have ha' : a < D := by simpa using ha
  have hidx : h * D + a < prl.length := by
    have : (h + 1) * D = h * D + D := by ring
    omega
  have e : ((h : Int) * (D : Int)) + (0 + (a : Int)) = ((h * D + a : ℕ) : Int) := by push_cast; ring
  rw [e, pyIdxOk_nat hidx]
  simp only [Bool.true_eq_false, ↓reduceIte]
  have e' : ((h : Int) * (D : Int)) + (a : Int) = ((h * D + a : ℕ) : Int) := by push_cast; ring
  rw [e']

/-- the loops of the translated `pseudorandom_share_zero` -/
theorem prss_zero_loops (p : Int) (m i : Int) (prfs : List (List Int × List Int)) (n : ℕ) (fv : List Int → Int)
    (hf : ∀ Sp ∈ prfs, ThreshaMirror.f_S_i p m i Sp.1 = .ok (fv Sp.1))
    (hd : ∀ Sp ∈ prfs, 0 ≤ m - (Sp.1.length : Int))
    (hlen : ∀ Sp ∈ prfs, n * (m - (Sp.1.length : Int)).toNat ≤ Sp.2.length) :
    ThreshaMirror.pseudorandom_share_zero p m i prfs (n : Int)
      = .ok (vec n (fun h => (∑ k ∈ Finset.range prfs.length,
          zeroY (prfs.getD k ([], [])).2 h (m - ((prfs.getD k ([], [])).1.length : Int)).toNat (i + 1)
            * fv (prfs.getD k ([], [])).1) % p)) := by
  unfold ThreshaMirror.pseudorandom_share_zero
  simp -iota only []
  rw [replicate_eq_vec]
  have key := pyFor_states (ε := TErr) prfs
    (fun it_ st_ => match it_, st_ with
      | (S, prf_S), sums =>
        match ThreshaMirror.f_S_i p m i S with
        | .error exc_ => .error exc_
        | .ok v1 =>
          let f_S_i := v1
          let d := (m - (S.length : Int))
          let prl := (List.take (((n : Int) * d)).toNat prf_S)
          match pyFor (ε := TErr) (σ := List Int) (pyRange 0 (n : Int)) sums (fun it_ st_ => match it_, st_ with
              | h, sums =>
                let y := 0
                match pyFor (ε := TErr) (σ := Int) (pyRange 0 d) y (fun it_ st_ => match it_, st_ with
                    | j, y =>
                      if pyIdxOk prl.length ((h * d) + j) = false then .error .indexError else
                      let y := ((y + (pyGet prl ((h * d) + j))) * (i + 1))
                      .ok y) with
                | .error exc_ => .error exc_
                | .ok y =>
                  if pyIdxOk sums.length h = false then .error .indexError else
                  let sums := pySet sums h ((pyGet sums h) + (y * f_S_i))
                  .ok sums) with
          | .error exc_ => .error exc_
          | .ok sums =>
            .ok sums)
    (fun k => vec n (fun h => ∑ k' ∈ Finset.range k,
          zeroY (prfs.getD k' ([], [])).2 h (m - ((prfs.getD k' ([], [])).1.length : Int)).toNat (i + 1)
            * fv (prfs.getD k' ([], [])).1))
    (by
      intro k hk
      have hmem : prfs[k] ∈ prfs := List.getElem_mem hk
      rcases hpk : prfs[k] with ⟨S, prf_S⟩
      simp only []
      rw [show ThreshaMirror.f_S_i p m i S = .ok (fv S) from by simpa [hpk] using hf _ hmem]
      have hd0 : 0 ≤ m - (S.length : Int) := by simpa [hpk] using hd _ hmem
      obtain ⟨D, hD⟩ := Int.eq_ofNat_of_zero_le hd0
      have hl : n * D ≤ prf_S.length := by
        have := hlen _ hmem
        simpa [hpk, hD] using this
      simp only [hD]
      have etake : ((n : Int) * (D : Int)).toNat = n * D := by
        rw [← Nat.cast_mul]; exact Int.toNat_natCast _
      rw [etake]
      rw [vec_loop n _ (fun h x => x + zeroY prf_S h D (i + 1) * fv S)]
      · simp only []
        congr 1
        apply vec_congr
        intro h hh
        rw [Finset.sum_range_succ]
        have e1 : prfs.getD k ([], []) = (S, prf_S) := by
          simp [List.getD_eq_getElem?_getD, List.getElem?_eq_getElem hk, hpk]
        rw [e1]
        simp only [hD, Int.toNat_natCast]
      · intro k' hk' G
        have hlk : (k' + 1) * D ≤ (List.take (n * D) prf_S).length := by
          rw [List.length_take]
          have : (k' + 1) * D ≤ n * D := Nat.mul_le_mul_right _ hk'
          omega
        rw [zy_loop (List.take (n * D) prf_S) k' D (i + 1) hlk]
        simp only []
        rw [vec_guard n G hk']
        simp only [Bool.true_eq_false, ↓reduceIte]
        rw [vec_get n G hk', vec_set n G hk']
        congr 2
        funext h'
        by_cases hh : h' = k'
        · subst hh
          simp only [↓reduceIte]
          congr 2
          -- reading through `take (n*D)` below the bound is reading the list itself
          unfold zeroY
          apply List.foldl_ext
          intro y j hj
          have hj' : j < D := by simpa using hj
          have e : ((h' : Int) * (D : Int)) + (j : Int) = ((h' * D + j : ℕ) : Int) := by push_cast; ring
          rw [e, pyGet_int_nat, pyGet_int_nat]
          have hidx : h' * D + j < n * D := by
            have : (h' + 1) * D ≤ n * D := Nat.mul_le_mul_right _ hk'
            have : (h' + 1) * D = h' * D + D := by ring
            omega
          simp [List.getD_eq_getElem?_getD, hidx]
        · simp [hh])
  simp only [Finset.range_zero, Finset.sum_empty] at key
  try simp -iota only [] at key
  erw [key]
  simp only []
  rw [vec_loop n _ (fun _ x => x % p)]
  · intro k' hk' G
    rw [vec_guard n G hk']
    simp only [Bool.true_eq_false, ↓reduceIte]
    rw [vec_get n G hk', vec_set n G hk']

section model
variable (p : ℕ) [hp : Fact p.Prime]

/-- a sum accumulated with reduction after every step, seen in `ZMod p` -/
lemma fold_cast_sum {α : Type} (L : List α) (g : α → Int) (acc : Int) :
    ((L.foldl (fun acc x => (intModP p).add acc (g x % (p : Int))) acc : Int) : ZMod p)
      = (acc : ZMod p) + (L.map fun x => ((g x : Int) : ZMod p)).sum := by
  induction L generalizing acc with
  | nil => simp
  | cons a L ih =>
    rw [List.foldl_cons, ih]
    simp only [intModP, List.map_cons, List.sum_cons]
    rw [ZMod.intCast_mod, Int.cast_add, ZMod.intCast_mod]
    ring

omit hp in
lemma fold_range (hp0 : 0 < (p : Int)) {α : Type} (L : List α) (g : α → Int) :
    0 ≤ L.foldl (fun acc x => (intModP p).add acc (g x % (p : Int))) 0 ∧
      L.foldl (fun acc x => (intModP p).add acc (g x % (p : Int))) 0 < (p : Int) := by
  have : ∀ (L : List α) (acc : Int), (0 ≤ acc ∧ acc < (p : Int)) →
      0 ≤ L.foldl (fun acc x => (intModP p).add acc (g x % (p : Int))) acc ∧
      L.foldl (fun acc x => (intModP p).add acc (g x % (p : Int))) acc < (p : Int) := by
    intro L
    induction L with
    | nil => intro acc h; exact h
    | cons a L ih =>
      intro acc _
      rw [List.foldl_cons]
      apply ih
      simp only [intModP]
      exact ⟨Int.emod_nonneg _ (by omega), Int.emod_lt_of_pos _ hp0⟩
  exact this L 0 ⟨le_refl _, hp0⟩

lemma sum_range_getD {α : Type} (L : List α) (d : α) (f : α → ZMod p) :
    ∑ k ∈ Finset.range L.length, f (L.getD k d) = (L.map f).sum := by
  induction L with
  | nil => simp
  | cons a L ih =>
    rw [List.length_cons, Finset.sum_range_succ', List.map_cons, List.sum_cons, add_comm]
    congr 1

/-- raw sum over the subsets, reduced once = the model's accumulation with reduction after every step -/
lemma prss_entry_eq (L : List (List ℕ × List Int)) (g : List ℕ × List Int → Int) :
    (∑ k ∈ Finset.range L.length, g (L.getD k ([], []))) % (p : Int)
      = L.foldl (fun acc x => (intModP p).add acc (g x % (p : Int))) 0 := by
  have hp0 : 0 < (p : Int) := by exact_mod_cast hp.out.pos
  obtain ⟨d0, d1⟩ := fold_range p hp0 L g
  rw [← Int.emod_eq_of_lt d0 d1]
  apply emod_eq_of_cast
  rw [fold_cast_sum, Int.cast_zero, zero_add, Int.cast_sum]
  exact sum_range_getD p L ([], []) (fun x => ((g x : Int) : ZMod p))

/-- ★ bridge: the translated `pseudorandom_share` (PRF outputs given as the lists `Sp.2`, at least `n` each) is the
model's `prssShare` on `intModP p` -/
theorem pseudorandom_share_eq (m i n : ℕ) (prfs : List (List ℕ × List Int))
    (hE : ∀ Sp ∈ prfs, ∃ v, recombVecE (intModP p)
      ((intModP p).ofNat 0 :: (outside m Sp.1).map fun x => (intModP p).ofNat (x + 1))
      ((intModP p).ofNat (i + 1)) = .ok v)
    (hlen : ∀ Sp ∈ prfs, n ≤ Sp.2.length) :
    ThreshaMirror.pseudorandom_share p (m : Int) (i : Int)
        (prfs.map fun Sp => (Sp.1.map (Nat.cast : ℕ → Int), Sp.2)) (n : Int)
      = .ok (prssShare (intModP p) m i prfs n) := by
  let fv : List Int → Int := fun S => match ThreshaMirror.f_S_i p (m : Int) (i : Int) S with
    | .ok v => v
    | .error _ => 0
  have hfS : ∀ Sp ∈ prfs, ThreshaMirror.f_S_i p (m : Int) (i : Int) (Sp.1.map (Nat.cast : ℕ → Int))
      = .ok (fSi (intModP p) m i Sp.1) := by
    intro Sp hSp
    obtain ⟨v, hv⟩ := hE Sp hSp
    exact f_S_i_eq p m i Sp.1 v hv
  have hfv : ∀ Sp ∈ prfs, fv (Sp.1.map (Nat.cast : ℕ → Int)) = fSi (intModP p) m i Sp.1 := by
    intro Sp hSp
    simp only [fv, hfS Sp hSp]
  rw [prss_share_loops (p : Int) m i _ n fv]
  · congr 1
    unfold prssShare vec
    apply List.map_congr_left
    intro h hh
    have hh' : h < n := by simpa using hh
    rw [List.length_map]
    have := prss_entry_eq p prfs (fun Sp => Sp.2.getD h 0 * fSi (intModP p) m i Sp.1)
    rw [show (prfs.foldl (fun acc (Sp : List ℕ × List Int) => (intModP p).add acc ((intModP p).mul
          (Sp.2.getD h (intModP p).zero) (fSi (intModP p) m i Sp.1))) (intModP p).zero)
        = prfs.foldl (fun acc x => (intModP p).add acc
          ((fun Sp : List ℕ × List Int => Sp.2.getD h 0 * fSi (intModP p) m i Sp.1) x % (p : Int))) 0 from rfl,
      ← this]
    congr 1
    apply Finset.sum_congr rfl
    intro k hk
    have hk' : k < prfs.length := by simpa using hk
    simp only [List.getD_eq_getElem?_getD, List.getElem?_map, List.getElem?_eq_getElem hk', Option.map_some,
      Option.getD_some]
    rw [hfv _ (List.getElem_mem hk'), pyGet_int_nat]
    simp [List.getD_eq_getElem?_getD]
  · intro Sp hSp
    obtain ⟨Sp0, h0, rfl⟩ := List.mem_map.1 hSp
    simp only [fv, hfS Sp0 h0]
  · intro Sp hSp
    obtain ⟨Sp0, h0, rfl⟩ := List.mem_map.1 hSp
    exact hlen Sp0 h0

omit hp in
/-- the Horner value read through indices is the Horner fold over the block of `D` outputs -/
lemma zeroY_eq_foldl (prf : List Int) (h D : ℕ) (x : Int) (hlen : (h + 1) * D ≤ prf.length) :
    zeroY prf h D x = ((prf.drop (h * D)).take D).foldl (fun y c => (y + c) * x) 0 := by
  have hL : (List.range D).map (fun j : ℕ => pyGet prf ((h : Int) * (D : Int) + (j : Int)))
      = (prf.drop (h * D)).take D := by
    have hx : (h + 1) * D = h * D + D := by ring
    apply List.ext_getElem
    · simp [List.length_take, List.length_drop]; omega
    · intro j h1 h2
      have hj : j < D := by simpa using h1
      have e : ((h : Int) * (D : Int)) + (j : Int) = ((h * D + j : ℕ) : Int) := by push_cast; ring
      have hidx : h * D + j < prf.length := by omega
      simp only [List.getElem_map, List.getElem_range, e]
      rw [pyGet_nat _ hidx]
      simp [List.getElem_take, List.getElem_drop]
  unfold zeroY
  rw [← hL, List.foldl_map]

lemma zeroY_cast (prf : List Int) (h D i : ℕ) (hlen : (h + 1) * D ≤ prf.length) :
    ((zeroY prf h D ((i : Int) + 1) : Int) : ZMod p)
      = ((horner (intModP p) ((prf.drop (h * D)).take D) ((intModP p).ofNat (i + 1)) : Int) : ZMod p) := by
  rw [zeroY_eq_foldl prf h D _ hlen]
  have := horner_raw_cast p ((prf.drop (h * D)).take D) ((i : Int) + 1) 0 0 rfl
  rw [this]
  unfold horner
  simp [intModP]

/-- ★ bridge: the translated `pseudorandom_share_zero` is the model's `prssZero` on `intModP p` -/
theorem pseudorandom_share_zero_eq (m i n : ℕ) (prfs : List (List ℕ × List Int))
    (hE : ∀ Sp ∈ prfs, ∃ v, recombVecE (intModP p)
      ((intModP p).ofNat 0 :: (outside m Sp.1).map fun x => (intModP p).ofNat (x + 1))
      ((intModP p).ofNat (i + 1)) = .ok v)
    (hS : ∀ Sp ∈ prfs, Sp.1.length ≤ m)
    (hlen : ∀ Sp ∈ prfs, n * (m - Sp.1.length) ≤ Sp.2.length) :
    ThreshaMirror.pseudorandom_share_zero p (m : Int) (i : Int)
        (prfs.map fun Sp => (Sp.1.map (Nat.cast : ℕ → Int), Sp.2)) (n : Int)
      = .ok (prssZero (intModP p) m i prfs n) := by
  let fv : List Int → Int := fun S => match ThreshaMirror.f_S_i p (m : Int) (i : Int) S with
    | .ok v => v
    | .error _ => 0
  have hfS : ∀ Sp ∈ prfs, ThreshaMirror.f_S_i p (m : Int) (i : Int) (Sp.1.map (Nat.cast : ℕ → Int))
      = .ok (fSi (intModP p) m i Sp.1) := by
    intro Sp hSp
    obtain ⟨v, hv⟩ := hE Sp hSp
    exact f_S_i_eq p m i Sp.1 v hv
  have hfv : ∀ Sp ∈ prfs, fv (Sp.1.map (Nat.cast : ℕ → Int)) = fSi (intModP p) m i Sp.1 := by
    intro Sp hSp
    simp only [fv, hfS Sp hSp]
  have hD : ∀ Sp ∈ prfs, ((m : Int) - ((Sp.1.map (Nat.cast : ℕ → Int)).length : Int)).toNat = m - Sp.1.length := by
    intro Sp _
    rw [List.length_map]; omega
  rw [prss_zero_loops (p : Int) m i _ n fv]
  · congr 1
    unfold prssZero vec
    apply List.map_congr_left
    intro h hh
    have hh' : h < n := by simpa using hh
    rw [List.length_map]
    have := prss_entry_eq p prfs
      (fun Sp => zeroY Sp.2 h (m - Sp.1.length) ((i : Int) + 1) * fSi (intModP p) m i Sp.1)
    have hfold : prfs.foldl (fun acc (Sp : List ℕ × List Int) => (intModP p).add acc ((intModP p).mul
          (horner (intModP p) ((Sp.2.drop (h * (m - Sp.1.length))).take (m - Sp.1.length)) ((intModP p).ofNat (i + 1)))
          (fSi (intModP p) m i Sp.1))) (intModP p).zero
        = prfs.foldl (fun acc x => (intModP p).add acc
          ((fun Sp : List ℕ × List Int =>
            zeroY Sp.2 h (m - Sp.1.length) ((i : Int) + 1) * fSi (intModP p) m i Sp.1) x % (p : Int))) 0 := by
      apply List.foldl_ext
      intro acc Sp hSp
      congr 1
      show (_ * _) % (p : Int) = _
      apply emod_eq_of_cast
      rw [Int.cast_mul, Int.cast_mul]
      congr 1
      have hl : (h + 1) * (m - Sp.1.length) ≤ Sp.2.length := by
        have := hlen Sp hSp
        have : (h + 1) * (m - Sp.1.length) ≤ n * (m - Sp.1.length) := Nat.mul_le_mul_right _ hh'
        omega
      exact (zeroY_cast p Sp.2 h (m - Sp.1.length) i hl).symm
    rw [hfold, ← this]
    congr 1
    apply Finset.sum_congr rfl
    intro k hk
    have hk' : k < prfs.length := by simpa using hk
    simp only [List.getD_eq_getElem?_getD, List.getElem?_map, List.getElem?_eq_getElem hk', Option.map_some,
      Option.getD_some]
    rw [hfv _ (List.getElem_mem hk'), hD _ (List.getElem_mem hk')]
  · intro Sp hSp
    obtain ⟨Sp0, h0, rfl⟩ := List.mem_map.1 hSp
    simp only [fv, hfS Sp0 h0]
  · intro Sp hSp
    obtain ⟨Sp0, h0, rfl⟩ := List.mem_map.1 hSp
    have := hS Sp0 h0
    simp only [List.length_map]; omega
  · intro Sp hSp
    obtain ⟨Sp0, h0, rfl⟩ := List.mem_map.1 hSp
    rw [hD Sp0 h0]
    exact hlen Sp0 h0

end model

end MpycV.Thresha
