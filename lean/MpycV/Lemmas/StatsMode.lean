/-
Lemmas for C34 (statistics): `mode` returns the first element with maximal multiplicity.
Core Lean only.
-/
import MpycV.Lemmas.StatsBase
namespace MpycV.Stats

/-! ### (i) listMin / listMax -/

theorem foldl_min_le (x : List Int) (i : Int) :
    x.foldl min i ≤ i ∧ ∀ a ∈ x, x.foldl min i ≤ a := by
  induction x generalizing i with
  | nil => simp
  | cons b l ih =>
    simp only [List.foldl_cons, List.mem_cons]
    obtain ⟨h1, h2⟩ := ih (min i b)
    refine ⟨by omega, ?_⟩
    intro a ha
    rcases ha with rfl | ha
    · omega
    · exact h2 a ha

theorem foldl_min_mem (x : List Int) (i : Int) :
    x.foldl min i = i ∨ x.foldl min i ∈ x := by
  induction x generalizing i with
  | nil => simp
  | cons b l ih =>
    simp only [List.foldl_cons, List.mem_cons]
    rcases ih (min i b) with h | h
    · rw [h]; rcases Int.min_def i b ▸ (by split <;> simp : (if i ≤ b then i else b) = i ∨ (if i ≤ b then i else b) = b) with h' | h'
      · exact .inl h'
      · exact .inr (.inl h')
    · exact .inr (.inr h)

theorem foldl_max_ge (x : List Int) (i : Int) :
    i ≤ x.foldl max i ∧ ∀ a ∈ x, a ≤ x.foldl max i := by
  induction x generalizing i with
  | nil => simp
  | cons b l ih =>
    simp only [List.foldl_cons, List.mem_cons]
    obtain ⟨h1, h2⟩ := ih (max i b)
    refine ⟨by omega, ?_⟩
    intro a ha
    rcases ha with rfl | ha
    · omega
    · exact h2 a ha

theorem foldl_max_mem (x : List Int) (i : Int) :
    x.foldl max i = i ∨ x.foldl max i ∈ x := by
  induction x generalizing i with
  | nil => simp
  | cons b l ih =>
    simp only [List.foldl_cons, List.mem_cons]
    rcases ih (max i b) with h | h
    · rw [h]; rcases Int.max_def i b ▸ (by split <;> simp : (if i ≤ b then b else i) = i ∨ (if i ≤ b then b else i) = b) with h' | h'
      · exact .inl h'
      · exact .inr (.inl h')
    · exact .inr (.inr h)

theorem listMin_le {x : List Int} {a : Int} (ha : a ∈ x) : listMin x ≤ a :=
  (foldl_min_le x _).2 a ha

theorem le_listMax {x : List Int} {a : Int} (ha : a ∈ x) : a ≤ listMax x :=
  (foldl_max_ge x _).2 a ha

theorem listMin_mem {x : List Int} (hx : x ≠ []) : listMin x ∈ x := by
  cases x with
  | nil => exact absurd rfl hx
  | cons h t =>
    rcases foldl_min_mem (h :: t) h with e | e
    · simp only [listMin, List.headD_cons]; rw [e]; simp
    · exact e

theorem listMax_mem {x : List Int} (hx : x ≠ []) : listMax x ∈ x := by
  cases x with
  | nil => exact absurd rfl hx
  | cons h t =>
    rcases foldl_max_mem (h :: t) h with e | e
    · simp only [listMax, List.headD_cons]; rw [e]; simp
    · exact e

/-! ### (ii) the revealed bit length -/

theorem lt_two_pow_modeE (priv d l : Nat) (h : d < 2 ^ l) : d < 2 ^ modeE priv d l := by
  induction l with
  | zero => simpa [modeE] using h
  | succ e ih =>
    unfold modeE
    split
    · rename_i hc
      apply ih
      apply Nat.lt_pow_two_of_testBit
      intro i hi
      rcases Nat.lt_or_ge e i with h' | h'
      · exact Nat.testBit_lt_two_pow (Nat.lt_of_lt_of_le h (Nat.pow_le_pow_right (by omega) h'))
      · have : i = e := by omega
        subst this; simpa using hc.2
    · exact h

/-! ### (iv) `_argmax` returns the first position with maximal key -/

/-- `r = (i, p)` is the first position of `x` with maximal key `.1`, `p` the entry there -/
def FirstArgmax (x : List (Int × Int)) (r : Nat × (Int × Int)) : Prop :=
  x[r.1]? = some r.2 ∧ (∀ (j : Nat) (p : Int × Int), x[j]? = some p → p.1 ≤ r.2.1) ∧
    (∀ (j : Nat) (p : Int × Int), j < r.1 → x[j]? = some p → p.1 < r.2.1)

theorem argmaxPairs_spec (fuel : Nat) (x : List (Int × Int)) (hne : x ≠ [])
    (hf : x.length ≤ fuel) : FirstArgmax x (argmaxPairs fuel x) := by
  induction fuel generalizing x with
  | zero =>
    have : x.length = 0 := by omega
    exact absurd (List.length_eq_zero_iff.mp this) hne
  | succ fuel ih =>
    have hpos : 0 < x.length := List.length_pos_iff.mpr hne
    unfold argmaxPairs
    simp only
    split
    · -- n = 1
      rename_i h1
      have hlen : x.length = 1 := by omega
      obtain ⟨p, rfl⟩ := List.length_eq_one_iff.mp hlen
      refine ⟨by simp, ?_, ?_⟩
      · intro j q hq
        cases j with
        | zero => simp at hq; simp [← hq]
        | succ j => simp at hq
      · intro j q hj; simp at hj
    · rename_i h1
      have hk0 : 0 < x.length / 2 := by omega
      have hk1 : x.length / 2 < x.length := by omega
      have ih0 := ih (x.take (x.length / 2))
        (by intro h; have := congrArg List.length h
            simp only [List.length_take, List.length_nil] at this; omega)
        (by simp only [List.length_take]; omega)
      have ih1 := ih (x.drop (x.length / 2))
        (by intro h; have := congrArg List.length h
            simp only [List.length_drop, List.length_nil] at this; omega)
        (by simp only [List.length_drop]; omega)
      generalize argmaxPairs fuel (x.take (x.length / 2)) = r0 at ih0
      generalize argmaxPairs fuel (x.drop (x.length / 2)) = r1 at ih1
      obtain ⟨i0, max0⟩ := r0
      obtain ⟨i1, max1⟩ := r1
      obtain ⟨a0, b0, c0⟩ := ih0
      obtain ⟨a1, b1, c1⟩ := ih1
      simp only at a0 b0 c0 a1 b1 c1 ⊢
      have hi0 : i0 < x.length / 2 := by
        have := (List.getElem?_eq_some_iff.mp a0).1; simp at this; omega
      rw [List.getElem?_take] at a0
      simp only [hi0, if_true] at a0
      rw [List.getElem?_drop] at a1
      have key0 : ∀ j p, j < x.length / 2 → x[j]? = some p → p.1 ≤ max0.1 := by
        intro j p hj hp
        apply b0 j p; rw [List.getElem?_take]; simp [hj, hp]
      have key1 : ∀ j p, x.length / 2 ≤ j → x[j]? = some p → p.1 ≤ max1.1 := by
        intro j p hj hp
        apply b1 (j - x.length / 2) p; rw [List.getElem?_drop]
        rw [← hp]; congr 1; omega
      split
      · rename_i hlt
        refine ⟨?_, ?_, ?_⟩
        · simp only; rw [← a1]; congr 1; omega
        · intro j p hp
          simp only
          rcases Nat.lt_or_ge j (x.length / 2) with hj | hj
          · have := key0 j p hj hp; omega
          · exact key1 j p hj hp
        · intro j p hj hp
          simp only at hj ⊢
          rcases Nat.lt_or_ge j (x.length / 2) with hj' | hj'
          · have := key0 j p hj' hp; omega
          · apply c1 (j - x.length / 2) p (by omega)
            rw [List.getElem?_drop, ← hp]; congr 1; omega
      · rename_i hlt
        refine ⟨a0, ?_, ?_⟩
        · intro j p hp
          simp only
          rcases Nat.lt_or_ge j (x.length / 2) with hj | hj
          · exact key0 j p hj hp
          · have := key1 j p hj hp; omega
        · intro j p hj hp
          simp only at hj ⊢
          apply c0 j p hj
          rw [List.getElem?_take]; simp [show j < x.length / 2 by omega, hp]

/-! ### (iii) unit vectors, histogram, counts -/

theorem inProd_zero_left (u w : List Int) (hu : ∀ c ∈ u, c = 0) : inProd u w = 0 := by
  induction u generalizing w with
  | nil => simp
  | cons c u ih =>
    cases w with
    | nil => simp
    | cons d w =>
      rw [inProd_cons, ih w (fun c hc => hu c (List.mem_cons_of_mem _ hc)),
        hu c List.mem_cons_self]; omega

/-- inner product with an indicator vector selects an entry -/
theorem inProd_indicator (u w : List Int) (a : Nat) (ha : a < u.length)
    (hlen : u.length = w.length)
    (hu : ∀ i, i < u.length → u[i]? = some (if i = a then (1 : Int) else 0)) :
    inProd u w = w.getD a 0 := by
  induction u generalizing w a with
  | nil => simp at ha
  | cons c u ih =>
    cases w with
    | nil => simp at hlen
    | cons d w =>
      rw [inProd_cons]
      cases a with
      | zero =>
        have hc : c = 1 := by have := hu 0 (by simp); simpa using this
        have hz : ∀ c' ∈ u, c' = 0 := by
          intro c' hc'
          obtain ⟨i, hi, rfl⟩ := List.mem_iff_getElem.mp hc'
          have := hu (i + 1) (by simp; omega)
          simpa [List.getElem?_eq_getElem hi] using this
        rw [inProd_zero_left u w hz, hc]; simp
      | succ a =>
        have hc : c = 0 := by have := hu 0 (by simp); simpa using this
        have := ih w a (by simpa using ha) (by simpa using hlen) (by
          intro i hi
          have := hu (i + 1) (by simp; omega)
          simpa using this)
        rw [this, hc]; simp

theorem inProd_unitVec (a n : Nat) (w : List Int) (ha : a < n) (hw : w.length = n) :
    inProd (unitVec a n) w = w.getD a 0 :=
  inProd_indicator _ w a (by simpa using ha) (by simp [hw])
    (fun i hi => getElem?_unitVec_lt a n i ha (by simpa using hi))

theorem getElem?_vectorAdd_unitVec (w : List Int) (a n k : Nat) (hw : w.length = n)
    (ha : a < n) (hk : k < n) :
    (vectorAdd w (unitVec a n))[k]? = some (w.getD k 0 + if k = a then 1 else 0) := by
  unfold vectorAdd
  rw [List.getElem?_zipWith, getElem?_unitVec_lt a n k ha hk]
  have : k < w.length := by omega
  simp [List.getElem?_eq_getElem this, List.getD_eq_getElem?_getD]

/-- `reduce(vector_add, [unit_vector(a, n) for a in as])` is the histogram of `as` -/
theorem foldl_vectorAdd_unitVec (as : List Nat) (n : Nat) (w : List Int) (hw : w.length = n)
    (has : ∀ a ∈ as, a < n) :
    ((as.map (unitVec · n)).foldl vectorAdd w).length = n ∧
    ∀ k, k < n → ((as.map (unitVec · n)).foldl vectorAdd w).getD k 0 = w.getD k 0 + as.count k := by
  induction as generalizing w with
  | nil => simp [hw]
  | cons a as ih =>
    simp only [List.map_cons, List.foldl_cons]
    have ha : a < n := has a List.mem_cons_self
    obtain ⟨h1, h2⟩ := ih (vectorAdd w (unitVec a n)) (by simp [hw])
      (fun b hb => has b (List.mem_cons_of_mem _ hb))
    refine ⟨h1, ?_⟩
    intro k hk
    rw [h2 k hk, List.getD_eq_getElem?_getD, getElem?_vectorAdd_unitVec w a n k hw ha hk,
      List.count_cons]
    simp only [Option.getD_some]
    by_cases h : k = a
    · subst h; simp; omega
    · have h' : ¬ a = k := fun e => h e.symm
      simp [h, h']

theorem count_map_of_injOn (x : List Int) (g : Int → Nat) (a : Int)
    (hinj : ∀ b ∈ x, g b = g a → b = a) : (x.map g).count (g a) = x.count a := by
  unfold List.count
  rw [List.countP_map]
  apply List.countP_congr
  intro b hb
  simp only [Function.comp, beq_iff_eq]
  exact ⟨hinj b hb, fun h => by rw [h]⟩

/-! ### (v) assembly -/

theorem ne_of_lt_idxOf (x : List Int) (v b : Int) (i : Nat) (hi : i < x.idxOf v)
    (hb : x[i]? = some b) : b ≠ v := by
  induction x generalizing i with
  | nil => simp at hb
  | cons h t ih =>
    rw [List.idxOf_cons] at hi
    by_cases hv : h = v
    · simp [hv] at hi
    · have hv' : (h == v) = false := by simpa using hv
      rw [hv'] at hi
      simp only [cond_false] at hi
      cases i with
      | zero => simp at hb; rw [← hb]; exact hv
      | succ i => exact ih i (by omega) (by simpa using hb)

theorem idxOf_le_of_getElem? (x : List Int) (v : Int) (i : Nat) (hv : x[i]? = some v) :
    x.idxOf v ≤ i := by
  rcases Nat.lt_or_ge i (x.idxOf v) with h | h
  · exact absurd rfl (ne_of_lt_idxOf x v v i h hv)
  · exact h

/-- `counts[i]` is the multiplicity of `x[i]` in `x` -/
theorem mode_counts (x : List Int) (m : Int) (n : Nat) (hm : ∀ a ∈ x, m ≤ a)
    (hn : ∀ a ∈ x, (a - m).toNat < n) :
    (x.map (fun a => unitVec (a - m).toNat n)).map
      (fun ui => inProd ui ((x.map (fun a => unitVec (a - m).toNat n)).foldl vectorAdd
        (List.replicate n 0))) = x.map (fun a => (x.count a : Int)) := by
  have hu : x.map (fun a => unitVec (a - m).toNat n)
      = (x.map (fun a => (a - m).toNat)).map (unitVec · n) := by
    rw [List.map_map]; rfl
  obtain ⟨h1, h2⟩ := foldl_vectorAdd_unitVec (x.map (fun a => (a - m).toNat)) n
    (List.replicate n 0) (by simp) (by
      intro a ha
      obtain ⟨b, hb, rfl⟩ := List.mem_map.mp ha
      exact hn b hb)
  rw [← hu] at h1 h2
  generalize (x.map (fun a => unitVec (a - m).toNat n)).foldl vectorAdd (List.replicate n 0)
    = freqs at h1 h2
  rw [List.map_map]
  apply List.map_congr_left
  intro a ha
  simp only [Function.comp]
  rw [inProd_unitVec _ n freqs (hn a ha) h1, h2 _ (hn a ha),
    count_map_of_injOn x (fun a => (a - m).toNat) a]
  · simp [List.getD_eq_getElem?_getD, hn a ha]
  · intro b hb hbe
    have := hm a ha; have := hm b hb
    omega

/-- the argmax step of `_mode`, on the pairs `[count(x_i), x_i]` -/
theorem mode_argmax (x : List Int) (hx : x ≠ []) :
    ∃ v, (argmaxPairs x.length (List.zip (x.map (fun a => (x.count a : Int))) x)).2.2 = v ∧
      v ∈ x ∧ (∀ b ∈ x, x.count b ≤ x.count v) ∧
      (∀ i, i < x.idxOf v → ∀ b, x[i]? = some b → x.count b < x.count v) := by
  have hspec := argmaxPairs_spec x.length (List.zip (x.map (fun a => (x.count a : Int))) x)
    (by intro h; have := congrArg List.length h; simp at this; exact hx this)
    (by simp)
  generalize argmaxPairs x.length (List.zip (x.map (fun a => (x.count a : Int))) x) = r at hspec
  obtain ⟨i, c, v⟩ := r
  obtain ⟨h1, h2, h3⟩ := hspec
  simp only at h1 h2 h3
  rw [List.getElem?_zip_eq_some] at h1
  obtain ⟨hc, hv⟩ := h1
  simp only at hc hv
  have hpair : ∀ (j : Nat) (b : Int), x[j]? = some b →
      (List.zip (x.map (fun a => (x.count a : Int))) x)[j]? = some ((x.count b : Int), b) := by
    intro j b hb
    rw [List.getElem?_zip_eq_some]; simp [hb]
  have hcv : c = (x.count v : Int) := by
    rw [List.getElem?_map, hv] at hc; simpa using hc.symm
  subst hcv
  refine ⟨v, rfl, List.mem_of_getElem? hv, ?_, ?_⟩
  · intro b hb
    obtain ⟨j, hj⟩ := List.getElem?_of_mem hb
    have := h2 j _ (hpair j b hj)
    simp only at this; omega
  · intro j hj b hb
    have hle := idxOf_le_of_getElem? x v i hv
    have := h3 j _ (by omega) (hpair j b hb)
    simp only at this; omega

theorem mode_empty (l priv : Nat) : modeInt l priv [] = .error "StatisticsError" := rfl

/-- `mode` returns the first element of `x` with maximal multiplicity -/
theorem mode_spec (l priv : Nat) (x : List Int) (hx : x ≠ [])
    (hrange : listMax x - listMin x < 2 ^ l) :
    ∃ v, modeInt l priv x = .ok v ∧ v ∈ x ∧ (∀ b ∈ x, x.count b ≤ x.count v) ∧
      (∀ i, i < x.idxOf v → ∀ b, x[i]? = some b → x.count b < x.count v) := by
  have hmM : listMin x ≤ listMax x := Int.le_trans (listMin_le (listMin_mem hx)) (le_listMax (listMin_mem hx))
  have hd0 : (listMax x - listMin x).toNat < 2 ^ l := by
    have : ((2 ^ l : Nat) : Int) = (2 : Int) ^ l := by simp
    omega
  have hd := lt_two_pow_modeE priv _ l hd0
  unfold modeInt
  have hne : x.isEmpty = false := by simpa using hx
  simp only [hne, Bool.false_eq_true, if_false]
  split
  · rename_i he
    rw [he] at hd
    have hall : ∀ a ∈ x, a = listMin x := by
      intro a ha
      have := listMin_le ha; have := le_listMax ha; omega
    refine ⟨listMin x, rfl, listMin_mem hx, ?_, ?_⟩
    · intro b hb; rw [hall b hb]; exact Nat.le_refl _
    · intro i hi b hb
      exact absurd (hall b (List.mem_of_getElem? hb)) (ne_of_lt_idxOf x _ b i hi hb)
  · rename_i he
    rw [mode_counts x (listMin x) _ (fun a ha => listMin_le ha)]
    · obtain ⟨v, h1, h2⟩ := mode_argmax x hx
      exact ⟨v, by rw [h1], h2⟩
    · intro a ha
      have := listMin_le ha; have := le_listMax ha
      omega

/-- the first-occurrence clause, phrased with `take` -/
theorem mode_spec_take (l priv : Nat) (x : List Int) (hx : x ≠ [])
    (hrange : listMax x - listMin x < 2 ^ l) :
    ∃ v, modeInt l priv x = .ok v ∧ v ∈ x ∧ (∀ b ∈ x, x.count b ≤ x.count v) ∧
      (∀ b ∈ x.take (x.idxOf v), x.count b < x.count v) := by
  obtain ⟨v, h1, h2, h3, h4⟩ := mode_spec l priv x hx hrange
  refine ⟨v, h1, h2, h3, ?_⟩
  intro b hb
  obtain ⟨i, hi, rfl⟩ := List.mem_take_iff_getElem.mp hb
  have hi' : i < x.length := by omega
  exact h4 i (by omega) _ (List.getElem?_eq_getElem hi')

/-- the three clauses of `mode_spec` determine the value (so `mode_spec` is a full functional
specification: "first element with maximal multiplicity") -/
theorem mode_spec_unique (x : List Int) (v w : Int) (hv : v ∈ x) (hw : w ∈ x)
    (hvmax : ∀ b ∈ x, x.count b ≤ x.count v) (hwmax : ∀ b ∈ x, x.count b ≤ x.count w)
    (hvfirst : ∀ i, i < x.idxOf v → ∀ b, x[i]? = some b → x.count b < x.count v)
    (hwfirst : ∀ i, i < x.idxOf w → ∀ b, x[i]? = some b → x.count b < x.count w) : v = w := by
  have hiv : x[x.idxOf v]? = some v := by
    rw [List.getElem?_eq_getElem (List.idxOf_lt_length_of_mem hv), List.getElem_idxOf]
  have hiw : x[x.idxOf w]? = some w := by
    rw [List.getElem?_eq_getElem (List.idxOf_lt_length_of_mem hw), List.getElem_idxOf]
  have h1 := hvmax w hw
  have h2 := hwmax v hv
  rcases Nat.lt_trichotomy (x.idxOf v) (x.idxOf w) with h | h | h
  · have := hwfirst _ h v hiv; omega
  · rw [h, hiw] at hiv; exact (Option.some.inj hiv).symm
  · have := hvfirst _ h w hiw; omega

/-! ### sanity checks -/

-- hypotheses of `mode_spec` are satisfiable on a non-trivial input (ties: 3 and 1 both occur twice)
example : ([3, 1, 3, 1, 2] : List Int) ≠ [] ∧
    listMax [3, 1, 3, 1, 2] - listMin [3, 1, 3, 1, 2] < 2 ^ 8 := by decide

example : modeInt 8 0 [3, 1, 3, 1, 2] = .ok 3 := by rfl
example : modeInt 8 1 [5, 5, 5] = .ok 5 := by rfl
example : modeInt 4 2 [-2, 7, 7, -2, 0] = .ok (-2) := by rfl

end MpycV.Stats
