/-
Compaction loop of `_quickselect` (statistics.py:326-344), C34.

`compact z (z * x) s` for a 0/1 vector `z` with `s` ones returns the sublist of `x` at the positions where
`z = 1`, rotated right by one position (the element with prefix count `j` lands on slot `j mod s`).
Core Lean only.
-/
import MpycV.Lemmas.StatsSort
namespace MpycV.Stats

/-- the sublist of `x` at the positions where `z = 1` -/
def sel (z x : List Int) : List Int := ((List.zip z x).filter (fun p => p.1 = 1)).map (·.2)

@[simp] theorem sel_nil_left (x : List Int) : sel [] x = [] := by simp [sel]
@[simp] theorem sel_nil_right (z : List Int) : sel z [] = [] := by simp [sel]
@[simp] theorem sel_cons_one (z x : List Int) (a : Int) : sel (1 :: z) (a :: x) = a :: sel z x := by
  simp [sel]
@[simp] theorem sel_cons_zero (z x : List Int) (a : Int) : sel (0 :: z) (a :: x) = sel z x := by
  simp [sel]

/-- rotate right by one: last element to the front -/
def rotR (l : List Int) : List Int :=
  match l.getLast? with
  | none => []
  | some a => a :: l.dropLast

@[simp] theorem rotR_nil : rotR [] = [] := rfl
@[simp] theorem rotR_concat (l : List Int) (a : Int) : rotR (l ++ [a]) = a :: l := by
  simp [rotR]

theorem rotR_perm (l : List Int) : (rotR l).Perm l := by
  rcases List.eq_nil_or_concat l with rfl | ⟨l', a, rfl⟩
  · exact List.Perm.refl _
  · rw [List.concat_eq_append, rotR_concat]
    exact (List.perm_append_comm (l₁ := [a]) (l₂ := l'))

@[simp] theorem length_rotR (l : List Int) : (rotR l).length = l.length := (rotR_perm l).length_eq

/-! ### vector helpers -/

theorem vectorAdd_zeros (w : List Int) : vectorAdd w (List.replicate w.length 0) = w := by
  induction w with
  | nil => rfl
  | cons a w ih =>
    simp only [List.length_cons, List.replicate_succ, vectorAdd, List.zipWith_cons_cons] at ih ⊢
    rw [ih]; simp

theorem vectorAdd_append {a b c d : List Int} (h : a.length = c.length) :
    vectorAdd (a ++ b) (c ++ d) = vectorAdd a c ++ vectorAdd b d := by
  unfold vectorAdd; exact List.zipWith_append h

theorem unitVec_of_lt {a m : Nat} (h : a < m) :
    unitVec a m = List.replicate a 0 ++ 1 :: List.replicate (m - 1 - a) 0 := by
  apply List.ext_getElem?
  intro k
  by_cases hk : k < m
  · rw [getElem?_unitVec_lt a m k h hk, List.getElem?_append, List.getElem?_cons,
      List.getElem?_replicate, List.getElem?_replicate]
    simp only [List.length_replicate]
    split <;> split <;> (try split) <;> (try split) <;> first | rfl | omega
  · have h1 : (unitVec a m).length ≤ k := by simp; omega
    rw [List.getElem?_eq_none h1, List.getElem?_eq_none]
    simp only [List.length_append, List.length_cons, List.length_replicate]; omega

theorem unitVec_self {m : Nat} (h : 0 < m) : unitVec m m = 1 :: List.replicate (m - 1) 0 := by
  apply List.ext_getElem?
  intro k
  by_cases hk : k < m
  · rw [getElem?_unitVec m m k hk, List.getElem?_cons, List.getElem?_replicate]
    simp only [if_true]
    split <;> (try split) <;> first | rfl | omega
  · have h1 : (unitVec m m).length ≤ k := by simp; omega
    rw [List.getElem?_eq_none h1, List.getElem?_eq_none]
    simp; omega

theorem map_mul_unitVec_zero (a m : Nat) {v : Int} (hv : v = 0) :
    (unitVec a m).map (v * ·) = List.replicate m 0 := by
  subst hv
  rw [List.eq_replicate_iff]
  refine ⟨by simp, ?_⟩
  intro b hb
  rw [List.mem_map] at hb
  obtain ⟨c, _, rfl⟩ := hb
  simp

/-! ### the loop invariant -/

/-- contents of `w` after the values `t` (in order) have been placed: slot 0 stays empty until the
`s`-th value arrives (which wraps around to slot 0), value number `j` sits on slot `j` -/
def slots (s : Nat) (t : List Int) : List Int :=
  if t.length < s then 0 :: t ++ List.replicate (s - 1 - t.length) 0 else rotR t

theorem length_slots {s : Nat} {t : List Int} (_hs : 0 < s) (h : t.length ≤ s) :
    (slots s t).length = s := by
  unfold slots
  split
  · simp; omega
  · simp; omega

/-- `z[i] = 0` (so `zx[i] = 0`): nothing changes, whatever the unit vector -/
theorem step_zero {s : Nat} {t : List Int} (hs : 0 < s) (h : t.length ≤ s) (a i : Nat)
    {v : Int} (hv : v = 0) :
    vectorAdd (slots s t)
      ((unitVec a (min (i + 2) s)).map (v * ·) ++ List.replicate (s - min (i + 2) s) 0)
      = slots s t := by
  rw [map_mul_unitVec_zero _ _ hv, List.replicate_append_replicate]
  have : min (i + 2) s + (s - min (i + 2) s) = (slots s t).length := by
    rw [length_slots hs h]; omega
  rw [this, vectorAdd_zeros]

/-- `z[i] = 1`: the value goes to slot `j = |t| + 1`, or to slot 0 if `j = s` -/
theorem step_one {s : Nat} {t : List Int} {i : Nat} (hlt : t.length < s) (hi : t.length ≤ i)
    (a : Int) :
    vectorAdd (slots s t)
      ((unitVec (t.length + 1) (min (i + 2) s)).map (a * ·) ++ List.replicate (s - min (i + 2) s) 0)
      = slots s (t ++ [a]) := by
  by_cases hfull : t.length + 1 = s
  · -- wrap around: `m = s`, `unit_vector(s, s)` has its 1 at position 0
    have hm : min (i + 2) s = s := by omega
    rw [hm, hfull, unitVec_self (by omega)]
    have h1 : slots s t = 0 :: t := by
      unfold slots; rw [if_pos hlt]
      have : s - 1 - t.length = 0 := by omega
      simp [this]
    have h2 : slots s (t ++ [a]) = a :: t := by
      unfold slots; rw [if_neg (by simp; omega), rotR_concat]
    rw [h1, h2]
    simp only [List.map_cons, List.map_replicate, Int.mul_one, Int.mul_zero, Nat.sub_self,
      List.replicate_zero, List.append_nil]
    have := vectorAdd_zeros t
    have hl : s - 1 = t.length := by omega
    simp only [vectorAdd, List.zipWith_cons_cons, hl] at this ⊢
    rw [this]; simp
  · have hlt2 : t.length + 1 < s := by omega
    have hm : t.length + 1 < min (i + 2) s := by omega
    rw [unitVec_of_lt hm]
    have h1 : slots s t = (0 :: t) ++ (0 :: List.replicate (s - 2 - t.length) 0) := by
      unfold slots; rw [if_pos hlt]
      have : s - 1 - t.length = (s - 2 - t.length) + 1 := by omega
      rw [this, List.replicate_succ]
    have h2 : slots s (t ++ [a]) = (0 :: t) ++ (a :: List.replicate (s - 2 - t.length) 0) := by
      unfold slots; rw [if_pos (by simp; omega)]
      have : s - 1 - (t ++ [a]).length = s - 2 - t.length := by simp; omega
      rw [this]; simp
    have h3 : (List.replicate (t.length + 1) (0 : Int) ++
          1 :: List.replicate (min (i + 2) s - 1 - (t.length + 1)) 0).map (a * ·)
          ++ List.replicate (s - min (i + 2) s) 0
        = List.replicate (0 :: t).length 0 ++ (a :: List.replicate (s - 2 - t.length) 0) := by
      simp only [List.map_append, List.map_cons, List.map_replicate, Int.mul_one, Int.mul_zero,
        List.append_assoc, List.cons_append, List.replicate_append_replicate, List.length_cons]
      have : min (i + 2) s - 1 - (t.length + 1) + (s - min (i + 2) s) = s - 2 - t.length := by omega
      rw [this]
    rw [h1, h2, h3, vectorAdd_append (by simp), vectorAdd_zeros]
    congr 1
    have := vectorAdd_zeros (List.replicate (s - 2 - t.length) (0 : Int))
    simp only [List.length_replicate] at this
    simp only [vectorAdd, List.zipWith_cons_cons] at this ⊢
    rw [this]; simp

theorem compactLoop_inv (s : Nat) (hs : 0 < s) :
    ∀ (zs xs : List Int) (i : Nat) (t : List Int), (∀ a ∈ zs, a = 0 ∨ a = 1) → t.length ≤ i →
      t.length + (sel zs xs).length ≤ s →
      compactLoop s zs (List.zipWith (· * ·) zs xs) i (t.length : Int) (slots s t)
        = slots s (t ++ sel zs xs) := by
  intro zs
  induction zs with
  | nil => intro xs i t _ _ _; simp [compactLoop]
  | cons zi zs ih =>
    intro xs i t h01 hi hlen
    cases xs with
    | nil => simp [compactLoop]
    | cons xi xs =>
      have hz : ∀ a ∈ zs, a = 0 ∨ a = 1 := fun a ha => h01 a (List.mem_cons_of_mem _ ha)
      rcases h01 zi List.mem_cons_self with rfl | rfl
      · rw [sel_cons_zero] at hlen ⊢
        simp only [List.zipWith_cons_cons, compactLoop, Int.add_zero]
        rw [step_zero hs (by omega) _ _ (Int.zero_mul xi)]
        exact ih xs (i + 1) t hz (by omega) hlen
      · rw [sel_cons_one] at hlen ⊢
        simp only [List.length_cons] at hlen
        simp only [List.zipWith_cons_cons, compactLoop, Int.one_mul]
        have hj : ((t.length : Int) + 1).toNat = t.length + 1 := by omega
        rw [hj, step_one (by omega) hi]
        have := ih xs (i + 1) (t ++ [xi]) hz (by simp; omega) (by simp; omega)
        simp only [List.length_append, List.length_singleton, Int.natCast_add, Int.cast_ofNat_Int,
          List.append_assoc, List.singleton_append] at this
        exact this

/-- **Compaction**: the loop returns the selected sublist rotated right by one -/
theorem compact_eq_rotR (z x : List Int) (h01 : ∀ a ∈ z, a = 0 ∨ a = 1) (hpos : 0 < (sel z x).length) :
    compact z (List.zipWith (· * ·) z x) (sel z x).length = rotR (sel z x) := by
  have := compactLoop_inv (sel z x).length hpos z x 0 [] h01 (by simp) (by simp)
  simp only [List.length_nil, Int.natCast_zero, List.nil_append] at this
  unfold compact
  have h0 : slots (sel z x).length [] = List.replicate (sel z x).length 0 := by
    unfold slots
    rw [if_pos (by simpa using hpos)]
    simp only [List.length_nil, Nat.sub_zero, List.singleton_append]
    rw [← List.replicate_succ]; congr 1; omega
  rw [← h0, this]
  unfold slots
  rw [if_neg (by omega)]

/-! ### counting, complement -/

theorem length_sel (z x : List Int) (h01 : ∀ a ∈ z, a = 0 ∨ a = 1) (hlen : z.length ≤ x.length) :
    ((sel z x).length : Int) = isum z := by
  induction z generalizing x with
  | nil => simp
  | cons zi z ih =>
    cases x with
    | nil => simp at hlen
    | cons xi x =>
      have hz : ∀ a ∈ z, a = 0 ∨ a = 1 := fun a ha => h01 a (List.mem_cons_of_mem _ ha)
      have := ih x hz (by simpa using hlen)
      rcases h01 zi List.mem_cons_self with rfl | rfl
      · rw [sel_cons_zero, isum_cons]; omega
      · rw [sel_cons_one, isum_cons, List.length_cons]; omega

theorem compl_01 {z : List Int} (h01 : ∀ a ∈ z, a = 0 ∨ a = 1) :
    ∀ a ∈ z.map (1 - ·), a = 0 ∨ a = 1 := by
  intro a ha
  rw [List.mem_map] at ha
  obtain ⟨b, hb, rfl⟩ := ha
  rcases h01 b hb with rfl | rfl <;> simp

/-- the selected sublist and the complementary one partition `x` -/
theorem perm_sel_compl (z x : List Int) (h01 : ∀ a ∈ z, a = 0 ∨ a = 1) (hlen : z.length = x.length) :
    x.Perm (sel z x ++ sel (z.map (1 - ·)) x) := by
  induction z generalizing x with
  | nil => cases x with
    | nil => simp
    | cons _ _ => simp at hlen
  | cons zi z ih =>
    cases x with
    | nil => simp at hlen
    | cons xi x =>
      have hz : ∀ a ∈ z, a = 0 ∨ a = 1 := fun a ha => h01 a (List.mem_cons_of_mem _ ha)
      have := ih x hz (by simpa using hlen)
      rcases h01 zi List.mem_cons_self with rfl | rfl
      · simp only [List.map_cons, Int.sub_zero, sel_cons_zero, sel_cons_one]
        exact (List.Perm.cons xi this).trans List.perm_middle.symm
      · simp only [List.map_cons, Int.sub_self, sel_cons_zero, sel_cons_one, List.cons_append]
        exact List.Perm.cons xi this

/-- `x[i] - zx[i] = (1 - z[i]) * x[i]`: the right part is the same compaction on the complement -/
theorem sub_schur (z x : List Int) :
    List.zipWith (· - ·) x (List.zipWith (· * ·) z x) = List.zipWith (· * ·) (z.map (1 - ·)) x := by
  induction z generalizing x with
  | nil => simp
  | cons zi z ih =>
    cases x with
    | nil => simp
    | cons xi x =>
      simp only [List.zipWith_cons_cons, List.map_cons, ih x]
      congr 1
      rw [Int.sub_mul, Int.one_mul]

/-- **Compaction (D)**, as used by `_quickselect`: `s` = number of ones of `z` -/
theorem compact_perm (z x : List Int) (s : Nat) (h01 : ∀ a ∈ z, a = 0 ∨ a = 1)
    (hlen : z.length = x.length) (hs : s = (isum z).toNat) (hpos : 0 < s) :
    (compact z (List.zipWith (· * ·) z x) s).Perm
      (((List.zip z x).filter (fun p => p.1 = 1)).map (·.2)) := by
  have hl := length_sel z x h01 (by omega)
  have hs' : s = (sel z x).length := by omega
  subst hs'
  rw [compact_eq_rotR z x h01 hpos]
  exact rotR_perm _

example : compact [1, 0, 1, 1] [5, 0, 8, 1] 3 = [1, 5, 8] := by decide
example : compact [0, 1, 0, 0] [0, 3, 0, 0] 1 = [3] := by decide
example : compact [1, 0, 1, 1] (List.zipWith (· * ·) [1, 0, 1, 1] [5, 3, 8, 1]) (sel [1, 0, 1, 1] [5, 3, 8, 1]).length
    = rotR (sel [1, 0, 1, 1] [5, 3, 8, 1]) :=
  compact_eq_rotR _ _ (by decide) (by decide)

end MpycV.Stats
