/-
Lemmas for C29, comparator networks:
* `run_perm`            every comparator network outputs a permutation of its input
* `zero_one_principle`  sorting all 0-1 inputs ⇒ sorting every input over a linear order of keys
* `rowOf_evalCols`      bit-sliced evaluation = the network run on every 0-1 input
* `sorts01_of_sortsAll01`  the kernel-evaluable check `sortsAll01 n net` implies `Sorts01 n net`
-/
import MpycV.Model.Sort
import Mathlib.Order.Defs.LinearOrder
import Mathlib.Order.Basic

namespace MpycV.Sort
variable {α κ : Type}

/-! ### compare-exchange is a permutation -/

theorem perm_cons_set {a b : α} : ∀ (t : List α) (j : Nat), t[j]? = some b →
    (b :: t.set j a).Perm (a :: t)
  | [], j, h => by simp at h
  | y :: t, 0, h => by
      simp only [List.getElem?_cons_zero, Option.some.injEq] at h
      subst h
      simpa using List.Perm.swap a y t
  | y :: t, j + 1, h => by
      simp only [List.getElem?_cons_succ] at h
      simp only [List.set_cons_succ]
      exact ((List.Perm.swap y b _).trans ((perm_cons_set t j h).cons y)).trans (List.Perm.swap a y t)

theorem perm_swap_set : ∀ (x : List α) (i j : Nat) (a b : α), x[i]? = some a → x[j]? = some b →
    ((x.set i b).set j a).Perm x
  | [], i, j, a, b, hi, _ => by simp at hi
  | y :: t, 0, 0, a, b, hi, hj => by
      simp at hi hj; subst hi; subst hj; simp
  | y :: t, 0, j + 1, a, b, hi, hj => by
      simp at hi hj; subst hi
      simpa using perm_cons_set t j hj
  | y :: t, i + 1, 0, a, b, hi, hj => by
      simp at hi hj; subst hj
      simpa using perm_cons_set t i hi
  | y :: t, i + 1, j + 1, a, b, hi, hj => by
      simp at hi hj
      simpa using (perm_swap_set t i j a b hi hj).cons y

theorem set_set_self (x : List α) (i j : Nat) (a b : α) (hi : x[i]? = some a) (hj : x[j]? = some b) :
    (x.set i a).set j b = x := by
  have h1 : x.set i a = x := by
    apply List.ext_getElem?; intro k
    by_cases hk : i = k
    · subst hk; rw [List.getElem?_set]; simp [hi]; exact (List.getElem?_eq_some_iff.mp hi).1
    · rw [List.getElem?_set_ne hk]
  rw [h1]
  apply List.ext_getElem?; intro k
  by_cases hk : j = k
  · subst hk; rw [List.getElem?_set]; simp [hj]; exact (List.getElem?_eq_some_iff.mp hj).1
  · rw [List.getElem?_set_ne hk]

theorem cmpSwap_perm (keep : α → α → Bool) (c : Cmp) (x : List α) : (cmpSwap keep c x).Perm x := by
  unfold cmpSwap
  split
  · rename_i a b hi hj
    cases keep a b
    · simpa using perm_swap_set x c.1 c.2 a b hi hj
    · simp only [if_true]; rw [set_set_self x c.1 c.2 a b hi hj]
  · exact List.Perm.refl x

theorem run_perm (keep : α → α → Bool) (net : Net) (x : List α) : (run keep net x).Perm x := by
  unfold run
  induction net generalizing x with
  | nil => exact List.Perm.refl x
  | cons c net ih => exact (ih _).trans (cmpSwap_perm keep c x)

theorem length_cmpSwap (keep : α → α → Bool) (c : Cmp) (x : List α) : (cmpSwap keep c x).length = x.length :=
  (cmpSwap_perm keep c x).length_eq

theorem length_run (keep : α → α → Bool) (net : Net) (x : List α) : (run keep net x).length = x.length :=
  (run_perm keep net x).length_eq


/-! ### the 0-1 principle -/

/-- `≤` on Bool as a `keep` predicate: the Bool comparator puts `a && b` at `i`, `a || b` at `j` -/
def leB (a b : Bool) : Bool := !a || b

/-- `keep` decides the key order: it may only keep a pair that is in order and only swap one
that is (weakly) out of order.  Holds for `lt` (`_sort`) and for `!(lt b a)` (`np_sort`). -/
def KeepOk [LinearOrder κ] (keep : α → α → Bool) (key : α → κ) : Prop :=
  ∀ a b, (keep a b = true → key a ≤ key b) ∧ (keep a b = false → key b ≤ key a)

theorem sel_map [LinearOrder κ] {keep : α → α → Bool} {key : α → κ} (hk : KeepOk keep key)
    (φ : κ → Bool) (hφ : ∀ k1 k2, k1 ≤ k2 → φ k1 = true → φ k2 = true) (a b : α) :
    φ (key (if keep a b then a else b)) = (if leB (φ (key a)) (φ (key b)) then φ (key a) else φ (key b)) ∧
    φ (key (if keep a b then b else a)) = (if leB (φ (key a)) (φ (key b)) then φ (key b) else φ (key a)) := by
  have h := hk a b
  cases hkab : keep a b
  · have hba := hφ _ _ (h.2 hkab)
    cases ha : φ (key a) <;> cases hb : φ (key b) <;> simp_all [leB]
  · have hab := hφ _ _ (h.1 hkab)
    cases ha : φ (key a) <;> cases hb : φ (key b) <;> simp_all [leB]

theorem map_cmpSwap [LinearOrder κ] {keep : α → α → Bool} {key : α → κ} (hk : KeepOk keep key)
    (φ : κ → Bool) (hφ : ∀ k1 k2, k1 ≤ k2 → φ k1 = true → φ k2 = true) (c : Cmp) (x : List α) :
    (cmpSwap keep c x).map (fun a => φ (key a)) = cmpSwap leB c (x.map (fun a => φ (key a))) := by
  unfold cmpSwap
  simp only [List.getElem?_map]
  cases hi : x[c.1]? with
  | none => simp
  | some a =>
    cases hj : x[c.2]? with
    | none => simp
    | some b =>
      simp only [Option.map_some, List.map_set]
      rw [(sel_map hk φ hφ a b).1, (sel_map hk φ hφ a b).2]

theorem map_run [LinearOrder κ] {keep : α → α → Bool} {key : α → κ} (hk : KeepOk keep key)
    (φ : κ → Bool) (hφ : ∀ k1 k2, k1 ≤ k2 → φ k1 = true → φ k2 = true) (net : Net) (x : List α) :
    (run keep net x).map (fun a => φ (key a)) = run leB net (x.map (fun a => φ (key a))) := by
  unfold run
  induction net generalizing x with
  | nil => rfl
  | cons c net ih =>
    simp only [List.foldl_cons]
    rw [ih, map_cmpSwap hk φ hφ]

/-- a 0-1 list is ascending: no `true` before a `false` -/
def Sorted01 (v : List Bool) : Prop := v.Pairwise (fun a b => a = true → b = true)

/-- the network sorts every 0-1 input of length n -/
def Sorts01 (n : Nat) (net : Net) : Prop := ∀ v : List Bool, v.length = n → Sorted01 (run leB net v)

/-- **0-1 principle**: a comparator network that sorts all 0-1 inputs of length n sorts every input
of length n over any linear order of keys (and the output is a permutation of the input). -/
theorem zero_one_principle [LinearOrder κ] {n : Nat} {net : Net} (h01 : Sorts01 n net)
    {keep : α → α → Bool} {key : α → κ} (hk : KeepOk keep key) (x : List α) (hx : x.length = n) :
    ((run keep net x).map key).Pairwise (· ≤ ·) ∧ (run keep net x).Perm x := by
  refine ⟨?_, run_perm keep net x⟩
  rw [List.pairwise_iff_getElem]
  intro i j hi hj hij
  rw [List.length_map] at hi hj
  simp only [List.getElem_map]
  by_contra hnot
  have hlt : key (run keep net x)[j] < key (run keep net x)[i] := not_le.mp hnot
  -- threshold function separating the two keys
  let φ : κ → Bool := fun k => decide (key (run keep net x)[j] < k)
  have hφ : ∀ k1 k2, k1 ≤ k2 → φ k1 = true → φ k2 = true := by
    intro k1 k2 h12 h1
    simp only [φ, decide_eq_true_eq] at h1 ⊢
    exact lt_of_lt_of_le h1 h12
  have hs := h01 (x.map (fun a => φ (key a))) (by rw [List.length_map, hx])
  rw [← map_run hk φ hφ, Sorted01, List.pairwise_iff_getElem] at hs
  have := hs i j (by rw [List.length_map]; exact hi) (by rw [List.length_map]; exact hj) hij
  simp only [List.getElem_map, φ, decide_eq_true_eq] at this
  exact lt_irrefl _ (this hlt)


/-! ### bit-sliced evaluation -/

/-- input number `m` read off the columns -/
def rowOf (cols : List Nat) (m : Nat) : List Bool := cols.map (fun c => c.testBit m)

theorem bool_and_sel (a b : Bool) : (a && b) = if leB a b then a else b := by
  cases a <;> cases b <;> rfl

theorem bool_or_sel (a b : Bool) : (a || b) = if leB a b then b else a := by
  cases a <;> cases b <;> rfl

theorem rowOf_colStep (c : Cmp) (cols : List Nat) (m : Nat) :
    rowOf (colStep c cols) m = cmpSwap leB c (rowOf cols m) := by
  unfold colStep cmpSwap rowOf
  simp only [List.getElem?_map]
  cases hi : cols[c.1]? with
  | none => simp
  | some a =>
    cases hj : cols[c.2]? with
    | none => simp
    | some b =>
      simp only [Option.map_some, List.map_set, Nat.testBit_and, Nat.testBit_or]
      rw [bool_and_sel, bool_or_sel]

/-- one evaluation over the columns = the network run on every input row -/
theorem rowOf_evalCols (net : Net) (cols : List Nat) (m : Nat) :
    rowOf (evalCols net cols) m = run leB net (rowOf cols m) := by
  unfold evalCols run
  induction net generalizing cols with
  | nil => rfl
  | cons c net ih =>
    simp only [List.foldl_cons]
    rw [ih, rowOf_colStep]

theorem pairwise_cons_cons_of_trans {β : Type} {R : β → β → Prop} (htr : ∀ a b c, R a b → R b c → R a c)
    {a b : β} {l : List β} (hab : R a b) (h : (b :: l).Pairwise R) : (a :: b :: l).Pairwise R := by
  rw [List.pairwise_cons] at h ⊢
  refine ⟨?_, List.pairwise_cons.mpr h⟩
  intro y hy
  rcases List.mem_cons.mp hy with rfl | hy
  · exact hab
  · exact htr _ _ _ hab (h.1 y hy)

theorem sorted01_of_colsSorted : ∀ (cols : List Nat), colsSorted cols = true → ∀ m, Sorted01 (rowOf cols m)
  | [], _, m => by simp [Sorted01, rowOf]
  | [a], _, m => by simp [Sorted01, rowOf]
  | a :: b :: rest, h, m => by
      simp only [colsSorted, Bool.and_eq_true, beq_iff_eq] at h
      have ih := sorted01_of_colsSorted (b :: rest) h.2 m
      unfold Sorted01 rowOf at ih ⊢
      simp only [List.map_cons] at ih ⊢
      refine pairwise_cons_cons_of_trans (fun _ _ _ h1 h2 h => h2 (h1 h)) ?_ ih
      intro ha
      have : (a ||| b).testBit m = b.testBit m := by rw [h.1]
      rw [Nat.testBit_or, ha] at this
      simpa using this.symm

theorem testBit_top {n m : Nat} (h : m < 2 ^ (n + 1)) : m.testBit n = decide (2 ^ n ≤ m) := by
  by_cases hm : 2 ^ n ≤ m
  · obtain ⟨r, rfl⟩ := Nat.exists_eq_add_of_le hm
    have hr : r < 2 ^ n := by rw [Nat.pow_succ] at h; omega
    rw [Nat.testBit_two_pow_add_eq, Nat.testBit_lt_two_pow hr]; simp
  · rw [Nat.testBit_lt_two_pow (by omega)]; simp [hm]

/-- bit `m` of the truth-table column of variable `i` is bit `i` of `m` (rows `m < 2^n`) -/
theorem testBit_varCol : ∀ (n i m : Nat), i < n →
    (varCol n i).testBit m = (decide (m < 2 ^ n) && m.testBit i)
  | 0, i, m, h => by omega
  | n + 1, i, m, h => by
      unfold varCol
      have hp : 2 ^ (n + 1) = 2 ^ n + 2 ^ n := by rw [Nat.pow_succ]; omega
      split
      · rename_i hin
        subst hin
        rw [Nat.testBit_shiftLeft, Nat.one_shiftLeft, Nat.testBit_two_pow_sub_one]
        by_cases hm : m < 2 ^ (i + 1)
        · rw [testBit_top hm]
          by_cases h2 : 2 ^ i ≤ m
          · simp [hm, h2]; omega
          · simp [hm, h2]
        · have : ¬ (m - 2 ^ i < 2 ^ i) := by omega
          simp [hm, this]
      · rename_i hin
        have hi : i < n := by omega
        simp only
        rw [Nat.testBit_or, Nat.testBit_shiftLeft, testBit_varCol n i m hi,
          testBit_varCol n i (m - 2 ^ n) hi]
        by_cases h1 : m < 2 ^ n
        · have h2 : ¬ (m ≥ 2 ^ n) := by omega
          have h3 : m < 2 ^ (n + 1) := by omega
          simp [h1, h2, h3]
        · have h2 : m ≥ 2 ^ n := by omega
          obtain ⟨r, rfl⟩ := Nat.exists_eq_add_of_le h2
          rw [Nat.testBit_two_pow_add_gt hi]
          have e : 2 ^ n + r - 2 ^ n = r := by omega
          rw [e]
          by_cases h3 : r < 2 ^ n
          · have : 2 ^ n + r < 2 ^ (n + 1) := by omega
            simp [h1, h3, this]
          · have : ¬ 2 ^ n + r < 2 ^ (n + 1) := by omega
            simp [h1, h3, this]

theorem rowOf_initCols (n m : Nat) (hm : m < 2 ^ n) :
    rowOf (initCols n) m = (List.range n).map (fun i => m.testBit i) := by
  unfold rowOf initCols
  rw [List.map_map]
  apply List.map_congr_left
  intro i hi
  simp only [Function.comp, testBit_varCol n i m (List.mem_range.mp hi), hm, decide_true, Bool.true_and]

/-- every 0-1 vector of length n is row `m` of the truth table for some `m < 2^n` -/
theorem exists_row : ∀ (v : List Bool), ∃ m, m < 2 ^ v.length ∧ (List.range v.length).map (fun i => m.testBit i) = v
  | [] => ⟨0, by simp, rfl⟩
  | b :: v => by
      obtain ⟨m, hm, hv⟩ := exists_row v
      refine ⟨2 * m + b.toNat, ?_, ?_⟩
      · have : b.toNat ≤ 1 := Bool.toNat_le b
        rw [List.length_cons, Nat.pow_succ]; omega
      · rw [List.length_cons, List.range_succ_eq_map, List.map_cons, List.map_map]
        congr 1
        · cases b <;> simp [Nat.testBit_zero]
        · conv => rhs; rw [← hv]
          apply List.map_congr_left
          intro i _
          simp only [Function.comp, Nat.testBit_succ]
          congr 1
          have : b.toNat ≤ 1 := Bool.toNat_le b
          omega

/-- the kernel-evaluable check implies the semantic statement -/
theorem sorts01_of_sortsAll01 {n : Nat} {net : Net} (h : sortsAll01 n net = true) : Sorts01 n net := by
  intro v hv
  obtain ⟨m, hm, hrow⟩ := exists_row v
  rw [hv] at hm hrow
  rw [← hrow, ← rowOf_initCols n m hm, ← rowOf_evalCols]
  exact sorted01_of_colsSorted _ h m

end MpycV.Sort
