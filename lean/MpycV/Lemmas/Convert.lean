/-
Lemmas for the value layer of secure conversion (model: MpycV.Model.Convert ≙ runtime.py `_convert`,
`trunc`, `_mod`).  Integer arithmetic with explicit reduction mod the field primes; congruences via
`Int.ModEq`.  The property theorems are in MpycV.Props.C06.
-/
import MpycV.Model.Convert
import Mathlib.Data.Int.ModEq
import Mathlib.Tactic.Ring
import Mathlib.Tactic.Linarith

namespace MpycV.Convert

theorem emod_cast (v : Int) {p : Nat} (hp : 0 < p) : ((emod v p : Nat) : Int) = v % (p : Int) := by
  unfold emod
  have : 0 ≤ v % (p : Int) := Int.emod_nonneg _ (by omega)
  omega

theorem emod_lt (v : Int) {p : Nat} (hp : 0 < p) : emod v p < p := by
  have h := emod_cast v hp
  have : v % (p : Int) < p := Int.emod_lt_of_pos _ (by omega)
  omega

theorem emod_modEq (v : Int) {p : Nat} (hp : 0 < p) : ((emod v p : Nat) : Int) ≡ v [ZMOD p] := by
  rw [emod_cast v hp]; exact Int.mod_modEq v p

theorem emod_congr {a b : Int} {p : Nat} (h : a ≡ b [ZMOD p]) : emod a p = emod b p := by
  unfold emod; rw [h]

theorem emod_idem (v : Int) {p : Nat} (hp : 0 < p) : emod ((emod v p : Nat) : Int) p = emod v p :=
  emod_congr (emod_modEq v hp)

theorem emod_of_range {v : Int} {p : Nat} (h0 : 0 ≤ v) (h1 : v < p) : ((emod v p : Nat) : Int) = v := by
  have hp : 0 < p := by omega
  rw [emod_cast v hp]; exact Int.emod_eq_of_lt h0 h1

theorem signed_modEq {p a : Nat} : signed p a ≡ (a : Int) [ZMOD p] := by
  unfold signed; split
  · exact (Int.modEq_iff_dvd.mpr ⟨1, by ring⟩)
  · rfl


/-! ### halving and right shift in Z_p, p odd -/

theorem half_lt {p a : Nat} (hp : p % 2 = 1) (ha : a < p) : half p a < p := by
  unfold half; split <;> omega

theorem two_half {p a : Nat} (hp : p % 2 = 1) : 2 * half p a = a ∨ 2 * half p a = a + p := by
  unfold half; split <;> omega

/-- in Z_p with p odd, doubling is injective on canonical residues -/
theorem double_inj {p h h' : Nat} (hp : p % 2 = 1) (hh : h < p) (hh' : h' < p)
    (e : (2 * (h : Int)) ≡ 2 * (h' : Int) [ZMOD p]) : h = h' := by
  obtain ⟨j, hj⟩ := Int.modEq_iff_dvd.mp e
  have hj1 : j < 2 := by
    by_contra hc
    have : (p : Int) * j ≥ p * 2 := Int.mul_le_mul_of_nonneg_left (by omega) (by omega)
    omega
  have hj2 : -2 < j := by
    by_contra hc
    have : (p : Int) * j ≤ p * (-2) := Int.mul_le_mul_of_nonneg_left (by omega) (by omega)
    omega
  have : j = -1 ∨ j = 0 ∨ j = 1 := by omega
  rcases this with rfl | rfl | rfl <;> omega

theorem half_emod_double (k : Int) {p : Nat} (hp : p % 2 = 1) :
    half p (emod (2 * k) p) = emod k p := by
  have hp0 : 0 < p := by omega
  apply double_inj hp (half_lt hp (emod_lt _ hp0)) (emod_lt _ hp0)
  have h1 : (2 * (half p (emod (2 * k) p) : Int)) ≡ (emod (2 * k) p : Int) [ZMOD p] := by
    rcases two_half (p := p) (a := emod (2 * k) p) hp with h | h
    · have : (2 * (half p (emod (2 * k) p) : Int)) = (emod (2 * k) p : Int) := by exact_mod_cast h
      rw [this]
    · have : (2 * (half p (emod (2 * k) p) : Int)) = (emod (2 * k) p : Int) + p := by exact_mod_cast h
      rw [this]
      exact Int.modEq_iff_dvd.mpr ⟨-1, by ring⟩
  exact h1.trans ((emod_modEq _ hp0).trans ((emod_modEq k hp0).symm.mul_left 2))

theorem shr_emod_pow (k : Int) {p : Nat} (hp : p % 2 = 1) (f : Nat) :
    shr p (emod (2 ^ f * k) p) f = emod k p := by
  induction f generalizing k with
  | zero => simp [shr]
  | succ f ih =>
    have : (2 : Int) ^ (f + 1) * k = 2 * (2 ^ f * k) := by ring
    rw [shr, this, half_emod_double _ hp, ih]

theorem shr_lt {p : Nat} (hp : p % 2 = 1) (f : Nat) {a : Nat} (ha : a < p) : shr p a f < p := by
  induction f generalizing a with
  | zero => simpa [shr]
  | succ f ih => rw [shr]; exact ih (half_lt hp ha)

/-- characterisation of the modelled `>> f`: it is the field element whose product with 2^f is `a` -/
theorem shr_spec {p : Nat} (hp : p % 2 = 1) (f : Nat) {a : Nat} (ha : a < p) :
    ((shr p a f : Nat) : Int) * 2 ^ f ≡ (a : Int) [ZMOD p] := by
  induction f generalizing a with
  | zero => simp [shr]
  | succ f ih =>
    rw [shr]
    have h := ih (half_lt hp ha)
    have h2 : (2 * (half p a : Int)) ≡ (a : Int) [ZMOD p] := by
      rcases two_half (p := p) (a := a) hp with h | h
      · have : (2 * (half p a : Int)) = (a : Int) := by exact_mod_cast h
        rw [this]
      · have : (2 * (half p a : Int)) = (a : Int) + p := by exact_mod_cast h
        rw [this]; exact Int.modEq_iff_dvd.mpr ⟨-1, by ring⟩
    calc ((shr p (half p a) f : Nat) : Int) * 2 ^ (f + 1)
        = 2 * (((shr p (half p a) f : Nat) : Int) * 2 ^ f) := by ring
      _ ≡ 2 * (half p a : Int) [ZMOD p] := h.mul_left 2
      _ ≡ (a : Int) [ZMOD p] := h2


/-! ### trunc -/

theorem floor_neighbour (X : Int) (rm f : Nat) (hm : rm < 2 ^ f) :
    (X + rm) / 2 ^ f = X / 2 ^ f ∨ (X + rm) / 2 ^ f = X / 2 ^ f + 1 := by
  have hD : (0 : Int) < 2 ^ f := by positivity
  have hm' : (rm : Int) < 2 ^ f := by exact_mod_cast hm
  have e := Int.emod_add_mul_ediv X (2 ^ f)
  have r0 := Int.emod_nonneg X (ne_of_gt hD)
  have r1 := Int.emod_lt_of_pos X hD
  have lo : X / 2 ^ f ≤ (X + rm) / 2 ^ f := Int.ediv_le_ediv hD (by omega)
  have hi : (X + rm) / 2 ^ f < X / 2 ^ f + 2 := by
    rw [Int.ediv_lt_iff_lt_mul hD]
    have : (X / 2 ^ f + 2) * 2 ^ f = 2 ^ f * (X / 2 ^ f) + 2 * 2 ^ f := by ring
    rw [this]; omega
  omega

theorem floor_exact (X : Int) (rm f : Nat) (hm : rm < 2 ^ f) (hdvd : (2 : Int) ^ f ∣ X) :
    (X + rm) / 2 ^ f = X / 2 ^ f := by
  have hD : (0 : Int) < 2 ^ f := by positivity
  have hm' : (rm : Int) < 2 ^ f := by exact_mod_cast hm
  obtain ⟨q, rfl⟩ := hdvd
  rw [Int.mul_ediv_cancel_left _ (ne_of_gt hD), Int.add_comm, Int.add_mul_ediv_left _ _ (ne_of_gt hD),
    Int.ediv_eq_zero_of_lt (by omega) hm']
  simp

/-- `trunc` under its no-wrap-around condition: the opened value is the integer
`X + 2^(l-1) + r_modf + r_divf·2^f` and the result is `⌊(X + r_modf) / 2^f⌋` (as a field element),
for EVERY choice of the random values. `X` is any integer representing the input (`X ≡ x mod p`). -/
theorem trunc_floor {p x f l rModf rDivf : Nat} {X : Int} (hp : p % 2 = 1)
    (hX : X ≡ (x : Int) [ZMOD p]) (hf : f ≤ l - 1)
    (h0 : 0 ≤ X + rModf + 2 ^ (l - 1) + rDivf * 2 ^ f)
    (h1 : X + rModf + 2 ^ (l - 1) + rDivf * 2 ^ f < p) :
    ((trunc p x f l rModf rDivf).1 : Int) = X + rModf + 2 ^ (l - 1) + rDivf * 2 ^ f ∧
    (trunc p x f l rModf rDivf).2 = emod ((X + rModf) / 2 ^ f) p := by
  have hp0 : 0 < p := by omega
  have hxr : ((emod ((x : Int) + (rModf : Int)) p : Nat) : Int) ≡ X + rModf [ZMOD p] :=
    (emod_modEq _ hp0).trans (hX.symm.add_right _)
  have hc : ((emod (((emod ((x : Int) + (rModf : Int)) p : Nat) : Int) +
      (((2 ^ (l - 1) + rDivf * 2 ^ f : Nat)) : Int)) p : Nat) : Int)
      = X + rModf + 2 ^ (l - 1) + rDivf * 2 ^ f := by
    rw [← emod_of_range h0 h1]
    congr 1
    apply emod_congr
    have : (((2 ^ (l - 1) + rDivf * 2 ^ f : Nat)) : Int) = 2 ^ (l - 1) + rDivf * 2 ^ f := by push_cast; ring
    rw [this]
    have := hxr.add_right ((2 : Int) ^ (l - 1) + rDivf * 2 ^ f)
    calc _ ≡ X + ↑rModf + (2 ^ (l - 1) + ↑rDivf * 2 ^ f) [ZMOD p] := this
      _ = _ := by ring
  have hpow : (2 : Int) ^ (l - 1) = 2 ^ f * 2 ^ (l - 1 - f) := by
    rw [← pow_add]; congr 1; omega
  have hcm : (X + rModf + 2 ^ (l - 1) + rDivf * 2 ^ f) % 2 ^ f = (X + rModf) % 2 ^ f := by
    have : X + rModf + 2 ^ (l - 1) + rDivf * 2 ^ f = (X + rModf) + 2 ^ f * (2 ^ (l - 1 - f) + rDivf) := by
      rw [hpow]; ring
    rw [this, Int.add_mul_emod_self_left]
  unfold trunc
  refine ⟨hc, ?_⟩
  simp only []
  have hcm2 : (((emod (((emod ((x : Int) + (rModf : Int)) p : Nat) : Int) +
      (((2 ^ (l - 1) + rDivf * 2 ^ f : Nat)) : Int)) p) % 2 ^ f : Nat) : Int) = (X + rModf) % 2 ^ f := by
    push_cast
    rw [← hcm]
    have := hc
    push_cast at this
    rw [this]
  rw [← shr_emod_pow ((X + rModf) / 2 ^ f) hp f]
  congr 1
  apply emod_congr
  rw [hcm2]
  have e := Int.emod_add_mul_ediv (X + rModf) (2 ^ f)
  calc _ ≡ X + rModf - (X + rModf) % 2 ^ f [ZMOD p] := hxr.sub_right _
    _ = _ := by omega


/-! ### _convert -/

theorem natmod_modEq (r p : Nat) : ((r % p : Nat) : Int) ≡ (r : Int) [ZMOD p] := by
  rw [Int.natCast_mod]; exact Int.mod_modEq _ _

/-- the offset added before opening ≙ runtime.py:766-772 -/
def offsetOf (s t : SType) : Nat :=
  if s.signed then (if s.isFld then s.p / 2 else 2 ^ (min s.bitLength t.bitLength - 1)) else 0

/-- masked opening and unmasking in the other field: if `X + offset + r` does not wrap around in the
source field, then `c - r` recomputed in the target field is `X + offset` there -/
theorem mask_unmask {ps pt x1 off r : Nat} {X : Int} (_hps : 0 < ps) (hpt : 0 < pt)
    (hX : X ≡ (x1 : Int) [ZMOD ps]) (h0 : 0 ≤ X + off + r) (h1 : X + off + r < ps) :
    ((emod ((x1 : Int) + (off : Int) + ((r % ps : Nat) : Int)) ps : Nat) : Int) = X + off + r ∧
    ((emod (((emod ((x1 : Int) + (off : Int) + ((r % ps : Nat) : Int)) ps : Nat) : Int)
        - ((r % pt : Nat) : Int)) pt : Nat) : Int) ≡ X + off [ZMOD pt] := by
  have hc : ((emod ((x1 : Int) + (off : Int) + ((r % ps : Nat) : Int)) ps : Nat) : Int) = X + off + r := by
    rw [← emod_of_range h0 h1]; congr 1; apply emod_congr
    exact ((hX.symm.add_right _).add (natmod_modEq r ps))
  refine ⟨hc, ?_⟩
  rw [hc]
  refine (emod_modEq _ hpt).trans ?_
  have := (Int.ModEq.refl (X + off + r) (n := pt)).sub (natmod_modEq r pt)
  calc X + ↑off + ↑r - ↑(r % pt) ≡ X + ↑off + ↑r - ↑r [ZMOD pt] := this
    _ = X + off := by ring

theorem convert_intlike_up {s t : SType} {x : Nat} {rd : Rand} {X : Int}
    (hs : s.isFld = false) (hd : s.frac ≤ t.frac) (hps : 0 < s.p) (hpt : 0 < t.p)
    (hX : X ≡ (x : Int) [ZMOD s.p])
    (h0 : 0 ≤ X + offsetOf s t + rd.r) (h1 : X + offsetOf s t + rd.r < s.p) :
    ((convert1 s t x rd).opened : Int) = X + offsetOf s t + rd.r ∧
    (convert1 s t x rd).truncOpened = none ∧ (convert1 s t x rd).modOpened = none ∧
    (convert1 s t x rd).result = emod (X * 2 ^ (t.frac - s.frac)) t.p := by
  have hd' : ¬ ((t.frac : Int) - (s.frac : Int) < 0) := by omega
  have hoff : offsetOf s t = if s.signed then 2 ^ (min s.bitLength t.bitLength - 1) else 0 := by
    simp [offsetOf, hs]
  obtain ⟨hc, hy0⟩ := mask_unmask (pt := t.p) hps hpt hX h0 h1
  have hy2 : ((emod (((emod (((emod ((x : Int) + (offsetOf s t : Int) + ((rd.r % s.p : Nat) : Int)) s.p : Nat) : Int)
        - ((rd.r % t.p : Nat) : Int)) t.p : Nat) : Int) - (offsetOf s t : Int)) t.p : Nat) : Int) ≡ X [ZMOD t.p] := by
    refine (emod_modEq _ hpt).trans ?_
    have := hy0.sub_right (offsetOf s t : Int)
    calc _ ≡ X + ↑(offsetOf s t) - ↑(offsetOf s t) [ZMOD t.p] := this
      _ = X := by ring
  simp only [convert1, hs, hd', if_false, Bool.false_eq_true, Option.map_none]
  rw [← hoff]
  refine ⟨hc, trivial, trivial, ?_⟩
  split
  · rename_i hpos
    apply emod_congr
    have e : ((t.frac : Int) - (s.frac : Int)).toNat = t.frac - s.frac := by omega
    rw [e]
    have := hy2.mul_right ((2 ^ (t.frac - s.frac) : Nat) : Int)
    push_cast at this ⊢
    exact this
  · rename_i hpos
    have e : t.frac - s.frac = 0 := by omega
    rw [e, pow_zero, mul_one]
    rw [← emod_congr hy2, emod_idem _ hpt]


theorem convert_intlike_down {s t : SType} {x : Nat} {rd : Rand} {X : Int}
    (hs : s.isFld = false) (hd : t.frac < s.frac) (hodd : s.p % 2 = 1) (hpt : 0 < t.p)
    (hX : X ≡ (x : Int) [ZMOD s.p]) (hf : s.frac - t.frac ≤ s.bitLength - 1)
    (ht0 : 0 ≤ X + rd.rModf + 2 ^ (s.bitLength - 1) + rd.rDivf * 2 ^ (s.frac - t.frac))
    (ht1 : X + rd.rModf + 2 ^ (s.bitLength - 1) + rd.rDivf * 2 ^ (s.frac - t.frac) < s.p)
    (h0 : 0 ≤ (X + rd.rModf) / 2 ^ (s.frac - t.frac) + offsetOf s t + rd.r)
    (h1 : (X + rd.rModf) / 2 ^ (s.frac - t.frac) + offsetOf s t + rd.r < s.p) :
    ((convert1 s t x rd).opened : Int) = (X + rd.rModf) / 2 ^ (s.frac - t.frac) + offsetOf s t + rd.r ∧
    (convert1 s t x rd).truncOpened
      = some (X + rd.rModf + 2 ^ (s.bitLength - 1) + rd.rDivf * 2 ^ (s.frac - t.frac)).toNat ∧
    (convert1 s t x rd).modOpened = none ∧
    (convert1 s t x rd).result = emod ((X + rd.rModf) / 2 ^ (s.frac - t.frac)) t.p := by
  have hps : 0 < s.p := by omega
  have hd' : (t.frac : Int) - (s.frac : Int) < 0 := by omega
  have hd'' : ¬ ((t.frac : Int) - (s.frac : Int) > 0) := by omega
  have e : (-((t.frac : Int) - (s.frac : Int))).toNat = s.frac - t.frac := by omega
  have hoff : offsetOf s t = if s.signed then 2 ^ (min s.bitLength t.bitLength - 1) else 0 := by
    simp [offsetOf, hs]
  obtain ⟨htc, htr⟩ := trunc_floor (p := s.p) (x := x) (f := s.frac - t.frac) (l := s.bitLength)
    (rModf := rd.rModf) (rDivf := rd.rDivf) hodd hX hf ht0 ht1
  have hX' : (X + rd.rModf) / 2 ^ (s.frac - t.frac) ≡
      ((trunc s.p x (s.frac - t.frac) s.bitLength rd.rModf rd.rDivf).2 : Int) [ZMOD s.p] := by
    rw [htr]; exact (emod_modEq _ hps).symm
  obtain ⟨hc, hy0⟩ := mask_unmask (pt := t.p) hps hpt hX' h0 h1
  simp only [convert1, hs, hd', hd'', if_true, if_false, Bool.false_eq_true, e, Option.map_some]
  rw [← hoff]
  refine ⟨hc, ?_, trivial, ?_⟩
  · congr 1; omega
  · apply emod_congr
    have := hy0.sub_right (offsetOf s t : Int)
    calc _ ≡ (X + ↑rd.rModf) / 2 ^ (s.frac - t.frac) + ↑(offsetOf s t) - ↑(offsetOf s t) [ZMOD t.p] := this
      _ = _ := by ring

/-! ### _mod and field sources -/

theorem modPub_spec {pt l f a b rModb rDivb : Nat} {A : Int} (_hpt : 0 < pt) (hb : 0 < b)
    (hA : A ≡ (a : Int) [ZMOD pt]) (hr : rModb < b)
    (h0 : 0 ≤ A + (2 ^ l - (2 : Int) ^ l % b) + b * rDivb - rModb)
    (h1 : A + (2 ^ l - (2 : Int) ^ l % b) + b * rDivb - rModb < pt) :
    ((modPub pt l f a b rModb rDivb).1 : Int) = A + (2 ^ l - (2 : Int) ^ l % b) + b * rDivb - rModb ∧
    (modPub pt l f a b rModb rDivb).2 = emod (A % b * 2 ^ f) pt := by
  have hbI : (0 : Int) < b := by exact_mod_cast hb
  have hc : ((emod ((a : Int) + (((2 ^ l : Nat) : Int) - ((2 ^ l % b : Nat) : Int) + (b : Int) * (rDivb : Int)
      - (rModb : Int))) pt : Nat) : Int) = A + (2 ^ l - (2 : Int) ^ l % b) + b * rDivb - rModb := by
    rw [← emod_of_range h0 h1]; congr 1; apply emod_congr
    have := hA.symm.add_right ((2 : Int) ^ l - (2 : Int) ^ l % b + b * rDivb - rModb)
    push_cast
    calc _ ≡ A + (2 ^ l - (2 : Int) ^ l % b + b * rDivb - rModb) [ZMOD pt] := this
      _ = _ := by ring
  refine ⟨hc, ?_⟩
  unfold modPub
  simp only []
  generalize hcN : emod ((a : Int) + (((2 ^ l : Nat) : Int) - ((2 ^ l % b : Nat) : Int) + (b : Int) * (rDivb : Int)
      - (rModb : Int))) pt = cN at hc ⊢
  -- u = c % b is (A - r_modb) % b
  have hu : ((cN % b : Nat) : Int) = (A - rModb) % b := by
    push_cast; rw [hc]
    have e := Int.emod_add_mul_ediv ((2 : Int) ^ l) b
    have : A + (2 ^ l - (2 : Int) ^ l % b) + b * rDivb - rModb
        = (A - rModb) + b * ((2 : Int) ^ l / b + rDivb) := by
      have : (2 : Int) ^ l - 2 ^ l % b = b * (2 ^ l / b) := by omega
      rw [this]; ring
    rw [this, Int.add_mul_emod_self_left]
  have hu2 : (cN : Int) % b = (A - rModb) % b := by
    have := hu; push_cast at this; exact this
  have u0 := Int.emod_nonneg (A - rModb) (ne_of_gt hbI)
  have u1 := Int.emod_lt_of_pos (A - rModb) hbI
  have hcong : (A - rModb) % b + rModb ≡ A [ZMOD b] := by
    have := (Int.mod_modEq (A - rModb) b).add_right (rModb : Int)
    calc _ ≡ A - rModb + rModb [ZMOD b] := this
      _ = A := by ring
  -- the value v = c1 + r_modb - z*b lies in [0, b) and is congruent to A
  have key : ∀ v : Int, 0 ≤ v → v < b → v ≡ A [ZMOD b] → v = A % b := by
    intro v v0 v1 hv
    have : v % b = A % b := hv
    rw [← this, Int.emod_eq_of_lt v0 v1]
  congr 1
  congr 1
  by_cases hz : cN % b = 0
  · have hu0 : (A - rModb) % b = 0 := by rw [← hu, hz]; rfl
    rw [if_pos hz, if_pos (by omega)]
    apply key
    · push_cast; omega
    · push_cast; omega
    · push_cast
      rw [hu0, zero_add] at hcong
      calc (b : Int) + rModb - 1 * b = rModb := by ring
        _ ≡ A [ZMOD b] := hcong
  · rw [if_neg hz]
    have hupos : 0 < (A - rModb) % b := by
      rw [← hu]; have : 0 < cN % b := Nat.pos_of_ne_zero hz
      exact_mod_cast this
    by_cases hge : cN % b + rModb ≥ b
    · rw [if_pos hge]
      have hge' : (b : Int) ≤ (A - rModb) % b + rModb := by rw [← hu]; exact_mod_cast hge
      apply key
      · push_cast; rw [hu2]; omega
      · push_cast; rw [hu2]; omega
      · push_cast; rw [hu2]
        have : (A - rModb) % b + rModb - 1 * b ≡ (A - rModb) % b + rModb [ZMOD b] :=
          Int.modEq_iff_dvd.mpr ⟨1, by ring⟩
        exact this.trans hcong
    · rw [if_neg hge]
      have hge' : (A - rModb) % b + rModb < b := by rw [← hu]; exact_mod_cast (not_le.mp hge)
      apply key
      · push_cast; rw [hu2]; omega
      · push_cast; rw [hu2]; omega
      · push_cast; rw [hu2]; simpa using hcong


/-- the integer `(x + offset) mod p - offset` recovered by `_convert` from a field source is the canonical
representative `toInt` (signed: offset = p div 2; unsigned: offset = 0) -/
theorem recentre_signed {p x : Nat} (hp : p % 2 = 1) (hx : x < p) :
    (((x + p / 2) % p : Nat) : Int) - ((p / 2 : Nat) : Int) = signed p x := by
  unfold signed
  by_cases h : x > p / 2
  · rw [if_pos h]
    have : (x + p / 2) % p = x + p / 2 - p := by
      rw [Nat.mod_eq_sub_mod (by omega), Nat.mod_eq_of_lt (by omega)]
    rw [this]; omega
  · rw [if_neg h, Nat.mod_eq_of_lt (by omega)]; omega

theorem recentre_unsigned {p x : Nat} (hx : x < p) : (((x + 0) % p : Nat) : Int) - ((0 : Nat) : Int) = (x : Int) := by
  rw [Nat.add_zero, Nat.mod_eq_of_lt hx]; simp

/-- field source (prime field, frac_length 0) to secint / secfxp: under the no-wrap-around condition of
the `_mod` opening, the result is `((x + offset) mod p_s - offset) · 2^f_t` in the target field, for every
choice of the random values; the value opened in the source field is `(x + offset + r) mod p_s`. -/
theorem convert_fld_src {s t : SType} {x : Nat} {rd : Rand}
    (hs : s.isFld = true) (hsf : s.frac = 0) (hps : 0 < s.p) (hpt : 0 < t.p)
    (hr : rd.rModb < s.p)
    (h0 : 0 ≤ (((x + offsetOf s t + rd.r) % s.p : Nat) : Int) - rd.r
            + (2 ^ t.bitLength - (2 : Int) ^ t.bitLength % s.p) + s.p * rd.rDivb - rd.rModb)
    (h1 : (((x + offsetOf s t + rd.r) % s.p : Nat) : Int) - rd.r
            + (2 ^ t.bitLength - (2 : Int) ^ t.bitLength % s.p) + s.p * rd.rDivb - rd.rModb < t.p) :
    (convert1 s t x rd).opened = (x + offsetOf s t + rd.r) % s.p ∧
    (convert1 s t x rd).truncOpened = none ∧
    (convert1 s t x rd).modOpened = some ((((x + offsetOf s t + rd.r) % s.p : Nat) : Int) - rd.r
            + (2 ^ t.bitLength - (2 : Int) ^ t.bitLength % s.p) + s.p * rd.rDivb - rd.rModb).toNat ∧
    (convert1 s t x rd).result
      = emod (((((x + offsetOf s t) % s.p : Nat) : Int) - (offsetOf s t : Int)) * 2 ^ t.frac) t.p := by
  have hd' : ¬ ((t.frac : Int) - (s.frac : Int) < 0) := by omega
  have hoff : offsetOf s t = if s.signed then s.p / 2 else 0 := by simp [offsetOf, hs]
  -- the opened value
  have hc : emod ((x : Int) + (offsetOf s t : Int) + ((rd.r % s.p : Nat) : Int)) s.p
      = (x + offsetOf s t + rd.r) % s.p := by
    have h : ((emod ((x : Int) + (offsetOf s t : Int) + ((rd.r % s.p : Nat) : Int)) s.p : Nat) : Int)
        = (((x + offsetOf s t + rd.r) % s.p : Nat) : Int) := by
      rw [emod_cast _ hps]; push_cast
      exact (Int.ModEq.refl ((x : Int) + offsetOf s t)).add (natmod_modEq rd.r s.p)
    exact_mod_cast h
  -- A = c - r as an integer; y0 represents it in the target field
  have hA : (((x + offsetOf s t + rd.r) % s.p : Nat) : Int) - rd.r ≡
      ((emod ((((x + offsetOf s t + rd.r) % s.p : Nat) : Int) - ((rd.r % t.p : Nat) : Int)) t.p : Nat) : Int)
        [ZMOD t.p] :=
    ((Int.ModEq.refl _).sub (natmod_modEq rd.r t.p)).symm.trans (emod_modEq _ hpt).symm
  obtain ⟨hm1, hm2⟩ := modPub_spec (l := t.bitLength) (f := t.frac) (rDivb := rd.rDivb) hpt hps hA hr h0 h1
  have hAb : ((((x + offsetOf s t + rd.r) % s.p : Nat) : Int) - rd.r) % s.p
      = (((x + offsetOf s t) % s.p : Nat) : Int) := by
    push_cast
    have : ((x : Int) + offsetOf s t + rd.r) % s.p - rd.r ≡ (x : Int) + offsetOf s t [ZMOD s.p] := by
      have := (Int.mod_modEq ((x : Int) + offsetOf s t + rd.r) s.p).sub_right (rd.r : Int)
      calc _ ≡ (x : Int) + offsetOf s t + rd.r - rd.r [ZMOD s.p] := this
        _ = _ := by ring
    exact this
  simp only [convert1, hs, hd', if_true, if_false, Option.map_none]
  rw [← hoff, hc]
  refine ⟨rfl, trivial, ?_, ?_⟩
  · congr 1
    have := hm1
    omega
  · rw [hm2, hAb]
    apply emod_congr
    have := (emod_modEq ((((x + offsetOf s t) % s.p : Nat) : Int) * 2 ^ t.frac) hpt).sub_right
      (((offsetOf s t * 2 ^ t.frac : Nat)) : Int)
    push_cast at this ⊢
    calc _ ≡ _ [ZMOD t.p] := this
      _ = _ := by ring

/-! ### reading the result -/

theorem signed_emod {p : Nat} {Y : Int} (hp : p % 2 = 1) (h0 : -((p / 2 : Nat) : Int) ≤ Y)
    (h1 : Y ≤ ((p / 2 : Nat) : Int)) : signed p (emod Y p) = Y := by
  have hp0 : 0 < p := by omega
  unfold signed
  by_cases hY : 0 ≤ Y
  · have : ((emod Y p : Nat) : Int) = Y := emod_of_range hY (by omega)
    rw [if_neg (by omega)]; exact this
  · have e : ((emod Y p : Nat) : Int) = Y + p := by
      have h2 : ((emod (Y + p) p : Nat) : Int) = Y + p := emod_of_range (by omega) (by omega)
      rw [← h2]; congr 1; apply emod_congr
      exact Int.modEq_iff_dvd.mpr ⟨1, by ring⟩
    rw [if_pos (by omega)]; omega

theorem unsigned_emod {p : Nat} {Y : Int} (h0 : 0 ≤ Y) (h1 : Y < p) : ((emod Y p : Nat) : Int) = Y :=
  emod_of_range h0 h1

/-- ≙ runtime.py:736-740: n contributions below `bound k l n` sum to at most 2^(k+l) -/
theorem bound_sum (k l n : Nat) (rs : List Nat) (hlen : rs.length = n)
    (hr : ∀ r ∈ rs, r < bound k l n) : rs.sum ≤ 2 ^ (k + l) := by
  have h : ∀ (rs : List Nat), (∀ r ∈ rs, r ≤ 2 ^ (k + l) / n) → rs.sum ≤ rs.length * (2 ^ (k + l) / n) := by
    intro rs
    induction rs with
    | nil => simp
    | cons a as ih =>
      intro h
      have ha := h a (by simp)
      have := ih (fun r hr => h r (by simp [hr]))
      simp only [List.sum_cons, List.length_cons]
      rw [Nat.add_mul]; omega
  have h2 := h rs (fun r hr' => by have := hr r hr'; unfold bound at this; omega)
  rw [hlen] at h2
  exact le_trans h2 (Nat.mul_div_le _ _)

end MpycV.Convert
