import MpycV.Lemmas.NumThPrimeRoot3

namespace MpycV.PrimeRoot
open MpycV.NumTh

/-- there is a Blum prime with exactly L bits (true for every L ≥ 2 by Breusch's theorem; not proved here:
it is a hypothesis of the size clause for n ≤ 2 and checked numerically by the harness for every L it visits) -/
def BlumPrimeWithBits (L : Nat) : Prop :=
  ∃ q : Nat, q.Prime ∧ q % 4 = 3 ∧ 2 ^ (L - 1) < q ∧ q < 2 ^ L

theorem pfield_none (isP : Int → Bool) (hP : CorrectOracle isP) (fuel : Nat) (l f k n : Int) (m t : Nat)
    (p : Int) (h : pfield isP fuel l f k none n m t = .ok p) :
    Nat.Prime p.toNat ∧ p % 4 = 3 ∧ (t ≠ 0 → (m : Int) < p) ∧
    ((l + f + k + 2 ≤ 2 ∨ 2 < n ∨ BlumPrimeWithBits (l + f + k + 2).toNat) →
      2 ^ (l + f + k + 1).toNat < p) := by
  unfold pfield at h
  simp only [] at h
  set L := l + f + k + 2 with hL
  have hL1 : (l + f + k + 1) = L - 1 := by omega
  cases hfpr : findPrimeRoot isP fuel L true n with
  | error e => rw [hfpr] at h; simp at h
  | ok r =>
    obtain ⟨p1, n1, w1⟩ := r
    rw [hfpr] at h
    simp only [] at h
    have hspec : Nat.Prime p1.toNat ∧ p1 % 4 = 3 ∧
        ((L ≤ 2 ∨ 2 < n ∨ BlumPrimeWithBits L.toNat) → 2 ^ (L - 1).toNat < p1) := by
      by_cases hsm : L ≤ 2
      · rw [findPrimeRoot_small isP fuel L true n hsm] at hfpr
        simp only [if_true, Except.ok.injEq, Prod.mk.injEq] at hfpr
        obtain ⟨rfl, _, _⟩ := hfpr
        refine ⟨Nat.prime_three, by decide, fun _ => ?_⟩
        have : (L - 1).toNat ≤ 1 := by omega
        have : 2 ^ (L - 1).toNat ≤ 2 ^ 1 := Nat.pow_le_pow_right (by omega) this
        have h3 : ((2 ^ (L - 1).toNat : Nat) : Int) ≤ 2 := by exact_mod_cast this
        push_cast at h3; omega
      · by_cases hn : n ≤ 2
        · obtain ⟨p2, h1, h2, h3, h4, _, h6⟩ := findPrimeRoot_le2 isP hP fuel L true n (by omega) hn
          rw [h1] at hfpr
          simp only [Except.ok.injEq, Prod.mk.injEq] at hfpr
          obtain ⟨rfl, _, _⟩ := hfpr
          obtain ⟨h7, h8⟩ := h6 rfl
          refine ⟨h2, h7, fun hc => ?_⟩
          rcases hc with hc | hc | ⟨q, hq1, hq2, hq3, hq4⟩
          · omega
          · omega
          · have hq4' : (q : Int) < 2 ^ L.toNat := by exact_mod_cast hq4
            have := h8 q (by simpa using hq1) (by omega) hq4'
            have hq3' : ((2 ^ (L.toNat - 1) : Nat) : Int) < q := by exact_mod_cast hq3
            push_cast at hq3'
            have : (L - 1).toNat = L.toNat - 1 := by omega
            rw [this]; omega
        · have hs := (findPrimeRoot_gt2 isP hP fuel L true n (by omega) (by omega)).2 p1 n1 w1 hfpr
          refine ⟨hs.p_prime, hs.p_blum, fun _ => ?_⟩
          have : (L - 1).toNat = L.toNat - 1 := by omega
          rw [this]; exact hs.p_large
    obtain ⟨hs1, hs2, hs3⟩ := hspec
    split at h
    · simp at h
    · split at h
      · next hc =>
        simp only [Except.ok.injEq] at h
        subst h
        refine ⟨hs1, hs2, fun ht => ?_, ?_⟩
        · rcases hc with hc | hc
          · exact absurd hc ht
          · exact hc
        · rw [hL1]; exact hs3
      · simp at h

theorem pfield_some (isP : Int → Bool) (fuel : Nat) (l f k n : Int) (m t : Nat) (p : Int) :
    ((bitLength p : Int) ≤ l + f + k + 1 → pfield isP fuel l f k (some p) n m t = .error .valueError) ∧
    (l + f + k + 1 < (bitLength p : Int) →
      pfield isP fuel l f k (some p) n m t =
        if isP p = false then .error .valueError
        else if t = 0 ∨ (m : Int) < p then .ok p else .error .assertionError) := by
  unfold pfield
  constructor
  · intro h; simp [h]
  · intro h
    have : ¬ ((bitLength p : Int) ≤ l + f + k + 1) := by omega
    simp only [this, if_false]
    cases hp : isP p <;> simp

/-- an accepted explicit modulus is at least 2^(l+f+k+1) -/
theorem pfield_some_large (isP : Int → Bool) (fuel : Nat) (l f k n : Int) (m t : Nat) (p p' : Int)
    (hpos : 0 < p) (h : pfield isP fuel l f k (some p) n m t = .ok p') :
    p' = p ∧ isP p = true ∧ 2 ^ (l + f + k + 1).toNat ≤ p ∧ (t ≠ 0 → (m : Int) < p) := by
  by_cases hb : (bitLength p : Int) ≤ l + f + k + 1
  · rw [(pfield_some isP fuel l f k n m t p).1 hb] at h; simp at h
  · rw [(pfield_some isP fuel l f k n m t p).2 (by omega)] at h
    cases hp : isP p
    · simp [hp] at h
    · simp only [hp, Bool.true_eq_false, if_false] at h
      split at h
      · next hc =>
        simp only [Except.ok.injEq] at h
        refine ⟨h.symm, rfl, ?_, fun ht => hc.resolve_left ht⟩
        by_contra hlt
        have := (bitLength_le_iff p (l + f + k + 1).toNat hpos).mpr (by omega)
        have h0 : ¬ bitLength p ≤ 0 := fun h0 => by
          have := (bitLength_le_iff p 0 hpos).mp h0
          omega
        omega
      · simp at h

end MpycV.PrimeRoot
