/-
Helper lemmas for the fixed-point value layer (MpycV.Model.Fxp): the field operations on integer
representatives (`pmod`, `signed`, `norm`, `rsh`), truncation, rounding.
-/
import MpycV.Model.Fxp
import Mathlib.Tactic.Ring
import Mathlib.Tactic.Linarith
import Mathlib.Data.Int.ModEq
import Mathlib.Algebra.Order.Group.Abs

namespace MpycV.Fxp

/-- `x` is the signed representative of its residue class: `2|x| < p` -/
def Fits (p : Nat) (x : Int) : Prop := 2 * |x| < (p : Int)

theorem two_pow_pos (n : Nat) : (0 : Int) < (2 : Int) ^ n := by positivity

theorem pmod_nonneg (x : Int) {p : Nat} (hp : 0 < p) : 0 ≤ pmod x p :=
  Int.emod_nonneg _ (by exact_mod_cast hp.ne')

theorem pmod_lt (x : Int) {p : Nat} (hp : 0 < p) : pmod x p < p :=
  Int.emod_lt_of_pos _ (by exact_mod_cast hp)

theorem pmod_of_range {x : Int} {p : Nat} (h0 : 0 ≤ x) (h1 : x < p) : pmod x p = x :=
  Int.emod_eq_of_lt h0 h1

theorem pmod_add_self (x : Int) (p : Nat) : pmod (x + p) p = pmod x p := by
  unfold pmod; exact Int.add_emod_right x p

theorem norm_of_fits {p : Nat} {x : Int} (h : Fits p x) : norm p x = x := by
  unfold Fits at h
  have hp : (0 : Int) < p := by have := abs_nonneg x; omega
  unfold norm signed
  rcases le_or_gt 0 x with hx | hx
  · have hx' : |x| = x := abs_of_nonneg hx
    have : pmod x p = x := pmod_of_range hx (by omega)
    rw [this]
    have : ¬ x > (p : Int) / 2 := by omega
    simp [this]
  · have hx' : |x| = -x := abs_of_neg hx
    have h2 : pmod x p = x + p := by
      rw [← pmod_add_self]; exact pmod_of_range (by omega) (by omega)
    rw [h2]
    have : x + (p : Int) > (p : Int) / 2 := by omega
    simp [this]

theorem norm_congr {p : Nat} {x y : Int} (h : pmod x p = pmod y p) : norm p x = norm p y := by
  unfold norm; rw [h]

theorem pmod_pmod (x : Int) (p : Nat) : pmod (pmod x p) p = pmod x p := by
  unfold pmod; exact Int.emod_emod_of_dvd x (dvd_refl _)

theorem norm_pmod (x : Int) (p : Nat) : norm p (pmod x p) = norm p x := norm_congr (pmod_pmod x p)

/-- `2 * inv2 p = p + 1` for odd `p` -/
theorem two_mul_inv2 {p : Nat} (hodd : p % 2 = 1) : 2 * inv2 p = (p : Int) + 1 := by
  unfold inv2; omega

theorem inv2_pow_mul (p n : Nat) (hodd : p % 2 = 1) (q : Int) :
    pmod ((2 : Int) ^ n * q * inv2 p ^ n) p = pmod q p := by
  have h1 : (2 : Int) ^ n * q * inv2 p ^ n = q * ((p : Int) + 1) ^ n := by
    rw [← two_mul_inv2 hodd, mul_pow]; ring
  rw [h1]
  unfold pmod
  have h2 : (((p : Int) + 1) ^ n) % (p : Int) = 1 % (p : Int) := by
    have : ((p : Int) + 1) ≡ 1 [ZMOD (p : Int)] := by
      unfold Int.ModEq; simp
    have := this.pow n
    simpa [Int.ModEq] using this
  rw [Int.mul_emod, h2, ← Int.mul_emod, mul_one]

/-- **shortcut is exact**: dividing a multiple of `2^n` by `2^n` in GF(p) (p odd) gives the residue
of the integer quotient -/
theorem rsh_of_dvd {p n : Nat} (hodd : p % 2 = 1) {x : Int} (hd : (2 : Int) ^ n ∣ x) :
    rsh p n x = norm p (x / (2 : Int) ^ n) := by
  obtain ⟨q, rfl⟩ := hd
  have h2 : (2 : Int) ^ n ≠ 0 := (two_pow_pos n).ne'
  rw [Int.mul_ediv_cancel_left _ h2]
  unfold rsh
  apply norm_congr
  have : pmod (pmod ((2 : Int) ^ n * q) p * pmod (inv2 p ^ n) p) p = pmod ((2 : Int) ^ n * q * inv2 p ^ n) p := by
    unfold pmod; rw [← Int.mul_emod]
  rw [this, inv2_pow_mul p n hodd q]

theorem rsh_of_dvd_fits {p n : Nat} (hodd : p % 2 = 1) {x : Int} (hd : (2 : Int) ^ n ∣ x)
    (hf : Fits p (x / (2 : Int) ^ n)) : rsh p n x = x / (2 : Int) ^ n := by
  rw [rsh_of_dvd hodd hd, norm_of_fits hf]


/-! ### truncation -/

def IsBits (bs : List Int) : Prop := ∀ b ∈ bs, b = 0 ∨ b = 1

theorem bitsVal_range : ∀ (bs : List Int), IsBits bs → 0 ≤ bitsVal bs ∧ bitsVal bs < (2 : Int) ^ bs.length
  | [], _ => by simp [bitsVal]
  | b :: bs, h => by
    have hb : b = 0 ∨ b = 1 := h b (by simp)
    have ih := bitsVal_range bs (fun c hc => h c (by simp [hc]))
    simp only [bitsVal, List.length_cons, pow_succ]
    rcases hb with rfl | rfl <;> omega

/-- adding a random `r ∈ [0, D)` before flooring gives the floor or the floor plus one, and the floor
itself when `D ∣ x` -/
theorem floor_add_small (x r D : Int) (hD : 0 < D) (hr0 : 0 ≤ r) (hr : r < D) :
    ((x + r) / D = x / D ∨ (x + r) / D = x / D + 1) ∧ (D ∣ x → (x + r) / D = x / D) := by
  have hx := Int.mul_ediv_add_emod x D
  have hs0 := Int.emod_nonneg x hD.ne'
  have hs1 := Int.emod_lt_of_pos x hD
  have key : (x + r) / D = x / D + (x % D + r) / D := by
    have : x + r = (x % D + r) + D * (x / D) := by linarith
    rw [this, Int.add_mul_ediv_left _ _ hD.ne']; ring
  constructor
  · rcases lt_or_ge (x % D + r) D with h | h
    · left; rw [key, Int.ediv_eq_zero_of_lt (by linarith) h]; ring
    · right
      have h2 : (x % D + r) / D = 1 := by
        have : x % D + r = (x % D + r - D) + D * 1 := by ring
        rw [this, Int.add_mul_ediv_left _ _ hD.ne', Int.ediv_eq_zero_of_lt (by linarith) (by linarith)]; ring
      rw [key, h2]
  · intro hd
    have h0 : x % D = 0 := Int.emod_eq_zero_of_dvd hd
    rw [key, h0, zero_add, Int.ediv_eq_zero_of_lt hr0 hr]; ring

/-- the value computed by `trunc` for ANY randomness in range: `⌊(x + r) / 2^d⌋` with `r` the value of
the random bits.  Hypotheses: `p` odd; `d` random bits; `d < l`; the masked value opened by the
protocol does not wrap modulo `p` (`hlo`, `hhi`: guaranteed by `x ≥ -2^(l-1)`, `rdiv ≥ 0` and
`p > 2^(l+k+1)`); the result is a signed representative (`hfit`). -/
theorem trunc_eq {p d l : Nat} (hodd : p % 2 = 1) {x : Int} {rbits : List Int} {rdiv : Int}
    (hb : IsBits rbits) (hlen : rbits.length = d) (hdl : d < l)
    (hlo : 0 ≤ x + (2 : Int) ^ (l - 1) + rdiv * (2 : Int) ^ d)
    (hhi : x + (2 : Int) ^ d + (2 : Int) ^ (l - 1) + rdiv * (2 : Int) ^ d ≤ p)
    (hfit : Fits p ((x + bitsVal rbits) / (2 : Int) ^ d)) :
    trunc p d l x rbits rdiv = (x + bitsVal rbits) / (2 : Int) ^ d := by
  obtain ⟨hr0, hr1⟩ := bitsVal_range rbits hb
  rw [hlen] at hr1
  set r := bitsVal rbits with hr
  set D : Int := (2 : Int) ^ d with hD
  have hDpos : 0 < D := two_pow_pos d
  have hl : (2 : Int) ^ (l - 1) = D * (2 : Int) ^ (l - 1 - d) := by
    rw [hD, ← pow_add]; congr 1; omega
  unfold trunc truncE
  simp only []
  rw [← hr, ← hD]
  have hS : pmod (x + r + ((2 : Int) ^ (l - 1) + rdiv * D)) p = x + r + ((2 : Int) ^ (l - 1) + rdiv * D) :=
    pmod_of_range (by linarith) (by linarith)
  rw [hS]
  have hc : (x + r + ((2 : Int) ^ (l - 1) + rdiv * D)) % D = (x + r) % D := by
    rw [hl]
    have : x + r + (D * (2 : Int) ^ (l - 1 - d) + rdiv * D) = (x + r) + D * ((2 : Int) ^ (l - 1 - d) + rdiv) := by ring
    rw [this, Int.add_mul_emod_self_left]
  rw [hc]
  have hq : x + r - (x + r) % D = D * ((x + r) / D) := by
    have := Int.mul_ediv_add_emod (x + r) D; linarith
  rw [hq]
  have hdvd : D ∣ D * ((x + r) / D) := Dvd.intro _ rfl
  rw [rsh_of_dvd_fits hodd hdvd (by rw [Int.mul_ediv_cancel_left _ hDpos.ne']; exact hfit),
    Int.mul_ediv_cancel_left _ hDpos.ne']

theorem fits_of_abs_le {p : Nat} {x y : Int} (h : |x| ≤ |y| + 1) (hy : 2 * (|y| + 1) < p) : Fits p x := by
  unfold Fits; linarith

/-! ### the integrality invariant -/

/-- a flag that is set is right: the scaled value is a multiple of `2^f` -/
def FInv (f : Nat) (v : V) : Prop := v.flag = true → (2 : Int) ^ f ∣ v.A

def FInvL (f : Nat) (xs : List V) : Prop := ∀ v ∈ xs, FInv f v

theorem allFlags_iff (xs : List V) : allFlags xs = true ↔ ∀ v ∈ xs, v.flag = true := by
  unfold allFlags; simp [List.all_eq_true]

theorem dvd_of_allFlags {f : Nat} {xs : List V} (h : FInvL f xs) (ha : allFlags xs = true) :
    ∀ v ∈ xs, (2 : Int) ^ f ∣ v.A :=
  fun v hv => h v hv ((allFlags_iff xs).1 ha v hv)

theorem dvd_sumA {f : Nat} : ∀ (xs : List V), (∀ v ∈ xs, (2 : Int) ^ f ∣ v.A) → (2 : Int) ^ f ∣ sumA xs
  | [], _ => by simp [sumA]
  | x :: xs, h => by
    simp only [sumA]
    exact Int.dvd_add (h x (by simp)) (dvd_sumA xs (fun v hv => h v (by simp [hv])))

theorem dvd_dotA {f : Nat} : ∀ (xs ys : List V), (∀ v ∈ xs, (2 : Int) ^ f ∣ v.A) → (∀ v ∈ ys, (2 : Int) ^ f ∣ v.A) →
    (2 : Int) ^ f * (2 : Int) ^ f ∣ dotA xs ys
  | [], _, _, _ => by simp [dotA]
  | _ :: _, [], _, _ => by simp [dotA]
  | x :: xs, y :: ys, hx, hy => by
    simp only [dotA]
    exact Int.dvd_add (mul_dvd_mul (hx x (by simp)) (hy y (by simp)))
      (dvd_dotA xs ys (fun v hv => hx v (by simp [hv])) (fun v hv => hy v (by simp [hv])))

theorem dvd_dotA_left {f : Nat} : ∀ (xs ys : List V), (∀ v ∈ xs, (2 : Int) ^ f ∣ v.A) → (2 : Int) ^ f ∣ dotA xs ys
  | [], _, _ => by simp [dotA]
  | _ :: _, [], _ => by simp [dotA]
  | x :: xs, y :: ys, hx => by
    simp only [dotA]
    exact Int.dvd_add (Dvd.dvd.mul_right (hx x (by simp)) _) (dvd_dotA_left xs ys (fun v hv => hx v (by simp [hv])))

theorem dvd_dotA_right {f : Nat} : ∀ (xs ys : List V), (∀ v ∈ ys, (2 : Int) ^ f ∣ v.A) → (2 : Int) ^ f ∣ dotA xs ys
  | [], _, _ => by simp [dotA]
  | _ :: _, [], _ => by simp [dotA]
  | x :: xs, y :: ys, hy => by
    simp only [dotA]
    exact Int.dvd_add (Dvd.dvd.mul_left (hy y (by simp)) _) (dvd_dotA_right xs ys (fun v hv => hy v (by simp [hv])))

/-- quotient of a multiple of `2^f * 2^f` by `2^f` is a multiple of `2^f` -/
theorem dvd_ediv_of_sq_dvd {f : Nat} {s : Int} (h : (2 : Int) ^ f * (2 : Int) ^ f ∣ s) :
    (2 : Int) ^ f ∣ s / (2 : Int) ^ f := by
  obtain ⟨k, rfl⟩ := h
  rw [mul_assoc, Int.mul_ediv_cancel_left _ (two_pow_pos f).ne']
  exact Dvd.intro _ rfl

theorem dvd_of_sq_dvd {f : Nat} {s : Int} (h : (2 : Int) ^ f * (2 : Int) ^ f ∣ s) : (2 : Int) ^ f ∣ s :=
  dvd_trans (Dvd.intro _ rfl) h

/-- both factors multiples of `2^f`: the field shift of the product is the integer quotient, again a multiple -/
theorem rsh_mul_dvd {p f : Nat} (hodd : p % 2 = 1) {s : Int} (h : (2 : Int) ^ f * (2 : Int) ^ f ∣ s)
    (hfit : Fits p (s / (2 : Int) ^ f)) : (2 : Int) ^ f ∣ rsh p f s := by
  rw [rsh_of_dvd_fits hodd (dvd_of_sq_dvd h) hfit]
  exact dvd_ediv_of_sq_dvd h

theorem inv_zipAdd {f : Nat} : ∀ (xs ys : List V) (fl : Bool),
    (fl = true → (∀ v ∈ xs, (2 : Int) ^ f ∣ v.A) ∧ (∀ v ∈ ys, (2 : Int) ^ f ∣ v.A)) → FInvL f (zipAdd xs ys fl)
  | [], _, _, _ => by simp [zipAdd, FInvL]
  | _ :: _, [], _, _ => by simp [zipAdd, FInvL]
  | x :: xs, y :: ys, fl, h => by
    intro v hv
    simp only [zipAdd, List.mem_cons] at hv
    rcases hv with rfl | hv
    · intro hfl
      obtain ⟨hx, hy⟩ := h hfl
      exact Int.dvd_add (hx x (by simp)) (hy y (by simp))
    · exact inv_zipAdd xs ys fl (fun hfl => ⟨fun v hv => (h hfl).1 v (by simp [hv]), fun v hv => (h hfl).2 v (by simp [hv])⟩) v hv

theorem inv_zipSub {f : Nat} : ∀ (xs ys : List V) (fl : Bool),
    (fl = true → (∀ v ∈ xs, (2 : Int) ^ f ∣ v.A) ∧ (∀ v ∈ ys, (2 : Int) ^ f ∣ v.A)) → FInvL f (zipSub xs ys fl)
  | [], _, _, _ => by simp [zipSub, FInvL]
  | _ :: _, [], _, _ => by simp [zipSub, FInvL]
  | x :: xs, y :: ys, fl, h => by
    intro v hv
    simp only [zipSub, List.mem_cons] at hv
    rcases hv with rfl | hv
    · intro hfl
      obtain ⟨hx, hy⟩ := h hfl
      exact Int.dvd_sub (hx x (by simp)) (hy y (by simp))
    · exact inv_zipSub xs ys fl (fun hfl => ⟨fun v hv => (h hfl).1 v (by simp [hv]), fun v hv => (h hfl).2 v (by simp [hv])⟩) v hv

theorem dvd_tzF (fuel n : Nat) : 2 ^ tzF fuel n ∣ n := by
  induction fuel generalizing n with
  | zero => simp [tzF]
  | succ k ih =>
    unfold tzF
    split
    · simp
    · rename_i h
      have h2 : 2 ∣ n := by omega
      obtain ⟨m, rfl⟩ := h2
      have : 2 * m / 2 = m := by omega
      rw [this, Nat.add_comm, pow_succ, Nat.mul_comm]
      exact Nat.mul_dvd_mul_left 2 (ih m)

theorem zOf_le (f : Nat) (B : Int) : zOf f B ≤ f := by
  unfold zOf; split <;> omega

theorem dvd_zOf (f : Nat) (B : Int) : (2 : Int) ^ zOf f B ∣ B := by
  unfold zOf
  split
  · simp
  · have h1 : 2 ^ (min f (tz B.natAbs)) ∣ B.natAbs :=
      dvd_trans (pow_dvd_pow 2 (Nat.min_le_right _ _)) (dvd_tzF _ _)
    have : ((2 ^ (min f (tz B.natAbs)) : Nat) : Int) ∣ B := Int.natCast_dvd.mpr h1
    simpa using this

end MpycV.Fxp
