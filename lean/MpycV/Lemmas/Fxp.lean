/-
Helper lemmas for the fixed-point value layer (MpycV.Model.Fxp): the field operations on integer
representatives (`pmod`, `signed`, `norm`, `rsh`), truncation, rounding.
-/
import MpycV.Model.Fxp
import Mathlib.Tactic.Ring
import Mathlib.Tactic.Linarith
import Mathlib.Data.Int.ModEq
import Mathlib.Algebra.Order.Group.Abs

namespace MpycV.Fxp

/-- `x` is the signed representative of its residue class: `2|x| < p` -/
def Fits (p : Nat) (x : Int) : Prop := 2 * |x| < (p : Int)

theorem two_pow_pos (n : Nat) : (0 : Int) < (2 : Int) ^ n := by positivity

theorem pmod_nonneg (x : Int) {p : Nat} (hp : 0 < p) : 0 ≤ pmod x p :=
  Int.emod_nonneg _ (by exact_mod_cast hp.ne')

theorem pmod_lt (x : Int) {p : Nat} (hp : 0 < p) : pmod x p < p :=
  Int.emod_lt_of_pos _ (by exact_mod_cast hp)

theorem pmod_of_range {x : Int} {p : Nat} (h0 : 0 ≤ x) (h1 : x < p) : pmod x p = x :=
  Int.emod_eq_of_lt h0 h1

theorem pmod_add_self (x : Int) (p : Nat) : pmod (x + p) p = pmod x p := by
  unfold pmod; exact Int.add_emod_right x p

theorem norm_of_fits {p : Nat} {x : Int} (h : Fits p x) : norm p x = x := by
  unfold Fits at h
  have hp : (0 : Int) < p := by have := abs_nonneg x; omega
  unfold norm signed
  rcases le_or_gt 0 x with hx | hx
  · have hx' : |x| = x := abs_of_nonneg hx
    have : pmod x p = x := pmod_of_range hx (by omega)
    rw [this]
    have : ¬ x > (p : Int) / 2 := by omega
    simp [this]
  · have hx' : |x| = -x := abs_of_neg hx
    have h2 : pmod x p = x + p := by
      rw [← pmod_add_self]; exact pmod_of_range (by omega) (by omega)
    rw [h2]
    have : x + (p : Int) > (p : Int) / 2 := by omega
    simp [this]

theorem norm_congr {p : Nat} {x y : Int} (h : pmod x p = pmod y p) : norm p x = norm p y := by
  unfold norm; rw [h]

theorem pmod_pmod (x : Int) (p : Nat) : pmod (pmod x p) p = pmod x p := by
  unfold pmod; exact Int.emod_emod_of_dvd x (dvd_refl _)

theorem norm_pmod (x : Int) (p : Nat) : norm p (pmod x p) = norm p x := norm_congr (pmod_pmod x p)

/-- `2 * inv2 p = p + 1` for odd `p` -/
theorem two_mul_inv2 {p : Nat} (hodd : p % 2 = 1) : 2 * inv2 p = (p : Int) + 1 := by
  unfold inv2; omega

theorem inv2_pow_mul (p n : Nat) (hodd : p % 2 = 1) (q : Int) :
    pmod ((2 : Int) ^ n * q * inv2 p ^ n) p = pmod q p := by
  have h1 : (2 : Int) ^ n * q * inv2 p ^ n = q * ((p : Int) + 1) ^ n := by
    rw [← two_mul_inv2 hodd, mul_pow]; ring
  rw [h1]
  unfold pmod
  have h2 : (((p : Int) + 1) ^ n) % (p : Int) = 1 % (p : Int) := by
    have : ((p : Int) + 1) ≡ 1 [ZMOD (p : Int)] := by
      unfold Int.ModEq; simp
    have := this.pow n
    simpa [Int.ModEq] using this
  rw [Int.mul_emod, h2, ← Int.mul_emod, mul_one]

/-- **shortcut is exact**: dividing a multiple of `2^n` by `2^n` in GF(p) (p odd) gives the residue
of the integer quotient -/
theorem rsh_of_dvd {p n : Nat} (hodd : p % 2 = 1) {x : Int} (hd : (2 : Int) ^ n ∣ x) :
    rsh p n x = norm p (x / (2 : Int) ^ n) := by
  obtain ⟨q, rfl⟩ := hd
  have h2 : (2 : Int) ^ n ≠ 0 := (two_pow_pos n).ne'
  rw [Int.mul_ediv_cancel_left _ h2]
  unfold rsh
  apply norm_congr
  have : pmod (pmod ((2 : Int) ^ n * q) p * pmod (inv2 p ^ n) p) p = pmod ((2 : Int) ^ n * q * inv2 p ^ n) p := by
    unfold pmod; rw [← Int.mul_emod]
  rw [this, inv2_pow_mul p n hodd q]

theorem rsh_of_dvd_fits {p n : Nat} (hodd : p % 2 = 1) {x : Int} (hd : (2 : Int) ^ n ∣ x)
    (hf : Fits p (x / (2 : Int) ^ n)) : rsh p n x = x / (2 : Int) ^ n := by
  rw [rsh_of_dvd hodd hd, norm_of_fits hf]

end MpycV.Fxp
