import MpycV.Model.NumTh
namespace MpycV.NumTh

/-- GMP manual (mpz_gcdext) normalisation of the cofactors, as a Boolean predicate -/
def gmpNormal (a b g s t : Int) : Bool :=
  let aa : Int := a.natAbs
  let ab : Int := b.natAbs
  if aa = ab then s == 0 && t == b.sign
  else
    (if b = 0 ∨ ab = 2 * g then s == a.sign else decide (2 * g * (s.natAbs : Int) < ab)) &&
    (if a = 0 ∨ aa = 2 * g then t == b.sign else decide (2 * g * (t.natAbs : Int) < aa)) &&
    ((s == 0) == (g == ab))

def gcdextNormalOk (a b : Int) : Bool :=
  match gcdext a b with
  | .ok (g, s, t) => g == (Int.gcd a b : Int) && g == a * s + b * t && gmpNormal a b g s t
  | .error _ => false

def intRange (B : Nat) : List Int := (List.range (2 * B + 1)).map (fun (i : Nat) => (i : Int) - (B : Int))

theorem gcdext_normalised_table :
    ∀ a ∈ intRange 25, ∀ b ∈ intRange 25, gcdextNormalOk a b = true := by
  decide +kernel

end MpycV.NumTh
