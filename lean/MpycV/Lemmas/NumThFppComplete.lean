import MpycV.Lemmas.NumThFpp

namespace MpycV.NumTh

/-! ### factor_prime_power: completeness on prime powers -/

theorem divOut_pow (q : Int) (hq : 1 < q) (k d fuel : Nat) (hf : k < fuel) :
    divOut q fuel (q ^ k) d = .ok (d + k) := by
  induction k generalizing d fuel with
  | zero =>
    obtain ⟨f, rfl⟩ : ∃ f, fuel = f + 1 := ⟨fuel - 1, by omega⟩
    simp [divOut]
  | succ k ih =>
    obtain ⟨f, rfl⟩ : ∃ f, fuel = f + 1 := ⟨fuel - 1, by omega⟩
    have hpos : (1 : Int) < q ^ (k + 1) := one_lt_pow₀ hq (by omega)
    have hmod : q ^ (k + 1) % q = 0 := by rw [pow_succ]; exact Int.mul_emod_left _ _
    have hdiv : q ^ (k + 1) / q = q ^ k := by
      rw [pow_succ]; exact Int.mul_ediv_cancel _ (by omega)
    simp only [divOut]
    rw [if_pos hpos, if_pos hmod, hdiv, ih (d + 1) f (by omega)]
    congr 1; omega

/-- a prime dividing a prime power is that prime -/
theorem prime_dvd_pow_eq {p q e : Nat} (hp : p.Prime) (hq : q.Prime) (h : p ∣ q ^ e) : p = q :=
  (Nat.prime_dvd_prime_iff_eq hp hq).mp (hp.dvd_of_dvd_pow h)

theorem emod_pow_eq_zero_iff {p q e : Nat} (hp : p.Prime) (hq : q.Prime) (he : 0 < e) :
    ((q : Int) ^ e) % (p : Int) = 0 ↔ p = q := by
  constructor
  · intro h
    have h1 : (p : Int) ∣ ((q ^ e : Nat) : Int) := by
      rw [Nat.cast_pow]; exact Int.dvd_of_emod_eq_zero h
    exact prime_dvd_pow_eq hp hq (Int.natCast_dvd_natCast.mp h1)
  · rintro rfl
    obtain ⟨e', rfl⟩ : ∃ e', e = e' + 1 := ⟨e - 1, by omega⟩
    rw [pow_succ]; exact Int.mul_emod_left _ _

theorem fppSmall_found (isP : Int → Bool) (hP : CorrectOracle isP) (q e : Nat) (hq : q.Prime) (he : 0 < e)
    (hq1024 : q < 1024) (fuel : Nat) (p : Nat) (hp : p.Prime) (hpq : p ≤ q) (hf : q - p < fuel) :
    fppSmall isP ((q : Int) ^ e) fuel (p : Int) = .ok (some ((q : Int), e)) := by
  induction fuel generalizing p with
  | zero => omega
  | succ f ih =>
    simp only [fppSmall]
    rw [if_pos (by omega)]
    by_cases hdiv : ((q : Int) ^ e) % (p : Int) = 0
    · rw [if_pos hdiv]
      have hpq' : p = q := (emod_pow_eq_zero_iff hp hq he).mp hdiv
      subst hpq'
      have hfuel : e < ((p : Int) ^ e).toNat + 1 := by
        have h1 : e < p ^ e := Nat.lt_pow_self hp.one_lt
        have h2 : ((p : Int) ^ e).toNat = p ^ e := by
          rw [← Nat.cast_pow]; exact Int.toNat_natCast _
        omega
      rw [divOut_pow (p : Int) (by exact_mod_cast hp.one_lt) e 0 _ hfuel]
      simp
    · rw [if_neg hdiv]
      have hne : p ≠ q := fun h => hdiv ((emod_pow_eq_zero_iff hp hq he).mpr h)
      obtain ⟨p', h1, h2, h3, h4⟩ := nextPrime_spec isP hP (p : Int)
      rw [h1]
      simp only []
      have hp'pos : 0 ≤ p' := by omega
      obtain ⟨pn, rfl⟩ : ∃ pn : Nat, p' = (pn : Int) := ⟨p'.toNat, (Int.toNat_of_nonneg hp'pos).symm⟩
      have hle : (pn : Int) ≤ (q : Int) := h4 q (by simpa using hq) (by omega)
      exact ih pn (by simpa using h2) (by omega) (by omega)

theorem fppSmall_none (isP : Int → Bool) (hP : CorrectOracle isP) (q e : Nat) (hq : q.Prime) (he : 0 < e)
    (hq1024 : 1024 ≤ q) (fuel : Nat) (p : Nat) (hp : p.Prime) (hf : 1025 ≤ fuel + p) (hf1 : 1 ≤ fuel) :
    fppSmall isP ((q : Int) ^ e) fuel (p : Int) = .ok none := by
  induction fuel generalizing p with
  | zero => omega
  | succ f ih =>
    simp only [fppSmall]
    by_cases hlt : (p : Int) < 1024
    · rw [if_pos hlt]
      have hdiv : ¬ ((q : Int) ^ e) % (p : Int) = 0 := by
        intro h
        have := (emod_pow_eq_zero_iff hp hq he).mp h
        omega
      rw [if_neg hdiv]
      obtain ⟨p', h1, h2, h3, _⟩ := nextPrime_spec isP hP (p : Int)
      rw [h1]
      simp only []
      obtain ⟨pn, rfl⟩ : ∃ pn : Nat, p' = (pn : Int) := ⟨p'.toNat, (Int.toNat_of_nonneg (by omega)).symm⟩
      exact ih pn (by simpa using h2) (by omega) (by omega)
    · rw [if_neg hlt]

/-- y^n = q^k for a prime q forces y = q^j with j*n = k -/
theorem pow_eq_prime_pow {q y n k : Nat} (hq : q.Prime) (hn : 0 < n) (h : y ^ n = q ^ k) :
    ∃ j, y = q ^ j ∧ j * n = k := by
  have hy : y ∣ q ^ k := by rw [← h]; exact dvd_pow_self y (by omega)
  obtain ⟨j, _, rfl⟩ := (Nat.dvd_prime_pow hq).mp hy
  refine ⟨j, rfl, ?_⟩
  rw [← pow_mul] at h
  exact Nat.pow_right_injective hq.two_le h

/-- the integer n-th root of (q^j)^n is q^j -/
theorem root_unique {y b n : Nat} (hn : 0 < n) (h1 : y ^ n ≤ b ^ n) (h2 : b ^ n < (y + 1) ^ n) : y = b := by
  have hn0 : n ≠ 0 := by omega
  have h3 : y ≤ b := (Nat.pow_le_pow_iff_left hn0).mp h1
  have h4 : b < y + 1 := (Nat.pow_lt_pow_iff_left hn0).mp h2
  omega

theorem iroot_prime_pow (q k : Nat) (n : Int) (hq : q.Prime) (hn : 0 < n) :
    ∃ y : Nat, ∃ flag, iroot ((q : Int) ^ k) n = .ok ((y : Int), flag) ∧
      (n.toNat ∣ k → y = q ^ (k / n.toNat) ∧ flag = true) ∧ (¬ n.toNat ∣ k → flag = false) := by
  have hx0 : (0 : Int) ≤ (q : Int) ^ k := by positivity
  obtain ⟨y, hy, hlo, hhi⟩ := (iroot_spec' ((q : Int) ^ k) n).2 hx0 hn
  set m := n.toNat with hm
  have hmpos : 0 < m := by omega
  have hlo' : y ^ m ≤ q ^ k := by exact_mod_cast hlo
  have hhi' : q ^ k < (y + 1) ^ m := by exact_mod_cast hhi
  refine ⟨y, _, hy, ?_, ?_⟩
  · intro hd
    obtain ⟨j, rfl⟩ := hd
    have hj : m * j / m = j := Nat.mul_div_cancel_left j hmpos
    have hpw : q ^ (m * j) = (q ^ j) ^ m := by rw [← pow_mul, mul_comm]
    rw [hpw] at hlo' hhi'
    have hyq : y = q ^ j := root_unique hmpos hlo' hhi'
    refine ⟨by rw [hj]; exact hyq, ?_⟩
    rw [beq_iff_eq, hyq]
    push_cast
    rw [← pow_mul, mul_comm]
  · intro hnd
    rw [Bool.eq_false_iff]
    intro hflag
    rw [beq_iff_eq] at hflag
    have h3 : y ^ m = q ^ k := by exact_mod_cast hflag.symm
    obtain ⟨j, _, hjk⟩ := pow_eq_prime_pow hq hmpos h3
    exact hnd ⟨j, by rw [← hjk, mul_comm]⟩

theorem isSquare_prime_pow (q k : Nat) (hq : q.Prime) :
    isSquare ((q : Int) ^ k) = .ok (decide (k % 2 = 0)) := by
  obtain ⟨b, hb, hiff⟩ := isSquare_spec' ((q : Int) ^ k)
  rw [hb]
  congr 1
  rw [Bool.eq_iff_iff, hiff, decide_eq_true_iff]
  constructor
  · rintro ⟨r, hr⟩
    have h3 : r.natAbs ^ 2 = q ^ k := by
      have : ((r.natAbs ^ 2 : Nat) : Int) = ((q ^ k : Nat) : Int) := by
        rw [pow_two, Nat.cast_mul, Int.natAbs_mul_self', hr]; push_cast; rfl
      exact_mod_cast this
    obtain ⟨j, _, hjk⟩ := pow_eq_prime_pow hq (by omega) h3
    omega
  · intro hk
    refine ⟨(q : Int) ^ (k / 2), ?_⟩
    rw [← pow_add]; congr 1; omega

theorem isqrt_prime_pow (q j : Nat) : isqrt ((q : Int) ^ (2 * j)) = .ok ((q : Int) ^ j) := by
  have hx0 : (0 : Int) ≤ (q : Int) ^ (2 * j) := by positivity
  obtain ⟨y, hy, hlo, hhi⟩ := (isqrt_spec' ((q : Int) ^ (2 * j))).2 hx0
  have hpw : q ^ (2 * j) = (q ^ j) ^ 2 := by rw [← pow_mul, mul_comm]
  have hlo' : y ^ 2 ≤ (q ^ j) ^ 2 := by rw [← hpw]; exact_mod_cast hlo
  have hhi' : (q ^ j) ^ 2 < (y + 1) ^ 2 := by rw [← hpw]; exact_mod_cast hhi
  have := root_unique (by omega : 0 < 2) hlo' hhi'
  rw [hy, this]; push_cast; rfl

theorem fppSquares_complete (q : Nat) (hq : q.Prime) (fuel k d : Nat) (hk : 1 ≤ k) (hf : k < fuel) :
    ∃ k' d', fppSquares fuel ((q : Int) ^ k) d = .ok ((q : Int) ^ k', d') ∧ k' % 2 = 1 ∧
      k' * d' = k * d ∧ k' ≤ k := by
  induction fuel generalizing k d with
  | zero => omega
  | succ f ih =>
    simp only [fppSquares]
    rw [isSquare_prime_pow q k hq]
    by_cases hev : k % 2 = 0
    · simp only [hev, decide_true]
      obtain ⟨j, rfl⟩ : ∃ j, k = 2 * j := ⟨k / 2, by omega⟩
      rw [isqrt_prime_pow]
      simp only []
      obtain ⟨k', d', h1, h2, h3, h4⟩ := ih j (2 * d) (by omega) (by omega)
      exact ⟨k', d', h1, h2, by rw [h3]; ring, by omega⟩
    · simp only [hev, decide_false]
      exact ⟨k, d, rfl, by omega, rfl, le_refl _⟩

theorem bitLength_pow_lower (q k : Nat) (hq : 1024 ≤ q) : 10 * k < bitLength ((q : Int) ^ k) := by
  have hpos : q ^ k ≠ 0 := by positivity
  have h := (bitLength_spec (q ^ k) hpos).2
  rw [Nat.cast_pow] at h
  have h2 : 2 ^ (10 * k) ≤ q ^ k := by
    rw [pow_mul]; exact Nat.pow_le_pow_left (by omega) k
  have h3 : 2 ^ (10 * k) < 2 ^ bitLength ((q : Int) ^ k) := lt_of_le_of_lt h2 h
  exact (Nat.pow_lt_pow_iff_right (by omega)).mp h3

theorem bitLength_pow_mono (q k e : Nat) (hq : 2 ≤ q) (hke : k ≤ e) :
    bitLength ((q : Int) ^ k) ≤ bitLength ((q : Int) ^ e) := by
  have hpos1 : q ^ k ≠ 0 := by positivity
  have hpos2 : q ^ e ≠ 0 := by positivity
  have h1 := (bitLength_spec (q ^ k) hpos1).1
  have h2 := (bitLength_spec (q ^ e) hpos2).2
  rw [Nat.cast_pow] at h1 h2
  have h3 : q ^ k ≤ q ^ e := Nat.pow_le_pow_right (by omega) hke
  have h4 : 2 ^ (bitLength ((q : Int) ^ k) - 1) < 2 ^ bitLength ((q : Int) ^ e) := by omega
  have := (Nat.pow_lt_pow_iff_right (by omega)).mp h4
  omega

theorem exp_lt_bitLength (q e : Nat) (hq : 2 ≤ q) : e < bitLength ((q : Int) ^ e) := by
  have hpos : q ^ e ≠ 0 := by positivity
  have h := (bitLength_spec (q ^ e) hpos).2
  rw [Nat.cast_pow] at h
  have h2 : 2 ^ e ≤ q ^ e := Nat.pow_le_pow_left hq e
  exact (Nat.pow_lt_pow_iff_right (by omega)).mp (lt_of_le_of_lt h2 h)

theorem fppRoots_complete (isP : Int → Bool) (hP : CorrectOracle isP) (q : Nat) (hq : q.Prime)
    (hq1024 : 1024 ≤ q) (B fuel k d c : Nat) (hc : c.Prime) (hc3 : 3 ≤ c) (hk : 1 ≤ k)
    (hinv : ∀ r : Nat, r.Prime → r ∣ k → c ≤ r) (hB : bitLength ((q : Int) ^ k) ≤ B)
    (hf : k + (B - c) + 1 ≤ fuel) :
    fppRoots isP fuel ((q : Int) ^ k) d (c : Int) = .ok ((q : Int), k * d) := by
  induction fuel generalizing k d c with
  | zero => omega
  | succ f ih =>
    simp only [fppRoots]
    by_cases hcond : 10 * (c : Int) ≤ (bitLength ((q : Int) ^ k) : Int)
    · rw [if_pos hcond]
      have hcB : c < B := by omega
      obtain ⟨y, flag, hir, h1, h2⟩ := iroot_prime_pow q k (c : Int) hq (by omega)
      rw [Int.toNat_natCast] at h1 h2
      rw [hir]
      by_cases hdvd : c ∣ k
      · obtain ⟨hy, hflag⟩ := h1 hdvd
        subst hflag
        simp only [Int.toNat_natCast]
        obtain ⟨j, rfl⟩ := hdvd
        have hj : c * j / c = j := Nat.mul_div_cancel_left j (by omega)
        rw [hj] at hy
        have hjpos : 1 ≤ j := by
          rcases Nat.eq_zero_or_pos j with h0 | h0
          · subst h0; omega
          · exact h0
        have hjlt : j < c * j := by nlinarith
        rw [hy]; push_cast
        rw [ih j (c * d) c hc hc3 hjpos (fun r hr hrj => hinv r hr (Dvd.dvd.mul_left hrj c))
          (le_trans (bitLength_pow_mono q j (c * j) hq.two_le (by omega)) hB) (by omega)]
        congr 2; ring
      · have hflag := h2 hdvd
        subst hflag
        simp only []
        obtain ⟨c', hn1, hn2, hn3, hn4⟩ := nextPrime_spec isP hP (c : Int)
        rw [hn1]
        simp only []
        obtain ⟨cn, rfl⟩ : ∃ cn : Nat, c' = (cn : Int) := ⟨c'.toNat, (Int.toNat_of_nonneg (by omega)).symm⟩
        have hcn : c < cn := by omega
        apply ih k d cn (by simpa using hn2) (by omega) hk _ hB (by omega)
        intro r hr hrk
        have hcr := hinv r hr hrk
        have hne : r ≠ c := by rintro rfl; exact hdvd hrk
        have : (cn : Int) ≤ (r : Int) := hn4 r (by simpa using hr) (by omega)
        omega
    · rw [if_neg hcond]
      have hk1 : k = 1 := by
        by_contra hne
        obtain ⟨r, hr, hrk⟩ := Nat.exists_prime_and_dvd (by omega : k ≠ 1)
        have h1 := hinv r hr hrk
        have h2 := Nat.le_of_dvd (by omega) hrk
        have h3 := bitLength_pow_lower q k hq1024
        omega
      subst hk1
      simp

theorem factorPrimePower_complete (isP : Int → Bool) (hP : CorrectOracle isP) (q e : Nat) (hq : q.Prime)
    (he : 0 < e) : factorPrimePower isP ((q : Int) ^ e) = .ok ((q : Int), e) := by
  have hx : ¬ ((q : Int) ^ e ≤ 1) := by
    have : (1 : Int) < (q : Int) ^ e := one_lt_pow₀ (by exact_mod_cast hq.one_lt) (by omega)
    omega
  unfold factorPrimePower
  rw [if_neg hx]
  by_cases hsmall : q < 1024
  · have := fppSmall_found isP hP q e hq he hsmall 1024 2 Nat.prime_two hq.two_le (by omega)
    rw [show ((2 : Nat) : Int) = 2 from rfl] at this
    rw [this]
  · have hq1024 : 1024 ≤ q := by omega
    have := fppSmall_none isP hP q e hq he hq1024 1024 2 Nat.prime_two (by omega) (by omega)
    rw [show ((2 : Nat) : Int) = 2 from rfl] at this
    rw [this]
    simp only []
    set B := bitLength ((q : Int) ^ e) with hB
    have heB : e < B := exp_lt_bitLength q e hq.two_le
    obtain ⟨k', d', h1, h2, h3, h4⟩ := fppSquares_complete q hq (B + 1) e 1 (by omega) (by omega)
    rw [h1]
    simp only []
    have hk'pos : 1 ≤ k' := by omega
    have hroots := fppRoots_complete isP hP q hq hq1024 B (2 * B + 2) k' d' 3 Nat.prime_three (le_refl _) hk'pos
      (fun r hr hrk => by
        rcases hr.eq_two_or_odd with h | h
        · subst h; omega
        · have := hr.two_le
          rcases Nat.lt_or_ge r 3 with h' | h'
          · omega
          · exact h')
      (bitLength_pow_mono q k' e hq.two_le h4) (by omega)
    rw [show ((3 : Nat) : Int) = 3 from rfl] at hroots
    rw [hroots]
    simp only []
    have hisP : isP (q : Int) = true := (hP q).mpr (by simpa using hq)
    rw [if_pos hisP, h3, mul_one]

end MpycV.NumTh
