/-
Lifting of small prime fields (sectypes._SecFld): the constants of the executable extension-field model
`extOps q m` (ExtF, degree ≥ 2) resp. of a binary field `binOps m` form a copy of GF(q); `liftIn` lands on the
constants and `outConv` inverts the embedding and rejects non-constants.
-/
import MpycV.Lemmas.SecFldBits
import Mathlib.Data.Nat.Prime.Basic

namespace MpycV.SecFld
open MpycV.GFpX

/-- the constant polynomial with value a (normalised coefficient list) -/
def const (a : Nat) : List Nat := if a = 0 then [] else [a]

theorem const_length_le (a : Nat) : (const a).length ≤ 1 := by unfold const; split <;> simp

theorem modCore_short {q : Nat} {v m : List Nat} (h : v.length < m.length) : GFpX.modCore q v m = v := by
  unfold GFpX.modCore; simp [h]

theorem norm_single (c : Nat) : GFpX.norm [c] = const c := by
  simp [GFpX.norm, const]

theorem ext_ofNat {q : Nat} {m : List Nat} (hm : 3 ≤ m.length) {n : Nat} (hn : n < q) :
    (extOps q m).ofNat n = const n := by
  show ExtF.ofInt q m (n : Int) = const n
  unfold ExtF.ofInt ExtF.mk GFpX.fromInt
  have hneg : ¬ ((n : Int) < 0) := by omega
  simp only [hneg, if_false, Int.natAbs_natCast]
  have hd : GFpX.digits q n = const n := by
    unfold GFpX.digits const
    cases n with
    | zero => simp [GFpX.digitsAux]
    | succ k =>
      have h1 : (k + 1) % q = k + 1 := Nat.mod_eq_of_lt hn
      have h2 : (k + 1) / q = 0 := Nat.div_eq_of_lt hn
      cases k with
      | zero => simp [GFpX.digitsAux, h1]
      | succ j => simp [GFpX.digitsAux, h1, h2]
  rw [hd]
  exact modCore_short (by have := const_length_le n; omega)

theorem ext_toNat_const {q : Nat} {m : List Nat} (a : Nat) : (extOps q m).toNat (const a) = a := by
  show ExtF.toInt q (const a) = a
  unfold ExtF.toInt GFpX.toInt const
  split <;> simp_all

theorem ext_add_const {q : Nat} {m : List Nat} (hm : 3 ≤ m.length) {a b : Nat} (ha : a < q) (hb : b < q) :
    (extOps q m).add (const a) (const b) = const ((a + b) % q) := by
  show ExtF.add q m (const a) (const b) = _
  unfold ExtF.add ExtF.mk GFpX.add
  have key : GFpX.norm (GFpX.zipAdd q (const a) (const b)) = const ((a + b) % q) := by
    unfold const
    by_cases h0 : a = 0 <;> by_cases h1 : b = 0
    · simp [h0, h1, GFpX.zipAdd, GFpX.norm]
    · simp [h0, h1, GFpX.zipAdd, GFpX.norm, Nat.mod_eq_of_lt hb]
    · simp [h0, h1, GFpX.zipAdd, GFpX.norm, Nat.mod_eq_of_lt ha]
    · have : GFpX.addC q a b = (a + b) % q := by
        unfold GFpX.addC
        split
        · rw [Nat.mod_eq_sub_mod (by omega), Nat.mod_eq_of_lt (by omega)]
        · rw [Nat.mod_eq_of_lt (by omega)]
      simp only [h0, h1, if_false, GFpX.zipAdd, this]
      have := norm_single ((a + b) % q)
      unfold const at this
      exact this
  rw [key]
  exact modCore_short (by have := const_length_le ((a + b) % q); omega)

theorem ext_mul_const {q : Nat} {m : List Nat} (hq : q.Prime) (hm : 3 ≤ m.length) {a b : Nat} (ha : a < q) (hb : b < q) :
    (extOps q m).mul (const a) (const b) = const ((a * b) % q) := by
  show ExtF.mul q m (const a) (const b) = _
  unfold ExtF.mul ExtF.mk
  have key : GFpX.mul q (const a) (const b) = const ((a * b) % q) := by
    unfold const
    by_cases h0 : a = 0 <;> by_cases h1 : b = 0
    · simp [h0, h1, GFpX.mul, GFpX.mulCore]
    · simp [h0, h1, GFpX.mul, GFpX.mulCore]
    · simp [h0, h1, GFpX.mul, GFpX.mulCore]
    · have hne : (a * b) % q ≠ 0 := by
        intro h
        have hd : q ∣ a * b := Nat.dvd_of_mod_eq_zero h
        rcases (Nat.Prime.dvd_mul hq).mp hd with h | h
        · exact h0 (Nat.eq_zero_of_dvd_of_lt h ha)
        · exact h1 (Nat.eq_zero_of_dvd_of_lt h hb)
      simp [h0, h1, hne, GFpX.mul, GFpX.mulCore, GFpX.convN, GFpX.zipAddN, GFpX.shift1]
  rw [key]
  exact modCore_short (by have := const_length_le ((a * b) % q); omega)


theorem ext_sub_const {q : Nat} {m : List Nat} (hm : 3 ≤ m.length) {a b : Nat} (ha : a < q) (hb : b < q) :
    (extOps q m).sub (const a) (const b) = const ((a + q - b) % q) := by
  show ExtF.sub q m (const a) (const b) = _
  unfold ExtF.sub ExtF.mk GFpX.sub
  have key : GFpX.norm (GFpX.zipSub q (const a) (const b)) = const ((a + q - b) % q) := by
    unfold const
    by_cases h0 : a = 0 <;> by_cases h1 : b = 0
    · simp [h0, h1, GFpX.zipSub, GFpX.norm]
    · have e : (0 + q - b) % q = q - b := by rw [Nat.zero_add]; exact Nat.mod_eq_of_lt (by omega)
      have s0 : GFpX.subC q 0 b = q - b := by
        unfold GFpX.subC; rw [if_pos (by omega)]; omega
      have hqb : q - b ≠ 0 := by omega
      simp only [h0, h1, if_true, if_false, GFpX.zipSub, s0, e]
      have := norm_single (q - b)
      unfold const at this
      exact this
    · have e : (a + q - 0) % q = a := by
        rw [Nat.sub_zero, Nat.add_mod_right]; exact Nat.mod_eq_of_lt ha
      simp only [h0, h1, if_true, if_false, GFpX.zipSub, e]
      have := norm_single a
      unfold const at this
      rw [if_neg h0] at this
      exact this
    · have : GFpX.subC q a b = (a + q - b) % q := by
        unfold GFpX.subC
        split
        · rw [Nat.mod_eq_of_lt (by omega)]
        · have : a + q - b = (a - b) + q := by omega
          rw [this, Nat.add_mod_right, Nat.mod_eq_of_lt (by omega)]
      simp only [h0, h1, if_false, GFpX.zipSub, this]
      have := norm_single ((a + q - b) % q)
      unfold const at this
      exact this
  rw [key]
  exact modCore_short (by have := const_length_le ((a + q - b) % q); omega)

theorem ext_liftIn {q : Nat} {m : List Nat} (hq : 0 < q) (hm : 3 ≤ m.length) (v : Int) :
    liftIn (extOps q m) q v = const (v % (q : Int)).toNat := by
  unfold liftIn
  apply ext_ofNat hm
  have h1 := Int.emod_lt_of_pos v (by omega : (0 : Int) < q)
  have h2 := Int.emod_nonneg v (by omega : (q : Int) ≠ 0)
  omega

theorem ext_outConv_const {q : Nat} {m : List Nat} {a : Nat} (ha : a < q) :
    outConv (extOps q m) q (const a) = some a := by
  unfold outConv; rw [ext_toNat_const]; simp [ha]

theorem toInt_pos {q : Nat} (hq : 0 < q) : ∀ (a : List Nat), a ≠ [] → a.getLast? ≠ some 0 → 0 < GFpX.toInt q a := by
  intro a
  induction a with
  | nil => intro h; exact absurd rfl h
  | cons x rest ih =>
    intro _ hl
    show 0 < GFpX.toInt q rest * q + x
    cases rest with
    | nil =>
      have : x ≠ 0 := by simpa using hl
      omega
    | cons y r =>
      have := ih (by simp) (by simpa using hl)
      have : 0 < GFpX.toInt q (y :: r) * q := Nat.mul_pos this hq
      omega

/-- non-constants are rejected by out_conv (the assertion `degree <= 0`) -/
theorem ext_outConv_nonconst {q : Nat} {m : List Nat} (hq : 0 < q) {a : List Nat} (h : 2 ≤ a.length)
    (hl : a.getLast? ≠ some 0) : outConv (extOps q m) q a = none := by
  unfold outConv
  have : ¬ (extOps q m).toNat a < q := by
    show ¬ GFpX.toInt q a < q
    match a, h, hl with
    | x :: y :: rest, _, hl =>
      have hpos := toInt_pos hq (y :: rest) (by simp) (by simpa using hl)
      show ¬ GFpX.toInt q (y :: rest) * q + x < q
      have : q ≤ GFpX.toInt q (y :: rest) * q := Nat.le_mul_of_pos_left q hpos
      omega
  simp [this]

/-! lifted GF(2): the constants 0, 1 of a binary field -/
theorem bin_lift {m : Nat} (hm : 3 ≤ BinPoly.bitLen m) {a b : Nat} (ha : a < 2) (hb : b < 2) :
    (binOps m).add a b = (a + b) % 2 ∧ (binOps m).sub a b = (a + 2 - b) % 2 ∧ (binOps m).mul a b = (a * b) % 2 ∧
    outConv (binOps m) 2 a = some a ∧ (∀ v : Int, liftIn (binOps m) 2 v = (v % 2).toNat) := by
  have h2 : (2 : Nat) ≤ 2 ^ (BinPoly.bitLen m - 1) := by
    calc (2 : Nat) = 2 ^ 1 := rfl
      _ ≤ 2 ^ (BinPoly.bitLen m - 1) := Nat.pow_le_pow_right (by omega) (by omega)
  have hsub : (binOps m).sub a b = (binOps m).add a b := rfl
  refine ⟨?_, ?_, ?_, ?_, ?_⟩
  · rw [bin_add (by omega) (by omega) (by omega)]
    have : a = 0 ∨ a = 1 := by omega
    have : b = 0 ∨ b = 1 := by omega
    rcases ‹a = 0 ∨ a = 1› with rfl | rfl <;> rcases ‹b = 0 ∨ b = 1› with rfl | rfl <;> decide
  · rw [hsub, bin_add (by omega) (by omega) (by omega)]
    have : a = 0 ∨ a = 1 := by omega
    have : b = 0 ∨ b = 1 := by omega
    rcases ‹a = 0 ∨ a = 1› with rfl | rfl <;> rcases ‹b = 0 ∨ b = 1› with rfl | rfl <;> decide
  · rw [bin_mul_bits (by omega) ha hb]
    have : a = 0 ∨ a = 1 := by omega
    have : b = 0 ∨ b = 1 := by omega
    rcases ‹a = 0 ∨ a = 1› with rfl | rfl <;> rcases ‹b = 0 ∨ b = 1› with rfl | rfl <;> decide
  · unfold outConv; rw [bin_toNat]; simp [ha]
  · intro v
    unfold liftIn
    apply bin_ofNat (by omega)
    have h1 := Int.emod_lt_of_pos v (by omega : (0 : Int) < 2)
    have h2' := Int.emod_nonneg v (by omega : (2 : Int) ≠ 0)
    have : (v % ((2 : Nat) : Int)).toNat < 2 := by omega
    omega

end MpycV.SecFld
