/-
`powmod` of the list model (≙ gfpx.py `_powmod`): left-to-right binary exponentiation.
-/
import MpycV.Lemmas.GFpXGcd

open Polynomial

namespace MpycV.GFpX

variable {p : ℕ}

/-! ### binary digits -/

/-- value of a most-significant-first bit list continuing from `s` -/
def fromBits (s : ℕ) (l : List Bool) : ℕ := l.foldl (fun v b => 2 * v + b.toNat) s

@[simp] theorem fromBits_nil (s : ℕ) : fromBits s [] = s := rfl
@[simp] theorem fromBits_cons (s : ℕ) (b : Bool) (l : List Bool) :
    fromBits s (b :: l) = fromBits (2 * s + b.toNat) l := rfl

theorem fromBits_bitsAux : ∀ (f n : ℕ) (acc : List Bool), n ≤ f →
    fromBits 0 (bitsAux f n acc) = fromBits n acc := by
  intro f
  induction f with
  | zero =>
    intro n acc h
    have : n = 0 := by omega
    subst this; rfl
  | succ f ih =>
    intro n acc h
    rw [bitsAux]
    split
    · rename_i h0; subst h0; rfl
    · rename_i h0
      rw [ih (n / 2) _ (by omega), fromBits_cons]
      congr 1
      by_cases h1 : n % 2 = 1
      · simp [h1]; omega
      · simp [h1]; omega

theorem bitsAux_head : ∀ (f n : ℕ) (acc : List Bool), n ≤ f → n ≠ 0 →
    ∃ t, bitsAux f n acc = true :: t := by
  intro f
  induction f with
  | zero => intro n acc h h0; omega
  | succ f ih =>
    intro n acc h h0
    rw [bitsAux, if_neg h0]
    by_cases h2 : n / 2 = 0
    · have h1 : n = 1 := by omega
      subst h1
      refine ⟨acc, ?_⟩
      cases f <;> simp [bitsAux]
    · exact ih (n / 2) _ (by omega) h2

theorem fromBits_tail_bitsMSB {n : ℕ} (hn : n ≠ 0) : fromBits 1 (bitsMSB n).tail = n := by
  obtain ⟨t, ht⟩ := bitsAux_head n n [] le_rfl hn
  have h := fromBits_bitsAux n n [] le_rfl
  rw [bitsMSB, ht] at *
  simpa using h

theorem bitsMSB_tail_ne_nil {n : ℕ} (hn : 2 ≤ n) : (bitsMSB n).tail ≠ [] := by
  intro h
  have := fromBits_tail_bitsMSB (n := n) (by omega)
  rw [h] at this
  simp at this
  omega

/-! ### congruences modulo a polynomial -/

section cong
variable {F : Type*} [Field F]

theorem mod_mod_self (x m : F[X]) : x % m % m = x % m := by
  by_cases hm : m = 0
  · subst hm; simp
  · exact (mod_eq_self_iff hm).mpr (degree_mod_lt x hm)

theorem mul_mod_congr {x y z w m : F[X]} (h1 : x % m = y % m) (h2 : z % m = w % m) :
    (x * z) % m = (y * w) % m := by
  rw [mul_mod, h1, h2, ← mul_mod]

theorem pow_mod_congr {x y m : F[X]} (h : x % m = y % m) (n : ℕ) : x ^ n % m = y ^ n % m := by
  induction n with
  | zero => simp
  | succ n ih => rw [pow_succ, pow_succ]; exact mul_mod_congr ih h

end cong

/-! ### the loop with a modulus -/

theorem wf_sq [Fact p.Prime] {a : Poly} (ha : WF p a) : WF p (sq p a) := by
  rw [sq_eq_mul_self (Fact.out : p.Prime).pos]; exact wf_mul ha ha

theorem powStep_some_spec [Fact p.Prime] {a m b : Poly} (ha : WF p a) (hm : WF p m)
    (hmne : m ≠ []) (hb : WF p b) (bit : Bool) :
    ∃ r, powStep p a (some m) b bit = .ok r ∧ WF p r ∧ r.length < m.length ∧
      toPoly p r % toPoly p m =
        (toPoly p b * toPoly p b * toPoly p a ^ bit.toNat) % toPoly p m := by
  have h1w := wf_sq hb
  have h2w := wf_modCore h1w hm hmne
  have h2l := length_modCore_lt h1w hm hmne
  have h2e := toPoly_modCore h1w hm hmne
  rw [toPoly_sq] at h2e
  cases bit with
  | false =>
    refine ⟨modCore p (sq p b) m, ?_, h2w, h2l, ?_⟩
    · simp [powStep, modOpt, mod, hmne, bind, Except.bind, pure, Except.pure]
    · rw [h2e, mod_mod_self]; simp
  | true =>
    have h3w := wf_mul h2w ha
    refine ⟨modCore p (mul p (modCore p (sq p b) m) a) m, ?_, wf_modCore h3w hm hmne,
      length_modCore_lt h3w hm hmne, ?_⟩
    · simp [powStep, modOpt, mod, hmne, bind, Except.bind]
    · rw [toPoly_modCore h3w hm hmne, toPoly_mul, h2e, mod_mod_self]
      simp only [Bool.toNat_true, pow_one]
      exact mul_mod_congr (mod_mod_self _ _) rfl

theorem powLoop_some_spec [Fact p.Prime] {a m : Poly} (ha : WF p a) (hm : WF p m) (hmne : m ≠ []) :
    ∀ (bits : List Bool) (b : Poly) (v : ℕ), WF p b →
      toPoly p b % toPoly p m = toPoly p a ^ v % toPoly p m →
      ∃ r, powLoop p a (some m) bits b = .ok r ∧ WF p r ∧ (bits ≠ [] → r.length < m.length) ∧
        toPoly p r % toPoly p m = toPoly p a ^ fromBits v bits % toPoly p m := by
  intro bits
  induction bits with
  | nil =>
    intro b v hb hv
    exact ⟨b, rfl, hb, fun h => absurd rfl h, hv⟩
  | cons bit bits ih =>
    intro b v hb hv
    obtain ⟨r1, e1, w1, l1, c1⟩ := powStep_some_spec ha hm hmne hb bit
    have hv' : toPoly p r1 % toPoly p m = toPoly p a ^ (2 * v + bit.toNat) % toPoly p m := by
      rw [c1, pow_add, two_mul, pow_add]
      exact mul_mod_congr (mul_mod_congr hv hv) rfl
    obtain ⟨r, e2, w2, l2, c2⟩ := ih r1 (2 * v + bit.toNat) w1 hv'
    refine ⟨r, ?_, w2, fun _ => ?_, ?_⟩
    · simp [powLoop, e1, e2, bind, Except.bind]
    · by_cases hb0 : bits = []
      · subst hb0
        simp only [powLoop, pure, Except.pure, Except.ok.injEq] at e2
        rw [← e2]; exact l1
      · exact l2 hb0
    · rw [fromBits_cons]; exact c2

/-! ### the loop without modulus -/

theorem powLoop_none_spec [Fact p.Prime] {a : Poly} (ha : WF p a) :
    ∀ (bits : List Bool) (b : Poly) (v : ℕ), WF p b → toPoly p b = toPoly p a ^ v →
      ∃ r, powLoop p a none bits b = .ok r ∧ WF p r ∧ toPoly p r = toPoly p a ^ fromBits v bits := by
  intro bits
  induction bits with
  | nil => intro b v hb hv; exact ⟨b, rfl, hb, hv⟩
  | cons bit bits ih =>
    intro b v hb hv
    have h1w := wf_sq hb
    cases bit with
    | false =>
      obtain ⟨r, e, w, c⟩ := ih (sq p b) (2 * v) h1w (by rw [toPoly_sq, hv]; ring)
      exact ⟨r, by simp [powLoop, powStep, modOpt, bind, Except.bind, pure, Except.pure, e], w,
        by simpa using c⟩
    | true =>
      obtain ⟨r, e, w, c⟩ := ih (mul p (sq p b) a) (2 * v + 1) (wf_mul h1w ha)
        (by rw [toPoly_mul, toPoly_sq, hv]; ring)
      exact ⟨r, by simp [powLoop, powStep, modOpt, bind, Except.bind, e], w, by simpa using c⟩

/-! ### powmod -/

theorem wf_one [Fact p.Prime] : WF p [1] :=
  ⟨by simp [Reduced, (Fact.out : p.Prime).one_lt], by simp [Normalised]⟩

/-- positive exponent with modulus: result ≡ a^n (mod m), reduced when n ≥ 2 -/
theorem powmod_pos_some [Fact p.Prime] {a m : Poly} (ha : WF p a) (hm : WF p m) (hmne : m ≠ [])
    {n : ℕ} (hn : 0 < n) :
    ∃ r, powmod p a (n : ℤ) (some m) = .ok r ∧ WF p r ∧ (2 ≤ n → r.length < m.length) ∧
      toPoly p r % toPoly p m = toPoly p a ^ n % toPoly p m := by
  obtain ⟨r, e, w, l, c⟩ := powLoop_some_spec ha hm hmne (bitsMSB n).tail a 1 ha (by simp)
  refine ⟨r, ?_, w, fun h2 => l (bitsMSB_tail_ne_nil h2), ?_⟩
  · unfold powmod
    rw [if_neg (by omega), if_neg (by omega)]
    simpa using e
  · rw [c, fromBits_tail_bitsMSB (by omega)]

/-- positive exponent without modulus: result = a^n exactly -/
theorem powmod_pos_none [Fact p.Prime] {a : Poly} (ha : WF p a) {n : ℕ} (hn : 0 < n) :
    ∃ r, powmod p a (n : ℤ) none = .ok r ∧ WF p r ∧ toPoly p r = toPoly p a ^ n := by
  obtain ⟨r, e, w, c⟩ := powLoop_none_spec ha (bitsMSB n).tail a 1 ha (by simp)
  refine ⟨r, ?_, w, ?_⟩
  · unfold powmod
    rw [if_neg (by omega), if_neg (by omega)]
    simpa using e
  · rw [c, fromBits_tail_bitsMSB (by omega)]

theorem powmod_zero (a : Poly) (m : Option Poly) : powmod p a 0 m = .ok [1] := by
  simp [powmod, pure, Except.pure]

theorem powmod_neg_none (a : Poly) {n : ℤ} (hn : n < 0) : powmod p a n none = .error .value := by
  unfold powmod
  rw [if_neg (by omega), if_pos hn]

theorem invert_error (a b : Poly) {e : Err} (h : invert p a b = .error e) : e = .zeroDivision := by
  unfold invert at h
  split at h
  · simpa using h.symm
  · simp only at h
    split at h
    · simp at h
    · simpa using h.symm

/-- negative exponent with modulus: error iff `invert` fails, else the result times `a^|n|` is ≡ 1 -/
theorem powmod_neg_some [Fact p.Prime] {a m : Poly} (ha : WF p a) (hm : WF p m) (hmne : m ≠ [])
    {n : ℕ} (hn : 0 < n) :
    (¬ IsCoprime (toPoly p a) (toPoly p m) → powmod p a (-(n : ℤ)) (some m) = .error .zeroDivision) ∧
    (IsCoprime (toPoly p a) (toPoly p m) →
      ∃ r, powmod p a (-(n : ℤ)) (some m) = .ok r ∧ WF p r ∧
        (toPoly p r * toPoly p a ^ n) % toPoly p m = 1 % toPoly p m) := by
  obtain ⟨i1, i2⟩ := invert_spec ha hm
  have hunf : powmod p a (-(n : ℤ)) (some m) =
      (invert p a m >>= fun a' => powLoop p a' (some m) (bitsMSB n).tail a') := by
    unfold powmod
    rw [if_neg (by omega), if_pos (by omega)]
    simp
  constructor
  · intro hnc
    have : invert p a m = .error .zeroDivision := i1.mpr (Or.inr hnc)
    rw [hunf, this]; rfl
  · intro hc
    cases hinv : invert p a m with
    | error e =>
      exfalso
      have he : e = .zeroDivision := invert_error a m hinv
      subst he
      rcases i1.mp hinv with h | h
      · exact hmne h
      · exact h hc
    | ok a' =>
      obtain ⟨wa', hdvd⟩ := i2 a' hinv
      obtain ⟨r, e, w, _, c⟩ := powLoop_some_spec wa' hm hmne (bitsMSB n).tail a' 1 wa' (by simp)
      refine ⟨r, ?_, w, ?_⟩
      · rw [hunf, hinv]; exact e
      · rw [fromBits_tail_bitsMSB (by omega)] at c
        have h1 : (toPoly p a' * toPoly p a) % toPoly p m = 1 % toPoly p m :=
          mod_eq_of_dvd_sub hdvd
        have h2 : (toPoly p a' ^ n * toPoly p a ^ n) % toPoly p m = 1 % toPoly p m := by
          rw [← mul_pow]
          have := pow_mod_congr h1 n
          simpa using this
        rw [← h2]
        exact mul_mod_congr c rfl

end MpycV.GFpX
