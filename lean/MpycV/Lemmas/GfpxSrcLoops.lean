/-
Generic lemmas for the bridge between the translator output for mpyc/gfpx.py (Lemmas/GfpxSrcMirror.lean: `pyFor` /
`loop` over `List Int` with Python index guards) and the hand-written model MpycV.Model.GFpX (structural recursion over
`List Nat`).
-/
import MpycV.Model.PyPoly
import MpycV.Model.GFpX
import Mathlib.Tactic.Ring
import Mathlib.Tactic.Linarith
import Mathlib.Data.List.Basic

namespace MpycV.GfpxBridge
open MpycV.PyList MpycV.PyLoop MpycV.PyPoly

/-- a `List Nat` of the model as the `List Int` of the translated code -/
def up (l : List Nat) : List Int := l.map Int.ofNat

@[simp] theorem up_nil : up [] = [] := rfl
@[simp] theorem up_cons (x : Nat) (l : List Nat) : up (x :: l) = (x : Int) :: up l := rfl
@[simp] theorem up_length (l : List Nat) : (up l).length = l.length := by simp [up]
theorem up_append (a b : List Nat) : up (a ++ b) = up a ++ up b := by simp [up]
theorem up_eq_nil {l : List Nat} : up l = [] ↔ l = [] := by simp [up]
theorem up_injective : Function.Injective up :=
  List.map_injective_iff.mpr (fun _ _ h => Int.ofNat.inj h)
theorem up_getD (l : List Nat) (i : Nat) : (up l).getD i 0 = ((l.getD i 0 : Nat) : Int) := by
  simp [up, List.getD_eq_getElem?_getD, List.getElem?_map]
  cases l[i]? <;> simp
theorem up_replicate (n : Nat) : up (List.replicate n 0) = List.replicate n (0 : Int) := by simp [up]

/-- errors of the model as errors of the translated code -/
def liftE {α β : Type} (f : α → β) : Except GFpX.Err α → Except TErr β
  | .ok x => .ok (f x)
  | .error .zeroDivision => .error .zeroDivisionError
  | .error .value => .error .valueError

/-! ### `pyFor` with a body that never raises = `foldl` -/

theorem pyFor_eq_foldl {α σ ε : Type} (Inv : σ → Prop) (f : σ → α → σ) (body : α → σ → Except ε σ) :
    ∀ (xs : List α) (init : σ), Inv init →
      (∀ s x, x ∈ xs → Inv s → body x s = .ok (f s x) ∧ Inv (f s x)) →
      pyFor xs init body = .ok (xs.foldl f init) ∧ Inv (xs.foldl f init) := by
  intro xs
  induction xs with
  | nil => intro init h0 _; exact ⟨rfl, h0⟩
  | cons a rest ih =>
    intro init h0 hstep
    obtain ⟨e, hi⟩ := hstep init a (List.mem_cons_self) h0
    rw [pyFor, e]
    exact ih (f init a) hi (fun s x hx hs => hstep s x (List.mem_cons_of_mem _ hx) hs)

/-! ### Python indexing with natural indices -/

theorem pyIdx_nat (n i : Nat) : pyIdx n (i : Int) = i := by
  unfold pyIdx; rw [if_neg (by omega)]; simp

theorem pyIdxOk_nat {n i : Nat} (h : i < n) : pyIdxOk n (i : Int) = true := by
  unfold pyIdxOk; simp; omega

theorem pyGet_nat (l : List Int) (i : Nat) : pyGet l (i : Int) = l.getD i 0 := by
  unfold pyGet; rw [pyIdx_nat]; rfl

theorem pySet_nat (l : List Int) (i : Nat) (v : Int) : pySet l (i : Int) v = l.set i v := by
  unfold pySet; rw [pyIdx_nat]

theorem pyIdxOk_neg_one {l : List Int} (h : l ≠ []) : pyIdxOk l.length (-1) = true := by
  have := List.length_pos_of_ne_nil h
  unfold pyIdxOk; simp; omega

theorem pyIdx_neg_one {n : Nat} (h : 0 < n) : pyIdx n (-1) = n - 1 := by
  unfold pyIdx; rw [if_pos (by omega)]; omega

theorem pyGet_neg_one {l : List Int} (h : l ≠ []) : pyGet l (-1) = l.getLastD 0 := by
  have hl := List.length_pos_of_ne_nil h
  unfold pyGet
  rw [pyIdx_neg_one hl, List.getLastD_eq_getLast?, List.getLast?_eq_getElem?, List.getD_eq_getElem?_getD]
  rfl

theorem pySet_neg_one {l : List Int} (h : l ≠ []) (v : Int) : pySet l (-1) v = l.set (l.length - 1) v := by
  unfold pySet; rw [pyIdx_neg_one (List.length_pos_of_ne_nil h)]

theorem pyRange_zero_nat (n : Nat) : pyRange 0 (n : Int) = (List.range n).map fun (k : Nat) => (k : Int) := by
  unfold pyRange; simp

theorem pyRangeDown_nat (k : Nat) : pyRangeDown ((k : Int) - 1) (-1) = ((List.range k).reverse).map fun (j : Nat) => (j : Int) := by
  unfold pyRangeDown
  have h : ((k : Int) - 1 - (-1)).toNat = k := by omega
  rw [h]
  apply List.ext_getElem
  · simp
  · intro i h1 h2
    simp at h1
    simp [List.getElem_reverse]
    omega

theorem pyEnum_eq (b : List Int) : pyEnum b = (b.zipIdx).map fun xk => ((xk.2 : Int), xk.1) := rfl

/-! ### pointwise update at an offset -/

/-- `c[h + j] := g c[h + j] b[j]` for all `j < len b` (as far as `c` reaches) -/
def updAt (g : Int → Int → Int) : Nat → List Int → List Int → List Int
  | 0, c, [] => c
  | 0, [], _ :: _ => []
  | 0, x :: c, y :: b => g x y :: updAt g 0 c b
  | _ + 1, [], _ => []
  | h + 1, x :: c, b => x :: updAt g h c b

theorem updAt_nil (g : Int → Int → Int) (h : Nat) (c : List Int) : updAt g h c [] = c := by
  induction h generalizing c with
  | zero => cases c <;> rfl
  | succ h ih => cases c with
    | nil => rfl
    | cons x c => simp [updAt, ih]

theorem length_updAt (g : Int → Int → Int) : ∀ (h : Nat) (c b : List Int), h + b.length ≤ c.length →
    (updAt g h c b).length = c.length := by
  intro h
  induction h with
  | zero =>
    intro c b
    induction b generalizing c with
    | nil => intro _; rw [updAt_nil]
    | cons y b ih =>
      intro hl
      cases c with
      | nil => simp at hl
      | cons x c => simp only [updAt, List.length_cons]; rw [ih c (by simp at hl; omega)]
  | succ h ih =>
    intro c b hl
    cases c with
    | nil => simp at hl
    | cons x c => simp only [updAt, List.length_cons]; rw [ih c b (by simp at hl; omega)]

theorem updAt_set_step (g : Int → Int → Int) : ∀ (n : Nat) (c : List Int) (y : Int) (b : List Int),
    updAt g (n + 1) (c.set n (g (c.getD n 0) y)) b = updAt g n c (y :: b) := by
  intro n
  induction n with
  | zero =>
    intro c y b
    cases c with
    | nil => simp [updAt]
    | cons x c => simp [updAt]
  | succ n ih =>
    intro c y b
    cases c with
    | nil => simp [updAt]
    | cons x c =>
      simp only [List.set_cons_succ, updAt, List.getD_cons_succ]
      rw [ih]

/-- the in-place loop `for j, y in enumerate(b): c[h+j] = g(c[h+j], y)` as a fold = `updAt` -/
theorem foldl_enum_set (g : Int → Int → Int) (h : Nat) : ∀ (b : List Int) (k : Nat) (c : List Int),
    (b.zipIdx k).foldl (fun c xj => c.set (h + xj.2) (g (c.getD (h + xj.2) 0) xj.1)) c = updAt g (h + k) c b := by
  intro b
  induction b with
  | nil => intro k c; simp [updAt_nil]
  | cons y b ih =>
    intro k c
    simp only [List.zipIdx_cons, List.foldl_cons]
    rw [ih (k + 1), ← Nat.add_assoc, updAt_set_step]

/-- `for i in range(n): c[i] = f(c[i])` as a fold = map on the first n entries -/
def mapFirst (f : Int → Int) : Nat → List Int → List Int
  | 0, c => c
  | _ + 1, [] => []
  | n + 1, x :: c => f x :: mapFirst f n c

theorem length_mapFirst (f : Int → Int) : ∀ (n : Nat) (c : List Int), (mapFirst f n c).length = c.length := by
  intro n
  induction n with
  | zero => intro c; rfl
  | succ n ih => intro c; cases c with
    | nil => rfl
    | cons x c => simp [mapFirst, ih]

theorem mapFirst_length (f : Int → Int) : ∀ (c : List Int), mapFirst f c.length c = c.map f := by
  intro c
  induction c with
  | nil => rfl
  | cons x c ih => simp [mapFirst, ih]

theorem mapFirst_set_step (f : Int → Int) : ∀ (n : Nat) (c : List Int), n < c.length →
    (mapFirst f n c).set n (f ((mapFirst f n c).getD n 0)) = mapFirst f (n + 1) c := by
  intro n
  induction n with
  | zero => intro c h; cases c with
    | nil => simp at h
    | cons x c => simp [mapFirst]
  | succ n ih => intro c h; cases c with
    | nil => simp at h
    | cons x c =>
      simp only [mapFirst, List.set_cons_succ, List.getD_cons_succ]
      rw [ih c (by simpa using h)]

theorem foldl_range_set (f : Int → Int) : ∀ (n : Nat) (c : List Int), n ≤ c.length →
    (List.range n).foldl (fun c (i : Nat) => c.set i (f (c.getD i 0))) c = mapFirst f n c := by
  intro n
  induction n with
  | zero => intro c _; rfl
  | succ n ih =>
    intro c h
    rw [List.range_succ, List.foldl_append, ih c (by omega)]
    simp only [List.foldl_cons, List.foldl_nil]
    exact mapFirst_set_step f n c (by omega)

/-! ### strip -/

theorem pyStrip_up (l : List Nat) : pyStrip (up l) = up (GFpX.norm l) := by
  induction l with
  | nil => rfl
  | cons x l ih =>
    simp only [up_cons, pyStrip, GFpX.norm, ih]
    cases h : GFpX.norm l with
    | nil =>
      simp only [up_nil]
      by_cases hx : x = 0
      · simp [hx]
      · have : (x : Int) ≠ 0 := by exact_mod_cast hx
        simp [hx, this]
    | cons y ys => simp

end MpycV.GfpxBridge
