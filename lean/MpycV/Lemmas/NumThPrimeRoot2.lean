import MpycV.Lemmas.NumThPrimeRoot

namespace MpycV.PrimeRoot
open MpycV.NumTh

theorem searchUp_form {isP : Int → Bool} {step : Int} {fuel : Nat} {c p : Int}
    (h : searchUp isP step fuel c = .ok p) : ∃ j : Nat, p = c + step * j ∧ isP p = true := by
  induction fuel generalizing c with
  | zero => simp [searchUp] at h
  | succ f ih =>
    simp only [searchUp] at h
    split at h
    · next hc => cases h; exact ⟨0, by simp, hc⟩
    · obtain ⟨j, hj, hp⟩ := ih h
      exact ⟨j + 1, by rw [hj]; push_cast; ring, hp⟩

/-- arithmetic core of the n > 2 branch -/
theorem blum_form (n k j : Int) (hn : n % 2 = 1) (hn1 : 1 < n) :
    (1 + 2 * n * (3 + 2 * k) + 4 * n * j) % 4 = 3 ∧ (1 + 2 * n * (3 + 2 * k) + 4 * n * j) % n = 1 := by
  constructor
  · have : 1 + 2 * n * (3 + 2 * k) + 4 * n * j = 1 + 6 * n + 4 * (n * k + n * j) := by ring
    rw [this]
    generalize n * k + n * j = A
    omega
  · have : 1 + 2 * n * (3 + 2 * k) + 4 * n * j = 1 + n * (2 * (3 + 2 * k) + 4 * j) := by ring
    rw [this, Int.add_mul_emod_self_left]
    exact Int.emod_eq_of_lt (by omega) hn1

theorem blum_form_lower (n X j : Int) (hn : 0 < n) (hj : 0 ≤ j) :
    4 * X < 1 + 2 * n * (3 + 2 * (X / n)) + 4 * n * j := by
  have h1 := Int.mul_ediv_add_emod X n
  have h2 := Int.emod_lt_of_pos X hn
  have h3 : 0 ≤ n * j := Int.mul_nonneg (by omega) hj
  have : 1 + 2 * n * (3 + 2 * (X / n)) + 4 * n * j = 1 + 6 * n + 4 * (n * (X / n)) + 4 * (n * j) := by ring
  rw [this]
  omega

theorem findPrimeRoot_small (isP : Int → Bool) (fuel : Nat) (l : Int) (blum : Bool) (n : Int) (hl : l ≤ 2) :
    findPrimeRoot isP fuel l blum n =
      if blum then .ok (3, 2, 2) else if n = 1 then .ok (2, 1, 1) else .error .assertionError := by
  unfold findPrimeRoot
  rw [if_pos hl]
  cases blum
  · by_cases hn : n = 1 <;> simp [hn]
  · simp

theorem two_pow_not_prime (L : Nat) (hL : 2 ≤ L) : ¬ Nat.Prime (2 ^ L) := by
  intro h
  have : 2 ∣ 2 ^ L := dvd_pow_self 2 (by omega)
  have h2 := (Nat.prime_dvd_prime_iff_eq Nat.prime_two h).mp this
  have : 2 ^ 2 ≤ 2 ^ L := Nat.pow_le_pow_right (by omega) hL
  omega

theorem findPrimeRoot_le2 (isP : Int → Bool) (hP : CorrectOracle isP) (fuel : Nat) (l : Int) (blum : Bool)
    (n : Int) (hl : 2 < l) (hn : n ≤ 2) :
    ∃ p : Int, findPrimeRoot isP fuel l blum n = .ok (p, n, if n = 2 then p - 1 else 1) ∧
      Nat.Prime p.toNat ∧ 3 ≤ p ∧ p < 2 ^ l.toNat ∧
      (blum = false → 2 ^ (l.toNat - 1) < p ∧ ∀ q : Int, Nat.Prime q.toNat → q < 2 ^ l.toNat → q ≤ p) ∧
      (blum = true → p % 4 = 3 ∧ ∀ q : Int, Nat.Prime q.toNat → q % 4 = 3 → q < 2 ^ l.toNat → q ≤ p) := by
  unfold findPrimeRoot
  rw [if_neg (by omega), if_pos hn]
  set L := l.toNat with hL
  have hL3 : 3 ≤ L := by omega
  have h8 : (8 : Int) ≤ 2 ^ L := by
    have : 2 ^ 3 ≤ 2 ^ L := Nat.pow_le_pow_right (by omega) hL3
    exact_mod_cast this
  obtain ⟨p0, hp0, hp0p, hp0lt, hp0max⟩ := (prevPrime_spec isP hP ((2 : Int) ^ L)).2 (by omega)
  have hp03 : 3 ≤ p0 := hp0max 3 Nat.prime_three (by omega)
  rw [hp0]
  simp only []
  cases blum
  · simp only [Bool.false_eq_true, if_false]
    refine ⟨p0, rfl, hp0p, hp03, hp0lt, fun _ => ⟨?_, hp0max⟩, fun h => by simp at h⟩
    obtain ⟨q, hq, hq1, hq2⟩ := Nat.exists_prime_lt_and_le_two_mul (2 ^ (L - 1)) (by positivity)
    have h2L : 2 * 2 ^ (L - 1) = 2 ^ L := by rw [← pow_succ']; congr 1; omega
    rw [h2L] at hq2
    have hne : q ≠ 2 ^ L := by rintro rfl; exact two_pow_not_prime L (by omega) hq
    have hqlt : (q : Int) < 2 ^ L := by
      have : q < 2 ^ L := by omega
      exact_mod_cast this
    have := hp0max q (by simpa using hq) hqlt
    have : ((2 ^ (L - 1) : Nat) : Int) < q := by exact_mod_cast hq1
    push_cast at this
    omega
  · simp only [if_true]
    obtain ⟨p', h1, h2, h3, h4, h5⟩ := blumDown_spec isP hP ((2 : Int) ^ L) p0.toNat p0 hp0p hp03 (le_refl _)
      (fun q hq _ hqB => hp0max q hq hqB)
    rw [h1]
    have hp'3 : 3 ≤ p' := h5 3 Nat.prime_three (by decide) (by omega)
    exact ⟨p', rfl, h2, hp'3, by omega, fun h => by simp at h, fun _ => ⟨h3, h5⟩⟩

end MpycV.PrimeRoot
