/-
Kernel-checked enumeration of all bit streams (definitions, tables and the soundness lemma of the finite
check are in `MpycV.Lemmas.RandomEnumDefs`).
-/
import MpycV.Lemmas.RandomEnumDefs

namespace MpycV.Random

set_option maxRecDepth 1000000 in
theorem rbOuts_eq_table : ((List.range 16).all fun i => decide (rbOuts (i + 1) = expand (rbTable (i + 1)))) = true := by
  decide +kernel

set_option maxRecDepth 1000000 in
theorem rbTable_check : ((List.range 16).all fun i => uniformCheckW (rbTable (i + 1)) (List.range (i + 1))) = true := by
  decide +kernel

set_option maxRecDepth 1000000 in
theorem ruvOuts_eq_table_le8 : ((List.range 8).all fun i => decide (ruvOuts (i + 1) = expand (ruvTable (i + 1)))) = true := by
  decide +kernel

set_option maxRecDepth 1000000 in
theorem ruvOuts_eq_table_9_12 : ([9, 10, 11, 12].all fun n => decide (ruvOuts n = expand (ruvTable n))) = true := by
  decide +kernel

set_option maxRecDepth 1000000 in
theorem ruvOuts_eq_table_13_16 : ([13, 14, 15, 16].all fun n => decide (ruvOuts n = expand (ruvTable n))) = true := by
  decide +kernel

set_option maxRecDepth 1000000 in
theorem ruvTable_check : ((List.range 16).all fun i => uniformCheckW (ruvTable (i + 1)) (List.range (i + 1))) = true := by
  decide +kernel

theorem rbOuts_table {n : Nat} (h1 : 1 ≤ n) (h16 : n ≤ 16) :
    rbOuts n = expand (rbTable n) ∧ uniformCheckW (rbTable n) (List.range n) = true := by
  have ha := rbOuts_eq_table
  have hb := rbTable_check
  rw [List.all_eq_true] at ha hb
  have hm : n - 1 ∈ List.range 16 := List.mem_range.2 (by omega)
  have e : n - 1 + 1 = n := by omega
  have a := ha _ hm
  have b := hb _ hm
  rw [e] at a b
  exact ⟨of_decide_eq_true a, b⟩

theorem ruvOuts_table {n : Nat} (h1 : 1 ≤ n) (h16 : n ≤ 16) :
    ruvOuts n = expand (ruvTable n) ∧ uniformCheckW (ruvTable n) (List.range n) = true := by
  have hb := ruvTable_check
  rw [List.all_eq_true] at hb
  have hm : n - 1 ∈ List.range 16 := List.mem_range.2 (by omega)
  have e : n - 1 + 1 = n := by omega
  have b := hb _ hm
  rw [e] at b
  refine ⟨?_, b⟩
  by_cases h8 : n ≤ 8
  · have ha := ruvOuts_eq_table_le8
    rw [List.all_eq_true] at ha
    have a := ha (n - 1) (List.mem_range.2 (by omega))
    rw [e] at a
    exact of_decide_eq_true a
  · by_cases h12 : n ≤ 12
    · have ha := ruvOuts_eq_table_9_12
      rw [List.all_eq_true] at ha
      have a := ha n (by simp; omega)
      exact of_decide_eq_true a
    · have ha := ruvOuts_eq_table_13_16
      rw [List.all_eq_true] at ha
      have a := ha n (by simp; omega)
      exact of_decide_eq_true a

end MpycV.Random
