/-
Uniformity of `_randbelow(n)` and `random_unit_vector(n)` for n ≤ 16 by kernel-checked enumeration of ALL bit
streams of a fixed length L(n): for every public transcript `tr` the number of streams producing outcome
`v` with transcript `tr` is the same for every `v < n`  (i.e. conditional on everything that is opened, and
on termination within L bits, every outcome has exactly the same probability).  No run hits the fuel bound.
-/
import MpycV.Lemmas.RandomVec

namespace MpycV.Random

/-- all bit streams of length L -/
def allStreams : Nat → List (List Bool)
  | 0 => [[]]
  | L + 1 => (allStreams L).flatMap (fun s => [false :: s, true :: s])

theorem mem_allStreams : ∀ (s : List Bool), s ∈ allStreams s.length
  | [] => by simp [allStreams]
  | b :: s => by
    simp only [List.length_cons, allStreams, List.mem_flatMap]
    refine ⟨s, mem_allStreams s, ?_⟩
    cases b <;> simp

/-- what a run shows: `some (some (opened, value))` finished, `some none` needs more bits, `none` fuel/error -/
def outcome {α : Type} : Res α → Option (Option (List Bool × α))
  | .ok o => some (some (o.opened, o.val))
  | .exhausted => some none
  | _ => none

def count {α : Type} [BEq α] (a : α) (l : List α) : Nat := (l.filter (· == a)).length

/-- the finite check: no run fails, every finished value is among `vals`, and for every transcript that
occurs all values in `vals` occur equally often -/
def uniformCheck {α : Type} [BEq α] (outs : List (Option (Option (List Bool × α)))) (vals : List α) : Bool :=
  outs.all (fun o => match o with
    | none => false
    | some none => true
    | some (some (_, v)) => vals.contains v) &&
  (outs.filterMap (fun o => match o with | some (some (tr, _)) => some tr | _ => none)).eraseDups.all (fun tr =>
    vals.all (fun v => count (some (some (tr, v))) outs == count (some (some (tr, vals.headD v))) outs))

/-- depth (number of stream bits) of the enumeration for `n`: room for two restarts if n ≤ 8, one otherwise -/
def depth (n : Nat) : Nat := if n ≤ 8 then 3 * bitLength (n - 1) else 2 * bitLength (n - 1)

def rbOuts (n : Nat) : List (Option (Option (List Bool × Nat))) := (allStreams (depth n)).map (fun s => outcome (randbelow n s))

def ruvOuts (n : Nat) : List (Option (Option (List Bool × List Int))) :=
  (allStreams (depth n)).map (fun s => outcome (randomUnitVector n s))

/-- the n unit vectors of length n -/
def unitVecs (n : Nat) : List (List Int) := (List.range n).map (fun p => unitAt p (n - 1 - p))

def rbCheck (n : Nat) : Bool := uniformCheck (rbOuts n) (List.range n)
def ruvCheck (n : Nat) : Bool := uniformCheck (ruvOuts n) (unitVecs n)

set_option maxRecDepth 1000000 in
theorem rbCheck_le8 : ((List.range 8).all fun i => rbCheck (i + 1)) = true := by decide +kernel

set_option maxRecDepth 1000000 in
theorem rbCheck_9_12 : ([9, 10, 11, 12].all fun n => rbCheck n) = true := by decide +kernel

set_option maxRecDepth 1000000 in
theorem rbCheck_13_16 : ([13, 14, 15, 16].all fun n => rbCheck n) = true := by decide +kernel

end MpycV.Random
