/-
Kernel-checked enumeration: see `MpycV.Lemmas.RandomEnumDefs` for the definitions and tables.
-/
import MpycV.Lemmas.RandomEnumDefs

namespace MpycV.Random

set_option maxRecDepth 1000000 in
theorem rbOuts_eq_table : ((List.range 16).all fun i => decide (rbOuts (i + 1) = expand (rbTable (i + 1)))) = true := by
  decide +kernel

set_option maxRecDepth 1000000 in
theorem rbTable_check :
    ((List.range 16).all fun i => uniformCheck (expand (rbTable (i + 1))) (List.range (i + 1))) = true := by
  decide +kernel

set_option maxRecDepth 1000000 in
theorem ruvOuts_eq_table : ((List.range 16).all fun i => decide (ruvOuts (i + 1) = expand (ruvTable (i + 1)))) = true := by
  decide +kernel

set_option maxRecDepth 1000000 in
theorem ruvTable_check :
    ((List.range 16).all fun i => uniformCheck (expand (ruvTable (i + 1))) (List.range (i + 1))) = true := by
  decide +kernel

theorem rbCheck_le16 {n : Nat} (h1 : 1 ≤ n) (h16 : n ≤ 16) : uniformCheck (rbOuts n) (List.range n) = true := by
  have ha := rbOuts_eq_table
  have hb := rbTable_check
  rw [List.all_eq_true] at ha hb
  have hm : n - 1 ∈ List.range 16 := List.mem_range.2 (by omega)
  have e : n - 1 + 1 = n := by omega
  have a := ha _ hm
  have b := hb _ hm
  rw [e] at a b
  rw [of_decide_eq_true a]; exact b

theorem ruvCheck_le16 {n : Nat} (h1 : 1 ≤ n) (h16 : n ≤ 16) : uniformCheck (ruvOuts n) (List.range n) = true := by
  have ha := ruvOuts_eq_table
  have hb := ruvTable_check
  rw [List.all_eq_true] at ha hb
  have hm : n - 1 ∈ List.range 16 := List.mem_range.2 (by omega)
  have e : n - 1 + 1 = n := by omega
  have a := ha _ hm
  have b := hb _ hm
  rw [e] at a b
  rw [of_decide_eq_true a]; exact b

end MpycV.Random
