import MpycV.Lemmas.NumThEuclid
import Mathlib.Algebra.Order.Ring.Abs
import Mathlib.Algebra.Order.Group.Int

namespace MpycV.NumTh

/-- reduced form of the generic case: 1 = a s + b t with 2|s| < b -/
theorem norm_core (a b s t : Int) (hb : 0 < b) (h1 : a * s + b * t = 1) (hs : 2 * |s| < b) :
    (|a| = b → s = 0 ∧ t = 1) ∧ b ≠ 2 ∧ (a = 0 → t = 1) ∧ (|a| = 2 → t = 1) ∧
    (a ≠ 0 → |a| ≠ 2 → |a| ≠ b → 2 * |t| < |a|) := by
  have hs0 : 0 ≤ |s| := abs_nonneg s
  have ha0 : 0 ≤ |a| := abs_nonneg a
  have ht0 : 0 ≤ |t| := abs_nonneg t
  have e1 : |t| * b = |1 - a * s| := by
    have : 1 - a * s = t * b := by linarith
    rw [this, abs_mul, abs_of_pos hb]
  have e2 : |1 - a * s| ≤ 1 + |a| * |s| := by
    calc |1 - a * s| ≤ |(1 : Int)| + |a * s| := abs_sub _ _
      _ = 1 + |a| * |s| := by rw [abs_one, abs_mul]
  have hs' : 2 * |s| ≤ b - 1 := by omega
  have key : 2 * (|t| * b) ≤ 2 + |a| * (b - 1) := by
    have : |a| * (2 * |s|) ≤ |a| * (b - 1) := mul_le_mul_of_nonneg_left hs' ha0
    rw [e1]; nlinarith
  refine ⟨?_, ?_, ?_, ?_, ?_⟩
  · intro hab
    -- b ∣ a, so b ∣ 1
    have hdvd : b ∣ a := by
      rcases abs_choice a with h | h
      · rw [h] at hab; rw [hab]
      · rw [h] at hab; rw [← hab]; exact (Int.dvd_neg).mp (by simp)
    have hb1 : b ∣ 1 := by
      rw [← h1]; exact Int.dvd_add (Dvd.dvd.mul_right hdvd s) (Int.dvd_mul_right b t)
    have hb1' : b = 1 := Int.eq_one_of_dvd_one (by omega) hb1
    subst hb1'
    have : s = 0 := by
      have : |s| = 0 := by omega
      exact abs_eq_zero.mp this
    subst this
    constructor
    · rfl
    · linarith
  · intro hb2
    subst hb2
    have : |s| = 0 := by omega
    have hs00 : s = 0 := abs_eq_zero.mp this
    subst hs00
    omega
  · intro ha
    subst ha
    have hbt : b * t = 1 := by linarith
    have hb1 : b = 1 := Int.eq_one_of_dvd_one (by omega) ⟨t, hbt.symm⟩
    subst hb1; linarith
  · intro ha2
    -- |t| b ≤ 1 + 2|s| < 1 + b, so |t| ≤ 1; t = 0 and t = -1 are impossible
    rw [ha2] at key e2
    have hle : |t| * b < 2 * b := by nlinarith
    have ht1 : |t| < 2 := lt_of_mul_lt_mul_right hle (by omega)
    have ht : t = -1 ∨ t = 0 ∨ t = 1 := by
      have := abs_lt.mp ht1; omega
    have has : |a * s| = 2 * |s| := by rw [abs_mul, ha2]
    rcases ht with rfl | rfl | rfl
    · exfalso
      have : a * s = 1 + b := by linarith
      rw [this, abs_of_pos (by omega)] at has
      omega
    · exfalso
      have : a * s = 1 := by linarith
      rw [this] at has; simp at has; omega
    · rfl
  · intro ha ha2 hab
    have ha1 : 1 ≤ |a| := by
      have := abs_pos.mpr ha; omega
    rcases (by omega : |a| = 1 ∨ 3 ≤ |a|) with h | h
    · -- |a| = 1: |t| b ≤ 1 + |s| < b
      rw [h] at e2
      have hb2 : 2 ≤ b := by
        by_contra hlt
        have : b = 1 := by omega
        exact hab (by rw [h, this])
      have hlt : |t| * b < 1 * b := by rw [e1]; omega
      have : |t| < 1 := lt_of_mul_lt_mul_right hlt (by omega)
      rw [h]; omega
    · have hlt : (2 * |t|) * b < |a| * b := by nlinarith
      exact lt_of_mul_lt_mul_right hlt (by omega)

/-- the normalisation of the cofactors documented for GMP's mpz_gcdext (and quoted in the docstring of the stub) -/
def GmpNormal (a b g s t : Int) : Prop :=
  if |a| = |b| then s = 0 ∧ t = Int.sign b
  else (if b = 0 ∨ |b| = 2 * g then s = Int.sign a else 2 * g * |s| < |b|) ∧
       (if a = 0 ∨ |a| = 2 * g then t = Int.sign b else 2 * g * |t| < |a|)

/-- generic case for b > 0: Bezout with 2g|s| < b forces the whole normal form -/
theorem norm_generic (a b g s t : Int) (hb : 0 < b) (hg : 0 < g) (hga : g ∣ a) (hgb : g ∣ b)
    (hbz : g = a * s + b * t) (hs : 2 * g * |s| < b) : GmpNormal a b g s t := by
  obtain ⟨a', rfl⟩ := hga
  obtain ⟨b', rfl⟩ := hgb
  have hb' : 0 < b' := by
    by_contra h
    have : g * b' ≤ 0 := Int.mul_nonpos_of_nonneg_of_nonpos (by omega) (by omega)
    omega
  have h1 : a' * s + b' * t = 1 := by
    have : g * (a' * s + b' * t) = g * 1 := by rw [mul_one]; linarith
    exact Int.eq_of_mul_eq_mul_left (by omega) this
  have hs' : 2 * |s| < b' := by
    have : g * (2 * |s|) < g * b' := by linarith
    exact lt_of_mul_lt_mul_left this (by omega)
  obtain ⟨c1, c2, c3, c4, c5⟩ := norm_core a' b' s t hb' h1 hs'
  have eabs_a : |g * a'| = g * |a'| := by rw [abs_mul, abs_of_pos hg]
  have eabs_b : |g * b'| = g * b' := by rw [abs_mul, abs_of_pos hg, abs_of_pos hb']
  have hsign : Int.sign (g * b') = 1 := Int.sign_eq_one_of_pos (by positivity)
  have hgne : g ≠ 0 := by omega
  unfold GmpNormal
  rw [eabs_a, eabs_b, hsign]
  by_cases hab : |a'| = b'
  · rw [if_pos (by rw [hab])]
    exact c1 hab
  · rw [if_neg (fun h => hab (Int.eq_of_mul_eq_mul_left hgne h))]
    constructor
    · rw [if_neg]
      · linarith
      · rintro (h | h)
        · have := Int.mul_eq_zero.mp h; omega
        · apply c2
          have : g * b' = g * 2 := by linarith
          exact Int.eq_of_mul_eq_mul_left hgne this
    · by_cases ha0 : a' = 0
      · rw [if_pos (Or.inl (by rw [ha0]; simp))]; exact c3 ha0
      · by_cases ha2 : |a'| = 2
        · rw [if_pos (Or.inr (by rw [ha2]; ring))]; exact c4 ha2
        · rw [if_neg]
          · have := c5 ha0 ha2 hab
            have h2 : g * (2 * |t|) < g * |a'| := mul_lt_mul_of_pos_left this hg
            linarith
          · rintro (h | h)
            · rcases Int.mul_eq_zero.mp h with h | h
              · omega
              · exact ha0 h
            · apply ha2
              have : g * |a'| = g * 2 := by linarith
              exact Int.eq_of_mul_eq_mul_left hgne this

/-- exceptional case |b| = 2g (b > 0): a = g(2q+1) -/
theorem norm_caseB (g q : Int) (hg : 0 < g) :
    (0 ≤ q → GmpNormal (g * (2 * q + 1)) (2 * g) g 1 (-q)) ∧
    (q < 0 → GmpNormal (g * (2 * q + 1)) (2 * g) g (-1) (q + 1)) := by
  have eabs_a : |g * (2 * q + 1)| = g * |2 * q + 1| := by rw [abs_mul, abs_of_pos hg]
  have eabs_b : |2 * g| = 2 * g := abs_of_pos (by omega)
  have hne : g * |2 * q + 1| ≠ 2 * g := by
    intro h
    have h2 : g * |2 * q + 1| = g * 2 := by linarith
    have := Int.eq_of_mul_eq_mul_left (by omega : g ≠ 0) h2
    rcases abs_cases (2 * q + 1) with ⟨h1, _⟩ | ⟨h1, _⟩ <;> omega
  have ha0 : g * (2 * q + 1) ≠ 0 := by
    intro h
    rcases Int.mul_eq_zero.mp h with h | h <;> omega
  have hb0 : (2 * g) ≠ 0 := by omega
  have hsb : Int.sign (2 * g) = 1 := Int.sign_eq_one_of_pos (by omega)
  constructor
  · intro hq
    unfold GmpNormal
    rw [eabs_a, eabs_b, if_neg hne, if_pos (Or.inr rfl), if_neg (by rintro (h | h); exact ha0 h; exact hne h)]
    refine ⟨(Int.sign_eq_one_of_pos (by positivity)).symm, ?_⟩
    rw [abs_neg, abs_of_nonneg hq, abs_of_nonneg (by omega)]
    nlinarith
  · intro hq
    unfold GmpNormal
    rw [eabs_a, eabs_b, if_neg hne, if_pos (Or.inr rfl), if_neg (by rintro (h | h); exact ha0 h; exact hne h)]
    have hneg : g * (2 * q + 1) < 0 := by nlinarith
    refine ⟨(Int.sign_eq_neg_one_of_neg hneg).symm, ?_⟩
    rw [abs_of_nonpos (by omega : q + 1 ≤ 0), abs_of_neg (by omega : 2 * q + 1 < 0)]
    nlinarith

/-- invariant of the gcdext loop after its first step, for b > 0 (q1 = ⌊a / b⌋) -/
structure GInv (b q1 g f s s1 t t1 : Int) : Prop where
  f_nonneg : 0 ≤ f
  f_lt : f < g
  signs : (0 ≤ s ∧ s1 < 0 ∧ f * s - g * s1 = b) ∨ (s ≤ 0 ∧ 0 < s1 ∧ g * s1 - f * s = b)
  first : s = 0 → (g = b ∧ s1 = 1 ∧ t1 = -q1)
  fin : f = 0 → ((2 * g * s < b ∧ 2 * g * (-s) < b) ∨ (b = 2 * g ∧ s = 1 ∧ t = -q1))

theorem GInv.step {b q1 g f s s1 t t1 : Int} (hb : 0 < b) (h : GInv b q1 g f s s1 t t1) (hf : f ≠ 0) :
    GInv b q1 f (Int.fmod g f) s1 (s - Int.fdiv g f * s1) t1 (t - Int.fdiv g f * t1) := by
  obtain ⟨h1, h2, h3, h4, _⟩ := h
  have hfpos : 0 < f := by omega
  obtain ⟨hdm, hr0, hrf⟩ := (Int.fdiv_fmod_unique (a := g) (b := f) (r := Int.fmod g f) (q := Int.fdiv g f)
    hfpos).mp ⟨rfl, rfl⟩
  set c := Int.fdiv g f with hc
  set r := Int.fmod g f with hr
  have hc1 : 1 ≤ c := by
    by_contra hlt
    have : f * c ≤ 0 := Int.mul_nonpos_of_nonneg_of_nonpos (by omega) (by omega)
    omega
  refine ⟨hr0, hrf, ?_, ?_, ?_⟩
  · rcases h3 with ⟨p1, p2, p3⟩ | ⟨p1, p2, p3⟩
    · right
      refine ⟨by omega, by nlinarith, ?_⟩
      have : f * (s - c * s1) - r * s1 = f * s - (r + f * c) * s1 := by ring
      rw [this, hdm]; exact p3
    · left
      refine ⟨by omega, by nlinarith, ?_⟩
      have : r * s1 - f * (s - c * s1) = (r + f * c) * s1 - f * s := by ring
      rw [this, hdm]; exact p3
  · intro hs1
    rcases h3 with ⟨_, p2, _⟩ | ⟨_, p2, _⟩ <;> omega
  · intro hr0'
    have hg : g = f * c := by omega
    have hc2 : 2 ≤ c := by
      by_contra hlt
      have : c = 1 := by omega
      rw [this] at hg; omega
    rcases h3 with ⟨p1, p2, p3⟩ | ⟨p1, p2, p3⟩
    · left
      have hs0 : s ≠ 0 := by
        intro h0
        have := (h4 h0).2.1
        omega
      rw [hg] at p3
      constructor
      · nlinarith
      · have : 0 < f * s := by positivity
        nlinarith
    · rw [hg] at p3
      by_cases hs0 : s = 0
      · obtain ⟨q1', q2', q3'⟩ := h4 hs0
        subst hs0 q2'
        rcases (by omega : c = 2 ∨ 3 ≤ c) with hc' | hc'
        · right
          refine ⟨by rw [← q1', hg, hc']; ring, rfl, q3'⟩
        · left
          constructor
          · nlinarith
          · nlinarith
      · left
        have : 0 < f * (-s) := by
          have : 0 < -s := by omega
          positivity
        constructor
        · nlinarith
        · nlinarith

theorem gcdextLoop_norm (b q1 : Int) (hb : 0 < b) (fuel : Nat) (g f s s1 t t1 : Int)
    (h : GInv b q1 g f s s1 t t1) (hfuel : f.natAbs < fuel) :
    ∃ g' s' t', gcdextLoop fuel g f s s1 t t1 = .ok (g', s', t') ∧ 0 < g' ∧
      ((2 * g' * s' < b ∧ 2 * g' * (-s') < b) ∨ (b = 2 * g' ∧ s' = 1 ∧ t' = -q1)) := by
  induction fuel generalizing g f s s1 t t1 with
  | zero => omega
  | succ n ih =>
    simp only [gcdextLoop]
    by_cases h0 : f = 0
    · rw [if_pos h0]
      have := h.f_lt
      exact ⟨g, s, t, rfl, by omega, h.fin h0⟩
    · rw [if_neg h0]
      apply ih _ _ _ _ _ _ (h.step hb h0)
      have := fmod_natAbs_lt g f h0
      omega

end MpycV.NumTh
