import MpycV.Lemmas.NumThEuclid
import Mathlib.Algebra.Order.Ring.Abs
import Mathlib.Algebra.Order.Group.Int

namespace MpycV.NumTh

/-- reduced form of the generic case: 1 = a s + b t with 2|s| < b -/
theorem norm_core (a b s t : Int) (hb : 0 < b) (h1 : a * s + b * t = 1) (hs : 2 * |s| < b) :
    (|a| = b → s = 0 ∧ t = 1) ∧ b ≠ 2 ∧ (a = 0 → t = 1) ∧ (|a| = 2 → t = 1) ∧
    (a ≠ 0 → |a| ≠ 2 → |a| ≠ b → 2 * |t| < |a|) := by
  have hs0 : 0 ≤ |s| := abs_nonneg s
  have ha0 : 0 ≤ |a| := abs_nonneg a
  have ht0 : 0 ≤ |t| := abs_nonneg t
  have e1 : |t| * b = |1 - a * s| := by
    have : 1 - a * s = t * b := by linarith
    rw [this, abs_mul, abs_of_pos hb]
  have e2 : |1 - a * s| ≤ 1 + |a| * |s| := by
    calc |1 - a * s| ≤ |(1 : Int)| + |a * s| := abs_sub _ _
      _ = 1 + |a| * |s| := by rw [abs_one, abs_mul]
  have hs' : 2 * |s| ≤ b - 1 := by omega
  have key : 2 * (|t| * b) ≤ 2 + |a| * (b - 1) := by
    have : |a| * (2 * |s|) ≤ |a| * (b - 1) := mul_le_mul_of_nonneg_left hs' ha0
    rw [e1]; nlinarith
  refine ⟨?_, ?_, ?_, ?_, ?_⟩
  · intro hab
    -- b ∣ a, so b ∣ 1
    have hdvd : b ∣ a := by
      rcases abs_choice a with h | h
      · rw [h] at hab; rw [hab]
      · rw [h] at hab; rw [← hab]; exact (Int.dvd_neg).mp (by simp)
    have hb1 : b ∣ 1 := by
      rw [← h1]; exact Int.dvd_add (Dvd.dvd.mul_right hdvd s) (Int.dvd_mul_right b t)
    have hb1' : b = 1 := Int.eq_one_of_dvd_one (by omega) hb1
    subst hb1'
    have : s = 0 := by
      have : |s| = 0 := by omega
      exact abs_eq_zero.mp this
    subst this
    constructor
    · rfl
    · linarith
  · intro hb2
    subst hb2
    have : |s| = 0 := by omega
    have hs00 : s = 0 := abs_eq_zero.mp this
    subst hs00
    omega
  · intro ha
    subst ha
    have hbt : b * t = 1 := by linarith
    have hb1 : b = 1 := Int.eq_one_of_dvd_one (by omega) ⟨t, hbt.symm⟩
    subst hb1; linarith
  · intro ha2
    -- |t| b ≤ 1 + 2|s| < 1 + b, so |t| ≤ 1; t = 0 and t = -1 are impossible
    rw [ha2] at key e2
    have hle : |t| * b < 2 * b := by nlinarith
    have ht1 : |t| < 2 := lt_of_mul_lt_mul_right hle (by omega)
    have ht : t = -1 ∨ t = 0 ∨ t = 1 := by
      have := abs_lt.mp ht1; omega
    have has : |a * s| = 2 * |s| := by rw [abs_mul, ha2]
    rcases ht with rfl | rfl | rfl
    · exfalso
      have : a * s = 1 + b := by linarith
      rw [this, abs_of_pos (by omega)] at has
      omega
    · exfalso
      have : a * s = 1 := by linarith
      rw [this] at has; simp at has; omega
    · rfl
  · intro ha ha2 hab
    have ha1 : 1 ≤ |a| := by
      have := abs_pos.mpr ha; omega
    rcases (by omega : |a| = 1 ∨ 3 ≤ |a|) with h | h
    · -- |a| = 1: |t| b ≤ 1 + |s| < b
      rw [h] at e2
      have hb2 : 2 ≤ b := by
        by_contra hlt
        have : b = 1 := by omega
        exact hab (by rw [h, this])
      have hlt : |t| * b < 1 * b := by rw [e1]; omega
      have : |t| < 1 := lt_of_mul_lt_mul_right hlt (by omega)
      rw [h]; omega
    · have hlt : (2 * |t|) * b < |a| * b := by nlinarith
      exact lt_of_mul_lt_mul_right hlt (by omega)

/-- the normalisation of the cofactors documented for GMP's mpz_gcdext (and quoted in the docstring of the stub) -/
def GmpNormal (a b g s t : Int) : Prop :=
  if |a| = |b| then s = 0 ∧ t = Int.sign b
  else (if b = 0 ∨ |b| = 2 * g then s = Int.sign a else 2 * g * |s| < |b|) ∧
       (if a = 0 ∨ |a| = 2 * g then t = Int.sign b else 2 * g * |t| < |a|)

/-- generic case for b > 0: Bezout with 2g|s| < b forces the whole normal form -/
theorem norm_generic (a b g s t : Int) (hb : 0 < b) (hg : 0 < g) (hga : g ∣ a) (hgb : g ∣ b)
    (hbz : g = a * s + b * t) (hs : 2 * g * |s| < b) : GmpNormal a b g s t := by
  obtain ⟨a', rfl⟩ := hga
  obtain ⟨b', rfl⟩ := hgb
  have hb' : 0 < b' := by
    by_contra h
    have : g * b' ≤ 0 := Int.mul_nonpos_of_nonneg_of_nonpos (by omega) (by omega)
    omega
  have h1 : a' * s + b' * t = 1 := by
    have : g * (a' * s + b' * t) = g * 1 := by rw [mul_one]; linarith
    exact Int.eq_of_mul_eq_mul_left (by omega) this
  have hs' : 2 * |s| < b' := by
    have : g * (2 * |s|) < g * b' := by linarith
    exact lt_of_mul_lt_mul_left this (by omega)
  obtain ⟨c1, c2, c3, c4, c5⟩ := norm_core a' b' s t hb' h1 hs'
  have eabs_a : |g * a'| = g * |a'| := by rw [abs_mul, abs_of_pos hg]
  have eabs_b : |g * b'| = g * b' := by rw [abs_mul, abs_of_pos hg, abs_of_pos hb']
  have hsign : Int.sign (g * b') = 1 := Int.sign_eq_one_of_pos (by positivity)
  have hgne : g ≠ 0 := by omega
  unfold GmpNormal
  rw [eabs_a, eabs_b, hsign]
  by_cases hab : |a'| = b'
  · rw [if_pos (by rw [hab])]
    exact c1 hab
  · rw [if_neg (fun h => hab (Int.eq_of_mul_eq_mul_left hgne h))]
    constructor
    · rw [if_neg]
      · linarith
      · rintro (h | h)
        · have := Int.mul_eq_zero.mp h; omega
        · apply c2
          have : g * b' = g * 2 := by linarith
          exact Int.eq_of_mul_eq_mul_left hgne this
    · by_cases ha0 : a' = 0
      · rw [if_pos (Or.inl (by rw [ha0]; simp))]; exact c3 ha0
      · by_cases ha2 : |a'| = 2
        · rw [if_pos (Or.inr (by rw [ha2]; ring))]; exact c4 ha2
        · rw [if_neg]
          · have := c5 ha0 ha2 hab
            have h2 : g * (2 * |t|) < g * |a'| := mul_lt_mul_of_pos_left this hg
            linarith
          · rintro (h | h)
            · rcases Int.mul_eq_zero.mp h with h | h
              · omega
              · exact ha0 h
            · apply ha2
              have : g * |a'| = g * 2 := by linarith
              exact Int.eq_of_mul_eq_mul_left hgne this

/-- exceptional case |b| = 2g (b > 0): a = g(2q+1) -/
theorem norm_caseB (g q : Int) (hg : 0 < g) :
    (0 ≤ q → GmpNormal (g * (2 * q + 1)) (2 * g) g 1 (-q)) ∧
    (q < 0 → GmpNormal (g * (2 * q + 1)) (2 * g) g (-1) (q + 1)) := by
  have eabs_a : |g * (2 * q + 1)| = g * |2 * q + 1| := by rw [abs_mul, abs_of_pos hg]
  have eabs_b : |2 * g| = 2 * g := abs_of_pos (by omega)
  have hne : g * |2 * q + 1| ≠ 2 * g := by
    intro h
    have h2 : g * |2 * q + 1| = g * 2 := by linarith
    have := Int.eq_of_mul_eq_mul_left (by omega : g ≠ 0) h2
    rcases abs_cases (2 * q + 1) with ⟨h1, _⟩ | ⟨h1, _⟩ <;> omega
  have ha0 : g * (2 * q + 1) ≠ 0 := by
    intro h
    rcases Int.mul_eq_zero.mp h with h | h <;> omega
  have hb0 : (2 * g) ≠ 0 := by omega
  have hsb : Int.sign (2 * g) = 1 := Int.sign_eq_one_of_pos (by omega)
  constructor
  · intro hq
    unfold GmpNormal
    rw [eabs_a, eabs_b, if_neg hne, if_pos (Or.inr rfl), if_neg (by rintro (h | h); exact ha0 h; exact hne h)]
    refine ⟨(Int.sign_eq_one_of_pos (by positivity)).symm, ?_⟩
    rw [abs_neg, abs_of_nonneg hq, abs_of_nonneg (by omega)]
    nlinarith
  · intro hq
    unfold GmpNormal
    rw [eabs_a, eabs_b, if_neg hne, if_pos (Or.inr rfl), if_neg (by rintro (h | h); exact ha0 h; exact hne h)]
    have hneg : g * (2 * q + 1) < 0 := by nlinarith
    refine ⟨(Int.sign_eq_neg_one_of_neg hneg).symm, ?_⟩
    rw [abs_of_nonpos (by omega : q + 1 ≤ 0), abs_of_neg (by omega : 2 * q + 1 < 0)]
    nlinarith

/-- invariant of the gcdext loop after its first step, for b > 0 (q1 = ⌊a / b⌋) -/
structure GInv (b q1 g f s s1 t t1 : Int) : Prop where
  f_nonneg : 0 ≤ f
  f_lt : f < g
  signs : (0 ≤ s ∧ s1 < 0 ∧ f * s - g * s1 = b) ∨ (s ≤ 0 ∧ 0 < s1 ∧ g * s1 - f * s = b)
  first : s = 0 → (g = b ∧ s1 = 1 ∧ t1 = -q1)
  fin : f = 0 → ((2 * g * s < b ∧ 2 * g * (-s) < b) ∨ (b = 2 * g ∧ s = 1 ∧ t = -q1))

theorem GInv.step {b q1 g f s s1 t t1 : Int} (hb : 0 < b) (h : GInv b q1 g f s s1 t t1) (hf : f ≠ 0) :
    GInv b q1 f (Int.fmod g f) s1 (s - Int.fdiv g f * s1) t1 (t - Int.fdiv g f * t1) := by
  obtain ⟨h1, h2, h3, h4, _⟩ := h
  have hfpos : 0 < f := by omega
  obtain ⟨hdm, hr0, hrf⟩ := (Int.fdiv_fmod_unique (a := g) (b := f) (r := Int.fmod g f) (q := Int.fdiv g f)
    hfpos).mp ⟨rfl, rfl⟩
  set c := Int.fdiv g f with hc
  set r := Int.fmod g f with hr
  have hc1 : 1 ≤ c := by
    by_contra hlt
    have : f * c ≤ 0 := Int.mul_nonpos_of_nonneg_of_nonpos (by omega) (by omega)
    omega
  refine ⟨hr0, hrf, ?_, ?_, ?_⟩
  · rcases h3 with ⟨p1, p2, p3⟩ | ⟨p1, p2, p3⟩
    · right
      refine ⟨by omega, by nlinarith, ?_⟩
      have : f * (s - c * s1) - r * s1 = f * s - (r + f * c) * s1 := by ring
      rw [this, hdm]; exact p3
    · left
      refine ⟨by omega, by nlinarith, ?_⟩
      have : r * s1 - f * (s - c * s1) = (r + f * c) * s1 - f * s := by ring
      rw [this, hdm]; exact p3
  · intro hs1
    rcases h3 with ⟨_, p2, _⟩ | ⟨_, p2, _⟩ <;> omega
  · intro hr0'
    have hg : g = f * c := by omega
    have hc2 : 2 ≤ c := by
      by_contra hlt
      have : c = 1 := by omega
      rw [this] at hg; omega
    rcases h3 with ⟨p1, p2, p3⟩ | ⟨p1, p2, p3⟩
    · left
      have hs0 : s ≠ 0 := by
        intro h0
        have := (h4 h0).2.1
        omega
      rw [hg] at p3
      constructor
      · nlinarith
      · have : 0 < f * s := by positivity
        nlinarith
    · rw [hg] at p3
      by_cases hs0 : s = 0
      · obtain ⟨q1', q2', q3'⟩ := h4 hs0
        subst hs0 q2'
        rcases (by omega : c = 2 ∨ 3 ≤ c) with hc' | hc'
        · right
          refine ⟨by rw [← q1', hg, hc']; ring, rfl, q3'⟩
        · left
          constructor
          · nlinarith
          · nlinarith
      · left
        have : 0 < f * (-s) := by
          have : 0 < -s := by omega
          positivity
        constructor
        · nlinarith
        · nlinarith

theorem gcdextLoop_norm (b q1 : Int) (hb : 0 < b) (fuel : Nat) (g f s s1 t t1 : Int)
    (h : GInv b q1 g f s s1 t t1) (hfuel : f.natAbs < fuel) :
    ∃ g' s' t', gcdextLoop fuel g f s s1 t t1 = .ok (g', s', t') ∧ 0 < g' ∧
      ((2 * g' * s' < b ∧ 2 * g' * (-s') < b) ∨ (b = 2 * g' ∧ s' = 1 ∧ t' = -q1)) := by
  induction fuel generalizing g f s s1 t t1 with
  | zero => omega
  | succ n ih =>
    simp only [gcdextLoop]
    by_cases h0 : f = 0
    · rw [if_pos h0]
      have := h.f_lt
      exact ⟨g, s, t, rfl, by omega, h.fin h0⟩
    · rw [if_neg h0]
      apply ih _ _ _ _ _ _ (h.step hb h0)
      have := fmod_natAbs_lt g f h0
      omega

theorem gcdext_norm_pos (a b : Int) (hb : 0 < b) :
    ∃ g s t, gcdext a b = .ok (g, s, t) ∧ 0 < g ∧ GmpNormal a b g s t ∧
      ∃ s0 t0, gcdextLoop (b.natAbs + 2) a b 1 0 0 1 = .ok (g, s0, t0) := by
  set q1 := Int.fdiv a b with hq1
  set r := Int.fmod a b with hr
  obtain ⟨hdm, hr0, hrb⟩ := (Int.fdiv_fmod_unique (a := a) (b := b) (r := r) (q := q1) hb).mp ⟨rfl, rfl⟩
  have hb0 : b ≠ 0 := by omega
  have hstep : gcdextLoop (b.natAbs + 2) a b 1 0 0 1 = gcdextLoop (b.natAbs + 1) b r 0 1 1 (-q1) := by
    simp only [gcdextLoop, if_neg hb0]
    simp [hq1, hr]
  have hinv : GInv b q1 b r 0 1 1 (-q1) :=
    ⟨hr0, hrb, Or.inr ⟨le_refl _, by omega, by ring⟩, fun _ => ⟨rfl, rfl, rfl⟩,
      fun _ => Or.inl ⟨by simp; omega, by simp; omega⟩⟩
  obtain ⟨g, s, t, hl, hg, hcase⟩ := gcdextLoop_norm b q1 hb (b.natAbs + 1) b r 0 1 1 (-q1) hinv (by omega)
  obtain ⟨g2, s2, t2, hl2, hbz, hgcd⟩ := gcdextLoop_spec a b (b.natAbs + 2) a b 1 0 0 1
    (by ring) (by ring) rfl (by omega)
  rw [hstep, hl] at hl2
  simp only [Except.ok.injEq, Prod.mk.injEq] at hl2
  obtain ⟨rfl, rfl, rfl⟩ := hl2
  have hga : g ∣ a := by
    have h1 : ((Int.gcd a b : Nat) : Int) ∣ a := Int.gcd_dvd_left a b
    rw [← hgcd] at h1
    have : (g.natAbs : Int) = g := by omega
    rwa [this] at h1
  have hgb : g ∣ b := by
    have h1 : ((Int.gcd a b : Nat) : Int) ∣ b := Int.gcd_dvd_right a b
    rw [← hgcd] at h1
    have : (g.natAbs : Int) = g := by omega
    rwa [this] at h1
  have hbabs : (b.natAbs : Int) = b := by omega
  have hunf : gcdext a b =
      if ((a < 0 ∧ 0 < b) ∨ (b < 0 ∧ 0 < a)) ∧ (b.natAbs : Int) = 2 * g then
        .ok (g, -s, t - s * ((a.natAbs : Int) / g))
      else .ok (g, s, t) := by
    have hn : (if g < 0 then (-g, -s, -t) else if g = 0 then (g, 0, t) else (g, s, t)) = (g, s, t) := by
      rw [if_neg (by omega), if_neg (by omega)]
    simp only [gcdext, hstep, hl, hn]
  rw [hunf, hbabs]
  rcases hcase with ⟨c1, c2⟩ | ⟨c1, c2, c3⟩
  · -- generic
    have habs : 2 * g * |s| < b := by
      rcases abs_cases s with ⟨h, _⟩ | ⟨h, _⟩ <;> rw [h]
      · exact c1
      · exact c2
    have hne : b ≠ 2 * g := by
      intro h2
      have hs0 : |s| = 0 := by
        have : 2 * g * |s| < 2 * g * 1 := by linarith
        have := lt_of_mul_lt_mul_left this (by omega)
        have := abs_nonneg s
        omega
      have hs00 : s = 0 := abs_eq_zero.mp hs0
      rw [hs00, h2] at hbz
      have : g * (2 * t - 1) = 0 := by linarith
      rcases Int.mul_eq_zero.mp this with h | h <;> omega
    rw [if_neg (fun h => hne h.2)]
    exact ⟨g, s, t, rfl, hg, norm_generic a b g s t hb hg hga hgb hbz habs, s, t, by rw [hstep, hl]⟩
  · -- |b| = 2g
    subst c2 c3
    have ha : a = g * (2 * q1 + 1) := by rw [c1] at hbz; linarith
    by_cases hq : 0 ≤ q1
    · have hapos : 0 < a := by rw [ha]; positivity
      rw [if_neg (by omega)]
      refine ⟨g, 1, -q1, rfl, hg, ?_, 1, -q1, by rw [hstep, hl]⟩
      rw [ha, c1]; exact (norm_caseB g q1 hg).1 hq
    · have haneg : a < 0 := by rw [ha]; nlinarith
      rw [if_pos ⟨Or.inl ⟨haneg, hb⟩, c1⟩]
      have habs : (a.natAbs : Int) = g * (-(2 * q1 + 1)) := by
        have : (a.natAbs : Int) = -a := by omega
        rw [this, ha]; ring
      have hdiv : (a.natAbs : Int) / g = -(2 * q1 + 1) := by
        rw [habs]; exact Int.mul_ediv_cancel_left _ (by omega)
      rw [hdiv]
      refine ⟨g, -1, q1 + 1, by congr 3; ring, hg, ?_, 1, -q1, by rw [hstep, hl]⟩
      rw [ha, c1]; exact (norm_caseB g q1 hg).2 (by omega)

theorem gcdextLoop_neg (fuel : Nat) (g f s s1 t t1 : Int) :
    gcdextLoop fuel (-g) (-f) s s1 t t1 =
      (match gcdextLoop fuel g f s s1 t t1 with
       | .ok (g', s', t') => .ok (-g', s', t')
       | .error e => .error e) := by
  induction fuel generalizing g f s s1 t t1 with
  | zero => rfl
  | succ n ih =>
    simp only [gcdextLoop]
    by_cases h0 : f = 0
    · subst h0; simp
    · rw [if_neg h0, if_neg (by omega), Int.neg_fdiv_neg, Int.neg_fmod_neg, ih]

theorem GmpNormal_neg (a b g s t : Int) (h : GmpNormal (-a) (-b) g s t) : GmpNormal a b g (-s) (-t) := by
  unfold GmpNormal at h ⊢
  simp only [abs_neg, Int.sign_neg, neg_eq_zero] at h ⊢
  by_cases hab : |a| = |b|
  · rw [if_pos hab] at h ⊢
    exact ⟨h.1, by rw [h.2]; ring⟩
  · rw [if_neg hab] at h ⊢
    obtain ⟨h1, h2⟩ := h
    constructor
    · split at h1
      · next hc => rw [if_pos hc, h1]; ring
      · next hc => rw [if_neg hc]; exact h1
    · split at h2
      · next hc => rw [if_pos hc, h2]; ring
      · next hc => rw [if_neg hc]; exact h2

theorem gcdext_neg_of_loop (a b g0 s0 t0 : Int) (hg0 : 0 < g0)
    (hl : gcdextLoop (b.natAbs + 2) a b 1 0 0 1 = .ok (g0, s0, t0)) :
    gcdext (-a) (-b) =
      (match gcdext a b with
       | .ok (g, s, t) => .ok (g, -s, -t)
       | .error e => .error e) := by
  have hl' : gcdextLoop (b.natAbs + 2) (-a) (-b) 1 0 0 1 = .ok (-g0, s0, t0) := by
    rw [gcdextLoop_neg, hl]
  have hn1 : (if g0 < 0 then (-g0, -s0, -t0) else if g0 = 0 then (g0, 0, t0) else (g0, s0, t0)) = (g0, s0, t0) := by
    rw [if_neg (by omega), if_neg (by omega)]
  have hn2 : (if -g0 < 0 then (- -g0, -s0, -t0) else if -g0 = 0 then (-g0, 0, t0) else (-g0, s0, t0))
      = (g0, -s0, -t0) := by
    rw [if_pos (by omega), neg_neg]
  have hc : (((-a < 0 ∧ 0 < -b) ∨ (-b < 0 ∧ 0 < -a)) ∧ (b.natAbs : Int) = 2 * g0) ↔
      (((a < 0 ∧ 0 < b) ∨ (b < 0 ∧ 0 < a)) ∧ (b.natAbs : Int) = 2 * g0) := by
    constructor <;> rintro ⟨h1, h2⟩ <;> exact ⟨by omega, h2⟩
  simp only [gcdext, Int.natAbs_neg, hl, hl', hn1, hn2]
  by_cases hcond : ((a < 0 ∧ 0 < b) ∨ (b < 0 ∧ 0 < a)) ∧ (b.natAbs : Int) = 2 * g0
  · rw [if_pos hcond, if_pos (hc.mpr hcond)]
    simp only []
    congr 3; ring
  · rw [if_neg hcond, if_neg (fun h => hcond (hc.mp h))]

theorem gcdext_norm_zero (a : Int) : ∃ g s t, gcdext a 0 = .ok (g, s, t) ∧ GmpNormal a 0 g s t := by
  have hl : gcdextLoop ((0 : Int).natAbs + 2) a 0 1 0 0 1 = .ok (a, 1, 0) := by simp [gcdextLoop]
  have hcond : ¬ (((a < 0 ∧ (0 : Int) < 0) ∨ ((0 : Int) < 0 ∧ 0 < a)) ∧ (((0 : Int).natAbs : Nat) : Int) = 2 * a.natAbs) := by
    omega
  rcases lt_trichotomy a 0 with ha | ha | ha
  · refine ⟨-a, -1, 0, ?_, ?_⟩
    · simp only [gcdext, hl, if_pos ha]
      rw [if_neg (by omega)]; simp
    · unfold GmpNormal
      rw [if_neg (by simp; omega), if_pos (Or.inl rfl), if_neg]
      · exact ⟨(Int.sign_eq_neg_one_of_neg ha).symm, by simp; omega⟩
      · rintro (h | h)
        · omega
        · rw [abs_of_neg ha] at h; omega
  · subst ha
    refine ⟨0, 0, 0, by decide, ?_⟩
    unfold GmpNormal; simp
  · refine ⟨a, 1, 0, ?_, ?_⟩
    · simp only [gcdext, hl]
      rw [if_neg (by omega), if_neg (by omega)]
      rw [if_neg (by omega)]
    · unfold GmpNormal
      rw [if_neg (by simp; omega), if_pos (Or.inl rfl), if_neg]
      · exact ⟨(Int.sign_eq_one_of_pos ha).symm, by simp; omega⟩
      · rintro (h | h)
        · omega
        · rw [abs_of_pos ha] at h; omega

/-- gcdext obeys the GMP normalisation for all integers -/
theorem gcdext_normal (a b : Int) : ∃ g s t, gcdext a b = .ok (g, s, t) ∧ GmpNormal a b g s t := by
  rcases lt_trichotomy b 0 with hb | hb | hb
  · obtain ⟨g, s, t, h1, hg, h2, s0, t0, hl⟩ := gcdext_norm_pos (-a) (-b) (by omega)
    have := gcdext_neg_of_loop (-a) (-b) g s0 t0 hg hl
    rw [neg_neg, neg_neg, h1] at this
    exact ⟨g, -s, -t, this, GmpNormal_neg a b g s t h2⟩
  · subst hb; exact gcdext_norm_zero a
  · obtain ⟨g, s, t, h1, _, h2, _⟩ := gcdext_norm_pos a b hb
    exact ⟨g, s, t, h1, h2⟩

end MpycV.NumTh
