/-
Lemmas for the value layer of secure finite-field arithmetic (model: MpycV.Model.SecFld).
Abstract finite-field facts (Mathlib), the specification of the reciprocal retry loop, the link
`Faithful` between the executable field operations and a Mathlib field, and its instance for prime fields.
-/
import MpycV.Model.SecFld
import MpycV.Lemmas.PrimeF
import Mathlib.FieldTheory.Finite.Basic

namespace MpycV.SecFld

/-! ### finite fields (abstract) -/
section abstract
variable {K : Type} [Field K]

theorem pow_card_sub_one_eq_one_iff [Fintype K] (a : K) : a ^ (Fintype.card K - 1) = 1 ↔ a ≠ 0 := by
  constructor
  · intro h h0
    have hc : 1 < Fintype.card K := Fintype.one_lt_card
    rw [h0, zero_pow (by omega)] at h
    exact zero_ne_one h
  · exact FiniteField.pow_card_sub_one_eq_one a

theorem zero_indicator [Fintype K] [DecidableEq K] (a : K) :
    1 - a ^ (Fintype.card K - 1) = if a = 0 then 1 else 0 := by
  by_cases h : a = 0
  · have hc : 1 < Fintype.card K := Fintype.one_lt_card
    rw [if_pos h, h, zero_pow (by omega), sub_zero]
  · rw [if_neg h, (pow_card_sub_one_eq_one_iff a).mpr h, sub_self]

theorem reciprocal_field (a r : K) (h : a * r ≠ 0) : r / (a * r) = a⁻¹ := by
  have hr : r ≠ 0 := right_ne_zero_of_mul h
  have ha : a ≠ 0 := left_ne_zero_of_mul h
  field_simp

/-- multiplicative blinding: for a ≠ 0 the map r ↦ a·r is a bijection of the nonzero elements -/
theorem blinding_bijective (a : K) (ha : a ≠ 0) :
    Function.Bijective (fun r : {r : K // r ≠ 0} => (⟨a * r.1, mul_ne_zero ha r.2⟩ : {c : K // c ≠ 0})) := by
  constructor
  · intro r s h
    have : a * r.1 = a * s.1 := congrArg Subtype.val h
    exact Subtype.ext (mul_left_cancel₀ ha this)
  · intro c
    refine ⟨⟨a⁻¹ * c.1, mul_ne_zero (inv_ne_zero ha) c.2⟩, ?_⟩
    apply Subtype.ext
    simp [mul_inv_cancel_left₀ ha]

theorem blinding_unique (a c : K) (ha : a ≠ 0) (_hc : c ≠ 0) : ∃! r : K, a * r = c := by
  refine ⟨a⁻¹ * c, mul_inv_cancel_left₀ ha c, ?_⟩
  intro r h
  rw [← h, inv_mul_cancel_left₀ ha]

/-- specification of the retry loop over a field: open x·r for the listed masks until it is nonzero -/
def recipSpec [DecidableEq K] (x : K) : List K → List K × Option K
  | [] => ([], none)
  | r :: rs => if x * r = 0 then ((x * r) :: (recipSpec x rs).1, (recipSpec x rs).2) else ([x * r], some x⁻¹)

theorem recipSpec_some [DecidableEq K] (x : K) (rs : List K) (v : K) (h : (recipSpec x rs).2 = some v) :
    v = x⁻¹ ∧ x ≠ 0 ∧ ∃ r ∈ rs, x * r ≠ 0 := by
  induction rs with
  | nil => simp [recipSpec] at h
  | cons r rs ih =>
    unfold recipSpec at h
    split at h
    · obtain ⟨a, b, r', hr', c⟩ := ih h
      exact ⟨a, b, r', List.mem_cons_of_mem _ hr', c⟩
    · rename_i hne
      simp only [Option.some.injEq] at h
      exact ⟨h.symm, left_ne_zero_of_mul hne, r, List.mem_cons_self, hne⟩

theorem recipSpec_none [DecidableEq K] (x : K) (rs : List K) :
    (recipSpec x rs).2 = none ↔ ∀ r ∈ rs, x * r = 0 := by
  induction rs with
  | nil => simp [recipSpec]
  | cons r rs ih =>
    unfold recipSpec
    rw [List.forall_mem_cons]
    split
    · rename_i h0
      exact ⟨fun h => ⟨h0, ih.mp h⟩, fun h => ih.mpr h.2⟩
    · rename_i hne
      exact ⟨fun h => (by cases h), fun h => absurd h.1 hne⟩

/-- opened values: all zero except the last one when the loop returns -/
theorem recipSpec_opened [DecidableEq K] (x : K) (rs : List K) :
    (∀ o ∈ (recipSpec x rs).1.dropLast, o = 0) ∧
    ((recipSpec x rs).2 ≠ none → ∃ o, (recipSpec x rs).1.getLast? = some o ∧ o ≠ 0) ∧
    ((recipSpec x rs).2 = none → ∀ o ∈ (recipSpec x rs).1, o = 0) := by
  induction rs with
  | nil => simp [recipSpec]
  | cons r rs ih =>
    unfold recipSpec
    split
    · rename_i h0
      obtain ⟨i1, i2, i3⟩ := ih
      refine ⟨?_, ?_, ?_⟩
      · intro o ho
        cases hl : (recipSpec x rs).1 with
        | nil => simp [hl] at ho
        | cons y ys =>
          rw [hl, List.dropLast_cons_cons] at ho
          rcases List.mem_cons.mp ho with h | h
          · rw [h, h0]
          · exact i1 o (by rw [hl]; exact h)
      · intro hn
        obtain ⟨o, ho, hne⟩ := i2 hn
        refine ⟨o, ?_, hne⟩
        cases hl : (recipSpec x rs).1 with
        | nil => simp [hl] at ho
        | cons y ys => rw [hl] at ho; simpa using ho
      · intro hn o ho
        rcases List.mem_cons.mp ho with h | h
        · rw [h, h0]
        · exact i3 hn o h
    · rename_i hne
      simp [hne]

end abstract

/-! ### the model's field operations represent a Mathlib field -/

/-- the operations `F` on the valid representations `V` are those of the field `K` via `φ` -/
structure Faithful {α K : Type} [Field K] (F : Ops α) (V : α → Prop) (φ : α → K) : Prop where
  ofNat_valid : ∀ n, V (F.ofNat n)
  add_valid : ∀ {a b}, V a → V b → V (F.add a b)
  sub_valid : ∀ {a b}, V a → V b → V (F.sub a b)
  mul_valid : ∀ {a b}, V a → V b → V (F.mul a b)
  map_ofNat : ∀ n : Nat, φ (F.ofNat n) = (n : K)
  map_add : ∀ {a b}, V a → V b → φ (F.add a b) = φ a + φ b
  map_sub : ∀ {a b}, V a → V b → φ (F.sub a b) = φ a - φ b
  map_mul : ∀ {a b}, V a → V b → φ (F.mul a b) = φ a * φ b
  inv_ok : ∀ {a}, V a → φ a ≠ 0 → ∃ b, F.inv a = some b ∧ V b ∧ φ b = (φ a)⁻¹
  isZero_iff : ∀ {a}, V a → (F.isZero a = true ↔ φ a = 0)

section model
variable {α K : Type} [Field K] {F : Ops α} {V : α → Prop} {φ : α → K}

/-- `a` is a valid representation of `x` -/
def Rep (V : α → Prop) (φ : α → K) (a : α) (x : K) : Prop := V a ∧ φ a = x

theorem Rep.mul (hF : Faithful F V φ) {a b : α} {x y : K} (ha : Rep V φ a x) (hb : Rep V φ b y) :
    Rep V φ (F.mul a b) (x * y) :=
  ⟨hF.mul_valid ha.1 hb.1, by rw [hF.map_mul ha.1 hb.1, ha.2, hb.2]⟩

theorem Rep.sub (hF : Faithful F V φ) {a b : α} {x y : K} (ha : Rep V φ a x) (hb : Rep V φ b y) :
    Rep V φ (F.sub a b) (x - y) :=
  ⟨hF.sub_valid ha.1 hb.1, by rw [hF.map_sub ha.1 hb.1, ha.2, hb.2]⟩

theorem Rep.add (hF : Faithful F V φ) {a b : α} {x y : K} (ha : Rep V φ a x) (hb : Rep V φ b y) :
    Rep V φ (F.add a b) (x + y) :=
  ⟨hF.add_valid ha.1 hb.1, by rw [hF.map_add ha.1 hb.1, ha.2, hb.2]⟩

theorem Rep.mul_pow (hF : Faithful F V φ) {a b : α} {x : K} {i j : Nat} (ha : Rep V φ a (x ^ i))
    (hb : Rep V φ b (x ^ j)) : Rep V φ (F.mul a b) (x ^ (i + j)) := by
  rw [pow_add]; exact Rep.mul hF ha hb

theorem Rep.one (hF : Faithful F V φ) : Rep V φ (one F) (1 : K) :=
  ⟨hF.ofNat_valid 1, by unfold SecFld.one; rw [hF.map_ofNat]; simp⟩

theorem reciprocalStep_spec (hF : Faithful F V φ) {a r : α} (ha : V a) (hr : V r) :
    φ (reciprocalStep F a r).1 = φ a * φ r ∧
    (φ a * φ r = 0 → (reciprocalStep F a r).2 = none) ∧
    (φ a * φ r ≠ 0 → ∃ v, (reciprocalStep F a r).2 = some v ∧ Rep V φ v (φ a)⁻¹) := by
  have hm := hF.map_mul ha hr
  have hv := hF.mul_valid ha hr
  unfold reciprocalStep
  refine ⟨hm, ?_, ?_⟩
  · intro h0
    have : F.isZero (F.mul a r) = true := (hF.isZero_iff hv).mpr (by rw [hm, h0])
    simp [this]
  · intro hne
    have hz : ¬ F.isZero (F.mul a r) = true := fun h => hne (by rw [← hm]; exact (hF.isZero_iff hv).mp h)
    obtain ⟨b, hb1, hb2, hb3⟩ := hF.inv_ok hv (by rw [hm]; exact hne)
    refine ⟨F.mul r b, ?_, hF.mul_valid hr hb2, ?_⟩
    · simp [hz, hb1]
    · rw [hF.map_mul hr hb2, hb3, hm, ← div_eq_mul_inv, reciprocal_field _ _ hne]

/-- the model's retry loop, seen through φ, is the specification `recipSpec` -/
theorem reciprocal_spec [DecidableEq K] (hF : Faithful F V φ) {a : α} (ha : V a) (rs : List α) (hrs : ∀ r ∈ rs, V r) :
    (reciprocal F a rs).1.map φ = (recipSpec (φ a) (rs.map φ)).1 ∧
    (reciprocal F a rs).2.map φ = (recipSpec (φ a) (rs.map φ)).2 ∧
    (∀ v, (reciprocal F a rs).2 = some v → V v) := by
  induction rs with
  | nil => simp [reciprocal, recipSpec]
  | cons r rs ih =>
    have hr : V r := hrs r List.mem_cons_self
    obtain ⟨i1, i2, i3⟩ := ih (fun x hx => hrs x (List.mem_cons_of_mem _ hx))
    obtain ⟨s1, s2, s3⟩ := reciprocalStep_spec hF ha hr
    simp only [List.map_cons]
    by_cases h0 : φ a * φ r = 0
    · have hn := s2 h0
      have e : reciprocalStep F a r = ((reciprocalStep F a r).1, none) := by rw [← hn]
      unfold reciprocal recipSpec
      rw [e, if_pos h0]
      simp only [List.map_cons]
      refine ⟨by rw [s1, i1], i2, i3⟩
    · obtain ⟨v, hv, hrep⟩ := s3 h0
      have e : reciprocalStep F a r = ((reciprocalStep F a r).1, some v) := by rw [← hv]
      unfold reciprocal recipSpec
      rw [e, if_neg h0]
      simp only [List.map_cons, List.map_nil, Option.map_some]
      refine ⟨by rw [s1], by rw [hrep.2], ?_⟩
      intro w hw
      simp only [Option.some.injEq] at hw
      rw [← hw]; exact hrep.1


/-! ### pow, is_zero, eq -/

def cval (φ : α → K) : Option α → K
  | none => 1
  | some c => φ c

def cvalid (V : α → Prop) : Option α → Prop
  | none => True
  | some c => V c

theorem powLoop_spec (hF : Faithful F V φ) {x : K} (b : Nat) : ∀ (fuel i : Nat) (c : Option α) (d : α),
    cvalid V c → cval φ c = x ^ (b % 2 ^ i) → Rep V φ d (x ^ (2 ^ i)) →
    cvalid V (powLoop F b fuel i c d).1 ∧ cval φ (powLoop F b fuel i c d).1 = x ^ (b % 2 ^ (i + fuel)) ∧
    Rep V φ (powLoop F b fuel i c d).2 (x ^ (2 ^ (i + fuel))) := by
  intro fuel
  induction fuel with
  | zero => intro i c d hc hv hd; exact ⟨hc, hv, hd⟩
  | succ fuel ih =>
    intro i c d hc hv hd
    unfold powLoop
    have hd' : Rep V φ (F.mul d d) (x ^ (2 ^ (i + 1))) := by
      have := Rep.mul hF hd hd
      rwa [← pow_add, ← two_mul, ← pow_succ'] at this
    have hmod : b % 2 ^ (i + 1) = b % 2 ^ i + 2 ^ i * ((b >>> i) % 2) := by
      rw [Nat.mod_pow_succ, Nat.shiftRight_eq_div_pow]
    have e : i + (fuel + 1) = (i + 1) + fuel := by omega
    rw [e]
    apply ih
    · split
      · cases c with
        | none => exact hd.1
        | some c => exact hF.mul_valid hc hd.1
      · exact hc
    · split
      · rename_i hbit
        rw [hmod, hbit, Nat.mul_one, pow_add, ← hv]
        cases c with
        | none => simp [cval, hd.2]
        | some c => simp only [cval]; rw [hF.map_mul hc hd.1, hd.2]
      · rename_i hbit
        have : (b >>> i) % 2 = 0 := by omega
        rw [hmod, this, Nat.mul_zero, Nat.add_zero]; exact hv
    · exact hd'

theorem bitLength_sub_one {n : Nat} (hn : n ≠ 0) : bitLength n - 1 = Nat.log2 n := by
  unfold bitLength; rw [if_neg hn]; omega

/-- square-and-multiply (runtime.py:1321-1328) computes x^n for n ≥ 1 -/
theorem powPos_spec (hF : Faithful F V φ) {a : α} {x : K} (ha : Rep V φ a x) {n : Nat} (hn : n ≠ 0) :
    Rep V φ (match (powLoop F n (bitLength n - 1) 0 none a).1 with
      | none => (powLoop F n (bitLength n - 1) 0 none a).2
      | some c => F.mul c (powLoop F n (bitLength n - 1) 0 none a).2) (x ^ n) := by
  rw [bitLength_sub_one hn]
  obtain ⟨h1, h2, h3⟩ := powLoop_spec hF (x := x) n (Nat.log2 n) 0 none a trivial
    (by simp [cval, Nat.mod_one]) (by simpa using ha)
  rw [Nat.zero_add] at h2 h3
  have hlo := Nat.log2_self_le hn
  have hhi := @Nat.lt_log2_self n
  have hdiv : n / 2 ^ Nat.log2 n = 1 := by
    apply Nat.div_eq_of_lt_le <;> rw [Nat.pow_succ] at * <;> omega
  have hsplit : n = n % 2 ^ Nat.log2 n + 2 ^ Nat.log2 n := by
    have := Nat.div_add_mod n (2 ^ Nat.log2 n)
    rw [hdiv, Nat.mul_one] at this; omega
  have hx : x ^ n = x ^ (n % 2 ^ Nat.log2 n) * x ^ (2 ^ Nat.log2 n) := by
    rw [← pow_add, ← hsplit]
  rw [hx]
  cases hc : (powLoop F n (Nat.log2 n) 0 none a).1 with
  | none =>
    rw [hc] at h2
    simp only [cval] at h2
    rw [← h2, one_mul]; exact h3
  | some c =>
    rw [hc] at h1 h2
    simp only [cval] at h2
    simp only [cvalid] at h1
    rw [← h2]
    exact Rep.mul hF ⟨h1, rfl⟩ h3

/-- ≙ runtime.py:1296 `pow` for a public nonnegative exponent (incl. the 254 addition chain and 0): x^n,
nothing is opened -/
theorem pow_nonneg_spec (hF : Faithful F V φ) {a : α} {x : K} (ha : Rep V φ a x) (n : Nat) (rs : List α) :
    ∃ v, pow F a (n : Int) rs = ([], some v) ∧ Rep V φ v (x ^ n) := by
  unfold pow
  by_cases h254 : (n : Int) = 254
  · rw [if_pos h254]
    have hn : n = 254 := by omega
    refine ⟨_, rfl, ?_⟩
    have h1 : Rep V φ a (x ^ 1) := by simpa using ha
    have c2 := Rep.mul_pow hF h1 h1
    have c4 := Rep.mul_pow hF c2 c2
    have c8 := Rep.mul_pow hF c4 c4
    have c9 := Rep.mul_pow hF c8 h1
    have c18 := Rep.mul_pow hF c9 c9
    have c36 := Rep.mul_pow hF c18 c18
    have c19 := Rep.mul_pow hF c18 h1
    have c72 := Rep.mul_pow hF c36 c36
    have c55 := Rep.mul_pow hF c36 c19
    have c127 := Rep.mul_pow hF c72 c55
    have c254 := Rep.mul_pow hF c127 c127
    rw [hn]; exact c254
  · rw [if_neg h254]
    by_cases h0 : (n : Int) = 0
    · rw [if_pos h0]
      have hn : n = 0 := by omega
      exact ⟨_, rfl, by rw [hn, pow_zero]; exact Rep.one hF⟩
    · rw [if_neg h0]
      have hneg : ¬ ((n : Int) < 0) := by omega
      have hn : n ≠ 0 := by omega
      simp only [hneg, if_false, Int.toNat_natCast]
      exact ⟨_, rfl, powPos_spec hF ha hn⟩

/-- ≙ runtime.py:1459 `is_zero` for secure field elements: `1 - a^(q-1)` is the zero indicator -/
theorem isZero_spec [Fintype K] [DecidableEq K] (hF : Faithful F V φ) (hq : F.order = Fintype.card K) {a : α} {x : K}
    (ha : Rep V φ a x) : ∃ v, isZero F a = some v ∧ Rep V φ v (if x = 0 then 1 else 0) := by
  obtain ⟨v, hv, hrep⟩ := pow_nonneg_spec hF ha (F.order - 1) []
  refine ⟨F.sub (one F) v, ?_, ?_⟩
  · unfold isZero; rw [hv]; rfl
  · rw [← zero_indicator, ← hq]
    exact Rep.sub hF (Rep.one hF) hrep

/-- ≙ runtime.py:1447 `eq` -/
theorem eq_spec [Fintype K] [DecidableEq K] (hF : Faithful F V φ) (hq : F.order = Fintype.card K) {a b : α} {x y : K}
    (ha : Rep V φ a x) (hb : Rep V φ b y) : ∃ v, eq F a b = some v ∧ Rep V φ v (if x = y then 1 else 0) := by
  obtain ⟨v, hv, hrep⟩ := isZero_spec hF hq (Rep.sub hF ha hb)
  refine ⟨v, hv, ?_⟩
  simp only [sub_eq_zero] at hrep
  exact hrep

/-- ≙ runtime.py:880 `is_zero_public`: with a nonzero mask the opened product is zero iff a is -/
theorem isZeroPublic_spec (hF : Faithful F V φ) {a r : α} {x y : K} (ha : Rep V φ a x) (hr : Rep V φ r y)
    (hy : y ≠ 0) : φ (isZeroPublic F a r).1 = x * y ∧ ((isZeroPublic F a r).2 = true ↔ x = 0) := by
  have hm := Rep.mul hF ha hr
  unfold isZeroPublic
  refine ⟨hm.2, ?_⟩
  simp only []
  rw [hF.isZero_iff hm.1, hm.2]
  simp [hy]

/-- negative exponent: reciprocal first (masks `rs`), then the positive power -/
theorem pow_neg_spec [DecidableEq K] (hF : Faithful F V φ) {a : α} {x : K} (ha : Rep V φ a x) (n : Nat) (hn : n ≠ 0)
    (rs : List α) (hrs : ∀ r ∈ rs, V r) :
    (pow F a (-(n : Int)) rs).1 = (reciprocal F a rs).1 ∧
    ((reciprocal F a rs).2 = none → (pow F a (-(n : Int)) rs).2 = none) ∧
    (∀ w, (reciprocal F a rs).2 = some w → ∃ v, (pow F a (-(n : Int)) rs).2 = some v ∧ Rep V φ v ((x⁻¹) ^ n)) := by
  have h254 : ¬ (-(n : Int) = 254) := by omega
  have h0 : ¬ (-(n : Int) = 0) := by omega
  have hneg : -(n : Int) < 0 := by omega
  have hnn : (- -(n : Int)).toNat = n := by omega
  obtain ⟨_, s2, s3⟩ := reciprocal_spec hF ha.1 rs hrs
  unfold pow
  simp only [h254, h0, hneg, if_true, if_false, hnn]
  refine ⟨?_, ?_, ?_⟩
  · cases (reciprocal F a rs).2 <;> rfl
  · intro hnone; rw [hnone]
  · intro w hw
    rw [hw]
    have hwv : V w := s3 w hw
    have hwx : φ w = x⁻¹ := by
      have := s2; rw [hw, Option.map_some, ha.2] at this
      exact (recipSpec_some _ _ _ this.symm).1
    exact ⟨_, rfl, powPos_spec hF ⟨hwv, hwx⟩ hn⟩

end model

/-! ### prime fields: the instance -/

theorem primeOps_faithful (p : Nat) [hp : Fact p.Prime] :
    Faithful (primeOps p) (fun a => a < p) (fun a => (a : ZMod p)) := by
  have : NeZero p := ⟨hp.out.ne_zero⟩
  refine
    { ofNat_valid := fun n => show PrimeF.mk p (n : Int) < p from PrimeF.mk_lt hp.out.pos _
      add_valid := fun {a b} _ _ => show PrimeF.add p a (b : Int) < p from PrimeF.add_lt _ _
      sub_valid := fun {a b} _ _ => show PrimeF.sub p a (b : Int) < p from PrimeF.sub_lt _ _
      mul_valid := fun {a b} _ _ => show PrimeF.mul p a (b : Int) < p from PrimeF.mul_lt _ _
      map_ofNat := fun n => by
        show ((PrimeF.mk p (n : Int) : Nat) : ZMod p) = (n : ZMod p)
        rw [PrimeF.mk_cast]; simp
      map_add := fun {a b} _ _ => by
        show ((PrimeF.add p a (b : Int) : Nat) : ZMod p) = _
        rw [PrimeF.cast_add]; simp
      map_sub := fun {a b} _ _ => by
        show ((PrimeF.sub p a (b : Int) : Nat) : ZMod p) = _
        rw [PrimeF.cast_sub]; simp
      map_mul := fun {a b} _ _ => by
        show ((PrimeF.mul p a (b : Int) : Nat) : ZMod p) = _
        rw [PrimeF.cast_mul]; simp
      inv_ok := fun {a} _ hne => by
        obtain ⟨r, h1, h2, h3⟩ := PrimeF.reciprocal_ok (p := p) a hne
        exact ⟨r, by show exceptToOption (PrimeF.reciprocal p a) = some r; rw [h1]; rfl, h2, h3⟩
      isZero_iff := fun {a} ha => by
        show ((a == 0) = true) ↔ ((a : ZMod p) = 0)
        rw [beq_iff_eq, ZMod.natCast_eq_zero_iff]
        constructor
        · intro h; rw [h]; exact dvd_zero _
        · intro h; exact Nat.eq_zero_of_dvd_of_lt h ha }

theorem primeOps_order (p : Nat) [Fact p.Prime] : (primeOps p).order = Fintype.card (ZMod p) := by
  rw [ZMod.card]; rfl

end MpycV.SecFld
