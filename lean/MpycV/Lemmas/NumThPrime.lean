import MpycV.Lemmas.NumThBasic
import Mathlib.NumberTheory.Bertrand
import Mathlib.FieldTheory.Finite.Basic
import Mathlib.Data.ZMod.Basic

namespace MpycV.NumTh

/-! ### trial division -/

theorem trialDiv_none {x : Nat} {ps : List Nat} :
    trialDiv x ps = none ↔ ∀ p ∈ ps, x % p ≠ 0 := by
  induction ps with
  | nil => simp [trialDiv]
  | cons p ps ih =>
    simp only [trialDiv, List.mem_cons, forall_eq_or_imp]
    split
    · next h => simp [h]
    · next h => simp [h, ih]

theorem trialDiv_some {x : Nat} {ps : List Nat} {b : Bool} (h : trialDiv x ps = some b) :
    ∃ p ∈ ps, x % p = 0 ∧ b = (x == p) := by
  induction ps with
  | nil => simp [trialDiv] at h
  | cons p ps ih =>
    simp only [trialDiv] at h
    split at h
    · next hp =>
      refine ⟨p, by simp, hp, ?_⟩
      simpa using h.symm
    · obtain ⟨q, hq, h1, h2⟩ := ih h
      exact ⟨q, by simp [hq], h1, h2⟩

theorem smallPrimes_prime : ∀ p ∈ smallPrimes, Nat.Prime p := by
  simp only [smallPrimes, List.mem_cons, List.not_mem_nil, or_false]
  rintro p (rfl|rfl|rfl|rfl|rfl|rfl|rfl|rfl|rfl|rfl|rfl|rfl|rfl|rfl|rfl) <;> norm_num

/-! ### the squaring loop and one Miller–Rabin round, characterised arithmetically -/

theorem sqLoop_iff (x k b : Nat) :
    sqLoop x k b = true ↔ ∃ i, 1 ≤ i ∧ i ≤ k ∧ b ^ (2 ^ i) % x = x - 1 := by
  induction k generalizing b with
  | zero =>
    simp only [sqLoop, Bool.false_eq_true, false_iff]
    rintro ⟨i, h1, h2, _⟩; omega
  | succ k ih =>
    have key : ∀ j, (b * b % x) ^ (2 ^ j) % x = b ^ (2 ^ (j + 1)) % x := by
      intro j
      rw [← Nat.pow_mod, ← pow_two, ← pow_mul, pow_succ']
    simp only [sqLoop]
    split
    · next h =>
      simp only [true_iff]
      exact ⟨1, le_refl _, by omega, by simpa [pow_two] using h⟩
    · next h =>
      rw [ih]
      constructor
      · rintro ⟨i, h1, h2, h3⟩
        exact ⟨i + 1, by omega, by omega, by rw [← key]; exact h3⟩
      · rintro ⟨i, h1, h2, h3⟩
        rcases Nat.lt_or_ge 1 i with hi | hi
        · refine ⟨i - 1, by omega, by omega, ?_⟩
          rw [key, Nat.sub_add_cancel h1]; exact h3
        · have : i = 1 := by omega
          subst this
          exfalso; apply h
          simpa [pow_two] using h3

/-- x is a strong probable prime to base a (x - 1 = 2^r * s) -/
def SPRP (x a : Nat) : Prop :=
  let r := tz (x - 1)
  let s := (x - 1) / 2 ^ r
  a ^ s % x = 1 ∨ ∃ i, i < r ∧ a ^ (2 ^ i * s) % x = x - 1

theorem mrRound_iff (x a : Nat) (hx : 2 < x) (hodd : x % 2 = 1) :
    mrRound x (tz (x - 1)) ((x - 1) / 2 ^ tz (x - 1)) a = true ↔ SPRP x a := by
  simp only [mrRound, SPRP, powMod_eq]
  set r := tz (x - 1)
  set s := (x - 1) / 2 ^ r
  have key : ∀ i, (a ^ s % x) ^ (2 ^ i) % x = a ^ (2 ^ i * s) % x := by
    intro i; rw [← Nat.pow_mod, ← pow_mul, mul_comm]
  split
  · next h =>
    simp only [true_iff]
    rcases h with h | h
    · exact Or.inl h
    · rcases Nat.eq_zero_or_pos r with hr | hr
      · have := tz_pos_of_even (x - 1) (by omega) (by omega)
        omega
      · exact Or.inr ⟨0, hr, by simpa using h⟩
  · next h =>
    rw [sqLoop_iff]
    have h := not_or.mp h
    constructor
    · rintro ⟨i, h1, h2, h3⟩
      exact Or.inr ⟨i, by omega, by rw [← key]; exact h3⟩
    · rintro (h1 | ⟨i, h1, h2⟩)
      · exact absurd h1 h.1
      · rcases Nat.eq_zero_or_pos i with hi | hi
        · subst hi; simp at h2; exact absurd h2 h.2
        · exact ⟨i, hi, by omega, by rw [key]; exact h2⟩

/-! ### a prime is a strong probable prime to every base it does not divide -/

theorem sq_chain {F : Type*} [Field F] (r : Nat) (b : F) (h : b ^ (2 ^ r) = 1) :
    b = 1 ∨ ∃ i, i < r ∧ b ^ (2 ^ i) = -1 := by
  induction r generalizing b with
  | zero => left; simpa using h
  | succ r ih =>
    have h2 : (b ^ 2) ^ (2 ^ r) = 1 := by rw [← pow_mul, ← pow_succ']; exact h
    rcases ih (b ^ 2) h2 with h3 | ⟨i, hi, h3⟩
    · rcases sq_eq_one_iff.mp h3 with h4 | h4
      · exact Or.inl h4
      · exact Or.inr ⟨0, by omega, by simpa using h4⟩
    · exact Or.inr ⟨i + 1, by omega, by rw [pow_succ', pow_mul]; exact h3⟩

theorem natCast_eq_neg_one_iff (x n : Nat) (hx : 1 < x) :
    ((n : ZMod x) = -1) ↔ n % x = x - 1 := by
  have h1 : (-1 : ZMod x) = ((x - 1 : Nat) : ZMod x) := by
    rw [Nat.cast_sub (by omega)]; simp
  rw [h1, ZMod.natCast_eq_natCast_iff']
  rw [Nat.mod_eq_of_lt (by omega : x - 1 < x)]

theorem natCast_eq_one_iff (x n : Nat) (hx : 1 < x) :
    ((n : ZMod x) = 1) ↔ n % x = 1 := by
  have h1 : (1 : ZMod x) = ((1 : Nat) : ZMod x) := by simp
  rw [h1, ZMod.natCast_eq_natCast_iff', Nat.mod_eq_of_lt hx]

theorem prime_SPRP (p a : Nat) (hp : p.Prime) (ha : ¬ p ∣ a) : SPRP p a := by
  have : Fact p.Prime := ⟨hp⟩
  simp only [SPRP]
  set r := tz (p - 1)
  set s := (p - 1) / 2 ^ r
  have hrs : 2 ^ r * s = p - 1 := tz_mul_oddPart (p - 1)
  have ha0 : (a : ZMod p) ≠ 0 := by
    rwa [Ne, ZMod.natCast_eq_zero_iff]
  have hf : ((a : ZMod p) ^ s) ^ (2 ^ r) = 1 := by
    rw [← pow_mul, mul_comm, hrs]; exact ZMod.pow_card_sub_one_eq_one ha0
  rcases sq_chain r _ hf with h | ⟨i, hi, h⟩
  · left
    rw [← natCast_eq_one_iff p _ hp.one_lt]; push_cast; exact h
  · right
    refine ⟨i, hi, ?_⟩
    rw [← natCast_eq_neg_one_iff p _ hp.one_lt]; push_cast
    rw [mul_comm, pow_mul]; exact h

end MpycV.NumTh
