/-
Uniformity of `_randbelow(n)` and `random_unit_vector(n)` for n ≤ 16 by kernel-checked enumeration of ALL bit
streams of a fixed length `depth n`: for every public transcript `tr`, the number of streams on which the
function returns `v` after opening `tr` is the same for every outcome `v`  (conditional on everything that is
opened, and on finishing within `depth n` bits, every outcome has exactly the same probability).  No run
hits the fuel bound.

How it is checked: `rbTable n` / `ruvTable n` below are the outcome tables of the MODEL (printed by running the
model itself on `allStreams (depth n)`); the kernel (1) re-evaluates the model on every stream and compares with
the table (`rbOuts n = rbTable n`, one pass, `decide +kernel`) and (2) evaluates the counting check on the table.
-/
import MpycV.Lemmas.RandomVec

namespace MpycV.Random

/-- all bit streams of length L -/
def allStreams : Nat → List (List Bool)
  | 0 => [[]]
  | L + 1 => (allStreams L).map (false :: ·) ++ (allStreams L).map (true :: ·)

theorem mem_allStreams : ∀ (s : List Bool), s ∈ allStreams s.length
  | [] => by simp [allStreams]
  | b :: s => by
    simp only [List.length_cons, allStreams, List.mem_append, List.mem_map]
    cases b
    · exact Or.inl ⟨s, mem_allStreams s, rfl⟩
    · exact Or.inr ⟨s, mem_allStreams s, rfl⟩

/-- what a run shows: `some (some (opened, value))` finished, `some none` needs more bits, `none` fuel/error -/
def outcome {α : Type} : Res α → Option (Option (List Bool × α))
  | .ok o => some (some (o.opened, o.val))
  | .exhausted => some none
  | _ => none

def count {α : Type} [DecidableEq α] (a : α) (l : List α) : Nat := (l.filter (· = a)).length

def dedupL {α : Type} [DecidableEq α] : List α → List α
  | [] => []
  | a :: l => if a ∈ l then dedupL l else a :: dedupL l

theorem mem_dedupL {α : Type} [DecidableEq α] (a : α) : ∀ l : List α, a ∈ dedupL l ↔ a ∈ l
  | [] => by simp [dedupL]
  | b :: l => by
    unfold dedupL
    by_cases hb : b ∈ l
    · simp only [hb, if_true, mem_dedupL a l, List.mem_cons]
      constructor
      · exact Or.inr
      · rintro (rfl | h)
        · exact hb
        · exact h
    · simp only [hb, if_false, List.mem_cons, mem_dedupL a l]

/-- run-length decoding of a table -/
def expand {α : Type} : List (α × Nat) → List α
  | [] => []
  | (a, k) :: l => List.replicate k a ++ expand l

/-- weighted count on a run-length encoded table -/
def countW {α : Type} [DecidableEq α] (a : α) : List (α × Nat) → Nat
  | [] => 0
  | (b, k) :: l => (if b = a then k else 0) + countW a l

theorem count_append {α : Type} [DecidableEq α] (a : α) (l₁ l₂ : List α) :
    count a (l₁ ++ l₂) = count a l₁ + count a l₂ := by
  simp [count, List.filter_append]

theorem count_replicate {α : Type} [DecidableEq α] (a b : α) (k : Nat) :
    count a (List.replicate k b) = if b = a then k else 0 := by
  unfold count
  by_cases h : b = a
  · subst h; simp [List.filter_replicate]
  · simp [h, List.filter_replicate]

theorem count_expand {α : Type} [DecidableEq α] (a : α) : ∀ t : List (α × Nat), count a (expand t) = countW a t
  | [] => rfl
  | (b, k) :: l => by
    simp only [expand, countW, count_append, count_replicate, count_expand a l]

theorem mem_expand {α : Type} {a : α} : ∀ {t : List (α × Nat)}, a ∈ expand t → ∃ k, (a, k) ∈ t
  | [], h => by simp [expand] at h
  | (b, k) :: l, h => by
    simp only [expand, List.mem_append, List.mem_replicate] at h
    rcases h with ⟨_, rfl⟩ | h
    · exact ⟨k, by simp⟩
    · obtain ⟨k', hk'⟩ := mem_expand h
      exact ⟨k', List.mem_cons_of_mem _ hk'⟩

theorem countW_eq_zero {α : Type} [DecidableEq α] {a : α} : ∀ {t : List (α × Nat)}, (∀ k, (a, k) ∉ t) → countW a t = 0
  | [], _ => rfl
  | (b, k) :: l, h => by
    have hb : b ≠ a := by rintro rfl; exact h k (by simp)
    simp only [countW, hb, if_false, Nat.zero_add]
    exact countW_eq_zero (fun k' hk' => h k' (List.mem_cons_of_mem _ hk'))

/-- transcripts of the finished runs -/
def transcriptsW {α : Type} (t : List (Option (Option (List Bool × α)) × Nat)) : List (List Bool) :=
  t.filterMap (fun o => match o.1 with | some (some (tr, _)) => some tr | _ => none)

/-- the finite check on a run-length encoded outcome table: no run fails, every finished value is among
`vals`, and for every transcript that occurs all values in `vals` occur equally often -/
def uniformCheckW {α : Type} [DecidableEq α] (t : List (Option (Option (List Bool × α)) × Nat)) (vals : List α) :
    Bool :=
  t.all (fun o => match o.1 with
    | none => false
    | some none => true
    | some (some (_, v)) => decide (v ∈ vals)) &&
  (dedupL (transcriptsW t)).all (fun tr =>
    vals.all (fun v => countW (some (some (tr, v))) t = countW (some (some (tr, vals.headD v))) t))

theorem uniformCheckW_sound {α : Type} [DecidableEq α] {t : List (Option (Option (List Bool × α)) × Nat)}
    {vals : List α} (h : uniformCheckW t vals = true) :
    (∀ o ∈ expand t, o ≠ none) ∧ (∀ tr v, some (some (tr, v)) ∈ expand t → v ∈ vals) ∧
    (∀ tr v v', v ∈ vals → v' ∈ vals →
      count (some (some (tr, v))) (expand t) = count (some (some (tr, v'))) (expand t)) := by
  unfold uniformCheckW at h
  rw [Bool.and_eq_true, List.all_eq_true, List.all_eq_true] at h
  obtain ⟨h1, h2⟩ := h
  refine ⟨?_, ?_, ?_⟩
  · intro o ho hn; subst hn
    obtain ⟨k, hk⟩ := mem_expand ho
    have := h1 _ hk; simp at this
  · intro tr v hm
    obtain ⟨k, hk⟩ := mem_expand hm
    have := h1 _ hk; simpa using this
  · intro tr v v' hv hv'
    rw [count_expand, count_expand]
    by_cases htr : tr ∈ transcriptsW t
    · have := h2 tr ((mem_dedupL tr _).2 htr)
      rw [List.all_eq_true] at this
      have a1 := this v hv
      have a2 := this v' hv'
      simp only [decide_eq_true_eq] at a1 a2
      have hh : vals.headD v = vals.headD v' := by
        cases vals with
        | nil => cases hv
        | cons a l => rfl
      rw [a1, a2, hh]
    · have hnot : ∀ w k, ((some (some (tr, w)) : Option (Option (List Bool × α))), k) ∉ t := by
        intro w k hw
        apply htr
        unfold transcriptsW
        rw [List.mem_filterMap]
        exact ⟨_, hw, rfl⟩
      rw [countW_eq_zero (hnot v), countW_eq_zero (hnot v')]

theorem count_map {α β : Type} [DecidableEq β] (f : α → β) (b : β) (l : List α) :
    count b (l.map f) = (l.filter (fun a => f a = b)).length := by
  unfold count
  induction l with
  | nil => rfl
  | cons a l ih =>
    simp only [List.map_cons, List.filter_cons]
    by_cases h : f a = b <;> simp [h, ih]

/-- depth (number of stream bits) of the enumeration of `_randbelow(n)`: first draw plus a full redraw -/
def depth (n : Nat) : Nat := 2 * bitLength (n - 1)

/-- depth of the enumeration of `random_unit_vector(n)` (its kernel evaluation is ~10x more expensive) -/
def depthV (n : Nat) : Nat := if n ≤ 8 then 2 * bitLength (n - 1) else bitLength (n - 1) + 2

def rbOuts (n : Nat) : List (Option (Option (List Bool × Nat))) :=
  (allStreams (depth n)).map (fun s => outcome (randbelow n s))

/-- position of the 1 in the vector returned by `random_unit_vector` -/
def ruvPos (n : Nat) (s : List Bool) : Res Nat := (randomUnitVector n s).map (fun u => u.idxOf 1)

def ruvOuts (n : Nat) : List (Option (Option (List Bool × Nat))) :=
  (allStreams (depthV n)).map (fun s => outcome (ruvPos n s))

/-! ### run-length encoded outcome tables of the model (generated by running the model on
`allStreams (depth n)`; re-checked against the model by the kernel below) -/

section tables
local notation "T" => true
local notation "F" => false
local notation "E" => (some none)
local notation "X" => none
local notation "K" tr:max v:max => (some (some (tr, v)))

def rbTable1 : List (Option (Option (List Bool × Nat)) × Nat) := [(K [] 0, 1)]
def rbTable2 : List (Option (Option (List Bool × Nat)) × Nat) := [(K [] 0, 2), (K [] 1, 2)]
def rbTable3 : List (Option (Option (List Bool × Nat)) × Nat) := [(K [F] 0, 4), (K [F] 2, 4), (K [F] 1, 4), (K [T,F] 0, 1), (K [T,F] 2, 1), (K [T,F] 1, 1), (E, 1)]
def rbTable4 : List (Option (Option (List Bool × Nat)) × Nat) := [(K [] 0, 4), (K [] 2, 4), (K [] 1, 4), (K [] 3, 4)]
def rbTable5 : List (Option (Option (List Bool × Nat)) × Nat) := [(K [F,F] 0, 8), (K [F,F] 4, 8), (K [F,F] 2, 8), (K [T,F,F] 0, 2), (K [T,F,F] 4, 2), (K [T,F,F] 2, 2), (E, 2), (K [F,F] 1, 8), (K [F,T,F,F] 0, 1), (K [F,T,F,F] 4, 1), (K [F,T,F,F] 2, 1), (E, 1), (K [F,T,F,F] 1, 1), (E, 1), (K [F,T,F,F] 3, 1), (E, 1), (K [F,F] 3, 8), (K [T,F,F] 1, 2), (E, 2), (K [T,F,F] 3, 2), (E, 2)]
def rbTable6 : List (Option (Option (List Bool × Nat)) × Nat) := [(K [F] 0, 8), (K [F] 4, 8), (K [F] 2, 8), (K [T,F] 0, 2), (K [T,F] 4, 2), (K [T,F] 2, 2), (E, 2), (K [F] 1, 8), (K [F] 5, 8), (K [F] 3, 8), (K [T,F] 1, 2), (K [T,F] 5, 2), (K [T,F] 3, 2), (E, 2)]
def rbTable7 : List (Option (Option (List Bool × Nat)) × Nat) := [(K [F] 0, 8), (K [F] 4, 8), (K [F] 2, 8), (K [F] 6, 8), (K [F] 1, 8), (K [F] 5, 8), (K [F] 3, 8), (K [T,F] 0, 1), (K [T,F] 4, 1), (K [T,F] 2, 1), (K [T,F] 6, 1), (K [T,F] 1, 1), (K [T,F] 5, 1), (K [T,F] 3, 1), (E, 1)]
def rbTable8 : List (Option (Option (List Bool × Nat)) × Nat) := [(K [] 0, 8), (K [] 4, 8), (K [] 2, 8), (K [] 6, 8), (K [] 1, 8), (K [] 5, 8), (K [] 3, 8), (K [] 7, 8)]
def rbTable9 : List (Option (Option (List Bool × Nat)) × Nat) := [(K [F,F,F] 0, 16), (K [F,F,F] 8, 16), (K [F,F,F] 4, 16), (K [T,F,F,F] 0, 4), (K [T,F,F,F] 8, 4), (K [T,F,F,F] 4, 4), (K [T,T,F,F,F] 0, 1), (K [T,T,F,F,F] 8, 1), (K [T,T,F,F,F] 4, 1), (E, 1), (K [F,F,F] 2, 16), (K [F,T,F,F,F] 0, 2), (K [F,T,F,F,F] 8, 2), (K [F,T,F,F,F] 4, 2), (E, 2), (K [F,T,F,F,F] 2, 2), (E, 2), (K [F,T,F,F,F] 6, 2), (E, 2), (K [F,F,F] 6, 16), (K [T,F,F,F] 2, 4), (E, 4), (K [T,F,F,F] 6, 4), (K [T,T,F,F,F] 2, 1), (E, 1), (K [T,T,F,F,F] 6, 1), (E, 1), (K [F,F,F] 1, 16), (K [F,F,T,F,F,F] 0, 1), (K [F,F,T,F,F,F] 8, 1), (K [F,F,T,F,F,F] 4, 1), (E, 1), (K [F,F,T,F,F,F] 2, 1), (E, 1), (K [F,F,T,F,F,F] 6, 1), (E, 1), (K [F,F,T,F,F,F] 1, 1), (E, 1), (K [F,F,T,F,F,F] 5, 1), (E, 1), (K [F,F,T,F,F,F] 3, 1), (E, 1), (K [F,F,T,F,F,F] 7, 1), (E, 1), (K [F,F,F] 5, 16), (K [T,F,F,F] 1, 4), (E, 4), (K [T,F,F,F] 5, 4), (K [T,T,F,F,F] 1, 1), (E, 1), (K [T,T,F,F,F] 5, 1), (E, 1), (K [F,F,F] 3, 16), (K [F,T,F,F,F] 1, 2), (E, 2), (K [F,T,F,F,F] 5, 2), (E, 2), (K [F,T,F,F,F] 3, 2), (E, 2), (K [F,T,F,F,F] 7, 2), (E, 2), (K [F,F,F] 7, 16), (K [T,F,F,F] 3, 4), (E, 4), (K [T,F,F,F] 7, 4), (K [T,T,F,F,F] 3, 1), (E, 1), (K [T,T,F,F,F] 7, 1), (E, 1)]
def rbTable10 : List (Option (Option (List Bool × Nat)) × Nat) := [(K [F,F] 0, 16), (K [F,F] 8, 16), (K [F,F] 4, 16), (K [T,F,F] 0, 4), (K [T,F,F] 8, 4), (K [T,F,F] 4, 4), (K [T,T,F,F] 0, 1), (K [T,T,F,F] 8, 1), (K [T,T,F,F] 4, 1), (E, 1), (K [F,F] 2, 16), (K [F,T,F,F] 0, 2), (K [F,T,F,F] 8, 2), (K [F,T,F,F] 4, 2), (E, 2), (K [F,T,F,F] 2, 2), (E, 2), (K [F,T,F,F] 6, 2), (E, 2), (K [F,F] 6, 16), (K [T,F,F] 2, 4), (E, 4), (K [T,F,F] 6, 4), (K [T,T,F,F] 2, 1), (E, 1), (K [T,T,F,F] 6, 1), (E, 1), (K [F,F] 1, 16), (K [F,F] 9, 16), (K [F,F] 5, 16), (K [T,F,F] 1, 4), (K [T,F,F] 9, 4), (K [T,F,F] 5, 4), (K [T,T,F,F] 1, 1), (K [T,T,F,F] 9, 1), (K [T,T,F,F] 5, 1), (E, 1), (K [F,F] 3, 16), (K [F,T,F,F] 1, 2), (K [F,T,F,F] 9, 2), (K [F,T,F,F] 5, 2), (E, 2), (K [F,T,F,F] 3, 2), (E, 2), (K [F,T,F,F] 7, 2), (E, 2), (K [F,F] 7, 16), (K [T,F,F] 3, 4), (E, 4), (K [T,F,F] 7, 4), (K [T,T,F,F] 3, 1), (E, 1), (K [T,T,F,F] 7, 1), (E, 1)]
def rbTable11 : List (Option (Option (List Bool × Nat)) × Nat) := [(K [F,F] 0, 16), (K [F,F] 8, 16), (K [F,F] 4, 16), (K [T,F,F] 0, 4), (K [T,F,F] 8, 4), (K [T,F,F] 4, 4), (K [T,T,F,F] 0, 1), (K [T,T,F,F] 8, 1), (K [T,T,F,F] 4, 1), (E, 1), (K [F,F] 2, 16), (K [F,F] 10, 16), (K [F,F] 6, 16), (K [T,F,F] 2, 4), (K [T,F,F] 10, 4), (K [T,F,F] 6, 4), (K [T,T,F,F] 2, 1), (K [T,T,F,F] 10, 1), (K [T,T,F,F] 6, 1), (E, 1), (K [F,F] 1, 16), (K [F,F] 9, 16), (K [F,F] 5, 16), (K [T,F,F] 1, 4), (K [T,F,F] 9, 4), (K [T,F,F] 5, 4), (K [T,T,F,F] 1, 1), (K [T,T,F,F] 9, 1), (K [T,T,F,F] 5, 1), (E, 1), (K [F,F] 3, 16), (K [F,T,F,F] 0, 1), (K [F,T,F,F] 8, 1), (K [F,T,F,F] 4, 1), (E, 1), (K [F,T,F,F] 2, 1), (K [F,T,F,F] 10, 1), (K [F,T,F,F] 6, 1), (E, 1), (K [F,T,F,F] 1, 1), (K [F,T,F,F] 9, 1), (K [F,T,F,F] 5, 1), (E, 1), (K [F,T,F,F] 3, 1), (E, 1), (K [F,T,F,F] 7, 1), (E, 1), (K [F,F] 7, 16), (K [T,F,F] 3, 4), (E, 4), (K [T,F,F] 7, 4), (K [T,T,F,F] 3, 1), (E, 1), (K [T,T,F,F] 7, 1), (E, 1)]
def rbTable12 : List (Option (Option (List Bool × Nat)) × Nat) := [(K [F] 0, 16), (K [F] 8, 16), (K [F] 4, 16), (K [T,F] 0, 4), (K [T,F] 8, 4), (K [T,F] 4, 4), (K [T,T,F] 0, 1), (K [T,T,F] 8, 1), (K [T,T,F] 4, 1), (E, 1), (K [F] 2, 16), (K [F] 10, 16), (K [F] 6, 16), (K [T,F] 2, 4), (K [T,F] 10, 4), (K [T,F] 6, 4), (K [T,T,F] 2, 1), (K [T,T,F] 10, 1), (K [T,T,F] 6, 1), (E, 1), (K [F] 1, 16), (K [F] 9, 16), (K [F] 5, 16), (K [T,F] 1, 4), (K [T,F] 9, 4), (K [T,F] 5, 4), (K [T,T,F] 1, 1), (K [T,T,F] 9, 1), (K [T,T,F] 5, 1), (E, 1), (K [F] 3, 16), (K [F] 11, 16), (K [F] 7, 16), (K [T,F] 3, 4), (K [T,F] 11, 4), (K [T,F] 7, 4), (K [T,T,F] 3, 1), (K [T,T,F] 11, 1), (K [T,T,F] 7, 1), (E, 1)]
def rbTable13 : List (Option (Option (List Bool × Nat)) × Nat) := [(K [F,F] 0, 16), (K [F,F] 8, 16), (K [F,F] 4, 16), (K [F,F] 12, 16), (K [F,F] 2, 16), (K [F,F] 10, 16), (K [F,F] 6, 16), (K [T,F,F] 0, 2), (K [T,F,F] 8, 2), (K [T,F,F] 4, 2), (K [T,F,F] 12, 2), (K [T,F,F] 2, 2), (K [T,F,F] 10, 2), (K [T,F,F] 6, 2), (E, 2), (K [F,F] 1, 16), (K [F,F] 9, 16), (K [F,F] 5, 16), (K [F,T,F,F] 0, 1), (K [F,T,F,F] 8, 1), (K [F,T,F,F] 4, 1), (K [F,T,F,F] 12, 1), (K [F,T,F,F] 2, 1), (K [F,T,F,F] 10, 1), (K [F,T,F,F] 6, 1), (E, 1), (K [F,T,F,F] 1, 1), (K [F,T,F,F] 9, 1), (K [F,T,F,F] 5, 1), (E, 1), (K [F,T,F,F] 3, 1), (K [F,T,F,F] 11, 1), (K [F,T,F,F] 7, 1), (E, 1), (K [F,F] 3, 16), (K [F,F] 11, 16), (K [F,F] 7, 16), (K [T,F,F] 1, 2), (K [T,F,F] 9, 2), (K [T,F,F] 5, 2), (E, 2), (K [T,F,F] 3, 2), (K [T,F,F] 11, 2), (K [T,F,F] 7, 2), (E, 2)]
def rbTable14 : List (Option (Option (List Bool × Nat)) × Nat) := [(K [F] 0, 16), (K [F] 8, 16), (K [F] 4, 16), (K [F] 12, 16), (K [F] 2, 16), (K [F] 10, 16), (K [F] 6, 16), (K [T,F] 0, 2), (K [T,F] 8, 2), (K [T,F] 4, 2), (K [T,F] 12, 2), (K [T,F] 2, 2), (K [T,F] 10, 2), (K [T,F] 6, 2), (E, 2), (K [F] 1, 16), (K [F] 9, 16), (K [F] 5, 16), (K [F] 13, 16), (K [F] 3, 16), (K [F] 11, 16), (K [F] 7, 16), (K [T,F] 1, 2), (K [T,F] 9, 2), (K [T,F] 5, 2), (K [T,F] 13, 2), (K [T,F] 3, 2), (K [T,F] 11, 2), (K [T,F] 7, 2), (E, 2)]
def rbTable15 : List (Option (Option (List Bool × Nat)) × Nat) := [(K [F] 0, 16), (K [F] 8, 16), (K [F] 4, 16), (K [F] 12, 16), (K [F] 2, 16), (K [F] 10, 16), (K [F] 6, 16), (K [F] 14, 16), (K [F] 1, 16), (K [F] 9, 16), (K [F] 5, 16), (K [F] 13, 16), (K [F] 3, 16), (K [F] 11, 16), (K [F] 7, 16), (K [T,F] 0, 1), (K [T,F] 8, 1), (K [T,F] 4, 1), (K [T,F] 12, 1), (K [T,F] 2, 1), (K [T,F] 10, 1), (K [T,F] 6, 1), (K [T,F] 14, 1), (K [T,F] 1, 1), (K [T,F] 9, 1), (K [T,F] 5, 1), (K [T,F] 13, 1), (K [T,F] 3, 1), (K [T,F] 11, 1), (K [T,F] 7, 1), (E, 1)]
def rbTable16 : List (Option (Option (List Bool × Nat)) × Nat) := [(K [] 0, 16), (K [] 8, 16), (K [] 4, 16), (K [] 12, 16), (K [] 2, 16), (K [] 10, 16), (K [] 6, 16), (K [] 14, 16), (K [] 1, 16), (K [] 9, 16), (K [] 5, 16), (K [] 13, 16), (K [] 3, 16), (K [] 11, 16), (K [] 7, 16), (K [] 15, 16)]
def ruvTable1 : List (Option (Option (List Bool × Nat)) × Nat) := [(K [] 0, 1)]
def ruvTable2 : List (Option (Option (List Bool × Nat)) × Nat) := [(K [] 1, 2), (K [] 0, 2)]
def ruvTable3 : List (Option (Option (List Bool × Nat)) × Nat) := [(K [F] 2, 4), (K [F] 0, 4), (K [F] 1, 4), (K [T,F] 2, 1), (K [T,F] 0, 1), (K [T,F] 1, 1), (E, 1)]
def ruvTable4 : List (Option (Option (List Bool × Nat)) × Nat) := [(K [] 3, 4), (K [] 2, 4), (K [] 1, 4), (K [] 0, 4)]
def ruvTable5 : List (Option (Option (List Bool × Nat)) × Nat) := [(K [F,F] 4, 8), (K [F,F] 0, 8), (K [F,F] 3, 8), (K [T,F,F] 4, 2), (K [T,F,F] 0, 2), (K [T,F,F] 3, 2), (E, 2), (K [F,F] 2, 8), (K [F,T,F,F] 4, 1), (K [F,T,F,F] 0, 1), (K [F,T,F,F] 3, 1), (E, 1), (K [F,T,F,F] 2, 1), (E, 1), (K [F,T,F,F] 1, 1), (E, 1), (K [F,F] 1, 8), (K [T,F,F] 2, 2), (E, 2), (K [T,F,F] 1, 2), (E, 2)]
def ruvTable6 : List (Option (Option (List Bool × Nat)) × Nat) := [(K [F] 5, 8), (K [F] 3, 8), (K [F] 4, 8), (K [T,F] 5, 2), (K [T,F] 3, 2), (K [T,F] 4, 2), (E, 2), (K [F] 2, 8), (K [F] 0, 8), (K [F] 1, 8), (K [T,F] 2, 2), (K [T,F] 0, 2), (K [T,F] 1, 2), (E, 2)]
def ruvTable7 : List (Option (Option (List Bool × Nat)) × Nat) := [(K [F] 6, 8), (K [F] 5, 8), (K [F] 4, 8), (K [F] 0, 8), (K [F] 3, 8), (K [F] 2, 8), (K [F] 1, 8), (K [T,F] 6, 1), (K [T,F] 5, 1), (K [T,F] 4, 1), (K [T,F] 0, 1), (K [T,F] 3, 1), (K [T,F] 2, 1), (K [T,F] 1, 1), (E, 1)]
def ruvTable8 : List (Option (Option (List Bool × Nat)) × Nat) := [(K [] 7, 8), (K [] 6, 8), (K [] 5, 8), (K [] 4, 8), (K [] 3, 8), (K [] 2, 8), (K [] 1, 8), (K [] 0, 8)]
def ruvTable9 : List (Option (Option (List Bool × Nat)) × Nat) := [(K [F,F,F] 8, 4), (K [F,F,F] 0, 4), (K [F,F,F] 7, 4), (K [T,F,F,F] 8, 1), (K [T,F,F,F] 0, 1), (K [T,F,F,F] 7, 1), (E, 1), (K [F,F,F] 6, 4), (E, 4), (K [F,F,F] 5, 4), (K [T,F,F,F] 6, 1), (E, 1), (K [T,F,F,F] 5, 1), (E, 1), (K [F,F,F] 4, 4), (E, 4), (K [F,F,F] 3, 4), (K [T,F,F,F] 4, 1), (E, 1), (K [T,F,F,F] 3, 1), (E, 1), (K [F,F,F] 2, 4), (E, 4), (K [F,F,F] 1, 4), (K [T,F,F,F] 2, 1), (E, 1), (K [T,F,F,F] 1, 1), (E, 1)]
def ruvTable10 : List (Option (Option (List Bool × Nat)) × Nat) := [(K [F,F] 9, 4), (K [F,F] 5, 4), (K [F,F] 8, 4), (K [T,F,F] 9, 1), (K [T,F,F] 5, 1), (K [T,F,F] 8, 1), (E, 1), (K [F,F] 7, 4), (E, 4), (K [F,F] 6, 4), (K [T,F,F] 7, 1), (E, 1), (K [T,F,F] 6, 1), (E, 1), (K [F,F] 4, 4), (K [F,F] 0, 4), (K [F,F] 3, 4), (K [T,F,F] 4, 1), (K [T,F,F] 0, 1), (K [T,F,F] 3, 1), (E, 1), (K [F,F] 2, 4), (E, 4), (K [F,F] 1, 4), (K [T,F,F] 2, 1), (E, 1), (K [T,F,F] 1, 1), (E, 1)]
def ruvTable11 : List (Option (Option (List Bool × Nat)) × Nat) := [(K [F,F] 10, 4), (K [F,F] 8, 4), (K [F,F] 9, 4), (K [T,F,F] 10, 1), (K [T,F,F] 8, 1), (K [T,F,F] 9, 1), (E, 1), (K [F,F] 7, 4), (K [F,F] 0, 4), (K [F,F] 6, 4), (K [T,F,F] 7, 1), (K [T,F,F] 0, 1), (K [T,F,F] 6, 1), (E, 1), (K [F,F] 5, 4), (K [F,F] 3, 4), (K [F,F] 4, 4), (K [T,F,F] 5, 1), (K [T,F,F] 3, 1), (K [T,F,F] 4, 1), (E, 1), (K [F,F] 2, 4), (E, 4), (K [F,F] 1, 4), (K [T,F,F] 2, 1), (E, 1), (K [T,F,F] 1, 1), (E, 1)]
def ruvTable12 : List (Option (Option (List Bool × Nat)) × Nat) := [(K [F] 11, 4), (K [F] 9, 4), (K [F] 10, 4), (K [T,F] 11, 1), (K [T,F] 9, 1), (K [T,F] 10, 1), (E, 1), (K [F] 8, 4), (K [F] 6, 4), (K [F] 7, 4), (K [T,F] 8, 1), (K [T,F] 6, 1), (K [T,F] 7, 1), (E, 1), (K [F] 5, 4), (K [F] 3, 4), (K [F] 4, 4), (K [T,F] 5, 1), (K [T,F] 3, 1), (K [T,F] 4, 1), (E, 1), (K [F] 2, 4), (K [F] 0, 4), (K [F] 1, 4), (K [T,F] 2, 1), (K [T,F] 0, 1), (K [T,F] 1, 1), (E, 1)]
def ruvTable13 : List (Option (Option (List Bool × Nat)) × Nat) := [(K [F,F] 12, 4), (K [F,F] 11, 4), (K [F,F] 10, 4), (K [F,F] 0, 4), (K [F,F] 9, 4), (K [F,F] 8, 4), (K [F,F] 7, 4), (E, 4), (K [F,F] 6, 4), (K [F,F] 5, 4), (K [F,F] 4, 4), (E, 4), (K [F,F] 3, 4), (K [F,F] 2, 4), (K [F,F] 1, 4), (E, 4)]
def ruvTable14 : List (Option (Option (List Bool × Nat)) × Nat) := [(K [F] 13, 4), (K [F] 12, 4), (K [F] 11, 4), (K [F] 7, 4), (K [F] 10, 4), (K [F] 9, 4), (K [F] 8, 4), (E, 4), (K [F] 6, 4), (K [F] 5, 4), (K [F] 4, 4), (K [F] 0, 4), (K [F] 3, 4), (K [F] 2, 4), (K [F] 1, 4), (E, 4)]
def ruvTable15 : List (Option (Option (List Bool × Nat)) × Nat) := [(K [F] 14, 4), (K [F] 13, 4), (K [F] 12, 4), (K [F] 11, 4), (K [F] 10, 4), (K [F] 9, 4), (K [F] 8, 4), (K [F] 0, 4), (K [F] 7, 4), (K [F] 6, 4), (K [F] 5, 4), (K [F] 4, 4), (K [F] 3, 4), (K [F] 2, 4), (K [F] 1, 4), (E, 4)]
def ruvTable16 : List (Option (Option (List Bool × Nat)) × Nat) := [(K [] 15, 4), (K [] 14, 4), (K [] 13, 4), (K [] 12, 4), (K [] 11, 4), (K [] 10, 4), (K [] 9, 4), (K [] 8, 4), (K [] 7, 4), (K [] 6, 4), (K [] 5, 4), (K [] 4, 4), (K [] 3, 4), (K [] 2, 4), (K [] 1, 4), (K [] 0, 4)]

end tables

def rbTable : Nat → List (Option (Option (List Bool × Nat)) × Nat)
  | 1 => rbTable1
  | 2 => rbTable2
  | 3 => rbTable3
  | 4 => rbTable4
  | 5 => rbTable5
  | 6 => rbTable6
  | 7 => rbTable7
  | 8 => rbTable8
  | 9 => rbTable9
  | 10 => rbTable10
  | 11 => rbTable11
  | 12 => rbTable12
  | 13 => rbTable13
  | 14 => rbTable14
  | 15 => rbTable15
  | 16 => rbTable16
  | _ => []

def ruvTable : Nat → List (Option (Option (List Bool × Nat)) × Nat)
  | 1 => ruvTable1
  | 2 => ruvTable2
  | 3 => ruvTable3
  | 4 => ruvTable4
  | 5 => ruvTable5
  | 6 => ruvTable6
  | 7 => ruvTable7
  | 8 => ruvTable8
  | 9 => ruvTable9
  | 10 => ruvTable10
  | 11 => ruvTable11
  | 12 => ruvTable12
  | 13 => ruvTable13
  | 14 => ruvTable14
  | 15 => ruvTable15
  | 16 => ruvTable16
  | _ => []

end MpycV.Random
