/-
Bridge, part 4: the results of the translated `recombine` (raw integer sums, reduced iff the shares are field elements)
agree mod p with the model's `recombine` on the integer operations `intModP p`; `_f_S_i`.
-/
import MpycV.Lemmas.ThreshaSrcBridgeRecombine

namespace MpycV.Thresha

open MpycV.PyList

variable (p : ℕ) [hp : Fact p.Prime]

omit hp in
lemma dot_intModP_range (hp0 : 0 < (p : Int)) (a b : List Int) :
    0 ≤ dot (intModP p) a b ∧ dot (intModP p) a b < (p : Int) := by
  unfold dot
  have : ∀ (L : List (Int × Int)) (acc : Int), (0 ≤ acc ∧ acc < (p : Int)) →
      0 ≤ L.foldl (fun acc (xy : Int × Int) => (intModP p).add acc ((intModP p).mul xy.1 xy.2)) acc ∧
      L.foldl (fun acc (xy : Int × Int) => (intModP p).add acc ((intModP p).mul xy.1 xy.2)) acc < (p : Int) := by
    intro L
    induction L with
    | nil => intro acc h; exact h
    | cons x L ih =>
      intro acc _
      rw [List.foldl_cons]
      apply ih
      simp only [intModP]
      exact ⟨Int.emod_nonneg _ (by omega), Int.emod_lt_of_pos _ hp0⟩
  exact this _ _ ⟨le_refl _, hp0⟩

lemma pyGet_int_nat (l : List Int) (h : ℕ) : pyGet l (h : Int) = l.getD h 0 := by
  simp only [pyGet, pyIdx_nat]; rfl

lemma pyGet_row_nat (l : List (List Int)) (h : ℕ) : pyGet l (h : Int) = l.getD h [] := by
  simp only [pyGet, pyIdx_nat]; rfl

/-- one entry: the raw integer sum, reduced mod p, is the model's dot product on `intModP p` -/
lemma rawRow_emod (shares : List (List Int)) (v : List Int) (hv : v.length = shares.length) (h : ℕ) :
    (∑ i' ∈ Finset.range shares.length, pyGet (pyGet shares (i' : Int)) (h : Int) * pyGet v (i' : Int)) % (p : Int)
      = dot (intModP p) (column (intModP p) shares h) v := by
  have hp0 : 0 < (p : Int) := by exact_mod_cast hp.out.pos
  obtain ⟨d0, d1⟩ := dot_intModP_range p hp0 (column (intModP p) shares h) v
  rw [← Int.emod_eq_of_lt d0 d1]
  apply emod_eq_of_cast
  rw [map_dot (intModP_isHom p)]
  show _ = dot (fieldOps (ZMod p) (fun n => (((intModP p).ofNat n : Int) : ZMod p))) _ _
  rw [dot_eq_sum]
  simp only [List.length_map, column, hv, min_self]
  push_cast
  apply Finset.sum_congr rfl
  intro j hj
  have hj' : j < shares.length := by simpa using hj
  rw [pyGet_row_nat, pyGet_int_nat, pyGet_int_nat]
  simp only [List.getD_eq_getElem?_getD, List.getElem?_map, List.getElem?_eq_getElem hj',
    List.getElem?_eq_getElem (hv ▸ hj'), Option.map_some, Option.getD_some]
  rfl

omit hp in
lemma headD_length_eq_pyGet (l : List (List Int)) (hl : l ≠ []) : (l.headD []).length = (pyGet l 0).length := by
  cases l with
  | nil => exact absurd rfl hl
  | cons a l =>
    have e := pyGet_nat (a :: l) (k := 0) (by simp)
    simp only [Nat.cast_zero] at e
    rw [e]; rfl

/-- when `recombVecE` succeeds, the translated `_recombination_vector` returns the model's vector -/
lemma recombination_vector_ok {xs : List Int} {xr : Int} {v : List Int}
    (h : recombVecE (intModP p) (xs.map fun x => x % (p : Int)) (xr % (p : Int)) = .ok v) :
    ThreshaMirror.recombination_vector p xs xr = .ok v ∧
      v = recombVec (intModP p) (xs.map fun x => x % (p : Int)) (xr % (p : Int)) := by
  refine ⟨by rw [recombination_vector_eq, h], ?_⟩
  unfold recombVecE at h
  split at h
  · cases h
  · exact (Except.ok.inj h).symm

/-- ★ bridge for `recombine` with a single recombination point: the translated source returns a list `res` with
`res % p = recombine1` of the model on `intModP p` (equal to it when the shares are field elements) -/
theorem recombine_one_eq (isField : Bool) (points : List (Int × List Int)) (x_r : Int)
    (hpts : points ≠ []) (N : ℕ) (hN : (pyGet (points.map Prod.snd) 0).length = N) (hN0 : 0 < N)
    (hrows : ∀ sh ∈ points.map Prod.snd, N ≤ sh.length) (v : List Int)
    (hE : recombVecE (intModP p) ((points.map Prod.fst).map fun x => x % (p : Int)) (x_r % (p : Int)) = .ok v) :
    ∃ res, ThreshaMirror.recombine_one p isField points x_r = .ok res ∧
      res.map (fun x => x % (p : Int))
        = recombine1 (intModP p) ((points.map Prod.fst).map fun x => x % (p : Int)) (points.map Prod.snd)
            (x_r % (p : Int)) ∧
      (isField = true → res = recombine1 (intModP p) ((points.map Prod.fst).map fun x => x % (p : Int))
            (points.map Prod.snd) (x_r % (p : Int))) := by
  obtain ⟨hv1, hv2⟩ := recombination_vector_ok p hE
  have hvlen : v.length = points.length := by
    rw [hv2, length_recombVec]; simp
  have hloops := recombine_one_loops (p : Int) isField points x_r hpts N hN hN0 hrows v hv1 hvlen
  have hhead : ((points.map Prod.snd).headD []).length = N := by
    rw [← hN]
    exact headD_length_eq_pyGet _ (by simpa using hpts)
  have hmodel : recombine1 (intModP p) ((points.map Prod.fst).map fun x => x % (p : Int)) (points.map Prod.snd)
      (x_r % (p : Int))
      = (List.range N).map (fun h => rawSum (points.map Prod.snd) [v] 0 h % (p : Int)) := by
    unfold recombine1 recombine
    simp only [List.map_cons, List.map_nil, List.headD_cons, hhead]
    apply List.map_congr_left
    intro h _
    rw [← hv2]
    unfold rawSum
    have e0 : pyGet [v] ((0 : ℕ) : Int) = v := by rw [pyGet_nat _ (by simp)]; rfl
    simp only [e0]
    rw [rawRow_emod p _ v (by simpa using hvlen)]
  refine ⟨_, hloops, ?_, ?_⟩
  · rw [hmodel, List.map_map]
    apply List.map_congr_left
    intro h _
    cases isField <;> simp
  · intro hf
    rw [hmodel, hf]
    simp

/-- ★ bridge for `recombine` with a list of recombination points -/
theorem recombine_list_eq (isField : Bool) (points : List (Int × List Int)) (x_rs : List Int)
    (hpts : points ≠ []) (N : ℕ) (hN : (pyGet (points.map Prod.snd) 0).length = N) (hN0 : 0 < N)
    (hrows : ∀ sh ∈ points.map Prod.snd, N ≤ sh.length)
    (hE : ∀ xr ∈ x_rs, ∃ v,
      recombVecE (intModP p) ((points.map Prod.fst).map fun x => x % (p : Int)) (xr % (p : Int)) = .ok v) :
    ∃ res, ThreshaMirror.recombine_list p isField points x_rs = .ok res ∧
      res.map (List.map fun x => x % (p : Int))
        = recombine (intModP p) ((points.map Prod.fst).map fun x => x % (p : Int)) (points.map Prod.snd)
            (x_rs.map fun x => x % (p : Int)) ∧
      (isField = true → res = recombine (intModP p) ((points.map Prod.fst).map fun x => x % (p : Int))
            (points.map Prod.snd) (x_rs.map fun x => x % (p : Int))) := by
  let vf : Int → List Int := fun xr =>
    recombVec (intModP p) ((points.map Prod.fst).map fun x => x % (p : Int)) (xr % (p : Int))
  have hvec : ∀ xr ∈ x_rs, ThreshaMirror.recombination_vector p (points.map Prod.fst) xr = .ok (vf xr) := by
    intro xr hxr
    obtain ⟨v, hv⟩ := hE xr hxr
    obtain ⟨h1, h2⟩ := recombination_vector_ok p hv
    rw [h1, h2]
  have hvlen : ∀ xr ∈ x_rs, (vf xr).length = points.length := by
    intro xr _; simp [vf, length_recombVec]
  have hloops := recombine_list_loops (p : Int) isField points x_rs hpts N hN hN0 hrows vf hvec hvlen
  have hhead : ((points.map Prod.snd).headD []).length = N := by
    rw [← hN]
    exact headD_length_eq_pyGet _ (by simpa using hpts)
  have hmodel : recombine (intModP p) ((points.map Prod.fst).map fun x => x % (p : Int)) (points.map Prod.snd)
      (x_rs.map fun x => x % (p : Int))
      = mat x_rs.length N (fun r h => rawSum (points.map Prod.snd) (x_rs.map vf) r h % (p : Int)) := by
    unfold recombine mat
    simp only [hhead]
    apply List.ext_getElem
    · simp
    · intro r h1 h2
      have hr : r < x_rs.length := by simpa using h1
      simp only [List.getElem_map, List.getElem_range]
      apply List.map_congr_left
      intro h _
      unfold rawSum
      have e0 : pyGet (x_rs.map vf) (r : Int) = vf x_rs[r] := by
        rw [pyGet_nat _ (by simpa using hr)]; simp
      simp only [e0]
      rw [rawRow_emod p _ (vf x_rs[r]) (by simpa using hvlen _ (List.getElem_mem hr))]
  refine ⟨_, hloops, ?_, ?_⟩
  · rw [hmodel]
    unfold mat
    rw [List.map_map]
    apply List.map_congr_left
    intro r _
    simp only [Function.comp, List.map_map]
    apply List.map_congr_left
    intro h _
    cases isField <;> simp
  · intro hf
    rw [hmodel, hf]
    simp

end MpycV.Thresha
