/-
C18 — counting lemmas for statistical masking (distributions over `Finset.range R` = a uniform draw `r < R`),
the mask range `maskBound` the runtime passes to PRF / randbelow, and the structure of the PRSS / no-PRSS mask.

`cnt R f x`  = number of `r < R` with `f r = x`      (probability of outcome x = cnt / R)
`l1 R f g`   = Σ_x |cnt R f x - cnt R g x|            (statistical distance of f(r) and g(r) = l1 / (2R))
-/
import MpycV.Model.Share
import MpycV.Lemmas.Comb
import Mathlib.Algebra.BigOperators.Group.Finset.Basic
import Mathlib.Algebra.BigOperators.Group.Finset.Piecewise
import Mathlib.Algebra.BigOperators.Group.List.Basic
import Mathlib.Algebra.Order.BigOperators.Group.List
import Mathlib.Data.Nat.Choose.Basic
import Mathlib.Data.Nat.ModEq
import Mathlib.Order.Interval.Finset.Nat
import Mathlib.Algebra.GroupWithZero.Units.Equiv
import Mathlib.Algebra.Field.Basic
import Mathlib.Tactic.Ring
import Mathlib.Tactic.Linarith

open Finset

namespace MpycV.Mask

/-! ### distributions of functions of a uniform `r < R` -/

/-- number of `r < R` with `f r = x` -/
def cnt (R : ℕ) (f : ℕ → ℕ) (x : ℕ) : ℕ := ((range R).filter fun r => f r = x).card

/-- `Σ_x |#{r | f r = x} - #{r | g r = x}|`, summed over all values taken: 2R times the statistical distance
between `f(r)` and `g(r)` for `r` uniform on `[0,R)` -/
def l1 (R : ℕ) (f g : ℕ → ℕ) : ℕ :=
  ∑ x ∈ (range R).image f ∪ (range R).image g, ((cnt R f x : ℤ) - (cnt R g x : ℤ)).natAbs

/-- the outcomes of an additive mask: `a + r` takes every value of `[a, a+R)` exactly once -/
theorem cnt_shift (R a x : ℕ) : cnt R (fun r => a + r) x = if a ≤ x ∧ x < a + R then 1 else 0 := by
  unfold cnt
  split
  · rename_i h
    have : ((range R).filter fun r => a + r = x) = {x - a} := by
      ext r; simp only [mem_filter, mem_range, mem_singleton]; omega
    rw [this, card_singleton]
  · rename_i h
    have : ((range R).filter fun r => a + r = x) = ∅ := by
      ext r; simp only [mem_filter, mem_range, notMem_empty, iff_false]; omega
    rw [this, card_empty]

lemma image_shift (R a : ℕ) : (range R).image (fun r => a + r) = Ico a (a + R) := by
  ext x
  simp only [mem_image, mem_range, mem_Ico]
  constructor
  · rintro ⟨r, hr, rfl⟩; omega
  · intro h; exact ⟨x - a, by omega, by omega⟩

/-- ★ `mask_sd`: for `r` uniform on `[0,R)` and secret-dependent parts `a`, `a + δ` with `δ ≤ R`, the outcome
counts of `a + r` and `a + δ + r` differ in total by exactly `2δ`: the statistical distance is `δ / R`. -/
theorem mask_sd (R a δ : ℕ) (hδ : δ ≤ R) :
    l1 R (fun r => a + r) (fun r => a + δ + r) = 2 * δ := by
  unfold l1
  rw [image_shift, image_shift]
  have hterm : ∀ x, ((cnt R (fun r => a + r) x : ℤ) - (cnt R (fun r => a + δ + r) x : ℤ)).natAbs
      = if x ∈ Ico a (a + δ) ∪ Ico (a + R) (a + δ + R) then 1 else 0 := by
    intro x
    rw [cnt_shift, cnt_shift]
    simp only [mem_union, mem_Ico]
    split_ifs <;> first | rfl | omega
  simp only [hterm]
  rw [← card_filter]
  have hsub : (Ico a (a + R) ∪ Ico (a + δ) (a + δ + R)).filter
        (fun x => x ∈ Ico a (a + δ) ∪ Ico (a + R) (a + δ + R))
      = Ico a (a + δ) ∪ Ico (a + R) (a + δ + R) := by
    ext x; simp only [mem_filter, mem_union, mem_Ico]; omega
  rw [hsub, card_union_of_disjoint, Nat.card_Ico, Nat.card_Ico]
  · omega
  · rw [disjoint_left]
    intro x h1 h2
    simp only [mem_Ico] at h1 h2
    omega

/-- symmetric form for arbitrary `a, a'` with `|a - a'| ≤ R` -/
theorem mask_sd_dist (R a a' : ℕ) (h : max a a' - min a a' ≤ R) :
    l1 R (fun r => a + r) (fun r => a' + r) = 2 * (max a a' - min a a') := by
  rcases Nat.le_total a a' with hle | hle
  · have := mask_sd R a (a' - a) (by simpa [max_eq_right hle, min_eq_left hle] using h)
    rw [show a + (a' - a) = a' by omega] at this
    rw [this, max_eq_right hle, min_eq_left hle]
  · have := mask_sd R a' (a - a') (by simpa [max_eq_left hle, min_eq_right hle] using h)
    rw [show a' + (a - a') = a by omega] at this
    have hsymm : l1 R (fun r => a + r) (fun r => a' + r) = l1 R (fun r => a' + r) (fun r => a + r) := by
      unfold l1
      rw [union_comm]
      apply sum_congr rfl
      intro x _
      rw [← Int.natAbs_neg]; congr 1; ring
    rw [hsymm, this, max_eq_left hle, min_eq_right hle]

/-- for shifts beyond the mask range the two outcome sets are disjoint: distance 1 (`l1 = 2R`) -/
theorem mask_sd_far (R a δ : ℕ) (hδ : R ≤ δ) :
    l1 R (fun r => a + r) (fun r => a + δ + r) = 2 * R := by
  unfold l1
  rw [image_shift, image_shift]
  have hterm : ∀ x ∈ Ico a (a + R) ∪ Ico (a + δ) (a + δ + R),
      ((cnt R (fun r => a + r) x : ℤ) - (cnt R (fun r => a + δ + r) x : ℤ)).natAbs = 1 := by
    intro x hx
    rw [cnt_shift, cnt_shift]
    simp only [mem_union, mem_Ico] at hx
    split_ifs <;> first | rfl | omega
  rw [sum_const_nat hterm, mul_one, card_union_of_disjoint, Nat.card_Ico, Nat.card_Ico]
  · omega
  · rw [disjoint_left]
    intro x h1 h2
    simp only [mem_Ico] at h1 h2
    omega

/-- a function that maps `[0,R)` injectively into `[0,R)` takes every value `x < R` exactly once -/
theorem cnt_eq_one_of_injOn {R : ℕ} {f : ℕ → ℕ} (hinj : Set.InjOn f (range R : Finset ℕ))
    (hmap : ∀ r < R, f r < R) {x : ℕ} (hx : x < R) : cnt R f x = 1 := by
  have himg : (range R).image f = range R := by
    apply eq_of_subset_of_card_le
    · intro y hy
      obtain ⟨r, hr, rfl⟩ := mem_image.1 hy
      exact mem_range.2 (hmap r (mem_range.1 hr))
    · rw [card_image_of_injOn hinj]
  have hxm : x ∈ (range R).image f := by rw [himg]; exact mem_range.2 hx
  obtain ⟨r, hr, hfr⟩ := mem_image.1 hxm
  unfold cnt
  rw [card_eq_one]
  refine ⟨r, ?_⟩
  ext r'
  simp only [mem_filter, mem_singleton]
  constructor
  · rintro ⟨hr', h⟩
    exact hinj hr' hr (h.trans hfr.symm)
  · rintro rfl; exact ⟨hr, hfr⟩

/-- ★ `low_bits_perfect`: for `r` uniform on `[0,M)` (M = 2^l: the l random bits `r_modl`), `(a + r) mod M` is
uniform on `[0,M)` for every `a`: each residue is hit by exactly one `r`. -/
theorem low_bits_perfect (M a : ℕ) {x : ℕ} (hx : x < M) : cnt M (fun r => (a + r) % M) x = 1 := by
  have hM : 0 < M := by omega
  refine cnt_eq_one_of_injOn ?_ (fun r _ => Nat.mod_lt _ hM) hx
  intro r hr r' hr' h
  simp only [coe_range, Set.mem_Iio] at hr hr'
  have h1 : a + r ≡ a + r' [MOD M] := h
  have h2 : r ≡ r' [MOD M] := Nat.ModEq.add_left_cancel' a h1
  have := Nat.ModEq.eq_of_lt_of_lt h2 hr hr'
  exact this

/-- with a high part `M·q` added (the `r_divl << l` term) the low bits are unchanged -/
theorem low_bits_perfect_high (M a q : ℕ) {x : ℕ} (hx : x < M) :
    cnt M (fun r => (a + r + M * q) % M) x = 1 := by
  have : (fun r => (a + r + M * q) % M) = fun r => (a + r) % M := by
    funext r; rw [Nat.add_mul_mod_self_left]
  rw [this]; exact low_bits_perfect M a hx

/-- subtractive low mask (`to_bits`, `_mod` open `… - r_mod`): for `A ≥ M - 1`, `(A - r) mod M` is uniform -/
theorem low_sub_perfect (M A : ℕ) (hA : M ≤ A + 1) {x : ℕ} (hx : x < M) :
    cnt M (fun r => (A - r) % M) x = 1 := by
  have hM : 0 < M := by omega
  refine cnt_eq_one_of_injOn ?_ (fun r _ => Nat.mod_lt _ hM) hx
  intro r hr r' hr' h
  simp only [coe_range, Set.mem_Iio] at hr hr'
  have h1 : A - r ≡ A - r' [MOD M] := h
  have h2 : A - r + (r + r') ≡ A - r' + (r + r') [MOD M] := Nat.ModEq.add_right _ h1
  have h3 : A + r' ≡ A + r [MOD M] := by
    have e1 : A - r + (r + r') = A + r' := by omega
    have e2 : A - r' + (r + r') = A + r := by omega
    rwa [e1, e2] at h2
  have h4 : r' ≡ r [MOD M] := Nat.ModEq.add_left_cancel' A h3
  exact (Nat.ModEq.eq_of_lt_of_lt h4 hr' hr).symm

/-- splitting an opened value `c = u + M·r` into low and high part: the low part does not depend on `r`,
the high part is `u / M + r` — an additive mask on a value of small range -/
theorem opened_split (M u r : ℕ) (hM : 0 < M) :
    (u + M * r) % M = u % M ∧ (u + M * r) / M = u / M + r :=
  ⟨Nat.add_mul_mod_self_left _ _ _, Nat.add_mul_div_left _ _ hM⟩

/-- the opened value is determined by (and determines) the pair (low part, high part) -/
theorem opened_pair_inj (M : ℕ) {c c' : ℕ} (h1 : c % M = c' % M) (h2 : c / M = c' / M) : c = c' := by
  rw [← Nat.div_add_mod c M, ← Nat.div_add_mod c' M, h1, h2]

/-! ### multiplicative blinding (zero tests, reciprocal) -/

/-- ★ `mult_blinding`, a = 0: the blinded value is 0 whatever `r` is -/
theorem mult_blinding_zero {F : Type} [Field F] (r : F) : (0 : F) * r = 0 := zero_mul r

/-- ★ `mult_blinding`, a ≠ 0, `r` uniform on `F`: `a·r` is uniform on `F` (every `y` has exactly one `r`) -/
theorem mult_blinding_full {F : Type} [Field F] {a : F} (ha : a ≠ 0) (y : F) : ∃! r : F, a * r = y := by
  refine ⟨a⁻¹ * y, ?_, ?_⟩
  · show a * (a⁻¹ * y) = y
    rw [← mul_assoc, mul_inv_cancel₀ ha, one_mul]
  · intro r hr
    rw [← hr, ← mul_assoc, inv_mul_cancel₀ ha, one_mul]

/-- ★ `mult_blinding`, a ≠ 0, `r` uniform on `F \ {0}` (small fields: `r` is re-drawn until non-zero):
`a·r` is uniform on `F \ {0}` -/
theorem mult_blinding_units {F : Type} [Field F] {a : F} (ha : a ≠ 0) {y : F} (hy : y ≠ 0) :
    ∃! r : F, r ≠ 0 ∧ a * r = y := by
  refine ⟨a⁻¹ * y, ?_, ?_⟩
  · show a⁻¹ * y ≠ 0 ∧ a * (a⁻¹ * y) = y
    exact ⟨mul_ne_zero (inv_ne_zero ha) hy, by rw [← mul_assoc, mul_inv_cancel₀ ha, one_mul]⟩
  · rintro r ⟨_, hr⟩
    rw [← hr, ← mul_assoc, inv_mul_cancel₀ ha, one_mul]

/-- so the opened product is zero iff the tested value is zero (for non-zero `r`): the opening reveals the
output bit — and by the two theorems above nothing else -/
theorem blinded_zero_iff {F : Type} [Field F] {a r : F} (hr : r ≠ 0) : a * r = 0 ↔ a = 0 := by
  simp [hr]

/-! ### the mask range computed by `_randoms` -/

open MpycV.Share MpycV.Thresha

theorem choose_eq (n k : ℕ) : Share.choose n k = Nat.choose n k := by
  induction n generalizing k with
  | zero => cases k <;> simp [Share.choose]
  | succ n ih =>
    cases k with
    | zero => simp [Share.choose]
    | succ k => simp [Share.choose, ih, Nat.choose_succ_succ]

/-- the divisor is positive in every valid configuration (t ≤ m) -/
theorem maskDiv_pos {m t : ℕ} (htm : t ≤ m) (np : Bool) : 0 < maskDiv m t np := by
  unfold maskDiv
  cases np
  · simpa [choose_eq] using Nat.choose_pos htm
  · simp

theorem maskBound_eq (bound m t : ℕ) (np : Bool) :
    maskBound bound m t np = 2 ^ (bitLength (bound / maskDiv m t np) - 1) := by
  simp [maskBound, Nat.shiftLeft_eq]

/-- the bound is a power of two (so PRF outputs / `randbelow` are exactly uniform, C17) and positive -/
theorem maskBound_pos (bound m t : ℕ) (np : Bool) : 0 < maskBound bound m t np := by
  rw [maskBound_eq]; exact Nat.pos_of_ne_zero (by simp)

/-- ★ `maskBound_ge`: with `d = maskDiv` (C(m,t) resp. t+1) and `d ≤ bound`:
`B·d ≤ bound < 2·B·d` — the rounding to a power of two loses less than one bit, and the SUM of `d` values below
`B` stays below the requested bound. -/
theorem maskBound_bounds {bound m t : ℕ} {np : Bool} (hd : 0 < maskDiv m t np)
    (hb : maskDiv m t np ≤ bound) :
    maskBound bound m t np * maskDiv m t np ≤ bound
      ∧ bound < 2 * maskBound bound m t np * maskDiv m t np := by
  rw [maskBound_eq]
  set d := maskDiv m t np with hdd
  set q := bound / d with hq
  have hq1 : 1 ≤ q := (Nat.le_div_iff_mul_le hd).2 (by simpa using hb)
  have hbl : bitLength q - 1 = Nat.log2 q := by
    unfold bitLength; rw [if_neg (by omega)]; omega
  rw [hbl]
  have h1 : 2 ^ Nat.log2 q ≤ q := Nat.log2_self_le (by omega)
  have h2 : q < 2 ^ (Nat.log2 q + 1) := Nat.lt_log2_self
  have h3 : q * d ≤ bound := Nat.div_mul_le_self bound d
  have h4 : bound < (q + 1) * d := by
    have := Nat.lt_succ_iff.2 (le_refl (bound / d))
    rw [Nat.div_lt_iff_lt_mul hd] at this
    exact this
  constructor
  · exact (Nat.mul_le_mul_right d h1).trans h3
  · have h5 : q + 1 ≤ 2 * 2 ^ Nat.log2 q := by rw [pow_succ] at h2; omega
    exact lt_of_lt_of_le h4 (Nat.mul_le_mul_right d h5)

/-- the degenerate case `bound < d`: the mask range is 1, i.e. NO masking (the call sites pass bounds ≥ 2^k,
far above `d`; stated to make the hypothesis of `maskBound_bounds` visible) -/
theorem maskBound_small {bound m t : ℕ} {np : Bool}
    (hb : bound < maskDiv m t np) : maskBound bound m t np = 1 := by
  rw [maskBound_eq, Nat.div_eq_of_lt hb]
  simp [bitLength]

/-- ★ per-opening distance bound: the secret-dependent high part varies over a span `D`, the requested bound
satisfies `2·D·2^k ≤ c·bound`; then `D·2^k < c·d·B`, i.e. `D / B < c·d·2^-k` — by `mask_sd` the statistical
distance contributed by this opening, given everything else, is below `c·d·2^-k`. -/
theorem opening_distance {bound m t : ℕ} {np : Bool} (hd : 0 < maskDiv m t np)
    (hb : maskDiv m t np ≤ bound) {D k c : ℕ} (hD : 2 * D * 2 ^ k ≤ c * bound) (hc : 0 < c) :
    D * 2 ^ k < c * maskDiv m t np * maskBound bound m t np := by
  obtain ⟨_, h2⟩ := maskBound_bounds hd hb
  have : c * bound < c * (2 * maskBound bound m t np * maskDiv m t np) := Nat.mul_lt_mul_of_pos_left h2 hc
  nlinarith

/-! ### the mask contains a uniform component unknown to the coalition -/

/-- the PRSS mask: the sum over all subsets of the PRF outputs `r S` (the value shared by `prssShare`, C15) -/
def prssMask (m t : ℕ) (r : Comb.Subset → ℕ) : ℕ := ((Comb.subsets m t).map r).sum

/-- ★ `prss_mask_component`: for ANY coalition `A` of at most `t` parties there is a subset `S₀` of `m-t`
parties disjoint from `A` (none of them holds its key, C16), and the mask is `r S₀ + (the other terms)`;
all terms are below `B`, so the whole mask is at most `C(m,t)·(B-1)`. -/
theorem prss_mask_component {m t : ℕ} (htm : t ≤ m) (A : List ℕ) (hA : A.length ≤ t)
    (r : Comb.Subset → ℕ) (B : ℕ) (hr : ∀ S ∈ Comb.subsets m t, r S < B) :
    (∃ S₀ ∈ Comb.subsets m t, (∀ c ∈ A, c ∉ S₀) ∧ S₀.length = m - t ∧ r S₀ < B ∧
        ∃ rest : List Comb.Subset, (S₀ :: rest).Perm (Comb.subsets m t) ∧
          prssMask m t r = r S₀ + (rest.map r).sum)
      ∧ prssMask m t r ≤ Nat.choose m t * (B - 1) := by
  obtain ⟨S₀, hS, hav⟩ := Comb.exists_subset_avoiding htm A hA
  refine ⟨⟨S₀, hS, hav, (Comb.mem_subsets.1 hS).2.2, hr S₀ hS, (Comb.subsets m t).erase S₀,
    (List.perm_cons_erase hS).symm, ?_⟩, ?_⟩
  · unfold prssMask
    rw [((List.perm_cons_erase hS).map r).sum_eq]
    simp
  · unfold prssMask
    have hlen : (Comb.subsets m t).length = Nat.choose m t := by
      rw [Comb.length_subsets, Nat.choose_symm htm]
    rw [← hlen]
    have : ∀ x ∈ (Comb.subsets m t).map r, x ≤ B - 1 := by
      intro x hx
      obtain ⟨S, hS', rfl⟩ := List.mem_map.1 hx
      have := hr S hS'; omega
    have h := List.sum_le_card_nsmul _ _ this
    simpa [mul_comm] using h

/-- ★ no-PRSS variant: the mask is the sum of the values chosen by the `t+1` senders; a coalition of at most `t`
parties does not contain all of them: some sender `j ∉ A` contributes a uniform value `< B` that the coalition
only sees through ≤ t Shamir subshares (C13/C14: independent of it). -/
theorem noprss_mask_component {m t : ℕ} (htm : t < m) (uci : ℕ) (A : Finset ℕ) (hA : A.card ≤ t) :
    ∃ j ∈ senders m t uci, j ∉ A := by
  have hnd : (senders m t uci).Nodup := by
    unfold senders
    apply List.Nodup.map_on _ List.nodup_range
    intro a ha b hb h
    rw [List.mem_range] at ha hb
    have h1 : uci + a ≡ uci + b [MOD m] := h
    have h2 : a ≡ b [MOD m] := Nat.ModEq.add_left_cancel' uci h1
    exact Nat.ModEq.eq_of_lt_of_lt h2 (by omega) (by omega)
  have hcard : A.card < (senders m t uci).toFinset.card := by
    rw [List.toFinset_card_of_nodup hnd]; simp [senders]; omega
  obtain ⟨j, hj, hjA⟩ := exists_mem_notMem_of_card_lt_card hcard
  exact ⟨j, List.mem_toFinset.1 hj, hjA⟩

/-- the no-PRSS mask is below `(t+1)·B`, hence (with `maskBound_bounds`) below the requested bound -/
theorem noprss_mask_le (vals : List ℕ) (B : ℕ) (h : ∀ x ∈ vals, x < B) : vals.sum ≤ vals.length * (B - 1) := by
  have : ∀ x ∈ vals, x ≤ B - 1 := fun x hx => by have := h x hx; omega
  simpa using List.sum_le_card_nsmul _ _ this

end MpycV.Mask
