/-
C14 — the polynomial dealt by `random_split`: its leading coefficient is the first random draw, so the degree is
exactly t iff that draw is non-zero; counting of the coefficient vectors with full degree; what one row of the
share matrix (one wire payload) looks like.
-/
import MpycV.Lemmas.ThreshaUniform
import MpycV.Lemmas.Share

open Polynomial Finset

namespace MpycV.Share

open MpycV.Thresha

variable {F : Type} [Field F]

/-- the coefficient of `X^t` of the Horner polynomial of `t` coefficients is the first of them (`c[0]`, the
first `randbelow` draw for this secret) -/
lemma hornerPoly_coeff_length (c : List F) : (hornerPoly c).coeff c.length = c.headD 0 := by
  induction c using List.reverseRecOn with
  | nil => simp
  | append_singleton c a ih =>
    rw [hornerPoly_snoc, List.length_append, List.length_singleton, coeff_mul_X, coeff_add, ih]
    cases c with
    | nil => simp
    | cons x l => simp

lemma sharePoly_coeff_length (s : F) (c : List F) (hc : c ≠ []) :
    (sharePoly s c).coeff c.length = c.headD 0 := by
  have : c.length ≠ 0 := by simpa using hc
  rw [sharePoly, coeff_add, hornerPoly_coeff_length, coeff_C, if_neg this, add_zero]

/-- the dealt polynomial has degree exactly `t = #coefficients ≥ 1` iff the first coefficient drawn is ≠ 0 -/
theorem natDegree_sharePoly_eq_iff (s : F) (c : List F) (hc : c ≠ []) :
    (sharePoly s c).natDegree = c.length ↔ c.headD 0 ≠ 0 := by
  constructor
  · intro h
    have hpos : 0 < c.length := List.length_pos_iff.2 hc
    have hne : sharePoly s c ≠ 0 := by
      intro h0; rw [h0, natDegree_zero] at h; omega
    rw [← sharePoly_coeff_length s c hc, ← h, coeff_natDegree]
    exact leadingCoeff_ne_zero.2 hne
  · intro h
    rw [← sharePoly_coeff_length s c hc] at h
    exact le_antisymm (natDegree_sharePoly_le s c) (le_natDegree_of_ne_zero h)

/-- if the first coefficient drawn is 0 the degree drops below `t` -/
theorem natDegree_sharePoly_lt (s : F) (c : List F) (hc : c ≠ []) (h0 : c.headD 0 = 0) :
    (sharePoly s c).natDegree < c.length := by
  have h1 := natDegree_sharePoly_le s c
  have h2 := (natDegree_sharePoly_eq_iff s c hc).not.2 (by simpa using h0)
  omega

lemma headD_ofFn {t : ℕ} (c : Fin (t + 1) → F) : (List.ofFn c).headD 0 = c 0 := by
  simp [List.ofFn_succ]

/-- counting: of the `|F|^t` coefficient vectors exactly `(|F|-1)·|F|^(t-1)` give a polynomial of degree exactly
`t` (t ≥ 1), i.e. "degree exactly t" holds with probability `1 - 1/|F|` under uniform coefficients -/
theorem card_full_degree [Fintype F] [DecidableEq F] (s : F) (t : ℕ) :
    Nat.card {c : Fin (t + 1) → F // (sharePoly s (List.ofFn c)).natDegree = t + 1}
      = (Fintype.card F - 1) * Fintype.card F ^ t := by
  have hiff : ∀ c : Fin (t + 1) → F, (sharePoly s (List.ofFn c)).natDegree = t + 1 ↔ c 0 ≠ 0 := by
    intro c
    have := natDegree_sharePoly_eq_iff s (List.ofFn c) (by simp [List.ofFn_succ])
    rw [List.length_ofFn, headD_ofFn] at this
    exact this
  let S : Fin (t + 1) → Finset F := fun i => if i = 0 then univ.erase 0 else univ
  have hS : ∀ c : Fin (t + 1) → F, c ∈ Fintype.piFinset S ↔ c 0 ≠ 0 := by
    intro c
    rw [Fintype.mem_piFinset]
    constructor
    · intro h; simpa [S] using h 0
    · intro h i
      by_cases hi : i = 0
      · subst hi; simpa [S] using h
      · simp [S, hi]
  rw [Nat.card_eq_fintype_card, Fintype.card_subtype]
  have : (univ.filter fun c : Fin (t + 1) → F => (sharePoly s (List.ofFn c)).natDegree = t + 1)
      = Fintype.piFinset S := by
    ext c; simp only [mem_filter, mem_univ, true_and, hiff, hS]
  rw [this, Fintype.card_piFinset, Fin.prod_univ_succ]
  simp [S, Fin.succ_ne_zero, card_erase_of_mem]

/-! ### one row of the share matrix = the payload for one party -/

omit [Field F] in
lemma coeffsFor_zero_ofFn {t : ℕ} (c : Fin t → F) : coeffsFor (List.ofFn c) t 0 = List.ofFn c := by
  simp [coeffsFor]

omit [Field F] in
/-- the message `random_split` prepares for party `i` when one secret is dealt: its one subshare -/
lemma randomSplit_single_row (o : FieldOps F) (s : F) {t m : ℕ} (c : Fin t → F) {i : ℕ} (hi : i < m) :
    (randomSplit o [s] (List.ofFn c) t m).getD i [] = [shareAt o s (List.ofFn c) (i + 1)] := by
  rw [randomSplit_row o [s] (List.ofFn c) t m hi]
  simp [List.zipIdx, coeffsFor_zero_ofFn]

omit [Field F] in
/-- freshness: the `j`-th coefficient used for secret number `h` is draw number `h·t + j` of the stream, and
different (secret, position) pairs use different draws -/
lemma coeffsFor_getD (coeffs : List F) (t h j : ℕ) (d : F) (hj : j < t) :
    (coeffsFor coeffs t h).getD j d = coeffs.getD (h * t + j) d := by
  simp only [coeffsFor, List.getD_eq_getElem?_getD, List.getElem?_take, hj, ↓reduceIte,
    List.getElem?_drop]

lemma draw_index_inj {t a j b j' : ℕ} (hj : j < t) (hj' : j' < t) (h : a * t + j = b * t + j') :
    a = b ∧ j = j' := by
  have h1 : (a * t + j) / t = a := by
    rw [Nat.mul_comm, Nat.mul_add_div (by omega), Nat.div_eq_of_lt hj, Nat.add_zero]
  have h2 : (b * t + j') / t = b := by
    rw [Nat.mul_comm, Nat.mul_add_div (by omega), Nat.div_eq_of_lt hj', Nat.add_zero]
  have e : a = b := by rw [← h1, ← h2, h]
  subst e
  exact ⟨rfl, by omega⟩

end MpycV.Share
