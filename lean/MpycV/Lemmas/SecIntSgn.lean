/-
`sgn` (LT / EQ / full) and `lsb` of secure integers (runtime.py:1504-1561, 1779-1800) are exact for EVERY
choice of the randomness in the declared ranges: the opened value is the masked integer itself (no
wrap-around modulo p) and the result is `[a < 0]`, `[a = 0]`, the sign of `a`, resp. `a mod 2`.

The comparison circuit a la Toft enters through the hypothesis `hT : ToftSpec p` (proved separately).
Hypotheses: `p` prime, `3l + 3 < p`, `2^(l+k+1) < p`, `l ≥ 1`, `k ≥ 1` (for `k = 0` the statements are
false, see the counterexamples), `a` in the wide range `[-2^l, 2^l)` (strictly above `-2^l` for EQ/full).
-/
import MpycV.Lemmas.SecIntTree

namespace MpycV.SecInt
open MpycV.Fxp (pmod norm rsh bitsVal IsBits Fits norm_of_fits pmod_of_range rsh_of_dvd_fits
  bitsVal_range two_pow_pos)

/-! ### powers of two -/

theorem two_pow_pred {l : Nat} (hl : 0 < l) : (2 : Int) ^ l = 2 * (2 : Int) ^ (l - 1) := by
  obtain ⟨m, rfl⟩ : ∃ m, l = m + 1 := ⟨l - 1, by omega⟩
  rw [Nat.add_sub_cancel, pow_succ, mul_comm]

theorem two_le_two_pow {k : Nat} (hk : 0 < k) : (2 : Int) ≤ (2 : Int) ^ k := by
  have h := two_pow_pred hk
  have := two_pow_pos (k - 1)
  linarith

theorem two_pow_lk1 (l k : Nat) : (2 : Int) ^ (l + k + 1) = (2 : Int) ^ l * (2 : Int) ^ k * 2 := by
  rw [pow_succ, pow_add]

/-! ### bits of a public value -/

theorem bitAt_zero (c : Int) : bitAt c 0 = c % 2 := by
  unfold bitAt; rw [pow_zero, Int.ediv_one]

theorem bitAt_succ (c : Int) (i : Nat) : bitAt c (i + 1) = bitAt (c / 2) i := by
  unfold bitAt
  rw [pow_succ, mul_comm, Int.ediv_ediv_of_nonneg (by norm_num)]

theorem bitsLE_succ (c : Int) (l : Nat) : bitsLE c (l + 1) = c % 2 :: bitsLE (c / 2) l := by
  have h : List.map (bitAt c ∘ Nat.succ) (List.range l) = List.map (bitAt (c / 2)) (List.range l) :=
    List.map_congr_left (fun i _ => bitAt_succ c i)
  unfold bitsLE
  rw [List.range_succ_eq_map, List.map_cons, List.map_map, h, bitAt_zero]

theorem bitsLE_length (c : Int) (l : Nat) : (bitsLE c l).length = l := by
  unfold bitsLE; rw [List.length_map, List.length_range]

theorem bitsLE_isBits (c : Int) (l : Nat) : IsBits (bitsLE c l) := by
  intro b hb
  unfold bitsLE at hb
  obtain ⟨i, _, rfl⟩ := List.mem_map.1 hb
  unfold bitAt
  omega

/-- `x mod 2m` from the lowest bit and `(x div 2) mod m` -/
theorem emod_two_mul (c m : Int) (hm : 0 < m) : c % 2 + 2 * (c / 2 % m) = c % (m * 2) := by
  have h1 := Int.mul_ediv_add_emod c 2
  have h2 := Int.mul_ediv_add_emod (c / 2) m
  have h3 := Int.emod_nonneg (c / 2) hm.ne'
  have h4 := Int.emod_lt_of_pos (c / 2) hm
  have key : c = (c % 2 + 2 * (c / 2 % m)) + (m * 2) * (c / 2 / m) := by linarith
  have h5 : (c % 2 + 2 * (c / 2 % m)) % (m * 2) = c % 2 + 2 * (c / 2 % m) :=
    Int.emod_eq_of_lt (by omega) (by omega)
  calc c % 2 + 2 * (c / 2 % m) = (c % 2 + 2 * (c / 2 % m) + (m * 2) * (c / 2 / m)) % (m * 2) := by
        rw [Int.add_mul_emod_self_left, h5]
    _ = c % (m * 2) := by rw [← key]

/-- the `l` low bits of `c` have the value `c mod 2^l` -/
theorem bitsVal_bitsLE : ∀ (l : Nat) (c : Int), bitsVal (bitsLE c l) = c % (2 : Int) ^ l
  | 0, c => by simp [bitsLE, bitsVal]
  | l + 1, c => by
    rw [bitsLE_succ, bitsVal, bitsVal_bitsLE l (c / 2), pow_succ]
    exact emod_two_mul c _ (two_pow_pos l)

/-! ### the equality circuit -/

theorem prod_xnor : ∀ (rs cs : List Int), IsBits rs → IsBits cs → rs.length = cs.length →
    (List.zipWith xnorBit rs cs).prod = if bitsVal rs = bitsVal cs then 1 else 0
  | [], [], _, _, _ => by simp [bitsVal]
  | [], _ :: _, _, _, h => by simp at h
  | _ :: _, [], _, _, h => by simp at h
  | r :: rs, c :: cs, hr, hc, h => by
    have hr0 : r = 0 ∨ r = 1 := hr r (by simp)
    have hc0 : c = 0 ∨ c = 1 := hc c (by simp)
    have ih := prod_xnor rs cs (fun y hy => hr y (by simp [hy])) (fun y hy => hc y (by simp [hy]))
      (by simpa using h)
    rw [List.zipWith_cons_cons, List.prod_cons, ih]
    simp only [bitsVal]
    rcases hr0 with rfl | rfl <;> rcases hc0 with rfl | rfl <;> unfold xnorBit <;> split_ifs <;> omega

/-- `all(r_i if c_i else 1 - r_i)` is the equality test of the two bit strings -/
theorem allTree_xnor (rs cs : List Int) (hr : IsBits rs) (hc : IsBits cs) (h : rs.length = cs.length) :
    allTree (List.zipWith xnorBit rs cs) = if bitsVal rs = bitsVal cs then 1 else 0 := by
  rw [allTree_eq_prod, prod_xnor rs cs hr hc h]

/-! ### integer arithmetic of the masking -/

theorem emod_cases (x L : Int) (h0 : -L ≤ x) (h1 : x < 2 * L) :
    x % L = if x < 0 then x + L else if x < L then x else x - L := by
  split_ifs with ha hb
  · rw [← Int.add_emod_right x L]; exact Int.emod_eq_of_lt (by omega) (by omega)
  · exact Int.emod_eq_of_lt (by omega) hb
  · rw [← Int.sub_emod_right x L]; exact Int.emod_eq_of_lt (by omega) (by omega)

/-- no wrap-around: the masked value lies in `[0, p)` (`a` in the wide range `[-2P, 2P)`) -/
theorem range_aux (P K a R D pp : Int) (hP : 0 < P) (hK : 2 ≤ K) (ha0 : -(2 * P) ≤ a) (ha1 : a < 2 * P)
    (hR0 : 0 ≤ R) (hR1 : R < 2 * P) (hD0 : 0 ≤ D) (hD1 : D < K) (hbig : 2 * P * K * 2 < pp) :
    0 ≤ a + (2 * P + R) + D * (2 * P) ∧ a + (2 * P + R) + D * (2 * P) < pp := by
  have h1 : 0 ≤ D * P := mul_nonneg hD0 hP.le
  have h2 : D * P ≤ (K - 1) * P := mul_le_mul_of_nonneg_right (by omega) hP.le
  have h3 : 2 * P ≤ K * P := mul_le_mul_of_nonneg_right hK hP.le
  constructor
  · linarith
  · linarith

theorem sgn_arith (P a R c : Int) (ha0 : -(2 * P) ≤ a) (ha1 : a < 2 * P) (hR0 : 0 ≤ R)
    (hR1 : R < 2 * P) (hc : c = (a + R) % (2 * P)) :
    c - (a + (2 * P + R)) + (if R ≤ c then 2 else 4) * P = (if a < 0 then 1 else 0) * (2 * P) := by
  rw [emod_cases (a + R) (2 * P) (by omega) (by omega)] at hc
  split_ifs at hc ⊢ <;> omega

theorem eq_arith (P a R c : Int) (ha0 : -(2 * P) < a) (ha1 : a < 2 * P) (hR0 : 0 ≤ R)
    (hR1 : R < 2 * P) (hc : c = (a + R) % (2 * P)) : R = c ↔ a = 0 := by
  rw [emod_cases (a + R) (2 * P) (by omega) (by omega)] at hc
  split_ifs at hc <;> omega

/-! ### field facts -/

theorem fits_small {p : Nat} {z : Int} (h0 : -1 ≤ z) (h1 : z ≤ 1) (hp : 2 < (p : Int)) : Fits p z := by
  unfold Fits
  have := abs_le.2 ⟨h0, h1⟩
  linarith

theorem rsh_mul_pow {p : Nat} (l : Nat) (hodd : p % 2 = 1) {z : Int} (hf : Fits p z) :
    rsh p l (z * (2 : Int) ^ l) = z := by
  have h2 : (2 : Int) ^ l ≠ 0 := (two_pow_pos l).ne'
  have hq : z * (2 : Int) ^ l / (2 : Int) ^ l = z := Int.mul_ediv_cancel z h2
  rw [rsh_of_dvd_fits hodd (Dvd.intro_left z rfl) (by rw [hq]; exact hf), hq]

theorem four_lt_p {p l k : Nat} (hl : 0 < l) (hk : 0 < k) (hbig : (2 : Int) ^ (l + k + 1) < (p : Int)) :
    (4 : Int) < (p : Int) := by
  have h : (2 : Int) ^ 2 ≤ (2 : Int) ^ (l + k + 1) := pow_le_pow_right₀ (by norm_num) (by omega)
  norm_num at h
  linarith

theorem odd_of_prime {p : Nat} (hp : p.Prime) (h4 : (4 : Int) < (p : Int)) : p % 2 = 1 := by
  rcases hp.eq_two_or_odd with h | h
  · omega
  · exact h

/-! ### the opened value -/

section
variable {p l k : Nat} {a R D : Int}

theorem sgn_range (hl : 0 < l) (hk : 0 < k) (hbig : (2 : Int) ^ (l + k + 1) < (p : Int))
    (ha0 : -(2 : Int) ^ l ≤ a) (ha1 : a < (2 : Int) ^ l)
    (hR0 : 0 ≤ R) (hR1 : R < (2 : Int) ^ l) (hD0 : 0 ≤ D) (hD1 : D < (2 : Int) ^ k) :
    0 ≤ a + ((2 : Int) ^ l + R) + D * (2 : Int) ^ l ∧ a + ((2 : Int) ^ l + R) + D * (2 : Int) ^ l < (p : Int) := by
  rw [two_pow_lk1, two_pow_pred hl] at hbig
  rw [two_pow_pred hl] at hR1 ha0 ha1 ⊢
  exact range_aux _ _ a R D p (two_pow_pos (l - 1)) (two_le_two_pow hk) ha0 ha1 hR0 hR1 hD0 hD1 hbig

theorem sgn_cOpen (hl : 0 < l) (hk : 0 < k) (hbig : (2 : Int) ^ (l + k + 1) < (p : Int))
    (ha0 : -(2 : Int) ^ l ≤ a) (ha1 : a < (2 : Int) ^ l)
    (hR0 : 0 ≤ R) (hR1 : R < (2 : Int) ^ l) (hD0 : 0 ≤ D) (hD1 : D < (2 : Int) ^ k) :
    pmod (a + ((2 : Int) ^ l + R) + D * (2 : Int) ^ l) p = a + (2 : Int) ^ l + R + D * (2 : Int) ^ l := by
  have h := sgn_range hl hk hbig ha0 ha1 hR0 hR1 hD0 hD1
  rw [pmod_of_range h.1 h.2]; ring

theorem sgn_cmod (l : Nat) (a R D : Int) :
    (a + (2 : Int) ^ l + R + D * (2 : Int) ^ l) % (2 : Int) ^ l = (a + R) % (2 : Int) ^ l := by
  have : a + (2 : Int) ^ l + R + D * (2 : Int) ^ l = (a + R) + (2 : Int) ^ l * (1 + D) := by ring
  rw [this, Int.add_mul_emod_self_left]

end

/-! ### the comparison -/

/-- which branch the public zero test takes (`c` any `l`-bit value) -/
theorem toft_g {p l : Nat} (hp : p.Prime) (hT : ToftSpec p) (h3 : 3 * l + 3 < p) {rBits : List Int}
    (hb : IsBits rBits) (hlen : rBits.length = l) {c : Int} (hc0 : 0 ≤ c) (hc1 : c < (2 : Int) ^ l)
    {s rz : Int} (hs : s = 1 ∨ s = -1) (hrz : ¬ (p : Int) ∣ rz) :
    (isZeroPublic p (prodTree (toftE s (-1) rBits (bitsLE c l))) rz).2 = true ↔
      (s = 1 ∧ bitsVal rBits ≤ c) ∨ (s = -1 ∧ c < bitsVal rBits) := by
  rw [(isZeroPublic_correct hp _ rz hrz).1, Int.dvd_iff_emod_eq_zero,
    hT s (-1) rBits (bitsLE c l) (by rw [hlen, bitsLE_length]) hb (bitsLE_isBits c l) hs (Or.inr rfl)
      (by rw [hlen]; exact h3),
    bitsVal_bitsLE, Int.emod_eq_of_lt hc0 hc1]
  rcases hs with rfl | rfl <;> omega

theorem toft_h {p l : Nat} (hp : p.Prime) (hT : ToftSpec p) (h3 : 3 * l + 3 < p) {rBits : List Int}
    (hb : IsBits rBits) (hlen : rBits.length = l) {c : Int} (hc0 : 0 ≤ c) (hc1 : c < (2 : Int) ^ l)
    {s rz : Int} (hs : s = 1 ∨ s = -1) (hrz : ¬ (p : Int) ∣ rz) :
    (if (isZeroPublic p (prodTree (toftE s (-1) rBits (bitsLE c l))) rz).2 = true then 3 - s else 3 + s) =
      if bitsVal rBits ≤ c then 2 else 4 := by
  have hg := toft_g hp hT h3 hb hlen hc0 hc1 hs hrz
  by_cases hle : bitsVal rBits ≤ c
  · rw [if_pos hle]
    rcases hs with rfl | rfl
    · rw [if_pos (hg.2 (Or.inl ⟨rfl, hle⟩))]; norm_num
    · rw [if_neg (fun h => by have := hg.1 h; omega)]; norm_num
  · rw [if_neg hle]
    rcases hs with rfl | rfl
    · rw [if_neg (fun h => by have := hg.1 h; omega)]; norm_num
    · rw [if_pos (hg.2 (Or.inr ⟨rfl, by omega⟩))]; norm_num

/-- the value `z` of the LT branch, as a function of the reduced opened value -/
theorem sgn_zlt {p l k : Nat} (hp : p.Prime) (hT : ToftSpec p) (hl : 0 < l) (hk : 0 < k) (h3 : 3 * l + 3 < p)
    (hbig : (2 : Int) ^ (l + k + 1) < (p : Int)) {a : Int} (ha0 : -(2 : Int) ^ l ≤ a)
    (ha1 : a < (2 : Int) ^ l) {rBits : List Int} (hb : IsBits rBits) (hlen : rBits.length = l)
    {s rz : Int} (hs : s = 1 ∨ s = -1) (hrz : ¬ (p : Int) ∣ rz) :
    rsh p l ((a + bitsVal rBits) % (2 : Int) ^ l - (a + ((2 : Int) ^ l + bitsVal rBits)) +
      (if (isZeroPublic p (prodTree (toftE s (-1) rBits (bitsLE ((a + bitsVal rBits) % (2 : Int) ^ l) l))) rz).2 = true
        then 3 - s else 3 + s) * (2 : Int) ^ (l - 1)) = if a < 0 then 1 else 0 := by
  obtain ⟨hR0, hR1⟩ := bitsVal_range rBits hb
  rw [hlen] at hR1
  have hL := two_pow_pos l
  have h4 := four_lt_p hl hk hbig
  have hodd := odd_of_prime hp h4
  have hc0 : 0 ≤ (a + bitsVal rBits) % (2 : Int) ^ l := Int.emod_nonneg _ hL.ne'
  have hc1 : (a + bitsVal rBits) % (2 : Int) ^ l < (2 : Int) ^ l := Int.emod_lt_of_pos _ hL
  rw [toft_h hp hT h3 hb hlen hc0 hc1 hs hrz]
  have key : (a + bitsVal rBits) % (2 : Int) ^ l - (a + ((2 : Int) ^ l + bitsVal rBits)) +
      (if bitsVal rBits ≤ (a + bitsVal rBits) % (2 : Int) ^ l then 2 else 4) * (2 : Int) ^ (l - 1) =
      (if a < 0 then 1 else 0) * (2 : Int) ^ l := by
    rw [two_pow_pred hl] at hR1 ha0 ha1 ⊢
    exact sgn_arith _ a _ _ ha0 ha1 hR0 hR1 rfl
  rw [key]
  apply rsh_mul_pow l hodd
  apply fits_small _ _ (by linarith) <;> split_ifs <;> norm_num

/-- the reduced opened value `c.value % (1<<l)` is `(a + r_modl) mod 2^l` -/
theorem sgn_cred {p l k : Nat} {a R D : Int} (hl : 0 < l) (hk : 0 < k)
    (hbig : (2 : Int) ^ (l + k + 1) < (p : Int)) (ha0 : -(2 : Int) ^ l ≤ a) (ha1 : a < (2 : Int) ^ l)
    (hR0 : 0 ≤ R) (hR1 : R < (2 : Int) ^ l) (hD0 : 0 ≤ D) (hD1 : D < (2 : Int) ^ k) :
    pmod (a + ((2 : Int) ^ l + R) + D * (2 : Int) ^ l) p % (2 : Int) ^ l = (a + R) % (2 : Int) ^ l := by
  rw [sgn_cOpen hl hk hbig ha0 ha1 hR0 hR1 hD0 hD1, sgn_cmod]

/-- the equality circuit applied to the reduced opened value -/
theorem sgn_heq {l : Nat} {a : Int} {rBits : List Int} (hl : 0 < l) (ha0 : -(2 : Int) ^ l < a)
    (ha1 : a < (2 : Int) ^ l) (hb : IsBits rBits) (hlen : rBits.length = l) :
    allTree (List.zipWith xnorBit rBits (bitsLE ((a + bitsVal rBits) % (2 : Int) ^ l) l)) =
      if a = 0 then 1 else 0 := by
  obtain ⟨hR0, hR1⟩ := bitsVal_range rBits hb
  rw [hlen] at hR1
  rw [allTree_xnor rBits _ hb (bitsLE_isBits _ l) (by rw [hlen, bitsLE_length]), bitsVal_bitsLE,
    Int.emod_emod_of_dvd _ (dvd_refl _)]
  have hiff : bitsVal rBits = (a + bitsVal rBits) % (2 : Int) ^ l ↔ a = 0 := by
    rw [two_pow_pred hl] at hR1 ha0 ha1 ⊢
    exact eq_arith _ a _ _ ha0 ha1 hR0 hR1 rfl
  by_cases h0 : a = 0
  · rw [if_pos (hiff.2 h0), if_pos h0]
  · rw [if_neg (fun h => h0 (hiff.1 h)), if_neg h0]

theorem wide_of_narrow {l : Nat} {a : Int} (hl : 0 < l) (ha0 : -(2 : Int) ^ (l - 1) ≤ a)
    (ha1 : a < (2 : Int) ^ (l - 1)) : -(2 : Int) ^ l < a ∧ a < (2 : Int) ^ l := by
  have h1 := two_pow_pred hl
  have h2 := two_pow_pos (l - 1)
  constructor <;> linarith

/-! ### main theorems: `sgn`

`a` ranges over the WIDE interval `[-2^l, 2^l)` (comparisons `x < y` call `sgn` on the difference of two
`l`-bit numbers); the interval `[-2^(l-1), 2^(l-1))` of the docstring is a special case
(`wide_of_narrow`).  `k ≥ 1` is needed: for `k = 0` the opened value may wrap modulo `p` (see the
counterexample below). -/

section main
variable {p l k : Nat} {a : Int} {rBits : List Int} {rDivl sSign rz : Int}

/-- **sgn_opened**: the value opened by `sgn` is the masked integer itself (no wrap-around modulo `p`) -/
theorem sgn_opened (hl : 0 < l) (hk : 0 < k) (hbig : (2 : Int) ^ (l + k + 1) < (p : Int))
    (ha0 : -(2 : Int) ^ l ≤ a) (ha1 : a < (2 : Int) ^ l) (hb : IsBits rBits) (hlen : rBits.length = l)
    (hr0 : 0 ≤ rDivl) (hr1 : rDivl < (2 : Int) ^ k) (mode : Mode) :
    (sgnModel p l a rBits rDivl sSign rz mode).c =
      a + (2 : Int) ^ l + bitsVal rBits + rDivl * (2 : Int) ^ l := by
  obtain ⟨hR0, hR1⟩ := bitsVal_range rBits hb
  rw [hlen] at hR1
  have h := sgn_cOpen hl hk hbig ha0 ha1 hR0 hR1 hr0 hr1 (p := p)
  cases mode <;> exact h

/-- **sgn_lt**: `sgn(a, LT=True)` is `[a < 0]` for every choice of the randomness -/
theorem sgn_lt (hp : p.Prime) (hT : ToftSpec p) (hl : 0 < l) (hk : 0 < k) (h3 : 3 * l + 3 < p)
    (hbig : (2 : Int) ^ (l + k + 1) < (p : Int)) (ha0 : -(2 : Int) ^ l ≤ a) (ha1 : a < (2 : Int) ^ l)
    (hb : IsBits rBits) (hlen : rBits.length = l) (hr0 : 0 ≤ rDivl) (hr1 : rDivl < (2 : Int) ^ k)
    (hs : sSign = 1 ∨ sSign = -1) (hrz : ¬ (p : Int) ∣ rz) :
    (sgnModel p l a rBits rDivl sSign rz .lt).z = if a < 0 then 1 else 0 := by
  obtain ⟨hR0, hR1⟩ := bitsVal_range rBits hb
  rw [hlen] at hR1
  have e := sgn_cred hl hk hbig ha0 ha1 hR0 hR1 hr0 hr1 (p := p)
  have hz := sgn_zlt hp hT hl hk h3 hbig ha0 ha1 hb hlen hs hrz
  rw [← e] at hz
  exact hz

/-- **sgn_g**: which branch the public zero test takes, with `c' = (a + r_modl) mod 2^l` -/
theorem sgn_g (hp : p.Prime) (hT : ToftSpec p) (hl : 0 < l) (hk : 0 < k) (h3 : 3 * l + 3 < p)
    (hbig : (2 : Int) ^ (l + k + 1) < (p : Int)) (ha0 : -(2 : Int) ^ l ≤ a) (ha1 : a < (2 : Int) ^ l)
    (hb : IsBits rBits) (hlen : rBits.length = l) (hr0 : 0 ≤ rDivl) (hr1 : rDivl < (2 : Int) ^ k)
    (hs : sSign = 1 ∨ sSign = -1) (hrz : ¬ (p : Int) ∣ rz) :
    (sgnModel p l a rBits rDivl sSign rz .lt).g = true ↔
      (sSign = 1 ∧ bitsVal rBits ≤ (a + bitsVal rBits) % (2 : Int) ^ l) ∨
      (sSign = -1 ∧ (a + bitsVal rBits) % (2 : Int) ^ l < bitsVal rBits) := by
  obtain ⟨hR0, hR1⟩ := bitsVal_range rBits hb
  rw [hlen] at hR1
  have hL := two_pow_pos l
  have e := sgn_cred hl hk hbig ha0 ha1 hR0 hR1 hr0 hr1 (p := p)
  have hg := toft_g hp hT h3 hb hlen (Int.emod_nonneg (a + bitsVal rBits) hL.ne')
    (Int.emod_lt_of_pos (a + bitsVal rBits) hL) hs hrz
  have hu : (sgnModel p l a rBits rDivl sSign rz .lt).g =
      (isZeroPublic p (prodTree (toftE sSign (-1) rBits
        (bitsLE ((a + bitsVal rBits) % (2 : Int) ^ l) l))) rz).2 := by
    rw [← e]; rfl
  rw [hu]; exact hg

/-- **sgn_eq**: `sgn(a, EQ=True)` is `[a = 0]` -/
theorem sgn_eq (hl : 0 < l) (hk : 0 < k) (hbig : (2 : Int) ^ (l + k + 1) < (p : Int))
    (ha0 : -(2 : Int) ^ l < a) (ha1 : a < (2 : Int) ^ l) (hb : IsBits rBits) (hlen : rBits.length = l)
    (hr0 : 0 ≤ rDivl) (hr1 : rDivl < (2 : Int) ^ k) :
    (sgnModel p l a rBits rDivl sSign rz .eq).z = if a = 0 then 1 else 0 := by
  obtain ⟨hR0, hR1⟩ := bitsVal_range rBits hb
  rw [hlen] at hR1
  have h4 := four_lt_p hl hk hbig
  have e := sgn_cred hl hk hbig ha0.le ha1 hR0 hR1 hr0 hr1 (p := p)
  have hh := sgn_heq hl ha0 ha1 hb hlen
  rw [← e] at hh
  show norm p _ = _
  rw [hh]
  apply norm_of_fits
  apply fits_small _ _ (by linarith) <;> split_ifs <;> norm_num

/-- **sgn_sign**: `sgn(a)` is the sign of `a` in `{-1, 0, 1}` -/
theorem sgn_sign (hp : p.Prime) (hT : ToftSpec p) (hl : 0 < l) (hk : 0 < k) (h3 : 3 * l + 3 < p)
    (hbig : (2 : Int) ^ (l + k + 1) < (p : Int)) (ha0 : -(2 : Int) ^ l < a) (ha1 : a < (2 : Int) ^ l)
    (hb : IsBits rBits) (hlen : rBits.length = l) (hr0 : 0 ≤ rDivl) (hr1 : rDivl < (2 : Int) ^ k)
    (hs : sSign = 1 ∨ sSign = -1) (hrz : ¬ (p : Int) ∣ rz) :
    (sgnModel p l a rBits rDivl sSign rz .full).z = if a < 0 then -1 else if a = 0 then 0 else 1 := by
  obtain ⟨hR0, hR1⟩ := bitsVal_range rBits hb
  rw [hlen] at hR1
  have h4 := four_lt_p hl hk hbig
  have e := sgn_cred hl hk hbig ha0.le ha1 hR0 hR1 hr0 hr1 (p := p)
  have hz := sgn_zlt hp hT hl hk h3 hbig ha0.le ha1 hb hlen hs hrz
  have hh := sgn_heq hl ha0 ha1 hb hlen
  rw [← e] at hz hh
  show norm p ((_ - 1) * (2 * _ - 1)) = _
  rw [hh, hz]
  have hv : ((if a = 0 then (1 : Int) else 0) - 1) * (2 * (if a < 0 then (1 : Int) else 0) - 1) =
      if a < 0 then -1 else if a = 0 then 0 else 1 := by
    split_ifs <;> omega
  rw [hv]
  apply norm_of_fits
  apply fits_small _ _ (by linarith) <;> split_ifs <;> norm_num

end main

/-! non-vacuity: p = 1009 (prime), l = 3, k = 4 (`2^(l+k+1) = 256 < 1009`) -/
example : (sgnModel 1009 3 (-3) [1, 0, 1] 5 (-1) 7 .lt).c = -3 + 8 + 5 + 5 * 8 := by decide
example : (sgnModel 1009 3 (-3) [1, 0, 1] 5 (-1) 7 .lt).z = 1 := by decide
example : (sgnModel 1009 3 2 [1, 0, 1] 5 1 7 .lt).z = 0 := by decide
example : (sgnModel 1009 3 (-7) [0, 1, 1] 9 1 7 .lt).z = 1 := by decide        -- wide range
example : (sgnModel 1009 3 0 [1, 1, 0] 15 1 7 .eq).z = 1 := by decide
example : (sgnModel 1009 3 3 [1, 1, 0] 15 1 7 .eq).z = 0 := by decide
example : (sgnModel 1009 3 (-3) [1, 0, 1] 5 (-1) 7 .full).z = -1 := by decide
example : (sgnModel 1009 3 0 [1, 0, 1] 5 1 7 .full).z = 0 := by decide
example : (sgnModel 1009 3 2 [0, 0, 1] 0 (-1) 7 .full).z = 1 := by decide
example : (sgnModel 1009 3 (-3) [1, 0, 1] 5 (-1) 7 .lt).g = true := by decide   -- c' = 2 < 5, s = -1
example : (sgnModel 1009 3 (-3) [1, 0, 1] 5 1 7 .lt).g = false := by decide
-- `k = 0` is not enough: p = 17 > 2^(l+k+1) = 16, a = 3, r_modl = 7: the opened value 18 wraps
example : (sgnModel 17 3 3 [1, 1, 1] 0 1 7 .lt).c ≠ 3 + 8 + 7 + 0 * 8 := by decide

/-! ### lsb -/

theorem lsb_range (P K a b r pp : Int) (hP : 0 < P) (hK : 2 ≤ K) (ha0 : -(2 * P) ≤ a) (ha1 : a < 2 * P)
    (hb0 : 0 ≤ b) (hb1 : b ≤ 1) (hr0 : 0 ≤ r) (hr1 : r < P * K) (hbig : 2 * P * K * 2 < pp) :
    0 ≤ a + (2 * P + 2 * r + b) ∧ a + (2 * P + 2 * r + b) < pp := by
  have h3 : P * 2 ≤ P * K := mul_le_mul_of_nonneg_left hK hP.le
  constructor
  · linarith
  · linarith

/-- **lsb_correct**: `lsb(a)` is `a mod 2` for every choice of the randomness, and the opened value is the
masked integer itself -/
theorem lsb_correct {p l k : Nat} {a b r : Int} (hl : 0 < l) (hk : 0 < k)
    (hbig : (2 : Int) ^ (l + k + 1) < (p : Int)) (ha0 : -(2 : Int) ^ l ≤ a) (ha1 : a < (2 : Int) ^ l)
    (hb : b = 0 ∨ b = 1) (hr0 : 0 ≤ r) (hr1 : r < (2 : Int) ^ (l + k - 1)) :
    (lsbModel p l a b r).2 = a % 2 ∧ (lsbModel p l a b r).1 = a + (2 : Int) ^ l + 2 * r + b := by
  have h4 := four_lt_p hl hk hbig
  have hpw : (2 : Int) ^ (l + k - 1) = (2 : Int) ^ (l - 1) * (2 : Int) ^ k := by
    rw [← pow_add]; congr 1; omega
  have hL := two_pow_pred hl
  rw [two_pow_lk1, hL] at hbig
  rw [hpw] at hr1
  have hrange := lsb_range _ _ a b r p (two_pow_pos (l - 1)) (two_le_two_pow hk)
    (by rw [← hL]; exact ha0) (by rw [← hL]; exact ha1) (by omega) (by omega) hr0 hr1 hbig
  have hc : pmod (a + ((2 : Int) ^ l + 2 * r + b)) p = a + ((2 : Int) ^ l + 2 * r + b) := by
    rw [hL]; exact pmod_of_range hrange.1 hrange.2
  have h1 : (lsbModel p l a b r).1 = a + (2 : Int) ^ l + 2 * r + b := by
    show pmod (a + ((2 : Int) ^ l + 2 * r + b)) p = _
    rw [hc]; ring
  have h2 : (lsbModel p l a b r).2 =
      norm p (if (a + ((2 : Int) ^ l + 2 * r + b)) % 2 = 1 then 1 - b else b) := by
    rw [← hc]; rfl
  refine ⟨?_, h1⟩
  rw [h2]
  have hv : (if (a + ((2 : Int) ^ l + 2 * r + b)) % 2 = 1 then 1 - b else b) = a % 2 := by
    rw [hL]
    generalize (2 : Int) ^ (l - 1) = P
    rcases hb with rfl | rfl <;> split_ifs <;> omega
  rw [hv]
  exact norm_of_fits (fits_small (by omega) (by omega) (by linarith))

example : (lsbModel 1009 3 (-3) 1 60) = (-3 + 8 + 2 * 60 + 1, 1) := by decide
example : (lsbModel 1009 3 2 1 63) = (2 + 8 + 2 * 63 + 1, 0) := by decide
example : (lsbModel 1009 3 (-8) 0 0) = (0, 0) := by decide
-- `k = 0` is not enough: p = 17, l = 3, a = 2, r = 3 < 2^(l+k-1) = 4, b = 1: the opened value 17 wraps
example : (lsbModel 17 3 2 1 3).2 ≠ 2 % 2 := by decide

end MpycV.SecInt
