/-
`_quickselect` (statistics.py:281-348) returns the requested order statistics, C34.

Main result `quickselect_spec`: for strictly increasing `ks` (all `< len x`), any fuel `≥ len x` and any
rounds (pivot positions / tie-breaking bits) whose `ties` are at least as long as `x`, a successful run
returns `[sorted(x)[k] for k in ks]`, and the unused rounds are a suffix of the given ones.
Core Lean only.
-/
import MpycV.Lemmas.StatsQSCompact
namespace MpycV.Stats

/-! ### C. the comparison vector `z` -/

/-- one entry of `z`: the secure comparison `2*(x[i] - p) < y[i]` as a 0/1 value -/
def qsBit (xi p : Int) (yi : Bool) : Int :=
  if 2 * (xi - p) < (if yi then 1 else 0) then 1 else 0

theorem qsZ_cons (xi : Int) (x : List Int) (p : Int) (yi : Bool) (y : List Bool) :
    qsZ (xi :: x) p (yi :: y) = qsBit xi p yi :: qsZ x p y := rfl

/-- the comparison `2*(x[i] - p) < y[i]` (with `y[i] ∈ {0, 1}`) is `x[i] < p ∨ (x[i] = p ∧ y[i])` -/
theorem qsZ_entry (xi p : Int) (yi : Bool) :
    (2 * (xi - p) < (if yi then 1 else 0)) ↔ (xi < p ∨ (xi = p ∧ yi = true)) := by
  cases yi <;> simp <;> omega

theorem qsBit_eq (xi p : Int) (yi : Bool) :
    qsBit xi p yi = if xi < p ∨ (xi = p ∧ yi = true) then 1 else 0 := by
  unfold qsBit
  by_cases h : 2 * (xi - p) < (if yi then 1 else 0)
  · rw [if_pos h, if_pos ((qsZ_entry xi p yi).1 h)]
  · rw [if_neg h, if_neg (fun h' => h ((qsZ_entry xi p yi).2 h'))]

theorem qsBit_01 (xi p : Int) (yi : Bool) : qsBit xi p yi = 0 ∨ qsBit xi p yi = 1 := by
  rw [qsBit_eq]; split
  · exact Or.inr rfl
  · exact Or.inl rfl

theorem le_of_qsBit_one {xi p : Int} {yi : Bool} (h : qsBit xi p yi = 1) : xi ≤ p := by
  rw [qsBit_eq] at h
  split at h
  · rename_i hc; omega
  · omega

theorem ge_of_qsBit_zero {xi p : Int} {yi : Bool} (h : qsBit xi p yi = 0) : p ≤ xi := by
  rw [qsBit_eq] at h
  split at h
  · omega
  · rename_i hc; omega

@[simp] theorem length_qsZ (x : List Int) (p : Int) (y : List Bool) :
    (qsZ x p y).length = min x.length y.length := by simp [qsZ]

/-- `z[i] ∈ {0, 1}` -/
theorem qsZ_01 (x : List Int) (p : Int) (y : List Bool) : ∀ a ∈ qsZ x p y, a = 0 ∨ a = 1 := by
  induction x generalizing y with
  | nil => simp [qsZ]
  | cons xi x ih =>
    cases y with
    | nil => simp [qsZ]
    | cons yi y =>
      intro a ha
      rw [qsZ_cons, List.mem_cons] at ha
      rcases ha with rfl | ha
      · exact qsBit_01 _ _ _
      · exact ih y a ha

/-- `z[i] = 1 ↔ x[i] < p ∨ (x[i] = p ∧ y[i])` -/
theorem getElem?_qsZ (x : List Int) (p : Int) (y : List Bool) (i : Nat)
    (hx : i < x.length) (hy : i < y.length) :
    (qsZ x p y)[i]? = some (if x[i] < p ∨ (x[i] = p ∧ y[i] = true) then 1 else 0) := by
  rw [← qsBit_eq]
  unfold qsZ
  rw [List.getElem?_zipWith, List.getElem?_eq_getElem hx, List.getElem?_eq_getElem hy]
  rfl

/-- every selected element is `≤` the pivot -/
theorem sel_qsZ_le (x : List Int) (p : Int) (y : List Bool) : ∀ a ∈ sel (qsZ x p y) x, a ≤ p := by
  induction x generalizing y with
  | nil => simp
  | cons xi x ih =>
    cases y with
    | nil => simp [qsZ]
    | cons yi y =>
      intro a ha
      rw [qsZ_cons] at ha
      rcases qsBit_01 xi p yi with hb | hb
      · rw [hb, sel_cons_zero] at ha
        exact ih y a ha
      · rw [hb, sel_cons_one, List.mem_cons] at ha
        rcases ha with rfl | ha
        · exact le_of_qsBit_one hb
        · exact ih y a ha

/-- every non-selected element is `≥` the pivot -/
theorem sel_qsZ_compl_ge (x : List Int) (p : Int) (y : List Bool) :
    ∀ a ∈ sel ((qsZ x p y).map (1 - ·)) x, p ≤ a := by
  induction x generalizing y with
  | nil => simp
  | cons xi x ih =>
    cases y with
    | nil => simp [qsZ]
    | cons yi y =>
      intro a ha
      rw [qsZ_cons, List.map_cons] at ha
      rcases qsBit_01 xi p yi with hb | hb
      · rw [hb] at ha
        simp only [Int.sub_zero, sel_cons_one, List.mem_cons] at ha
        rcases ha with rfl | ha
        · exact ge_of_qsBit_zero hb
        · exact ih y a ha
      · rw [hb] at ha
        simp only [Int.sub_self, sel_cons_zero] at ha
        exact ih y a ha

/-- hence: every `x[i]` with `z[i] = 1` is `≤ p ≤` every `x[j]` with `z[j] = 0` -/
theorem sel_qsZ_le_compl (x : List Int) (p : Int) (y : List Bool) :
    ∀ a ∈ sel (qsZ x p y) x, ∀ b ∈ sel ((qsZ x p y).map (1 - ·)) x, a ≤ b :=
  fun a ha b hb => Int.le_trans (sel_qsZ_le x p y a ha) (sel_qsZ_compl_ge x p y b hb)

/-- the `while True` loop returns the `z` of one of the rounds, with `0 < s = sum(z) < n` -/
theorem qsPick_spec (x : List Int) (rounds : List Round) {z : List Int} {s : Nat} {rest : List Round}
    (h : qsPick x rounds = some (z, s, rest)) :
    ∃ rd ∈ rounds, z = qsZ x (x.getD rd.pivot 0) rd.ties ∧ s = (isum z).toNat ∧ 0 < s ∧
      s < x.length ∧ rest <:+ rounds := by
  induction rounds with
  | nil => simp [qsPick] at h
  | cons rd rds ih =>
    simp only [qsPick] at h
    split at h
    · rename_i hc
      simp only [Option.some.injEq, Prod.mk.injEq] at h
      obtain ⟨rfl, rfl, rfl⟩ := h
      exact ⟨rd, List.mem_cons_self, rfl, rfl, hc.1, hc.2, List.suffix_cons _ _⟩
    · obtain ⟨rd', hmem, h1, h2, h3, h4, h5⟩ := ih h
      exact ⟨rd', List.mem_cons_of_mem _ hmem, h1, h2, h3, h4,
        h5.trans (List.suffix_cons _ _)⟩

/-! ### splitting `ks` -/

theorem filter_split {ks : List Nat} (hks : ks.Pairwise (· < ·)) (s : Nat) :
    ks.filter (· < s) ++ ks.filter (fun k => ¬ k < s) = ks := by
  induction ks with
  | nil => rfl
  | cons k ks ih =>
    rw [List.pairwise_cons] at hks
    by_cases hk : k < s
    · rw [List.filter_cons_of_pos (by simpa using hk), List.filter_cons_of_neg (by simpa using hk),
        List.cons_append, ih hks.2]
    · have h1 : ks.filter (· < s) = [] := by
        rw [List.filter_eq_nil_iff]; intro a ha; have := hks.1 a ha; simp; omega
      have h2 : ks.filter (fun k => ¬ k < s) = ks := by
        rw [List.filter_eq_self]; intro a ha; have := hks.1 a ha; simp; omega
      rw [List.filter_cons_of_neg (by simpa using hk), List.filter_cons_of_pos (by simpa using hk),
        h1, h2, List.nil_append]

theorem ksRight_pairwise {ks : List Nat} (hks : ks.Pairwise (· < ·)) (s : Nat) :
    ((ks.filter (fun k => ¬ k < s)).map (· - s)).Pairwise (· < ·) := by
  rw [List.pairwise_map]
  refine (hks.filter _).imp_of_mem ?_
  intro a b ha hb hab
  have ha' := (List.mem_filter.1 ha).2
  have hb' := (List.mem_filter.1 hb).2
  simp only [decide_eq_true_eq] at ha' hb'
  omega

theorem ksRight_lt {ks : List Nat} {n : Nat} (hk : ∀ k ∈ ks, k < n) (s : Nat) :
    ∀ k ∈ (ks.filter (fun k => ¬ k < s)).map (· - s), k < n - s := by
  intro k hk'
  rw [List.mem_map] at hk'
  obtain ⟨k0, hk0, rfl⟩ := hk'
  rw [List.mem_filter] at hk0
  have := hk k0 hk0.1
  have h2 := hk0.2
  simp only [decide_eq_true_eq] at h2
  omega

/-! ### E. main theorem -/

section
variable {x l r : List Int} (hperm : x.Perm (l ++ r)) (hle : ∀ a ∈ l, ∀ b ∈ r, a ≤ b)
include hperm hle

theorem left_map (ksL : List Nat) (hlt : ∀ k ∈ ksL, k < l.length) :
    ksL.map (fun k => (isort (rotR l)).getD k 0) = ksL.map (fun k => (isort x).getD k 0) := by
  apply List.map_congr_left
  intro k hk
  rw [isort_congr (rotR_perm l), isort_getD_left hperm hle (hlt k hk)]

theorem right_map (ksF : List Nat) (hge : ∀ k ∈ ksF, l.length ≤ k) :
    (ksF.map (· - l.length)).map (fun k => (isort (rotR r)).getD k 0)
      = ksF.map (fun k => (isort x).getD k 0) := by
  rw [List.map_map]
  apply List.map_congr_left
  intro k hk
  simp only [Function.comp_apply]
  rw [isort_congr (rotR_perm r), isort_getD_right hperm hle (hge k hk)]

end

theorem isort_singleton (a : Int) : isort [a] = [a] := rfl

/-- **`_quickselect` is correct**: for every fuel `≥ len(x)`, strictly increasing `ks` below `len(x)` and
every list of rounds whose tie-breaking vectors are at least as long as `x` (Python: exactly `len(x)`;
the model's `zipWith` truncates), a run that returns (does not run out of rounds) yields exactly
`[sorted(x)[k] for k in ks]`; the unused rounds are a suffix of the given ones. -/
theorem quickselect_spec (fuel : Nat) : ∀ (x : List Int) (ks : List Nat) (rounds : List Round),
    x.length ≤ fuel → ks.Pairwise (· < ·) → (∀ k ∈ ks, k < x.length) →
    (∀ rd ∈ rounds, x.length ≤ rd.ties.length) →
    ∀ {w : List Int} {rest : List Round}, quickselect fuel x ks rounds = .ok (w, rest) →
      w = ks.map (fun k => (isort x).getD k 0) ∧ rest <:+ rounds := by
  induction fuel with
  | zero => intro x ks rounds _ _ _ _ w rest h; simp [quickselect] at h
  | succ fuel ih =>
    intro x ks rounds hfuel hks hk hties w rest h
    simp only [quickselect] at h
    split at h
    · -- `len(ks) >= 3`: sort and pick
      simp only [Except.ok.injEq, Prod.mk.injEq] at h
      obtain ⟨rfl, rfl⟩ := h
      exact ⟨rfl, List.suffix_refl _⟩
    · split at h
      · -- `not ks`
        rename_i hempty
        simp only [Except.ok.injEq, Prod.mk.injEq] at h
        obtain ⟨rfl, rfl⟩ := h
        rw [List.isEmpty_iff] at hempty
        subst hempty
        exact ⟨rfl, List.suffix_refl _⟩
      · rename_i hne
        split at h
        · -- `n == 1`
          rename_i hn
          simp only [Except.ok.injEq, Prod.mk.injEq] at h
          obtain ⟨rfl, rfl⟩ := h
          refine ⟨?_, List.suffix_refl _⟩
          match x, hn with
          | [a], _ =>
            match ks, hne, hks, hk with
            | k :: ks', _, hks, hk =>
              have hk0 : k = 0 := by have := hk k List.mem_cons_self; simp at this; exact this
              have hks' : ks' = [] := by
                cases ks' with
                | nil => rfl
                | cons k' _ =>
                  have h1 := hk k' (by simp)
                  have h2 := (List.pairwise_cons.1 hks).1 k' List.mem_cons_self
                  simp at h1; omega
              subst hk0 hks'
              rfl
        · rename_i hn
          -- the pivot loop
          split at h
          · exact absurd h (by simp)
          · rename_i z s rounds' hq
            obtain ⟨rd, hrd, hz, hs, hspos, hsn, hsuf⟩ := qsPick_spec x rounds hq
            have h01 : ∀ a ∈ z, a = 0 ∨ a = 1 := by rw [hz]; exact qsZ_01 _ _ _
            have hzlen : z.length = x.length := by
              rw [hz, length_qsZ]; have := hties rd hrd; omega
            have hperm := perm_sel_compl z x h01 hzlen
            have hle : ∀ a ∈ sel z x, ∀ b ∈ sel (z.map (1 - ·)) x, a ≤ b := by
              intro a ha b hb
              rw [hz] at ha hb
              exact sel_qsZ_le_compl _ _ _ a ha b hb
            have hl : (sel z x).length = s := by
              have := length_sel z x h01 (by omega); omega
            have hr : (sel (z.map (1 - ·)) x).length = x.length - s := by
              have := hperm.length_eq; rw [List.length_append] at this; omega
            have hties' : ∀ rd ∈ rounds', x.length ≤ rd.ties.length :=
              fun rd hrd => hties rd (hsuf.subset hrd)
            by_cases hc : (ks.filter (· < s)).isEmpty = true
            · -- swap: all `ks ≥ s`, recurse on the complement only
              simp only [hc, if_true, List.isEmpty_nil] at h
              rw [← hr, compact_eq_rotR _ x (compl_01 h01) (by omega)] at h
              split at h
              · exact absurd h (by simp)
              · rename_i w1 rest1 hq1
                simp only [Except.ok.injEq, Prod.mk.injEq] at h
                obtain ⟨rfl, rfl⟩ := h
                rw [List.isEmpty_iff] at hc
                have hge : ∀ k ∈ ks, s ≤ k := by
                  intro k hk'
                  have := (List.filter_eq_nil_iff.1 hc) k hk'
                  simp only [decide_eq_true_eq] at this; omega
                have hfil : ks.filter (fun k => ¬ k < s) = ks := by
                  rw [List.filter_eq_self]; intro k hk'; have := hge k hk'; simp; omega
                rw [hfil] at hq1
                have hR := ksRight_pairwise hks s
                have hRlt := ksRight_lt hk s
                rw [hfil] at hR hRlt
                obtain ⟨e1, e2⟩ := ih _ _ rounds' (by rw [length_rotR, hr]; omega) hR
                  (by rw [length_rotR, hr]; exact hRlt)
                  (fun rd hrd => by rw [length_rotR, hr]; have := hties' rd hrd; omega) hq1
                refine ⟨?_, e2.trans hsuf⟩
                rw [e1, ← hl]
                exact right_map hperm hle ks (by rw [hl]; exact hge)
            · -- no swap
              simp only [hc, Bool.false_eq_true, if_false] at h
              rw [sub_schur, ← hr, compact_eq_rotR _ x (compl_01 h01) (by omega)] at h
              rw [← hl, compact_eq_rotR z x h01 (by omega), hl] at h
              split at h
              · exact absurd h (by simp)
              · rename_i w1 rest1 hq1
                have hLlt : ∀ k ∈ ks.filter (· < s), k < (sel z x).length := by
                  intro k hk'
                  have := (List.mem_filter.1 hk').2
                  simp only [decide_eq_true_eq] at this; omega
                obtain ⟨e1, e2⟩ := ih _ _ rounds' (by rw [length_rotR, hl]; omega) (hks.filter _)
                  (by rw [length_rotR]; exact hLlt)
                  (fun rd hrd => by rw [length_rotR, hl]; have := hties' rd hrd; omega) hq1
                rw [left_map hperm hle _ hLlt] at e1
                have hFge : ∀ k ∈ ks.filter (fun k => ¬ k < s), (sel z x).length ≤ k := by
                  intro k hk'
                  have := (List.mem_filter.1 hk').2
                  simp only [decide_eq_true_eq] at this; omega
                split at h
                · rename_i hRe
                  simp only [Except.ok.injEq, Prod.mk.injEq] at h
                  obtain ⟨rfl, rfl⟩ := h
                  refine ⟨?_, e2.trans hsuf⟩
                  rw [List.isEmpty_iff, List.map_eq_nil_iff] at hRe
                  have := filter_split hks s
                  rw [hRe, List.append_nil] at this
                  rw [e1, this]
                · split at h
                  · exact absurd h (by simp)
                  · rename_i w2 rest2 hq2
                    simp only [Except.ok.injEq, Prod.mk.injEq] at h
                    obtain ⟨rfl, rfl⟩ := h
                    obtain ⟨f1, f2⟩ := ih _ _ rest1 (by rw [length_rotR, hr]; omega)
                      (ksRight_pairwise hks s) (by rw [length_rotR, hr]; exact ksRight_lt hk s)
                      (fun rd hrd => by
                        rw [length_rotR, hr]; have := hties' rd (e2.subset hrd); omega) hq2
                    refine ⟨?_, f2.trans (e2.trans hsuf)⟩
                    have hrm := right_map hperm hle _ hFge
                    rw [hl] at hrm
                    rw [e1, f1, hrm, ← List.map_append, filter_split hks s]

/-- the form used by `median`/`quantiles`: fuel `len(x)` -/
theorem quickselect_spec' (x : List Int) (ks : List Nat) (rounds : List Round)
    (hks : ks.Pairwise (· < ·)) (hk : ∀ k ∈ ks, k < x.length)
    (hties : ∀ rd ∈ rounds, x.length ≤ rd.ties.length)
    {w : List Int} {rest : List Round} (h : quickselect x.length x ks rounds = .ok (w, rest)) :
    w = ks.map (fun k => (isort x).getD k 0) :=
  (quickselect_spec x.length x ks rounds (Nat.le_refl _) hks hk hties h).1

/-! ### sanity checks / non-vacuity -/

/-- decidable equality of results, for the concrete checks below only -/
@[instance_reducible] private def decEqExcept {ε α : Type} [DecidableEq ε] [DecidableEq α] : DecidableEq (Except ε α)
  | .ok a, .ok b => if h : a = b then isTrue (by rw [h]) else isFalse (fun h' => h (Except.ok.inj h'))
  | .error a, .error b =>
    if h : a = b then isTrue (by rw [h]) else isFalse (fun h' => h (Except.error.inj h'))
  | .ok _, .error _ => isFalse (fun h => by cases h)
  | .error _, .ok _ => isFalse (fun h => by cases h)

attribute [local instance] decEqExcept

/-- pivot `x[0] = 5` with ties all true: `z = [1,1,0,1]`, `s = 3`, `w_left = [1,5,3]`, `w_right = [8]`, … -/
example : quickselect 4 [5, 3, 8, 1] [1, 2]
    [⟨0, [true, true, true, true]⟩, ⟨2, [false, false, false, false]⟩, ⟨0, [false, false, false, false]⟩,
     ⟨1, [true, true, true, true]⟩, ⟨0, [true, true, true, true]⟩]
    = .ok ([3, 5], []) := by decide

example : [3, 5] = [1, 2].map (fun k => (isort [5, 3, 8, 1]).getD k 0) :=
  (quickselect_spec 4 [5, 3, 8, 1] [1, 2]
    [⟨0, [true, true, true, true]⟩, ⟨2, [false, false, false, false]⟩, ⟨0, [false, false, false, false]⟩,
     ⟨1, [true, true, true, true]⟩, ⟨0, [true, true, true, true]⟩]
    (by decide) (by decide) (by decide) (by decide) (w := [3, 5]) (rest := [])
    (by decide)).1

/-- duplicates, ties broken by `y`; two unused rounds are returned -/
example : quickselect 6 [4, 9, 4, 1, 7, 4] [2, 3]
    (List.replicate 6 ⟨0, [true, false, true, false, true, false]⟩)
    = .ok ([4, 4], List.replicate 2 ⟨0, [true, false, true, false, true, false]⟩) := by decide

/-- the swap branch (`ks_left` empty) -/
example : quickselect 4 [5, 3, 8, 1] [3] [⟨1, [false, false, false, false]⟩, ⟨0, [true, true, true, true]⟩,
    ⟨0, [false, false, false, false]⟩] = .ok ([8], []) := by decide

/-- a round with `s = 0` is skipped (pivot = minimum, no ties broken downwards) -/
example : quickselect 3 [2, 2, 7] [0] [⟨0, [false, false, false]⟩, ⟨2, [true, true, true]⟩,
    ⟨0, [true, false]⟩] = .ok ([2], []) := by decide

/-- `len(ks) >= 3`: sort and pick, no rounds used -/
example : quickselect 6 [4, 9, 4, 1, 7, 4] [0, 2, 5] [] = .ok ([1, 4, 9], []) := by decide

/-- the hypothesis on the ties length is needed: with a too short `ties` the model's `zipWith` truncates `z`
and the result is wrong (Python always draws `len(x)` bits, so this cannot happen there) -/
example : quickselect 4 [5, 3, 8, 1] [0] [⟨0, [true]⟩] = .ok ([5], []) := by decide
example : (isort [5, 3, 8, 1]).getD 0 0 = 1 := by decide

end MpycV.Stats
