import MpycV.Model.Groups
import Mathlib.Tactic.Ring
import Mathlib.Tactic.FieldSimp
import Mathlib.Tactic.LinearCombination
import Mathlib.Algebra.Field.Basic

namespace MpycV.Groups

/-- the field record of a Mathlib field -/
def Fld.ofField (K : Type) [Field K] [DecidableEq K] : Fld K :=
  { add := (· + ·), sub := (· - ·), mul := (· * ·), neg := Neg.neg, inv := Inv.inv,
    ofNat := fun n => (n : K), beq := fun a b => decide (a = b) }

variable {K : Type} [Field K] [DecidableEq K]

@[simp] theorem ofField_add (a b : K) : (Fld.ofField K).add a b = a + b := rfl
@[simp] theorem ofField_sub (a b : K) : (Fld.ofField K).sub a b = a - b := rfl
@[simp] theorem ofField_mul (a b : K) : (Fld.ofField K).mul a b = a * b := rfl
@[simp] theorem ofField_neg (a : K) : (Fld.ofField K).neg a = -a := rfl
@[simp] theorem ofField_inv (a : K) : (Fld.ofField K).inv a = a⁻¹ := rfl
@[simp] theorem ofField_ofNat (n : Nat) : (Fld.ofField K).ofNat n = (n : K) := rfl
@[simp] theorem ofField_beq (a b : K) : (Fld.ofField K).beq a b = decide (a = b) := rfl
@[simp] theorem ofField_add (a b : K) : (Fld.ofField K).add a b = a + b := rfl
@[simp] theorem ofField_sub (a b : K) : (Fld.ofField K).sub a b = a - b := rfl
@[simp] theorem ofField_mul (a b : K) : (Fld.ofField K).mul a b = a * b := rfl
@[simp] theorem ofField_neg (a : K) : (Fld.ofField K).neg a = -a := rfl
@[simp] theorem ofField_inv (a : K) : (Fld.ofField K).inv a = a⁻¹ := rfl
@[simp] theorem ofField_ofNat (n : Nat) : (Fld.ofField K).ofNat n = (n : K) := rfl
@[simp] theorem ofField_beq (a b : K) : (Fld.ofField K).beq a b = decide (a = b) := rfl

/-- `A * D1⁻¹ = B * D2⁻¹` from the cross-multiplied polynomial identity -/
theorem mul_inv_eq_mul_inv {A B D1 D2 : K} (h1 : D1 ≠ 0) (h2 : D2 ≠ 0) (h : A * D2 = B * D1) :
    A * D1⁻¹ = B * D2⁻¹ := by
  rw [← div_eq_mul_inv, ← div_eq_mul_inv, div_eq_div_iff h1 h2]; exact h

/-! ## Edwards curves -/

/-- textbook (twisted) Edwards addition law -/
def edAddSpec (a d : K) (P Q : K × K) : K × K :=
  ((P.1 * Q.2 + Q.1 * P.2) / (1 + d * P.1 * Q.1 * P.2 * Q.2),
   (P.2 * Q.2 - a * P.1 * Q.1) / (1 - d * P.1 * Q.1 * P.2 * Q.2))

/-- the guard of `EdwardsAffine.operation`: `1 - E**2` with `E = d*C*D` -/
def edDen (d : K) (P Q : K × K) : K := 1 - (d * (P.1 * Q.1) * (P.2 * Q.2)) ^ 2

theorem eaAdd_none (a d : K) (P Q : K × K) (h : edDen d P Q = 0) :
    eaAdd? (Fld.ofField K) a d P Q = none := by
  obtain ⟨x1, y1⟩ := P; obtain ⟨x2, y2⟩ := Q
  have h' : 1 - d * (x1 * x2) * (y1 * y2) * (d * (x1 * x2) * (y1 * y2)) = 0 := by
    rw [← pow_two]; exact h
  simp [eaAdd?, h']

/-- Edwards affine addition (mmadd-2007-bl as coded) is the textbook law whenever it does not raise -/
theorem eaAdd_textbook (a d : K) (P Q : K × K) (h : edDen d P Q ≠ 0) :
    eaAdd? (Fld.ofField K) a d P Q = some (edAddSpec a d P Q) := by
  obtain ⟨x1, y1⟩ := P; obtain ⟨x2, y2⟩ := Q
  simp only [edDen] at h
  have h' : 1 - d * (x1 * x2) * (y1 * y2) * (d * (x1 * x2) * (y1 * y2)) ≠ 0 := by
    rw [← pow_two]; exact h
  have hp : 1 + d * x1 * x2 * y1 * y2 ≠ 0 := by
    intro e; apply h; linear_combination (1 - d * x1 * x2 * y1 * y2) * e
  have hm : 1 - d * x1 * x2 * y1 * y2 ≠ 0 := by
    intro e; apply h; linear_combination (1 + d * x1 * x2 * y1 * y2) * e
  simp only [eaAdd?, edAddSpec, ofField_add, ofField_sub, ofField_mul, ofField_inv, ofField_ofNat,
    ofField_beq, Nat.cast_one, Nat.cast_zero, decide_eq_true_eq, h', if_false, Option.some.injEq,
    Prod.mk.injEq]
  have hi := mul_inv_cancel₀ h'
  generalize (1 - d * (x1 * x2) * (y1 * y2) * (d * (x1 * x2) * (y1 * y2)))⁻¹ = i at hi
  constructor
  · rw [eq_div_iff hp]; linear_combination (x1 * y2 + x2 * y1) * hi
  · rw [eq_div_iff hm]; linear_combination (y1 * y2 - a * x1 * x2) * hi

theorem edDen_comm (d : K) (P Q : K × K) : edDen d P Q = edDen d Q P := by
  simp only [edDen]; ring

theorem edAddSpec_comm (a d : K) (P Q : K × K) : edAddSpec a d P Q = edAddSpec a d Q P := by
  simp only [edAddSpec, Prod.mk.injEq]
  constructor <;> ring_nf

/-- commutativity of `EdwardsAffine.operation` (including when it raises) -/
theorem eaAdd_comm (a d : K) (P Q : K × K) :
    eaAdd? (Fld.ofField K) a d P Q = eaAdd? (Fld.ofField K) a d Q P := by
  by_cases h : edDen d P Q = 0
  · rw [eaAdd_none a d P Q h, eaAdd_none a d Q P (by rw [edDen_comm]; exact h)]
  · rw [eaAdd_textbook a d P Q h, eaAdd_textbook a d Q P (by rw [edDen_comm]; exact h),
      edAddSpec_comm]

/-- (0, 1) is the identity of `EdwardsAffine.operation` -/
theorem eaAdd_id_right (a d : K) (P : K × K) : eaAdd? (Fld.ofField K) a d P (0, 1) = some P := by
  rw [eaAdd_textbook a d P (0, 1) (by simp [edDen])]
  simp [edAddSpec]

theorem eaAdd_id_left (a d : K) (P : K × K) : eaAdd? (Fld.ofField K) a d (0, 1) P = some P := by
  rw [eaAdd_comm, eaAdd_id_right]

/-- curve equation a x² + y² = 1 + d x² y² -/
def EdOn (a d : K) (P : K × K) : Prop := a * P.1 ^ 2 + P.2 ^ 2 = 1 + d * P.1 ^ 2 * P.2 ^ 2

/-- the on-curve check of the constructor is the curve equation (when it does not raise) -/
theorem edOnCurve_iff (a d : K) (P : K × K) (h : 1 - d * (P.1 * P.1) ≠ 0) :
    edOnCurve? (Fld.ofField K) a d P = some (decide (EdOn a d P)) := by
  obtain ⟨x, y⟩ := P
  simp only [edOnCurve?, edYsquared?, Fld.div?, ofField_add, ofField_sub, ofField_mul, ofField_inv,
    ofField_ofNat, ofField_beq, Nat.cast_one, Nat.cast_zero, decide_eq_true_eq, h, if_false,
    Option.map_some, Option.some.injEq, EdOn]
  congr 1
  rw [← div_eq_mul_inv, eq_div_iff h, eq_iff_iff]
  constructor <;> intro e <;> linear_combination e

/-- `inversion` gives the inverse: P + (-P) = (0, 1) for P on the curve -/
theorem eaAdd_neg (a d : K) (P : K × K) (hP : EdOn a d P)
    (h : edDen d P (eaNeg (Fld.ofField K) P) ≠ 0) :
    eaAdd? (Fld.ofField K) a d P (eaNeg (Fld.ofField K) P) = some (0, 1) := by
  rw [eaAdd_textbook a d P _ h]
  obtain ⟨x, y⟩ := P
  simp only [EdOn] at hP
  simp only [edDen, eaNeg, ofField_neg] at h
  have hm : 1 - d * x * (-x) * y * y ≠ 0 := by
    intro e; apply h; linear_combination (1 + d * x * (-x) * y * y) * e
  simp only [edAddSpec, eaNeg, ofField_neg, Option.some.injEq, Prod.mk.injEq]
  constructor
  · have : x * y + -x * y = 0 := by ring
    rw [this, zero_div]
  · rw [div_eq_iff hm]; linear_combination hP

/-- closure: the sum of two points on the curve is on the curve -/
theorem edAddSpec_closed (a d : K) (P Q : K × K) (hP : EdOn a d P) (hQ : EdOn a d Q)
    (h : edDen d P Q ≠ 0) : EdOn a d (edAddSpec a d P Q) := by
  obtain ⟨x1, y1⟩ := P; obtain ⟨x2, y2⟩ := Q
  simp only [EdOn] at hP hQ ⊢
  simp only [edDen] at h
  have hp : 1 + d * x1 * x2 * y1 * y2 ≠ 0 := by
    intro e; apply h; linear_combination (1 - d * x1 * x2 * y1 * y2) * e
  have hm : 1 - d * x1 * x2 * y1 * y2 ≠ 0 := by
    intro e; apply h; linear_combination (1 + d * x1 * x2 * y1 * y2) * e
  simp only [edAddSpec]
  rw [div_pow, div_pow]
  field_simp
  linear_combination
    (-a^2*d*x1^2*x2^4*y2^2 - 2*a^2*x2^4*y2^2 + a^2*x2^4 + a*d^2*x1^2*x2^4*y2^4 - a*d*x1^2*x2^2*y2^4 - a*d*x2^4*y1^2*y2^2 + 2*a*d*x2^4*y2^4 - 2*a*x2^2*y2^4 + 4*a*x2^2*y2^2 + d^3*x1^2*x2^4*y1^2*y2^4 + d^2*x2^4*y1^2*y2^4 - d^2*x2^4*y2^4 - d*x2^2*y1^2*y2^4 - 2*d*x2^2*y2^2 + y2^4) * hP
    + (a^2*d*x1^4*x2^2*y2^2 + 2*a^2*x1^2*x2^2*y2^2 - a^2*x1^2*x2^2 - 2*a*d*x1^2*x2^2*y2^2 - a*x1^2*y2^2 + 2*a*x2^2*y1^2*y2^2 - a*x2^2*y1^2 - 2*a*x2^2*y2^2 + a*x2^2 + d*x2^2*y1^4*y2^2 - 2*d*x2^2*y1^2*y2^2 + d*x2^2*y2^2 - y1^2*y2^2 + y2^2 + 1) * hQ

end MpycV.Groups
