import MpycV.Model.Groups
import Mathlib.Tactic.Ring
import Mathlib.Tactic.FieldSimp
import Mathlib.Tactic.LinearCombination
import Mathlib.Algebra.Field.Basic

namespace MpycV.Groups

/-- the field record of a Mathlib field -/
def Fld.ofField (K : Type) [Field K] [DecidableEq K] : Fld K :=
  { add := (· + ·), sub := (· - ·), mul := (· * ·), neg := Neg.neg, inv := Inv.inv,
    ofNat := fun n => (n : K), beq := fun a b => decide (a = b) }

variable {K : Type} [Field K] [DecidableEq K]
set_option linter.unusedSectionVars false

@[simp] theorem ofField_add (a b : K) : (Fld.ofField K).add a b = a + b := rfl
@[simp] theorem ofField_sub (a b : K) : (Fld.ofField K).sub a b = a - b := rfl
@[simp] theorem ofField_mul (a b : K) : (Fld.ofField K).mul a b = a * b := rfl
@[simp] theorem ofField_neg (a : K) : (Fld.ofField K).neg a = -a := rfl
@[simp] theorem ofField_inv (a : K) : (Fld.ofField K).inv a = a⁻¹ := rfl
@[simp] theorem ofField_ofNat (n : Nat) : (Fld.ofField K).ofNat n = (n : K) := rfl
@[simp] theorem ofField_beq (a b : K) : (Fld.ofField K).beq a b = decide (a = b) := rfl

/-- `A * D1⁻¹ = B * D2⁻¹` from the cross-multiplied polynomial identity -/
theorem mul_inv_eq_mul_inv {A B D1 D2 : K} (h1 : D1 ≠ 0) (h2 : D2 ≠ 0) (h : A * D2 = B * D1) :
    A * D1⁻¹ = B * D2⁻¹ := by
  rw [← div_eq_mul_inv, ← div_eq_mul_inv, div_eq_div_iff h1 h2]; exact h

/-! ## Edwards curves -/

/-- textbook (twisted) Edwards addition law -/
def edAddSpec (a d : K) (P Q : K × K) : K × K :=
  ((P.1 * Q.2 + Q.1 * P.2) / (1 + d * P.1 * Q.1 * P.2 * Q.2),
   (P.2 * Q.2 - a * P.1 * Q.1) / (1 - d * P.1 * Q.1 * P.2 * Q.2))

/-- the guard of `EdwardsAffine.operation`: `1 - E**2` with `E = d*C*D` -/
def edDen (d : K) (P Q : K × K) : K := 1 - (d * (P.1 * Q.1) * (P.2 * Q.2)) ^ 2

theorem eaAdd_none (a d : K) (P Q : K × K) (h : edDen d P Q = 0) :
    eaAdd? (Fld.ofField K) a d P Q = none := by
  obtain ⟨x1, y1⟩ := P; obtain ⟨x2, y2⟩ := Q
  have h' : 1 - d * (x1 * x2) * (y1 * y2) * (d * (x1 * x2) * (y1 * y2)) = 0 := by
    rw [← pow_two]; exact h
  simp [eaAdd?, h']

/-- Edwards affine addition (mmadd-2007-bl as coded) is the textbook law whenever it does not raise -/
theorem eaAdd_textbook (a d : K) (P Q : K × K) (h : edDen d P Q ≠ 0) :
    eaAdd? (Fld.ofField K) a d P Q = some (edAddSpec a d P Q) := by
  obtain ⟨x1, y1⟩ := P; obtain ⟨x2, y2⟩ := Q
  simp only [edDen] at h
  have h' : 1 - d * (x1 * x2) * (y1 * y2) * (d * (x1 * x2) * (y1 * y2)) ≠ 0 := by
    rw [← pow_two]; exact h
  have hp : 1 + d * x1 * x2 * y1 * y2 ≠ 0 := by
    intro e; apply h; linear_combination (1 - d * x1 * x2 * y1 * y2) * e
  have hm : 1 - d * x1 * x2 * y1 * y2 ≠ 0 := by
    intro e; apply h; linear_combination (1 + d * x1 * x2 * y1 * y2) * e
  simp only [eaAdd?, edAddSpec, ofField_add, ofField_sub, ofField_mul, ofField_inv, ofField_ofNat,
    ofField_beq, Nat.cast_one, Nat.cast_zero, decide_eq_true_eq, h', if_false, Option.some.injEq,
    Prod.mk.injEq]
  have hi := mul_inv_cancel₀ h'
  generalize (1 - d * (x1 * x2) * (y1 * y2) * (d * (x1 * x2) * (y1 * y2)))⁻¹ = i at hi
  constructor
  · rw [eq_div_iff hp]; linear_combination (x1 * y2 + x2 * y1) * hi
  · rw [eq_div_iff hm]; linear_combination (y1 * y2 - a * x1 * x2) * hi

theorem edDen_comm (d : K) (P Q : K × K) : edDen d P Q = edDen d Q P := by
  simp only [edDen]; ring

theorem edAddSpec_comm (a d : K) (P Q : K × K) : edAddSpec a d P Q = edAddSpec a d Q P := by
  simp only [edAddSpec, Prod.mk.injEq]
  constructor <;> ring_nf

/-- commutativity of `EdwardsAffine.operation` (including when it raises) -/
theorem eaAdd_comm (a d : K) (P Q : K × K) :
    eaAdd? (Fld.ofField K) a d P Q = eaAdd? (Fld.ofField K) a d Q P := by
  by_cases h : edDen d P Q = 0
  · rw [eaAdd_none a d P Q h, eaAdd_none a d Q P (by rw [edDen_comm]; exact h)]
  · rw [eaAdd_textbook a d P Q h, eaAdd_textbook a d Q P (by rw [edDen_comm]; exact h),
      edAddSpec_comm]

/-- (0, 1) is the identity of `EdwardsAffine.operation` -/
theorem eaAdd_id_right (a d : K) (P : K × K) : eaAdd? (Fld.ofField K) a d P (0, 1) = some P := by
  rw [eaAdd_textbook a d P (0, 1) (by simp [edDen])]
  simp [edAddSpec]

theorem eaAdd_id_left (a d : K) (P : K × K) : eaAdd? (Fld.ofField K) a d (0, 1) P = some P := by
  rw [eaAdd_comm, eaAdd_id_right]

/-- curve equation a x² + y² = 1 + d x² y² -/
def EdOn (a d : K) (P : K × K) : Prop := a * P.1 ^ 2 + P.2 ^ 2 = 1 + d * P.1 ^ 2 * P.2 ^ 2

instance (a d : K) (P : K × K) : Decidable (EdOn a d P) := by unfold EdOn; infer_instance

/-- the on-curve check of the constructor is the curve equation (when it does not raise) -/
theorem edOnCurve_iff (a d : K) (P : K × K) (h : 1 - d * (P.1 * P.1) ≠ 0) :
    edOnCurve? (Fld.ofField K) a d P = some (decide (EdOn a d P)) := by
  obtain ⟨x, y⟩ := P
  simp only [edOnCurve?, edYsquared?, Fld.div?, ofField_add, ofField_sub, ofField_mul, ofField_inv,
    ofField_ofNat, ofField_beq, Nat.cast_one, Nat.cast_zero, decide_eq_true_eq, h, if_false,
    Option.map_some, Option.some.injEq, EdOn]
  congr 1
  rw [← div_eq_mul_inv, eq_div_iff h, eq_iff_iff]
  constructor <;> intro e <;> linear_combination e

/-- `inversion` gives the inverse: P + (-P) = (0, 1) for P on the curve -/
theorem eaAdd_neg (a d : K) (P : K × K) (hP : EdOn a d P)
    (h : edDen d P (eaNeg (Fld.ofField K) P) ≠ 0) :
    eaAdd? (Fld.ofField K) a d P (eaNeg (Fld.ofField K) P) = some (0, 1) := by
  rw [eaAdd_textbook a d P _ h]
  obtain ⟨x, y⟩ := P
  simp only [EdOn] at hP
  simp only [edDen, eaNeg, ofField_neg] at h
  have hm : 1 - d * x * (-x) * y * y ≠ 0 := by
    intro e; apply h; linear_combination (1 + d * x * (-x) * y * y) * e
  simp only [edAddSpec, eaNeg, ofField_neg, Option.some.injEq, Prod.mk.injEq]
  constructor
  · have : x * y + -x * y = 0 := by ring
    rw [this, zero_div]
  · rw [div_eq_iff hm]; linear_combination hP

/-- closure: the sum of two points on the curve is on the curve -/
theorem edAddSpec_closed (a d : K) (P Q : K × K) (hP : EdOn a d P) (hQ : EdOn a d Q)
    (h : edDen d P Q ≠ 0) : EdOn a d (edAddSpec a d P Q) := by
  obtain ⟨x1, y1⟩ := P; obtain ⟨x2, y2⟩ := Q
  simp only [EdOn] at hP hQ ⊢
  simp only [edDen] at h
  have hp : 1 + d * x1 * x2 * y1 * y2 ≠ 0 := by
    intro e; apply h; linear_combination (1 - d * x1 * x2 * y1 * y2) * e
  have hm : 1 - d * x1 * x2 * y1 * y2 ≠ 0 := by
    intro e; apply h; linear_combination (1 + d * x1 * x2 * y1 * y2) * e
  simp only [edAddSpec, div_eq_mul_inv]
  have hu := mul_inv_cancel₀ hp
  have hv := mul_inv_cancel₀ hm
  generalize (1 + d * x1 * x2 * y1 * y2)⁻¹ = u at hu
  generalize (1 - d * x1 * x2 * y1 * y2)⁻¹ = v at hv
  linear_combination
    u^2*v^2*(-a^2*d*x1^2*x2^4*y2^2 - 2*a^2*x2^4*y2^2 + a^2*x2^4 + a*d^2*x1^2*x2^4*y2^4 - a*d*x1^2*x2^2*y2^4 - a*d*x2^4*y1^2*y2^2 + 2*a*d*x2^4*y2^4 - 2*a*x2^2*y2^4 + 4*a*x2^2*y2^2 + d^3*x1^2*x2^4*y1^2*y2^4 + d^2*x2^4*y1^2*y2^4 - d^2*x2^4*y2^4 - d*x2^2*y1^2*y2^4 - 2*d*x2^2*y2^2 + y2^4) * hP
    + u^2*v^2*(a^2*d*x1^4*x2^2*y2^2 + 2*a^2*x1^2*x2^2*y2^2 - a^2*x1^2*x2^2 - 2*a*d*x1^2*x2^2*y2^2 - a*x1^2*y2^2 + 2*a*x2^2*y1^2*y2^2 - a*x2^2*y1^2 - 2*a*x2^2*y2^2 + a*x2^2 + d*x2^2*y1^4*y2^2 - 2*d*x2^2*y1^2*y2^2 + d*x2^2*y2^2 - y1^2*y2^2 + y2^2 + 1) * hQ
    + (-(y1 * y2 - a * x1 * x2)^2 * v^2 + 1) * ((1 + d * x1 * x2 * y1 * y2) * u + 1) * hu
    + (-a * (x1 * y2 + x2 * y1)^2 * u^2 + ((1 + d * x1 * x2 * y1 * y2) * u)^2) * ((1 - d * x1 * x2 * y1 * y2) * v + 1) * hv


/-! ### Edwards projective and extended coordinates normalise to the affine law -/

theorem edDen_ne_zero_iff (d : K) (P Q : K × K) :
    edDen d P Q ≠ 0 ↔ (1 + d * P.1 * Q.1 * P.2 * Q.2 ≠ 0 ∧ 1 - d * P.1 * Q.1 * P.2 * Q.2 ≠ 0) := by
  have : edDen d P Q = (1 + d * P.1 * Q.1 * P.2 * Q.2) * (1 - d * P.1 * Q.1 * P.2 * Q.2) := by
    simp only [edDen]; ring
  rw [this, mul_ne_zero_iff]

/-- embedding of an affine result into projective coordinates (z = 1) -/
def embP (P : K × K) : K × K × K := (P.1, P.2, 1)
/-- embedding of an affine result into extended coordinates (z = 1, t = x y) -/
def embE (P : K × K) : K × K × K × K := (P.1, P.2, 1, P.1 * P.2)

/-- `EdwardsProjective.operation` followed by `normalize` is `EdwardsAffine.operation` on the
    normalised inputs, for every projective representation (scale factors l, m ≠ 0) — including
    the cases where both raise ZeroDivisionError -/
theorem epAdd_affine (a d x1 y1 x2 y2 l m : K) (hl : l ≠ 0) (hm : m ≠ 0) :
    epNorm? (Fld.ofField K) (epAdd (Fld.ofField K) a d (x1 * l, y1 * l, l) (x2 * m, y2 * m, m)) =
      (eaAdd? (Fld.ofField K) a d (x1, y1) (x2, y2)).map embP := by
  have hZ : (l * m * (l * m) - d * (x1 * l * (x2 * m)) * (y1 * l * (y2 * m))) *
      (l * m * (l * m) + d * (x1 * l * (x2 * m)) * (y1 * l * (y2 * m))) =
      (l * m) ^ 4 * edDen d (x1, y1) (x2, y2) := by simp only [edDen]; ring
  have hlm : (l * m) ^ 4 ≠ 0 := pow_ne_zero _ (mul_ne_zero hl hm)
  by_cases h : edDen d (x1, y1) (x2, y2) = 0
  · rw [eaAdd_none a d _ _ h]
    simp only [epAdd, epNorm?, ofField_add, ofField_sub, ofField_mul, ofField_ofNat, ofField_beq,
      Nat.cast_zero, hZ, h, mul_zero, decide_true, if_true, Option.map_none]
  · rw [eaAdd_textbook a d _ _ h]
    have hZ' := hZ ▸ mul_ne_zero hlm h
    obtain ⟨hp, hn⟩ := (edDen_ne_zero_iff d _ _).1 h
    simp only [epAdd, epNorm?, edAddSpec, embP, ofField_add, ofField_sub, ofField_mul, ofField_inv,
      ofField_ofNat, ofField_beq, Nat.cast_zero, Nat.cast_one, decide_eq_true_eq, hZ', if_false,
      Option.map_some, Option.some.injEq, Prod.mk.injEq, and_true]
    constructor
    · rw [← div_eq_mul_inv, div_eq_div_iff hZ' hp]; ring
    · rw [← div_eq_mul_inv, div_eq_div_iff hZ' hn]; ring

theorem epNeg_affine (x y l : K) :
    epNeg (Fld.ofField K) (x * l, y * l, l) = ((eaNeg (Fld.ofField K) (x, y)).1 * l,
      (eaNeg (Fld.ofField K) (x, y)).2 * l, l) := by
  simp [epNeg, eaNeg]

/-- `EdwardsProjective.equality` decides equality of the represented affine points -/
theorem epEq_affine (x1 y1 x2 y2 l m : K) (hl : l ≠ 0) (hm : m ≠ 0) :
    epEq (Fld.ofField K) (x1 * l, y1 * l, l) (x2 * m, y2 * m, m) =
      eaEq (Fld.ofField K) (x1, y1) (x2, y2) := by
  simp only [epEq, eaEq, ofField_mul, ofField_beq]
  have e1 : x1 * l * m = x2 * m * l ↔ x1 = x2 := by
    constructor
    · intro e
      have : (x1 - x2) * (l * m) = 0 := by linear_combination e
      rcases mul_eq_zero.1 this with h | h
      · exact sub_eq_zero.1 h
      · exact absurd h (mul_ne_zero hl hm)
    · intro e; rw [e]; ring
  have e2 : y1 * l * m = y2 * m * l ↔ y1 = y2 := by
    constructor
    · intro e
      have : (y1 - y2) * (l * m) = 0 := by linear_combination e
      rcases mul_eq_zero.1 this with h | h
      · exact sub_eq_zero.1 h
      · exact absurd h (mul_ne_zero hl hm)
    · intro e; rw [e]; ring
  simp only [e1, e2]

/-- extended coordinates, a = -1 branch (Hisil et al. 4.2): normalises to the affine law with a = -1 -/
theorem eeAddM1_affine (d x1 y1 x2 y2 l m : K) (hl : l ≠ 0) (hm : m ≠ 0) (h2 : (2 : K) ≠ 0) :
    eeNorm? (Fld.ofField K) (eeAddM1 (Fld.ofField K) d (x1 * l, y1 * l, l, x1 * y1 * l)
        (x2 * m, y2 * m, m, x2 * y2 * m)) =
      (eaAdd? (Fld.ofField K) (-1) d (x1, y1) (x2, y2)).map embE := by
  have hZ : (2 * l * m - 2 * d * (x1 * y1 * l) * (x2 * y2 * m)) *
      (2 * l * m + 2 * d * (x1 * y1 * l) * (x2 * y2 * m)) =
      4 * (l * m) ^ 2 * edDen d (x1, y1) (x2, y2) := by simp only [edDen]; ring
  have hlm : 4 * (l * m) ^ 2 ≠ 0 :=
    mul_ne_zero (by intro e; apply h2; have : (2:K) * 2 = 0 := by linear_combination e
                    exact (mul_self_eq_zero.1 this)) (pow_ne_zero _ (mul_ne_zero hl hm))
  by_cases h : edDen d (x1, y1) (x2, y2) = 0
  · rw [eaAdd_none _ d _ _ h]
    simp only [eeAddM1, eeNorm?, ofField_add, ofField_sub, ofField_mul, ofField_ofNat, ofField_beq,
      Nat.cast_zero, Nat.cast_ofNat, hZ, h, mul_zero, decide_true, if_true, Option.map_none]
  · rw [eaAdd_textbook _ d _ _ h]
    have hZ' := hZ ▸ mul_ne_zero hlm h
    obtain ⟨hp, hn⟩ := (edDen_ne_zero_iff d _ _).1 h
    simp only [eeAddM1, eeNorm?, edAddSpec, embE, ofField_add, ofField_sub, ofField_mul,
      ofField_inv, ofField_ofNat, ofField_beq, Nat.cast_zero, Nat.cast_one, Nat.cast_ofNat,
      decide_eq_true_eq, hZ', if_false, Option.map_some, Option.some.injEq, Prod.mk.injEq, true_and]
    have ex : (y1 * l + x1 * l) * (y2 * m + x2 * m) - (y1 * l - x1 * l) * (y2 * m - x2 * m) =
        2 * (l * m) * (x1 * y2 + x2 * y1) := by ring
    have hx : ((y1 * l + x1 * l) * (y2 * m + x2 * m) - (y1 * l - x1 * l) * (y2 * m - x2 * m)) *
          (2 * l * m - 2 * d * (x1 * y1 * l) * (x2 * y2 * m)) *
        ((2 * l * m - 2 * d * (x1 * y1 * l) * (x2 * y2 * m)) *
          (2 * l * m + 2 * d * (x1 * y1 * l) * (x2 * y2 * m)))⁻¹ =
        (x1 * y2 + x2 * y1) / (1 + d * x1 * x2 * y1 * y2) := by
      rw [← div_eq_mul_inv, div_eq_div_iff hZ' hp]; ring
    have hy : (2 * l * m + 2 * d * (x1 * y1 * l) * (x2 * y2 * m)) *
          ((y1 * l + x1 * l) * (y2 * m + x2 * m) + (y1 * l - x1 * l) * (y2 * m - x2 * m)) *
        ((2 * l * m - 2 * d * (x1 * y1 * l) * (x2 * y2 * m)) *
          (2 * l * m + 2 * d * (x1 * y1 * l) * (x2 * y2 * m)))⁻¹ =
        (y1 * y2 - -1 * x1 * x2) / (1 - d * x1 * x2 * y1 * y2) := by
      rw [← div_eq_mul_inv, div_eq_div_iff hZ' hn]; ring
    refine ⟨hx, hy, ?_⟩
    rw [hx, hy]

/-- extended coordinates, general-a branch (unified addition, Hisil et al. 3.1) -/
theorem eeAddGen_affine (a d x1 y1 x2 y2 l m : K) (hl : l ≠ 0) (hm : m ≠ 0) :
    eeNorm? (Fld.ofField K) (eeAddGen (Fld.ofField K) a d (x1 * l, y1 * l, l, x1 * y1 * l)
        (x2 * m, y2 * m, m, x2 * y2 * m)) =
      (eaAdd? (Fld.ofField K) a d (x1, y1) (x2, y2)).map embE := by
  have hZ : (l * m - d * (x1 * y1 * l) * (x2 * y2 * m)) *
      (l * m + d * (x1 * y1 * l) * (x2 * y2 * m)) =
      (l * m) ^ 2 * edDen d (x1, y1) (x2, y2) := by simp only [edDen]; ring
  have hlm : (l * m) ^ 2 ≠ 0 := pow_ne_zero _ (mul_ne_zero hl hm)
  by_cases h : edDen d (x1, y1) (x2, y2) = 0
  · rw [eaAdd_none _ d _ _ h]
    simp only [eeAddGen, eeNorm?, ofField_add, ofField_sub, ofField_mul, ofField_ofNat, ofField_beq,
      Nat.cast_zero, hZ, h, mul_zero, decide_true, if_true, Option.map_none]
  · rw [eaAdd_textbook _ d _ _ h]
    have hZ' := hZ ▸ mul_ne_zero hlm h
    obtain ⟨hp, hn⟩ := (edDen_ne_zero_iff d _ _).1 h
    simp only [eeAddGen, eeNorm?, edAddSpec, embE, ofField_add, ofField_sub, ofField_mul,
      ofField_inv, ofField_ofNat, ofField_beq, Nat.cast_zero, Nat.cast_one,
      decide_eq_true_eq, hZ', if_false, Option.map_some, Option.some.injEq, Prod.mk.injEq, true_and]
    have hx : ((x1 * l + y1 * l) * (x2 * m + y2 * m) - x1 * l * (x2 * m) - y1 * l * (y2 * m)) *
          (l * m - d * (x1 * y1 * l) * (x2 * y2 * m)) *
        ((l * m - d * (x1 * y1 * l) * (x2 * y2 * m)) *
          (l * m + d * (x1 * y1 * l) * (x2 * y2 * m)))⁻¹ =
        (x1 * y2 + x2 * y1) / (1 + d * x1 * x2 * y1 * y2) := by
      rw [← div_eq_mul_inv, div_eq_div_iff hZ' hp]; ring
    have hy : (l * m + d * (x1 * y1 * l) * (x2 * y2 * m)) *
          (y1 * l * (y2 * m) - a * (x1 * l * (x2 * m))) *
        ((l * m - d * (x1 * y1 * l) * (x2 * y2 * m)) *
          (l * m + d * (x1 * y1 * l) * (x2 * y2 * m)))⁻¹ =
        (y1 * y2 - a * x1 * x2) / (1 - d * x1 * x2 * y1 * y2) := by
      rw [← div_eq_mul_inv, div_eq_div_iff hZ' hn]; ring
    refine ⟨hx, hy, ?_⟩
    rw [hx, hy]

/-- `EdwardsExtended.operation` (both branches) normalises to `EdwardsAffine.operation` -/
theorem eeAdd_affine (a d x1 y1 x2 y2 l m : K) (hl : l ≠ 0) (hm : m ≠ 0) (h2 : (2 : K) ≠ 0) :
    eeNorm? (Fld.ofField K) (eeAdd (Fld.ofField K) a d (x1 * l, y1 * l, l, x1 * y1 * l)
        (x2 * m, y2 * m, m, x2 * y2 * m)) =
      (eaAdd? (Fld.ofField K) a d (x1, y1) (x2, y2)).map embE := by
  unfold eeAdd
  by_cases ha : a = -1
  · subst ha
    simp only [ofField_beq, ofField_neg, ofField_ofNat, Nat.cast_one, decide_true, if_true]
    exact eeAddM1_affine d x1 y1 x2 y2 l m hl hm h2
  · simp only [ofField_beq, ofField_neg, ofField_ofNat, Nat.cast_one, ha, decide_false,
      Bool.false_eq_true, if_false]
    exact eeAddGen_affine a d x1 y1 x2 y2 l m hl hm

/-- the dedicated doubling (a = -1) is the addition formula applied to (P, P) -/
theorem eeDblM1_eq_add (d : K) (P : K × K × K × K) :
    eeDblM1 (Fld.ofField K) d P = eeAddM1 (Fld.ofField K) d P P := by
  obtain ⟨x, y, z, t⟩ := P
  simp only [eeDblM1, eeAddM1, ofField_add, ofField_sub, ofField_mul, ofField_ofNat]
  refine Prod.ext ?_ (Prod.ext ?_ (Prod.ext ?_ ?_)) <;> dsimp only <;> ring

theorem eeDbl_eq_add (a d : K) (P : K × K × K × K) :
    eeDbl (Fld.ofField K) a d P = eeAdd (Fld.ofField K) a d P P := by
  unfold eeDbl eeAdd
  split
  · exact eeDblM1_eq_add d P
  · rfl

/-- the extended coordinate stays consistent: T3 * Z3 = X3 * Y3 (both branches) -/
theorem eeAdd_t_consistent (a d : K) (P Q : K × K × K × K) :
    let R := eeAdd (Fld.ofField K) a d P Q
    R.2.2.2 * R.2.2.1 = R.1 * R.2.1 := by
  obtain ⟨x1, y1, z1, t1⟩ := P; obtain ⟨x2, y2, z2, t2⟩ := Q
  simp only [eeAdd]
  split <;> simp only [eeAddM1, eeAddGen, ofField_mul] <;> ring


/-! ## Short Weierstrass curves -/

/-- projective/jacobian image of an affine result: identity ↦ (0, 1, 0), (x, y) ↦ (x, y, 1) -/
def embW : WAff K → K × K × K
  | none => (0, 1, 0)
  | some (x, y) => (x, y, 1)

/-- curve equation y² = x³ + a x + b -/
def WOn (a b : K) (P : K × K) : Prop := P.2 ^ 2 = P.1 ^ 3 + a * P.1 + b

/-- affine chord addition, the generic case x1 ≠ x2, in closed form -/
theorem waAdd_chord (a x1 y1 x2 y2 : K) (hx : x1 ≠ x2) :
    waAdd (Fld.ofField K) a (some (x1, y1)) (some (x2, y2)) =
      some (((y1 - y2) / (x1 - x2)) ^ 2 - x1 - x2,
            (y1 - y2) / (x1 - x2) * (x1 - (((y1 - y2) / (x1 - x2)) ^ 2 - x1 - x2)) - y1) := by
  simp only [waAdd, ofField_beq, ofField_sub, ofField_mul, ofField_inv, hx, decide_false,
    Bool.false_and, Bool.false_eq_true, if_false, div_eq_mul_inv, pow_two]

theorem waAdd_opposite (a x y1 y2 : K) (hy : y1 ≠ y2) :
    waAdd (Fld.ofField K) a (some (x, y1)) (some (x, y2)) = none := by
  simp [waAdd, hy]

theorem waAdd_same (a x y : K) :
    waAdd (Fld.ofField K) a (some (x, y)) (some (x, y)) = waDbl (Fld.ofField K) a (some (x, y)) := by
  simp [waAdd]

theorem waDbl_tangent (a x y : K) (hy : y ≠ 0) :
    waDbl (Fld.ofField K) a (some (x, y)) =
      some (((3 * x ^ 2 + a) / (2 * y)) ^ 2 - 2 * x,
            (3 * x ^ 2 + a) / (2 * y) * (x - (((3 * x ^ 2 + a) / (2 * y)) ^ 2 - 2 * x)) - y) := by
  simp only [waDbl, ofField_beq, ofField_add, ofField_sub, ofField_mul, ofField_inv, ofField_ofNat,
    Nat.cast_zero, Nat.cast_ofNat, hy, decide_false, Bool.false_eq_true, if_false, div_eq_mul_inv,
    pow_two]

theorem waDbl_two_torsion (a x : K) : waDbl (Fld.ofField K) a (some (x, 0)) = none := by
  simp [waDbl]

/-! ### Jacobian coordinates (x λ², y λ³, λ) -/

/-- `WeierstrassJacobian.operation` (add-2007-bl), generic case: normalises to the affine chord law -/
theorem wjAdd_affine (a x1 y1 x2 y2 l m : K) (hl : l ≠ 0) (hm : m ≠ 0) (h2 : (2 : K) ≠ 0)
    (hx : x1 ≠ x2) :
    wjNorm (Fld.ofField K) (wjAdd (Fld.ofField K) (x1 * l ^ 2, y1 * l ^ 3, l) (x2 * m ^ 2, y2 * m ^ 3, m)) =
      embW (waAdd (Fld.ofField K) a (some (x1, y1)) (some (x2, y2))) := by
  rw [waAdd_chord a x1 y1 x2 y2 hx]
  have hh : x2 * m ^ 2 * (l * l) - x1 * l ^ 2 * (m * m) ≠ 0 := by
    have : x2 * m ^ 2 * (l * l) - x1 * l ^ 2 * (m * m) = (x2 - x1) * (l * m) ^ 2 := by ring
    rw [this]
    exact mul_ne_zero (sub_ne_zero.2 (Ne.symm hx)) (pow_ne_zero _ (mul_ne_zero hl hm))
  have hz : ((l + m) * (l + m) - l * l - m * m) * (x2 * m ^ 2 * (l * l) - x1 * l ^ 2 * (m * m)) ≠ 0 := by
    have : (l + m) * (l + m) - l * l - m * m = 2 * (l * m) := by ring
    rw [this]
    exact mul_ne_zero (mul_ne_zero h2 (mul_ne_zero hl hm)) hh
  have hd : x1 - x2 ≠ 0 := sub_ne_zero.2 hx
  simp only [wjAdd, wjNorm, embW, ofField_add, ofField_sub, ofField_mul, ofField_inv, ofField_ofNat,
    ofField_beq, Nat.cast_zero, Nat.cast_one, Nat.cast_ofNat, hl, hm, hh, hz, decide_false,
    Bool.false_and, Bool.false_eq_true, if_false, Prod.mk.injEq, and_true]
  generalize hZ : ((l + m) * (l + m) - l * l - m * m) * (x2 * m ^ 2 * (l * l) - x1 * l ^ 2 * (m * m)) = Z at hz ⊢
  generalize hD : x1 - x2 = D at hd ⊢
  constructor
  · field_simp
    subst hZ hD
    ring
  · field_simp
    subst hZ hD
    ring


/-- same affine point: the Jacobian addition takes its doubling branch -/
theorem wjAdd_same (x y l m : K) (hl : l ≠ 0) (hm : m ≠ 0) :
    wjAdd (Fld.ofField K) (x * l ^ 2, y * l ^ 3, l) (x * m ^ 2, y * m ^ 3, m) =
      wjDbl (Fld.ofField K) (x * l ^ 2, y * l ^ 3, l) := by
  have h1 : x * m ^ 2 * (l * l) - x * l ^ 2 * (m * m) = 0 := by ring
  have h2 : (2 : K) * (y * m ^ 3 * l * (l * l) - y * l ^ 3 * m * (m * m)) = 0 := by ring
  simp only [wjAdd, ofField_sub, ofField_mul, ofField_ofNat, ofField_beq, Nat.cast_zero,
    Nat.cast_ofNat, hl, hm, h1, h2, decide_false, decide_true, Bool.and_self, Bool.false_eq_true,
    if_false, if_true]

/-- opposite points (same x, different y): the Jacobian sum normalises to the identity -/
theorem wjAdd_opposite (x y1 y2 l m : K) (hl : l ≠ 0) (hm : m ≠ 0) (h2 : (2 : K) ≠ 0)
    (hy : y1 ≠ y2) :
    wjNorm (Fld.ofField K) (wjAdd (Fld.ofField K) (x * l ^ 2, y1 * l ^ 3, l) (x * m ^ 2, y2 * m ^ 3, m)) =
      embW (none : WAff K) := by
  have h1 : x * m ^ 2 * (l * l) - x * l ^ 2 * (m * m) = 0 := by ring
  have hr : (2 : K) * (y2 * m ^ 3 * l * (l * l) - y1 * l ^ 3 * m * (m * m)) ≠ 0 := by
    have : (2 : K) * (y2 * m ^ 3 * l * (l * l) - y1 * l ^ 3 * m * (m * m)) =
        2 * ((y2 - y1) * (l * m) ^ 3) := by ring
    rw [this]
    exact mul_ne_zero h2 (mul_ne_zero (sub_ne_zero.2 (Ne.symm hy)) (pow_ne_zero _ (mul_ne_zero hl hm)))
  simp only [wjAdd, wjNorm, embW, ofField_add, ofField_sub, ofField_mul, ofField_ofNat, ofField_beq,
    Nat.cast_zero, Nat.cast_one, Nat.cast_ofNat, hl, hm, h1, hr, decide_false, decide_true,
    Bool.and_false, Bool.false_eq_true, if_false, mul_zero, if_true]

/-- `WeierstrassJacobian.operation2` (dbl-2009-l, a = 0): normalises to the affine tangent law -/
theorem wjDbl_affine (x y l : K) (hl : l ≠ 0) (h2 : (2 : K) ≠ 0) (hy : y ≠ 0) :
    wjNorm (Fld.ofField K) (wjDbl (Fld.ofField K) (x * l ^ 2, y * l ^ 3, l)) =
      embW (waDbl (Fld.ofField K) 0 (some (x, y))) := by
  rw [waDbl_tangent 0 x y hy]
  have hz : (2 : K) * (y * l ^ 3) * l ≠ 0 :=
    mul_ne_zero (mul_ne_zero h2 (mul_ne_zero hy (pow_ne_zero _ hl))) hl
  have hd : (2 : K) * y ≠ 0 := mul_ne_zero h2 hy
  simp only [wjDbl, wjNorm, embW, ofField_add, ofField_sub, ofField_mul, ofField_inv, ofField_ofNat,
    ofField_beq, Nat.cast_zero, Nat.cast_one, Nat.cast_ofNat, hz, decide_false,
    Bool.false_eq_true, if_false, Prod.mk.injEq, and_true, add_zero]
  generalize hZ : (2 : K) * (y * l ^ 3) * l = Z at hz ⊢
  generalize hD : (2 : K) * y = D at hd ⊢
  constructor
  · field_simp
    subst hZ hD
    ring
  · field_simp
    subst hZ hD
    ring

/-- doubling a point with y = 0 gives the identity in Jacobian coordinates as in affine ones -/
theorem wjDbl_two_torsion (x l : K) :
    wjNorm (Fld.ofField K) (wjDbl (Fld.ofField K) (x * l ^ 2, 0 * l ^ 3, l)) =
      embW (waDbl (Fld.ofField K) 0 (some (x, 0))) := by
  rw [waDbl_two_torsion]
  simp [wjDbl, wjNorm, embW]

/-- `WeierstrassJacobian.equality` decides equality of the represented affine points -/
theorem wjEq_affine (x1 y1 x2 y2 l m : K) (hl : l ≠ 0) (hm : m ≠ 0) :
    wjEq (Fld.ofField K) (x1 * l ^ 2, y1 * l ^ 3, l) (x2 * m ^ 2, y2 * m ^ 3, m) =
      waEq (Fld.ofField K) (some (x1, y1)) (some (x2, y2)) := by
  simp only [wjEq, waEq, ofField_mul, ofField_ofNat, ofField_beq, Nat.cast_zero, hl, hm,
    decide_false, Bool.and_false, Bool.false_eq_true, if_false]
  have e1 : x1 * l ^ 2 * (m * m) = x2 * m ^ 2 * (l * l) ↔ x1 = x2 := by
    constructor
    · intro e
      have : (x1 - x2) * (l * m) ^ 2 = 0 := by linear_combination e
      rcases mul_eq_zero.1 this with h | h
      · exact sub_eq_zero.1 h
      · exact absurd h (pow_ne_zero _ (mul_ne_zero hl hm))
    · intro e; rw [e]; ring
  have e2 : y1 * l ^ 3 * m * (m * m) = y2 * m ^ 3 * l * (l * l) ↔ y1 = y2 := by
    constructor
    · intro e
      have : (y1 - y2) * (l * m) ^ 3 = 0 := by linear_combination e
      rcases mul_eq_zero.1 this with h | h
      · exact sub_eq_zero.1 h
      · exact absurd h (pow_ne_zero _ (mul_ne_zero hl hm))
    · intro e; rw [e]; ring
  simp only [e1, e2]

/-! ### projective coordinates (x λ, y λ, λ): Renes–Costello–Batina complete formulas, a = 0 -/

/-- `WeierstrassProjective.operation` (RCB Alg. 7): for two points ON THE CURVE y² = x³ + b with
    different x the result, when its z is non-zero, normalises to the affine chord law -/
theorem wpAdd_affine (b x1 y1 x2 y2 l m : K) (hx : x1 ≠ x2)
    (h1 : WOn 0 b (x1, y1)) (h2 : WOn 0 b (x2, y2))
    (hz : (wpAdd (Fld.ofField K) b (x1 * l, y1 * l, l) (x2 * m, y2 * m, m)).2.2 ≠ 0) :
    wpNorm (Fld.ofField K) (wpAdd (Fld.ofField K) b (x1 * l, y1 * l, l) (x2 * m, y2 * m, m)) =
      embW (waAdd (Fld.ofField K) 0 (some (x1, y1)) (some (x2, y2))) := by
  rw [waAdd_chord 0 x1 y1 x2 y2 hx]
  simp only [WOn, zero_mul, add_zero] at h1 h2
  have hd : x1 - x2 ≠ 0 := sub_ne_zero.2 hx
  simp only [wpAdd, ofField_add, ofField_sub, ofField_mul, ofField_ofNat, Nat.cast_ofNat] at hz
  simp only [wpAdd, wpNorm, embW, ofField_add, ofField_sub, ofField_mul, ofField_inv, ofField_ofNat,
    ofField_beq, Nat.cast_zero, Nat.cast_one, Nat.cast_ofNat, hz, decide_false,
    Bool.false_eq_true, if_false, Prod.mk.injEq, and_true]
  set Z := ((y1 * l + l) * (y2 * m + m) - y1 * l * (y2 * m) - l * m) *
      (y1 * l * (y2 * m) + l * m * (3 * b)) +
    x1 * l * (x2 * m) * 3 * ((x1 * l + y1 * l) * (x2 * m + y2 * m) - x1 * l * (x2 * m) - y1 * l * (y2 * m)) with hZ
  have kx : (((x1 * l + y1 * l) * (x2 * m + y2 * m) - x1 * l * (x2 * m) - y1 * l * (y2 * m)) *
        (y1 * l * (y2 * m) - l * m * (3 * b)) -
      ((y1 * l + l) * (y2 * m + m) - y1 * l * (y2 * m) - l * m) *
        (3 * b * ((x1 * l + l) * (x2 * m + m) - x1 * l * (x2 * m) - l * m))) * (x1 - x2) ^ 2 =
      Z * ((y1 - y2) ^ 2 - (x1 + x2) * (x1 - x2) ^ 2) := by
    rw [hZ]
    linear_combination
      (-3*b*l^2*m^2*y1 + 2*b*l^2*m^2*y2 - 3*l^2*m^2*x1^2*x2*y2 - 3*l^2*m^2*x1*x2^2*y1 + 3*l^2*m^2*x1*x2^2*y2 + 2*l^2*m^2*x2^3*y2 - l^2*m^2*y1^2*y2 + l^2*m^2*y1*y2^2 + l^2*m^2*y2^3) * h1
      + (3*b*l^2*m^2*y1 - 2*b*l^2*m^2*y2 + 3*l^2*m^2*x1^3*y1 + l^2*m^2*x1^3*y2 + 3*l^2*m^2*x1^2*x2*y1 - 3*l^2*m^2*x1^2*x2*y2 - 3*l^2*m^2*x1*x2^2*y1 - l^2*m^2*y1*y2^2) * h2
  have ky : (x1 * l * (x2 * m) * 3 * (3 * b * ((x1 * l + l) * (x2 * m + m) - x1 * l * (x2 * m) - l * m)) +
        (y1 * l * (y2 * m) - l * m * (3 * b)) * (y1 * l * (y2 * m) + l * m * (3 * b))) * (x1 - x2) ^ 3 =
      Z * ((y1 - y2) * (x1 * (x1 - x2) ^ 2 - ((y1 - y2) ^ 2 - (x1 + x2) * (x1 - x2) ^ 2)) - y1 * (x1 - x2) ^ 3) := by
    rw [hZ]
    linear_combination
      (3*b^2*l^2*m^2 + 12*b*l^2*m^2*x1*x2^2 - 6*b*l^2*m^2*x2^3 + 3*b*l^2*m^2*y1^2 - 5*b*l^2*m^2*y1*y2 - 2*b*l^2*m^2*y2^2 + 9*l^2*m^2*x1^2*x2^4 + 3*l^2*m^2*x1^2*x2*y1*y2 - 15*l^2*m^2*x1^2*x2*y2^2 - 6*l^2*m^2*x1*x2^5 + 3*l^2*m^2*x1*x2^2*y1^2 - 6*l^2*m^2*x1*x2^2*y1*y2 + 15*l^2*m^2*x1*x2^2*y2^2 - 2*l^2*m^2*x2^3*y1*y2 - 2*l^2*m^2*x2^3*y2^2 + l^2*m^2*y1^3*y2 - 2*l^2*m^2*y1^2*y2^2 + 2*l^2*m^2*y2^4) * h1
      + (-3*b^2*l^2*m^2 + 6*b*l^2*m^2*x1^3 - 27*b*l^2*m^2*x1^2*x2 + 15*b*l^2*m^2*x1*x2^2 + 5*b*l^2*m^2*y1*y2 - b*l^2*m^2*y2^2 - 9*l^2*m^2*x1^5*x2 + 6*l^2*m^2*x1^4*x2^2 + 2*l^2*m^2*x1^3*y1*y2 + 2*l^2*m^2*x1^3*y2^2 + 6*l^2*m^2*x1^2*x2*y1*y2 - 3*l^2*m^2*x1^2*x2*y2^2 - 3*l^2*m^2*x1*x2^2*y1*y2 - l^2*m^2*y1*y2^3) * h2
  clear_value Z
  generalize hD : x1 - x2 = D at hd kx ky ⊢
  constructor
  · field_simp
    linear_combination kx
  · field_simp
    linear_combination ky

/-- `WeierstrassProjective.operation2` (RCB Alg. 9): for a point ON THE CURVE with y ≠ 0 the result
    normalises to the affine tangent law -/
theorem wpDbl_affine (b x y l : K) (hl : l ≠ 0) (h2 : (2 : K) ≠ 0) (hy : y ≠ 0)
    (h1 : WOn 0 b (x, y)) :
    wpNorm (Fld.ofField K) (wpDbl (Fld.ofField K) b (x * l, y * l, l)) =
      embW (waDbl (Fld.ofField K) 0 (some (x, y))) := by
  rw [waDbl_tangent 0 x y hy]
  simp only [WOn, zero_mul, add_zero] at h1
  have h8 : (8 : K) ≠ 0 := by
    have : (8 : K) = 2 ^ 3 := by norm_num
    rw [this]; exact pow_ne_zero _ h2
  have hz : (8 : K) * (y * l * (y * l)) * (y * l * l) ≠ 0 :=
    mul_ne_zero (mul_ne_zero h8 (mul_ne_zero (mul_ne_zero hy hl) (mul_ne_zero hy hl)))
      (mul_ne_zero (mul_ne_zero hy hl) hl)
  have hd : (2 : K) * y ≠ 0 := mul_ne_zero h2 hy
  simp only [wpDbl, wpNorm, embW, ofField_add, ofField_sub, ofField_mul, ofField_inv, ofField_ofNat,
    ofField_beq, Nat.cast_zero, Nat.cast_one, Nat.cast_ofNat, hz, decide_false,
    Bool.false_eq_true, if_false, Prod.mk.injEq, and_true, add_zero]
  have kx : (2 * (y * l * (y * l) - 3 * (3 * b * (l * l))) * (x * l) * (y * l)) * (2 * y) ^ 2 =
      (8 * (y * l * (y * l)) * (y * l * l)) * ((3 * x ^ 2) ^ 2 - 2 * x * (2 * y) ^ 2) := by
    linear_combination (72*l^4*x*y^3) * h1
  have ky : ((y * l * (y * l) - 3 * (3 * b * (l * l))) * (y * l * (y * l) + 3 * b * (l * l)) +
        3 * b * (l * l) * (8 * (y * l * (y * l)))) * (2 * y) ^ 3 =
      (8 * (y * l * (y * l)) * (y * l * l)) *
        ((3 * x ^ 2) * (x * (2 * y) ^ 2 - ((3 * x ^ 2) ^ 2 - 2 * x * (2 * y) ^ 2)) - y * (2 * y) ^ 3) := by
    linear_combination (216*b*l^4*y^3 - 216*l^4*x^3*y^3 + 72*l^4*y^5) * h1
  generalize hZ : (8 : K) * (y * l * (y * l)) * (y * l * l) = Z at hz kx ky ⊢
  generalize hD : (2 : K) * y = D at hd kx ky ⊢
  constructor
  · field_simp
    linear_combination kx
  · field_simp
    linear_combination ky

/-- doubling a point with y = 0 gives z = 0, i.e. the identity after normalisation -/
theorem wpDbl_two_torsion (b x l : K) :
    wpNorm (Fld.ofField K) (wpDbl (Fld.ofField K) b (x * l, 0 * l, l)) = embW (none : WAff K) := by
  simp [wpDbl, wpNorm, embW]

/-- `WeierstrassProjective.equality` decides equality of the represented affine points -/
theorem wpEq_affine (x1 y1 x2 y2 l m : K) (hl : l ≠ 0) (hm : m ≠ 0) :
    wpEq (Fld.ofField K) (x1 * l, y1 * l, l) (x2 * m, y2 * m, m) =
      waEq (Fld.ofField K) (some (x1, y1)) (some (x2, y2)) := by
  simp only [wpEq, waEq, ofField_ofNat, ofField_beq, Nat.cast_zero, hl, hm,
    decide_false, Bool.and_false, Bool.false_eq_true, if_false]
  exact epEq_affine x1 y1 x2 y2 l m hl hm

/-! ### secure variants of secgroups.py evaluated on field elements -/

theorem ifElse_one (a b : K) : ifElse (Fld.ofField K) 1 a b = a := by simp [ifElse]
theorem ifElse_zero (a b : K) : ifElse (Fld.ofField K) 0 a b = b := by simp [ifElse]

/-- the oblivious normalisation of secgroups (`zis0 = [z == 0]`, `1/(z + zis0)`) equals the plain
    `WeierstrassProjective.normalize` -/
theorem secWpNorm_eq (P : K × K × K) : secWpNorm (Fld.ofField K) P = wpNorm (Fld.ofField K) P := by
  obtain ⟨x, y, z⟩ := P
  by_cases hz : z = 0
  · subst hz; simp [secWpNorm, wpNorm, ifElse]
  · simp [secWpNorm, wpNorm, ifElse, hz, mul_comm]

end MpycV.Groups
