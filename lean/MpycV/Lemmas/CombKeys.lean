/-
Lemmas about the PRSS key stores and the handshake: dict get/set, the 16-byte slicing of the key
block, chunking independence of the server-side handshake, and the invariant of a run of
pairwise handshakes in arbitrary order.
-/
import MpycV.Lemmas.Comb

namespace MpycV.Comb

open List

/-! ### dict get/set -/

theorem get?_erase_ne (st : Store) {s s' : Subset} (h : s' ≠ s) :
    (st.erase s).get? s' = st.get? s' := by
  induction st with
  | nil => rfl
  | cons e rest ih =>
    obtain ⟨k, v⟩ := e
    simp only [Store.erase] at ih
    by_cases hk : k = s
    · have hks' : ¬ k = s' := by rintro rfl; exact h hk
      simp [Store.erase, hk, Store.get?, ih]
      intro h'; exact absurd h'.symm h
    · by_cases hks' : k = s'
      · subst hks'
        simp [Store.erase, h, Store.get?]
      · simp [Store.erase, hk, Store.get?, hks', ih]

theorem get?_erase_same (st : Store) (s : Subset) : (st.erase s).get? s = none := by
  induction st with
  | nil => rfl
  | cons e rest ih =>
    obtain ⟨k, v⟩ := e
    simp only [Store.erase] at ih
    by_cases hk : k = s
    · simp [Store.erase, hk, ih]
    · simp [Store.erase, hk, Store.get?, ih]
theorem get?_set_same (st : Store) (s : Subset) (v : Bytes) : (st.set s v).get? s = some v := by
  simp [Store.set, Store.get?]

theorem get?_set_ne (st : Store) {s s' : Subset} (v : Bytes) (h : s' ≠ s) :
    (st.set s v).get? s' = st.get? s' := by
  have : ¬ s = s' := fun h' => h h'.symm
  simp only [Store.set, Store.get?, beq_iff_eq, this, ↓reduceIte]
  exact get?_erase_ne st h

theorem get?_set (st : Store) (s s' : Subset) (v : Bytes) :
    (st.set s v).get? s' = if s' = s then some v else st.get? s' := by
  by_cases h : s' = s
  · subst h; simp [get?_set_same]
  · simp [h, get?_set_ne st v h]

/-! ### generated keys -/

theorem get?_genFrom_none (tok : Nat → Bytes) (l : List Subset) (k : Nat) {s : Subset}
    (h : s ∉ l) : (genFrom tok l k).get? s = none := by
  induction l generalizing k with
  | nil => rfl
  | cons a rest ih =>
    rw [mem_cons, not_or] at h
    have : ¬ a = s := fun h' => h.1 h'.symm
    simp only [genFrom, Store.get?, beq_iff_eq, this, ↓reduceIte]
    exact ih _ h.2

theorem get?_genFrom_mem (tok : Nat → Bytes) (l : List Subset) (k : Nat) {s : Subset}
    (h : s ∈ l) : (genFrom tok l k).get? s = some (tok (k + l.idxOf s)) := by
  induction l generalizing k with
  | nil => simp at h
  | cons a rest ih =>
    by_cases ha : a = s
    · subst ha; simp [genFrom, Store.get?]
    · have hs : s ∈ rest := by
        rcases mem_cons.1 h with h' | h'
        · exact absurd h'.symm ha
        · exact h'
      simp only [genFrom, Store.get?, beq_iff_eq, ha, ↓reduceIte]
      rw [ih _ hs, idxOf_cons_ne _ ha]
      congr 2
      omega

/-- the key of subset `s` as drawn by its lowest member -/
def genKey (m t : Nat) (tok : Nat → Nat → Bytes) (s : Subset) : Bytes :=
  tok (hd s) ((keysGenerated m t (hd s)).idxOf s)

theorem get?_genStore (m t p : Nat) (tok : Nat → Nat → Bytes) (s : Subset) :
    (genStore m t p (tok p)).get? s =
      if s ∈ subsets m t ∧ headIs s p = true then some (genKey m t tok s) else none := by
  by_cases h : s ∈ subsets m t ∧ headIs s p = true
  · have hm : s ∈ keysGenerated m t p := mem_keysGenerated.2 h
    have hp : hd s = p := (headIs_iff.1 h.2).2
    simp only [h, and_self, ↓reduceIte, genStore]
    rw [get?_genFrom_mem _ _ _ hm, genKey, hp, Nat.zero_add]
  · have hm : s ∉ keysGenerated m t p := fun hm => h (mem_keysGenerated.1 hm)
    simp only [h, ↓reduceIte, genStore]
    exact get?_genFrom_none _ _ _ hm

/-! ### the 16-byte slicing of the key block -/

theorem length_keyBlock (cst : Store) (subs : List Subset)
    (hk : ∀ s ∈ subs, ∃ v, cst.get? s = some v ∧ v.length = 16) :
    (keyBlock cst subs).length = 16 * subs.length := by
  induction subs with
  | nil => rfl
  | cons a rest ih =>
    obtain ⟨v, hv, hl⟩ := hk a mem_cons_self
    have := ih (fun s hs => hk s (mem_cons_of_mem _ hs))
    simp only [keyBlock, hv, Option.getD_some, length_append, hl, this, length_cons]
    omega

/-- receiving the block `keyBlock cst subs` (at offset `pre.length`, followed by anything) stores,
for every listed subset, exactly the sender's key, and leaves all other entries alone -/
theorem get?_storeKeys_keyBlock (cst : Store) (subs : List Subset) (hn : subs.Nodup)
    (hk : ∀ s ∈ subs, ∃ v, cst.get? s = some v ∧ v.length = 16)
    (pre extra : Bytes) (st : Store) (s : Subset) :
    (storeKeys (pre ++ keyBlock cst subs ++ extra) subs pre.length st).get? s =
      if s ∈ subs then cst.get? s else st.get? s := by
  induction subs generalizing pre st with
  | nil => simp [storeKeys]
  | cons a rest ih =>
    obtain ⟨v, hv, hl⟩ := hk a mem_cons_self
    rw [nodup_cons] at hn
    have hslice : ((pre ++ keyBlock cst (a :: rest) ++ extra).drop pre.length).take 16 = v := by
      simp only [keyBlock, hv, Option.getD_some, append_assoc, drop_left]
      rw [take_append_of_le_length (by omega)]
      exact take_of_length_le (by omega)
    simp only [storeKeys]
    rw [hslice]
    have hdata : pre ++ keyBlock cst (a :: rest) ++ extra
        = (pre ++ v) ++ keyBlock cst rest ++ extra := by
      simp [keyBlock, hv]
    have hoff : pre.length + 16 = (pre ++ v).length := by simp [hl]
    rw [hdata, hoff, ih hn.2 (fun s hs => hk s (mem_cons_of_mem _ hs))]
    by_cases hs : s ∈ rest
    · simp [hs]
    · by_cases hsa : s = a
      · subst hsa
        simp [hs, get?_set_same, hv]
      · simp [hs, hsa, get?_set_ne _ _ hsa]

theorem storeKeys_append (d b : Bytes) (subs : List Subset) (off : Nat) (st : Store)
    (h : off + 16 * subs.length ≤ d.length) :
    storeKeys (d ++ b) subs off st = storeKeys d subs off st := by
  induction subs generalizing off st with
  | nil => rfl
  | cons a rest ih =>
    simp only [length_cons] at h
    simp only [storeKeys]
    have h1 : ((d ++ b).drop off).take 16 = (d.drop off).take 16 := by
      rw [drop_append_of_le_length (by omega)]
      exact take_append_of_le_length (by simp only [length_drop]; omega)
    rw [h1]
    exact ih _ _ (by omega)

/-! ### chunking independence of the server-side handshake -/

theorem pidOf_append {a : Bytes} (b : Bytes) (h : 2 ≤ a.length) : pidOf (a ++ b) = pidOf a := by
  match a, h with
  | x :: y :: r, _ => rfl

theorem Server.feed_append (m t pid : Nat) (noPrss : Bool) (s : Server) (a b : Bytes) :
    Server.feed m t pid noPrss (Server.feed m t pid noPrss s a) b
      = Server.feed m t pid noPrss s (a ++ b) := by
  obtain ⟨buf, peer, store⟩ := s
  cases peer with
  | some p => simp [Server.feed]
  | none =>
    by_cases h2 : (buf ++ a).length < 2
    · have : Server.feed m t pid noPrss ⟨buf, none, store⟩ a = ⟨buf ++ a, none, store⟩ := by
        simp only [Server.feed, h2, ↓reduceIte]
      rw [this]
      simp only [Server.feed, append_assoc]
    · have h2' : 2 ≤ (buf ++ a).length := by omega
      by_cases h3 : (buf ++ a).length <
          (if noPrss then 0 else lenPacket m t pid (pidOf (buf ++ a))) + 2
      · have : Server.feed m t pid noPrss ⟨buf, none, store⟩ a = ⟨buf ++ a, none, store⟩ := by
          simp only [Server.feed, h2, ↓reduceIte, h3]
        rw [this]
        simp only [Server.feed, append_assoc]
      · have hfa : Server.feed m t pid noPrss ⟨buf, none, store⟩ a =
            ⟨((buf ++ a).drop 2).drop (if noPrss then 0 else lenPacket m t pid (pidOf (buf ++ a))),
             some (pidOf (buf ++ a)),
             if noPrss then store else
               storeKeys ((buf ++ a).drop 2) (keysFromPeer m t pid (pidOf (buf ++ a))) 0 store⟩ := by
          simp only [Server.feed, h2, ↓reduceIte, h3]
        rw [hfa]
        have hp : pidOf (buf ++ (a ++ b)) = pidOf (buf ++ a) := by
          rw [← append_assoc]; exact pidOf_append b h2'
        have h2b : ¬ (buf ++ (a ++ b)).length < 2 := by
          simp only [length_append] at h2' ⊢; omega
        have h3b : ¬ (buf ++ (a ++ b)).length <
            (if noPrss then 0 else lenPacket m t pid (pidOf (buf ++ a))) + 2 := by
          simp only [length_append] at h3 ⊢; omega
        simp only [Server.feed, h2b, ↓reduceIte, hp, h3b]
        have hd : (buf ++ (a ++ b)).drop 2 = (buf ++ a).drop 2 ++ b := by
          rw [← append_assoc, drop_append_of_le_length h2']
        rw [hd]
        congr 1
        · refine (drop_append_of_le_length ?_).symm
          rw [length_drop]; omega
        · cases noPrss with
          | true => rfl
          | false =>
            simp only [Bool.false_eq_true, ↓reduceIte]
            apply (storeKeys_append _ _ _ _ _ _).symm
            simp only [Bool.false_eq_true, ↓reduceIte, lenPacket] at h3
            simp only [length_drop]; omega

theorem Server.feedAll_chunksOf (m t pid : Nat) (noPrss : Bool) (s : Server) (msg : Bytes)
    (cuts : List Nat) :
    Server.feedAll m t pid noPrss s (chunksOf msg cuts) = Server.feed m t pid noPrss s msg := by
  induction cuts generalizing s msg with
  | nil => simp [chunksOf, Server.feedAll]
  | cons c cs ih =>
    simp only [chunksOf, Server.feedAll]
    rw [ih, Server.feed_append, take_append_drop]

theorem pidOf_pidBytes {p : Nat} (h : p < 65536) (rest : Bytes) : pidOf (pidBytes p ++ rest) = p := by
  simp only [pidBytes, cons_append, nil_append, pidOf]
  omega

/-- the whole client message arriving at a fresh server end -/
theorem feed_init (m t i j : Nat) (hj : j < 65536) (block extra : Bytes) (st : Store)
    (hb : block.length = lenPacket m t i j) :
    Server.feed m t i false ⟨[], none, st⟩ (pidBytes j ++ (block ++ extra))
      = ⟨extra, some j, storeKeys (block ++ extra) (keysFromPeer m t i j) 0 st⟩ := by
  have hp : pidOf (pidBytes j ++ (block ++ extra)) = j := pidOf_pidBytes hj _
  have hlen : (pidBytes j ++ (block ++ extra)).length = 2 + lenPacket m t i j + extra.length := by
    simp [pidBytes, hb]; omega
  have hd : (pidBytes j ++ (block ++ extra)).drop 2 = block ++ extra := by simp [pidBytes]
  unfold Server.feed
  simp only [nil_append, hp, Bool.false_eq_true, if_false]
  rw [if_neg (by omega), if_neg (by omega), hd]
  congr 1
  rw [← hb]; simp

theorem Stores.get_upd (g : Stores) (i k : Nat) (st : Store) :
    (g.upd i st).get k = if k = i ∧ i < g.length then st else g.get k := by
  simp only [Stores.get, Stores.upd, getD_eq_getElem?_getD, getElem?_set]
  by_cases hk : k = i
  · subst hk
    by_cases hl : k < g.length
    · simp [hl]
    · simp [hl]
  · have : ¬ i = k := fun h => hk h.symm
    simp [hk, this]

theorem Stores.length_upd (g : Stores) (i : Nat) (st : Store) : (g.upd i st).length = g.length := by
  simp [Stores.upd]

theorem length_stepHs (m t : Nat) (noPrss : Bool) (g : Stores) (e : Hs) :
    (stepHs m t noPrss g e).length = g.length := by
  simp [stepHs, Stores.length_upd]

theorem length_initStores (m t : Nat) (noPrss : Bool) (tok : Nat → Nat → Bytes) :
    (initStores m t noPrss tok).length = m := by
  simp [initStores]

/-- a complete handshake: the server's new store -/
theorem stepHs_store (m t : Nat) (g : Stores) (e : Hs) (hc : e.client < 65536)
    (hsl : e.server < g.length)
    (hk : ∀ s ∈ keysFromPeer m t e.server e.client,
      ∃ v, (g.get e.client).get? s = some v ∧ v.length = 16) (s : Subset) :
    ((stepHs m t false g e).get e.server).get? s =
      if s ∈ keysFromPeer m t e.server e.client then (g.get e.client).get? s
      else (g.get e.server).get? s := by
  have hlen := length_keyBlock (g.get e.client) _ hk
  simp only [stepHs, Stores.get_upd, hsl, and_self, ↓reduceIte, Server.feedAll_chunksOf]
  have hmsg : clientMsg m t e.client e.server false (g.get e.client)
      = pidBytes e.client ++ (keyBlock (g.get e.client) (keysFromPeer m t e.server e.client) ++ []) := by
    simp [clientMsg, keysToPeer_eq_keysFromPeer]
  rw [hmsg, feed_init m t e.server e.client hc _ [] _ (by rw [hlen, lenPacket])]
  exact get?_storeKeys_keyBlock (g.get e.client) _ (nodup_keysFromPeer _ _ _ _) hk [] [] _ s

theorem stepHs_other (m t : Nat) (noPrss : Bool) (g : Stores) (e : Hs) {k : Nat}
    (hk : k ≠ e.server) : (stepHs m t noPrss g e).get k = g.get k := by
  simp [stepHs, Stores.get_upd, hk]

/-! ### invariant of a run of handshakes -/

/-- what party `i` holds for subset `s` once the handshakes in `done` (client, server) are over -/
def held (m t : Nat) (tok : Nat → Nat → Bytes) (done : List (Nat × Nat)) (i : Nat) (s : Subset) :
    Option Bytes :=
  if s ∈ subsets m t ∧ i ∈ s ∧ (hd s = i ∨ (hd s, i) ∈ done) then
    some (genKey m t tok s) else none

theorem inv_init (m t : Nat) (tok : Nat → Nat → Bytes) (i : Nat) (s : Subset) :
    ((initStores m t false tok).get i).get? s = held m t tok [] i s := by
  by_cases him : i < m
  swap
  · have h1 : (initStores m t false tok).get i = [] := by
      simp [Stores.get, initStores, him]
    have h2 : ¬ (s ∈ subsets m t ∧ i ∈ s ∧ (hd s = i ∨ (hd s, i) ∈ [])) := by
      rintro ⟨hs, hi, _⟩
      exact him ((mem_subsets.1 hs).2.1 i hi)
    rw [h1, held, if_neg h2]; rfl
  have h0 : (initStores m t false tok).get i = genStore m t i (tok i) := by
    simp [Stores.get, initStores, him]
  rw [h0]
  simp only [get?_genStore, held, not_mem_nil, or_false]
  by_cases hs : s ∈ subsets m t
  · by_cases hh : headIs s i = true
    · have := headIs_iff.1 hh
      simp [hs, hh, headIs_mem hh, this.2]
    · have : ¬ (i ∈ s ∧ hd s = i) := by
        rintro ⟨hi, hd⟩
        exact hh (headIs_iff.2 ⟨ne_nil_of_mem hi, hd⟩)
      simp [hs, hh, this]
  · simp [hs]

theorem inv_step (m t : Nat) (tok : Nat → Nat → Bytes) (htok : ∀ p k, (tok p k).length = 16)
    (g : Stores) (done : List (Nat × Nat))
    (hinv : ∀ i s, (g.get i).get? s = held m t tok done i s)
    (e : Hs) (hc : e.client < 65536) (hsl : e.server < g.length) (i : Nat) (s : Subset) :
    ((stepHs m t false g e).get i).get? s = held m t tok ((e.client, e.server) :: done) i s := by
  by_cases hi : i = e.server
  · subst hi
    have hk : ∀ s ∈ keysFromPeer m t e.server e.client,
        ∃ v, (g.get e.client).get? s = some v ∧ v.length = 16 := by
      intro s hs
      obtain ⟨h1, h2, _⟩ := mem_keysFromPeer.1 hs
      refine ⟨genKey m t tok s, ?_, htok _ _⟩
      rw [hinv, held]
      simp [h1, headIs_mem h2, (headIs_iff.1 h2).2]
    rw [stepHs_store m t g e hc hsl hk s]
    by_cases hs : s ∈ keysFromPeer m t e.server e.client
    · obtain ⟨h1, h2, h3⟩ := mem_keysFromPeer.1 hs
      have hd := (headIs_iff.1 h2).2
      simp only [hs, ↓reduceIte, hinv, held]
      simp [h1, h3, headIs_mem h2, hd]
    · simp only [hs, ↓reduceIte, hinv, held, mem_cons, Prod.mk.injEq, and_true]
      have : ¬ (s ∈ subsets m t ∧ e.server ∈ s ∧ hd s = e.client) := by
        rintro ⟨h1, h3, hd⟩
        exact hs (mem_keysFromPeer.2 ⟨h1, headIs_iff.2 ⟨ne_nil_of_mem h3, hd⟩, h3⟩)
      by_cases h1 : s ∈ subsets m t
      · by_cases h3 : e.server ∈ s
        · have hd : ¬ hd s = e.client := fun hd => this ⟨h1, h3, hd⟩
          simp [h1, h3, hd]
        · simp [h3]
      · simp [h1]
  · rw [stepHs_other _ _ _ _ _ hi, hinv]
    simp only [held, mem_cons, Prod.mk.injEq, hi, and_false, false_or]

theorem inv_run (m t : Nat) (tok : Nat → Nat → Bytes) (htok : ∀ p k, (tok p k).length = 16)
    (g : Stores) (evs : List Hs) (hev : ∀ e ∈ evs, e.client < 65536 ∧ e.server < g.length)
    (done : List (Nat × Nat))
    (hinv : ∀ i s, (g.get i).get? s = held m t tok done i s) (i : Nat) (s : Subset) :
    ((runHs m t false g evs).get i).get? s
      = held m t tok ((evs.map fun e => (e.client, e.server)).reverse ++ done) i s := by
  induction evs generalizing g done with
  | nil => simpa [runHs] using hinv i s
  | cons e es ih =>
    have he := hev e mem_cons_self
    have := ih (stepHs m t false g e)
      (fun e' h' => by rw [length_stepHs]; exact hev e' (mem_cons_of_mem _ h'))
      ((e.client, e.server) :: done) (inv_step m t tok htok g done hinv e he.1 he.2)
    simpa [runHs] using this

/-! ### without PRSS nothing is generated, sent or stored -/

theorem stepHs_noPrss (m t : Nat) (g : Stores) (e : Hs) : stepHs m t true g e = g := by
  have h : (Server.feedAll m t e.server true { buf := [], peer := none, store := g.get e.server }
      (chunksOf (clientMsg m t e.client e.server true (g.get e.client)) e.cuts)).store
        = g.get e.server := by
    rw [Server.feedAll_chunksOf]
    simp [Server.feed, clientMsg, pidBytes]
  simp only [stepHs, h]
  simp only [Stores.upd, Stores.get]
  apply List.ext_getElem?
  intro k
  rw [getElem?_set]
  by_cases hk : e.server = k
  · subst hk
    by_cases hl : e.server < g.length
    · simp [hl]
    · simp [hl]
  · simp [hk]

theorem runHs_noPrss (m t : Nat) (g : Stores) (evs : List Hs) : runHs m t true g evs = g := by
  induction evs generalizing g with
  | nil => rfl
  | cons e es ih => simp [runHs, stepHs_noPrss, ih]

/-! ### prfs -/

theorem mem_prfSubsets {st : Store} {s : Subset} : s ∈ prfSubsets st ↔ (st.get? s).isSome := by
  induction st with
  | nil => simp [prfSubsets, Store.get?]
  | cons e rest ih =>
    obtain ⟨k, v⟩ := e
    simp only [prfSubsets, map_cons, mem_cons, Store.get?, beq_iff_eq] at ih ⊢
    by_cases hk : k = s
    · simp [hk]
    · have : ¬ s = k := fun h => hk h.symm
      simp [hk, this, ih]

end MpycV.Comb
