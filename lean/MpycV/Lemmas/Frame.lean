/-
Lemmas about the frame parser model (MpycV.Model.Frame).
-/
import MpycV.Model.Frame

namespace MpycV.Frame

/-! ### little-endian encoding -/

theorem leBytes_length (n w : Nat) : (leBytes n w).length = w := by
  induction w generalizing n with
  | zero => rfl
  | succ w ih => simp [leBytes, ih]

theorem ofLe_leBytes (n w : Nat) : ofLe (leBytes n w) = n % 256 ^ w := by
  induction w generalizing n with
  | zero => simp [leBytes, ofLe, Nat.mod_one]
  | succ w ih =>
    simp only [leBytes, ofLe, ih]
    rw [Nat.pow_succ, Nat.mul_comm (256 ^ w) 256, Nat.mod_mul]

theorem leBytes_lt (n w : Nat) : ∀ b ∈ leBytes n w, b < 256 := by
  induction w generalizing n with
  | zero => simp [leBytes]
  | succ w ih =>
    intro b hb
    simp only [leBytes, List.mem_cons] at hb
    rcases hb with rfl | hb
    · exact Nat.mod_lt _ (by decide)
    · exact ih _ _ hb

theorem int64LE_length (pc : Int) : (int64LE pc).length = 8 := leBytes_length _ _

/-- ≙ struct.unpack('<q', struct.pack('<q', pc)) == pc for every int64 -/
theorem ofInt64LE_int64LE (pc : Int) (h1 : -(2 : Int) ^ 63 ≤ pc) (h2 : pc < (2 : Int) ^ 63) :
    ofInt64LE (int64LE pc) = pc := by
  unfold ofInt64LE int64LE
  rw [ofLe_leBytes]
  have e : (256 : Nat) ^ 8 = 2 ^ 64 := by decide
  rw [e]
  have hm : (pc % (2 ^ 64 : Int)).toNat % 2 ^ 64 = (pc % (2 ^ 64 : Int)).toNat := by
    apply Nat.mod_eq_of_lt
    have : pc % (2 ^ 64 : Int) < 2 ^ 64 := Int.emod_lt_of_pos _ (by decide)
    omega
  rw [hm]
  have hnn : 0 ≤ pc % (2 ^ 64 : Int) := Int.emod_nonneg _ (by decide)
  simp only []
  by_cases hp : 0 ≤ pc
  · have : pc % (2 ^ 64 : Int) = pc := Int.emod_eq_of_lt hp (by omega)
    rw [this]
    have : pc.toNat < 2 ^ 63 := by omega
    simp only [this, if_true]
    omega
  · have : pc % (2 ^ 64 : Int) = pc + 2 ^ 64 := by
      have : (pc + 2 ^ 64) % (2 ^ 64 : Int) = pc + 2 ^ 64 := Int.emod_eq_of_lt (by omega) (by omega)
      rw [← this]; simp
    rw [this]
    have h3 : ¬ (pc + 2 ^ 64).toNat < 2 ^ 63 := by omega
    simp only [h3, if_false]
    omega

/-! ### the frame loop is insensitive to where the stream is cut -/

def hasErr (es : List Event) : Bool := es.any Event.isErr

/-- result of parsing `data`, then (if no exception left the loop) continuing with `more` appended -/
def parseThen (b : Buffers) (data more : Bytes) : Buffers × List Event × Bytes :=
  let r := parseFrames b data
  if hasErr r.2.1 then (r.1, r.2.1, r.2.2 ++ more)
  else
    let r2 := parseFrames r.1 (r.2.2 ++ more)
    (r2.1, r.2.1 ++ r2.2.1, r2.2.2)

/-- one unfolding of the loop, with plain projections instead of pattern-matching lets -/
theorem parseFrames_eq (b : Buffers) (data : Bytes) :
    parseFrames b data =
      if data.length < 12 then (b, [], data)
      else if data.length < ofLe ((data.drop 8).take 4) + 12 then (b, [], data)
      else
        let d := deliver b (ofInt64LE (data.take 8)) ((data.drop 12).take (ofLe ((data.drop 8).take 4)))
        if d.2.isErr then (d.1, [d.2], data.drop (ofLe ((data.drop 8).take 4) + 12))
        else
          let r := parseFrames d.1 (data.drop (ofLe ((data.drop 8).take 4) + 12))
          (r.1, d.2 :: r.2.1, r.2.2) := by
  rw [parseFrames]
  by_cases h : data.length < 12
  · simp [h]
  · by_cases h2 : data.length < ofLe ((data.drop 8).take 4) + 12
    · simp [h, h2]
    · simp only [h, h2, dite_false, if_false]

theorem parseFrames_append (b : Buffers) (data more : Bytes) :
    parseFrames b (data ++ more) = parseThen b data more := by
  induction hn : data.length using Nat.strongRecOn generalizing b data with
  | _ n ih =>
    by_cases h12 : data.length < 12
    · have e : parseFrames b data = (b, [], data) := by rw [parseFrames_eq]; simp [h12]
      simp [parseThen, e, hasErr]
    · by_cases hlp : data.length < ofLe ((data.drop 8).take 4) + 12
      · have e : parseFrames b data = (b, [], data) := by rw [parseFrames_eq]; simp [h12, hlp]
        simp [parseThen, e, hasErr]
      · have t8 : (data ++ more).take 8 = data.take 8 := List.take_append_of_le_length (by omega)
        have t4 : ((data ++ more).drop 8).take 4 = (data.drop 8).take 4 := by
          rw [List.drop_append_of_le_length (by omega)]
          exact List.take_append_of_le_length (by simp; omega)
        have tp : ∀ k, k + 12 ≤ data.length → ((data ++ more).drop 12).take k = (data.drop 12).take k := by
          intro k hk
          rw [List.drop_append_of_le_length (by omega)]
          exact List.take_append_of_le_length (by simp; omega)
        have td : (data ++ more).drop (ofLe ((data.drop 8).take 4) + 12)
            = data.drop (ofLe ((data.drop 8).take 4) + 12) ++ more :=
          List.drop_append_of_le_length (by omega)
        have g1 : ¬ (data ++ more).length < 12 := by simp; omega
        have g2 : ¬ (data ++ more).length < ofLe ((data.drop 8).take 4) + 12 := by simp; omega
        rw [parseFrames_eq b (data ++ more)]
        have tp' := tp (ofLe ((data.drop 8).take 4)) (by omega)
        simp only [t4, g1, g2, if_false, t8, tp', td]
        unfold parseThen
        rw [parseFrames_eq b data]
        simp only [h12, hlp, if_false]
        by_cases herr : (deliver b (ofInt64LE (data.take 8))
            ((data.drop 12).take (ofLe ((data.drop 8).take 4)))).2.isErr
        · simp [herr, hasErr]
        · have herr' : (deliver b (ofInt64LE (data.take 8))
              ((data.drop 12).take (ofLe ((data.drop 8).take 4)))).2.isErr = false := by
            simpa using herr
          simp only [herr', Bool.false_eq_true, if_false]
          rw [ih _ (by simp; omega) _ _ rfl]
          unfold parseThen
          simp only [hasErr, List.any_cons, herr', Bool.false_or]
          split <;> rename_i hE <;> simp [hE]

/-! ### case equations for `feed` -/

/-- key-block length announced by the first two bytes -/
def keyLenOf (cfg : Cfg) (data : Bytes) : Nat :=
  if cfg.noPrss then 0 else cfg.keyLen (ofLe (data.take 2))

/-- the handshake (pid + key block) is completely contained in `data` -/
def hsReady (cfg : Cfg) (data : Bytes) : Prop := 2 ≤ data.length ∧ keyLenOf cfg data + 2 ≤ data.length

instance (cfg : Cfg) (data : Bytes) : Decidable (hsReady cfg data) := by unfold hsReady; infer_instance

theorem feed_some (cfg : Cfg) (s : Parser) (c : Bytes) (p : Nat) (hp : s.peer = some p) :
    feed cfg s c =
      ({ s with buf := (parseFrames s.buffers (s.buf ++ c)).2.2,
                buffers := (parseFrames s.buffers (s.buf ++ c)).1 },
       (parseFrames s.buffers (s.buf ++ c)).2.1) := by
  unfold feed; simp only [hp]

theorem feed_none_wait (cfg : Cfg) (s : Parser) (c : Bytes) (hp : s.peer = none)
    (h : ¬ hsReady cfg (s.buf ++ c)) : feed cfg s c = ({ s with buf := s.buf ++ c }, []) := by
  unfold feed; simp only [hp]
  unfold hsReady keyLenOf at h
  by_cases h2 : (s.buf ++ c).length < 2
  · simp only [h2, if_true]
  · have : (s.buf ++ c).length < (if cfg.noPrss then 0 else cfg.keyLen (ofLe ((s.buf ++ c).take 2))) + 2 := by
      omega
    simp only [h2, this, if_false, if_true]

theorem feed_none_ready (cfg : Cfg) (s : Parser) (c : Bytes) (hp : s.peer = none)
    (h : hsReady cfg (s.buf ++ c)) :
    feed cfg s c =
      ({ buf := (parseFrames s.buffers ((s.buf ++ c).drop (2 + keyLenOf cfg (s.buf ++ c)))).2.2,
         peer := some (ofLe ((s.buf ++ c).take 2)),
         buffers := (parseFrames s.buffers ((s.buf ++ c).drop (2 + keyLenOf cfg (s.buf ++ c)))).1 },
       Event.handshake (ofLe ((s.buf ++ c).take 2)) (((s.buf ++ c).drop 2).take (keyLenOf cfg (s.buf ++ c)))
         :: (parseFrames s.buffers ((s.buf ++ c).drop (2 + keyLenOf cfg (s.buf ++ c)))).2.1) := by
  unfold feed; simp only [hp]
  unfold hsReady keyLenOf at h
  have h2 : ¬ (s.buf ++ c).length < 2 := by omega
  have h3 : ¬ (s.buf ++ c).length < (if cfg.noPrss then 0 else cfg.keyLen (ofLe ((s.buf ++ c).take 2))) + 2 := by
    omega
  simp only [h2, h3, if_false, keyLenOf]

/-- once the handshake is contained in a prefix, it is contained in every extension, with the same
pid, key-block length, key block, and the rest of the stream extended by the same suffix -/
theorem hsReady_append (cfg : Cfg) (d more : Bytes) (h : hsReady cfg d) :
    hsReady cfg (d ++ more) ∧ keyLenOf cfg (d ++ more) = keyLenOf cfg d ∧
    (d ++ more).take 2 = d.take 2 ∧
    ((d ++ more).drop 2).take (keyLenOf cfg d) = (d.drop 2).take (keyLenOf cfg d) ∧
    (d ++ more).drop (2 + keyLenOf cfg d) = d.drop (2 + keyLenOf cfg d) ++ more := by
  obtain ⟨h2, hk⟩ := h
  have t2 : (d ++ more).take 2 = d.take 2 := List.take_append_of_le_length h2
  have kl : keyLenOf cfg (d ++ more) = keyLenOf cfg d := by unfold keyLenOf; rw [t2]
  refine ⟨⟨by simp only [List.length_append]; omega, by rw [kl]; simp only [List.length_append]; omega⟩,
    kl, t2, ?_, ?_⟩
  · rw [List.drop_append_of_le_length h2]
    exact List.take_append_of_le_length (by simp only [List.length_drop]; omega)
  · exact List.drop_append_of_le_length (by omega)

/-! ### buffers (dict) lemmas -/

theorem Buffers.find?_erase_self (b : Buffers) (pc : Int) : (b.erase pc).find? pc = none := by
  induction b with
  | nil => rfl
  | cons e b ih =>
    obtain ⟨k, v⟩ := e
    unfold Buffers.erase at ih ⊢
    by_cases hk : k = pc
    · simp [List.filter, hk, ih]
    · have : (k != pc) = true := by simp [hk]
      simp only [List.filter, this]
      simp [Buffers.find?, hk, ih]

theorem Buffers.erase_of_find?_none (b : Buffers) (pc : Int) (h : b.find? pc = none) :
    b.erase pc = b := by
  induction b with
  | nil => rfl
  | cons e b ih =>
    obtain ⟨k, v⟩ := e
    unfold Buffers.erase at ih ⊢
    by_cases hk : k = pc
    · simp [Buffers.find?, hk] at h
    · have hne : (k != pc) = true := by simp [hk]
      have h' : Buffers.find? b pc = none := by simpa [Buffers.find?, hk] using h
      simp only [List.filter, hne, ih h']

theorem Buffers.find?_set_self (b : Buffers) (pc : Int) (v : Slot) : (b.set pc v).find? pc = some v := by
  simp [Buffers.set, Buffers.find?]

theorem Buffers.erase_erase (b : Buffers) (pc : Int) : (b.erase pc).erase pc = b.erase pc :=
  Buffers.erase_of_find?_none _ _ (Buffers.find?_erase_self b pc)

theorem Buffers.erase_set (b : Buffers) (pc : Int) (v : Slot) : (b.set pc v).erase pc = b.erase pc := by
  unfold Buffers.set
  show List.filter _ _ = _
  simp only [List.filter, bne_self_eq_false]
  exact Buffers.erase_erase b pc

/-! ### encode then parse -/

/-- abstract effect of a sequence of frame arrivals: `deliver` one after the other, stopping at the
first duplicate-label exception; returns the messages not processed -/
def deliverAll (b : Buffers) : List (Int × Bytes) → Buffers × List Event × List (Int × Bytes)
  | [] => (b, [], [])
  | (pc, pl) :: ms =>
    let d := deliver b pc pl
    if d.2.isErr then (d.1, [d.2], ms)
    else
      let r := deliverAll d.1 ms
      (r.1, d.2 :: r.2.1, r.2.2)

/-- what `struct.pack('<qI…')` can represent: int64 labels, payloads shorter than 2^32 bytes -/
def WFMsgs (msgs : List (Int × Bytes)) : Prop :=
  ∀ m ∈ msgs, -(2 : Int) ^ 63 ≤ m.1 ∧ m.1 < (2 : Int) ^ 63 ∧ m.2.length < 2 ^ 32

theorem encodeMsg_length (pc : Int) (pl : Bytes) : (encodeMsg pc pl).length = 12 + pl.length := by
  simp [encodeMsg, int64LE_length, leBytes_length]; omega

theorem parseFrames_encodeAll (b : Buffers) (msgs : List (Int × Bytes)) (hw : WFMsgs msgs) :
    parseFrames b (encodeAll msgs) =
      ((deliverAll b msgs).1, (deliverAll b msgs).2.1, encodeAll (deliverAll b msgs).2.2) := by
  induction msgs generalizing b with
  | nil => simp [encodeAll, deliverAll, parseFrames]
  | cons m ms ih =>
    obtain ⟨pc, pl⟩ := m
    have hm := hw (pc, pl) (by simp)
    have hws : WFMsgs ms := fun x hx => hw x (by simp [hx])
    simp only at hm
    obtain ⟨h1, h2, h3⟩ := hm
    have e8 : (int64LE pc).length = 8 := int64LE_length pc
    have e4 : (leBytes pl.length 4).length = 4 := leBytes_length _ _
    have hdata : encodeAll ((pc, pl) :: ms)
        = int64LE pc ++ (leBytes pl.length 4 ++ (pl ++ encodeAll ms)) := by
      simp [encodeAll, encodeMsg, List.append_assoc]
    have t8 : (encodeAll ((pc, pl) :: ms)).take 8 = int64LE pc := by
      rw [hdata, List.take_append_of_le_length (by omega)]
      exact List.take_of_length_le (by omega)
    have d8 : (encodeAll ((pc, pl) :: ms)).drop 8 = leBytes pl.length 4 ++ (pl ++ encodeAll ms) := by
      rw [hdata, List.drop_append_of_le_length (by omega), List.drop_of_length_le (by omega)]; simp
    have t4 : ((encodeAll ((pc, pl) :: ms)).drop 8).take 4 = leBytes pl.length 4 := by
      rw [d8, List.take_append_of_le_length (by omega)]
      exact List.take_of_length_le (by omega)
    have d12 : (encodeAll ((pc, pl) :: ms)).drop 12 = pl ++ encodeAll ms := by
      have : (12 : Nat) = 8 + 4 := rfl
      rw [this, ← List.drop_drop, d8, List.drop_append_of_le_length (by omega),
        List.drop_of_length_le (by omega)]; simp
    have hsize : ofLe (leBytes pl.length 4) = pl.length := by
      have e256 : (256 : Nat) ^ 4 = 2 ^ 32 := by decide
      rw [ofLe_leBytes, e256]; exact Nat.mod_eq_of_lt h3
    have hlen : (encodeAll ((pc, pl) :: ms)).length = 12 + pl.length + (encodeAll ms).length := by
      rw [hdata]; simp [e8, e4]; omega
    rw [parseFrames_eq]
    have g1 : ¬ (encodeAll ((pc, pl) :: ms)).length < 12 := by omega
    simp only [g1, if_false, t4, hsize, t8, ofInt64LE_int64LE pc h1 h2]
    have g2 : ¬ (encodeAll ((pc, pl) :: ms)).length < pl.length + 12 := by omega
    simp only [g2, if_false]
    have tp : ((encodeAll ((pc, pl) :: ms)).drop 12).take pl.length = pl := by
      rw [d12, List.take_append_of_le_length (Nat.le_refl _)]; exact List.take_length
    have dl : (encodeAll ((pc, pl) :: ms)).drop (pl.length + 12) = encodeAll ms := by
      rw [Nat.add_comm, ← List.drop_drop, d12, List.drop_append_of_le_length (Nat.le_refl _)]
      simp
    rw [tp, dl]
    simp only [deliverAll]
    split
    · rfl
    · rw [ih _ hws]

end MpycV.Frame
