/-
Correctness of the Ben-Or style irreducibility test `isIrreducible` (≙ gfpx.py `_is_irreducible`)
for EVERY prime p and EVERY polynomial: `isIrreducible p a = true ↔ Irreducible (toPoly p a)`.
-/
import MpycV.Lemmas.GFpXPow
import Mathlib.FieldTheory.Finite.Extension

open Polynomial

namespace MpycV.GFpX

variable {p : ℕ}

/-- `gcd(a, b) == [1]` (the test in gfpx.py:487) iff `a`, `b` are coprime -/
theorem gcd_eq_one_iff [Fact p.Prime] {a b : Poly} (ha : WF p a) (hb : WF p b) :
    gcd p a b = [1] ↔ IsCoprime (toPoly p a) (toPoly p b) := by
  classical
  obtain ⟨gw, gd, gm⟩ := gcd_spec ha hb
  constructor
  · intro h1
    have hu : IsUnit (EuclideanDomain.gcd (toPoly p a) (toPoly p b)) := by
      have hdvd : EuclideanDomain.gcd (toPoly p a) (toPoly p b) ∣ toPoly p (gcd p a b) :=
        (gd _).mpr ⟨EuclideanDomain.gcd_dvd_left _ _, EuclideanDomain.gcd_dvd_right _ _⟩
      rw [h1] at hdvd
      simp only [toPoly_cons, toPoly_nil, mul_zero, add_zero, Nat.cast_one, C_1] at hdvd
      exact isUnit_of_dvd_one hdvd
    exact EuclideanDomain.gcd_isUnit_iff.mp hu
  · rintro ⟨u, v, huv⟩
    have hd := (gd (toPoly p (gcd p a b))).mp dvd_rfl
    have h1 : toPoly p (gcd p a b) ∣ 1 := by
      rw [← huv]; exact dvd_add (hd.1.mul_left u) (hd.2.mul_left v)
    have hunit := isUnit_of_dvd_one h1
    rcases gm with ⟨_, _, h0⟩ | hmonic
    · rw [h0] at hunit; simp at hunit
    · have := hmonic.eq_one_of_isUnit hunit
      apply toPoly_inj gw wf_one
      rw [this]; simp

theorem isCoprime_mod_iff {F : Type*} [Field F] (x y m : F[X]) (h : x % m = y % m) :
    IsCoprime x m ↔ IsCoprime y m := by
  have hx : x = x % m + m * (x / m) := (EuclideanDomain.mod_add_div x m).symm
  have hy : y = y % m + m * (y / m) := (EuclideanDomain.mod_add_div y m).symm
  rw [hx, hy, IsCoprime.add_mul_left_left_iff, IsCoprime.add_mul_left_left_iff, h]

theorem wf_X [Fact p.Prime] : WF p [0, 1] :=
  ⟨by
    have := (Fact.out : p.Prime).one_lt
    intro x hx; simp at hx; omega, by simp [Normalised]⟩

theorem toPoly_X : toPoly p [0, 1] = X := by simp

/-- the loop of `_is_irreducible`: entering with `b ≡ X^(p^j) (mod a)` and `k` iterations to go, it
returns True iff `gcd(X^(p^i) - X, a) = 1` for `i = j+1 … j+k` -/
theorem irrLoop_iff [Fact p.Prime] {a : Poly} (ha : WF p a) (hane : a ≠ []) :
    ∀ (k j : ℕ) (b : Poly), WF p b →
      toPoly p b % toPoly p a = X ^ p ^ j % toPoly p a →
      (irrLoop p a k b = true ↔
        ∀ i, j < i → i ≤ j + k → IsCoprime (X ^ p ^ i - X : (ZMod p)[X]) (toPoly p a)) := by
  have hp : 0 < p := (Fact.out : p.Prime).pos
  intro k
  induction k with
  | zero =>
    intro j b _ _
    simp only [irrLoop, true_iff]
    intro i h1 h2; omega
  | succ k ih =>
    intro j b hb hcong
    obtain ⟨r, e, w, _, c⟩ := powmod_pos_some hb ha hane hp
    have hc' : toPoly p r % toPoly p a = X ^ p ^ (j + 1) % toPoly p a := by
      rw [c, pow_succ, pow_mul]
      exact pow_mod_congr hcong p
    have hsubw : WF p (sub p r [0, 1]) := wf_sub hp w.1 wf_X.1
    have hcop : gcd p (sub p r [0, 1]) a = [1] ↔
        IsCoprime (X ^ p ^ (j + 1) - X : (ZMod p)[X]) (toPoly p a) := by
      rw [gcd_eq_one_iff hsubw ha, toPoly_sub _ wf_X.1, toPoly_X]
      apply isCoprime_mod_iff
      rw [sub_mod, sub_mod, hc']
    rw [irrLoop, e]
    simp only
    by_cases hg : gcd p (sub p r [0, 1]) a = [1]
    · rw [if_neg (by simpa using hg), ih (j + 1) r w hc']
      constructor
      · intro h i h1 h2
        by_cases hi : i = j + 1
        · subst hi; exact hcop.mp hg
        · exact h i (by omega) (by omega)
      · intro h i h1 h2
        exact h i (by omega) (by omega)
    · rw [if_pos (by simpa using hg)]
      simp only [Bool.false_eq_true, false_iff, not_forall]
      exact ⟨j + 1, by omega, by omega, fun h => hg (hcop.mpr h)⟩

/-- Ben-Or's criterion over `ZMod p` (pure Mathlib statement) -/
theorem benOr [Fact p.Prime] {A : (ZMod p)[X]} (hd : 1 ≤ A.natDegree) :
    Irreducible A ↔
      ∀ i, 0 < i → i ≤ A.natDegree / 2 → IsCoprime (X ^ p ^ i - X : (ZMod p)[X]) A := by
  have hA0 : A ≠ 0 := by
    intro h; rw [h] at hd; simp at hd
  constructor
  · intro hirr i hi0 hi
    rw [isCoprime_comm, hirr.coprime_iff_not_dvd]
    intro hdvd
    have := hirr.natDegree_dvd_iff_dvd_X_pow_card_pow_sub_X.mpr (by rwa [Nat.card_zmod])
    have := Nat.le_of_dvd hi0 this
    omega
  · intro h
    have hnu : ¬ IsUnit A := by
      intro hu
      have := natDegree_eq_zero_of_isUnit hu
      omega
    refine ⟨hnu, ?_⟩
    intro f g hfg
    by_contra hcon
    simp only [not_or] at hcon
    obtain ⟨hfu, hgu⟩ := hcon
    have hf0 : f ≠ 0 := by rintro rfl; simp at hfg; exact hA0 hfg
    have hg0 : g ≠ 0 := by rintro rfl; simp at hfg; exact hA0 hfg
    have hdeg : A.natDegree = f.natDegree + g.natDegree := by rw [hfg, natDegree_mul hf0 hg0]
    -- a non-unit factor `e` of degree ≤ d/2
    have key : ∀ e : (ZMod p)[X], e ∣ A → ¬ IsUnit e → e ≠ 0 → e.natDegree ≤ A.natDegree / 2 → False := by
      intro e heA heu he0 hedeg
      obtain ⟨q, hq, hqe⟩ := WfDvdMonoid.exists_irreducible_factor heu he0
      have hk0 := hq.natDegree_pos
      have hkle : q.natDegree ≤ e.natDegree := natDegree_le_of_dvd hqe he0
      have hq1 : q ∣ X ^ p ^ q.natDegree - X := by
        have := hq.natDegree_dvd_iff_dvd_X_pow_card_pow_sub_X.mp (dvd_refl q.natDegree)
        rwa [Nat.card_zmod] at this
      have hcop := h q.natDegree hk0 (by omega)
      exact hq.not_isUnit (hcop.isUnit_of_dvd' hq1 (hqe.trans heA))
    by_cases hle : f.natDegree ≤ g.natDegree
    · exact key f ⟨g, hfg⟩ hfu hf0 (by omega)
    · exact key g ⟨f, by rw [hfg, mul_comm]⟩ hgu hg0 (by omega)

/-- **the irreducibility test is correct for every prime and every polynomial** -/
theorem isIrreducible_iff [Fact p.Prime] {a : Poly} (ha : WF p a) :
    isIrreducible p a = true ↔ Irreducible (toPoly p a) := by
  unfold isIrreducible
  split
  · rename_i hlen
    simp only [Bool.false_eq_true, false_iff]
    intro hirr
    have hpos := hirr.natDegree_pos
    by_cases hne : a = []
    · subst hne; simp at hpos
    · rw [natDegree_toPoly ha hne] at hpos; omega
  · rename_i hlen
    have hne : a ≠ [] := by intro h; subst h; simp at hlen
    have hnd := natDegree_toPoly ha hne
    rw [irrLoop_iff ha hne ((a.length - 1) / 2) 0 [0, 1] wf_X (by rw [toPoly_X]; simp),
      benOr (by omega), hnd]
    constructor
    · intro h i h1 h2; exact h i h1 (by omega)
    · intro h i h1 h2; exact h i h1 (by omega)

end MpycV.GFpX
