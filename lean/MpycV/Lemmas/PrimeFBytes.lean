/-
Serialisation lemmas for `MpycV.PrimeF.toBytes/fromBytes` (≙ `FiniteFieldElement.to_bytes/from_bytes`),
the `byte_length` rule, the signed/unsigned integer views and the pickle record.
-/
import Mathlib.Data.ZMod.Basic
import MpycV.Lemmas.PrimeF

namespace MpycV.PrimeF

/-! ### `bit_length` and `byte_length` -/

theorem lt_two_pow_bitLength (n : Nat) : n < 2 ^ bitLength n := by
  unfold bitLength
  split
  · rename_i h; subst h; decide
  · exact Nat.lt_log2_self

theorem lt_pow_byteLength {v q : Nat} (h : v < q) : v < 256 ^ byteLength q := by
  have h1 := lt_two_pow_bitLength q
  have h2 : bitLength q ≤ 8 * byteLength q := by
    unfold byteLength; rw [Nat.shiftRight_eq_div_pow]; omega
  calc v < q := h
    _ < 2 ^ bitLength q := h1
    _ ≤ 2 ^ (8 * byteLength q) := Nat.pow_le_pow_right (by decide) h2
    _ = 256 ^ byteLength q := by rw [pow_mul]; rfl

theorem byteLength_pos {q : Nat} (hq : 0 < q) : 0 < byteLength q := by
  have hb : 0 < bitLength q := by unfold bitLength; rw [if_neg (by omega)]; omega
  unfold byteLength; rw [Nat.shiftRight_eq_div_pow]; omega

/-- `byte_length` is not wasteful by more than the `bit_length(order)` rule implies: `256^(byteLength q - 1) ≤ q`
(equality exactly for `q = 256^k`, e.g. GF(2^8) uses 2 bytes per element) -/
theorem byteLength_tight {q : Nat} (hq : 1 ≤ q) : 256 ^ (byteLength q - 1) ≤ q := by
  have hq0 : q ≠ 0 := by omega
  have hlog : 2 ^ q.log2 ≤ q := Nat.log2_self_le hq0
  have h2 : 8 * (byteLength q - 1) ≤ q.log2 := by
    unfold byteLength bitLength; rw [if_neg hq0, Nat.shiftRight_eq_div_pow]; omega
  calc 256 ^ (byteLength q - 1) = 2 ^ (8 * (byteLength q - 1)) := by rw [pow_mul]; rfl
    _ ≤ 2 ^ q.log2 := Nat.pow_le_pow_right (by decide) h2
    _ ≤ q := hlog

/-! ### little-endian digits -/

theorem leBytes_length (r v : Nat) : (leBytes r v).length = r := by
  induction r generalizing v with
  | zero => rfl
  | succ r ih => simp [leBytes, ih]

theorem leBytes_lt (r v : Nat) : ∀ b ∈ leBytes r v, b < 256 := by
  induction r generalizing v with
  | zero => simp [leBytes]
  | succ r ih =>
    intro b hb
    simp only [leBytes, List.mem_cons] at hb
    rcases hb with rfl | hb
    · omega
    · exact ih _ b hb

theorem ofLE_leBytes (r v : Nat) (h : v < 256 ^ r) : ofLE (leBytes r v) = v := by
  induction r generalizing v with
  | zero => simp at h; subst h; rfl
  | succ r ih =>
    have : v / 256 < 256 ^ r := by
      rw [Nat.div_lt_iff_lt_mul (by decide)]; rw [pow_succ] at h; exact h
    simp only [leBytes, ofLE, ih _ this]
    omega

/-! ### `to_bytes` / `from_bytes` -/

/-- the concatenated fixed-width encodings -/
def enc (r : Nat) (xs : List Nat) : List Nat := (xs.map (leBytes r)).flatten

theorem enc_length (r : Nat) (xs : List Nat) : (enc r xs).length = r * xs.length := by
  induction xs with
  | nil => simp [enc]
  | cons x xs ih =>
    simp only [enc, List.map_cons, List.flatten_cons, List.length_append, leBytes_length, List.length_cons] at ih ⊢
    rw [ih]; ring

theorem intToBytes_ok (r v : Nat) (h : v < 256 ^ r) : intToBytes r (v : Int) = .ok (leBytes r v) := by
  unfold intToBytes
  rw [if_neg (by omega), Int.toNat_natCast, if_neg (by omega)]

theorem intToBytes_overflow (r : Nat) (v : Int) (h : v < 0 ∨ (256 : Int) ^ r ≤ v) :
    intToBytes r v = .error .overflow := by
  unfold intToBytes
  rcases h with h | h
  · rw [if_pos h]
  · have h0 : 0 ≤ v := le_trans (_root_.pow_nonneg (show (0 : Int) ≤ 256 by decide) r) h
    have : 256 ^ r ≤ v.toNat := by
      have : ((256 ^ r : Nat) : Int) ≤ v := by exact_mod_cast h
      omega
    rw [if_neg (by omega), if_pos this]

theorem toBytes_ok (r : Nat) (xs : List Nat) (h : ∀ v ∈ xs, v < 256 ^ r) :
    toBytes r (xs.map (fun v : Nat => (v : Int))) = .ok (enc r xs) := by
  induction xs with
  | nil => rfl
  | cons x xs ih =>
    have hx := h x (by simp)
    have hxs : ∀ v ∈ xs, v < 256 ^ r := fun v hv => h v (by simp [hv])
    simp only [List.map_cons, toBytes, intToBytes_ok r x hx, ih hxs]
    rfl

theorem chunksF_enc (r : Nat) (hr : 0 < r) (xs : List Nat) : ∀ f, (enc r xs).length ≤ f →
    chunksF r f (enc r xs) = xs.map (leBytes r) := by
  induction xs with
  | nil =>
    intro f _
    cases f <;> simp [chunksF, enc]
  | cons x xs ih =>
    intro f hf
    have hlen : (enc r (x :: xs)).length = r + (enc r xs).length := by
      simp [enc, leBytes_length]
    have henc : enc r (x :: xs) = leBytes r x ++ enc r xs := by simp [enc]
    cases f with
    | zero => omega
    | succ f =>
      have hne : enc r (x :: xs) ≠ [] := by
        intro h0; rw [h0] at hlen; simp at hlen; omega
      rw [chunksF, if_neg (by intro h; rcases h with h | h; omega; exact hne h)]
      have htake : (enc r (x :: xs)).take r = leBytes r x := by
        rw [henc, List.take_left' (leBytes_length r x)]
      have hdrop : (enc r (x :: xs)).drop r = enc r xs := by
        rw [henc, List.drop_left' (leBytes_length r x)]
      rw [htake, hdrop, ih f (by omega)]
      rfl

theorem fromBytes_enc (r : Nat) (hr : 0 < r) (xs : List Nat) (h : ∀ v ∈ xs, v < 256 ^ r) :
    fromBytes r (enc r xs) = .ok xs := by
  unfold fromBytes chunks
  rw [if_neg (by omega), chunksF_enc r hr xs _ (Nat.le_refl _), List.map_map]
  congr 1
  have : ∀ v ∈ xs, (ofLE ∘ leBytes r) v = id v := fun v hv => ofLE_leBytes r v (h v hv)
  rw [List.map_congr_left this, List.map_id]

/-! ### signed view -/

theorem signed_cast (p : Nat) [NeZero p] (a : Nat) : ((signed p a : Int) : ZMod p) = (a : ZMod p) := by
  unfold signed
  split <;> simp

theorem signed_range (p a : Nat) (ha : a < p) : -(p : Int) < 2 * signed p a ∧ 2 * signed p a ≤ (p : Int) := by
  unfold signed
  rw [Nat.shiftRight_eq_div_pow]
  split <;> omega

theorem mk_signed (p a : Nat) (ha : a < p) : mk p (signed p a) = a := by
  have : NeZero p := ⟨by omega⟩
  apply eq_of_cast (mk_lt (by omega) _) ha
  rw [mk_cast, signed_cast]

theorem signed_mk (p : Nat) (x : Int) (h1 : -(p : Int) < 2 * x) (h2 : 2 * x ≤ (p : Int)) :
    signed p (mk p x) = x := by
  have hp : 0 < p := by omega
  have hc := pmod_coe p hp x
  unfold mk signed
  rw [Nat.shiftRight_eq_div_pow]
  by_cases hx : 0 ≤ x
  · have : x % (p : Int) = x := Int.emod_eq_of_lt hx (by omega)
    rw [this] at hc
    split <;> omega
  · have : x % (p : Int) = x + p := by
      have h3 : (x + p) % (p : Int) = x + p := Int.emod_eq_of_lt (by omega) (by omega)
      rw [← h3]; simp
    rw [this] at hc
    split <;> omega

end MpycV.PrimeF
