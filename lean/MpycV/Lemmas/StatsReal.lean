/-
Lemmas for C34 (statistics): correlation / linear regression formulas (fixed-point branch; the numeric
closeness of the fixed-point arithmetic itself is validated by the harness, here only the real-number
identities between mpyc's formulas and CPython's).
-/
import Mathlib.Analysis.Real.Sqrt
import Mathlib.Tactic.Ring
import Mathlib.Tactic.FieldSimp
namespace MpycV.Stats

/-- mpyc: `sxy / (_fsqrt(sxx) * _fsqrt(syy))` -/
noncomputable def corrMpyc (sxy sxx syy : ℝ) : ℝ := sxy / (Real.sqrt sxx * Real.sqrt syy)
/-- CPython 3.10+: `sxy / sqrt(sxx * syy)` -/
noncomputable def corrPy (sxy sxx syy : ℝ) : ℝ := sxy / Real.sqrt (sxx * syy)

theorem corrMpyc_eq_corrPy (sxy sxx syy : ℝ) (hx : 0 ≤ sxx) : corrMpyc sxy sxx syy = corrPy sxy sxx syy := by
  unfold corrMpyc corrPy; rw [Real.sqrt_mul hx]

/-- mpyc `linear_regression`: `slope = sxy / sxx`, `intercept = ybar - slope * xbar` -/
noncomputable def linregMpyc (sxy sxx xbar ybar : ℝ) : ℝ × ℝ :=
  let slope := sxy / sxx
  (slope, ybar - slope * xbar)
/-- CPython `linear_regression` (proportional=False): `slope = sxy / sxx`, `intercept = ybar - slope * xbar` -/
noncomputable def linregPy (sxy sxx xbar ybar : ℝ) : ℝ × ℝ := (sxy / sxx, ybar - sxy / sxx * xbar)

/-- `Σ (xᵢ - x̄)(yᵢ - ȳ) = Σ xᵢ yᵢ - n x̄ ȳ` for `x̄ = Σx / n`, `ȳ = Σy / n`, lists of equal length `n` -/
theorem cov_sum_identity : ∀ (x y : List ℝ), x.length = y.length → ∀ (xbar ybar : ℝ),
    (List.zipWith (fun a b => (a - xbar) * (b - ybar)) x y).sum =
      (List.zipWith (fun a b => a * b) x y).sum - xbar * y.sum - ybar * x.sum + x.length * xbar * ybar
  | [], [], _, _, _ => by simp
  | a :: x, b :: y, h, xbar, ybar => by
    have h' : x.length = y.length := by simpa using h
    simp only [List.zipWith_cons_cons, List.sum_cons, List.length_cons, cov_sum_identity x y h' xbar ybar]
    push_cast; ring

theorem cov_sum_identity_mean (x y : List ℝ) (h : x.length = y.length) (hn : x ≠ []) :
    (List.zipWith (fun a b => (a - x.sum / x.length) * (b - y.sum / y.length)) x y).sum =
      (List.zipWith (fun a b => a * b) x y).sum - x.length * (x.sum / x.length) * (y.sum / y.length) := by
  have hx : (x.length : ℝ) ≠ 0 := by
    have : x.length ≠ 0 := by simpa using hn
    exact_mod_cast this
  rw [cov_sum_identity x y h, ← h]
  field_simp
  ring

end MpycV.Stats
