/-
Serialisation of extension / binary field elements: `int(value)` is below the order, `F(int(value)) = value`,
hence the byte round trip of `Lemmas/PrimeFBytes.lean` carries over.
-/
import MpycV.Lemmas.PrimeFBytes
import MpycV.Lemmas.ExtF
import MpycV.Lemmas.BinF

set_option linter.unusedSectionVars false

namespace MpycV.ExtF
open MpycV.GFpX

variable {p : ℕ} [hpf : Fact p.Prime] {m : Poly}

theorem toInt_lt_order (_hm : IsModulus p m) {a : Poly} (ha : Red p m a) : toInt p a < order p m := by
  unfold toInt order
  rw [toInt_eq]
  calc Nat.ofDigits p a < p ^ a.length := Nat.ofDigits_lt_base_pow_length hpf.out.one_lt ha.1.1
    _ ≤ p ^ (m.length - 1) := Nat.pow_le_pow_right hp0 (by have := ha.2; omega)

theorem ofInt_toInt (hm : IsModulus p m) {a : Poly} (ha : Red p m a) : ofInt p m ((toInt p a : ℕ) : ℤ) = a := by
  unfold ofInt toInt
  rw [fromInt_nonneg, digits_toInt hpf.out.one_lt ha.1, mk_of_red hm ha]

theorem order_pos (hm : IsModulus p m) : 0 < order p m := lt_of_lt_of_le hp0 (order_ge' hm)
where
  order_ge' (hm : IsModulus p m) : p ≤ order p m := by
    have h1 := hm.irr.natDegree_pos
    rw [natDegree_toPoly hm.wf hm.ne_nil] at h1
    unfold order
    calc p = p ^ 1 := (pow_one p).symm
      _ ≤ p ^ (m.length - 1) := Nat.pow_le_pow_right hp0 h1

/-- byte round trip for lists of class-invariant values -/
theorem from_to_bytes (hm : IsModulus p m) (xs : List Poly) (h : ∀ a ∈ xs, Red p m a) :
    ∃ bs, toBytes p m xs = .ok bs ∧ bs.length = byteLength p m * xs.length ∧ fromBytes p m bs = .ok xs := by
  let ns := xs.map (toInt p)
  have hns : ∀ v ∈ ns, v < order p m := by
    intro v hv
    obtain ⟨a, ha, rfl⟩ := List.mem_map.mp hv
    exact toInt_lt_order hm (h a ha)
  have hr : ∀ v ∈ ns, v < 256 ^ byteLength p m := fun v hv => PrimeF.lt_pow_byteLength (hns v hv)
  have hbl : 0 < byteLength p m := PrimeF.byteLength_pos (order_pos hm)
  refine ⟨PrimeF.enc (byteLength p m) ns, ?_, ?_, ?_⟩
  · unfold toBytes
    have := PrimeF.toBytes_ok (byteLength p m) ns hr
    rw [← this, List.map_map]; rfl
  · rw [PrimeF.enc_length, List.length_map]
  · unfold fromBytes
    rw [PrimeF.fromBytes_enc _ hbl ns hr]
    show Except.ok _ = _
    congr 1
    show List.map (fun (v : ℕ) => ofInt p m (v : ℤ)) (List.map (toInt p) xs) = xs
    rw [List.map_map]
    have : ∀ a ∈ xs, ((fun (v : ℕ) => ofInt p m (v : ℤ)) ∘ toInt p) a = id a :=
      fun a ha => ofInt_toInt hm (h a ha)
    rw [List.map_congr_left this, List.map_id]

end MpycV.ExtF

namespace MpycV.BinF
open MpycV.BinPoly (bitLen)

variable {m : ℕ}

theorem lt_order_of_bred {a : ℕ} (ha : BRed m a) : a < order m := by
  unfold order BRed at *
  exact BinPoly.bitLen_le_iff.mp (by omega)

theorem ofInt_of_bred {a : ℕ} (ha : BRed m a) : ofInt m (a : ℤ) = a := by
  unfold ofInt mk BinPoly.fromInt BinPoly.modCore
  rw [Int.natAbs_natCast]
  simp only
  rw [if_pos (show bitLen a < bitLen m from ha)]

theorem from_to_bytes (xs : List ℕ) (h : ∀ a ∈ xs, BRed m a) :
    ∃ bs, toBytes m xs = .ok bs ∧ bs.length = byteLength m * xs.length ∧ fromBytes m bs = .ok xs := by
  have hr : ∀ v ∈ xs, v < 256 ^ byteLength m :=
    fun v hv => PrimeF.lt_pow_byteLength (lt_order_of_bred (h v hv))
  have hpos : 0 < order m := by unfold order; positivity
  have hbl : 0 < byteLength m := PrimeF.byteLength_pos hpos
  refine ⟨PrimeF.enc (byteLength m) xs, ?_, PrimeF.enc_length _ xs, ?_⟩
  · unfold toBytes
    exact PrimeF.toBytes_ok (byteLength m) xs hr
  · unfold fromBytes
    rw [PrimeF.fromBytes_enc _ hbl xs hr]
    show Except.ok _ = _
    congr 1
    show List.map (fun (v : ℕ) => ofInt m (v : ℤ)) xs = xs
    have : ∀ a ∈ xs, (fun (v : ℕ) => ofInt m (v : ℤ)) a = id a := fun a ha => ofInt_of_bred (h a ha)
    rw [List.map_congr_left this, List.map_id]

end MpycV.BinF
