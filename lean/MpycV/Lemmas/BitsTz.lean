/-
Lemmas for C30, trailing_zeros: positions up to and including the least significant 1 carry the true
bits for every randomness (`xor_core`, `trailingZeros_spec'`).
-/
import MpycV.Lemmas.BitsFind

namespace MpycV.Bits

/-! ### trailing_zeros -/

/-- `r_i xor c_i` as computed by `[1-r if (c >> i)&1 else r …]` -/
def xorSel (ri ci : Int) : Int := if ci = 1 then 1 - ri else ri

theorem xor_core : ∀ (r : List Int) (l i : Nat) (a : Int), IsBits r → r.length = l → i < l → (2 : Int) ^ i ∣ a →
    (List.zipWith xorSel r (bitsOf (a + fromBits r) l)).getD i 0 = (a / 2 ^ i) % 2
  | [], l, i, a, _, hl, hi, _ => by simp at hl; omega
  | b :: r, 0, i, a, _, hl, hi, _ => by omega
  | b :: r, l + 1, 0, a, hr, hl, _, _ => by
      obtain ⟨hb, _⟩ := isBits_cons.mp hr
      rw [bitsOf_succ, fromBits_cons, List.zipWith_cons_cons]
      simp only [List.getD_cons_zero, pow_zero, Int.ediv_one]
      unfold xorSel
      have h0 := Int.emod_nonneg a (by decide : (2 : Int) ≠ 0)
      have h1 := Int.emod_lt_of_pos a (by decide : (0 : Int) < 2)
      rcases hb with rfl | rfl <;> split <;> omega
  | b :: r, l + 1, i + 1, a, hr, hl, hi, hd => by
      obtain ⟨hb, hr'⟩ := isBits_cons.mp hr
      rw [bitsOf_succ, fromBits_cons, List.zipWith_cons_cons, List.getD_cons_succ]
      have h2 : (2 : Int) ∣ a := Dvd.dvd.trans ⟨2 ^ i, by rw [pow_succ]; ring⟩ hd
      obtain ⟨a', rfl⟩ := h2
      have hd' : (2 : Int) ^ i ∣ a' := by
        rw [pow_succ, mul_comm] at hd
        exact (mul_dvd_mul_iff_left (by decide : (2 : Int) ≠ 0)).mp hd
      have e1 : (2 * a' + (b + 2 * fromBits r)) / 2 = a' + fromBits r := by
        rcases hb with rfl | rfl <;> omega
      have e2 : 2 * a' / 2 ^ (i + 1) = a' / 2 ^ i := by
        rw [pow_succ, mul_comm ((2 : Int) ^ i) 2, Int.mul_ediv_mul_of_pos _ _ (by decide)]
      rw [e1, e2]
      exact xor_core r l i a' hr' (by simpa using hl) (by omega) hd'

/-- `trailing_zeros(a, l)`: every position up to and including the least significant 1 of `a`
(i.e. every i < l with 2^i ∣ a) carries the true bit of `a`, whatever the random values are. -/
theorem trailingZeros_spec' (L : Nat) (a : Int) (l : Nat) (rbits : List Int) (rdivl : Int)
    (hr : IsBits rbits) (hrl : l ≤ rbits.length) (hL : l ≤ L) (i : Nat) (hi : i < l) (hd : (2 : Int) ^ i ∣ a) :
    (trailingZeros L a l rbits rdivl).getD i 0 = (a / 2 ^ i) % 2 := by
  unfold trailingZeros
  simp only
  have hlen : (rbits.take l).length = l := by rw [List.length_take]; omega
  have hbits : IsBits (rbits.take l) := fun b hb => hr b (List.mem_of_mem_take hb)
  rw [bitsOf_emod]
  have hK : (2 : Int) ^ L = 2 ^ l * 2 ^ (L - l) := by rw [← pow_add]; congr 1; omega
  have e : a + (2 ^ L + rdivl * 2 ^ l + fromBits (rbits.take l))
      = (a + fromBits (rbits.take l)) + 2 ^ l * (2 ^ (L - l) + rdivl) := by rw [hK]; ring
  rw [e, ← bitsOf_emod, Int.add_mul_emod_self_left, bitsOf_emod]
  exact xor_core _ l i a hbits hlen hi hd

theorem isBits_zipWith_xorSel : ∀ (r c : List Int), IsBits r → IsBits (List.zipWith xorSel r c)
  | [], _, _ => by simp [isBits_nil]
  | _ :: _, [], _ => by simp [isBits_nil]
  | b :: r, d :: c, h => by
      obtain ⟨hb, hr⟩ := isBits_cons.mp h
      rw [List.zipWith_cons_cons]
      refine isBits_cons.mpr ⟨?_, isBits_zipWith_xorSel r c hr⟩
      unfold xorSel
      split <;> rcases hb with rfl | rfl <;> simp

theorem isBits_trailingZeros (L : Nat) (a : Int) (l : Nat) (rbits : List Int) (rdivl : Int) (hr : IsBits rbits) :
    IsBits (trailingZeros L a l rbits rdivl) :=
  isBits_zipWith_xorSel _ _ (fun b hb => hr b (List.mem_of_mem_take hb))

theorem length_trailingZeros (L : Nat) (a : Int) (l : Nat) (rbits : List Int) (rdivl : Int)
    (hrl : l ≤ rbits.length) : (trailingZeros L a l rbits rdivl).length = l := by
  unfold trailingZeros
  simp [length_bitsOf, List.length_take]; omega

end MpycV.Bits
