/-
Lemmas for C30, gcp2: bitwise or of two trailing_zeros vectors, then find with f(i) = 2^i.
-/
import MpycV.Lemmas.BitsTz

set_option linter.unusedSimpArgs false
namespace MpycV.Bits

/-! ### gcp2 -/

theorem idxOf_one_eq : ∀ (z : List Int) (t : Nat), t ≤ z.length → (∀ i, i < t → z.getD i 0 ≠ 1) →
    (t < z.length → z.getD t 0 = 1) → z.idxOf 1 = t
  | [], t, ht, _, _ => by simp at ht; simp [ht]
  | c :: z, 0, _, _, h1 => by
      have : c = 1 := by simpa using h1 (by simp)
      simp [List.idxOf_cons, this]
  | c :: z, t + 1, ht, h0, h1 => by
      have hc : c ≠ 1 := by simpa using h0 0 (by omega)
      have hc' : (c == 1) = false := by simpa using hc
      rw [List.idxOf_cons, hc']
      simp only [cond_false]
      congr 1
      exact idxOf_one_eq z t (by simpa using ht) (fun i hi => by simpa using h0 (i + 1) (by omega))
        (fun h => by simpa using h1 (by simpa using h))

def gcp2Cs (b i : Int) : List Int := [(b + 1) * 2 ^ i.toNat]

theorem consistent_gcp2Cs : Consistent (.givenCs gcp2Cs) := by
  refine ⟨?_, fun _ _ => rfl⟩
  intro i b hi hb
  simp only [FSpec.cs, FSpec.f, gcp2Cs]
  rcases hb with rfl | rfl
  · simp
  · have : (i + 1).toNat = i.toNat + 1 := by omega
    rw [this, pow_succ]; ring_nf

theorem bit_zero_of_dvd {a : Int} {i : Nat} (h : (2 : Int) ^ (i + 1) ∣ a) : (a / 2 ^ i) % 2 = 0 := by
  obtain ⟨q, rfl⟩ := h
  have : (2 : Int) ^ (i + 1) * q = 2 ^ i * (2 * q) := by rw [pow_succ]; ring
  rw [this, Int.mul_ediv_cancel_left _ (by positivity)]; omega

theorem dvd_succ_of_bit_zero {a : Int} {t : Nat} (hd : (2 : Int) ^ t ∣ a) (h : (a / 2 ^ t) % 2 = 0) :
    (2 : Int) ^ (t + 1) ∣ a := by
  obtain ⟨q, rfl⟩ := hd
  rw [Int.mul_ediv_cancel_left _ (by positivity)] at h
  obtain ⟨q', rfl⟩ : (2 : Int) ∣ q := Int.dvd_of_emod_eq_zero h
  exact ⟨q', by rw [pow_succ]; ring⟩

theorem getD_zipWith_or (x y : List Int) (i : Nat) (hx : i < x.length) (hy : i < y.length) :
    (List.zipWith (fun xi yi => xi + yi - xi * yi) x y).getD i 0
      = x.getD i 0 + y.getD i 0 - x.getD i 0 * y.getD i 0 := by
  simp only [List.getD_eq_getElem?_getD, List.getElem?_zipWith, List.getElem?_eq_getElem hx,
    List.getElem?_eq_getElem hy]
  rfl

theorem isBits_zipWith_or : ∀ (x y : List Int), IsBits x → IsBits y →
    IsBits (List.zipWith (fun xi yi => xi + yi - xi * yi) x y)
  | [], _, _, _ => by simp [isBits_nil]
  | _ :: _, [], _, _ => by simp [isBits_nil]
  | a :: x, b :: y, hx, hy => by
      obtain ⟨ha, hx'⟩ := isBits_cons.mp hx
      obtain ⟨hb, hy'⟩ := isBits_cons.mp hy
      rw [List.zipWith_cons_cons]
      refine isBits_cons.mpr ⟨?_, isBits_zipWith_or x y hx' hy'⟩
      rcases ha with rfl | rfl <;> rcases hb with rfl | rfl <;> simp

/-- `gcp2(a, b, l)` = 2^t where 2^t is the greatest common power of two of a and b among 2^0..2^l -/
theorem gcp2_spec' (L : Nat) (a b : Int) (l : Nat) (ra : List Int) (rda : Int) (rb : List Int) (rdb : Int)
    (hra : IsBits ra) (hrb : IsBits rb) (hla : l ≤ ra.length) (hlb : l ≤ rb.length) (hL : l ≤ L)
    (t : Nat) (ht : t ≤ l) (hda : (2 : Int) ^ t ∣ a) (hdb : (2 : Int) ^ t ∣ b)
    (hmax : t < l → ¬ ((2 : Int) ^ (t + 1) ∣ a ∧ (2 : Int) ^ (t + 1) ∣ b)) :
    gcp2 L a b l ra rda rb rdb = 2 ^ t := by
  unfold gcp2
  simp only
  generalize hx : trailingZeros L a l ra rda = x
  generalize hy : trailingZeros L b l rb rdb = y
  have hxl : x.length = l := by rw [← hx]; exact length_trailingZeros L a l ra rda hla
  have hyl : y.length = l := by rw [← hy]; exact length_trailingZeros L b l rb rdb hlb
  have hxb : IsBits x := by rw [← hx]; exact isBits_trailingZeros L a l ra rda hra
  have hyb : IsBits y := by rw [← hy]; exact isBits_trailingZeros L b l rb rdb hrb
  have hxi : ∀ i, i < l → (2 : Int) ^ i ∣ a → x.getD i 0 = (a / 2 ^ i) % 2 := fun i hi hd => by
    rw [← hx]; exact trailingZeros_spec' L a l ra rda hra hla hL i hi hd
  have hyi : ∀ i, i < l → (2 : Int) ^ i ∣ b → y.getD i 0 = (b / 2 ^ i) % 2 := fun i hi hd => by
    rw [← hy]; exact trailingZeros_spec' L b l rb rdb hrb hlb hL i hi hd
  generalize hz : List.zipWith (fun xi yi => xi + yi - xi * yi) x y = z
  have hzl : z.length = l := by rw [← hz]; simp [hxl, hyl]
  have hzb : IsBits z := by rw [← hz]; exact isBits_zipWith_or x y hxb hyb
  have hpow : ∀ i, i ≤ t → (2 : Int) ^ i ∣ a ∧ (2 : Int) ^ i ∣ b := fun i hi =>
    ⟨Dvd.dvd.trans (pow_dvd_pow 2 hi) hda, Dvd.dvd.trans (pow_dvd_pow 2 hi) hdb⟩
  have hidx : z.idxOf 1 = t := by
    apply idxOf_one_eq z t (by omega)
    · intro i hi
      rw [← hz, getD_zipWith_or x y i (by omega) (by omega), hxi i (by omega) (hpow i (by omega)).1,
        hyi i (by omega) (hpow i (by omega)).2, bit_zero_of_dvd (hpow (i + 1) (by omega)).1,
        bit_zero_of_dvd (hpow (i + 1) (by omega)).2]
      decide
    · intro htl
      rw [hzl] at htl
      rw [← hz, getD_zipWith_or x y t (by omega) (by omega), hxi t htl hda, hyi t htl hdb]
      have h0a := Int.emod_nonneg (a / 2 ^ t) (by decide : (2 : Int) ≠ 0)
      have h1a := Int.emod_lt_of_pos (a / 2 ^ t) (by decide : (0 : Int) < 2)
      have h0b := Int.emod_nonneg (b / 2 ^ t) (by decide : (2 : Int) ≠ 0)
      have h1b := Int.emod_lt_of_pos (b / 2 ^ t) (by decide : (0 : Int) < 2)
      have hnot : ¬ ((a / 2 ^ t) % 2 = 0 ∧ (b / 2 ^ t) % 2 = 0) := fun h =>
        hmax htl ⟨dvd_succ_of_bit_zero hda h.1, dvd_succ_of_bit_zero hdb h.2⟩
      have ea : (a / 2 ^ t) % 2 = 0 ∨ (a / 2 ^ t) % 2 = 1 := by omega
      have eb : (b / 2 ^ t) % 2 = 0 ∨ (b / 2 ^ t) % 2 = 1 := by omega
      rcases ea with h | h <;> rcases eb with h' | h' <;> simp [h, h'] at hnot ⊢
  have hfind := find_spec' .pubBit 1 z none (.givenCs gcp2Cs) ⟨Or.inr rfl, hzb⟩ consistent_gcp2Cs
  have hcs : (fun (b i : Int) => [(b + 1) * 2 ^ i.toNat]) = gcp2Cs := rfl
  rw [hcs, hfind, hidx]
  simp [FSpec.f, gcp2Cs]

end MpycV.Bits
