/-
Binary fields: the bitmask model `MpycV.BinF` (≙ `BinaryFieldElement`) agrees with the list model `MpycV.ExtF` at
p = 2 through `BinPoly.toList` (bit i ↦ coefficient i, lemmas of area GFpX in `GFpXBin.lean`); all field facts are
then inherited from `Lemmas/ExtF.lean`.
-/
import MpycV.Lemmas.GFpXBin
import MpycV.Lemmas.ExtF

namespace MpycV.BinF

open MpycV.GFpX (Poly WF)
open MpycV.BinPoly (toList bitLen)
open MpycV.PrimeF (Err)

local instance : Fact (Nat.Prime 2) := Nat.fact_prime_two

/-- class invariant: degree below the degree of the modulus -/
def BRed (m a : ℕ) : Prop := bitLen a < bitLen m

theorem red_iff (m a : ℕ) : ExtF.Red 2 (toList m) (toList a) ↔ BRed m a := by
  unfold ExtF.Red BRed
  rw [BinPoly.toList_length, BinPoly.toList_length]
  exact ⟨fun h => h.2, fun h => ⟨BinPoly.toList_wf a, h⟩⟩

/-- what `xGF` checks for a binary modulus -/
theorem isModulus_of_check {m : ℕ} (h : BinPoly.isIrreducible m = true) : ExtF.IsModulus 2 (toList m) := by
  rw [BinPoly.isIrreducible_agree] at h
  exact ExtF.isModulus_of_check (BinPoly.toList_wf m) h

theorem ne_zero_of_check {m : ℕ} (h : BinPoly.isIrreducible m = true) : m ≠ 0 := by
  intro h0; subst h0; simp [BinPoly.isIrreducible] at h

theorem map_lift {α β : Type} (f : α → β) (x : Except GFpX.Err α) :
    (ExtF.lift x).map f = ExtF.lift (x.map f) := by
  cases x with
  | ok v => rfl
  | error e => cases e <;> rfl

theorem toListAux_eq_digitsAux : ∀ f a, BinPoly.toListAux f a = GFpX.digitsAux 2 f a := by
  intro f
  induction f with
  | zero => intro a; rfl
  | succ f ih => intro a; simp only [BinPoly.toListAux, GFpX.digitsAux, ih]

theorem toList_fromInt (x : ℤ) : toList (BinPoly.fromInt x) = GFpX.fromInt 2 x := by
  unfold BinPoly.fromInt GFpX.fromInt
  have hd : toList x.natAbs = GFpX.digits 2 x.natAbs := toListAux_eq_digitsAux _ _
  rw [hd]
  split
  · -- negative: negating base-2 digits changes nothing
    symm
    have hred := (GFpX.wf_digits (p := 2) (by decide) x.natAbs).1
    have : ∀ r ∈ GFpX.digits 2 x.natAbs, (if r = 0 then 0 else 2 - r) = id r := by
      intro r hr; have := hred r hr
      have : r = 0 ∨ r = 1 := by omega
      rcases this with rfl | rfl <;> rfl
    rw [List.map_congr_left this, List.map_id]
  · rfl

variable {m : ℕ}

theorem toList_mk (hm : m ≠ 0) (v : ℕ) : toList (mk m v) = ExtF.mk 2 (toList m) (toList v) :=
  BinPoly.toList_modCore v hm

theorem toList_ofInt (hm : m ≠ 0) (x : ℤ) : toList (ofInt m x) = ExtF.ofInt 2 (toList m) x := by
  unfold ofInt ExtF.ofInt; rw [toList_mk hm, toList_fromInt]

theorem toList_add' (hm : m ≠ 0) (a o : ℕ) :
    toList (add m a o) = ExtF.add 2 (toList m) (toList a) (toList o) := by
  unfold add ExtF.add; rw [toList_mk hm, BinPoly.toList_add]

theorem toList_sub' (hm : m ≠ 0) (a o : ℕ) :
    toList (sub m a o) = ExtF.sub 2 (toList m) (toList a) (toList o) := by
  unfold sub ExtF.sub; rw [toList_mk hm, BinPoly.toList_sub]

theorem toList_neg' (hm : m ≠ 0) (a : ℕ) : toList (neg m a) = ExtF.neg 2 (toList m) (toList a) := by
  unfold neg ExtF.neg; rw [toList_mk hm, BinPoly.toList_neg]

theorem toList_mul' (hm : m ≠ 0) (a o : ℕ) :
    toList (mul m a o) = ExtF.mul 2 (toList m) (toList a) (toList o) := by
  unfold mul ExtF.mul; rw [toList_mk hm, BinPoly.toList_mul]

theorem toList_reciprocalRaw (o : ℕ) :
    (reciprocalRaw m o).map toList = ExtF.reciprocalRaw 2 (toList m) (toList o) := by
  unfold reciprocalRaw ExtF.reciprocalRaw
  rw [map_lift, BinPoly.toList_invert]

theorem map_map_except {α β γ : Type} (f : α → β) (g : β → γ) (x : Except Err α) :
    (x.map f).map g = x.map (g ∘ f) := by
  cases x <;> rfl

theorem toList_reciprocal (hm : m ≠ 0) (a : ℕ) :
    (reciprocal m a).map toList = ExtF.reciprocal 2 (toList m) (toList a) := by
  unfold reciprocal ExtF.reciprocal
  rw [← toList_reciprocalRaw, map_map_except, map_map_except]
  congr 1; funext r; exact toList_mk hm r

theorem toList_truediv (hm : m ≠ 0) (a o : ℕ) :
    (truediv m a o).map toList = ExtF.truediv 2 (toList m) (toList a) (toList o) := by
  unfold truediv ExtF.truediv
  rw [← toList_reciprocalRaw, map_map_except, map_map_except]
  congr 1; funext r; exact toList_mul' hm a r

theorem toList_pow (hm : m ≠ 0) (a : ℕ) (n : ℤ) :
    (pow m a n).map toList = ExtF.pow 2 (toList m) (toList a) n := by
  unfold pow ExtF.pow
  have := BinPoly.toList_powmod a n (some m)
  simp only [Option.map_some] at this
  rw [← this, ← map_lift, map_map_except, map_map_except]
  congr 1; funext r; exact toList_mk hm r

theorem toList_lshift' (hm : m ≠ 0) (a n : ℕ) :
    (lshift m a (n : ℤ)).map toList = .ok (ExtF.lshift 2 (toList m) (toList a) (n : ℤ)) := by
  unfold lshift ExtF.lshift ExtF.polyShl
  rw [if_neg (by omega), if_neg (by omega), Int.toNat_natCast]
  show Except.ok (toList _) = _
  rw [toList_mk hm, BinPoly.toList_lshift]

theorem toList_rshift' (hm : m ≠ 0) (a : ℕ) (n : ℤ) :
    (rshift m a n).map toList = ExtF.rshift 2 (toList m) (toList a) n := by
  unfold rshift ExtF.rshift
  cases h : MpycV.PrimeF.shl 1 n with
  | error e => rfl
  | ok v =>
    simp only
    rw [← toList_fromInt, ← toList_reciprocalRaw, map_map_except, map_map_except]
    congr 1; funext r; exact toList_mul' hm a r

/-- an `Except` value is determined by its image under the injective `toList` -/
theorem except_toList_inj {x y : Except Err ℕ} (h : x.map toList = y.map toList) : x = y := by
  cases x with
  | error e => cases y with
    | error e' => simpa [Except.map] using h
    | ok v => simp [Except.map] at h
  | ok v => cases y with
    | error e' => simp [Except.map] at h
    | ok v' =>
      simp only [Except.map, Except.ok.injEq] at h
      rw [BinPoly.toList_injective h]

theorem exists_of_map_toList {x : Except Err ℕ} {r' : Poly} (h : x.map toList = .ok r') :
    ∃ r, x = .ok r ∧ toList r = r' := by
  cases x with
  | error e => simp [Except.map] at h
  | ok v => exact ⟨v, rfl, by simpa [Except.map] using h⟩

theorem error_of_map_toList {x : Except Err ℕ} {e : Err} (h : x.map toList = .error e) : x = .error e := by
  cases x with
  | error e' => simpa [Except.map] using h
  | ok v => simp [Except.map] at h

theorem toList_zero : toList 0 = [] := BinPoly.toList_eq_nil_iff.mpr rfl

theorem fromInt_two : GFpX.fromInt 2 2 = [0, 1] := by decide

open Polynomial in
/-- the class of the integer `2^n` (= the polynomial `X^n`) -/
theorem phi_two_pow (M : Poly) (n : ℕ) :
    ExtF.φ 2 M (GFpX.fromInt 2 ((2 : ℤ) ^ n)) = (AdjoinRoot.root (GFpX.toPoly 2 M)) ^ n := by
  have h1 : GFpX.fromInt 2 ((2 : ℤ) ^ n) = toList (2 ^ n) := by
    rw [← toList_fromInt]; congr 1
  unfold ExtF.φ
  rw [h1]
  show AdjoinRoot.mk _ (BinPoly.binToPoly (2 ^ n)) = _
  rw [BinPoly.binToPoly_two_pow, map_pow, AdjoinRoot.mk_X]

end MpycV.BinF
