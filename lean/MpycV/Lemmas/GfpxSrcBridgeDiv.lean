/-
Bridge, part 3: the translated `_divmod`, `_mod`, `_monic` (Lemmas/GfpxSrcMirror.lean) equal the model
`GFpX.divmod`, `GFpX.mod`, `GFpX.monic`, `GFpX.monicInv`; `gmpy2.invert` on a unit of GF(p) is the Fermat inverse
`invModP` of the model.
-/
import MpycV.Lemmas.GfpxSrcMirror
import MpycV.Lemmas.GfpxSrcLoops
import MpycV.Lemmas.GFpXDiv
import MpycV.Lemmas.NumThEuclid

namespace MpycV.GfpxBridge
open MpycV.PyList MpycV.PyLoop MpycV.PyPoly MpycV.GFpX

/-! ### gmpy2.invert -/

/-- gmpy2.invert on a unit of GF(p) is the Fermat inverse used by the model -/
theorem invertE_eq (p : ℕ) [Fact p.Prime] {x : ℕ} (h0 : 0 < x) (hx : x < p) :
    invertE (x : Int) (p : Int) = .ok ((invModP p x : ℕ) : Int) := by
  have hp : p.Prime := Fact.out
  have h1 : 1 < ((p : Int)).natAbs := by simpa using hp.one_lt
  have hg : Int.gcd (x : Int) (p : Int) = 1 := by
    rw [Int.gcd_natCast_natCast]
    exact Nat.coprime_comm.mp ((Nat.Prime.coprime_iff_not_dvd hp).mpr (Nat.not_dvd_of_pos_of_lt h0 hx))
  obtain ⟨y, hy, hy0, hylt, hmod⟩ := (NumTh.invert_main (x : Int) (p : Int) h1).2 hg
  unfold invertE
  rw [hy]
  simp only [Int.natAbs_natCast] at hylt hmod
  lift y to ℕ using hy0.le
  have hylt' : y < p := by exact_mod_cast hylt
  have hxz : (x : ZMod p) ≠ 0 := natCast_ne_zero_of_lt hx (by omega)
  have hmul : (x : ZMod p) * (y : ZMod p) = 1 := by
    have := congrArg (fun z : Int => (z : ZMod p)) hmod
    simp only [ZMod.intCast_mod] at this
    push_cast at this
    exact this
  have hyz : (y : ZMod p) = ((invModP p x : ℕ) : ZMod p) := by
    rw [invModP_cast hxz]
    exact eq_inv_of_mul_eq_one_right hmul
  have := natCast_inj_of_lt hylt' (invModP_lt hp.pos x) hyz
  rw [this]

/-! ### small list facts -/

theorem up_getLastD (l : List ℕ) : (up l).getLastD 0 = ((l.getLastD 0 : ℕ) : Int) := by
  rw [List.getLastD_eq_getLast?, List.getLastD_eq_getLast?, up, List.getLast?_map]
  cases l.getLast? <;> rfl

theorem zipIdx_eq_map_range (b : List Int) :
    b.zipIdx = (List.range b.length).map (fun j => (b.getD j 0, j)) := by
  apply List.ext_getElem
  · simp
  · intro i h1 h2
    simp at h1
    simp [List.getD_eq_getElem?_getD, List.getElem?_eq_getElem h1]

theorem replicate_succ_append_set (i : ℕ) (w : Int) (l : List Int) :
    (List.replicate (i + 1) (0 : Int) ++ l).set i w = List.replicate i (0 : Int) ++ w :: l := by
  induction i with
  | zero => rfl
  | succ i ih =>
    rw [List.replicate_succ, List.cons_append, List.set_cons_succ, ih, List.replicate_succ, List.cons_append]

/-! ### the elimination step `r[i+j] = (r[i+j] - q_i*b[j]) % p`, `j < len b` -/

def gSubD (p q : Int) (x y : Int) : Int := (x - q * y) % p

theorem gSubD_cast {p : ℕ} (hp : 0 < p) (q x y : ℕ) :
    gSubD (p : Int) (q : Int) (x : Int) (y : Int) = ((subMulMod p q x y : ℕ) : Int) := by
  unfold gSubD subMulMod
  rw [Int.toNat_of_nonneg (Int.emod_nonneg _ (by omega))]

theorem updAt_subD_up {p : ℕ} (hp : 0 < p) (q : ℕ) : ∀ (r b : List ℕ),
    updAt (gSubD p q) 0 (up r) (up b) = up (subScaled p q r b) := by
  intro r
  induction r with
  | nil => intro b; cases b <;> rfl
  | cons x r ih =>
    intro b
    cases b with
    | nil => simp [updAt_nil, subScaled]
    | cons y b =>
      simp only [up_cons, updAt, subScaled, gSubD_cast hp]
      rw [ih b]

theorem updAt_subAt_up {p : ℕ} (hp : 0 < p) (q : ℕ) : ∀ (i : ℕ) (r b : List ℕ),
    updAt (gSubD p q) i (up r) (up b) = up (subScaledAt p q i r b) := by
  intro i
  induction i with
  | zero => intro r b; rw [subScaledAt]; exact updAt_subD_up hp q r b
  | succ i ih =>
    intro r b
    cases r with
    | nil => rfl
    | cons x r => simp only [up_cons, updAt, subScaledAt]; rw [ih r b]

/-- body of the inner loop of `_mod` / `_divmod` -/
def innerBody (p : Int) (b : List Int) (i q_i : Int) : Int → List Int → Except TErr (List Int) :=
  fun it_ st_ => match it_, st_ with
    | j, r =>
      if pyIdxOk r.length (i + j) = false then .error .indexError else
      if pyIdxOk b.length j = false then .error .indexError else
      let r := pySet r (i + j) ((pyGet r (i + j)) - (q_i * (pyGet b j)))
      if pyIdxOk r.length (i + j) = false then .error .indexError else
      let r := pySet r (i + j) ((pyGet r (i + j)) % p)
      .ok r

theorem div_inner_loop (p qi : Int) (i : ℕ) (b r : List Int) (h : i + b.length ≤ r.length) :
    pyFor (ε := TErr) (σ := List Int) (pyRange 0 (b.length : Int)) r (innerBody p b (i : Int) qi)
      = .ok (updAt (gSubD p qi) i r b) := by
  have key := pyFor_eq_foldl (ε := TErr) (fun (s : List Int) => s.length = r.length)
    (fun s (j : Int) => s.set (i + j.toNat) (gSubD p qi (s.getD (i + j.toNat) 0) (b.getD j.toNat 0)))
    (innerBody p b (i : Int) qi) (pyRange 0 (b.length : Int)) r rfl (by
      intro s x hx hs
      rw [pyRange_zero_nat] at hx
      simp only [List.mem_map, List.mem_range] at hx
      obtain ⟨j, hj, rfl⟩ := hx
      have hjs : i + j < s.length := by rw [hs]; omega
      refine ⟨?_, by simp [hs]⟩
      have e : (i : Int) + (j : Int) = ((i + j : ℕ) : Int) := by push_cast; rfl
      have hok : pyIdxOk s.length ((i + j : ℕ) : Int) = true := pyIdxOk_nat hjs
      have hok2 : ∀ w, pyIdxOk (s.set (i + j) w).length ((i + j : ℕ) : Int) = true := fun w => by
        rw [List.length_set]; exact hok
      have hokb : pyIdxOk b.length (j : Int) = true := pyIdxOk_nat hj
      simp only [innerBody, e, hok, hok2, hokb, pyGet_nat, pySet_nat, Bool.true_eq_false, if_false,
        List.getD_eq_getElem?_getD, List.getElem?_set_self hjs, Option.getD_some, List.set_set,
        Int.toNat_natCast]
      rfl)
  rw [key.1, pyRange_zero_nat, List.foldl_map]
  have := foldl_enum_set (gSubD p qi) i b 0 r
  rw [zipIdx_eq_map_range, List.foldl_map] at this
  simp only [Int.toNat_natCast, Nat.add_zero] at this ⊢
  rw [this]

/-! ### the outer loops -/

theorem pyRangeDown_succ (k : ℕ) :
    pyRangeDown (((k + 1 : ℕ) : Int) - 1) (-1) = (k : Int) :: pyRangeDown ((k : Int) - 1) (-1) := by
  rw [pyRangeDown_nat, pyRangeDown_nat, List.range_succ, List.reverse_append]
  rfl

/-- body of the loop of `_divmod` -/
def divBody (p : Int) (b : List Int) (b1 n : Int) :
    Int → List Int × List Int → Except TErr (List Int × List Int) :=
  fun it_ st_ => match it_, st_ with
    | i, (q, r) =>
      if (r.length : Int) ≥ (i + n) then
        if pyIdxOk r.length (-1) = false then .error .indexError else
        let w2 := (((pyGet r (-1)) * b1) % p)
        if pyIdxOk q.length i = false then .error .indexError else
        let q := pySet q i w2
        let q_i := w2
        match pyFor (ε := TErr) (σ := List Int) (pyRange 0 n) r (innerBody p b i q_i) with
        | .error exc_ => .error exc_
        | .ok r =>
          let r := pyStrip r
          .ok (q, r)
      else
        .ok (q, r)

/-- body of the loop of `_mod` -/
def modBody (p : Int) (b : List Int) (b1 n : Int) : Int → List Int → Except TErr (List Int) :=
  fun it_ st_ => match it_, st_ with
    | i, r =>
      if (r.length : Int) ≥ (i + n) then
        if pyIdxOk r.length (-1) = false then .error .indexError else
        let q_i := (((pyGet r (-1)) * b1) % p)
        match pyFor (ε := TErr) (σ := List Int) (pyRange 0 n) r (innerBody p b i q_i) with
        | .error exc_ => .error exc_
        | .ok r =>
          let r := pyStrip r
          .ok r
      else
        .ok r

theorem divmod_unfold (p : Int) (a b : List Int) : GfpxMirror.divmod p a b =
    if b = ([] : List Int) then .error .zeroDivisionError
    else if (a.length : Int) < (b.length : Int) then .ok (([] : List Int), a)
    else if pyIdxOk b.length (-1) = false then .error .indexError
    else match invertE (pyGet b (-1)) p with
      | .error exc_ => .error exc_
      | .ok b1 =>
        match pyFor (ε := TErr) (σ := List Int × List Int) (pyRangeDown ((a.length : Int) - (b.length : Int)) (-1))
            ((List.replicate ((((a.length : Int) - (b.length : Int)) + 1)).toNat (0 : Int)), a)
            (divBody p b b1 (b.length : Int)) with
        | .error exc_ => .error exc_
        | .ok (q, r) => .ok (q, r) := rfl

theorem mod_unfold (p : Int) (a b : List Int) : GfpxMirror.mod p a b =
    if b = ([] : List Int) then .error .zeroDivisionError
    else if (a.length : Int) < (b.length : Int) then .ok a
    else if pyIdxOk b.length (-1) = false then .error .indexError
    else match invertE (pyGet b (-1)) p with
      | .error exc_ => .error exc_
      | .ok b1 =>
        match pyFor (ε := TErr) (σ := List Int) (pyRangeDown ((a.length : Int) - (b.length : Int)) (-1)) a
            (modBody p b b1 (b.length : Int)) with
        | .error exc_ => .error exc_
        | .ok r => .ok r := rfl

/-- the quotient digit -/
theorem qdigit_cast (p : ℕ) (r : List ℕ) (b1 : ℕ) :
    (pyGet (up r) (-1) * (b1 : Int)) % (p : Int) = (((r.getLastD 0 * b1) % p : ℕ) : Int) ∨ r = [] := by
  by_cases hr : r = []
  · exact Or.inr hr
  · left
    have : up r ≠ [] := fun h => hr (up_eq_nil.mp h)
    rw [pyGet_neg_one this, up_getLastD]
    push_cast
    rfl

theorem divBody_step {p : ℕ} (hp : 0 < p) {b : List ℕ} (hb : b ≠ []) (b1 i : ℕ) (q r : List ℕ) :
    divBody (p : Int) (up b) (b1 : Int) ((up b).length : Int) (i : Int)
        (List.replicate (i + 1) (0 : Int) ++ up q, up r)
      = .ok (List.replicate i (0 : Int) ++ up ((divStep p b b1 i r).1 :: q), up (divStep p b b1 i r).2) := by
  have hbl : 0 < b.length := List.length_pos_of_ne_nil hb
  unfold divBody divStep
  by_cases hg : r.length ≥ i + b.length
  · have hg' : ((up r).length : Int) ≥ (i : Int) + ((up b).length : Int) := by
      simp only [up_length]; exact_mod_cast hg
    have hr : r ≠ [] := List.ne_nil_of_length_pos (by omega)
    have hr' : up r ≠ [] := fun h => hr (up_eq_nil.mp h)
    have hq := (qdigit_cast p r b1).resolve_right hr
    have hqi : pyIdxOk (List.replicate (i + 1) (0 : Int) ++ up q).length (i : Int) = true :=
      pyIdxOk_nat (by simp; omega)
    simp only [hg', hg, if_true, pyIdxOk_neg_one hr', hqi, Bool.true_eq_false, if_false, hq]
    rw [div_inner_loop _ _ i (up b) (up r) (by simpa using hg), updAt_subAt_up hp]
    simp only [pyStrip_up, pySet_nat, replicate_succ_append_set, up_cons]
  · have hg' : ¬ ((up r).length : Int) ≥ (i : Int) + ((up b).length : Int) := by
      simp only [up_length]; intro h; exact hg (by exact_mod_cast h)
    simp only [hg', hg, if_false, up_cons, Nat.cast_zero, List.replicate_succ']
    simp

theorem modBody_step {p : ℕ} (hp : 0 < p) {b : List ℕ} (hb : b ≠ []) (b1 i : ℕ) (r : List ℕ) :
    modBody (p : Int) (up b) (b1 : Int) ((up b).length : Int) (i : Int) (up r)
      = .ok (up (divStep p b b1 i r).2) := by
  have hbl : 0 < b.length := List.length_pos_of_ne_nil hb
  unfold modBody divStep
  by_cases hg : r.length ≥ i + b.length
  · have hg' : ((up r).length : Int) ≥ (i : Int) + ((up b).length : Int) := by
      simp only [up_length]; exact_mod_cast hg
    have hr : r ≠ [] := List.ne_nil_of_length_pos (by omega)
    have hr' : up r ≠ [] := fun h => hr (up_eq_nil.mp h)
    have hq := (qdigit_cast p r b1).resolve_right hr
    simp only [hg', hg, if_true, pyIdxOk_neg_one hr', Bool.true_eq_false, if_false, hq]
    rw [div_inner_loop _ _ i (up b) (up r) (by simpa using hg), updAt_subAt_up hp]
    simp only [pyStrip_up]
  · have hg' : ¬ ((up r).length : Int) ≥ (i : Int) + ((up b).length : Int) := by
      simp only [up_length]; intro h; exact hg (by exact_mod_cast h)
    simp only [hg', hg, if_false]

theorem divmod_loop {p : ℕ} (hp : 0 < p) {b : List ℕ} (hb : b ≠ []) (b1 : ℕ) : ∀ (k : ℕ) (q r : List ℕ),
    pyFor (ε := TErr) (σ := List Int × List Int) (pyRangeDown ((k : Int) - 1) (-1))
        (List.replicate k (0 : Int) ++ up q, up r) (divBody (p : Int) (up b) (b1 : Int) ((up b).length : Int))
      = .ok (up (divmodLoop p b b1 k q r).1, up (divmodLoop p b b1 k q r).2) := by
  intro k
  induction k with
  | zero =>
    intro q r
    have : pyRangeDown (((0 : ℕ) : Int) - 1) (-1) = [] := by rw [pyRangeDown_nat]; rfl
    rw [this]
    simp [pyFor, divmodLoop]
  | succ k ih =>
    intro q r
    rw [pyRangeDown_succ, pyFor, divBody_step hp hb]
    simp only [divmodLoop]
    exact ih _ _

theorem modD_loop {p : ℕ} (hp : 0 < p) {b : List ℕ} (hb : b ≠ []) (b1 : ℕ) : ∀ (k : ℕ) (r : List ℕ),
    pyFor (ε := TErr) (σ := List Int) (pyRangeDown ((k : Int) - 1) (-1))
        (up r) (modBody (p : Int) (up b) (b1 : Int) ((up b).length : Int))
      = .ok (up (modLoop p b b1 k r)) := by
  intro k
  induction k with
  | zero =>
    intro r
    have : pyRangeDown (((0 : ℕ) : Int) - 1) (-1) = [] := by rw [pyRangeDown_nat]; rfl
    rw [this]
    simp [pyFor, modLoop]
  | succ k ih =>
    intro r
    rw [pyRangeDown_succ, pyFor, modBody_step hp hb]
    simp only [modLoop]
    exact ih _

/-- the leading coefficient of a well-formed nonzero polynomial is a unit -/
theorem lc_unit {p : ℕ} {b : List ℕ} (hb : WF p b) (hne : b ≠ []) :
    0 < b.getLastD 0 ∧ b.getLastD 0 < p :=
  ⟨Nat.pos_of_ne_zero ((normalised_iff_getLastD hne).mp hb.2), getLastD_lt hb.1 hne⟩

theorem invert_lc (p : ℕ) [Fact p.Prime] {b : List ℕ} (hb : WF p b) (hne : b ≠ []) :
    invertE (pyGet (up b) (-1)) (p : Int) = .ok ((invModP p (b.getLastD 0) : ℕ) : Int) := by
  have hne' : up b ≠ [] := fun h => hne (up_eq_nil.mp h)
  rw [pyGet_neg_one hne', up_getLastD]
  exact invertE_eq p (lc_unit hb hne).1 (lc_unit hb hne).2

/-- `_divmod` of the pinned source = the model -/
theorem divmod_eq (p : ℕ) [Fact p.Prime] (a : List ℕ) {b : List ℕ} (hb : WF p b) :
    GfpxMirror.divmod (p : Int) (up a) (up b) = liftE (fun qr => (up qr.1, up qr.2)) (GFpX.divmod p a b) := by
  have hp : 0 < p := (Fact.out : p.Prime).pos
  rw [divmod_unfold]
  unfold GFpX.divmod
  by_cases hne : b = []
  · subst hne; simp [liftE]
  · have hne' : up b ≠ [] := fun h => hne (up_eq_nil.mp h)
    rw [if_neg hne', if_neg hne]
    unfold divmodCore
    by_cases hlt : a.length < b.length
    · have hlt' : ((up a).length : Int) < ((up b).length : Int) := by simpa using hlt
      rw [if_pos hlt', if_pos hlt]; rfl
    · have hlt' : ¬ ((up a).length : Int) < ((up b).length : Int) := by simpa using hlt
      rw [if_neg hlt', if_neg hlt, pyIdxOk_neg_one hne', invert_lc p hb hne]
      have e1 : ((up a).length : Int) - ((up b).length : Int) = ((a.length - b.length + 1 : ℕ) : Int) - 1 := by
        simp only [up_length]; omega
      have e2 : (((a.length - b.length + 1 : ℕ) : Int) - 1 + 1).toNat = a.length - b.length + 1 := by omega
      simp only [Bool.true_eq_false, if_false]
      rw [e1, e2]
      have := divmod_loop hp hne (invModP p (b.getLastD 0)) (a.length - b.length + 1) [] a
      simp only [up_nil, List.append_nil] at this
      rw [this]
      rfl

/-- `_mod` of the pinned source = the model -/
theorem mod_eq (p : ℕ) [Fact p.Prime] (a : List ℕ) {b : List ℕ} (hb : WF p b) :
    GfpxMirror.mod (p : Int) (up a) (up b) = liftE up (GFpX.mod p a b) := by
  have hp : 0 < p := (Fact.out : p.Prime).pos
  rw [mod_unfold]
  unfold GFpX.mod
  by_cases hne : b = []
  · subst hne; simp [liftE]
  · have hne' : up b ≠ [] := fun h => hne (up_eq_nil.mp h)
    rw [if_neg hne', if_neg hne]
    unfold modCore
    by_cases hlt : a.length < b.length
    · have hlt' : ((up a).length : Int) < ((up b).length : Int) := by simpa using hlt
      rw [if_pos hlt', if_pos hlt]; rfl
    · have hlt' : ¬ ((up a).length : Int) < ((up b).length : Int) := by simpa using hlt
      rw [if_neg hlt', if_neg hlt, pyIdxOk_neg_one hne', invert_lc p hb hne]
      have e1 : ((up a).length : Int) - ((up b).length : Int) = ((a.length - b.length + 1 : ℕ) : Int) - 1 := by
        simp only [up_length]; omega
      simp only [Bool.true_eq_false, if_false]
      rw [e1, modD_loop hp hne (invModP p (b.getLastD 0)) (a.length - b.length + 1) a]
      rfl

theorem mod_N_eq (p : Int) (a : List Int) : GfpxMirror.mod_N p a = .ok a := rfl

/-! ### monic -/

/-- body of the loop of `_monic` -/
def monicBody (p a1 : Int) : Int → List Int → Except TErr (List Int) :=
  fun it_ st_ => match it_, st_ with
    | i, a =>
      if pyIdxOk a.length i = false then .error .indexError else
      let a := pySet a i ((pyGet a i) * a1)
      if pyIdxOk a.length i = false then .error .indexError else
      let a := pySet a i ((pyGet a i) % p)
      .ok a

/-- the part of `_monic` shared by both return modes -/
def monicCore (p : Int) (a : List Int) : Except TErr (List Int × Int) :=
  let a1 := (if a ≠ [] then (pyGet a (-1)) else 0)
  if (a ≠ [] ∧ a1 ≠ 1) then
    match invertE a1 p with
    | .error exc_ => .error exc_
    | .ok a1 =>
      match pyFor (ε := TErr) (σ := List Int) (pyRange 0 ((a.length : Int) - 1)) a (monicBody p a1) with
      | .error exc_ => .error exc_
      | .ok a =>
        if pyIdxOk a.length (-1) = false then .error .indexError else
        let a := pySet a (-1) 1
        .ok (a, a1)
  else
    .ok (a, a1)

theorem monic_lc_unfold (p : Int) (a : List Int) : GfpxMirror.monic_lc p a =
    if (a ≠ []) ∧ pyIdxOk a.length (-1) = false then .error .indexError else
    match monicCore p a with
    | .error exc_ => .error exc_
    | .ok (a, a1) => .ok (a, a1) := rfl

theorem monic_unfold (p : Int) (a : List Int) : GfpxMirror.monic p a =
    if (a ≠ []) ∧ pyIdxOk a.length (-1) = false then .error .indexError else
    match monicCore p a with
    | .error exc_ => .error exc_
    | .ok (a, _a1) => .ok a := rfl

theorem monic_loop (p a1 : Int) (a : List Int) (n : ℕ) (hn : n ≤ a.length) :
    pyFor (ε := TErr) (σ := List Int) (pyRange 0 (n : Int)) a (monicBody p a1)
      = .ok (mapFirst (fun x => x * a1 % p) n a) := by
  have key := pyFor_eq_foldl (ε := TErr) (fun (s : List Int) => s.length = a.length)
    (fun s (j : Int) => s.set j.toNat ((fun x => x * a1 % p) (s.getD j.toNat 0)))
    (monicBody p a1) (pyRange 0 (n : Int)) a rfl (by
      intro s x hx hs
      rw [pyRange_zero_nat] at hx
      simp only [List.mem_map, List.mem_range] at hx
      obtain ⟨j, hj, rfl⟩ := hx
      have hjs : j < s.length := by rw [hs]; omega
      refine ⟨?_, by simp [hs]⟩
      have hok : pyIdxOk s.length (j : Int) = true := pyIdxOk_nat hjs
      have hok2 : ∀ w, pyIdxOk (s.set j w).length (j : Int) = true := fun w => by
        rw [List.length_set]; exact hok
      simp only [monicBody, hok, hok2, pyGet_nat, pySet_nat, Bool.true_eq_false, if_false,
        List.getD_eq_getElem?_getD, List.getElem?_set_self hjs, Option.getD_some, List.set_set,
        Int.toNat_natCast])
  rw [key.1, pyRange_zero_nat, List.foldl_map]
  have := foldl_range_set (fun x => x * a1 % p) n a hn
  simp only [Int.toNat_natCast] at this ⊢
  rw [this]

theorem mapFirst_set_last (f : Int → Int) (v : Int) : ∀ (a : List Int), a ≠ [] →
    (mapFirst f (a.length - 1) a).set (a.length - 1) v = a.dropLast.map f ++ [v] := by
  intro a
  induction a with
  | nil => intro h; exact absurd rfl h
  | cons x a ih =>
    intro _
    cases a with
    | nil => rfl
    | cons y a =>
      have := ih (by simp)
      simp only [List.length_cons, Nat.add_sub_cancel] at this ⊢
      simp only [mapFirst, List.set_cons_succ, List.dropLast_cons_cons, List.map_cons, List.cons_append]
      rw [this]

theorem up_scale_dropLast (p a1 : ℕ) (a : List ℕ) :
    (up a).dropLast.map (fun x => x * (a1 : Int) % (p : Int)) ++ [1]
      = up ((a.dropLast.map fun x => x * a1 % p) ++ [1]) := by
  simp only [up, List.map_append, List.map_dropLast, List.map_map, List.map_cons, List.map_nil]
  rfl

theorem monicCore_eq (p : ℕ) [Fact p.Prime] {a : List ℕ} (ha : WF p a) :
    monicCore (p : Int) (up a) = .ok (up (monicInv p a).1, ((monicInv p a).2 : Int)) := by
  cases a with
  | nil => simp [monicCore, monicInv]
  | cons x l =>
    have hne : x :: l ≠ [] := by simp
    have hne' : up (x :: l) ≠ [] := fun h => hne (up_eq_nil.mp h)
    unfold monicCore monicInv
    simp only [if_pos hne', pyGet_neg_one hne', up_getLastD]
    by_cases h1 : (x :: l).getLastD 0 = 1
    · have h1' : (((x :: l).getLastD 0 : ℕ) : Int) = 1 := by rw [h1]; rfl
      simp only [h1, ne_eq, not_true_eq_false, and_false, if_false, if_true, Nat.cast_one]
    · have h1' : (((x :: l).getLastD 0 : ℕ) : Int) ≠ 1 := by exact_mod_cast h1
      rw [if_pos ⟨hne', h1'⟩, if_neg h1, invertE_eq p (lc_unit ha hne).1 (lc_unit ha hne).2]
      have e : ((up (x :: l)).length : Int) - 1 = (((up (x :: l)).length - 1 : ℕ) : Int) := by
        simp
      simp only
      rw [e, monic_loop _ _ _ _ (by omega)]
      have hm : mapFirst (fun x_1 => x_1 * ((invModP p ((x :: l).getLastD 0) : ℕ) : Int) % (p : Int))
          ((up (x :: l)).length - 1) (up (x :: l)) ≠ [] := by
        intro h
        have := congrArg List.length h
        rw [length_mapFirst] at this
        simp at this
      have hok := pyIdxOk_neg_one hm
      simp only [hok, Bool.true_eq_false, if_false, pySet_neg_one hm]
      rw [length_mapFirst]
      rw [mapFirst_set_last _ _ _ hne', up_scale_dropLast]

theorem monic_lc_eq (p : ℕ) [Fact p.Prime] {a : List ℕ} (ha : WF p a) :
    GfpxMirror.monic_lc (p : Int) (up a) = .ok (up (monicInv p a).1, ((monicInv p a).2 : Int)) := by
  rw [monic_lc_unfold, monicCore_eq p ha]
  by_cases hne : up a = []
  · simp [hne]
  · have h := pyIdxOk_neg_one hne
    simp only [up_length] at h
    simp [hne, h]

theorem monic_eq (p : ℕ) [Fact p.Prime] {a : List ℕ} (ha : WF p a) :
    GfpxMirror.monic (p : Int) (up a) = .ok (up (GFpX.monic p a)) := by
  rw [monic_unfold, monicCore_eq p ha]
  unfold GFpX.monic
  by_cases hne : up a = []
  · simp [hne]
  · have h := pyIdxOk_neg_one hne
    simp only [up_length] at h
    simp [hne, h]

end MpycV.GfpxBridge
