import MpycV.Lemmas.NumThRoots
import MpycV.Lemmas.NumThPrime2

namespace MpycV.NumTh

/-! ### factor_prime_power: soundness -/

theorem searchUp_ok {isP : Int → Bool} {step : Int} {fuel : Nat} {c p : Int}
    (h : searchUp isP step fuel c = .ok p) : isP p = true := by
  induction fuel generalizing c with
  | zero => simp [searchUp] at h
  | succ f ih =>
    simp only [searchUp] at h
    split at h
    · next hc => cases h; exact hc
    · exact ih h

theorem nextPrime_ok {isP : Int → Bool} {x p : Int} (h : nextPrime isP x = .ok p) :
    p = 2 ∨ isP p = true := by
  unfold nextPrime at h
  split at h
  · cases h; exact Or.inl rfl
  · exact Or.inr (searchUp_ok h)

theorem divOut_spec (p : Int) (hp : 1 < p) (fuel : Nat) (x : Int) (d d' : Nat) (hx : 0 < x)
    (h : divOut p fuel x d = .ok d') : x * p ^ d = p ^ d' := by
  induction fuel generalizing x d with
  | zero => simp [divOut] at h
  | succ f ih =>
    simp only [divOut] at h
    split at h
    · next hx1 =>
      split at h
      · next hdiv =>
        have hdvd : p ∣ x := Int.dvd_of_emod_eq_zero hdiv
        obtain ⟨c, rfl⟩ := hdvd
        have hc : p * c / p = c := Int.mul_ediv_cancel_left c (by omega)
        rw [hc] at h
        have hcpos : 0 < c := by
          by_contra hn
          have : p * c ≤ 0 := Int.mul_nonpos_of_nonneg_of_nonpos (by omega) (by omega)
          omega
        have := ih c (d + 1) hcpos h
        rw [← this, pow_succ]; ring
      · simp at h
    · next hx1 =>
      have : x = 1 := by omega
      simp only [Except.ok.injEq] at h
      subst h this
      simp

theorem fppSmall_spec (isP : Int → Bool) (hS : ∀ q, isP q = true → Nat.Prime q.toNat) (x : Int) (hx : 1 < x)
    (fuel : Nat) (p : Int) (hp : p = 2 ∨ isP p = true) (q : Int) (d : Nat)
    (h : fppSmall isP x fuel p = .ok (some (q, d))) : Nat.Prime q.toNat ∧ q ^ d = x := by
  induction fuel generalizing p with
  | zero => simp [fppSmall] at h
  | succ f ih =>
    have hpp : Nat.Prime p.toNat := by
      rcases hp with rfl | hp
      · exact Nat.prime_two
      · exact hS p hp
    simp only [fppSmall] at h
    split at h
    · split at h
      · split at h
        · simp at h
        · next d0 hd =>
          simp only [Except.ok.injEq, Option.some.injEq, Prod.mk.injEq] at h
          obtain ⟨rfl, rfl⟩ := h
          have h2 := hpp.two_le
          have := divOut_spec p (by omega) _ x 0 d0 (by omega) hd
          exact ⟨hpp, by rw [← this]; simp⟩
      · split at h
        · simp at h
        · next p' hn => exact ih p' (nextPrime_ok hn) h
    · simp at h

theorem isSquare_true {p : Int} (h : isSquare p = .ok true) : ∃ r, isqrt p = .ok r ∧ r ^ 2 = p := by
  unfold isSquare at h
  simp only [] at h
  by_cases h1 : p < 0
  · rw [if_pos h1] at h; simp at h
  · rw [if_neg h1] at h
    by_cases h2 : ¬ (p % 16 = 0 ∨ p % 16 = 1 ∨ p % 16 = 4 ∨ p % 16 = 9)
    · rw [if_pos h2] at h; simp at h
    · rw [if_neg h2] at h
      cases hq : isqrt p with
      | error e => rw [hq] at h; simp at h
      | ok y =>
        rw [hq] at h
        simp only [Except.ok.injEq, beq_iff_eq] at h
        exact ⟨y, rfl, h.symm⟩

theorem fppSquares_spec (fuel : Nat) (p : Int) (d : Nat) (p' : Int) (d' : Nat)
    (h : fppSquares fuel p d = .ok (p', d')) : p' ^ d' = p ^ d := by
  induction fuel generalizing p d with
  | zero => simp [fppSquares] at h
  | succ f ih =>
    simp only [fppSquares] at h
    split at h
    · simp at h
    · next hsq =>
      obtain ⟨r, hr, hr2⟩ := isSquare_true hsq
      rw [hr] at h
      simp only [] at h
      rw [ih r (2 * d) h, pow_mul, hr2]
    · simp only [Except.ok.injEq, Prod.mk.injEq] at h
      obtain ⟨rfl, rfl⟩ := h; rfl

theorem iroot_true {x n w : Int} (h : iroot x n = .ok (w, true)) : w ^ n.toNat = x := by
  by_cases hc : x < 0 ∨ n ≤ 0
  · rw [(iroot_spec' x n).1 hc] at h; simp at h
  · obtain ⟨y, hy, _, _⟩ := (iroot_spec' x n).2 (by omega) (by omega)
    rw [hy] at h
    simp only [Except.ok.injEq, Prod.mk.injEq, beq_iff_eq] at h
    rw [← h.1]; exact h.2.symm

theorem fppRoots_spec (isP : Int → Bool) (fuel : Nat) (p : Int) (d : Nat) (e : Int) (p' : Int) (d' : Nat)
    (h : fppRoots isP fuel p d e = .ok (p', d')) : p' ^ d' = p ^ d := by
  induction fuel generalizing p d e with
  | zero => simp [fppRoots] at h
  | succ f ih =>
    simp only [fppRoots] at h
    split at h
    · split at h
      · simp at h
      · next w hw =>
        rw [ih w _ e h, pow_mul, iroot_true hw]
      · split at h
        · simp at h
        · next e' _ => exact ih p d e' h
    · simp only [Except.ok.injEq, Prod.mk.injEq] at h
      obtain ⟨rfl, rfl⟩ := h; rfl

theorem factorPrimePower_sound (isP : Int → Bool) (hS : ∀ q, isP q = true → Nat.Prime q.toNat)
    (x p : Int) (d : Nat) (h : factorPrimePower isP x = .ok (p, d)) :
    Nat.Prime p.toNat ∧ p ^ d = x := by
  unfold factorPrimePower at h
  split at h
  · simp at h
  · next hx =>
    split at h
    · simp at h
    · next r hr =>
      simp only [Except.ok.injEq] at h
      subst h
      exact fppSmall_spec isP hS x (by omega) 1024 2 (Or.inl rfl) p d hr
    · split at h
      · simp at h
      · next p1 d1 h1 =>
        split at h
        · simp at h
        · next p2 d2 h2 =>
          split at h
          · next hp2 =>
            simp only [Except.ok.injEq, Prod.mk.injEq] at h
            obtain ⟨rfl, rfl⟩ := h
            refine ⟨hS _ hp2, ?_⟩
            rw [fppRoots_spec isP _ _ _ _ _ _ h2, fppSquares_spec _ _ _ _ _ h1]; simp
          · simp at h

theorem factorPrimePower_small (isP : Int → Bool) (x : Int) (hx : x ≤ 1) :
    factorPrimePower isP x = .error .valueError := by
  unfold factorPrimePower; rw [if_pos hx]

end MpycV.NumTh
