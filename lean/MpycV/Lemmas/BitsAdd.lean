/-
Lemmas for C30, add_bits: the recursive carry network equals the ripple carries (`carries_eq`), the
final loop telescopes (`sumBits_value`), hence binary addition modulo 2^n (`addBits_spec'`).
-/
import MpycV.Lemmas.Bits

namespace MpycV.Bits

/-! ### add_bits: the carry network computes the ripple carries -/

/-- carries of a ripple-carry adder with carry-in `G`: `G' = ab + (a + b - 2ab) G` -/
def gseq : Int → List (Int × Int) → List Int
  | _, [] => []
  | G, (a, b) :: rest => (a * b + (a + b - a * b * 2) * G) :: gseq (a * b + (a + b - a * b * 2) * G) rest

/-- propagate products with initial value `P`: `P' = (a + b - 2ab) P` -/
def pseq : Int → List (Int × Int) → List Int
  | _, [] => []
  | P, (a, b) :: rest => ((a + b - a * b * 2) * P) :: pseq ((a + b - a * b * 2) * P) rest

theorem length_gseq : ∀ (seg : List (Int × Int)) (G : Int), (gseq G seg).length = seg.length
  | [], _ => rfl
  | (a, b) :: rest, G => by simp [gseq, length_gseq rest]

theorem length_pseq : ∀ (seg : List (Int × Int)) (P : Int), (pseq P seg).length = seg.length
  | [], _ => rfl
  | (a, b) :: rest, P => by simp [pseq, length_pseq rest]

theorem gseq_append : ∀ (L R : List (Int × Int)) (G : Int),
    gseq G (L ++ R) = gseq G L ++ gseq ((gseq G L).getLastD G) R
  | [], R, G => by simp [gseq]
  | (a, b) :: L, R, G => by
      simp only [List.cons_append, gseq, gseq_append L R]
      congr 2
      cases h : gseq (a * b + (a + b - a * b * 2) * G) L with
      | nil => simp
      | cons c cs => rfl

theorem pseq_append : ∀ (L R : List (Int × Int)) (P : Int),
    pseq P (L ++ R) = pseq P L ++ pseq ((pseq P L).getLastD P) R
  | [], R, P => by simp [pseq]
  | (a, b) :: L, R, P => by
      simp only [List.cons_append, pseq, pseq_append L R]
      congr 2
      cases h : pseq ((a + b - a * b * 2) * P) L with
      | nil => simp
      | cons c cs => rfl

/-- carries with carry-in `A + G0*B` from the carries with carry-in `A` and the propagates from `B` -/
theorem gseq_linear : ∀ (R : List (Int × Int)) (A B G0 : Int),
    gseq (A + G0 * B) R = List.zipWith (· + ·) (gseq A R) ((pseq B R).map (G0 * ·))
  | [], _, _, _ => rfl
  | (a, b) :: R, A, B, G0 => by
      simp only [gseq, pseq, List.map_cons, List.zipWith_cons_cons]
      have e : a * b + (a + b - a * b * 2) * (A + G0 * B)
          = (a * b + (a + b - a * b * 2) * A) + G0 * ((a + b - a * b * 2) * B) := by ring
      rw [e, gseq_linear R]

theorem pseq_linear : ∀ (R : List (Int × Int)) (B P0 : Int),
    pseq (P0 * B) R = (pseq B R).map (P0 * ·)
  | [], _, _ => rfl
  | (a, b) :: R, B, P0 => by
      simp only [pseq, List.map_cons]
      have e : (a + b - a * b * 2) * (P0 * B) = P0 * ((a + b - a * b * 2) * B) := by ring
      rw [e, pseq_linear R]

theorem split_half' {β : Type} (s : List β) (h : ¬ s.length < 2) :
    s.take (s.length / 2) ≠ [] ∧ s.drop (s.length / 2) ≠ [] := by
  constructor
  · intro h0; have := congrArg List.length h0; rw [List.length_take, List.length_nil] at this; omega
  · intro h0; have := congrArg List.length h0; rw [List.length_drop, List.length_nil] at this; omega

theorem getLastD_eq_of_ne_nil {l : List Int} (h : l ≠ []) (d d' : Int) : l.getLastD d = l.getLastD d' := by
  cases l with
  | nil => exact absurd rfl h
  | cons a t => rfl

/-- the recursive carry network of `add_bits` equals the ripple carries (c) and propagates (d) -/
theorem carries_eq (high : Bool) (seg : List (Int × Int)) :
    (carries high seg).1 = gseq 0 seg ∧ (high = true → (carries high seg).2 = pseq 1 seg) := by
  induction high, seg using carries.induct with
  | case1 high a b hlen =>
    rw [carries.eq_def]
    refine ⟨by simp [gseq], fun h => by simp [h, pseq]⟩
  | case2 high seg hlen hne =>
    match seg, hlen, hne with
    | [], _, _ => rw [carries.eq_def]; exact ⟨rfl, fun _ => rfl⟩
    | [(a, b)], _, hne => exact absurd rfl (hne a b)
    | _ :: _ :: _, hlen, _ => simp only [List.length_cons] at hlen; omega
  | case3 high seg hlen ihl ihr =>
    obtain ⟨hLne, hRne⟩ := split_half' seg hlen
    have hs : seg = seg.take (seg.length / 2) ++ seg.drop (seg.length / 2) := (List.take_append_drop _ _).symm
    rw [carries.eq_def]
    simp only [hlen, if_false]
    generalize seg.take (seg.length / 2) = Ls at *
    generalize seg.drop (seg.length / 2) = Rs at *
    have hpne : pseq 1 Ls ≠ [] := by
      intro h0; have := congrArg List.length h0; rw [length_pseq] at this
      exact hLne (List.eq_nil_of_length_eq_zero this)
    constructor
    · rw [hs, gseq_append, ihl.1, ihr.1, ihr.2 rfl]
      congr 1
      have := gseq_linear Rs 0 1 ((gseq 0 Ls).getLastD 0)
      simp only [zero_add, mul_one] at this
      exact this.symm
    · intro hh
      subst hh
      simp only [if_true]
      rw [hs, pseq_append, ihl.2 rfl, ihr.2 rfl]
      congr 1
      have := pseq_linear Rs 1 ((pseq 1 Ls).getLastD 0)
      simp only [mul_one] at this
      rw [getLastD_eq_of_ne_nil hpne 1 0]
      exact this.symm


theorem length_sumBits : ∀ (seg : List (Int × Int)) (cs : List Int) (cin : Int), cs.length = seg.length →
    (sumBits cin seg cs).length = seg.length
  | [], _, _, _ => by simp [sumBits]
  | (a, b) :: seg, [], _, h => by simp at h
  | (a, b) :: seg, c :: cs, cin, h => by
      simp only [sumBits, List.length_cons] at h ⊢
      rw [length_sumBits seg cs c (by omega)]

/-- telescoping identity of the final loop (pure algebra, no bit assumption) -/
theorem sumBits_value : ∀ (seg : List (Int × Int)) (cin : Int),
    fromBits (sumBits cin seg (gseq cin seg)) + 2 ^ seg.length * (gseq cin seg).getLastD cin
      = fromBits (seg.map Prod.fst) + fromBits (seg.map Prod.snd) + cin
  | [], cin => by simp [sumBits, gseq]
  | (a, b) :: rest, cin => by
      have ih := sumBits_value rest (a * b + (a + b - a * b * 2) * cin)
      simp only [gseq, sumBits, fromBits_cons, List.map_cons, List.length_cons, List.getLastD_cons, pow_succ]
      linarith

theorem bit_cases {a : Int} (h : a = 0 ∨ a = 1) : a = 0 ∨ a = 1 := h

theorem carry_isBit {a b c : Int} (ha : a = 0 ∨ a = 1) (hb : b = 0 ∨ b = 1) (hc : c = 0 ∨ c = 1) :
    (a * b + (a + b - a * b * 2) * c = 0 ∨ a * b + (a + b - a * b * 2) * c = 1) ∧
    (a + b - (a * b + (a + b - a * b * 2) * c) * 2 + c = 0 ∨
      a + b - (a * b + (a + b - a * b * 2) * c) * 2 + c = 1) := by
  rcases ha with rfl | rfl <;> rcases hb with rfl | rfl <;> rcases hc with rfl | rfl <;> simp

theorem sumBits_isBits : ∀ (seg : List (Int × Int)) (cin : Int), (cin = 0 ∨ cin = 1) →
    (∀ p ∈ seg, (p.1 = 0 ∨ p.1 = 1) ∧ (p.2 = 0 ∨ p.2 = 1)) →
    IsBits (sumBits cin seg (gseq cin seg)) ∧
      ((gseq cin seg).getLastD cin = 0 ∨ (gseq cin seg).getLastD cin = 1)
  | [], cin, hc, _ => by simp [sumBits, gseq, isBits_nil, hc]
  | (a, b) :: rest, cin, hc, h => by
      have hab := h (a, b) (by simp)
      have hcb := carry_isBit hab.1 hab.2 hc
      have ih := sumBits_isBits rest (a * b + (a + b - a * b * 2) * cin) hcb.1
        (fun p hp => h p (by simp [hp]))
      simp only [gseq, sumBits, List.getLastD_cons]
      exact ⟨isBits_cons.mpr ⟨hcb.2, ih.1⟩, ih.2⟩

theorem zip_isBits {x y : List Int} (hx : IsBits x) (hy : IsBits y) :
    ∀ p ∈ x.zip y, (p.1 = 0 ∨ p.1 = 1) ∧ (p.2 = 0 ∨ p.2 = 1) := by
  intro p hp
  have := List.of_mem_zip hp
  exact ⟨hx _ this.1, hy _ this.2⟩

theorem addBits_eq (x y : List Int) : addBits x y = sumBits 0 (x.zip y) (gseq 0 (x.zip y)) := by
  unfold addBits
  simp only [(carries_eq false (x.zip y)).1]

/-- `add_bits`: binary addition modulo 2^n -/
theorem addBits_spec' (x y : List Int) (hx : IsBits x) (hy : IsBits y) (hlen : x.length = y.length) :
    IsBits (addBits x y) ∧ (addBits x y).length = x.length ∧
    fromBits (addBits x y) = (fromBits x + fromBits y) % 2 ^ x.length ∧
    addBits x y = bitsOf (fromBits x + fromBits y) x.length := by
  have hzl : (x.zip y).length = x.length := by simp [List.length_zip, hlen]
  have hb := sumBits_isBits (x.zip y) 0 (Or.inl rfl) (zip_isBits hx hy)
  have hv := sumBits_value (x.zip y) 0
  rw [← addBits_eq] at hb hv
  have hl : (addBits x y).length = x.length := by
    rw [addBits_eq, length_sumBits _ _ _ (length_gseq _ _), hzl]
  rw [List.map_fst_zip (by omega), List.map_snd_zip (by omega), hzl, add_zero] at hv
  have h0 := fromBits_nonneg hb.1
  have h1 := fromBits_lt hb.1
  rw [hl] at h1
  have hval : fromBits (addBits x y) = (fromBits x + fromBits y) % 2 ^ x.length := by
    rw [← hv, Int.add_mul_emod_self_left]
    exact (Int.emod_eq_of_lt h0 h1).symm
  refine ⟨hb.1, hl, hval, ?_⟩
  have := eq_bitsOf_of_fromBits hb.1 (v := fromBits x + fromBits y) (by rw [hl]; exact hval)
  rw [hl] at this
  exact this

end MpycV.Bits
