/-
Bridge, part 5: `ThreshaMirror.f_S_i` (translated `_f_S_i`) = the model's `fSi` on the integer operations.
-/
import MpycV.Lemmas.ThreshaSrcBridgeModel

namespace MpycV.Thresha

open MpycV.PyList

variable (p : ℕ) [hp : Fact p.Prime]

/-- the parties outside S, as the translated comprehension enumerates them -/
lemma filter_outside (m : ℕ) (S : List ℕ) :
    List.filter (fun (x : Int) => decide (¬ (x ∈ S.map (Nat.cast : ℕ → Int)))) (pyRange 0 (m : Int))
      = (outside m S).map (Nat.cast : ℕ → Int) := by
  unfold outside pyRange
  simp only [sub_zero, Int.toNat_natCast, zero_add]
  rw [List.filter_map, ]
  congr 1
  apply List.filter_congr
  intro x _
  simp only [Function.comp, List.mem_map, Nat.cast_inj, exists_eq_right, decide_not, List.contains_eq_mem]

omit hp in
lemma recombVec_range (hp0 : 0 < (p : Int)) (xs : List Int) (xr : Int) :
    ∀ x ∈ recombVec (intModP p) xs xr, 0 ≤ x ∧ x < (p : Int) := by
  intro x hx
  unfold recombVec at hx
  obtain ⟨xi, _, rfl⟩ := List.mem_map.1 hx
  simp only [intModP]
  exact ⟨Int.emod_nonneg _ (by omega), Int.emod_lt_of_pos _ hp0⟩

/-- only the first share vector is non-zero: the sum collapses to its first term -/
lemma sum_first (c : Int) (L : List ℕ) (w : ℕ → Int) :
    (∑ i' ∈ Finset.range (([c] :: L.map fun _ => [(0 : Int)]).length),
      pyGet (pyGet ([c] :: L.map fun _ => [(0 : Int)]) (i' : Int)) ((0 : ℕ) : Int) * w i') = c * w 0 := by
  rw [List.length_cons, Finset.sum_range_succ']
  have : ∀ i ∈ Finset.range (L.map fun _ => [(0 : Int)]).length,
      pyGet (pyGet ([c] :: L.map fun _ => [(0 : Int)]) ((i + 1 : ℕ) : Int)) ((0 : ℕ) : Int) * w (i + 1) = 0 := by
    intro i hi
    have hi' : i < L.length := by simpa using hi
    rw [pyGet_row_nat, pyGet_int_nat]
    simp [List.getD_eq_getElem?_getD, hi']
  rw [Finset.sum_eq_zero this, zero_add, pyGet_row_nat, pyGet_int_nat]
  simp

/-- ★ bridge: the translated `_f_S_i` is the model's `fSi` on `intModP p` (given that the recombination vector for
the nodes 0 and x+1, x outside S, exists — true for m < p, see C12Src) -/
theorem f_S_i_eq (m i : ℕ) (S : List ℕ) (v : List Int)
    (hE : recombVecE (intModP p) ((intModP p).ofNat 0 :: (outside m S).map fun x => (intModP p).ofNat (x + 1))
      ((intModP p).ofNat (i + 1)) = .ok v) :
    ThreshaMirror.f_S_i p (m : Int) (i : Int) (S.map (Nat.cast : ℕ → Int)) = .ok (fSi (intModP p) m i S) := by
  have hp0 : 0 < (p : Int) := by exact_mod_cast hp.out.pos
  have h1p : (1 : Int) % (p : Int) = 1 := Int.emod_eq_of_lt (by norm_num) (by exact_mod_cast hp.out.one_lt)
  unfold ThreshaMirror.f_S_i
  simp -iota only []
  rw [filter_outside, List.map_map]
  -- the points handed to recombine
  set points : List (Int × List Int) :=
    [((0 : Int), [(1 : Int)])] ++ List.map ((fun (x : Int) => (x + 1, [(0 : Int)])) ∘ (Nat.cast : ℕ → Int)) (outside m S)
    with hpoints
  have hfst : (points.map Prod.fst).map (fun x => x % (p : Int))
      = (intModP p).ofNat 0 :: (outside m S).map fun x => (intModP p).ofNat (x + 1) := by
    simp [hpoints, intModP, Function.comp_def]
  have hsnd : points.map Prod.snd = [(1 : Int)] :: (outside m S).map fun _ => [(0 : Int)] := by
    simp [hpoints, Function.comp_def]
  have hxr : ((i : Int) + 1) % (p : Int) = (intModP p).ofNat (i + 1) := by
    simp [intModP]
  have hE' : recombVecE (intModP p) ((points.map Prod.fst).map fun x => x % (p : Int)) (((i : Int) + 1) % (p : Int))
      = .ok v := by rw [hfst, hxr]; exact hE
  obtain ⟨hv1, hv2⟩ := recombination_vector_ok p hE'
  have hvlen : v.length = points.length := by
    rw [hv2, length_recombVec]; simp
  have hN : (pyGet (points.map Prod.snd) 0).length = 1 := by
    rw [hsnd]
    have e := pyGet_nat ([(1 : Int)] :: (outside m S).map fun _ => [(0 : Int)]) (k := 0) (by simp)
    simp only [Nat.cast_zero] at e
    rw [e]; rfl
  have hrows : ∀ sh ∈ points.map Prod.snd, 1 ≤ sh.length := by
    rw [hsnd]
    intro sh hsh
    rcases List.mem_cons.1 hsh with rfl | h
    · simp
    · obtain ⟨_, _, rfl⟩ := List.mem_map.1 h; simp
  have hloops := recombine_one_loops (p : Int) false points ((i : Int) + 1) (by simp [hpoints]) 1 hN (by norm_num)
    hrows v hv1 hvlen
  rw [hloops]
  simp only [Bool.false_eq_true, ↓reduceIte, List.range_one, List.map_cons, List.map_nil, List.length_cons,
    List.length_nil]
  have hg : pyIdxOk (0 + 1) 0 = true := by decide
  rw [hg]
  simp only [Bool.true_eq_false, ↓reduceIte]
  have e0 : pyGet [rawSum (points.map Prod.snd) [v] 0 0] 0 = rawSum (points.map Prod.snd) [v] 0 0 := by
    have e := pyGet_nat [rawSum (points.map Prod.snd) [v] 0 0] (k := 0) (by simp)
    simp only [Nat.cast_zero] at e
    rw [e]; rfl
  rw [e0]
  congr 1
  -- both sides are the first entry of the recombination vector
  have ev : pyGet [v] ((0 : ℕ) : Int) = v := by rw [pyGet_nat _ (by simp)]; rfl
  have hraw : rawSum (points.map Prod.snd) [v] 0 0 = v.getD 0 0 := by
    unfold rawSum
    rw [hsnd, ev]
    have := sum_first 1 (outside m S) (fun i' => pyGet v (i' : Int))
    simp only [Nat.cast_zero] at this ⊢
    rw [this, one_mul]
    have := pyGet_int_nat v 0
    simpa using this
  have hmodel : fSi (intModP p) m i S = v.getD 0 0 % (p : Int) := by
    unfold fSi recombine1 recombine
    simp only [List.map_cons, List.map_nil, List.headD_cons, List.length_cons, List.length_nil]
    rw [← hfst, ← hxr, ← hv2]
    have hsh : ([(intModP p).one] :: (outside m S).map fun _ => [(intModP p).zero])
        = [(1 : Int)] :: (outside m S).map fun _ => [(0 : Int)] := by
      simp [intModP, h1p]
    rw [hsh]
    simp only [Nat.zero_add, List.range_one, List.map_cons, List.map_nil, List.headD_cons]
    have hlen : v.length = ([(1 : Int)] :: (outside m S).map fun _ => [(0 : Int)]).length := by
      rw [hvlen, hpoints]; simp
    rw [← rawRow_emod p _ v hlen 0]
    have := sum_first 1 (outside m S) (fun i' => pyGet v (i' : Int))
    simp only [Nat.cast_zero] at this ⊢
    rw [this, one_mul]
    have := pyGet_int_nat v 0
    simp only [Nat.cast_zero] at this
    rw [this]
  rw [hraw, hmodel]
  -- the entry is already reduced
  cases hv : v with
  | nil => simp
  | cons a l =>
    have := recombVec_range p hp0 _ _ a (by rw [← hv2, hv]; simp)
    simp only [List.getD_cons_zero]
    exact (Int.emod_eq_of_lt this.1 this.2).symm

end MpycV.Thresha
