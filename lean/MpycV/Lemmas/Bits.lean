/-
Lemmas for C30, basics: `fromBits` / `bitsOf` (little-endian bits, two's complement low bits).
-/
import MpycV.Model.Bits
import Mathlib.Tactic.Ring
import Mathlib.Tactic.Linarith

namespace MpycV.Bits

/-- all entries are bits -/
def IsBits (x : List Int) : Prop := ∀ b ∈ x, b = 0 ∨ b = 1

theorem isBits_nil : IsBits [] := fun _ h => by simp at h
theorem isBits_cons {a : Int} {x : List Int} : IsBits (a :: x) ↔ (a = 0 ∨ a = 1) ∧ IsBits x := by
  constructor
  · intro h; exact ⟨h a (by simp), fun b hb => h b (by simp [hb])⟩
  · intro ⟨ha, hx⟩ b hb
    rcases List.mem_cons.mp hb with rfl | hb
    · exact ha
    · exact hx b hb

@[simp] theorem fromBits_nil : fromBits [] = 0 := rfl
@[simp] theorem fromBits_cons (a : Int) (x : List Int) : fromBits (a :: x) = a + 2 * fromBits x := rfl

theorem fromBits_append (x y : List Int) : fromBits (x ++ y) = fromBits x + 2 ^ x.length * fromBits y := by
  induction x with
  | nil => simp
  | cons a x ih => simp only [List.cons_append, fromBits_cons, ih, List.length_cons, pow_succ]; ring

theorem fromBits_nonneg {x : List Int} (h : IsBits x) : 0 ≤ fromBits x := by
  induction x with
  | nil => simp
  | cons a x ih =>
    obtain ⟨ha, hx⟩ := isBits_cons.mp h
    have := ih hx
    rw [fromBits_cons]; rcases ha with rfl | rfl <;> linarith

theorem fromBits_lt {x : List Int} (h : IsBits x) : fromBits x < 2 ^ x.length := by
  induction x with
  | nil => simp
  | cons a x ih =>
    obtain ⟨ha, hx⟩ := isBits_cons.mp h
    have := ih hx
    rw [fromBits_cons, List.length_cons, pow_succ]; rcases ha with rfl | rfl <;> linarith

theorem emod_two_mul (c M : Int) (hM : 0 < M) : c % (2 * M) = c % 2 + 2 * ((c / 2) % M) := by
  have h1 := Int.emod_add_mul_ediv c 2
  have h2 := Int.emod_add_mul_ediv (c / 2) M
  have r0 := Int.emod_nonneg c (by decide : (2 : Int) ≠ 0)
  have r1 := Int.emod_lt_of_pos c (by decide : (0 : Int) < 2)
  have q0 := Int.emod_nonneg (c / 2) (ne_of_gt hM)
  have q1 := Int.emod_lt_of_pos (c / 2) hM
  have e : c = (c % 2 + 2 * ((c / 2) % M)) + (2 * M) * ((c / 2) / M) := by
    have : c / 2 = (c / 2) % M + M * ((c / 2) / M) := h2.symm
    calc c = c % 2 + 2 * (c / 2) := h1.symm
      _ = c % 2 + 2 * ((c / 2) % M + M * ((c / 2) / M)) := by rw [← this]
      _ = _ := by ring
  conv => lhs; rw [e]
  rw [Int.add_mul_emod_self_left]
  exact Int.emod_eq_of_lt (by linarith) (by linarith)

theorem bitsOf_zero (c : Int) : bitsOf c 0 = [] := rfl

theorem bitsOf_succ (c : Int) (l : Nat) : bitsOf c (l + 1) = (c % 2) :: bitsOf (c / 2) l := by
  unfold bitsOf
  rw [List.range_succ_eq_map, List.map_cons, List.map_map]
  congr 1
  · simp
  · apply List.map_congr_left
    intro i _
    simp only [Function.comp, pow_succ]
    rw [Int.ediv_ediv_of_nonneg (by decide), mul_comm]

theorem length_bitsOf (c : Int) (l : Nat) : (bitsOf c l).length = l := by simp [bitsOf]

theorem isBits_bitsOf (c : Int) (l : Nat) : IsBits (bitsOf c l) := by
  intro b hb
  simp only [bitsOf, List.mem_map] at hb
  obtain ⟨i, _, rfl⟩ := hb
  have := Int.emod_nonneg (c / 2 ^ i) (by decide : (2 : Int) ≠ 0)
  have := Int.emod_lt_of_pos (c / 2 ^ i) (by decide : (0 : Int) < 2)
  omega

/-- the l low bits encode `c mod 2^l` (two's complement for negative c) -/
theorem fromBits_bitsOf (c : Int) (l : Nat) : fromBits (bitsOf c l) = c % 2 ^ l := by
  induction l generalizing c with
  | zero => simp [bitsOf_zero, Int.emod_one]
  | succ l ih =>
    have hpos : (0 : Int) < 2 ^ l := by positivity
    rw [bitsOf_succ, fromBits_cons, ih, pow_succ, mul_comm ((2 : Int) ^ l) 2, emod_two_mul c _ hpos]

theorem bitsOf_fromBits {x : List Int} (h : IsBits x) : bitsOf (fromBits x) x.length = x := by
  induction x with
  | nil => rfl
  | cons a x ih =>
    obtain ⟨ha, hx⟩ := isBits_cons.mp h
    rw [List.length_cons, bitsOf_succ, fromBits_cons]
    have e1 : (a + 2 * fromBits x) % 2 = a := by rcases ha with rfl | rfl <;> omega
    have e2 : (a + 2 * fromBits x) / 2 = fromBits x := by rcases ha with rfl | rfl <;> omega
    rw [e1, e2, ih hx]

theorem bitsOf_emod (c : Int) (l : Nat) : bitsOf (c % 2 ^ l) l = bitsOf c l := by
  have h := bitsOf_fromBits (isBits_bitsOf c l)
  rw [length_bitsOf, fromBits_bitsOf] at h
  exact h

/-- a bit list is determined by its value -/
theorem eq_bitsOf_of_fromBits {x : List Int} (h : IsBits x) {v : Int} (hv : fromBits x = v % 2 ^ x.length) :
    x = bitsOf v x.length := by
  rw [← bitsOf_emod, ← hv, bitsOf_fromBits h]

end MpycV.Bits
