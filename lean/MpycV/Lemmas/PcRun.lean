/-
Operational = denotational for the program-counter machine: the main lemma behind C08/C09.

Plan: an invariant `Inv s P` relating the state `s` reached after a well-formed run prefix to the
per-task action sequences `P` performed so far (root: ambient pc and events are `taskRun (0,0) (P [])`;
created child `π ++ [j]`: initial pc is π's j-th fork, saved pc and events are `taskRun pc0 (P _)`;
not yet created child: no events, no actions, and π has forked at most j times).  The invariant is
preserved by every well-formed step (`inv_step`), hence by runs (`inv_run`), and implies `events = den`
by induction along the path.
-/
import MpycV.Lemmas.Pc

namespace MpycV.Pc

/-! ### paths -/

theorem snoc_ne_nil (π : Path) (j : Nat) : π ++ [j] ≠ [] := by simp

theorem snoc_ne_self (π : Path) (j : Nat) : π ++ [j] ≠ π := by
  intro h
  have := congrArg List.length h
  simp at this

theorem snoc_inj {π π' : Path} {j j' : Nat} : π ++ [j] = π' ++ [j'] ↔ π = π' ∧ j = j' := by
  constructor
  · intro h
    have := List.append_inj' h rfl
    exact ⟨this.1, by simpa using this.2⟩
  · rintro ⟨rfl, rfl⟩; rfl

theorem exists_snoc_of_ne_nil {τ : Path} (h : τ ≠ []) : ∃ π j, τ = π ++ [j] :=
  ⟨τ.dropLast, τ.getLast h, (List.dropLast_concat_getLast h).symm⟩

/-! ### countForks / childPc0 -/

theorem countForks_append (a b : List Ev) :
    countForks (a ++ b) = countForks a + countForks b := by
  induction a with
  | nil => simp [countForks]
  | cons e es ih => cases e <;> simp [countForks, ih] <;> omega

theorem childPc0_eq_none_iff (es : List Ev) (j : Nat) :
    childPc0 es j = none ↔ countForks es ≤ j := by
  induction es generalizing j with
  | nil => simp [childPc0, countForks]
  | cons e es ih =>
    cases e with
    | forked pc =>
      cases j with
      | zero => simp [childPc0, countForks]
      | succ j => simp [childPc0, countForks, ih]
    | uci l => simp [childPc0, countForks, ih]
    | sent p l => simp [childPc0, countForks, ih]
    | recvd p l => simp [childPc0, countForks, ih]

theorem childPc0_append_lt (a b : List Ev) (j : Nat) (h : j < countForks a) :
    childPc0 (a ++ b) j = childPc0 a j := by
  induction a generalizing j with
  | nil => simp [countForks] at h
  | cons e es ih =>
    cases e with
    | forked pc =>
      cases j with
      | zero => simp [childPc0]
      | succ j =>
        simp only [countForks] at h
        simp only [List.cons_append, childPc0]
        exact ih j (by omega)
    | uci l => simp only [countForks] at h; simp only [List.cons_append, childPc0]; exact ih j h
    | sent p l => simp only [countForks] at h; simp only [List.cons_append, childPc0]; exact ih j h
    | recvd p l => simp only [countForks] at h; simp only [List.cons_append, childPc0]; exact ih j h

theorem childPc0_append_ge (a b : List Ev) (j : Nat) (h : countForks a ≤ j) :
    childPc0 (a ++ b) j = childPc0 b (j - countForks a) := by
  induction a generalizing j with
  | nil => simp [countForks]
  | cons e es ih =>
    cases e with
    | forked pc =>
      cases j with
      | zero => simp [countForks] at h
      | succ j =>
        simp only [countForks] at h
        simp only [List.cons_append, childPc0, countForks]
        rw [ih j (by omega)]
        congr 1
        omega
    | uci l => simp only [countForks] at h; simp only [List.cons_append, childPc0, countForks]; exact ih j h
    | sent p l => simp only [countForks] at h; simp only [List.cons_append, childPc0, countForks]; exact ih j h
    | recvd p l => simp only [countForks] at h; simp only [List.cons_append, childPc0, countForks]; exact ih j h

/-! ### registerChildren, componentwise -/

/-- the effect of `registerChildren τ` on one of the two maps it updates (`saved`: g = some, `pc0`: g = id) -/
def regF {β : Type} (τ : Path) (g : PC → β) : Nat → List Ev → (Path → β) → Path → β
  | _, [], f => f
  | b, Ev.forked pc :: es, f => regF τ g (b + 1) es (upd f (τ ++ [b]) (g pc))
  | b, _ :: es, f => regF τ g b es f

theorem registerChildren_eq (τ : Path) (b : Nat) (es : List Ev) (s : Party) :
    registerChildren τ b es s =
      { ambient := s.ambient, saved := regF τ some b es s.saved,
        pc0 := regF τ id b es s.pc0, events := s.events } := by
  induction es generalizing b s with
  | nil => simp [registerChildren, regF]
  | cons e es ih => cases e <;> simp [registerChildren, regF, ih]

theorem registerChildren_ambient (τ : Path) (b : Nat) (es : List Ev) (s : Party) :
    (registerChildren τ b es s).ambient = s.ambient := by
  rw [registerChildren_eq]

theorem registerChildren_events (τ : Path) (b : Nat) (es : List Ev) (s : Party) :
    (registerChildren τ b es s).events = s.events := by
  rw [registerChildren_eq]

/-- keys other than `τ ++ [k]`, `k ≥ b`, are untouched -/
theorem regF_other {β : Type} (τ : Path) (g : PC → β) (b : Nat) (es : List Ev) (f : Path → β)
    (σ : Path) (h : ∀ k, b ≤ k → σ ≠ τ ++ [k]) : regF τ g b es f σ = f σ := by
  induction es generalizing b f with
  | nil => simp [regF]
  | cons e es ih =>
    cases e with
    | forked pc =>
      simp only [regF]
      rw [ih (b + 1) _ (fun k hk => h k (by omega))]
      simp [upd, h b (Nat.le_refl b)]
    | uci l => simp only [regF]; exact ih b f h
    | sent p l => simp only [regF]; exact ih b f h
    | recvd p l => simp only [regF]; exact ih b f h

/-- key `τ ++ [k]`, `k ≥ b`, receives the (k-b)-th forked pc, if there is one -/
theorem regF_child {β : Type} (τ : Path) (g : PC → β) (b : Nat) (es : List Ev) (f : Path → β)
    (k : Nat) (h : b ≤ k) :
    regF τ g b es f (τ ++ [k]) =
      match childPc0 es (k - b) with
      | some pc => g pc
      | none => f (τ ++ [k]) := by
  induction es generalizing b f with
  | nil => simp [regF, childPc0]
  | cons e es ih =>
    cases e with
    | forked pc =>
      simp only [regF]
      by_cases hk : k = b
      · subst hk
        rw [regF_other τ g (k + 1) es _ _ (fun k' hk' he => by
          have := (snoc_inj.1 he).2; omega)]
        simp [upd, childPc0]
      · rw [ih (b + 1) _ (by omega)]
        have h1 : k - b = (k - (b + 1)) + 1 := by omega
        rw [h1]
        simp only [childPc0]
        have h2 : upd f (τ ++ [b]) (g pc) (τ ++ [k]) = f (τ ++ [k]) := by
          simp [upd, hk]
        rw [h2]
    | uci l => simp only [regF, childPc0]; exact ih b f h
    | sent p l => simp only [regF, childPc0]; exact ih b f h
    | recvd p l => simp only [regF, childPc0]; exact ih b f h

/-! ### one step, componentwise -/

def stepStart (s : Party) (st : Step) : PC :=
  if st.wrapped then (s.saved st.task).getD s.ambient else s.ambient

def stepRes (hop : Hop) (s : Party) (st : Step) : PC × List Ev :=
  taskRun hop (stepStart s st) st.acts

theorem step_events (hop : Hop) (s : Party) (st : Step) :
    (s.step hop st).events = upd s.events st.task (s.events st.task ++ (stepRes hop s st).2) := by
  unfold Party.step stepRes stepStart
  simp only [registerChildren_eq]
  cases st.wrapped <;> simp

theorem step_pc0 (hop : Hop) (s : Party) (st : Step) :
    (s.step hop st).pc0 =
      regF st.task id (countForks (s.events st.task)) (stepRes hop s st).2 s.pc0 := by
  unfold Party.step stepRes stepStart
  simp only [registerChildren_eq]
  cases st.wrapped <;> simp

theorem step_saved_wrapped (hop : Hop) (s : Party) (st : Step) (h : st.wrapped = true) :
    (s.step hop st).saved =
      upd (regF st.task some (countForks (s.events st.task)) (stepRes hop s st).2 s.saved)
        st.task (some (stepRes hop s st).1) := by
  unfold Party.step stepRes stepStart
  simp only [registerChildren_eq, h]
  simp

theorem step_saved_unwrapped (hop : Hop) (s : Party) (st : Step) (h : st.wrapped = false) :
    (s.step hop st).saved =
      regF st.task some (countForks (s.events st.task)) (stepRes hop s st).2 s.saved := by
  unfold Party.step stepRes stepStart
  simp only [registerChildren_eq, h]
  simp

theorem step_ambient_wrapped (hop : Hop) (s : Party) (st : Step) (h : st.wrapped = true) :
    (s.step hop st).ambient = s.ambient := by
  unfold Party.step
  simp only [registerChildren_eq, h]
  simp

theorem step_ambient_unwrapped (hop : Hop) (s : Party) (st : Step) (h : st.wrapped = false) :
    (s.step hop st).ambient = (stepRes hop s st).1 := by
  unfold Party.step stepRes stepStart
  simp only [registerChildren_eq, h]
  simp

theorem step_wrapped_ambient (hop : Hop) (s : Party) (τ : Path) (acts : List Act) :
    (s.step hop { task := τ, wrapped := true, acts := acts }).ambient = s.ambient :=
  step_ambient_wrapped hop s _ rfl

/-! ### the invariant -/

/-- state `s` is what the per-task action sequences `P` (performed so far) prescribe -/
structure Inv (hop : Hop) (s : Party) (P : Path → List Act) : Prop where
  amb : s.ambient = (taskRun hop { ctr := 0, depth := 0 } (P [])).1
  ev0 : s.events [] = (taskRun hop { ctr := 0, depth := 0 } (P [])).2
  created : ∀ π j pc, s.saved (π ++ [j]) = some pc →
    childPc0 (s.events π) j = some (s.pc0 (π ++ [j])) ∧
    pc = (taskRun hop (s.pc0 (π ++ [j])) (P (π ++ [j]))).1 ∧
    s.events (π ++ [j]) = (taskRun hop (s.pc0 (π ++ [j])) (P (π ++ [j]))).2
  fresh : ∀ π j, s.saved (π ++ [j]) = none →
    countForks (s.events π) ≤ j ∧ s.events (π ++ [j]) = [] ∧ P (π ++ [j]) = []

theorem inv_init (hop : Hop) : Inv hop Party.init (fun _ => []) := by
  refine ⟨rfl, rfl, ?_, ?_⟩
  · intro π j pc h; simp [Party.init] at h
  · intro π j _; simp [Party.init, countForks]

/-- when task τ appends events `evs` (registering the children forked in them), the invariant
clauses of every task other than τ carry over -/
theorem inv_children (hop : Hop) {s s' : Party} {P P' : Path → List Act} (hI : Inv hop s P)
    (τ : Path) (evs : List Ev)
    (hev : s'.events = upd s.events τ (s.events τ ++ evs))
    (hsv : ∀ σ, σ ≠ τ → s'.saved σ = regF τ some (countForks (s.events τ)) evs s.saved σ)
    (hp0 : s'.pc0 = regF τ id (countForks (s.events τ)) evs s.pc0)
    (hP : ∀ σ, σ ≠ τ → P' σ = P σ) (π : Path) (j : Nat) (hne : π ++ [j] ≠ τ) :
    (∀ pc, s'.saved (π ++ [j]) = some pc →
      childPc0 (s'.events π) j = some (s'.pc0 (π ++ [j])) ∧
      pc = (taskRun hop (s'.pc0 (π ++ [j])) (P' (π ++ [j]))).1 ∧
      s'.events (π ++ [j]) = (taskRun hop (s'.pc0 (π ++ [j])) (P' (π ++ [j]))).2) ∧
    (s'.saved (π ++ [j]) = none →
      countForks (s'.events π) ≤ j ∧ s'.events (π ++ [j]) = [] ∧ P' (π ++ [j]) = []) := by
  have hevσ : upd s.events τ (s.events τ ++ evs) (π ++ [j]) = s.events (π ++ [j]) := by
    simp [upd, hne]
  rw [hsv _ hne, hP _ hne, hev, hp0, hevσ]
  by_cases hπ : π = τ
  · subst hπ
    have hevπ : upd s.events π (s.events π ++ evs) π = s.events π ++ evs := by simp [upd]
    rw [hevπ]
    by_cases hj : j < countForks (s.events π)
    · have ho : ∀ k, countForks (s.events π) ≤ k → π ++ [j] ≠ π ++ [k] := by
        intro k hk he
        have := (snoc_inj.1 he).2; omega
      rw [regF_other _ _ _ _ _ _ ho, regF_other _ _ _ _ _ _ ho, childPc0_append_lt _ _ _ hj]
      refine ⟨hI.created π j, ?_⟩
      intro hn
      have := (hI.fresh π j hn).1
      omega
    · have hj' : countForks (s.events π) ≤ j := by omega
      have hn : s.saved (π ++ [j]) = none := by
        cases hs : s.saved (π ++ [j]) with
        | none => rfl
        | some pc =>
          have h1 := (hI.created π j pc hs).1
          have h2 := (childPc0_eq_none_iff _ _).2 hj'
          rw [h1] at h2
          cases h2
      obtain ⟨_, he, hp⟩ := hI.fresh π j hn
      rw [regF_child _ _ _ _ _ _ hj', regF_child _ _ _ _ _ _ hj', childPc0_append_ge _ _ _ hj',
        countForks_append, he, hp]
      cases hc : childPc0 evs (j - countForks (s.events π)) with
      | none =>
        simp only [hn]
        refine ⟨fun pc h => (by cases h), fun _ => ⟨?_, trivial, trivial⟩⟩
        have := (childPc0_eq_none_iff _ _).1 hc
        omega
      | some pc =>
        simp only []
        refine ⟨fun pc' h => ?_, fun h => (by cases h)⟩
        cases h
        simp [taskRun]
  · have ho : ∀ k, countForks (s.events τ) ≤ k → π ++ [j] ≠ τ ++ [k] := by
      intro k _ he
      exact hπ (snoc_inj.1 he).1
    have hevπ : upd s.events τ (s.events τ ++ evs) π = s.events π := by simp [upd, hπ]
    rw [regF_other _ _ _ _ _ _ ho, regF_other _ _ _ _ _ _ ho, hevπ]
    exact ⟨hI.created π j, hI.fresh π j⟩

/-- an unwrapped step without actions changes nothing -/
theorem step_unwrapped_nil (hop : Hop) (s : Party) (τ : Path) :
    s.step hop { task := τ, wrapped := false, acts := [] } = s := by
  cases s with
  | mk amb sv p0 ev =>
    simp only [Party.step, taskRun, registerChildren, List.append_nil]
    simp only [Bool.false_eq_true, if_false]
    congr 1
    funext σ
    simp only [upd]
    split
    · next h => rw [h]
    · rfl

/-- the local well-formedness condition of one step (the head conjunct of `wfRunB`) -/
def StepOK (s : Party) (st : Step) : Prop :=
  if st.wrapped then (s.saved st.task).isSome = true ∧ st.task ≠ []
  else st.task = [] ∨ st.acts = []

theorem inv_step (hop : Hop) {s : Party} {P : Path → List Act} (hI : Inv hop s P) (st : Step)
    (hwf : StepOK s st) :
    Inv hop (s.step hop st) (fun σ => P σ ++ if st.task = σ then st.acts else []) := by
  obtain ⟨τ, w, acts⟩ := st
  cases w with
  | false =>
    simp only [StepOK, Bool.false_eq_true, if_false] at hwf
    simp only []
    by_cases hτ : τ = []
    · subst hτ
      have hkids := fun π j => inv_children hop hI [] (stepRes hop s ⟨[], false, acts⟩).2
        (s' := s.step hop ⟨[], false, acts⟩)
        (P' := fun σ => P σ ++ if [] = σ then acts else [])
        (step_events hop s _)
        (fun σ _ => by rw [step_saved_unwrapped hop s _ rfl])
        (step_pc0 hop s _)
        (fun σ hσ => by simp [Ne.symm hσ]) π j (snoc_ne_nil π j)
      refine ⟨?_, ?_, fun π j => (hkids π j).1, fun π j => (hkids π j).2⟩
      · rw [step_ambient_unwrapped hop s _ rfl]
        simp only [stepRes, stepStart, Bool.false_eq_true, if_false, if_true]
        rw [taskRun_append, ← hI.amb]
      · rw [step_events]
        simp only [upd, stepRes, stepStart, Bool.false_eq_true, if_false, if_true]
        rw [taskRun_append, ← hI.amb, ← hI.ev0]
    · have ha : acts = [] := by
        cases hwf with
        | inl h => exact absurd h hτ
        | inr h => exact h
      subst ha
      rw [step_unwrapped_nil]
      have hP : (fun σ => P σ ++ if τ = σ then ([] : List Act) else []) = P := by
        funext σ; simp
      rw [hP]
      exact hI
  | true =>
    simp only [StepOK, if_true] at hwf
    simp only []
    obtain ⟨hsome, hτ⟩ := hwf
    obtain ⟨π0, j0, rfl⟩ := exists_snoc_of_ne_nil hτ
    obtain ⟨pcτ, hpc⟩ := Option.isSome_iff_exists.1 hsome
    obtain ⟨hc1, hc2, hc3⟩ := hI.created π0 j0 pcτ hpc
    have hres : stepRes hop s ⟨π0 ++ [j0], true, acts⟩ = taskRun hop pcτ acts := by
      simp [stepRes, stepStart, hpc]
    have hkids := fun π j => inv_children hop hI (π0 ++ [j0]) (stepRes hop s ⟨π0 ++ [j0], true, acts⟩).2
      (s' := s.step hop ⟨π0 ++ [j0], true, acts⟩)
      (P' := fun σ => P σ ++ if π0 ++ [j0] = σ then acts else [])
      (step_events hop s _)
      (fun σ hσ => by rw [step_saved_wrapped hop s _ rfl]; simp [upd, hσ])
      (step_pc0 hop s _)
      (fun σ hσ => by simp [Ne.symm hσ]) π j
    have hsv : (s.step hop ⟨π0 ++ [j0], true, acts⟩).saved (π0 ++ [j0]) = some (taskRun hop pcτ acts).1 := by
      rw [step_saved_wrapped hop s _ rfl, hres]; simp [upd]
    refine ⟨?_, ?_, ?_, ?_⟩
    · rw [step_ambient_wrapped hop s _ rfl]
      simp [hI.amb]
    · rw [step_events]
      simp [upd, hI.ev0]
    · intro π j pc h
      by_cases hne : π ++ [j] = π0 ++ [j0]
      · obtain ⟨rfl, rfl⟩ := snoc_inj.1 hne
        rw [hsv] at h
        cases h
        have hp0 : (s.step hop ⟨π ++ [j], true, acts⟩).pc0 (π ++ [j]) = s.pc0 (π ++ [j]) := by
          rw [step_pc0]
          exact regF_other _ _ _ _ _ _ (fun k _ he => snoc_ne_self _ _ he.symm)
        have hevπ : (s.step hop ⟨π ++ [j], true, acts⟩).events π = s.events π := by
          rw [step_events]; simp [upd, (snoc_ne_self π j).symm]
        have hevτ : (s.step hop ⟨π ++ [j], true, acts⟩).events (π ++ [j]) =
            s.events (π ++ [j]) ++ (taskRun hop pcτ acts).2 := by
          rw [step_events, hres]; simp [upd]
        rw [hp0, hevπ, hevτ]
        simp only [if_true]
        rw [taskRun_append, ← hc2, ← hc3]
        exact ⟨hc1, rfl, rfl⟩
      · exact (hkids π j hne).1 pc h
    · intro π j h
      by_cases hne : π ++ [j] = π0 ++ [j0]
      · rw [hne, hsv] at h
        cases h
      · exact (hkids π j hne).2 h

theorem proj_cons (σ : Path) (st : Step) (rest : List Step) :
    proj σ (st :: rest) = (if st.task = σ then st.acts else []) ++ proj σ rest := by
  simp only [proj]
  split <;> simp

theorem proj_append (σ : Path) (p q : List Step) : proj σ (p ++ q) = proj σ p ++ proj σ q := by
  induction p with
  | nil => simp [proj]
  | cons st p ih => simp only [List.cons_append, proj_cons, ih, List.append_assoc]

theorem inv_run (hop : Hop) (q : List Step) : ∀ (s : Party) (P : Path → List Act),
    Inv hop s P → WFRun hop s q → Inv hop (Party.run hop s q) (fun σ => P σ ++ proj σ q) := by
  induction q with
  | nil =>
    intro s P hI _
    simpa [Party.run, proj] using hI
  | cons st rest ih =>
    intro s P hI hwf
    simp only [WFRun, wfRunB, Bool.and_eq_true] at hwf
    obtain ⟨h1, h2⟩ := hwf
    have hok : StepOK s st := by
      unfold StepOK
      cases hw : st.wrapped
      · simpa [hw] using h1
      · simpa [hw] using h1
    have := ih _ _ (inv_step hop hI st hok) h2
    simp only [Party.run]
    have hP : (fun σ => P σ ++ proj σ (st :: rest)) =
        (fun σ => (P σ ++ if st.task = σ then st.acts else []) ++ proj σ rest) := by
      funext σ
      rw [proj_cons, List.append_assoc]
    rw [hP]
    exact this

theorem run_eq_den (hop : Hop) (r : List Step) (h : WFRun hop Party.init r) (τ : Path) :
    (Party.run hop Party.init r).events τ = den hop (fun σ => proj σ r) τ := by
  have hI := inv_run hop r Party.init _ (inv_init hop) h
  simp only [List.nil_append] at hI
  have key : ∀ ρ : List Nat,
      (Party.run hop Party.init r).events ρ.reverse = denRev hop (fun σ => proj σ r) ρ := by
    intro ρ
    induction ρ with
    | nil => simpa [denRev] using hI.ev0
    | cons j ρ ih =>
      simp only [List.reverse_cons, denRev]
      rw [← ih]
      cases hs : (Party.run hop Party.init r).saved (ρ.reverse ++ [j]) with
      | none =>
        obtain ⟨h1, h2, _⟩ := hI.fresh _ _ hs
        rw [(childPc0_eq_none_iff _ _).2 h1]
        exact h2
      | some pc =>
        obtain ⟨h1, _, h3⟩ := hI.created _ _ _ hs
        rw [h1]
        exact h3
  have := key τ.reverse
  rw [List.reverse_reverse] at this
  exact this

end MpycV.Pc
