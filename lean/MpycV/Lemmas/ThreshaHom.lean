/-
Transport: every model function commutes with a map `φ : K → F` that respects the field operations
(`IsHom`), so the theorems proved over `fieldOps F emb` hold for every executable implementation of the
operations, in particular `modP p` (via `Nat.cast : ℕ → ZMod p`).
-/
import MpycV.Lemmas.ThreshaShare
import Mathlib.FieldTheory.Finite.Basic

namespace MpycV.Thresha

variable {K F : Type} [Field F]

/-- `φ` maps the operations of `o` to the field operations of `F` -/
structure IsHom (o : FieldOps K) (φ : K → F) : Prop where
  zero : φ o.zero = 0
  one : φ o.one = 1
  add : ∀ a b, φ (o.add a b) = φ a + φ b
  neg : ∀ a, φ (o.neg a) = -φ a
  mul : ∀ a b, φ (o.mul a b) = φ a * φ b
  inv : ∀ a, φ (o.inv a) = (φ a)⁻¹

/-- the image operations: those of `F` with the embedding `φ ∘ ofNat` -/
def imageOps (o : FieldOps K) (φ : K → F) : FieldOps F := fieldOps F (fun n => φ (o.ofNat n))

variable {o : FieldOps K} {φ : K → F}

lemma IsHom.sub (h : IsHom o φ) (a b : K) : φ (o.sub a b) = φ a - φ b := by
  simp [FieldOps.sub, h.add, h.neg, sub_eq_add_neg]

lemma map_horner (h : IsHom o φ) (c : List K) (x : K) :
    φ (horner o c x) = horner (imageOps o φ) (c.map φ) (φ x) := by
  unfold horner
  have : ∀ (acc : K), φ (c.foldl (fun y cj => o.mul (o.add y cj) x) acc)
      = (c.map φ).foldl (fun y cj => (imageOps o φ).mul ((imageOps o φ).add y cj) (φ x)) (φ acc) := by
    induction c with
    | nil => intro acc; rfl
    | cons a c ih =>
      intro acc
      rw [List.foldl_cons, ih, List.map_cons, List.foldl_cons]
      simp [imageOps, h.mul, h.add]
  rw [this, h.zero]; rfl

lemma map_shareAt (h : IsHom o φ) (s : K) (c : List K) (i1 : ℕ) :
    φ (shareAt o s c i1) = shareAt (imageOps o φ) (φ s) (c.map φ) i1 := by
  unfold shareAt
  rw [h.add, map_horner h]; rfl

omit [Field F] in
lemma map_coeffsFor (φ : K → F) (coeffs : List K) (t h : ℕ) :
    (coeffsFor coeffs t h).map φ = coeffsFor (coeffs.map φ) t h := by
  simp [coeffsFor, List.map_take, List.map_drop]

theorem map_randomSplit (h : IsHom o φ) (s coeffs : List K) (t m : ℕ) :
    (randomSplit o s coeffs t m).map (List.map φ)
      = randomSplit (imageOps o φ) (s.map φ) (coeffs.map φ) t m := by
  unfold randomSplit
  rw [List.map_map]
  apply List.map_congr_left
  intro i _
  simp only [Function.comp, List.map_map, List.zipIdx_map]
  apply List.map_congr_left
  intro sh _
  simp [map_shareAt h, map_coeffsFor]

lemma map_recombND (h : IsHom o φ) (xs : List K) (xr xi : K) (i : ℕ) :
    Prod.map φ φ (recombND o xs xr xi i) = recombND (imageOps o φ) (xs.map φ) (φ xr) (φ xi) i := by
  unfold recombND
  rw [List.zipIdx_map]
  have : ∀ (L : List (K × ℕ)) (nd : K × K),
      Prod.map φ φ (L.foldl (fun (nd : K × K) (xj : K × ℕ) =>
        if i ≠ xj.2 then (o.mul nd.1 (o.sub xr xj.1), o.mul nd.2 (o.sub xi xj.1)) else nd) nd)
      = (L.map (Prod.map φ id)).foldl (fun (nd : F × F) (xj : F × ℕ) =>
        if i ≠ xj.2 then ((imageOps o φ).mul nd.1 ((imageOps o φ).sub (φ xr) xj.1),
          (imageOps o φ).mul nd.2 ((imageOps o φ).sub (φ xi) xj.1)) else nd) (Prod.map φ φ nd) := by
    intro L
    induction L with
    | nil => intro nd; rfl
    | cons a L ih =>
      intro nd
      rw [List.foldl_cons, ih, List.map_cons, List.foldl_cons]
      congr 1
      by_cases hi : i ≠ a.2
      · simp [hi, imageOps, h.mul, h.sub]
      · simp [hi]
  rw [this]
  simp [imageOps, h.one]

theorem map_recombVec (h : IsHom o φ) (xs : List K) (xr : K) :
    (recombVec o xs xr).map φ = recombVec (imageOps o φ) (xs.map φ) (φ xr) := by
  unfold recombVec
  rw [List.zipIdx_map, List.map_map, List.map_map]
  apply List.map_congr_left
  intro xi _
  have := map_recombND h xs xr xi.1 xi.2
  simp only [Function.comp, Prod.map_fst, Prod.map_snd, id]
  rw [h.mul, h.inv, ← this]
  rfl

lemma map_dot (h : IsHom o φ) (a b : List K) :
    φ (dot o a b) = dot (imageOps o φ) (a.map φ) (b.map φ) := by
  unfold dot
  rw [List.zip_map]
  have : ∀ (L : List (K × K)) (acc : K),
      φ (L.foldl (fun acc (xy : K × K) => o.add acc (o.mul xy.1 xy.2)) acc)
      = (L.map (Prod.map φ φ)).foldl (fun acc (xy : F × F) =>
          (imageOps o φ).add acc ((imageOps o φ).mul xy.1 xy.2)) (φ acc) := by
    intro L
    induction L with
    | nil => intro acc; rfl
    | cons x L ih =>
      intro acc
      rw [List.foldl_cons, ih, List.map_cons, List.foldl_cons]
      simp [imageOps, h.add, h.mul]
  rw [this, h.zero]; rfl

lemma map_column (h : IsHom o φ) (shares : List (List K)) (k : ℕ) :
    (column o shares k).map φ = column (imageOps o φ) (shares.map (List.map φ)) k := by
  unfold column
  rw [List.map_map, List.map_map]
  apply List.map_congr_left
  intro sh _
  simp only [Function.comp, List.getD_eq_getElem?_getD, List.getElem?_map]
  cases sh[k]? <;> simp [imageOps, h.zero]

theorem map_recombine (h : IsHom o φ) (xs : List K) (shares : List (List K)) (xrs : List K) :
    (recombine o xs shares xrs).map (List.map φ)
      = recombine (imageOps o φ) (xs.map φ) (shares.map (List.map φ)) (xrs.map φ) := by
  unfold recombine
  have hn : ((shares.map (List.map φ)).headD []).length = (shares.headD []).length := by
    cases shares <;> simp
  rw [hn, List.map_map, List.map_map]
  apply List.map_congr_left
  intro xr _
  simp only [Function.comp, List.map_map]
  apply List.map_congr_left
  intro k _
  simp only [Function.comp]
  rw [map_dot h, map_column h, map_recombVec h]

theorem map_recombine1 (h : IsHom o φ) (xs : List K) (shares : List (List K)) (xr : K) :
    (recombine1 o xs shares xr).map φ
      = recombine1 (imageOps o φ) (xs.map φ) (shares.map (List.map φ)) (φ xr) := by
  unfold recombine1
  have := map_recombine h xs shares [xr]
  simp only [List.map_cons, List.map_nil] at this
  rw [← this]
  cases recombine o xs shares [xr] <;> simp

theorem map_fSi (h : IsHom o φ) (m i : ℕ) (S : List ℕ) :
    φ (fSi o m i S) = fSi (imageOps o φ) m i S := by
  unfold fSi
  have key := map_recombine1 h (o.ofNat 0 :: (outside m S).map fun x => o.ofNat (x + 1))
    ([o.one] :: (outside m S).map fun _ => [o.zero]) (o.ofNat (i + 1))
  have hx : List.map φ (o.ofNat 0 :: (outside m S).map fun x => o.ofNat (x + 1))
      = (imageOps o φ).ofNat 0 :: (outside m S).map fun x => (imageOps o φ).ofNat (x + 1) := by
    simp [imageOps]
  have hs : List.map (List.map φ) ([o.one] :: (outside m S).map fun _ => [o.zero])
      = [(imageOps o φ).one] :: (outside m S).map fun _ => [(imageOps o φ).zero] := by
    simp [imageOps, h.one, h.zero]
  rw [hx, hs] at key
  show φ (List.headD _ _) = List.headD _ _
  rw [show (imageOps o φ).ofNat (i + 1) = φ (o.ofNat (i + 1)) from rfl, ← key]
  cases recombine1 o (o.ofNat 0 :: List.map (fun x => o.ofNat (x + 1)) (outside m S))
      ([o.one] :: List.map (fun _ => [o.zero]) (outside m S)) (o.ofNat (i + 1)) with
  | nil => simp [imageOps, h.zero]
  | cons a l => simp

/-- PRF outputs mapped entrywise -/
def mapPrfs (φ : K → F) (prfs : List (List ℕ × List K)) : List (List ℕ × List F) :=
  prfs.map fun Sp => (Sp.1, Sp.2.map φ)

lemma getD_map_hom (h : IsHom o φ) (l : List K) (k : ℕ) :
    φ (l.getD k o.zero) = (l.map φ).getD k (imageOps o φ).zero := by
  simp only [List.getD_eq_getElem?_getD, List.getElem?_map]
  cases l[k]? <;> simp [imageOps, h.zero]

theorem map_prssShare (h : IsHom o φ) (m i : ℕ) (prfs : List (List ℕ × List K)) (n : ℕ) :
    (prssShare o m i prfs n).map φ = prssShare (imageOps o φ) m i (mapPrfs φ prfs) n := by
  unfold prssShare
  rw [List.map_map]
  apply List.map_congr_left
  intro k _
  simp only [Function.comp]
  have : ∀ (L : List (List ℕ × List K)) (acc : K),
      φ (L.foldl (fun acc (Sp : List ℕ × List K) =>
        o.add acc (o.mul (Sp.2.getD k o.zero) (fSi o m i Sp.1))) acc)
      = (mapPrfs φ L).foldl (fun acc (Sp : List ℕ × List F) =>
        (imageOps o φ).add acc ((imageOps o φ).mul (Sp.2.getD k (imageOps o φ).zero)
          (fSi (imageOps o φ) m i Sp.1))) (φ acc) := by
    intro L
    induction L with
    | nil => intro acc; rfl
    | cons a L ih =>
      intro acc
      rw [List.foldl_cons, ih]
      simp only [mapPrfs, List.map_cons, List.foldl_cons]
      rw [h.add, h.mul, map_fSi h, getD_map_hom h]
      rfl
  rw [this, h.zero]; rfl

theorem map_prssZero (h : IsHom o φ) (m i : ℕ) (prfs : List (List ℕ × List K)) (n : ℕ) :
    (prssZero o m i prfs n).map φ = prssZero (imageOps o φ) m i (mapPrfs φ prfs) n := by
  unfold prssZero
  rw [List.map_map]
  apply List.map_congr_left
  intro k _
  simp only [Function.comp]
  have : ∀ (L : List (List ℕ × List K)) (acc : K),
      φ (L.foldl (fun acc (Sp : List ℕ × List K) =>
        o.add acc (o.mul (horner o ((Sp.2.drop (k * (m - Sp.1.length))).take (m - Sp.1.length))
          (o.ofNat (i + 1))) (fSi o m i Sp.1))) acc)
      = (mapPrfs φ L).foldl (fun acc (Sp : List ℕ × List F) =>
        (imageOps o φ).add acc ((imageOps o φ).mul
          (horner (imageOps o φ) ((Sp.2.drop (k * (m - Sp.1.length))).take (m - Sp.1.length))
            ((imageOps o φ).ofNat (i + 1))) (fSi (imageOps o φ) m i Sp.1))) (φ acc) := by
    intro L
    induction L with
    | nil => intro acc; rfl
    | cons a L ih =>
      intro acc
      rw [List.foldl_cons, ih]
      simp only [mapPrfs, List.map_cons, List.foldl_cons]
      rw [h.add, h.mul, map_fSi h, map_horner h, List.map_take, List.map_drop]
      rfl
  rw [this, h.zero]; rfl

end MpycV.Thresha
