/- MIRROR of the translator output (harness/py2lean.py on mpyc/gmpy.py at a312e53), kept by hand: the bridge lemmas
(Lemmas/NumThSrcBridge.lean) prove these definitions equal to the model MpycV.Model.NumTh; PropsGen/C25Src.lean proves the
freshly generated MpycV.GmpySrc definitions equal to these by `rfl`.  Regenerate with
  python harness/py2lean.py /tmp/x.lean && sed s/GmpySrc/GmpyMirror/g  (then re-prove the bridge) when /repo legitimately changes.
Pure-Python gmpy2 stubs translated statement by statement (rules: see the docstring of harness/py2lean.py). -/
import MpycV.Model.NumTh
import MpycV.Model.PyLoop
namespace MpycV.GmpyMirror
open MpycV.NumTh MpycV.PyLoop
set_option linter.unusedVariables false


-- ≙ gmpy.py:270 `isqrt`
def isqrt (x : Int) : Except Err (Int) :=
  match NumTh.isqrt x with
  | .error exc_ => .error exc_
  | .ok v1 =>
    .ok (v1)

-- ≙ gmpy.py:259 `is_square`
def is_square (x : Int) : Except Err (Bool) :=
  if x < 0 then
    .ok (false)
  else
    if ¬ ((x % 16) = 0 ∨ (x % 16) = 1 ∨ (x % 16) = 4 ∨ (x % 16) = 9) then
      .ok (false)
    else
      match isqrt x with
      | .error exc_ => .error exc_
      | .ok v1 =>
        let y := v1
        .ok (decide (x = (pyPow y 2)))

-- ≙ gmpy.py:274 `iroot`
def iroot (x : Int) (n : Int) : Except Err (Int × Bool) :=
  if x < 0 then
    .error .valueError
  else
    if n ≤ 0 then
      .error .valueError
    else
      if x = 0 then
        .ok ((x, true))
      else
        if n = 0 then .error .zeroDivisionError else
        let k := (Int.fdiv (((NumTh.bitLength x : Nat) : Int) - 1) n)
        if k < 0 then .error .valueError else
        let y := (pyShl 1 k)
        let stop1 := (-1)
        let i := (k - 1)
        onLoop (loop (σ := Int × Int) (ρ := Empty) Err.fuel (fun st => match st with
            | (y, i) =>
              if i > stop1 then
                if i < 0 then .error .valueError else
                let z := (pyOr y (pyShl 1 i))
                let y :=
                  if (pyPow z n) ≤ x then
                    let y := z
                    (y)
                  else
                    (y)
                let i := (i + (-1))
                .ok (.next (y, i))
              else
                .ok (.brk (y, i))) (k.toNat + 1) (y, i))
          (fun r => nomatch r)
          (fun st => match st with
            | (y, i) =>
              .ok ((y, decide (x = (pyPow y n)))))

-- ≙ gmpy.py:167 `gcdext`
def gcdext (a : Int) (b : Int) : Except Err (Int × Int × Int) :=
  let b₀ := b
  let (g, f) := (a, b)
  let (s, s1) := (1, 0)
  let (t, t1) := (0, 1)
  onLoop (loop (σ := Int × Int × Int × Int × Int × Int) (ρ := Empty) Err.fuel (fun st => match st with
      | (g, f, s, s1, t, t1) =>
        if f ≠ 0 then
          if f = 0 then .error .zeroDivisionError else
          let (g, (q, f)) := (f, (Int.fdiv g f, Int.fmod g f))
          let (s, s1) := (s1, (s - (q * s1)))
          let (t, t1) := (t1, (t - (q * t1)))
          .ok (.next (g, f, s, s1, t, t1))
        else
          .ok (.brk (g, f, s, s1, t, t1))) (b₀.natAbs + 2) (g, f, s, s1, t, t1))
    (fun r => nomatch r)
    (fun st => match st with
      | (g, f, s, s1, t, t1) =>
        let (g, s, t) :=
          if g < 0 then
            let (g, s, t) := ((-g), (-s), (-t))
            (g, s, t)
          else
            if g = 0 then
              let s := 0
              (g, s, t)
            else
              (g, s, t)
        if (((a < 0 ∧ 0 < b) ∨ (b < 0 ∧ 0 < a)) ∧ (pyAbs b) = (2 * g)) then
          if g = 0 then .error .zeroDivisionError else
          let (s, t) := ((-s), (t - (s * (Int.fdiv (pyAbs a) g))))
          .ok ((g, s, t))
        else
          .ok ((g, s, t)))

-- ≙ gmpy.py:192 `invert`
def invert (x : Int) (m : Int) : Except Err (Int) :=
  if ¬ (m ≠ 0) then
    .error .zeroDivisionError
  else
    let m := (pyAbs m)
    if m = 1 then
      .ok (0)
    else
      let (a, b) := (x, m)
      let (s, s1) := (1, 0)
      onLoop (loop (σ := Int × Int × Int × Int) (ρ := Empty) Err.fuel (fun st => match st with
          | (a, b, s, s1) =>
            if b ≠ 0 then
              if b = 0 then .error .zeroDivisionError else
              let (a, (q, b)) := (b, (Int.fdiv a b, Int.fmod a b))
              let (s, s1) := (s1, (s - (q * s1)))
              .ok (.next (a, b, s, s1))
            else
              .ok (.brk (a, b, s, s1))) (m.natAbs + 2) (a, b, s, s1))
        (fun r => nomatch r)
        (fun st => match st with
          | (a, b, s, s1) =>
            if a ≠ 1 then
              .error .zeroDivisionError
            else
              let y := (if s < 0 then (s + m) else s)
              .ok (y))

-- ≙ gmpy.py:219 `jacobi`
def jacobi (x : Int) (y : Int) : Except Err (Int) :=
  let y₀ := y
  if ¬ ((y > 0 ∧ (y % 2) ≠ 0)) then
    .error .valueError
  else
    let j := 1
    onLoop (loop (σ := Int × Int × Int) (ρ := Empty) Err.fuel (fun st => match st with
        | (x, y, j) =>
          if y = 0 then .error .zeroDivisionError else
          let (x, y) := (y, (Int.fmod x y))
          if y = 0 then
            .ok (.brk (x, y, j))
          else
            let t := (((NumTh.tz (y).toNat : Nat) : Int))
            let j :=
              if ((t % 2) ≠ 0 ∧ ((x % 8) = 3 ∨ (x % 8) = 5)) then
                let j := (-j)
                (j)
              else
                (j)
            let y := (pyShr y t)
            if ((y % 4) ≠ 1 ∧ (x % 4) ≠ 1) then
              let j := (-j)
              .ok (.next (x, y, j))
            else
              .ok (.next (x, y, j))) (y₀.toNat + 1) (x, y, j))
      (fun r => nomatch r)
      (fun st => match st with
        | (x, y, j) =>
          if x ≠ 1 then
            let j := 0
            .ok (j)
          else
            .ok (j))

-- ≙ gmpy.py:215 `legendre`
def legendre (x : Int) (y : Int) : Except Err (Int) :=
  match jacobi x y with
  | .error exc_ => .error exc_
  | .ok v1 =>
    .ok (v1)

-- ≙ gmpy.py:239 `kronecker`
def kronecker (x : Int) (y : Int) : Except Err (Int) :=
  let k := 1
  let (k, y) :=
    if y = 0 then
      let k :=
        if (pyAbs x) ≠ 1 then
          let k := 0
          (k)
        else
          (k)
      let y := 1
      (k, y)
    else
      (k, y)
  let (k, y) :=
    if y < 0 then
      let k :=
        if x < 0 then
          let k := (-k)
          (k)
        else
          (k)
      let y := (-y)
      (k, y)
    else
      (k, y)
  if (y % 2) = 0 then
    let t := (((NumTh.tz (y).toNat : Nat) : Int))
    let k :=
      if (x % 2) = 0 then
        let k := 0
        (k)
      else
        if ((t % 2) ≠ 0 ∧ ((x % 8) = 3 ∨ (x % 8) = 5)) then
          let k := (-k)
          (k)
        else
          (k)
    let y := (pyShr y t)
    match jacobi x y with
    | .error exc_ => .error exc_
    | .ok v1 =>
      .ok ((k * v1))
  else
    match jacobi x y with
    | .error exc_ => .error exc_
    | .ok v2 =>
      .ok ((k * v2))

-- ≙ gmpy.py:153 `next_prime`
def next_prime (isP : Int → Bool) (x : Int) : Except Err (Int) :=
  let x₀ := x
  if x ≤ 1 then
    let x := 2
    .ok (x)
  else
    let x := (x + (1 + (x % 2)))
    onLoop (loop (σ := Int) (ρ := Empty) Err.fuel (fun st => match st with
        | x =>
          if ¬ ((isP x) = true) then
            let x := (x + 2)
            .ok (.next x)
          else
            .ok (.brk x)) (x₀.toNat + 2) x)
      (fun r => nomatch r)
      (fun st => match st with
        | x =>
          .ok (x))

-- ≙ gmpy.py:88 `prev_prime`
def prev_prime (isP : Int → Bool) (x : Int) : Except Err (Int) :=
  let x₀ := x
  if x < 3 then
    .error .valueError
  else
    if x = 3 then
      .ok (2)
    else
      let x := (x - (1 + (x % 2)))
      onLoop (loop (σ := Int) (ρ := Empty) Err.fuel (fun st => match st with
          | x =>
            if ¬ ((isP x) = true) then
              let x := (x - 2)
              .ok (.next x)
            else
              .ok (.brk x)) (x₀.toNat) x)
        (fun r => nomatch r)
        (fun st => match st with
          | x =>
            .ok (x))

-- ≙ gmpy.py:52 `ratrec`
/-- `ratrec` with N an int, D an int -/
def ratrec_SS (x : Int) (y : Int) (N : Int) (D : Int) : Except Err (Int × Int) :=
  let y₀ := y
  if (N < 0 ∨ D ≤ 0 ∨ ((2 * N) * D) ≥ y) then
    .error .valueError
  else
    let (n0, n) := (x, y)
    let (d0, d) := (1, 0)
    onLoop (loop (σ := Int × Int × Int × Int) (ρ := Empty) Err.fuel (fun st => match st with
        | (n0, n, d0, d) =>
          if n > N then
            if n = 0 then .error .zeroDivisionError else
            let (n0, (q, n)) := (n, (Int.fdiv n0 n, Int.fmod n0 n))
            let (d0, d) := (d, (d0 - (q * d)))
            .ok (.next (n0, n, d0, d))
          else
            .ok (.brk (n0, n, d0, d))) (y₀.toNat + 2) (n0, n, d0, d))
      (fun r => nomatch r)
      (fun st => match st with
        | (n0, n, d0, d) =>
          let (n, d) :=
            if d < 0 then
              let (n, d) := ((-n), (-d))
              (n, d)
            else
              (n, d)
          if (d ≤ D ∧ ((Int.gcd n d : Nat) : Int) = 1) then
            .ok ((n, d))
          else
            .error .valueError)

/-- `ratrec` with N is None, D an int -/
def ratrec_NS (x : Int) (y : Int) (D : Int) : Except Err (Int × Int) :=
  let y₀ := y
  if (2 * D) = 0 then .error .zeroDivisionError else
  let N := (Int.fdiv (y - 1) (2 * D))
  if (N < 0 ∨ D ≤ 0 ∨ ((2 * N) * D) ≥ y) then
    .error .valueError
  else
    let (n0, n) := (x, y)
    let (d0, d) := (1, 0)
    onLoop (loop (σ := Int × Int × Int × Int) (ρ := Empty) Err.fuel (fun st => match st with
        | (n0, n, d0, d) =>
          if n > N then
            if n = 0 then .error .zeroDivisionError else
            let (n0, (q, n)) := (n, (Int.fdiv n0 n, Int.fmod n0 n))
            let (d0, d) := (d, (d0 - (q * d)))
            .ok (.next (n0, n, d0, d))
          else
            .ok (.brk (n0, n, d0, d))) (y₀.toNat + 2) (n0, n, d0, d))
      (fun r => nomatch r)
      (fun st => match st with
        | (n0, n, d0, d) =>
          let (n, d) :=
            if d < 0 then
              let (n, d) := ((-n), (-d))
              (n, d)
            else
              (n, d)
          if (d ≤ D ∧ ((Int.gcd n d : Nat) : Int) = 1) then
            .ok ((n, d))
          else
            .error .valueError)

/-- `ratrec` with N an int, D is None -/
def ratrec_SN (x : Int) (y : Int) (N : Int) : Except Err (Int × Int) :=
  let y₀ := y
  if (N ≠ 0) ∧ (2 * N) = 0 then .error .zeroDivisionError else
  let D := (if N ≠ 0 then (Int.fdiv (y - 1) (2 * N)) else 1)
  if (N < 0 ∨ D ≤ 0 ∨ ((2 * N) * D) ≥ y) then
    .error .valueError
  else
    let (n0, n) := (x, y)
    let (d0, d) := (1, 0)
    onLoop (loop (σ := Int × Int × Int × Int) (ρ := Empty) Err.fuel (fun st => match st with
        | (n0, n, d0, d) =>
          if n > N then
            if n = 0 then .error .zeroDivisionError else
            let (n0, (q, n)) := (n, (Int.fdiv n0 n, Int.fmod n0 n))
            let (d0, d) := (d, (d0 - (q * d)))
            .ok (.next (n0, n, d0, d))
          else
            .ok (.brk (n0, n, d0, d))) (y₀.toNat + 2) (n0, n, d0, d))
      (fun r => nomatch r)
      (fun st => match st with
        | (n0, n, d0, d) =>
          let (n, d) :=
            if d < 0 then
              let (n, d) := ((-n), (-d))
              (n, d)
            else
              (n, d)
          if (d ≤ D ∧ ((Int.gcd n d : Nat) : Int) = 1) then
            .ok ((n, d))
          else
            .error .valueError)

/-- `ratrec` with N is None, D is None -/
def ratrec_NN (x : Int) (y : Int) : Except Err (Int × Int) :=
  let y₀ := y
  match isqrt ((y - 1) / 2) with
  | .error exc_ => .error exc_
  | .ok v1 =>
    let D := (max 1 v1)
    if (2 * D) = 0 then .error .zeroDivisionError else
    let N := (Int.fdiv (y - 1) (2 * D))
    if (N < 0 ∨ D ≤ 0 ∨ ((2 * N) * D) ≥ y) then
      .error .valueError
    else
      let (n0, n) := (x, y)
      let (d0, d) := (1, 0)
      onLoop (loop (σ := Int × Int × Int × Int) (ρ := Empty) Err.fuel (fun st => match st with
          | (n0, n, d0, d) =>
            if n > N then
              if n = 0 then .error .zeroDivisionError else
              let (n0, (q, n)) := (n, (Int.fdiv n0 n, Int.fmod n0 n))
              let (d0, d) := (d, (d0 - (q * d)))
              .ok (.next (n0, n, d0, d))
            else
              .ok (.brk (n0, n, d0, d))) (y₀.toNat + 2) (n0, n, d0, d))
        (fun r => nomatch r)
        (fun st => match st with
          | (n0, n, d0, d) =>
            let (n, d) :=
              if d < 0 then
                let (n, d) := ((-n), (-d))
                (n, d)
              else
                (n, d)
            if (d ≤ D ∧ ((Int.gcd n d : Nat) : Int) = 1) then
              .ok ((n, d))
            else
              .error .valueError)

def ratrec (x : Int) (y : Int) (N : Option Int) (D : Option Int) : Except Err (Int × Int) :=
  match N, D with
  | some N, some D => ratrec_SS x y N D
  | none, some D => ratrec_NS x y D
  | some N, none => ratrec_SN x y N
  | none, none => ratrec_NN x y

-- ≙ gmpy.py:12 `factor_prime_power`
def factor_prime_power (isP : Int → Bool) (x : Int) : Except Err (Int × Int) :=
  let x₀ := x
  if x ≤ 1 then
    .error .valueError
  else
    let k := 10
    let p := 2
    onLoop (loop (σ := Int × Int) (ρ := Int × Int) Err.fuel (fun st => match st with
        | (x, p) =>
          if k < 0 then .error .valueError else
          if p < (pyShl 1 k) then
            if p = 0 then .error .zeroDivisionError else
            if (Int.fmod x p) = 0 then
              let d := 0
              onLoop (loop (σ := Int × Int) (ρ := Empty) Err.fuel (fun st => match st with
                  | (x, d) =>
                    if x > 1 then
                      if p = 0 then .error .zeroDivisionError else
                      let (x, r) := (Int.fdiv x p, Int.fmod x p)
                      if r = 0 then
                        let d := (d + 1)
                        .ok (.next (x, d))
                      else
                        .error .valueError
                    else
                      .ok (.brk (x, d))) (x₀.toNat + 1) (x, d))
                (fun r => nomatch r)
                (fun st => match st with
                  | (x, d) =>
                    .ok (.ret (p, d)))
            else
              match next_prime isP p with
              | .error exc_ => .error exc_
              | .ok v1 =>
                let p := v1
                .ok (.next (x, p))
          else
            .ok (.brk (x, p))) (1024) (x, p))
      (fun r => .ok r)
      (fun st => match st with
        | (x, p) =>
          let (p, d) := (x, 1)
          onLoop (loop (σ := Int × Int) (ρ := Empty) Err.fuel (fun st => match st with
              | (p, d) =>
                match is_square p with
                | .error exc_ => .error exc_
                | .ok v2 =>
                  if v2 = true then
                    match isqrt p with
                    | .error exc_ => .error exc_
                    | .ok v3 =>
                      let (p, d) := (v3, (2 * d))
                      .ok (.next (p, d))
                  else
                    .ok (.brk (p, d))) (NumTh.bitLength x₀ + 1) (p, d))
            (fun r => nomatch r)
            (fun st => match st with
              | (p, d) =>
                let e := 3
                onLoop (loop (σ := Int × Int × Int) (ρ := Empty) Err.fuel (fun st => match st with
                    | (p, d, e) =>
                      if (k * e) ≤ ((NumTh.bitLength p : Nat) : Int) then
                        match iroot p e with
                        | .error exc_ => .error exc_
                        | .ok (v4, v5) =>
                          let (w, b) := (v4, v5)
                          if b = true then
                            let (p, d) := (w, (e * d))
                            .ok (.next (p, d, e))
                          else
                            match next_prime isP e with
                            | .error exc_ => .error exc_
                            | .ok v6 =>
                              let e := v6
                              .ok (.next (p, d, e))
                      else
                        .ok (.brk (p, d, e))) (2 * NumTh.bitLength x₀ + 2) (p, d, e))
                  (fun r => nomatch r)
                  (fun st => match st with
                    | (p, d, e) =>
                      if (isP p) = true then
                        .ok ((p, d))
                      else
                        .error .valueError)))

end MpycV.GmpyMirror
