/-
C11 — consistency of sharings, over an arbitrary Mathlib field `F` with an embedding `emb : ℕ → F` of the
party numbers (`field(i+1)`), injective on `0..m` (the hypothesis of C12).

`Consistent emb m t sh v`: the shares `sh 0 … sh (m-1)` are the values at `emb 1 … emb m` of one polynomial of
degree ≤ t with constant term `v`.
-/
import MpycV.Model.Share
import MpycV.Lemmas.ThreshaShare

open Polynomial Finset

namespace MpycV.Share

open MpycV.Thresha

variable {F : Type} [Field F]

/-- the `m` parties' shares `sh i` (party `i` at `x = emb (i+1)`) lie on one polynomial of degree ≤ t whose
constant term is `v` -/
def Consistent (emb : ℕ → F) (m t : ℕ) (sh : ℕ → F) (v : F) : Prop :=
  ∃ f : F[X], f.natDegree ≤ t ∧ f.eval 0 = v ∧ ∀ i < m, sh i = f.eval (emb (i + 1))

/-- a share vector as a function of the party number -/
def shFn (l : List F) : ℕ → F := fun i => l.getD i 0

variable {emb : ℕ → F} {m t : ℕ}

/-! ### closure under the local operations -/

theorem Consistent.mono {sh : ℕ → F} {v : F} {t' : ℕ} (h : Consistent emb m t sh v) (ht : t ≤ t') :
    Consistent emb m t' sh v := by
  obtain ⟨f, h1, h2, h3⟩ := h
  exact ⟨f, h1.trans ht, h2, h3⟩

theorem Consistent.congr {sh sh' : ℕ → F} {v : F} (h : Consistent emb m t sh v)
    (he : ∀ i < m, sh' i = sh i) : Consistent emb m t sh' v := by
  obtain ⟨f, h1, h2, h3⟩ := h
  exact ⟨f, h1, h2, fun i hi => (he i hi).trans (h3 i hi)⟩

/-- a public constant: every party holds `c` itself (degree 0) -/
theorem consistent_const (emb : ℕ → F) (m t : ℕ) (c : F) : Consistent emb m t (fun _ => c) c :=
  ⟨C c, by simp, by simp, fun _ _ => by simp⟩

theorem Consistent.add {a b : ℕ → F} {va vb : F} (ha : Consistent emb m t a va)
    (hb : Consistent emb m t b vb) : Consistent emb m t (fun i => a i + b i) (va + vb) := by
  obtain ⟨f, f1, f2, f3⟩ := ha
  obtain ⟨g, g1, g2, g3⟩ := hb
  refine ⟨f + g, (natDegree_add_le _ _).trans (max_le f1 g1), by simp [f2, g2], ?_⟩
  intro i hi
  simp [f3 i hi, g3 i hi]

theorem Consistent.neg {a : ℕ → F} {va : F} (ha : Consistent emb m t a va) :
    Consistent emb m t (fun i => -a i) (-va) := by
  obtain ⟨f, f1, f2, f3⟩ := ha
  refine ⟨-f, by simpa using f1, by simp [f2], ?_⟩
  intro i hi
  simp [f3 i hi]

theorem Consistent.sub {a b : ℕ → F} {va vb : F} (ha : Consistent emb m t a va)
    (hb : Consistent emb m t b vb) : Consistent emb m t (fun i => a i - b i) (va - vb) := by
  have := ha.add hb.neg
  simpa [sub_eq_add_neg] using this

/-- multiplication by a public constant -/
theorem Consistent.smul {a : ℕ → F} {va : F} (c : F) (ha : Consistent emb m t a va) :
    Consistent emb m t (fun i => c * a i) (c * va) := by
  obtain ⟨f, f1, f2, f3⟩ := ha
  refine ⟨C c * f, (natDegree_C_mul_le _ _).trans f1, by simp [f2], ?_⟩
  intro i hi
  simp [f3 i hi]

/-- adding a public constant shifts every share by it -/
theorem Consistent.add_const {a : ℕ → F} {va : F} (c : F) (ha : Consistent emb m t a va) :
    Consistent emb m t (fun i => a i + c) (va + c) :=
  ha.add (consistent_const emb m t c)

/-- local multiplication: the pointwise products lie on the product polynomial, degree ≤ t₁ + t₂ -/
theorem Consistent.mul {a b : ℕ → F} {va vb : F} {t₁ t₂ : ℕ} (ha : Consistent emb m t₁ a va)
    (hb : Consistent emb m t₂ b vb) : Consistent emb m (t₁ + t₂) (fun i => a i * b i) (va * vb) := by
  obtain ⟨f, f1, f2, f3⟩ := ha
  obtain ⟨g, g1, g2, g3⟩ := hb
  refine ⟨f * g, natDegree_mul_le.trans (Nat.add_le_add f1 g1), by simp [f2, g2], ?_⟩
  intro i hi
  simp [f3 i hi, g3 i hi]

/-- a sum of sharings (no-PRSS randoms: the shares dealt by the senders are added up) -/
theorem consistent_list_sum {α : Type} (L : List α) (sh : α → ℕ → F) (v : α → F)
    (h : ∀ a ∈ L, Consistent emb m t (sh a) (v a)) :
    Consistent emb m t (fun i => (L.map fun a => sh a i).sum) (L.map v).sum := by
  induction L with
  | nil => simpa using consistent_const emb m t (0 : F)
  | cons a L ih =>
    have h1 := h a (by simp)
    have h2 := ih (fun b hb => h b (List.mem_cons_of_mem _ hb))
    simpa using h1.add h2

/-! ### uniqueness: t+1 shares determine the polynomial, hence the secret and all other shares -/

omit [Field F] in
lemma emb_succ_injOn (hemb : Set.InjOn emb (Set.Iic m)) (A : Finset ℕ) (hA : ∀ i ∈ A, i < m) :
    Set.InjOn (fun i => emb (i + 1)) (A : Set ℕ) := by
  intro a ha b hb hab
  have := hemb (show a + 1 ∈ Set.Iic m from by simpa using hA a ha)
    (show b + 1 ∈ Set.Iic m from by simpa using hA b hb) hab
  omega

lemma degree_lt_of_natDegree_le {f : F[X]} {t n : ℕ} (h : f.natDegree ≤ t) (htn : t < n) :
    f.degree < n :=
  lt_of_le_of_lt degree_le_natDegree (by exact_mod_cast lt_of_le_of_lt h htn)

/-- two polynomials of degree ≤ t that agree on the points of more than t parties are equal -/
theorem poly_unique (hemb : Set.InjOn emb (Set.Iic m)) {f g : F[X]} (hf : f.natDegree ≤ t)
    (hg : g.natDegree ≤ t) (A : Finset ℕ) (hA : ∀ i ∈ A, i < m) (hcard : t < A.card)
    (h : ∀ i ∈ A, f.eval (emb (i + 1)) = g.eval (emb (i + 1))) : f = g :=
  Polynomial.eq_of_degrees_lt_of_eval_index_eq A (emb_succ_injOn hemb A hA)
    (degree_lt_of_natDegree_le hf hcard) (degree_lt_of_natDegree_le hg hcard) h

/-- ★ `consistent_unique_secret`: if two consistent sharings of degree ≤ t agree on a set `A` of more than `t`
parties, they have the same secret and agree for every party: any t+1 shares determine everything. -/
theorem consistent_unique (hemb : Set.InjOn emb (Set.Iic m)) {sh sh' : ℕ → F} {v v' : F}
    (h : Consistent emb m t sh v) (h' : Consistent emb m t sh' v') (A : Finset ℕ)
    (hA : ∀ i ∈ A, i < m) (hcard : t < A.card) (hag : ∀ i ∈ A, sh i = sh' i) :
    v = v' ∧ ∀ i < m, sh i = sh' i := by
  obtain ⟨f, f1, f2, f3⟩ := h
  obtain ⟨g, g1, g2, g3⟩ := h'
  have : f = g := poly_unique hemb f1 g1 A hA hcard (fun i hi => by
    rw [← f3 i (hA i hi), ← g3 i (hA i hi)]; exact hag i hi)
  subst this
  exact ⟨f2.symm.trans g2, fun i hi => (f3 i hi).trans (g3 i hi).symm⟩

/-! ### dealing -/

/-- ★ `consistent_deal`: column `h` of the matrix produced by `random_split` is a consistent sharing of
secret `s[h]` of degree ≤ t, for ANY coefficients -/
theorem consistent_deal (emb : ℕ → F) (s coeffs : List F) (t m : ℕ) {h : ℕ} (hh : h < s.length) :
    Consistent emb m t
      (fun i => ((randomSplit (fieldOps F emb) s coeffs t m).getD i []).getD h 0) (s.getD h 0) :=
  ⟨sharePoly (s.getD h 0) (coeffsFor coeffs t h),
    (natDegree_sharePoly_le _ _).trans (length_coeffsFor_le coeffs t h), sharePoly_eval_zero _ _,
    fun _ hi => randomSplit_eq_eval emb s coeffs t m hi hh⟩

/-! ### resharing (GRR degree reduction) -/

/-- what a party computes when it recombines at 0 the values `y d` received from the dealers `d ∈ D`
(listed in any order `ds`): `Σ_{d ∈ D} λ_d · y d` with `λ_d` the Lagrange coefficient of node `emb (d+1)`
among the nodes of `D` — independent of the order. -/
theorem recombine_at_zero (hemb : Set.InjOn emb (Set.Iic m)) (D : Finset ℕ) (hD : ∀ d ∈ D, d < m)
    (ds : List ℕ) (hnd : ds.Nodup) (hds : ds.toFinset = D) (y : ℕ → F) (x : F) :
    dot (fieldOps F emb) (ds.map y) (recombVec (fieldOps F emb) (ds.map fun d => emb (d + 1)) x)
      = ∑ d ∈ D, (Lagrange.basis D (fun d => emb (d + 1)) d).eval x * y d := by
  have hmem : ∀ d, d ∈ ds ↔ d ∈ D := fun d => by rw [← hds]; simp
  have hinj := emb_succ_injOn hemb D hD
  have hlen : ds.length = D.card := by rw [← hds, List.toFinset_card_of_nodup hnd]
  have key := dot_recombVec emb (xs := ds.map fun d => emb (d + 1)) (col := ds.map y) x
    (Lagrange.interpolate D (fun d => emb (d + 1)) y)
    (nodup_map_emb hemb hnd (fun d hd => hD d ((hmem d).1 hd))) (by simp)
    (by
      have := Lagrange.degree_interpolate_lt (s := D) y hinj
      simpa [hlen] using this)
    (by
      intro k hk
      have hk' : k < ds.length := by simpa using hk
      rw [getD_lt _ _ (by simpa using hk'), getD_lt _ _ (by simpa using hk')]
      simp only [List.getElem_map]
      rw [Lagrange.eval_interpolate_at_node y hinj ((hmem _).1 (List.getElem_mem hk'))])
  rw [key, Lagrange.interpolate_apply, eval_finsetSum]
  apply sum_congr rfl
  intro d _
  simp [mul_comm]

/-- ★ the GRR step, polynomial form: `f` of degree ≤ n (the product sharing, n = 2t), a set `D` of `n+1`
dealers, dealer `d` dealing its share `f(x_d)` with a polynomial `g d` of degree ≤ t: the combination
`G = Σ_d λ_d · g d` has degree ≤ t and constant term `f(0)`. -/
theorem reshare_poly (hemb : Set.InjOn emb (Set.Iic m)) (D : Finset ℕ) (hD : ∀ d ∈ D, d < m) {n : ℕ}
    (hcard : n < D.card) {f : F[X]} (hf : f.natDegree ≤ n) (g : ℕ → F[X])
    (hg : ∀ d ∈ D, (g d).natDegree ≤ t ∧ (g d).eval 0 = f.eval (emb (d + 1))) :
    (∑ d ∈ D, C ((Lagrange.basis D (fun d => emb (d + 1)) d).eval 0) * g d).natDegree ≤ t ∧
    (∑ d ∈ D, C ((Lagrange.basis D (fun d => emb (d + 1)) d).eval 0) * g d).eval 0 = f.eval 0 := by
  constructor
  · apply natDegree_sum_le_of_forall_le
    intro d hd
    exact (natDegree_C_mul_le _ _).trans (hg d hd).1
  · have hinj := emb_succ_injOn hemb D hD
    have hfi : f = Lagrange.interpolate D (fun d => emb (d + 1)) (fun d => f.eval (emb (d + 1))) :=
      Lagrange.eq_interpolate_of_eval_eq _ hinj (degree_lt_of_natDegree_le hf hcard) (fun _ _ => rfl)
    conv_rhs => rw [hfi]
    rw [Lagrange.interpolate_apply, eval_finsetSum, eval_finsetSum]
    apply sum_congr rfl
    intro d hd
    simp [(hg d hd).2, mul_comm]

/-- ★ `reshare_consistent` (abstract form): the shares `sh` are consistent of degree ≤ n with secret `v`,
`D` is a set of more than `n` dealers, dealer `d` deals `sh d` consistently with degree ≤ t (subshare
`sub d i` for party `i`), every party `i` recombines at 0 the subshares it received, listing the dealers in
its own order `ds i`.  Then the new shares are consistent of degree ≤ t with the SAME secret `v`. -/
theorem reshare_consistent_abstract (hemb : Set.InjOn emb (Set.Iic m)) (D : Finset ℕ)
    (hD : ∀ d ∈ D, d < m) {n : ℕ} (hcard : n < D.card) {sh : ℕ → F} {v : F}
    (hsh : Consistent emb m n sh v) (sub : ℕ → ℕ → F)
    (hsub : ∀ d ∈ D, Consistent emb m t (sub d) (sh d))
    (ds : ℕ → List ℕ) (hnd : ∀ i < m, (ds i).Nodup) (hds : ∀ i < m, (ds i).toFinset = D) :
    Consistent emb m t
      (fun i => dot (fieldOps F emb) ((ds i).map fun d => sub d i)
        (recombVec (fieldOps F emb) ((ds i).map fun d => emb (d + 1)) 0)) v := by
  obtain ⟨f, f1, f2, f3⟩ := hsh
  choose! g hg using hsub
  have hg' : ∀ d ∈ D, (g d).natDegree ≤ t ∧ (g d).eval 0 = f.eval (emb (d + 1)) := by
    intro d hd
    exact ⟨(hg d hd).1, (hg d hd).2.1.trans (f3 d (hD d hd))⟩
  obtain ⟨G1, G2⟩ := reshare_poly hemb D hD hcard f1 g hg'
  refine ⟨_, G1, G2.trans f2, ?_⟩
  intro i hi
  beta_reduce
  rw [recombine_at_zero hemb D hD (ds i) (hnd i hi) (hds i hi) (fun d => sub d i) 0, eval_finsetSum]
  apply sum_congr rfl
  intro d hd
  simp [(hg d hd).2.2 i hi]

end MpycV.Share
