import MpycV.Lemmas.NumThBasic
import Mathlib.Data.Nat.Sqrt
import Mathlib.Tactic.IntervalCases

namespace MpycV.NumTh

/-! ### isqrt, is_square -/

theorem isqrt_spec' (x : Int) :
    (x < 0 → isqrt x = .error .valueError) ∧
    (0 ≤ x → ∃ y : Nat, isqrt x = .ok (y : Int) ∧ (y : Int) ^ 2 ≤ x ∧ x < ((y : Int) + 1) ^ 2) := by
  unfold isqrt
  constructor
  · intro h; rw [if_pos h]
  · intro h
    rw [if_neg (by omega)]
    refine ⟨Nat.sqrt x.toNat, rfl, ?_, ?_⟩
    · have := Nat.sqrt_le' x.toNat
      have hc : (x.toNat : Int) = x := Int.toNat_of_nonneg h
      rw [← hc]; exact_mod_cast this
    · have := Nat.lt_succ_sqrt' x.toNat
      have hc : (x.toNat : Int) = x := Int.toNat_of_nonneg h
      rw [← hc]; exact_mod_cast this

theorem sq_mod_16 (r : Int) : r * r % 16 = 0 ∨ r * r % 16 = 1 ∨ r * r % 16 = 4 ∨ r * r % 16 = 9 := by
  have h : r * r % 16 = (r % 16) * (r % 16) % 16 := by rw [Int.mul_emod]
  have h0 : 0 ≤ r % 16 := Int.emod_nonneg _ (by omega)
  have h1 : r % 16 < 16 := Int.emod_lt_of_pos _ (by omega)
  rw [h]
  generalize r % 16 = s at *
  interval_cases s <;> simp

theorem isSquare_spec' (x : Int) : ∃ b, isSquare x = .ok b ∧ (b = true ↔ ∃ r : Int, r * r = x) := by
  unfold isSquare
  by_cases hneg : x < 0
  · refine ⟨false, by simp [hneg], ?_⟩
    simp only [Bool.false_eq_true, false_iff, not_exists]
    intro r hr
    have := mul_self_nonneg r
    omega
  · simp only [if_neg hneg]
    by_cases hf : ¬ (x % 16 = 0 ∨ x % 16 = 1 ∨ x % 16 = 4 ∨ x % 16 = 9)
    · refine ⟨false, by rw [if_pos hf], ?_⟩
      simp only [Bool.false_eq_true, false_iff, not_exists]
      intro r hr
      apply hf; rw [← hr]; exact sq_mod_16 r
    · rw [if_neg hf]
      have hx0 : 0 ≤ x := by omega
      have hc : (x.toNat : Int) = x := Int.toNat_of_nonneg hx0
      simp only [isqrt, if_neg hneg]
      refine ⟨_, rfl, ?_⟩
      rw [beq_iff_eq]
      constructor
      · intro h; exact ⟨(Nat.sqrt x.toNat : Int), by rw [← pow_two]; exact h.symm⟩
      · rintro ⟨r, hr⟩
        have : ∃ n : Nat, n ^ 2 = x.toNat := by
          refine ⟨r.natAbs, ?_⟩
          have h3 : ((r.natAbs ^ 2 : Nat) : Int) = (x.toNat : Int) := by
            rw [hc, ← hr, pow_two, Nat.cast_mul, Int.natAbs_mul_self']
          exact Int.ofNat_inj.mp h3
        have h2 := (Nat.exists_mul_self' x.toNat).mp this
        conv_lhs => rw [← hc]
        exact_mod_cast h2.symm

/-! ### iroot -/

theorem or_two_pow (c i : Nat) : (2 ^ (i + 1) * c) ||| (1 <<< i) = 2 ^ (i + 1) * c + 2 ^ i := by
  rw [Nat.one_shiftLeft, ← Nat.two_pow_add_eq_or_of_lt (Nat.pow_lt_pow_right (by omega) (by omega))]

theorem irootLoop_spec (x : Int) (n : Nat) (i y : Nat) (hdvd : 2 ^ i ∣ y)
    (hlo : (y : Int) ^ n ≤ x) (hhi : x < ((y + 2 ^ i : Nat) : Int) ^ n) :
    ((irootLoop x n i y : Nat) : Int) ^ n ≤ x ∧ x < ((irootLoop x n i y + 1 : Nat) : Int) ^ n := by
  induction i generalizing y with
  | zero => simpa [irootLoop] using ⟨hlo, hhi⟩
  | succ i ih =>
    obtain ⟨c, rfl⟩ := hdvd
    simp only [irootLoop]
    rw [or_two_pow]
    split
    · next h =>
      apply ih
      · exact ⟨2 * c + 1, by ring⟩
      · exact h
      · have : 2 ^ (i + 1) * c + 2 ^ i + 2 ^ i = 2 ^ (i + 1) * c + 2 ^ (i + 1) := by ring
        rw [this]; exact hhi
    · next h =>
      apply ih
      · exact ⟨2 * c, by ring⟩
      · exact hlo
      · exact lt_of_not_ge h

theorem iroot_spec' (x n : Int) :
    ((x < 0 ∨ n ≤ 0) → iroot x n = .error .valueError) ∧
    (0 ≤ x → 0 < n → ∃ y : Nat, iroot x n = .ok ((y : Int), x == (y : Int) ^ n.toNat) ∧
        (y : Int) ^ n.toNat ≤ x ∧ x < ((y : Int) + 1) ^ n.toNat) := by
  unfold iroot
  constructor
  · rintro (h | h)
    · rw [if_pos h]
    · by_cases hx : x < 0
      · rw [if_pos hx]
      · rw [if_neg hx, if_pos h]
  · intro hx hn
    rw [if_neg (by omega), if_neg (by omega)]
    by_cases hx0 : x = 0
    · subst hx0
      have hn0 : n.toNat ≠ 0 := by omega
      refine ⟨0, by simp [zero_pow hn0], ?_, ?_⟩
      · simp [zero_pow hn0]
      · simp
    · rw [if_neg hx0]
      set m := n.toNat with hm
      have hmpos : 0 < m := by omega
      obtain ⟨xn, rfl⟩ : ∃ xn : Nat, x = (xn : Int) := ⟨x.toNat, (Int.toNat_of_nonneg hx).symm⟩
      have hxn : xn ≠ 0 := by omega
      obtain ⟨hb1, hb2⟩ := bitLength_spec xn hxn
      have hbpos := bitLength_pos xn hxn
      set bl := bitLength (xn : Int) with hbl
      set k := (bl - 1) / m with hk
      have hkm : k * m ≤ bl - 1 := Nat.div_mul_le_self _ _
      have hkm2 : bl - 1 < (k + 1) * m := by
        have := Nat.lt_mul_div_succ (bl - 1) hmpos
        rw [mul_comm]; exact this
      have hspec := irootLoop_spec (xn : Int) m k (1 <<< k) (by rw [Nat.one_shiftLeft])
        (by
          rw [Nat.one_shiftLeft]
          have : (2 ^ k) ^ m ≤ xn := by
            rw [← pow_mul]
            exact le_trans (Nat.pow_le_pow_right (by omega) hkm) hb1
          exact_mod_cast this)
        (by
          rw [Nat.one_shiftLeft]
          have : xn < (2 ^ k + 2 ^ k) ^ m := by
            rw [← two_mul, ← pow_succ', ← pow_mul]
            exact lt_of_lt_of_le hb2 (Nat.pow_le_pow_right (by omega) (by omega))
          exact_mod_cast this)
      exact ⟨irootLoop (xn : Int) m k (1 <<< k), rfl, hspec.1, by exact_mod_cast hspec.2⟩

end MpycV.NumTh
