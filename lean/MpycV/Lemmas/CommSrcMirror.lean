/-
MIRROR (checked in): the output of harness/py2lean_comm.py for the pinned mpyc/runtime.py, namespace renamed.  Routing expressions of
Runtime.transfer / output / _reshare / _distribute as Lean definitions (see the translator's docstring for the rules).
-/
import MpycV.Model.Comm

namespace MpycV.CommMirror
open MpycV.Comm (subMod)

/-- `D[k]` for a dict given as association list; `[]` where the code raises KeyError -/
def dictGet (d : List (Nat × List Nat)) (k : Nat) : List Nat :=
  match d.find? (fun e => e.1 == k) with
  | some e => e.2
  | none => []


-- ≙ runtime.py:374
def transferMySenders (pid : Nat) (senders receivers : List Nat) : List Nat :=
  if pid ∈ receivers then senders else []

-- ≙ runtime.py:375
def transferMyReceivers (pid : Nat) (senders receivers : List Nat) : List Nat :=
  if pid ∈ senders then receivers else []

-- ≙ runtime.py:378
def dictMySenders (pid : Nat) (d : List (Nat × List Nat)) : List Nat :=
  (d.filter (fun ((a, b) : _ × _) => decide (pid ∈ b))).map (fun ((a, b) : _ × _) => a)

-- ≙ runtime.py:379
def dictMyReceivers (pid : Nat) (d : List (Nat × List Nat)) : List Nat :=
  dictGet d pid

-- ≙ runtime.py:381
def arcsMySenders (pid : Nat) (arcs : List (Nat × Nat)) : List Nat :=
  (arcs.filter (fun ((a, b) : _ × _) => decide (b = pid))).map (fun ((a, b) : _ × _) => a)

-- ≙ runtime.py:382
def arcsMyReceivers (pid : Nat) (arcs : List (Nat × Nat)) : List Nat :=
  (arcs.filter (fun ((a, b) : _ × _) => decide (a = pid))).map (fun ((a, b) : _ × _) => b)

-- ≙ runtime.py:385
def transferSends (pid : Nat) (myReceivers : List Nat) : List Nat :=
  myReceivers.filter (fun peer_pid => decide (peer_pid ≠ pid))

-- ≙ runtime.py:392
def transferRecvs (pid : Nat) (mySenders : List Nat) : List Nat :=
  mySenders.filter (fun peer_pid => decide (¬ (peer_pid = pid)))

-- ≙ runtime.py:577
def outSends (m t pid : Nat) (receivers : List Nat) : List Nat :=
  receivers.filter (fun peer_pid => decide (0 < subMod m peer_pid pid ∧ subMod m peer_pid pid ≤ t))

-- ≙ runtime.py:584
def outRecvs (m t pid : Nat) (receivers : List Nat) : List Nat :=
  if pid ∈ receivers then (List.range t).map (fun j => (pid + m - t % m + j) % m) else []

-- ≙ runtime.py:586
def outPoints (m t pid : Nat) : List Nat :=
  (List.range t).map (fun j => (pid + m - t % m + j) % m + 1) ++ [pid + 1]

-- ≙ runtime.py:663
def reshSends (m t pid uci : Nat) : List Nat :=
  if subMod m pid uci ≤ 2 * t then (List.range m).filter (fun peer_pid => decide (peer_pid ≠ pid)) else []

-- ≙ runtime.py:675
def reshRecvs (m t pid uci : Nat) : List Nat :=
  (((List.range ((2 * t) + 1)).map (fun k => uci + k)).filter (fun peer_pid => decide (peer_pid % m ≠ pid))).map (fun peer_pid => peer_pid % m)

-- ≙ runtime.py:487
def distSends (m pid : Nat) (senders : List Nat) : List Nat :=
  (senders.filter (fun peer_pid => decide (peer_pid = pid))).flatMap (fun _ => (List.range m).filter (fun other_pid => decide (¬ (other_pid = pid))))

-- ≙ runtime.py:503
def distRecvs (pid : Nat) (senders : List Nat) : List Nat :=
  senders.filter (fun peer_pid => decide (¬ (peer_pid = pid)))

end MpycV.CommMirror
