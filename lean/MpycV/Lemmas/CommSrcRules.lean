/-
Justification of the two arithmetic translation rules of harness/py2lean_comm.py: Python evaluates `(a - b) % m` and
`(a - b + c) % m` over the integers (floor modulus, result in range(m) for m > 0); the translator emits the natural-number
terms `subMod m a b` and `(a + m - b % m + c) % m`.  For natural a, b, c and m > 0 both agree.
-/
import MpycV.Model.Comm
import Mathlib.Data.Int.Basic
import Mathlib.Tactic.Push
import Mathlib.Tactic.Ring
import Mathlib.Tactic.Linarith

namespace MpycV.CommSrcRules
open MpycV.Comm

/-- Python `(a - b) % m` (Int.emod for m > 0) is the natural number `subMod m a b` -/
theorem subMod_int (m a b : ℕ) (hm : 0 < m) : ((a : ℤ) - b) % (m : ℤ) = (subMod m a b : ℕ) := by
  unfold subMod
  have hb : b % m < m := Nat.mod_lt _ hm
  have h1 : ((a + m - b % m : ℕ) : ℤ) = (a : ℤ) + m - (b % m : ℕ) := by
    rw [Nat.cast_sub (by omega)]; push_cast; ring
  rw [Int.natCast_mod, h1]
  have h2 : ((b % m : ℕ) : ℤ) = (b : ℤ) % m := by push_cast; rfl
  rw [h2]
  have : (a : ℤ) + m - (b : ℤ) % m = ((a : ℤ) - b) + (m : ℤ) * (1 + (b : ℤ) / m) := by
    have := Int.emod_add_mul_ediv (b : ℤ) (m : ℤ)
    linarith
  rw [this, Int.add_mul_emod_self_left]

/-- Python `(a - b + c) % m` is the natural number `(a + m - b % m + c) % m` -/
theorem subModAdd_int (m a b c : ℕ) (hm : 0 < m) :
    ((a : ℤ) - b + c) % (m : ℤ) = ((a + m - b % m + c) % m : ℕ) := by
  have hb : b % m < m := Nat.mod_lt _ hm
  have h1 : ((a + m - b % m + c : ℕ) : ℤ) = (a : ℤ) + m - (b % m : ℕ) + c := by
    rw [Nat.cast_add, Nat.cast_sub (by omega)]; push_cast; ring
  rw [Int.natCast_mod, h1]
  have h2 : ((b % m : ℕ) : ℤ) = (b : ℤ) % m := by push_cast; rfl
  rw [h2]
  have : (a : ℤ) + m - (b : ℤ) % m + c = ((a : ℤ) - b + c) + (m : ℤ) * (1 + (b : ℤ) / m) := by
    have := Int.emod_add_mul_ediv (b : ℤ) (m : ℤ)
    linarith
  rw [this, Int.add_mul_emod_self_left]

example : ((1 : ℤ) - 2) % 3 = (subMod 3 1 2 : ℕ) := subMod_int 3 1 2 (by decide)

end MpycV.CommSrcRules
