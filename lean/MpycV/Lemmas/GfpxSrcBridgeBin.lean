/-
Bridge, part: the translated class `BinaryPolynomial` of mpyc/gfpx.py (Lemmas/GfpxSrcMirror.lean, `b_…`: Python ints
as bitmasks, loops through `PyLoop.loop` / `pyFor`) equals the hand-written model `MpycV.BinPoly` (functions on `Nat`).
-/
import MpycV.Lemmas.GfpxSrcMirror
import MpycV.Lemmas.GfpxSrcLoops
import MpycV.Lemmas.GfpxSrcBridgePow
import MpycV.Model.BinPoly

namespace MpycV.GfpxBridge
open MpycV.PyList MpycV.PyLoop MpycV.PyPoly

/-! ### casts: the Python int operations on non-negative ints are the `Nat` bit operations -/

theorem b_xor_cast (a b : ℕ) : pyXor (a : Int) (b : Int) = ((a ^^^ b : ℕ) : Int) := by
  simp [pyXor]

theorem b_xor_one_cast (a : ℕ) : pyXor (a : Int) 1 = ((a ^^^ 1 : ℕ) : Int) := b_xor_cast a 1

theorem b_xor_two_cast (a : ℕ) : pyXor (a : Int) 2 = ((a ^^^ 2 : ℕ) : Int) := b_xor_cast a 2

theorem b_or_cast (a b : ℕ) : pyOr (a : Int) (b : Int) = ((a ||| b : ℕ) : Int) := by
  simp [pyOr]

theorem b_shl_cast (a k : ℕ) : pyShl (a : Int) (k : Int) = ((a <<< k : ℕ) : Int) := by
  simp [pyShl, Nat.shiftLeft_eq]

theorem b_shl_one_cast (a : ℕ) : pyShl (a : Int) 1 = ((a <<< 1 : ℕ) : Int) := b_shl_cast a 1

theorem b_shl_two_cast (a : ℕ) : pyShl (a : Int) 2 = ((a <<< 2 : ℕ) : Int) := b_shl_cast a 2

theorem b_shr_cast (a k : ℕ) : pyShr (a : Int) (k : Int) = ((a >>> k : ℕ) : Int) := by
  simp [pyShr, Nat.shiftRight_eq_div_pow]

theorem b_shr_one_cast (a : ℕ) : pyShr (a : Int) 1 = ((a >>> 1 : ℕ) : Int) := b_shr_cast a 1

theorem b_odd_cast (a : ℕ) : ((a : Int) % 2 ≠ 0) ↔ a &&& 1 = 1 := by
  rw [Nat.and_one_is_mod]; omega

theorem b_shr1 (a : ℕ) : a >>> 1 = a / 2 := by
  simp [Nat.shiftRight_eq_div_pow]

theorem b_ite_cast (P : Prop) [Decidable P] (Q : Prop) [Decidable Q] (h : P ↔ Q) (x y : ℕ) :
    (if P then (x : Int) else (y : Int)) = ((if Q then x else y : ℕ) : Int) := by
  by_cases hq : Q
  · rw [if_pos hq, if_pos (h.mpr hq)]
  · rw [if_neg hq, if_neg (fun hp => hq (h.mp hp))]

/-! ### degree -/

theorem b_degree_eq (a : ℕ) : GfpxMirror.b_degree (a : Int) = .ok (BinPoly.degree a) := by
  unfold GfpxMirror.b_degree BinPoly.degree
  rw [bitLength_eq_bitLen]

/-! ### sq -/

abbrev BSt3 := Int × Int × Int

theorem b_sqLoop_zero (f d c : ℕ) : BinPoly.sqLoop f 0 d c = c := by
  cases f <;> simp [BinPoly.sqLoop]

theorem b_sq_loop {α : Type} (body : BSt3 → Except TErr (Ctl BSt3 Empty))
    (hb1 : ∀ c d a : Int, a ≠ 0 → body (c, d, a) =
      .ok (.next ((if a % 2 ≠ 0 then pyOr c d else c), pyShl d 2, pyShr a 1)))
    (hb2 : ∀ c d : Int, body (c, d, 0) = .ok (.brk (c, d, 0)))
    (k : BSt3 → Except TErr α) (hk : ∀ c d a, k (c, d, a) = k (c, 0, 0)) :
    ∀ (g f a d c : ℕ), a ≤ f → a < g →
      onLoop (loop TErr.fuel body g ((c : Int), (d : Int), (a : Int))) (fun r => nomatch r) k =
        k (((BinPoly.sqLoop f a d c : ℕ) : Int), 0, 0) := by
  intro g
  induction g with
  | zero => intro f a d c _ h; omega
  | succ g ih =>
    intro f a d c hf hg
    rw [loop]
    by_cases ha : a = 0
    · subst ha
      rw [b_sqLoop_zero]
      simp only [Nat.cast_zero, hb2, onLoop]
      exact hk _ _ _
    · obtain ⟨f, rfl⟩ : ∃ f', f = f' + 1 := ⟨f - 1, by omega⟩
      have ha' : (a : Int) ≠ 0 := by exact_mod_cast ha
      rw [hb1 _ _ _ ha', BinPoly.sqLoop, if_neg ha, b_shl_two_cast, b_shr_one_cast, b_or_cast,
        b_ite_cast _ _ (b_odd_cast a)]
      exact ih f (a >>> 1) (d <<< 2) _ (by rw [b_shr1]; omega) (by rw [b_shr1]; omega)

theorem b_sq_eq (a : ℕ) : GfpxMirror.b_sq (a : Int) = .ok ((BinPoly.sq a : ℕ) : Int) := by
  unfold GfpxMirror.b_sq BinPoly.sq
  dsimp only
  rw [Int.toNat_natCast]
  have hloop := fun body hb1 hb2 k hk => b_sq_loop (α := Int) body hb1 hb2 k hk (a + 1) a a 1 0 le_rfl (by omega)
  simp only [Nat.cast_one, Nat.cast_zero] at hloop
  refine Eq.trans (hloop _
    (fun c d a h => by
      simp only [h, ne_eq, not_false_eq_true, if_true])
    (fun c d => by simp) _ (fun _ _ _ => rfl)) rfl

/-! ### mul -/

theorem b_mulLoop_zero (f a c : ℕ) : BinPoly.mulLoop f a 0 c = c := by
  cases f <;> simp [BinPoly.mulLoop]

theorem b_mul_loop {α : Type} (body : BSt3 → Except TErr (Ctl BSt3 Empty))
    (hb1 : ∀ c a b : Int, b ≠ 0 → body (c, a, b) =
      .ok (.next ((if b % 2 ≠ 0 then pyXor c a else c), pyShl a 1, pyShr b 1)))
    (hb2 : ∀ c a : Int, body (c, a, 0) = .ok (.brk (c, a, 0)))
    (k : BSt3 → Except TErr α) (hk : ∀ c a b, k (c, a, b) = k (c, 0, 0)) :
    ∀ (g f a b c : ℕ), b ≤ f → b < g →
      onLoop (loop TErr.fuel body g ((c : Int), (a : Int), (b : Int))) (fun r => nomatch r) k =
        k (((BinPoly.mulLoop f a b c : ℕ) : Int), 0, 0) := by
  intro g
  induction g with
  | zero => intro f a b c _ h; omega
  | succ g ih =>
    intro f a b c hf hg
    rw [loop]
    by_cases hb : b = 0
    · subst hb
      rw [b_mulLoop_zero]
      simp only [Nat.cast_zero, hb2, onLoop]
      exact hk _ _ _
    · obtain ⟨f, rfl⟩ : ∃ f', f = f' + 1 := ⟨f - 1, by omega⟩
      have hb' : (b : Int) ≠ 0 := by exact_mod_cast hb
      rw [hb1 _ _ _ hb', BinPoly.mulLoop, if_neg hb, b_shl_one_cast, b_shr_one_cast, b_xor_cast,
        b_ite_cast _ _ (b_odd_cast b)]
      exact ih f (a <<< 1) (b >>> 1) _ (by rw [b_shr1]; omega) (by rw [b_shr1]; omega)

theorem b_mul_eq (a b : ℕ) : GfpxMirror.b_mul (a : Int) (b : Int) = .ok ((BinPoly.mul a b : ℕ) : Int) := by
  unfold GfpxMirror.b_mul BinPoly.mul
  by_cases hab : a = b
  · subst hab
    simp only [if_true, b_sq_eq]
  · have hab' : (a : Int) ≠ (b : Int) := by exact_mod_cast hab
    rw [if_neg hab', if_neg hab]
    have hloop := fun x y hf hg body hb1 hb2 k hk =>
      b_mul_loop (α := Int) body hb1 hb2 k hk (y + 1) y x y 0 hf hg
    simp only [Nat.cast_zero] at hloop
    by_cases hlt : a < b
    · have hlt' : (a : Int) < (b : Int) := by exact_mod_cast hlt
      simp only [if_pos hlt', if_pos hlt, Int.toNat_natCast]
      refine Eq.trans (hloop b a le_rfl (by omega) _
        (fun c a b h => by
          simp only [h, ne_eq, not_false_eq_true, if_true])
        (fun c a => by simp) _ (fun _ _ _ => rfl)) rfl
    · have hlt' : ¬ (a : Int) < (b : Int) := by intro h; exact hlt (by exact_mod_cast h)
      simp only [if_neg hlt', if_neg hlt, Int.toNat_natCast]
      refine Eq.trans (hloop a b le_rfl (by omega) _
        (fun c a b h => by
          simp only [h, ne_eq, not_false_eq_true, if_true])
        (fun c a => by simp) _ (fun _ _ _ => rfl)) rfl

/-! ### `range(a, b, -1)` one step at a time -/

theorem b_rangeDown_nil (a b : Int) (h : a ≤ b) : pyRangeDown a b = [] := by
  unfold pyRangeDown
  have : (a - b).toNat = 0 := by omega
  rw [this]; rfl

theorem b_rangeDown_cons (a b : Int) (h : b < a) : pyRangeDown a b = a :: pyRangeDown (a - 1) b := by
  unfold pyRangeDown
  have : (a - b).toNat = (a - 1 - b).toNat + 1 := by omega
  rw [this, List.range_succ_eq_map, List.map_cons, List.map_map]
  congr 1
  · simp
  · apply List.map_congr_left
    intro k _
    simp only [Function.comp]
    push_cast
    ring

theorem b_bitLen_pos {b : ℕ} (hb : b ≠ 0) : 1 ≤ BinPoly.bitLen b := by
  have := BinPoly.bitLen_eq_zero_iff (a := b)
  omega

theorem b_shr_succ (b k : ℕ) : (b >>> 1) >>> k = b >>> (k + 1) := by
  rw [Nat.add_comm, Nat.shiftRight_add]

/-! ### mod -/

/-- the body of the for loop of `_mod`, with its guard -/
theorem b_mod_body (i b a : ℕ) :
    (let b := (pyShr (b : Int) 1)
     if (i : Int) < 0 then (.error .valueError : Except TErr (Int × Int)) else
     if ((pyShr (a : Int) (i : Int)) % 2) ≠ 0 then
       let a := (pyXor (a : Int) b)
       .ok (b, a)
     else
       .ok (b, (a : Int))) =
    .ok (((b >>> 1 : ℕ) : Int), ((if (a >>> i) &&& 1 = 1 then a ^^^ (b >>> 1) else a : ℕ) : Int)) := by
  have hi : ¬ ((i : Int) < 0) := by omega
  simp only [hi, if_false, b_shr_one_cast, b_shr_cast, b_xor_cast]
  by_cases h : (a >>> i) &&& 1 = 1
  · rw [if_pos ((b_odd_cast _).mpr h), if_pos h]
  · rw [if_neg (fun h' => h ((b_odd_cast _).mp h')), if_neg h]

theorem b_mod_loop (n : ℕ) (hn : 1 ≤ n) (body : Int → Int × Int → Except TErr (Int × Int))
    (hb : ∀ (i b a : ℕ), body (i : Int) ((b : Int), (a : Int)) =
      .ok (((b >>> 1 : ℕ) : Int), ((if (a >>> i) &&& 1 = 1 then a ^^^ (b >>> 1) else a : ℕ) : Int))) :
    ∀ (k a b : ℕ),
      pyFor (pyRangeDown ((n : Int) + (k : Int) - 2) ((n : Int) - 2)) ((b : Int), (a : Int)) body
        = .ok (((b >>> k : ℕ) : Int), ((BinPoly.modLoop n k a b : ℕ) : Int)) := by
  intro k
  induction k with
  | zero =>
    intro a b
    rw [b_rangeDown_nil _ _ (by omega)]
    rfl
  | succ k ih =>
    intro a b
    rw [b_rangeDown_cons _ _ (by push_cast; omega)]
    have e1 : (n : Int) + ((k + 1 : ℕ) : Int) - 2 = ((n + k - 1 : ℕ) : Int) := by omega
    have e2 : ((n + k - 1 : ℕ) : Int) - 1 = (n : Int) + (k : Int) - 2 := by omega
    rw [e1, e2, pyFor, hb, BinPoly.modLoop]
    simp only
    rw [ih, b_shr_succ]

theorem b_mod_eq (a b : ℕ) :
    GfpxMirror.b_mod (a : Int) (b : Int) = liftE (fun (x : ℕ) => (x : Int)) (BinPoly.mod a b) := by
  unfold GfpxMirror.b_mod BinPoly.mod
  by_cases hb0 : b = 0
  · subst hb0; simp [liftE]
  have hb0' : (b : Int) ≠ 0 := by exact_mod_cast hb0
  rw [if_neg hb0', if_neg hb0]
  have hn := b_bitLen_pos hb0
  simp only [bitLength_eq_bitLen, liftE, BinPoly.modCore]
  by_cases hlt : BinPoly.bitLen a < BinPoly.bitLen b
  · have hlt' : ((BinPoly.bitLen a : ℕ) : Int) < ((BinPoly.bitLen b : ℕ) : Int) := by exact_mod_cast hlt
    simp only [if_pos hlt', if_pos hlt]
  · have hlt' : ¬ ((BinPoly.bitLen a : ℕ) : Int) < ((BinPoly.bitLen b : ℕ) : Int) := by
      intro h; exact hlt (by exact_mod_cast h)
    have hsub : ¬ (((BinPoly.bitLen a : ℕ) : Int) - ((BinPoly.bitLen b : ℕ) : Int) < 0) := by omega
    simp only [if_neg hlt', if_neg hlt, if_neg hsub]
    have e : ((BinPoly.bitLen a : ℕ) : Int) - ((BinPoly.bitLen b : ℕ) : Int)
        = ((BinPoly.bitLen a - BinPoly.bitLen b : ℕ) : Int) := by omega
    have e2 : ((BinPoly.bitLen a : ℕ) : Int) - 2
        = ((BinPoly.bitLen b : ℕ) : Int) + ((BinPoly.bitLen a - BinPoly.bitLen b : ℕ) : Int) - 2 := by omega
    rw [e, e2, b_shl_cast, b_xor_cast,
      b_mod_loop (BinPoly.bitLen b) hn _ (fun i b a => b_mod_body i b a)]

/-! ### divmod -/

theorem b_divmod_body (i b q a : ℕ) :
    (let b := (pyShr (b : Int) 1)
     let q := (pyShl (q : Int) 1)
     if (i : Int) < 0 then (.error .valueError : Except TErr (Int × Int × Int)) else
     if ((pyShr (a : Int) (i : Int)) % 2) ≠ 0 then
       let q := (pyXor q 1)
       let a := (pyXor (a : Int) b)
       .ok (b, q, a)
     else
       .ok (b, q, (a : Int))) =
    .ok (((b >>> 1 : ℕ) : Int), ((if (a >>> i) &&& 1 = 1 then (q <<< 1) ^^^ 1 else q <<< 1 : ℕ) : Int),
      ((if (a >>> i) &&& 1 = 1 then a ^^^ (b >>> 1) else a : ℕ) : Int)) := by
  have hi : ¬ ((i : Int) < 0) := by omega
  simp only [hi, if_false, b_shr_one_cast, b_shl_one_cast, b_shr_cast, b_xor_cast, b_xor_one_cast]
  by_cases h : (a >>> i) &&& 1 = 1
  · rw [if_pos ((b_odd_cast _).mpr h), if_pos h, if_pos h]
  · rw [if_neg (fun h' => h ((b_odd_cast _).mp h')), if_neg h, if_neg h]

theorem b_divmod_loop (n : ℕ) (hn : 1 ≤ n) (body : Int → BSt3 → Except TErr BSt3)
    (hb : ∀ (i b q a : ℕ), body (i : Int) ((b : Int), (q : Int), (a : Int)) =
      .ok (((b >>> 1 : ℕ) : Int), ((if (a >>> i) &&& 1 = 1 then (q <<< 1) ^^^ 1 else q <<< 1 : ℕ) : Int),
        ((if (a >>> i) &&& 1 = 1 then a ^^^ (b >>> 1) else a : ℕ) : Int))) :
    ∀ (k q a b : ℕ),
      pyFor (pyRangeDown ((n : Int) + (k : Int) - 2) ((n : Int) - 2)) ((b : Int), (q : Int), (a : Int)) body
        = .ok (((b >>> k : ℕ) : Int), (((BinPoly.divmodLoop n k q a b).1 : ℕ) : Int),
            (((BinPoly.divmodLoop n k q a b).2 : ℕ) : Int)) := by
  intro k
  induction k with
  | zero =>
    intro q a b
    rw [b_rangeDown_nil _ _ (by omega)]
    rfl
  | succ k ih =>
    intro q a b
    rw [b_rangeDown_cons _ _ (by push_cast; omega)]
    have e1 : (n : Int) + ((k + 1 : ℕ) : Int) - 2 = ((n + k - 1 : ℕ) : Int) := by omega
    have e2 : ((n + k - 1 : ℕ) : Int) - 1 = (n : Int) + (k : Int) - 2 := by omega
    rw [e1, e2, pyFor, hb, BinPoly.divmodLoop]
    by_cases h : (a >>> (n + k - 1)) &&& 1 = 1
    · simp only [if_pos h]
      rw [ih, b_shr_succ]
    · simp only [if_neg h]
      rw [ih, b_shr_succ]

theorem b_divmod_eq (a b : ℕ) : GfpxMirror.b_divmod (a : Int) (b : Int) =
    liftE (fun (qr : ℕ × ℕ) => ((qr.1 : Int), (qr.2 : Int))) (BinPoly.divmod a b) := by
  unfold GfpxMirror.b_divmod BinPoly.divmod
  by_cases hb0 : b = 0
  · subst hb0; simp [liftE]
  have hb0' : (b : Int) ≠ 0 := by exact_mod_cast hb0
  rw [if_neg hb0', if_neg hb0]
  have hn := b_bitLen_pos hb0
  simp only [bitLength_eq_bitLen, liftE, BinPoly.divmodCore]
  by_cases hlt : BinPoly.bitLen a < BinPoly.bitLen b
  · have hlt' : ((BinPoly.bitLen a : ℕ) : Int) < ((BinPoly.bitLen b : ℕ) : Int) := by exact_mod_cast hlt
    simp only [if_pos hlt', if_pos hlt, Nat.cast_zero]
  · have hlt' : ¬ ((BinPoly.bitLen a : ℕ) : Int) < ((BinPoly.bitLen b : ℕ) : Int) := by
      intro h; exact hlt (by exact_mod_cast h)
    have hsub : ¬ (((BinPoly.bitLen a : ℕ) : Int) - ((BinPoly.bitLen b : ℕ) : Int) < 0) := by omega
    simp only [if_neg hlt', if_neg hlt, if_neg hsub]
    have e : ((BinPoly.bitLen a : ℕ) : Int) - ((BinPoly.bitLen b : ℕ) : Int)
        = ((BinPoly.bitLen a - BinPoly.bitLen b : ℕ) : Int) := by omega
    have e2 : ((BinPoly.bitLen a : ℕ) : Int) - 2
        = ((BinPoly.bitLen b : ℕ) : Int) + ((BinPoly.bitLen a - BinPoly.bitLen b : ℕ) : Int) - 2 := by omega
    have e1 : (1 : Int) = ((1 : ℕ) : Int) := rfl
    rw [e, e2, b_shl_cast, b_xor_cast, e1,
      b_divmod_loop (BinPoly.bitLen b) hn _ (fun i b q a => b_divmod_body i b q a)]

/-! ### gcd -/

theorem b_gcd_loop {α : Type} (body : Int × Int → Except TErr (Ctl (Int × Int) Empty))
    (hb1 : ∀ a b : Int, b ≠ 0 → body (a, b) = match GfpxMirror.b_mod a b with
      | .error exc_ => .error exc_
      | .ok v1 => .ok (.next (b, v1)))
    (hb2 : ∀ a : Int, body (a, 0) = .ok (.brk (a, 0)))
    (k : Int × Int → Except TErr α) :
    ∀ (f a b : ℕ), BinPoly.bitLen b < f →
      onLoop (loop TErr.fuel body f ((a : Int), (b : Int))) (fun r => nomatch r) k =
        k (((BinPoly.gcdLoop f a b : ℕ) : Int), 0) := by
  intro f
  induction f with
  | zero => intro a b h; omega
  | succ f ih =>
    intro a b hlen
    rw [loop, BinPoly.gcdLoop]
    by_cases hb0 : b = 0
    · subst hb0
      simp only [Nat.cast_zero, hb2, onLoop, if_true]
    · have hb0' : (b : Int) ≠ 0 := by exact_mod_cast hb0
      rw [hb1 _ _ hb0', b_mod_eq, if_neg hb0]
      simp only [BinPoly.mod, if_neg hb0, liftE]
      exact ih b (BinPoly.modCore a b) (by have := BinPoly.bitLen_modCore_lt a hb0; omega)

theorem b_gcd_eq (a b : ℕ) : GfpxMirror.b_gcd (a : Int) (b : Int) = .ok ((BinPoly.gcd a b : ℕ) : Int) := by
  unfold GfpxMirror.b_gcd BinPoly.gcd
  rw [bitLength_eq_bitLen]
  exact b_gcd_loop (α := Int) _
    (fun a b h => by
      simp only [h, ne_eq, not_false_eq_true, if_true]
      rfl)
    (fun a => by simp) _ (BinPoly.bitLen b + 1) a b (by omega)

/-! ### gcdext -/

abbrev BSt6 := Int × Int × Int × Int × Int × Int

theorem b_gcdext_loop {α : Type} (body : BSt6 → Except TErr (Ctl BSt6 Empty))
    (hb1 : ∀ a b s s1 t t1 : Int, b ≠ 0 → body (a, b, s, s1, t, t1) =
      match GfpxMirror.b_divmod a b with
      | .error exc_ => .error exc_
      | .ok (v1, v2) =>
        match GfpxMirror.b_mul v1 s1 with
        | .error exc_ => .error exc_
        | .ok v3 =>
          match GfpxMirror.b_mul v1 t1 with
          | .error exc_ => .error exc_
          | .ok v4 => .ok (.next (b, v2, s1, pyXor s v3, t1, pyXor t v4)))
    (hb2 : ∀ a s s1 t t1 : Int, body (a, 0, s, s1, t, t1) = .ok (.brk (a, 0, s, s1, t, t1)))
    (k : BSt6 → Except TErr α) (hk : ∀ a b s s1 t t1, k (a, b, s, s1, t, t1) = k (a, 0, s, 0, t, 0)) :
    ∀ (f a b s s1 t t1 : ℕ), BinPoly.bitLen b < f →
      onLoop (loop TErr.fuel body f ((a : Int), (b : Int), (s : Int), (s1 : Int), (t : Int), (t1 : Int)))
          (fun r => nomatch r) k =
        k ((((BinPoly.gcdextLoop f a b s s1 t t1).1 : ℕ) : Int), 0,
           (((BinPoly.gcdextLoop f a b s s1 t t1).2.1 : ℕ) : Int), 0,
           (((BinPoly.gcdextLoop f a b s s1 t t1).2.2 : ℕ) : Int), 0) := by
  intro f
  induction f with
  | zero => intro a b _ _ _ _ h; omega
  | succ f ih =>
    intro a b s s1 t t1 hlen
    rw [loop, BinPoly.gcdextLoop]
    by_cases hb0 : b = 0
    · subst hb0
      simp only [Nat.cast_zero, hb2, onLoop, if_true]
      exact hk _ _ _ _ _ _
    · have hb0' : (b : Int) ≠ 0 := by exact_mod_cast hb0
      rw [hb1 _ _ _ _ _ _ hb0', b_divmod_eq, if_neg hb0]
      simp only [BinPoly.divmod, if_neg hb0, liftE, b_mul_eq, b_xor_cast]
      have hlt : BinPoly.bitLen (BinPoly.divmodCore a b).2 < BinPoly.bitLen b := by
        rw [← BinPoly.modCore_eq_divmodCore_snd]; exact BinPoly.bitLen_modCore_lt a hb0
      exact ih b (BinPoly.divmodCore a b).2 s1 _ t1 _ (by omega)

theorem b_gcdext_eq (a b : ℕ) : GfpxMirror.b_gcdext (a : Int) (b : Int) =
    .ok (((BinPoly.gcdext a b).1 : Int), ((BinPoly.gcdext a b).2.1 : Int), ((BinPoly.gcdext a b).2.2 : Int)) := by
  unfold GfpxMirror.b_gcdext BinPoly.gcdext
  dsimp only
  rw [bitLength_eq_bitLen]
  have hloop := fun body hb1 hb2 k hk => b_gcdext_loop (α := Int × Int × Int) body hb1 hb2 k hk
    (BinPoly.bitLen b + 1) a b 1 0 0 1 (by omega)
  simp only [Nat.cast_one, Nat.cast_zero] at hloop
  exact hloop _
    (fun a b s s1 t t1 h => by
      simp only [h, ne_eq, not_false_eq_true, if_true]; rfl)
    (fun a s s1 t t1 => by simp) _ (fun _ _ _ _ _ _ => rfl)

/-! ### invert -/

abbrev BSt4 := Int × Int × Int × Int

theorem b_invert_loop {α : Type} (body : BSt4 → Except TErr (Ctl BSt4 Empty))
    (hb1 : ∀ a b s s1 : Int, b ≠ 0 → body (a, b, s, s1) =
      match GfpxMirror.b_divmod a b with
      | .error exc_ => .error exc_
      | .ok (v1, v2) =>
        match GfpxMirror.b_mul v1 s1 with
        | .error exc_ => .error exc_
        | .ok v3 => .ok (.next (b, v2, s1, pyXor s v3)))
    (hb2 : ∀ a s s1 : Int, body (a, 0, s, s1) = .ok (.brk (a, 0, s, s1)))
    (k : BSt4 → Except TErr α) (hk : ∀ a b s s1, k (a, b, s, s1) = k (a, 0, s, 0)) :
    ∀ (f a b s s1 : ℕ), BinPoly.bitLen b < f →
      onLoop (loop TErr.fuel body f ((a : Int), (b : Int), (s : Int), (s1 : Int))) (fun r => nomatch r) k =
        k ((((BinPoly.invertLoop f a b s s1).1 : ℕ) : Int), 0, (((BinPoly.invertLoop f a b s s1).2 : ℕ) : Int), 0) := by
  intro f
  induction f with
  | zero => intro a b _ _ h; omega
  | succ f ih =>
    intro a b s s1 hlen
    rw [loop, BinPoly.invertLoop]
    by_cases hb0 : b = 0
    · subst hb0
      simp only [Nat.cast_zero, hb2, onLoop, if_true]
      exact hk _ _ _ _
    · have hb0' : (b : Int) ≠ 0 := by exact_mod_cast hb0
      rw [hb1 _ _ _ _ hb0', b_divmod_eq, if_neg hb0]
      simp only [BinPoly.divmod, if_neg hb0, liftE, b_mul_eq, b_xor_cast]
      have hlt : BinPoly.bitLen (BinPoly.divmodCore a b).2 < BinPoly.bitLen b := by
        rw [← BinPoly.modCore_eq_divmodCore_snd]; exact BinPoly.bitLen_modCore_lt a hb0
      exact ih b (BinPoly.divmodCore a b).2 s1 _ (by omega)

theorem b_invert_eq (a b : ℕ) :
    GfpxMirror.b_invert (a : Int) (b : Int) = liftE (fun (x : ℕ) => (x : Int)) (BinPoly.invert a b) := by
  unfold GfpxMirror.b_invert BinPoly.invert
  by_cases hb0 : b = 0
  · subst hb0; simp [liftE]
  have hb0' : (b : Int) ≠ 0 := by exact_mod_cast hb0
  rw [if_neg hb0', if_neg hb0]
  dsimp only
  rw [bitLength_eq_bitLen]
  have hloop := fun body hb1 hb2 k hk => b_invert_loop (α := Int) body hb1 hb2 k hk
    (BinPoly.bitLen b + 1) a b 1 0 (by omega)
  simp only [Nat.cast_one, Nat.cast_zero] at hloop
  refine Eq.trans (hloop _
    (fun a b s s1 h => by
      simp only [h, ne_eq, not_false_eq_true, if_true]; rfl)
    (fun a s s1 => by simp) _ (fun _ _ _ _ => rfl)) ?_
  set r := BinPoly.invertLoop (BinPoly.bitLen b + 1) a b 1 0 with hr
  by_cases h1 : r.1 = 1
  · have h1' : ¬ ((r.1 : ℕ) : Int) ≠ 1 := by rw [h1]; simp
    simp only [h1, Nat.cast_one, ne_eq, not_true_eq_false, if_false, liftE]
  · have h1' : ((r.1 : ℕ) : Int) ≠ 1 := by exact_mod_cast h1
    simp only [if_pos h1', ne_eq, h1, not_false_eq_true, if_true, liftE]

/-! ### is_irreducible -/

theorem b_irr_loop (a : ℕ) (ha : a ≠ 0) (stop : ℕ)
    (body : Int × Int → Except TErr (Ctl (Int × Int) Bool))
    (hb1 : ∀ (i b : ℕ), i < stop → body ((b : Int), (i : Int)) =
      match GfpxMirror.b_mul (b : Int) (b : Int) with
      | .error exc_ => .error exc_
      | .ok v3 =>
        match GfpxMirror.b_mod v3 (a : Int) with
        | .error exc_ => .error exc_
        | .ok v4 =>
          match GfpxMirror.b_gcd (pyXor v4 2) (a : Int) with
          | .error exc_ => .error exc_
          | .ok v5 => if v5 ≠ 1 then .ok (.ret false) else .ok (.next (v4, (i : Int) + 1)))
    (hb2 : ∀ (i b : ℕ), ¬ i < stop → body ((b : Int), (i : Int)) = .ok (.brk ((b : Int), (i : Int))))
    (kdone : Int × Int → Except TErr Bool) (hk : ∀ s, kdone s = .ok true) :
    ∀ (f k i b : ℕ), i + k = stop → k < f →
      onLoop (loop TErr.fuel body f ((b : Int), (i : Int))) (fun r_ => .ok r_) kdone
        = .ok (BinPoly.irrLoop a k b) := by
  intro f
  induction f with
  | zero => intro k i b _ h; omega
  | succ f ih =>
    intro k i b hik hkf
    rw [loop]
    cases k with
    | zero =>
      rw [hb2 i b (by omega)]
      simp only [onLoop, BinPoly.irrLoop, hk]
    | succ k =>
      rw [hb1 i b (by omega), b_mul_eq, BinPoly.irrLoop]
      simp only [b_mod_eq, BinPoly.mod, if_neg ha, liftE, b_xor_two_cast, b_gcd_eq]
      by_cases hg : BinPoly.gcd (BinPoly.modCore (BinPoly.mul b b) a ^^^ 2) a = 1
      · have hg' : ¬ ((BinPoly.gcd (BinPoly.modCore (BinPoly.mul b b) a ^^^ 2) a : ℕ) : Int) ≠ 1 := by
          rw [hg]; simp
        rw [if_neg hg', if_neg (by simpa using hg)]
        have := ih k (i + 1) (BinPoly.modCore (BinPoly.mul b b) a) (by omega) (by omega)
        rw [Nat.cast_add, Nat.cast_one] at this
        exact this
      · have hg' : ((BinPoly.gcd (BinPoly.modCore (BinPoly.mul b b) a ^^^ 2) a : ℕ) : Int) ≠ 1 := by
          exact_mod_cast hg
        rw [if_pos hg', if_pos (by simpa using hg)]
        rfl

theorem b_is_irreducible_eq (a : ℕ) : GfpxMirror.b_is_irreducible (a : Int) = .ok (BinPoly.isIrreducible a) := by
  unfold GfpxMirror.b_is_irreducible BinPoly.isIrreducible
  by_cases h1 : a ≤ 1
  · have h1' : (a : Int) ≤ 1 := by exact_mod_cast h1
    simp only [if_pos h1', if_pos h1]
  · have h1' : ¬ (a : Int) ≤ 1 := by intro h; exact h1 (by exact_mod_cast h)
    have ha : a ≠ 0 := by omega
    have hL := b_bitLen_pos ha
    simp only [if_neg h1', if_neg h1, b_degree_eq, BinPoly.degree]
    have hstop : (((BinPoly.bitLen a : ℕ) : Int) - 1) / 2 = (((BinPoly.bitLen a - 1) / 2 : ℕ) : Int) := by omega
    rw [hstop]
    have hfuel : ((((BinPoly.bitLen a - 1) / 2 : ℕ) : Int) - ((0 : ℕ) : Int)).toNat + 1 = (BinPoly.bitLen a - 1) / 2 + 1 := by omega
    rw [hfuel]
    have hloop := fun body hb1 hb2 kdone hk => b_irr_loop a ha ((BinPoly.bitLen a - 1) / 2) body hb1 hb2 kdone hk
      ((BinPoly.bitLen a - 1) / 2 + 1) ((BinPoly.bitLen a - 1) / 2) 0 2 (by omega) (by omega)
    refine hloop _ (fun i b hi => ?_) (fun i b hi => ?_) _ (fun _ => rfl)
    · have : (i : Int) < (((BinPoly.bitLen a - 1) / 2 : ℕ) : Int) := by exact_mod_cast hi
      simp only [if_pos this]; rfl
    · have : ¬ (i : Int) < (((BinPoly.bitLen a - 1) / 2 : ℕ) : Int) := by
        intro h; exact hi (by exact_mod_cast h)
      simp only [if_neg this]

/-! ### next_irreducible -/

theorem b_next_loop (body : Int → Except TErr (Ctl Int Empty))
    (hb : ∀ a : Int, body a =
      match GfpxMirror.b_is_irreducible a with
      | .error exc_ => .error exc_
      | .ok v1 => if ¬ (v1 = true) then .ok (.next (a + 2)) else .ok (.brk a))
    (kdone : Int → Except TErr Int) (hk : ∀ s, kdone s = .ok s) :
    ∀ (fuel a : ℕ), onLoop (loop TErr.fuel body fuel (a : Int)) (fun r_ => nomatch r_) kdone =
      match BinPoly.nextIrrLoop fuel a with
      | some c => .ok ((c : ℕ) : Int)
      | none => .error TErr.fuel := by
  intro fuel
  induction fuel with
  | zero => intro a; rfl
  | succ f ih =>
    intro a
    rw [loop, hb, b_is_irreducible_eq, BinPoly.nextIrrLoop]
    by_cases hirr : BinPoly.isIrreducible a = true
    · simp only [hirr, not_true_eq_false, if_false, if_true, onLoop, hk]
    · simp only [hirr, not_false_eq_true, if_true, Bool.false_eq_true, if_false]
      have := ih (a + 2)
      rw [Nat.cast_add, Nat.cast_ofNat] at this
      exact this

theorem b_next_irreducible_eq (fuel a : ℕ) : GfpxMirror.b_next_irreducible fuel (a : Int) =
    match BinPoly.nextIrreducible fuel a with
    | some c => .ok ((c : ℕ) : Int)
    | none => .error TErr.fuel := by
  unfold GfpxMirror.b_next_irreducible BinPoly.nextIrreducible
  by_cases h1 : a ≤ 1
  · have h1' : (a : Int) ≤ 1 := by exact_mod_cast h1
    simp only [if_pos h1', if_pos h1, Nat.cast_ofNat]
  · have h1' : ¬ (a : Int) ≤ 1 := by intro h; exact h1 (by exact_mod_cast h)
    simp only [if_neg h1', if_neg h1]
    have e : (a : Int) + (1 + (a : Int) % 2) = ((a + 1 + a % 2 : ℕ) : Int) := by omega
    rw [e]
    generalize hx : onLoop _ _ _ = x
    have h2 : x = match BinPoly.nextIrrLoop fuel (a + 1 + a % 2) with
        | some c => .ok ((c : ℕ) : Int)
        | none => .error TErr.fuel := by
      rw [← hx]
      exact b_next_loop _ (fun a => rfl) _ (fun _ => rfl) fuel (a + 1 + a % 2)
    rw [h2]
    cases BinPoly.nextIrrLoop fuel (a + 1 + a % 2) <;> rfl

end MpycV.GfpxBridge
