/-
Lemmas tying the executable model `MpycV.PrimeF` (Nat-mod-p arithmetic transcribing
`PrimeFieldElement`) to Mathlib's field `ZMod p`.
  * `cast_*`   : the canonical map `a ↦ (a : ZMod p)` commutes with every model operator
  * `eq_of_cast`: the map is injective on reduced values, `*_lt`: every operator returns a reduced value
  * `invert_*` : the extended-Euclid stub returns the inverse / raises exactly for multiples of `p`
-/
import Mathlib.Data.ZMod.Basic
import Mathlib.Data.Int.Basic
import Mathlib.Algebra.Field.ZMod
import Mathlib.Tactic.Ring
import MpycV.Model.PrimeF

namespace MpycV.PrimeF

/-! ### `pmod` / `mk` -/

theorem pmod_lt {p : Nat} (hp : 0 < p) (x : Int) : pmod x p < p := by
  unfold pmod
  have h1 : (0 : Int) < (p : Int) := by omega
  have h2 := Int.emod_lt_of_pos x h1
  have h3 := Int.emod_nonneg x (show (p : Int) ≠ 0 by omega)
  omega

theorem mk_lt {p : Nat} (hp : 0 < p) (x : Int) : mk p x < p := pmod_lt hp x

theorem pmod_coe (p : Nat) (hp : 0 < p) (x : Int) : ((pmod x p : Nat) : Int) = x % (p : Int) := by
  unfold pmod
  exact Int.toNat_of_nonneg (Int.emod_nonneg x (by omega))

theorem pmod_cast (p : Nat) [NeZero p] (x : Int) : ((pmod x p : Nat) : ZMod p) = (x : ZMod p) := by
  have hp : 0 < p := Nat.pos_of_ne_zero (NeZero.ne p)
  have h := pmod_coe p hp x
  have : (((pmod x p : Nat) : Int) : ZMod p) = ((x % (p : Int) : Int) : ZMod p) := by rw [h]
  rw [Int.cast_natCast] at this
  rw [this, ZMod.intCast_mod]

theorem mk_cast (p : Nat) [NeZero p] (x : Int) : ((mk p x : Nat) : ZMod p) = (x : ZMod p) := pmod_cast p x

theorem pmod_natCast (p a : Nat) : pmod (a : Int) p = a % p := by
  unfold pmod
  omega

theorem pmod_of_lt {p a : Nat} (h : a < p) : pmod (a : Int) p = a := by
  rw [pmod_natCast, Nat.mod_eq_of_lt h]

/-- the canonical map is injective on reduced values -/
theorem eq_of_cast {p a b : Nat} (ha : a < p) (hb : b < p) (h : (a : ZMod p) = (b : ZMod p)) : a = b := by
  have := (ZMod.natCast_eq_natCast_iff' a b p).mp h
  rwa [Nat.mod_eq_of_lt ha, Nat.mod_eq_of_lt hb] at this

/-- `mk` depends only on the residue class -/
theorem mk_congr {p : Nat} [NeZero p] {x y : Int} (h : (x : ZMod p) = (y : ZMod p)) : mk p x = mk p y := by
  have hp : 0 < p := Nat.pos_of_ne_zero (NeZero.ne p)
  apply eq_of_cast (mk_lt hp x) (mk_lt hp y)
  rw [mk_cast, mk_cast, h]

/-! ### built-in `pow` with modulus -/

theorem powModF_eq (b m : Nat) : ∀ f e, e ≤ f → powModF m f b e = b ^ e % m := by
  intro f
  induction f with
  | zero => intro e he; have : e = 0 := by omega
            subst this; simp [powModF]
  | succ f ih =>
    intro e he
    rw [powModF]
    split
    · rename_i h0; subst h0; simp
    · rename_i he0
      have h2 := ih (e / 2) (by omega)
      simp only [h2]
      have hsq : b ^ (e / 2) % m * (b ^ (e / 2) % m) % m = b ^ (2 * (e / 2)) % m := by
        rw [← Nat.mul_mod, ← pow_add]; congr 2; omega
      rw [hsq]
      split
      · rename_i h1
        rw [Nat.mod_mul_mod, ← pow_succ]; congr 2; omega
      · congr 2; omega

theorem powModNat_eq (b m e : Nat) : powModNat b e m = b ^ e % m := powModF_eq b m e e (Nat.le_refl e)

theorem powModNat_lt {m : Nat} (hm : 0 < m) (b e : Nat) : powModNat b e m < m := by
  rw [powModNat_eq]; exact Nat.mod_lt _ hm

theorem powModNat_cast (p : Nat) (b e : Nat) : ((powModNat b e p : Nat) : ZMod p) = (b : ZMod p) ^ e := by
  rw [powModNat_eq, ZMod.natCast_mod, Nat.cast_pow]

/-! ### the `invert` stub (extended Euclid) -/

theorem invLoopF_bezout (x : Int) (m : Nat) : ∀ (f b : Nat) (a s s1 : Int), b < f →
    (((s * x : Int)) : ZMod m) = (a : ZMod m) → (((s1 * x : Int)) : ZMod m) = ((b : Int) : ZMod m) →
    ((((invLoopF f a b s s1).2 * x : Int)) : ZMod m) = ((invLoopF f a b s s1).1 : ZMod m) := by
  intro f
  induction f with
  | zero => intro b a s s1 h; omega
  | succ f ih =>
    intro b a s s1 hf h1 h2
    rw [invLoopF]
    split
    · exact h1
    · rename_i hb
      have hpos : (0 : Int) < (b : Int) := by omega
      have hlt : (a % (b : Int)).toNat < b := by
        have := Int.emod_lt_of_pos a hpos
        have := Int.emod_nonneg a (show (b : Int) ≠ 0 by omega)
        omega
      apply ih _ _ _ _ (by omega)
      · exact h2
      · have hnn : (((a % (b : Int)).toNat : Nat) : Int) = a % (b : Int) :=
          Int.toNat_of_nonneg (Int.emod_nonneg a (by omega))
        rw [hnn, Int.emod_def]
        push_cast at h1 h2 ⊢
        rw [sub_mul, h1, mul_assoc, h2]
        ring

theorem invLoopF_gcd : ∀ (f b : Nat) (a s s1 : Int), b < f → (0 ≤ a ∨ 0 < b) →
    (invLoopF f a b s s1).1 = (Int.gcd a (b : Int) : Int) := by
  intro f
  induction f with
  | zero => intro b a s s1 h; omega
  | succ f ih =>
    intro b a s s1 hf h
    rw [invLoopF]
    split
    · rename_i hb
      subst hb
      have ha : 0 ≤ a := by omega
      simp [Int.gcd, Int.natAbs_of_nonneg ha]
    · rename_i hb
      have hpos : (0 : Int) < (b : Int) := by omega
      have hnn : (((a % (b : Int)).toNat : Nat) : Int) = a % (b : Int) :=
        Int.toNat_of_nonneg (Int.emod_nonneg a (by omega))
      have hlt : (a % (b : Int)).toNat < b := by
        have := Int.emod_lt_of_pos a hpos
        omega
      rw [ih _ _ _ _ (by omega) (Or.inl (by omega)), hnn, Int.gcd_comm, Int.gcd_emod]

theorem invLoop_bezout (x : Int) (m : Nat) (b : Nat) (a s s1 : Int)
    (h1 : (((s * x : Int)) : ZMod m) = (a : ZMod m)) (h2 : (((s1 * x : Int)) : ZMod m) = ((b : Int) : ZMod m)) :
    ((((invLoop a b s s1).2 * x : Int)) : ZMod m) = ((invLoop a b s s1).1 : ZMod m) :=
  invLoopF_bezout x m (b + 1) b a s s1 (Nat.lt_succ_self b) h1 h2

theorem invLoop_gcd (b : Nat) (a s s1 : Int) (h : 0 ≤ a ∨ 0 < b) :
    (invLoop a b s s1).1 = (Int.gcd a (b : Int) : Int) :=
  invLoopF_gcd (b + 1) b a s s1 (Nat.lt_succ_self b) h

variable {p : Nat}

theorem gcd_prime_eq_one_iff (hp : p.Prime) (x : Int) : Int.gcd x (p : Int) = 1 ↔ (x : ZMod p) ≠ 0 := by
  rw [Ne, ZMod.intCast_zmod_eq_zero_iff_dvd, Int.natCast_dvd, Int.gcd_comm]
  show Nat.gcd p x.natAbs = 1 ↔ _
  exact hp.coprime_iff_not_dvd

/-- for a prime modulus `invert` succeeds on every non-multiple of `p` and returns the inverse -/
theorem invert_ok (hp : p.Prime) (x : Int) (hx : (x : ZMod p) ≠ 0) :
    ∃ r : Int, invert x p = .ok r ∧ (r : ZMod p) * (x : ZMod p) = 1 := by
  have hp0 : p ≠ 0 := hp.ne_zero
  have hp1 : p ≠ 1 := hp.ne_one
  have hg := invLoop_gcd p x 1 0 (Or.inr hp.pos)
  have hb := invLoop_bezout x p p x 1 0 (by simp) (by simp)
  have h1 : (invLoop x p 1 0).1 = 1 := by rw [hg, (gcd_prime_eq_one_iff hp x).mpr hx]; rfl
  unfold invert
  rw [if_neg hp0, if_neg hp1]
  simp only [h1, ne_eq, not_true_eq_false, ↓reduceIte]
  refine ⟨_, rfl, ?_⟩
  rw [h1] at hb
  push_cast at hb
  split <;> push_cast <;> simp [hb]

/-- … and raises ZeroDivisionError exactly on the multiples of `p` -/
theorem invert_err (hp : p.Prime) (x : Int) (hx : (x : ZMod p) = 0) : invert x p = .error .zeroDivision := by
  have hp0 : p ≠ 0 := hp.ne_zero
  have hp1 : p ≠ 1 := hp.ne_one
  have hg := invLoop_gcd p x 1 0 (Or.inr hp.pos)
  have h1 : (invLoop x p 1 0).1 ≠ 1 := by
    rw [hg]; intro h
    have : Int.gcd x (p : Int) = 1 := by exact_mod_cast h
    exact (gcd_prime_eq_one_iff hp x).mp this hx
  unfold invert
  rw [if_neg hp0, if_neg hp1]
  simp only [h1, ne_eq, not_false_eq_true, ↓reduceIte]

/-! ### reflected and in-place operators compute the same function as the binary ones -/

theorem radd_eq_add (p a : Nat) (o : Int) : radd p a o = add p a o := rfl
theorem iadd_eq_add (p a : Nat) (o : Int) : iadd p a o = add p a o := rfl
theorem isub_eq_sub (p a : Nat) (o : Int) : isub p a o = sub p a o := rfl
theorem rmul_eq_mul (p a : Nat) (o : Int) : rmul p a o = mul p a o := rfl
theorem imul_eq_mul (p a : Nat) (o : Int) : imul p a o = mul p a o := rfl
theorem itruediv_eq_truediv (p a : Nat) (o : Int) : itruediv p a o = truediv p a o := rfl
theorem ilshift_eq_lshift (p a : Nat) (n : Int) : ilshift p a n = lshift p a n := rfl
theorem irshift_eq_rshift (p a : Nat) (n : Int) : irshift p a n = rshift p a n := rfl

theorem shl_nonneg (x : Int) (n : Nat) : shl x (n : Int) = .ok (x * 2 ^ n) := by
  unfold shl; simp

theorem shl_neg (x : Int) (n : Int) (hn : n < 0) : shl x n = .error .value := by
  unfold shl; simp [hn]

theorem lshift_neg (p a : Nat) (n : Int) (hn : n < 0) : lshift p a n = .error .value := by
  unfold lshift; rw [shl_neg _ _ hn]; rfl

theorem rshift_neg (p a : Nat) (n : Int) (hn : n < 0) : rshift p a n = .error .value := by
  unfold rshift reciprocal2; rw [shl_neg _ _ hn]; rfl

/-! ### ring operators: results are reduced and commute with the cast -/

section ring
variable [NeZero p] (a : Nat) (o : Int)

theorem hp_pos : 0 < p := Nat.pos_of_ne_zero (NeZero.ne p)

theorem add_lt : add p a o < p := mk_lt hp_pos _
theorem radd_lt : radd p a o < p := mk_lt hp_pos _
theorem iadd_lt : iadd p a o < p := pmod_lt hp_pos _
theorem sub_lt : sub p a o < p := mk_lt hp_pos _
theorem rsub_lt : rsub p a o < p := mk_lt hp_pos _
theorem isub_lt : isub p a o < p := pmod_lt hp_pos _
theorem neg_lt : neg p a < p := mk_lt hp_pos _
theorem pos_lt : pos p a < p := mk_lt hp_pos _
theorem mul_lt : mul p a o < p := mk_lt hp_pos _
theorem rmul_lt : rmul p a o < p := mk_lt hp_pos _
theorem imul_lt : imul p a o < p := pmod_lt hp_pos _

theorem cast_add : ((add p a o : Nat) : ZMod p) = (a : ZMod p) + (o : ZMod p) := by
  unfold add; rw [mk_cast]; push_cast; rfl
theorem cast_sub : ((sub p a o : Nat) : ZMod p) = (a : ZMod p) - (o : ZMod p) := by
  unfold sub; rw [mk_cast]; push_cast; rfl
theorem cast_rsub : ((rsub p a o : Nat) : ZMod p) = (o : ZMod p) - (a : ZMod p) := by
  unfold rsub; rw [mk_cast]; push_cast; rfl
theorem cast_mul : ((mul p a o : Nat) : ZMod p) = (a : ZMod p) * (o : ZMod p) := by
  unfold mul; rw [mk_cast]; push_cast; rfl
theorem cast_neg : ((neg p a : Nat) : ZMod p) = -(a : ZMod p) := by
  unfold neg; rw [mk_cast]; push_cast; rfl
theorem cast_pos : ((pos p a : Nat) : ZMod p) = (a : ZMod p) := by
  unfold pos; rw [mk_cast]; push_cast; rfl

end ring

/-! ### inverse, division, powers, shifts (prime modulus) -/

section field
variable [hpf : Fact p.Prime] (a : Nat) (o : Int)

theorem reciprocalRaw_ok (x : Int) (hx : (x : ZMod p) ≠ 0) :
    ∃ r : Int, reciprocalRaw p x = .ok r ∧ (r : ZMod p) = (x : ZMod p)⁻¹ := by
  obtain ⟨r, h1, h2⟩ := invert_ok hpf.out x hx
  exact ⟨r, h1, eq_inv_of_mul_eq_one_left h2⟩

theorem reciprocalRaw_err (x : Int) (hx : (x : ZMod p) = 0) : reciprocalRaw p x = .error .zeroDivision :=
  invert_err hpf.out x hx

theorem reciprocal_ok (ha : (a : ZMod p) ≠ 0) :
    ∃ r : Nat, reciprocal p a = .ok r ∧ r < p ∧ (r : ZMod p) = (a : ZMod p)⁻¹ := by
  obtain ⟨r, h1, h2⟩ := reciprocalRaw_ok (p := p) (a : Int) (by simpa using ha)
  refine ⟨mk p r, ?_, mk_lt hpf.out.pos _, ?_⟩
  · unfold reciprocal; rw [h1]; rfl
  · rw [mk_cast, h2]; simp

theorem reciprocal_err (ha : (a : ZMod p) = 0) : reciprocal p a = .error .zeroDivision := by
  unfold reciprocal; rw [reciprocalRaw_err (p := p) (a : Int) (by simpa using ha)]; rfl

theorem truediv_ok (ho : (o : ZMod p) ≠ 0) :
    ∃ r : Nat, truediv p a o = .ok r ∧ r < p ∧ (r : ZMod p) = (a : ZMod p) / (o : ZMod p) := by
  obtain ⟨r, h1, h2⟩ := reciprocalRaw_ok (p := p) o ho
  refine ⟨mul p a r, ?_, mul_lt _ _, ?_⟩
  · unfold truediv; rw [h1]; rfl
  · rw [cast_mul, h2, div_eq_mul_inv]

theorem truediv_err (ho : (o : ZMod p) = 0) : truediv p a o = .error .zeroDivision := by
  unfold truediv; rw [reciprocalRaw_err (p := p) o ho]; rfl

theorem rtruediv_ok (ha : (a : ZMod p) ≠ 0) :
    ∃ r : Nat, rtruediv p a o = .ok r ∧ r < p ∧ (r : ZMod p) = (o : ZMod p) / (a : ZMod p) := by
  obtain ⟨r, h1, _, h3⟩ := reciprocal_ok (p := p) a ha
  refine ⟨mul p r o, ?_, mul_lt _ _, ?_⟩
  · unfold rtruediv; rw [h1]; rfl
  · rw [cast_mul, h3, div_eq_mul_inv, mul_comm]

theorem rtruediv_err (ha : (a : ZMod p) = 0) : rtruediv p a o = .error .zeroDivision := by
  unfold rtruediv; rw [reciprocal_err (p := p) a ha]; rfl

/-- `**` with a non-negative exponent -/
theorem pow_nonneg (n : Nat) : ∃ r : Nat, pow p a (n : Int) = .ok r ∧ r < p ∧ (r : ZMod p) = (a : ZMod p) ^ n := by
  refine ⟨mk p (powModNat a n p : Nat), ?_, mk_lt hpf.out.pos _, ?_⟩
  · unfold pow powmod; simp [Except.map]
  · rw [mk_cast]; simp [powModNat_cast]

/-- `**` with a negative exponent: power of the inverse -/
theorem pow_neg_ok (n : Nat) (hn : 0 < n) (ha : (a : ZMod p) ≠ 0) :
    ∃ r : Nat, pow p a (-(n : Int)) = .ok r ∧ r < p ∧ (r : ZMod p) = ((a : ZMod p)⁻¹) ^ n := by
  obtain ⟨i, h1, h2⟩ := invert_ok hpf.out (a : Int) (by simpa using ha)
  have hneg : ¬ (0 : Int) ≤ -(n : Int) := by omega
  refine ⟨mk p (powModNat (pmod i p) n p : Nat), ?_, mk_lt hpf.out.pos _, ?_⟩
  · unfold pow powmod; rw [if_neg hneg, h1]; simp [Except.map]
  · rw [mk_cast]; simp only [Int.cast_natCast, powModNat_cast, pmod_cast]
    rw [eq_inv_of_mul_eq_one_left h2]; simp

theorem pow_neg_err (n : Nat) (hn : 0 < n) (ha : (a : ZMod p) = 0) : pow p a (-(n : Int)) = .error .noInverse := by
  have hneg : ¬ (0 : Int) ≤ -(n : Int) := by omega
  unfold pow powmod; rw [if_neg hneg, invert_err hpf.out (a : Int) (by simpa using ha)]; rfl

theorem lshift_ok (n : Nat) : ∃ r : Nat, lshift p a (n : Int) = .ok r ∧ r < p ∧ (r : ZMod p) = (a : ZMod p) * 2 ^ n := by
  refine ⟨mk p ((a : Int) * 2 ^ n), ?_, mk_lt hpf.out.pos _, ?_⟩
  · unfold lshift; rw [shl_nonneg]; rfl
  · rw [mk_cast]; push_cast; rfl

theorem two_pow_ne_zero (hp2 : p ≠ 2) (n : Nat) : ((2 : ZMod p)) ^ n ≠ 0 := by
  apply pow_ne_zero
  intro h
  have : ((2 : Nat) : ZMod p) = 0 := by exact_mod_cast h
  rw [ZMod.natCast_eq_zero_iff] at this
  have := (Nat.prime_dvd_prime_iff_eq hpf.out Nat.prime_two).mp this
  exact hp2 this

theorem rshift_ok (hp2 : p ≠ 2) (n : Nat) :
    ∃ r : Nat, rshift p a (n : Int) = .ok r ∧ r < p ∧ (r : ZMod p) = (a : ZMod p) / 2 ^ n := by
  have h2 : (((1 : Int) * 2 ^ n : Int) : ZMod p) ≠ 0 := by push_cast; simpa using two_pow_ne_zero hp2 n
  obtain ⟨r, h1, h3⟩ := reciprocalRaw_ok (p := p) _ h2
  refine ⟨mk p ((a : Int) * r), ?_, mk_lt hpf.out.pos _, ?_⟩
  · unfold rshift reciprocal2; rw [shl_nonneg]; simp only [h1]; rfl
  · rw [mk_cast]; push_cast; rw [h3]; push_cast; rw [one_mul, div_eq_mul_inv]

/-- in GF(2) a right shift by `n ≥ 1` divides by `2^n = 0`: ZeroDivisionError -/
theorem rshift_two_err (a n : Nat) (hn : 0 < n) : rshift 2 a (n : Int) = .error .zeroDivision := by
  have : Fact (Nat.Prime 2) := ⟨Nat.prime_two⟩
  have h0 : (((1 : Int) * 2 ^ n : Int) : ZMod 2) = 0 := by
    push_cast
    have : (2 : ZMod 2) = 0 := by exact_mod_cast ZMod.natCast_self 2
    rw [this, zero_pow (by omega), mul_zero]
  unfold rshift reciprocal2; rw [shl_nonneg]; simp only [reciprocalRaw_err (p := 2) _ h0]; rfl

end field

/-! ### the ring isomorphism -/

/-- reduced representatives, carrying the model's `add`/`mul` -/
def El (p : Nat) := {a : Nat // a < p}

instance [NeZero p] : Add (El p) := ⟨fun a b => ⟨add p a.1 (b.1 : Int), add_lt _ _⟩⟩
instance [NeZero p] : Mul (El p) := ⟨fun a b => ⟨mul p a.1 (b.1 : Int), mul_lt _ _⟩⟩

/-- `value ↦ (value : ZMod p)` is a ring isomorphism from the reduced values with the model's
operators onto `ZMod p` -/
def toZMod (p : Nat) [NeZero p] : El p ≃+* ZMod p where
  toFun a := (a.1 : ZMod p)
  invFun z := ⟨z.val, ZMod.val_lt z⟩
  left_inv a := Subtype.ext (ZMod.val_cast_of_lt a.2)
  right_inv z := ZMod.natCast_zmod_val z
  map_mul' a b := by
    show ((mul p a.1 (b.1 : Int) : Nat) : ZMod p) = _
    rw [cast_mul]; simp
  map_add' a b := by
    show ((add p a.1 (b.1 : Int) : Nat) : ZMod p) = _
    rw [cast_add]; simp

end MpycV.PrimeF
