/-
Lemmas about the vector part of the model of mpyc/random.py: unit vectors, `random_unit_vector`
shape invariant, one Fisher–Yates step.
-/
import MpycV.Lemmas.Random

namespace MpycV.Random

/-- `[0]*p + [1] + [0]*q` -/
def unitAt (p q : Nat) : List Int := List.replicate p 0 ++ 1 :: List.replicate q 0

/-- a vector with exactly one entry 1 and all other entries 0 -/
def IsUnitVec (u : List Int) : Prop := ∃ p q, u = unitAt p q

theorem unitAt_length (p q : Nat) : (unitAt p q).length = p + q + 1 := by
  simp [unitAt]; omega

theorem scalarMul_true (u : List Int) : scalarMul (bitI true) u = u := by
  simp [scalarMul, bitI]

theorem scalarMul_false (u : List Int) : scalarMul (bitI false) u = List.replicate u.length 0 := by
  simp only [scalarMul, bitI, Bool.false_eq_true, if_false, Int.zero_mul]
  induction u with
  | nil => rfl
  | cons a u ih => simp [List.replicate_succ, ih]

theorem vectorSub_self (u : List Int) : vectorSub u u = List.replicate u.length 0 := by
  induction u with
  | nil => rfl
  | cons a u ih =>
    simp only [vectorSub, List.zipWith_cons_cons, Int.sub_self, List.length_cons, List.replicate_succ] at *
    rw [ih]

theorem vectorSub_zeros (u : List Int) : vectorSub u (List.replicate u.length 0) = u := by
  induction u with
  | nil => rfl
  | cons a u ih =>
    simp only [vectorSub, List.length_cons, List.replicate_succ, List.zipWith_cons_cons, Int.sub_zero] at *
    rw [ih]

theorem unitAt_append_zeros (p q r : Nat) : unitAt p q ++ List.replicate r 0 = unitAt p (q + r) := by
  simp [unitAt]

theorem zeros_append_unitAt (r p q : Nat) : List.replicate r 0 ++ unitAt p q = unitAt (r + p) q := by
  simp only [unitAt, ← List.append_assoc, List.replicate_append_replicate]

theorem unitAt_zero (q : Nat) : unitAt 0 q = 1 :: List.replicate q 0 := by simp [unitAt]

theorem unitAt_succ (p q : Nat) : unitAt (p + 1) q = 0 :: unitAt p q := by
  simp [unitAt, List.replicate_succ]

/-- step with `(b >> i) & 1 = 1`: `v = x[i]*u; u = v ++ (u - v)` -/
theorem ruv_step_one (c : Bool) {u : List Int} (hu : IsUnitVec u) :
    IsUnitVec (scalarMul (bitI c) u ++ vectorSub u (scalarMul (bitI c) u)) ∧
      (scalarMul (bitI c) u ++ vectorSub u (scalarMul (bitI c) u)).length = 2 * u.length := by
  obtain ⟨p, q, rfl⟩ := hu
  cases c
  · rw [scalarMul_false, vectorSub_zeros, zeros_append_unitAt]
    exact ⟨⟨_, _, rfl⟩, by simp [unitAt_length]; omega⟩
  · rw [scalarMul_true, vectorSub_self, unitAt_append_zeros]
    exact ⟨⟨_, _, rfl⟩, by simp [unitAt_length]; omega⟩

/-- step with `(b >> i) & 1 = 0` and no rejection (`v[0] = 0`):
`v = v[1:]; v.extend(vector_sub(u[1:], v)); u[1:] = v` -/
theorem ruv_step_zero (c : Bool) {u : List Int} (hu : IsUnitVec u)
    (h0 : (scalarMul (bitI c) u).headD 0 = 0) :
    IsUnitVec (u.take 1 ++ ((scalarMul (bitI c) u).tail ++ vectorSub u.tail (scalarMul (bitI c) u).tail)) ∧
      (u.take 1 ++ ((scalarMul (bitI c) u).tail ++ vectorSub u.tail (scalarMul (bitI c) u).tail)).length
        = 2 * u.length - 1 := by
  obtain ⟨p, q, rfl⟩ := hu
  cases c
  · -- v = zeros
    rw [scalarMul_false]
    cases p with
    | zero =>
      rw [unitAt_zero]
      simp only [List.length_cons, List.length_replicate, List.replicate_succ, List.tail_cons, List.take_succ_cons,
        List.take_zero]
      have := vectorSub_zeros (List.replicate q (0 : Int))
      rw [List.length_replicate] at this
      rw [this]
      refine ⟨⟨0, q + q, ?_⟩, by simp; omega⟩
      simp [unitAt]
    | succ p =>
      rw [unitAt_succ]
      simp only [List.length_cons, List.replicate_succ, List.tail_cons, List.take_succ_cons, List.take_zero]
      rw [vectorSub_zeros]
      refine ⟨⟨1 + (unitAt p q).length + p, q, ?_⟩, by simp [unitAt_length]; omega⟩
      rw [show (0 : Int) :: ([] : List Int) ++ (List.replicate (unitAt p q).length 0 ++ unitAt p q)
          = List.replicate (1 + (unitAt p q).length) 0 ++ unitAt p q by
        rw [Nat.add_comm 1, List.replicate_succ]; rfl]
      rw [zeros_append_unitAt]
  · -- v = u, so u[0] = 0
    rw [scalarMul_true] at h0 ⊢
    cases p with
    | zero => rw [unitAt_zero] at h0; simp at h0
    | succ p =>
      rw [unitAt_succ]
      simp only [List.tail_cons, List.take_succ_cons, List.take_zero]
      rw [vectorSub_self, unitAt_append_zeros]
      refine ⟨⟨p + 1, q + (unitAt p q).length, ?_⟩, by simp [unitAt_length]; omega⟩
      rw [unitAt_succ]; rfl

theorem ruvInit_unit (x : List Bool) (i : Nat) : IsUnitVec (ruvInit x i) ∧ (ruvInit x i).length = 2 := by
  unfold ruvInit
  cases x.getD i false
  · exact ⟨⟨1, 0, by simp [unitAt, bitI]⟩, rfl⟩
  · exact ⟨⟨0, 1, by simp [unitAt, bitI]⟩, rfl⟩

/-- shape invariant of the `while i:` loop of `random_unit_vector`:
`u` is a unit vector of length `(b >> i) + 1` -/
theorem ruvLoop_inv (b k : Nat) (hk : 1 ≤ k) (hb1 : 2 ^ (k - 1) ≤ b) (hb2 : b < 2 ^ k) :
    ∀ (fuel : Nat) (x : List Bool) (u : List Int) (i : Nat) (opened s : List Bool) (o : Out (List Int)),
      i ≤ k - 1 → IsUnitVec u → u.length = b / 2 ^ i + 1 →
      ruvLoop b k fuel x u i opened s = .ok o →
      IsUnitVec o.val ∧ o.val.length = b + 1 := by
  intro fuel
  induction fuel with
  | zero => intro x u i opened s o _ _ _ hr; simp [ruvLoop] at hr
  | succ fuel ih =>
    intro x u i opened s o hik hu hlen hr
    unfold ruvLoop at hr
    by_cases hi0 : i = 0
    · subst hi0
      simp only [ne_eq, not_true_eq_false, if_false] at hr
      cases hr
      exact ⟨hu, by simpa using hlen⟩
    · simp only [ne_eq, hi0, not_false_eq_true, if_true] at hr
      have hB := div_pow_pred b i (by omega)
      by_cases hbt : b.testBit (i - 1) = true
      · simp only [hbt, if_true] at hr
        have hb1' := (testBit_iff b (i - 1)).1 hbt
        obtain ⟨h1, h2⟩ := ruv_step_one (x.getD (i - 1) false) hu
        exact ih x _ (i - 1) opened s o (by omega) h1 (by rw [h2, hlen]; omega) hr
      · have hbf : b.testBit (i - 1) = false := by simpa using hbt
        have hb0 : b / 2 ^ (i - 1) % 2 = 0 := by
          have := (testBit_iff b (i - 1)).not.1 hbt
          omega
        simp only [hbf, Bool.false_eq_true, if_false] at hr
        by_cases hrej : (scalarMul (bitI (x.getD (i - 1) false)) u).headD 0 ≠ 0
        · simp only [hrej, if_true] at hr
          cases htk : takeBits (k - (i - 1)) s with
          | none => simp [htk] at hr
          | some p =>
            obtain ⟨nb, s'⟩ := p
            simp only [htk] at hr
            obtain ⟨h1, h2⟩ := ruvInit_unit (x.take (i - 1) ++ nb) (k - 1)
            have hdiv : b / 2 ^ (k - 1) = 1 := by
              apply Nat.div_eq_of_lt_le
              · simpa using hb1
              · have : 2 ^ k = 2 ^ (k - 1) * 2 := by rw [← Nat.pow_succ]; congr 1; omega
                omega
            exact ih _ _ (k - 1) _ s' o (Nat.le_refl _) h1 (by rw [h2, hdiv]) hr
        · have h0 : (scalarMul (bitI (x.getD (i - 1) false)) u).headD 0 = 0 := by
            by_contra hne; exact hrej hne
          simp only [hrej, if_false] at hr
          obtain ⟨h1, h2⟩ := ruv_step_zero (x.getD (i - 1) false) hu h0
          exact ih x _ (i - 1) _ s o (by omega) h1 (by rw [h2, hlen]; omega) hr

/-- `random_unit_vector(sectype, n)` returns a unit vector of length n, for every n ≥ 1 and every bit stream -/
theorem randomUnitVector_unit {n : Nat} {s : List Bool} {o : Out (List Int)} (hn : 1 ≤ n)
    (h : randomUnitVector n s = .ok o) : IsUnitVec o.val ∧ o.val.length = n := by
  unfold randomUnitVector at h
  have hn0 : n ≠ 0 := by omega
  simp only [hn0, if_false] at h
  by_cases h1 : n = 1
  · subst h1
    simp only [if_true] at h
    cases h
    exact ⟨⟨0, 0, rfl⟩, rfl⟩
  · simp only [h1, if_false] at h
    cases htk : takeBits (bitLength (n - 1)) s with
    | none => simp [htk] at h
    | some p =>
      obtain ⟨x, s'⟩ := p
      simp only [htk] at h
      have hm : n - 1 ≠ 0 := by omega
      obtain ⟨hlo, hhi⟩ := bitLength_spec (n - 1) hm
      have hk := bitLength_pos hm
      obtain ⟨hu, hl⟩ := ruvInit_unit x (bitLength (n - 1) - 1)
      have hdiv : (n - 1) / 2 ^ (bitLength (n - 1) - 1) = 1 := by
        apply Nat.div_eq_of_lt_le
        · simpa using hlo
        · have : 2 ^ bitLength (n - 1) = 2 ^ (bitLength (n - 1) - 1) * 2 := by
            rw [← Nat.pow_succ]; congr 1; omega
          omega
      obtain ⟨r1, r2⟩ := ruvLoop_inv (n - 1) (bitLength (n - 1)) hk hlo hhi _ x _ (bitLength (n - 1) - 1) [] s' o
        (Nat.le_refl _) hu (by rw [hl, hdiv]) h
      exact ⟨r1, by omega⟩

end MpycV.Random
