/-
Index/key lemmas for C34 `quantiles` (statistics.py:351-441), core Lean only:
 (a) what `cutIndex` computes (`divmod` resp. clamped quotient),
 (b) which order statistics a cut point reads (`readKeys`), that they are all requested
     (`quantile_keys_cover`), so the dict lookup never raises `KeyError` (`lookup_mem`),
 (c) the requested keys are strictly increasing (`quantileKs_sorted`), hence without duplicates.
The ℚ-level interpolation formula is in `StatsQuant.lean`.
-/
import MpycV.Lemmas.StatsBase
namespace MpycV.Stats

/-! ### (a) `cutIndex` -/

/-- inclusive: `j, delta = divmod(i*m, n)` with `m = ld - 1` -/
theorem cutIndex_inclusive (ld n i : Nat) :
    cutIndex ld n .inclusive i = (i * (ld - 1) / n, ((i * (ld - 1) % n : Nat) : Int)) := rfl

/-- the `divmod` characterisation of the inclusive pair -/
theorem cutIndex_inclusive_divmod (ld n i : Nat) (hn : 1 ≤ n) {j : Nat} {delta : Int}
    (h : cutIndex ld n .inclusive i = (j, delta)) :
    (j : Int) * n + delta = ((i * (ld - 1) : Nat) : Int) ∧ 0 ≤ delta ∧ delta < n := by
  rw [cutIndex_inclusive] at h
  obtain ⟨rfl, rfl⟩ := Prod.mk.inj h
  have h1 := Nat.div_add_mod (i * (ld - 1)) n
  have h2 := Nat.mod_lt (i * (ld - 1)) (show 0 < n by omega)
  have h3 : i * (ld - 1) / n * n = n * (i * (ld - 1) / n) := Nat.mul_comm _ _
  refine ⟨?_, by omega, by omega⟩
  rw [← Int.natCast_mul, h3]
  omega

/-- the clamp `1 if j < 1 else ld-1 if j > ld-1 else j` -/
theorem clamp_eq (ld j : Nat) (hld : 2 ≤ ld) :
    (if j < 1 then 1 else if j > ld - 1 then ld - 1 else j) = max 1 (min (ld - 1) j) := by
  split
  · omega
  · split <;> omega

/-- exclusive: `j = i*m // n` clamped to `1 .. ld-1`, `delta = i*m - j*n` with `m = ld + 1` -/
theorem cutIndex_exclusive (ld n i : Nat) (hld : 2 ≤ ld) :
    cutIndex ld n .exclusive i =
      (max 1 (min (ld - 1) (i * (ld + 1) / n)),
        ((i * (ld + 1) : Nat) : Int) - ((max 1 (min (ld - 1) (i * (ld + 1) / n)) * n : Nat) : Int)) := by
  simp only [cutIndex, clamp_eq ld _ hld]
  rfl

theorem cutIndex_exclusive_range (ld n i : Nat) (hld : 2 ≤ ld) :
    1 ≤ (cutIndex ld n .exclusive i).1 ∧ (cutIndex ld n .exclusive i).1 ≤ ld - 1 := by
  rw [cutIndex_exclusive ld n i hld]; dsimp only; omega

/-! ### (b) keys read by a cut point -/

/-- the indices `data[...]` that the computation of cut point `i` reads (second loop) -/
def readKeys (ld n : Nat) (method : Method) (i : Nat) : List Nat :=
  match method with
  | .inclusive =>
    if (cutIndex ld n .inclusive i).2 ≠ 0 then
      [(cutIndex ld n .inclusive i).1, (cutIndex ld n .inclusive i).1 + 1]
    else [(cutIndex ld n .inclusive i).1]
  | .exclusive =>
    if (cutIndex ld n .exclusive i).2 = 0 then [(cutIndex ld n .exclusive i).1 - 1]
    else if (cutIndex ld n .exclusive i).2 = n then [(cutIndex ld n .exclusive i).1]
    else [(cutIndex ld n .exclusive i).1 - 1, (cutIndex ld n .exclusive i).1]

/-- a cut point depends on `data` only through the indices in `readKeys` -/
theorem cutPoint_congr (ld n : Nat) (method : Method) (data data' : Nat → Int) (i : Nat)
    (h : ∀ k ∈ readKeys ld n method i, data k = data' k) :
    cutPoint ld n method data i = cutPoint ld n method data' i := by
  cases method with
  | inclusive =>
    simp only [readKeys] at h
    simp only [cutPoint]
    split at h
    · rename_i hd
      rw [if_pos hd, if_pos hd, h _ (by simp), h _ (by simp)]
    · rename_i hd
      rw [if_neg hd, if_neg hd, h _ (by simp)]
  | exclusive =>
    simp only [readKeys] at h
    simp only [cutPoint]
    split at h
    · rename_i hd
      rw [if_pos hd, if_pos hd, h _ (by simp)]
    · rename_i hd
      split at h
      · rename_i hd'
        rw [if_neg hd, if_neg hd, if_pos hd', if_pos hd', h _ (by simp)]
      · rename_i hd'
        rw [if_neg hd, if_neg hd, if_neg hd', if_neg hd', h _ (by simp), h _ (by simp)]

theorem mem_addKey {ks : List Nat} {j k : Nat} : k ∈ addKey ks j ↔ k ∈ ks ∨ k = j := by
  unfold addKey
  split
  · constructor
    · exact Or.inl
    · rintro (h | rfl)
      · exact h
      · assumption
  · simp

/-- one iteration of the first loop (`data[...] = None`) -/
def keyStep (ld n : Nat) (method : Method) (ks : List Nat) (i0 : Nat) : List Nat :=
  let (j, delta) := cutIndex ld n method (i0 + 1)
  match method with
  | .inclusive =>
    let ks := addKey ks j
    if delta ≠ 0 then addKey ks (j + 1) else ks
  | .exclusive =>
    let ks := if (n : Int) - delta ≠ 0 then addKey ks (j - 1) else ks
    if delta ≠ 0 then addKey ks j else ks

theorem quantileKs_eq_foldl (ld n : Nat) (method : Method) :
    quantileKs ld n method = (List.range (n - 1)).foldl (keyStep ld n method) [] := rfl

/-- the keys after the first `t` iterations -/
def ksAt (ld n : Nat) (method : Method) (t : Nat) : List Nat :=
  (List.range t).foldl (keyStep ld n method) []

theorem quantileKs_eq_ksAt (ld n : Nat) (method : Method) :
    quantileKs ld n method = ksAt ld n method (n - 1) := rfl

@[simp] theorem ksAt_zero (ld n : Nat) (method : Method) : ksAt ld n method 0 = [] := rfl

theorem ksAt_succ (ld n : Nat) (method : Method) (t : Nat) :
    ksAt ld n method (t + 1) = keyStep ld n method (ksAt ld n method t) t := by
  simp [ksAt, List.range_succ, List.foldl_append]

/-- the first loop requests exactly the keys the second loop reads -/
theorem mem_keyStep (ld n : Nat) (method : Method) (hn : 1 ≤ n) (ks : List Nat) (i0 k : Nat) :
    k ∈ keyStep ld n method ks i0 ↔ k ∈ ks ∨ k ∈ readKeys ld n method (i0 + 1) := by
  cases method with
  | inclusive =>
    simp only [keyStep, readKeys]
    split <;> simp [mem_addKey, or_assoc]
  | exclusive =>
    simp only [keyStep, readKeys]
    generalize (cutIndex ld n .exclusive (i0 + 1)).2 = δ
    generalize (cutIndex ld n .exclusive (i0 + 1)).1 = j
    by_cases h0 : δ = 0
    · have hn' : (n : Int) - δ ≠ 0 := by omega
      rw [if_pos hn', if_neg (fun h => h h0), if_pos h0]
      simp [mem_addKey]
    · by_cases hδ : δ = n
      · have hn' : ¬ ((n : Int) - δ ≠ 0) := by omega
        rw [if_neg hn', if_pos h0, if_neg h0, if_pos hδ]
        simp [mem_addKey]
      · have hn' : (n : Int) - δ ≠ 0 := by omega
        rw [if_pos hn', if_pos h0, if_neg h0, if_neg hδ]
        simp [mem_addKey, or_assoc]

/-- general helper: a fold whose step adds exactly the elements of `g i` collects `⋃ g i` -/
theorem mem_foldl_of_step {α β : Type} (f : List α → β → List α) (g : β → List α)
    (hf : ∀ ks i k, k ∈ f ks i ↔ k ∈ ks ∨ k ∈ g i) (l : List β) (init : List α) (k : α) :
    k ∈ l.foldl f init ↔ k ∈ init ∨ ∃ i ∈ l, k ∈ g i := by
  induction l generalizing init with
  | nil => simp
  | cons b l ih =>
    simp only [List.foldl_cons, ih, hf, List.mem_cons, exists_eq_or_imp, or_assoc]

/-- general helper: a fold with an inflationary step keeps members -/
theorem mem_foldl_of_mem {α β : Type} (f : List α → β → List α)
    (hf : ∀ ks i k, k ∈ ks → k ∈ f ks i) (l : List β) (init : List α) (k : α) (hk : k ∈ init) :
    k ∈ l.foldl f init := by
  induction l generalizing init with
  | nil => exact hk
  | cons b l ih => exact ih _ (hf _ _ _ hk)

theorem mem_ksAt (ld n : Nat) (method : Method) (hn : 1 ≤ n) (t k : Nat) :
    k ∈ ksAt ld n method t ↔ ∃ i0, i0 < t ∧ k ∈ readKeys ld n method (i0 + 1) := by
  unfold ksAt
  rw [mem_foldl_of_step _ (fun i0 => readKeys ld n method (i0 + 1)) (mem_keyStep ld n method hn)]
  simp

/-- the requested order statistics are exactly those read by the cut points `1 ≤ i < n` -/
theorem mem_quantileKs (ld n : Nat) (method : Method) (k : Nat) :
    k ∈ quantileKs ld n method ↔ ∃ i0, i0 < n - 1 ∧ k ∈ readKeys ld n method (i0 + 1) := by
  rw [quantileKs_eq_ksAt]
  by_cases hn : 1 ≤ n
  · rw [mem_ksAt ld n method hn]
  · have : n - 1 = 0 := by omega
    simp [this]

/-- `i*m // n + 1 ≤ m` for `i < n`, `0 < m` -/
theorem div_succ_le_of_lt (i m n : Nat) (hi : i < n) (hm : 0 < m) : i * m / n + 1 ≤ m := by
  have h : i * m < m * n := by
    rw [Nat.mul_comm m n]; exact Nat.mul_lt_mul_of_pos_right hi hm
  have := (Nat.div_lt_iff_lt_mul (show 0 < n by omega)).2 h
  omega

/-- every index read is a valid position of the sorted data -/
theorem readKeys_lt (ld n : Nat) (method : Method) (i : Nat) (hld : 2 ≤ ld) (hi : i < n) :
    ∀ k ∈ readKeys ld n method i, k < ld := by
  intro k hk
  cases method with
  | inclusive =>
    have hb := div_succ_le_of_lt i (ld - 1) n hi (by omega)
    have hj : (cutIndex ld n .inclusive i).1 = i * (ld - 1) / n := rfl
    simp only [readKeys] at hk
    split at hk <;> simp at hk <;> omega
  | exclusive =>
    have hr := cutIndex_exclusive_range ld n i hld
    simp only [readKeys] at hk
    split at hk
    · simp at hk; omega
    · split at hk <;> simp at hk <;> omega

/-- (b) for `1 ≤ i < n`: every index cut point `i` reads was requested from `_quickselect`
and is `< ld` -/
theorem quantile_keys_cover (ld n : Nat) (method : Method) (i : Nat) (hld : 2 ≤ ld)
    (hi1 : 1 ≤ i) (hin : i < n) :
    ∀ k ∈ readKeys ld n method i, k ∈ quantileKs ld n method ∧ k < ld := by
  intro k hk
  refine ⟨?_, readKeys_lt ld n method i hld hin k hk⟩
  rw [mem_quantileKs]
  refine ⟨i - 1, by omega, ?_⟩
  have : i - 1 + 1 = i := by omega
  rw [this]; exact hk

theorem quantileKs_lt (ld n : Nat) (method : Method) (hld : 2 ≤ ld) :
    ∀ k ∈ quantileKs ld n method, k < ld := by
  intro k hk
  obtain ⟨i0, hi0, hk⟩ := (mem_quantileKs ld n method k).1 hk
  exact readKeys_lt ld n method (i0 + 1) hld (by omega) k hk

/-! ### `lookup` never raises `KeyError` -/

theorem idxOf?_eq_some_idxOf {ks : List Nat} {j : Nat} (h : j ∈ ks) :
    ks.idxOf? j = some (ks.idxOf j) := by
  induction ks with
  | nil => simp at h
  | cons a l ih =>
    rw [List.idxOf?_cons, List.idxOf_cons]
    by_cases ha : a = j
    · simp [ha]
    · have hl : j ∈ l := by
        rcases List.mem_cons.1 h with h | h
        · exact absurd h.symm ha
        · exact h
      have hb : (a == j) = false := by simp [ha]
      simp [hb, ih hl]

theorem lookup_mem (ks : List Nat) (points : List Int) (j : Nat) (h : j ∈ ks) :
    lookup ks points j = points.getD (ks.idxOf j) 0 := by
  unfold lookup; rw [idxOf?_eq_some_idxOf h]

/-- zipping the keys with the values `f k` and looking `j` up gives `f j` -/
theorem lookup_map (ks : List Nat) (f : Nat → Int) (j : Nat) (h : j ∈ ks) :
    lookup ks (ks.map f) j = f j := by
  rw [lookup_mem ks _ j h]
  have hlt : ks.idxOf j < ks.length := List.idxOf_lt_length_of_mem h
  rw [List.getD_eq_getElem?_getD, List.getElem?_map, List.getElem?_eq_getElem hlt]
  simp

/-! ### (c) the requested keys are strictly increasing -/

theorem addKey_sorted {ks : List Nat} {k : Nat} (hs : ks.Pairwise (· < ·))
    (h : k ∈ ks ∨ ∀ a ∈ ks, a ≤ k) : (addKey ks k).Pairwise (· < ·) := by
  unfold addKey
  by_cases hk : k ∈ ks
  · rw [if_pos hk]; exact hs
  · rw [if_neg hk]
    rcases h with h | h
    · exact absurd h hk
    · rw [List.pairwise_append]
      refine ⟨hs, List.pairwise_singleton _ _, ?_⟩
      intro a ha b hb
      have hb' : b = k := by simpa using hb
      subst hb'
      have h1 := h a ha
      have h2 : a ≠ b := fun e => hk (e ▸ ha)
      omega

theorem div_mono_left (a b n : Nat) (h : a ≤ b) (m : Nat) : a * m / n ≤ b * m / n :=
  Nat.div_le_div_right (Nat.mul_le_mul_right m h)

/-! #### inclusive -/

theorem readKeys_inclusive_le (ld n i k : Nat) (hk : k ∈ readKeys ld n .inclusive i) :
    k ≤ i * (ld - 1) / n + 1 := by
  have hj : (cutIndex ld n .inclusive i).1 = i * (ld - 1) / n := rfl
  simp only [readKeys] at hk
  split at hk <;> simp at hk <;> omega

theorem fst_mem_readKeys_inclusive (ld n i : Nat) :
    i * (ld - 1) / n ∈ readKeys ld n .inclusive i := by
  have hj : (cutIndex ld n .inclusive i).1 = i * (ld - 1) / n := rfl
  simp only [readKeys]
  split <;> simp [hj]

theorem ksAt_inclusive_le (ld n t a : Nat) (hn : 1 ≤ n) (ha : a ∈ ksAt ld n .inclusive t) :
    a ≤ t * (ld - 1) / n + 1 := by
  obtain ⟨i0, hi0, hk⟩ := (mem_ksAt ld n .inclusive hn t a).1 ha
  have h1 := readKeys_inclusive_le ld n (i0 + 1) a hk
  have h2 := div_mono_left (i0 + 1) t n (by omega) (ld - 1)
  omega

theorem ksAt_inclusive_mem (ld n t : Nat) (hn : 1 ≤ n) (ht : 1 ≤ t) :
    t * (ld - 1) / n ∈ ksAt ld n .inclusive t := by
  rw [mem_ksAt ld n .inclusive hn]
  refine ⟨t - 1, by omega, ?_⟩
  have : t - 1 + 1 = t := by omega
  rw [this]; exact fst_mem_readKeys_inclusive ld n t

theorem keyStep_inclusive_sorted (ld n t : Nat) (hn : 1 ≤ n)
    (hs : (ksAt ld n .inclusive t).Pairwise (· < ·)) :
    (keyStep ld n .inclusive (ksAt ld n .inclusive t) t).Pairwise (· < ·) := by
  have hj : (cutIndex ld n .inclusive (t + 1)).1 = (t + 1) * (ld - 1) / n := rfl
  have hmono := div_mono_left t (t + 1) n (by omega) (ld - 1)
  have h1 : (addKey (ksAt ld n .inclusive t) ((t + 1) * (ld - 1) / n)).Pairwise (· < ·) := by
    apply addKey_sorted hs
    by_cases ht : t = 0
    · subst ht; right; intro a ha; simp at ha
    · by_cases he : (t + 1) * (ld - 1) / n = t * (ld - 1) / n
      · left; rw [he]; exact ksAt_inclusive_mem ld n t hn (by omega)
      · right; intro a ha
        have := ksAt_inclusive_le ld n t a hn ha
        omega
  simp only [keyStep, hj]
  split
  · apply addKey_sorted h1
    right; intro a ha
    rcases mem_addKey.1 ha with ha | ha
    · have := ksAt_inclusive_le ld n t a hn ha
      omega
    · omega
  · exact h1

theorem ksAt_inclusive_sorted (ld n : Nat) (hn : 1 ≤ n) (t : Nat) :
    (ksAt ld n .inclusive t).Pairwise (· < ·) := by
  induction t with
  | zero => simp
  | succ t ih => rw [ksAt_succ]; exact keyStep_inclusive_sorted ld n t hn ih


/-! #### exclusive -/

/-- the clamped index `j` of cut point `i` (exclusive method) -/
def exclJ (ld n i : Nat) : Nat := max 1 (min (ld - 1) (i * (ld + 1) / n))

theorem cutIndex_exclusive_fst (ld n i : Nat) (hld : 2 ≤ ld) :
    (cutIndex ld n .exclusive i).1 = exclJ ld n i := by
  rw [cutIndex_exclusive ld n i hld]; rfl

theorem cutIndex_exclusive_snd (ld n i : Nat) (hld : 2 ≤ ld) :
    (cutIndex ld n .exclusive i).2 = ((i * (ld + 1) : Nat) : Int) - ((exclJ ld n i * n : Nat) : Int) := by
  rw [cutIndex_exclusive ld n i hld]; rfl

theorem exclJ_mono (ld n a b : Nat) (h : a ≤ b) : exclJ ld n a ≤ exclJ ld n b := by
  have := div_mono_left a b n h (ld + 1)
  unfold exclJ; omega

theorem readKeys_exclusive_le (ld n i k : Nat) (hld : 2 ≤ ld) (hk : k ∈ readKeys ld n .exclusive i) :
    k ≤ exclJ ld n i := by
  simp only [readKeys, cutIndex_exclusive_fst ld n i hld] at hk
  split at hk
  · simp at hk; omega
  · split at hk <;> simp at hk <;> omega

theorem pred_mem_readKeys_exclusive (ld n i : Nat) (hld : 2 ≤ ld)
    (hδ : (cutIndex ld n .exclusive i).2 ≠ n) : exclJ ld n i - 1 ∈ readKeys ld n .exclusive i := by
  simp only [readKeys, cutIndex_exclusive_fst ld n i hld]
  split
  · simp
  · simp

theorem ksAt_exclusive_le (ld n t a : Nat) (hld : 2 ≤ ld) (hn : 1 ≤ n)
    (ha : a ∈ ksAt ld n .exclusive t) : a ≤ exclJ ld n t := by
  obtain ⟨i0, hi0, hk⟩ := (mem_ksAt ld n .exclusive hn t a).1 ha
  have h1 := readKeys_exclusive_le ld n (i0 + 1) a hld hk
  have h2 := exclJ_mono ld n (i0 + 1) t (by omega)
  omega

/-- if `delta = n` at step `t` then `j` was clamped from above and `t*m = ld*n` -/
theorem excl_delta_eq_n (ld n t : Nat) (hld : 2 ≤ ld) (hn : 1 ≤ n)
    (h : t * (ld + 1) = exclJ ld n t * n + n) :
    exclJ ld n t = ld - 1 ∧ t * (ld + 1) = ld * n := by
  have hq : t * (ld + 1) / n = exclJ ld n t + 1 := by
    rw [h, ← Nat.succ_mul]; exact Nat.mul_div_cancel _ (by omega)
  have hJ : exclJ ld n t = ld - 1 := by
    have : exclJ ld n t = max 1 (min (ld - 1) (t * (ld + 1) / n)) := rfl
    omega
  refine ⟨hJ, ?_⟩
  rw [h, hJ, ← Nat.succ_mul]
  congr 1; omega

/-- `t*m = ld*n` with `t + 2 ≤ n` (`m = ld + 1`): then `n` is a multiple `≥ 2m` of `m` and the previous
step `t - 1 ≥ 1` has `j = ld - 1`, `delta = n - m` -/
theorem excl_prev_step (ld n t : Nat) (hld : 2 ≤ ld) (ht : t + 2 ≤ n) (h : t * (ld + 1) = ld * n) :
    2 ≤ t ∧ (t - 1) * (ld + 1) / n = ld - 1 ∧ (t - 1) * (ld + 1) + (ld + 1) = (ld - 1) * n + n ∧
      ld + 1 < n := by
  obtain ⟨d, rfl⟩ : ∃ d, n = t + d + 2 := ⟨n - t - 2, by omega⟩
  obtain ⟨l, rfl⟩ : ∃ l, ld = l + 2 := ⟨ld - 2, by omega⟩
  -- t = (l+2) * (d+2)
  have e1 : t * (l + 2 + 1) = t * l + 3 * t := by rw [Nat.mul_add, Nat.mul_add]; omega
  have e2 : (l + 2) * (t + d + 2) = t * l + 2 * t + l * d + 2 * d + 2 * l + 4 := by
    rw [Nat.add_mul, Nat.mul_add, Nat.mul_add, Nat.mul_add, Nat.mul_add, Nat.mul_comm l t]; omega
  have ht' : t = l * d + 2 * d + 2 * l + 4 := by omega
  have hlt : l + 2 + 1 < t + d + 2 := by omega
  obtain ⟨s, rfl⟩ : ∃ s, t = s + 1 := ⟨t - 1, by omega⟩
  have e3 : (s + 1) * (l + 2 + 1) = s * (l + 2 + 1) + (l + 2 + 1) := Nat.succ_mul _ _
  have e4 : (l + 2) * (s + 1 + d + 2) = (l + 1) * (s + 1 + d + 2) + (s + 1 + d + 2) := Nat.succ_mul _ _
  have hs : s + 1 - 1 = s := by omega
  have hl : l + 2 - 1 = l + 1 := by omega
  rw [hs, hl]
  refine ⟨by omega, ?_, by omega, hlt⟩
  apply Nat.div_eq_of_lt_le
  · omega
  · rw [Nat.succ_mul]; omega

/-- key fact: at a step `t ≥ 1` that is not the last one, `j_t - 1` has already been requested -/
theorem exclJ_pred_mem_ksAt (ld n t : Nat) (hld : 2 ≤ ld) (hn : 1 ≤ n) (ht1 : 1 ≤ t) (ht : t + 2 ≤ n) :
    exclJ ld n t - 1 ∈ ksAt ld n .exclusive t := by
  rw [mem_ksAt ld n .exclusive hn]
  by_cases hδ : (cutIndex ld n .exclusive t).2 = n
  · rw [cutIndex_exclusive_snd ld n t hld] at hδ
    have h : t * (ld + 1) = exclJ ld n t * n + n := by omega
    obtain ⟨hJ, h'⟩ := excl_delta_eq_n ld n t hld hn h
    obtain ⟨h2, hq, he, hlt⟩ := excl_prev_step ld n t hld ht h'
    have hJ' : exclJ ld n (t - 1) = ld - 1 := by
      have : exclJ ld n (t - 1) = max 1 (min (ld - 1) ((t - 1) * (ld + 1) / n)) := rfl
      omega
    refine ⟨t - 2, by omega, ?_⟩
    have e : t - 2 + 1 = t - 1 := by omega
    rw [e, hJ, ← hJ']
    apply pred_mem_readKeys_exclusive ld n (t - 1) hld
    rw [cutIndex_exclusive_snd ld n (t - 1) hld, hJ']
    omega
  · refine ⟨t - 1, by omega, ?_⟩
    have e : t - 1 + 1 = t := by omega
    rw [e]
    exact pred_mem_readKeys_exclusive ld n t hld hδ

theorem keyStep_exclusive_sorted (ld n t : Nat) (hld : 2 ≤ ld) (hn : 1 ≤ n) (ht : t + 2 ≤ n)
    (hs : (ksAt ld n .exclusive t).Pairwise (· < ·)) :
    (keyStep ld n .exclusive (ksAt ld n .exclusive t) t).Pairwise (· < ·) := by
  have hmono := exclJ_mono ld n t (t + 1) (by omega)
  have hle : ∀ a ∈ ksAt ld n .exclusive t, a ≤ exclJ ld n t :=
    fun a ha => ksAt_exclusive_le ld n t a hld hn ha
  have h1 : (addKey (ksAt ld n .exclusive t) (exclJ ld n (t + 1) - 1)).Pairwise (· < ·) := by
    apply addKey_sorted hs
    by_cases ht0 : t = 0
    · subst ht0; right; intro a ha; simp at ha
    · by_cases he : exclJ ld n (t + 1) = exclJ ld n t
      · left; rw [he]; exact exclJ_pred_mem_ksAt ld n t hld hn (by omega) ht
      · right; intro a ha
        have := hle a ha
        omega
  simp only [keyStep, cutIndex_exclusive_fst ld n (t + 1) hld]
  generalize (cutIndex ld n .exclusive (t + 1)).2 = δ
  have h2 : ∀ ks1 : List Nat, ks1.Pairwise (· < ·) → (∀ a ∈ ks1, a ≤ exclJ ld n (t + 1)) →
      (if δ ≠ 0 then addKey ks1 (exclJ ld n (t + 1)) else ks1).Pairwise (· < ·) := by
    intro ks1 hs1 hle1
    split
    · exact addKey_sorted hs1 (Or.inr hle1)
    · exact hs1
  apply h2
  · split
    · exact h1
    · exact hs
  · intro a ha
    split at ha
    · rcases mem_addKey.1 ha with ha | ha
      · have := hle a ha; omega
      · omega
    · have := hle a ha; omega

theorem ksAt_exclusive_sorted (ld n : Nat) (hld : 2 ≤ ld) (hn : 1 ≤ n) (t : Nat) (ht : t + 1 ≤ n) :
    (ksAt ld n .exclusive t).Pairwise (· < ·) := by
  induction t with
  | zero => simp
  | succ t ih =>
    rw [ksAt_succ]; exact keyStep_exclusive_sorted ld n t hld hn (by omega) (ih (by omega))

/-- (c) the order statistics requested from `_quickselect` are strictly increasing -/
theorem quantileKs_sorted (ld n : Nat) (method : Method) (hld : 2 ≤ ld) (hn : 1 ≤ n) :
    (quantileKs ld n method).Pairwise (· < ·) := by
  rw [quantileKs_eq_ksAt]
  cases method with
  | inclusive => exact ksAt_inclusive_sorted ld n hn (n - 1)
  | exclusive => exact ksAt_exclusive_sorted ld n hld hn (n - 1) (by omega)

theorem quantileKs_nodup (ld n : Nat) (method : Method) (hld : 2 ≤ ld) (hn : 1 ≤ n) :
    (quantileKs ld n method).Nodup :=
  (quantileKs_sorted ld n method hld hn).imp (fun h => Nat.ne_of_lt h)

example : quantileKs 5 4 .exclusive = [0, 1, 2, 3, 4] := by decide
example : quantileKs 5 4 .inclusive = [1, 2, 3] := by decide
example : quantileKs 3 12 .exclusive = [0, 1, 2] := by decide
example : quantileKs 11 3 .exclusive = [3, 7] := by decide
example : quantileKs 9 4 .inclusive = [2, 4, 6] := by decide

end MpycV.Stats
