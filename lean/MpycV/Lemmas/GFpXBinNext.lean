/-
`BinaryPolynomial._next_irreducible` / `find_irreducible(2, d)` (bitmask model): the result is the least
irreducible polynomial above the argument in the integer order (no exception: for p = 2 the code returns X).
-/
import MpycV.Lemmas.GFpXBin
import MpycV.Lemmas.GFpXIrr

open Polynomial

namespace MpycV.BinPoly

open MpycV.GFpX (toPoly WF)

/-- the bitmask test decides irreducibility of the denoted polynomial over GF(2) -/
theorem isIrreducible_iff (a : ℕ) : isIrreducible a = true ↔ Irreducible (binToPoly a) := by
  rw [isIrreducible_agree]
  exact GFpX.isIrreducible_iff (toList_wf a)

/-- even numbers ≥ 4 (multiples of X of degree ≥ 2) are reducible -/
theorem not_irreducible_of_even {m : ℕ} (h4 : 4 ≤ m) (he : m % 2 = 0) : isIrreducible m = false := by
  rw [Bool.eq_false_iff]
  intro h
  have hirr := (isIrreducible_iff m).mp h
  have hm0 : m ≠ 0 := by omega
  have hX : (X : (ZMod 2)[X]) ∣ binToPoly m := by
    rw [X_dvd_iff, coeff_binToPoly]
    have : m.testBit 0 = false := by
      rw [Nat.testBit_zero]; simp [he]
    simp [this]
  have hassoc := irreducible_X.associated_of_dvd hirr hX
  have hdeg : (binToPoly m).natDegree = 1 := by
    rw [← natDegree_eq_of_degree_eq (degree_eq_degree_of_associated hassoc), natDegree_X]
  have hnd : (binToPoly m).natDegree = bitLen m - 1 := by
    unfold binToPoly
    rw [GFpX.natDegree_toPoly (toList_wf m) (toList_ne_nil hm0), toList_length]
  have : ¬ bitLen m ≤ 2 := by
    rw [bitLen_le_iff]; omega
  omega

theorem nextIrrLoop_spec : ∀ (f s : ℕ) (c : ℕ), nextIrrLoop f s = some c →
    isIrreducible c = true ∧ ∃ k, c = s + 2 * k ∧ ∀ j, j < k → isIrreducible (s + 2 * j) = false := by
  intro f
  induction f with
  | zero => intro s c h; simp [nextIrrLoop] at h
  | succ f ih =>
    intro s c h
    rw [nextIrrLoop] at h
    split at h
    · rename_i hi
      simp only [Option.some.injEq] at h
      subst h
      exact ⟨hi, 0, by simp, fun j hj => by omega⟩
    · rename_i hi
      obtain ⟨h1, k, hk, hmin⟩ := ih _ _ h
      refine ⟨h1, k + 1, by omega, fun j hj => ?_⟩
      cases j with
      | zero => simpa using hi
      | succ j =>
        have := hmin j (by omega)
        rw [show s + 2 * (j + 1) = s + 2 + 2 * j by ring]
        exact this

/-- **next_irreducible over GF(2)**: the least irreducible polynomial above `a` in the integer order -/
theorem nextIrreducible_spec {f a c : ℕ} (h : nextIrreducible f a = some c) :
    isIrreducible c = true ∧ a < c ∧ ∀ m, a < m → m < c → isIrreducible m = false := by
  unfold nextIrreducible at h
  split at h
  · rename_i ha
    simp only [Option.some.injEq] at h
    subst h
    refine ⟨by decide, by omega, fun m h1 h2 => ?_⟩
    have : m = 1 := by omega
    subst this; decide
  · rename_i ha
    obtain ⟨h1, k, hk, hmin⟩ := nextIrrLoop_spec _ _ _ h
    refine ⟨h1, by omega, fun m h1' h2 => ?_⟩
    rcases Nat.mod_two_eq_zero_or_one m with he | ho
    · exact not_irreducible_of_even (by omega) he
    · -- odd m: m = start + 2 j with j < k
      have hs : (a + 1 + a % 2) % 2 = 1 := by omega
      obtain ⟨j, hj⟩ : ∃ j, m = a + 1 + a % 2 + 2 * j := ⟨(m - (a + 1 + a % 2)) / 2, by omega⟩
      rw [hj]
      exact hmin j (by omega)

/-- **find_irreducible(2, d)**: the least irreducible polynomial with integer value ≥ 2^d -/
theorem findIrreducible_spec {d f c : ℕ} (h : findIrreducible d f = some c) :
    isIrreducible c = true ∧ 2 ^ d ≤ c ∧ ∀ m, 2 ^ d ≤ m → m < c → isIrreducible m = false := by
  have hpos : 0 < 2 ^ d := Nat.pos_of_ne_zero (by positivity)
  obtain ⟨h1, h2, h3⟩ := nextIrreducible_spec h
  exact ⟨h1, by omega, fun m hm hc => h3 m (by omega) hc⟩

end MpycV.BinPoly
