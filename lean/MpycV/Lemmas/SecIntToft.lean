/-
The comparison circuit a la Toft of `runtime.sgn` / `runtime._mod` (`toftLoop`, `toftE`): the product of
the vector `e` vanishes modulo `p` exactly in the cases recorded by `ToftSpec`.
-/
import MpycV.Lemmas.SecIntTree

namespace MpycV.SecInt
open MpycV.Fxp (pmod norm rsh bitsVal IsBits)

/-! ### unfolding -/

theorem toftLoop_nil (s : Int) : toftLoop s [] [] = ([], 0) := rfl

theorem toftLoop_cons (s r c : Int) (rs cs : List Int) :
    toftLoop s (r :: rs) (c :: cs) =
      ((s + r - c + 3 * (toftLoop s rs cs).2) :: (toftLoop s rs cs).1,
       (toftLoop s rs cs).2 + xorBit r c) := rfl

theorem toftE_eq (s top : Int) (rs cs : List Int) :
    toftE s top rs cs = (toftLoop s rs cs).1 ++ [s + top + 3 * (toftLoop s rs cs).2] := rfl

/-- xor of two bits is a bit, and it is 0 exactly when the bits agree -/
theorem xorBit_bits (r c : Int) (hr : r = 0 ∨ r = 1) (hc : c = 0 ∨ c = 1) :
    (xorBit r c = 0 ∧ r = c) ∨ (xorBit r c = 1 ∧ r ≠ c) := by
  rcases hr with rfl | rfl <;> rcases hc with rfl | rfl <;> decide

/-! ### the loop invariant -/

/-- what the loop has established after the `n` high positions with values `A` (of `r`) and `B` (of `c`):
`sx` counts the differing positions, every `e` is small, and some `e` vanishes iff the comparison selected
by `s` is strict in the right direction -/
def ToftInv (s : Int) (n : Nat) (A B : Int) (es : List Int) (sx : Int) : Prop :=
  0 ≤ sx ∧ sx ≤ (n : Int) ∧ (sx = 0 ↔ A = B) ∧ (∀ e ∈ es, -2 ≤ e ∧ e ≤ 3 * (n : Int) + 2) ∧
    (0 ∈ es ↔ ((s = 1 ∧ A < B) ∨ (s = -1 ∧ B < A)))

theorem toftInv_nil (s : Int) : ToftInv s 0 0 0 [] 0 := by
  refine ⟨le_refl _, le_refl _, by simp, by simp, ?_⟩
  constructor
  · intro h; cases h
  · intro h; omega

/-- one more (lower) position: `e = s + r - c + 3*sx` vanishes iff `sx = 0` and `s + r - c = 0`, since
`|s + r - c| ≤ 2 < 3 ≤ 3*sx` otherwise -/
theorem toftInv_step (s : Int) (n : Nat) (A B : Int) (es : List Int) (sx r c : Int)
    (hs : s = 1 ∨ s = -1) (hr : r = 0 ∨ r = 1) (hc : c = 0 ∨ c = 1) (h : ToftInv s n A B es sx) :
    ToftInv s (n + 1) (r + 2 * A) (c + 2 * B) ((s + r - c + 3 * sx) :: es) (sx + xorBit r c) := by
  obtain ⟨h1, h2, h3, h4, h5⟩ := h
  have hx := xorBit_bits r c hr hc
  generalize xorBit r c = x at hx ⊢
  refine ⟨by omega, by omega, by omega, ?_, ?_⟩
  · intro e he
    rcases List.mem_cons.1 he with rfl | he
    · omega
    · have := h4 e he; omega
  · rw [List.mem_cons, h5]; omega

/-- **toftLoop_inv**: the invariant holds for the result of the loop -/
theorem toftLoop_inv (s : Int) (hs : s = 1 ∨ s = -1) :
    ∀ (rs cs : List Int), rs.length = cs.length → IsBits rs → IsBits cs →
      ToftInv s rs.length (bitsVal rs) (bitsVal cs) (toftLoop s rs cs).1 (toftLoop s rs cs).2
  | [], [], _, _, _ => toftInv_nil s
  | [], _ :: _, h, _, _ => by simp at h
  | _ :: _, [], h, _, _ => by simp at h
  | r :: rs, c :: cs, hlen, hr, hc => by
    have ih := toftLoop_inv s hs rs cs (by simpa using hlen)
      (fun x hx => hr x (List.mem_cons_of_mem _ hx)) (fun x hx => hc x (List.mem_cons_of_mem _ hx))
    rw [toftLoop_cons]
    exact toftInv_step s rs.length (bitsVal rs) (bitsVal cs) _ _ r c hs
      (hr r List.mem_cons_self) (hc c List.mem_cons_self) ih

/-! ### products modulo a prime -/

/-- a prime divides a product of integers iff it divides a factor -/
theorem prime_dvd_list_prod {p : Nat} (hp : p.Prime) :
    ∀ (l : List Int), (p : Int) ∣ l.prod ↔ ∃ e ∈ l, (p : Int) ∣ e
  | [] => by
    constructor
    · intro h; exact absurd h (Nat.prime_iff_prime_int.mp hp).not_dvd_one
    · rintro ⟨e, he, _⟩; cases he
  | x :: l => by
    rw [List.prod_cons, (Nat.prime_iff_prime_int.mp hp).dvd_mul, prime_dvd_list_prod hp l]
    constructor
    · rintro (h | ⟨e, he, h⟩)
      · exact ⟨x, List.mem_cons_self, h⟩
      · exact ⟨e, List.mem_cons_of_mem _ he, h⟩
    · rintro ⟨e, he, h⟩
      rcases List.mem_cons.1 he with rfl | he
      · exact Or.inl h
      · exact Or.inr ⟨e, he, h⟩

/-- an integer of absolute value below `p` is divisible by `p` only if it is zero -/
theorem eq_zero_of_dvd_of_small {p : Nat} (e : Int) (h : (p : Int) ∣ e) (hlo : -(p : Int) < e)
    (hhi : e < (p : Int)) : e = 0 := by
  rcases Int.lt_trichotomy e 0 with hneg | h0 | hpos
  · have := Int.le_of_dvd (by omega) (Int.dvd_neg.mpr h); omega
  · exact h0
  · have := Int.le_of_dvd hpos h; omega

/-- **prod_emod_prime_eq_zero**: the product of integers of absolute value below a prime `p` vanishes
modulo `p` iff one of them is zero -/
theorem prod_emod_prime_eq_zero {p : Nat} (hp : p.Prime) (l : List Int)
    (hl : ∀ e ∈ l, -(p : Int) < e ∧ e < (p : Int)) : l.prod % (p : Int) = 0 ↔ 0 ∈ l := by
  rw [← Int.dvd_iff_emod_eq_zero, prime_dvd_list_prod hp l]
  constructor
  · rintro ⟨e, he, h⟩
    have := eq_zero_of_dvd_of_small e h (hl e he).1 (hl e he).2
    rw [this] at he; exact he
  · intro h; exact ⟨0, h, dvd_zero _⟩

/-! ### the specification -/

/-- **toft_spec**: for bit lists `rs`, `cs` of equal length `l` with `3*l + 3 < p`, `p` prime,
`prod(e) = 0` in GF(p) iff `s = 1 ∧ r < c`, or `s = -1 ∧ c < r`, or `r = c ∧ s = -top` -/
theorem toft_spec {p : Nat} (hp : p.Prime) : ToftSpec p := by
  intro s top rs cs hlen hr hc hs htop hlt
  obtain ⟨h1, h2, h3, h4, h5⟩ := toftLoop_inv s hs rs cs hlen hr hc
  rw [prodTree_eq_prod, toftE_eq]
  generalize (toftLoop s rs cs).1 = es at h4 h5 ⊢
  generalize (toftLoop s rs cs).2 = sx at h1 h2 h3 ⊢
  have hP : (3 * (rs.length : Int) + 3 < (p : Int)) := by exact_mod_cast hlt
  rw [prod_emod_prime_eq_zero hp]
  · rw [List.mem_append, List.mem_singleton, h5]; omega
  · intro e he
    rcases List.mem_append.1 he with he | he
    · have := h4 e he; omega
    · rw [List.mem_singleton] at he; omega

/-! ### non-vacuity -/

-- r = 5 < c = 6, s = 1: the product vanishes
example : (prodTree (toftE 1 (-1) [1, 0, 1] [0, 1, 1])) % 1009 = 0 := by decide
-- r = 5 < c = 6, s = -1: it does not
example : (prodTree (toftE (-1) (-1) [1, 0, 1] [0, 1, 1])) % 1009 ≠ 0 := by decide
-- r = c, `sgn` (top = -1): zero iff s = 1
example : (prodTree (toftE 1 (-1) [1, 0, 1] [1, 0, 1])) % 1009 = 0 := by decide
example : (prodTree (toftE (-1) (-1) [1, 0, 1] [1, 0, 1])) % 1009 ≠ 0 := by decide

end MpycV.SecInt
