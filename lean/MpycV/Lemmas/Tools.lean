/-
Lemmas for C32 (mpctools.reduce / accumulate): core Lean only.
* `fold1`, `scan1`: left fold and list of prefix folds (the functools / itertools semantics)
* `reduce_eq_fold1`, `skl_eq_scan1`, `bk_eq_specBK` for associative `f`
* `accSkl_append`, `accBK_append`: the in-place recursions of mpctools.py equal the slice recursions
* `allLe_reduceLoop`, `allLe_skl`, `depth_bk_none`: depth of the application trees
-/
import MpycV.Model.Tools
set_option linter.unusedSimpArgs false
namespace MpycV.Tools
variable {α : Type}
/-- `f` is associative (not assumed commutative) -/
def Assoc (f : α → α → α) : Prop := ∀ a b c, f (f a b) c = f a (f b c)

theorem foldl_pairUp {f : α → α → α} (hf : Assoc f) : ∀ (l : List α) (a : α),
    (pairUp f l).foldl f a = l.foldl f a
  | [], a => by simp [pairUp]
  | [b], a => by simp [pairUp]
  | b :: c :: rest, a => by
      simp only [pairUp, List.foldl_cons]
      rw [foldl_pairUp hf rest, hf]

/-- left fold of a nonempty list, `none` for the empty list -/
def fold1 (f : α → α → α) : List α → Option α
  | [] => none
  | a :: l => some (l.foldl f a)

theorem fold1_reduceStep {f : α → α → α} (hf : Assoc f) (x : List α) :
    fold1 f (reduceStep f x) = fold1 f x := by
  unfold reduceStep
  split
  · cases x with
    | nil => rfl
    | cons a rest => simp only [fold1, foldl_pairUp hf]
  · match x with
    | [] => simp [pairUp]
    | [a] => simp [pairUp]
    | a :: b :: rest => simp only [pairUp, fold1, foldl_pairUp hf, List.foldl_cons]

theorem fold1_reduceLoop {f : α → α → α} (hf : Assoc f) (x : List α) :
    fold1 f (reduceLoop f x) = fold1 f x := by
  fun_induction reduceLoop f x with
  | case1 x h ih => rw [ih, fold1_reduceStep hf]
  | case2 x h => rfl

theorem length_reduceLoop_le (f : α → α → α) (x : List α) : (reduceLoop f x).length ≤ 1 := by
  fun_induction reduceLoop f x with
  | case1 x h ih => exact ih
  | case2 x h => omega

theorem head?_eq_fold1_of_length_le_one (f : α → α → α) : ∀ x : List α, x.length ≤ 1 → x.head? = fold1 f x
  | [], _ => rfl
  | [a], _ => rfl
  | _ :: _ :: _, h => by simp at h

theorem reduce_eq_fold1 {f : α → α → α} (hf : Assoc f) (x : List α) (initial : Option α) :
    reduce f x initial = fold1 f (withInitial initial x) := by
  unfold reduce
  cases h : withInitial initial x with
  | nil => rfl
  | cons b rest =>
    simp only
    rw [head?_eq_fold1_of_length_le_one f _ (length_reduceLoop_le f _), fold1_reduceLoop hf]

/-- all proper prefix folds of `a :: l`: `[a, f a l₀, …]` without the total fold -/
def pref (f : α → α → α) : α → List α → List α
  | _, [] => []
  | a, b :: l => a :: pref f (f a b) l

/-- `itertools.accumulate` on a list: all prefix folds -/
def scan1 (f : α → α → α) : List α → List α
  | [] => []
  | a :: l => pref f a l ++ [l.foldl f a]

theorem length_pref (f : α → α → α) : ∀ (l : List α) (a : α), (pref f a l).length = l.length
  | [], _ => rfl
  | b :: l, a => by simp [pref, length_pref f l]

theorem length_scan1 (f : α → α → α) (s : List α) : (scan1 f s).length = s.length := by
  cases s with
  | nil => rfl
  | cons a l => simp [scan1, length_pref]

theorem pref_append (f : α → α → α) : ∀ (l : List α) (a b : α) (r : List α),
    pref f a (l ++ b :: r) = pref f a l ++ l.foldl f a :: pref f (f (l.foldl f a) b) r
  | [], a, b, r => by simp [pref]
  | c :: l, a, b, r => by simp [pref, pref_append f l]

theorem pref_map {f : α → α → α} (hf : Assoc f) (c : α) : ∀ (r : List α) (b : α),
    pref f (f c b) r = (pref f b r).map (f c)
  | [], b => rfl
  | d :: r, b => by simp [pref, hf c b d, pref_map hf c r]

theorem foldl_assoc {f : α → α → α} (hf : Assoc f) (c : α) : ∀ (r : List α) (b : α),
    r.foldl f (f c b) = f c (r.foldl f b)
  | [], b => rfl
  | d :: r, b => by simp [hf c b d, foldl_assoc hf c r]

/-- the total fold of a nonempty list, with a default for `[]` -/
def foldD (f : α → α → α) (d : α) : List α → α
  | [] => d
  | a :: l => l.foldl f a

theorem scan1_append {f : α → α → α} (hf : Assoc f) (l r : List α) (hl : l ≠ []) (d : α) :
    scan1 f (l ++ r) = scan1 f l ++ (scan1 f r).map (f (foldD f d l)) := by
  cases l with
  | nil => exact absurd rfl hl
  | cons a l =>
    cases r with
    | nil => simp [scan1]
    | cons b r =>
      simp only [List.cons_append, scan1, foldD, pref_append, List.foldl_append, List.foldl_cons,
        List.map_append, List.map_cons, List.map_nil, pref_map hf, foldl_assoc hf]
      simp

theorem getLast?_scan1 (f : α → α → α) (a : α) (l : List α) :
    (scan1 f (a :: l)).getLast? = some (l.foldl f a) := by
  simp [scan1]

theorem skl_eq_scan1 {f : α → α → α} (hf : Assoc f) (s : List α) : skl f s = scan1 f s := by
  fun_induction skl f s with
  | case1 s h l r a hl ihl ihr =>
    have hs : s = s.take (s.length / 2) ++ s.drop (s.length / 2) := (List.take_append_drop _ _).symm
    have hne : s.take (s.length / 2) ≠ [] := by
      intro h0
      have := congrArg List.length h0
      rw [List.length_take, List.length_nil] at this; omega
    have hl : (scan1 f (s.take (s.length / 2))).getLast? = some a := by rw [← ihl]; exact hl
    conv => rhs; rw [hs]
    rw [scan1_append hf _ _ hne a]
    show skl f (s.take (s.length / 2)) ++ List.map (f a) (skl f (s.drop (s.length / 2))) = _
    rw [ihl, ihr]
    cases hL : s.take (s.length / 2) with
    | nil => exact absurd hL hne
    | cons b t =>
      rw [hL, getLast?_scan1] at hl
      simp only [foldD]
      injection hl with hl
      rw [hl]
  | case2 s h l r hl ihl ihr =>
    exfalso
    have : l.length = (s.take (s.length / 2)).length := by simp only [l]; rw [ihl, length_scan1]
    have h0 : l = [] := by simpa using hl
    rw [h0, List.length_take, List.length_nil] at this; omega
  | case3 s h =>
    match s, h with
    | [], _ => rfl
    | [a], _ => rfl
    | _ :: _ :: _, h => simp at h

theorem mapLast_concat (g : α → α) : ∀ (I : List α) (z : α), mapLast g (I ++ [z]) = I ++ [g z]
  | [], z => rfl
  | [a], z => rfl
  | a :: b :: I, z => by
      have := mapLast_concat g (b :: I) z
      simp only [List.cons_append] at this ⊢
      simp only [mapLast, this]

/-- what Brent–Kung leaves in the slice `x[i:j]` given `p = x[i-1]`: the complete prefix folds
(including `p`) at all positions but the last, the fold of the slice alone at the last -/
def specBK (f : α → α → α) (p : Option α) : List α → List α
  | [] => []
  | a :: l => (match p with
      | none => pref f a l
      | some q => (pref f a l).map (f q)) ++ [l.foldl f a]

theorem split_half (s : List α) (h : 2 ≤ s.length) :
    ∃ a l b r, s.take (s.length / 2) = a :: l ∧ s.drop (s.length / 2) = b :: r := by
  have h1 : (s.take (s.length / 2)).length = s.length / 2 := by rw [List.length_take]; omega
  have h2 : (s.drop (s.length / 2)).length = s.length - s.length / 2 := by rw [List.length_drop]
  match hL : s.take (s.length / 2), hR : s.drop (s.length / 2) with
  | [], _ => rw [hL] at h1; simp at h1; omega
  | _ :: _, [] => rw [hR] at h2; simp at h2; omega
  | a :: l, b :: r => exact ⟨a, l, b, r, rfl, rfl⟩

theorem bk_eq_specBK {f : α → α → α} (hf : Assoc f) (p : Option α) (s : List α) :
    bk f p s = specBK f p s := by
  fun_induction bk f p s with
  | case1 p s h l a hl l' r ihl ihr =>
    obtain ⟨a0, l0, b0, r0, hL, hR⟩ := split_half s h
    have hs : s = (a0 :: l0) ++ (b0 :: r0) := by rw [← hL, ← hR, List.take_append_drop]
    have hl1 : l = specBK f p (a0 :: l0) := by rw [← hL, ← ihl]
    have ha : a = l0.foldl f a0 := by
      rw [hl1] at hl; simp [specBK] at hl; exact hl.symm
    show l' ++ mapLast (f a) (bk f l'.getLast? (s.drop (s.length / 2))) = _
    rw [ihr, hR]
    conv => rhs; rw [hs]
    cases p with
    | none =>
      have hl' : l' = pref f a0 l0 ++ [l0.foldl f a0] := by simp only [l']; rw [hl1]; rfl
      rw [hl']
      simp only [List.getLast?_append, List.getLast?_singleton, specBK,
        List.cons_append, pref_append, List.foldl_append, List.foldl_cons, ha,
        mapLast_concat, pref_map hf, foldl_assoc hf]
      simp
    | some q =>
      have hl' : l' = (pref f a0 l0).map (f q) ++ [f q (l0.foldl f a0)] := by
        simp only [l']; rw [hl1]; simp only [specBK, mapLast_concat, ha]
      rw [hl']
      simp only [List.getLast?_append, List.getLast?_singleton, specBK,
        List.cons_append, pref_append, List.foldl_append, List.foldl_cons, ha,
        mapLast_concat, pref_map hf, foldl_assoc hf]
      simp [hf _ _ _]
  | case2 p s h l hl ihl =>
    exfalso
    obtain ⟨a0, l0, b0, r0, hL, hR⟩ := split_half s h
    have hl1 : l = specBK f p (a0 :: l0) := by rw [← hL, ← ihl]
    rw [hl1] at hl; simp [specBK] at hl
  | case3 p s h =>
    match s, h with
    | [], _ => rfl
    | [a], _ => cases p <;> rfl
    | _ :: _ :: _, h => simp at h

theorem specBK_none (f : α → α → α) (s : List α) : specBK f none s = scan1 f s := by
  cases s <;> rfl

/-! ### the in-place layer equals the slice layer embedded in `x` -/

theorem length_skl (f : α → α → α) (s : List α) : (skl f s).length = s.length := by
  fun_induction skl f s with
  | case1 s h l r a hl ihl ihr =>
    simp only [List.length_append, List.length_map]
    show (skl f (s.take (s.length / 2))).length + (skl f (s.drop (s.length / 2))).length = _
    rw [ihl, ihr, List.length_take, List.length_drop]; omega
  | case2 s h l r hl ihl ihr =>
    simp only [List.length_append]
    show (skl f (s.take (s.length / 2))).length + (skl f (s.drop (s.length / 2))).length = _
    rw [ihl, ihr, List.length_take, List.length_drop]; omega
  | case3 s h => rfl

theorem accSkl_append (f : α → α → α) : ∀ (n : Nat) (A S B : List α), S.length = n →
    accSkl f (A ++ S ++ B) A.length (A.length + S.length) = A ++ skl f S ++ B := by
  intro n
  induction n using Nat.strongRecOn with
  | _ n ih =>
    intro A S B hn
    rw [accSkl, skl]
    by_cases h2 : 2 ≤ S.length
    · have hh : (A.length + (A.length + S.length)) / 2 = A.length + S.length / 2 := by omega
      simp only [hh, h2, if_true]
      have hlt : A.length < A.length + S.length / 2 := by omega
      simp only [hlt, if_true]
      generalize hL : S.take (S.length / 2) = L
      generalize hR : S.drop (S.length / 2) = R
      have hS : S = L ++ R := by rw [← hL, ← hR, List.take_append_drop]
      have hLlen : L.length = S.length / 2 := by rw [← hL, List.length_take]; omega
      have hRlen : R.length = S.length - S.length / 2 := by rw [← hR, List.length_drop]
      have e1 : accSkl f (A ++ S ++ B) A.length (A.length + S.length / 2) = A ++ skl f L ++ (R ++ B) := by
        have := ih L.length (by omega) A L (R ++ B) rfl
        rw [← hLlen]
        have e : A ++ S ++ B = A ++ L ++ (R ++ B) := by rw [hS]; simp [List.append_assoc]
        rw [e]; exact this
      rw [e1]
      have hsl : (skl f L).length = L.length := length_skl f L
      have hget : (A ++ skl f L ++ (R ++ B))[A.length + S.length / 2 - 1]? = (skl f L).getLast? := by
        rw [List.getLast?_eq_getElem?, List.getElem?_append_left (by simp; omega),
          List.getElem?_append_right (by omega)]
        congr 1; omega
      rw [hget]
      cases hla : (skl f L).getLast? with
      | none =>
        exfalso
        have : skl f L = [] := by simpa using hla
        rw [this] at hsl; simp at hsl; omega
      | some a =>
        simp only
        have e2 : accSkl f (A ++ skl f L ++ (R ++ B)) (A.length + S.length / 2) (A.length + S.length)
            = (A ++ skl f L) ++ skl f R ++ B := by
          have := ih R.length (by omega) (A ++ skl f L) R B rfl
          have h1 : (A ++ skl f L).length = A.length + S.length / 2 := by simp [hsl, hLlen]
          have h3 : A.length + S.length / 2 + R.length = A.length + S.length := by omega
          rw [h1, h3] at this
          simpa [List.append_assoc] using this
        rw [e2]
        have hAL : (A ++ skl f L).length = A.length + S.length / 2 := by simp [hsl, hLlen]
        have hsr : (skl f R).length = R.length := length_skl f R
        have t1 : ((A ++ skl f L) ++ skl f R ++ B).take (A.length + S.length / 2) = A ++ skl f L := by
          rw [List.append_assoc, List.take_append_of_le_length (by omega), ← hAL, List.take_length]
        have t2 : ((A ++ skl f L) ++ skl f R ++ B).drop (A.length + S.length / 2) = skl f R ++ B := by
          rw [List.append_assoc, ← hAL, List.drop_left]
        have t3 : ((A ++ skl f L) ++ skl f R ++ B).drop (A.length + S.length) = B := by
          have : A.length + S.length = ((A ++ skl f L) ++ skl f R).length := by
            simp [hsl, hsr]; omega
          rw [this, List.drop_left]
        have t4 : (skl f R ++ B).take (A.length + S.length - (A.length + S.length / 2)) = skl f R := by
          have : A.length + S.length - (A.length + S.length / 2) = (skl f R).length := by omega
          rw [this, List.take_left]
        rw [t1, t2, t3, t4]
        simp [List.append_assoc]
    · have hlt : ¬ A.length < (A.length + (A.length + S.length)) / 2 := by omega
      simp only [hlt, h2, if_false]

theorem length_mapLast (g : α → α) : ∀ l : List α, (mapLast g l).length = l.length
  | [] => rfl
  | [a] => rfl
  | a :: b :: l => by
      have := length_mapLast g (b :: l)
      simp only [mapLast, List.length_cons] at this ⊢
      omega

theorem eq_concat_of_getLast? {M : List α} {b : α} (h : M.getLast? = some b) : M = M.dropLast ++ [b] := by
  have hne : M ≠ [] := by intro h0; rw [h0] at h; simp at h
  have := List.dropLast_concat_getLast hne
  rw [List.getLast?_eq_some_getLast hne] at h
  injection h with h
  rw [h] at this; exact this.symm

theorem set_last_mid (g : α → α) (P M Q : List α) (b : α) (h : M.getLast? = some b) :
    (P ++ M ++ Q).set (P.length + M.length - 1) (g b) = P ++ mapLast g M ++ Q := by
  have hM := eq_concat_of_getLast? h
  generalize M.dropLast = I at hM
  subst hM
  have e : P ++ (I ++ [b]) ++ Q = (P ++ I) ++ b :: Q := by simp [List.append_assoc]
  have e2 : P.length + (I ++ [b]).length - 1 = (P ++ I).length := by simp
  rw [e, e2, mapLast_concat, List.set_append_right _ _ (by omega)]
  simp [List.append_assoc]

theorem getElem?_last_mid (P M Q : List α) (h : M ≠ []) :
    (P ++ M ++ Q)[P.length + M.length - 1]? = M.getLast? := by
  have : 0 < M.length := List.length_pos_iff.mpr h
  rw [List.getLast?_eq_getElem?, List.getElem?_append_left (by simp; omega),
    List.getElem?_append_right (by omega)]
  congr 1; omega

theorem length_bk (f : α → α → α) (p : Option α) (s : List α) : (bk f p s).length = s.length := by
  fun_induction bk f p s with
  | case1 p s h l a hl l' r ihl ihr =>
    have hl'len : l'.length = l.length := by
      simp only [l']; cases p <;> simp [length_mapLast]
    rw [List.length_append, length_mapLast, hl'len]
    show (bk f p (s.take (s.length / 2))).length + (bk f l'.getLast? (s.drop (s.length / 2))).length = _
    rw [ihl, ihr, List.length_take, List.length_drop]; omega
  | case2 p s h l hl ihl =>
    exfalso
    have h0 : l = [] := by simpa using hl
    have : l.length = (s.take (s.length / 2)).length := ihl
    rw [h0, List.length_take] at this; simp at this; omega
  | case3 p s h => rfl

theorem accBK_append (f : α → α → α) : ∀ (n : Nat) (A S B : List α), S.length = n →
    accBK f (A ++ S ++ B) A.length (A.length + S.length) = A ++ bk f A.getLast? S ++ B := by
  intro n
  induction n using Nat.strongRecOn with
  | _ n ih =>
    intro A S B hn
    rw [accBK, bk]
    by_cases h2 : 2 ≤ S.length
    · have hh : (A.length + (A.length + S.length)) / 2 = A.length + S.length / 2 := by omega
      simp only [hh, h2, if_true]
      have hlt : A.length < A.length + S.length / 2 := by omega
      simp only [hlt, if_true]
      generalize hL : S.take (S.length / 2) = L
      generalize hR : S.drop (S.length / 2) = R
      have hS : S = L ++ R := by rw [← hL, ← hR, List.take_append_drop]
      have hLlen : L.length = S.length / 2 := by rw [← hL, List.length_take]; omega
      have hRlen : R.length = S.length - S.length / 2 := by rw [← hR, List.length_drop]
      have e1 : accBK f (A ++ S ++ B) A.length (A.length + S.length / 2)
          = A ++ bk f A.getLast? L ++ (R ++ B) := by
        have := ih L.length (by omega) A L (R ++ B) rfl
        rw [← hLlen]
        have e : A ++ S ++ B = A ++ L ++ (R ++ B) := by rw [hS]; simp [List.append_assoc]
        rw [e]; exact this
      rw [e1]
      have hbl : (bk f A.getLast? L).length = L.length := length_bk f _ L
      have hbne : bk f A.getLast? L ≠ [] := by
        intro h0; rw [h0] at hbl; simp at hbl; omega
      have hget : (A ++ bk f A.getLast? L ++ (R ++ B))[A.length + S.length / 2 - 1]?
          = (bk f A.getLast? L).getLast? := by
        have := getElem?_last_mid A (bk f A.getLast? L) (R ++ B) hbne
        rw [hbl, hLlen] at this; exact this
      rw [hget]
      cases hla : (bk f A.getLast? L).getLast? with
      | none => exfalso; exact hbne (by simpa using hla)
      | some a =>
        simp only
        -- everything after the conditional fix-up, for an arbitrary content l' of x[i:h]
        have tail : ∀ l' : List α, l'.length = L.length →
            (match (accBK f (A ++ l' ++ (R ++ B)) (A.length + S.length / 2) (A.length + S.length))[A.length + S.length - 1]? with
              | some b => (accBK f (A ++ l' ++ (R ++ B)) (A.length + S.length / 2) (A.length + S.length)).set
                  (A.length + S.length - 1) (f a b)
              | none => accBK f (A ++ l' ++ (R ++ B)) (A.length + S.length / 2) (A.length + S.length))
            = A ++ (l' ++ mapLast (f a) (bk f l'.getLast? R)) ++ B := by
          intro l' hl'len
          have hl'ne : l' ≠ [] := by
            intro h0; rw [h0] at hl'len; simp at hl'len; omega
          have hlast : (A ++ l').getLast? = l'.getLast? := by
            rw [List.getLast?_append]
            cases h : l'.getLast? with
            | none => exfalso; exact hl'ne (by simpa using h)
            | some v => rfl
          have e2 : accBK f (A ++ l' ++ (R ++ B)) (A.length + S.length / 2) (A.length + S.length)
              = (A ++ l') ++ bk f l'.getLast? R ++ B := by
            have := ih R.length (by omega) (A ++ l') R B rfl
            have h1 : (A ++ l').length = A.length + S.length / 2 := by simp [hl'len, hLlen]
            have h3 : A.length + S.length / 2 + R.length = A.length + S.length := by omega
            rw [h1, h3, hlast] at this
            have e : A ++ l' ++ (R ++ B) = A ++ l' ++ R ++ B := by simp [List.append_assoc]
            rw [e]; exact this
          rw [e2]
          have hrl : (bk f l'.getLast? R).length = R.length := length_bk f _ R
          have hrne : bk f l'.getLast? R ≠ [] := by
            intro h0; rw [h0] at hrl; simp at hrl; omega
          have h1 : (A ++ l').length + (bk f l'.getLast? R).length = A.length + S.length := by
            simp [hl'len, hrl]; omega
          have hget2 : ((A ++ l') ++ bk f l'.getLast? R ++ B)[A.length + S.length - 1]?
              = (bk f l'.getLast? R).getLast? := by
            have := getElem?_last_mid (A ++ l') (bk f l'.getLast? R) B hrne
            rw [h1] at this; exact this
          rw [hget2]
          cases hrb : (bk f l'.getLast? R).getLast? with
          | none => exfalso; exact hrne (by simpa using hrb)
          | some b =>
            simp only
            have := set_last_mid (f a) (A ++ l') (bk f l'.getLast? R) B b hrb
            rw [h1] at this
            rw [this]; simp [List.append_assoc]
        by_cases hA : A = []
        · subst hA
          simp only [List.getLast?_nil, List.length_nil, ne_eq, not_true_eq_false, if_false]
          exact tail _ hbl
        · have hApos : 0 < A.length := List.length_pos_iff.mpr hA
          have hA0 : A.length ≠ 0 := by omega
          simp only [hA0, ne_eq, not_false_eq_true, if_true]
          have hq : (A ++ bk f A.getLast? L ++ (R ++ B))[A.length - 1]? = A.getLast? := by
            rw [List.append_assoc, List.getElem?_append_left (by omega), List.getLast?_eq_getElem?]
          rw [hq]
          cases hAq : A.getLast? with
          | none => exfalso; exact hA (by simpa using hAq)
          | some q =>
            simp only
            rw [hAq] at hla hbl
            have := set_last_mid (fun _ => f q a) A (bk f (some q) L) (R ++ B) a hla
            rw [length_bk, hLlen] at this
            rw [this]
            exact tail _ (by rw [length_mapLast, hbl])
    · have hlt : ¬ A.length < (A.length + (A.length + S.length)) / 2 := by omega
      simp only [hlt, h2, if_false]

/-! ### depth of the application trees -/

/-- all depth marks in `l` are at most `b` -/
def AllLe (l : List (α × Nat)) (b : Nat) : Prop := ∀ e ∈ l, e.2 ≤ b

theorem AllLe.mono {l : List (α × Nat)} {b c : Nat} (h : AllLe l b) (hbc : b ≤ c) : AllLe l c :=
  fun e he => Nat.le_trans (h e he) hbc

theorem allLe_pairUp (f : α → α → α) (d : Nat) : ∀ l : List (α × Nat), AllLe l d →
    AllLe (pairUp (dep f) l) (d + 1)
  | [], _ => by intro e he; simp [pairUp] at he
  | [a], h => by
      intro e he; simp [pairUp] at he; subst he
      exact Nat.le_succ_of_le (h _ (by simp))
  | a :: b :: rest, h => by
      intro e he
      simp only [pairUp, List.mem_cons] at he
      rcases he with he | he
      · subst he
        have ha := h a (by simp); have hb := h b (by simp)
        simp only [dep]; omega
      · exact allLe_pairUp f d rest (fun e he => h e (by simp [he])) e he

theorem allLe_reduceStep (f : α → α → α) (d : Nat) (x : List (α × Nat)) (h : AllLe x d) :
    AllLe (reduceStep (dep f) x) (d + 1) := by
  unfold reduceStep
  split
  · cases x with
    | nil => intro e he; simp at he
    | cons a rest =>
      intro e he
      simp only [List.mem_cons] at he
      rcases he with he | he
      · subst he; exact Nat.le_succ_of_le (h _ (by simp))
      · exact allLe_pairUp f d rest (fun e he => h e (by simp [he])) e he
  · exact allLe_pairUp f d x h

theorem two_le_two_pow_of_lt {n k : Nat} (h1 : 1 < n) (h2 : n ≤ 2 ^ k) : ∃ k', k = k' + 1 := by
  cases k with
  | zero => simp at h2; omega
  | succ k' => exact ⟨k', rfl⟩

theorem allLe_reduceLoop (f : α → α → α) : ∀ (k : Nat) (x : List (α × Nat)) (d : Nat),
    x.length ≤ 2 ^ k → AllLe x d → AllLe (reduceLoop (dep f) x) (d + k) := by
  intro k
  induction k with
  | zero =>
    intro x d hlen h
    rw [reduceLoop]
    have : ¬ 1 < x.length := by simp at hlen; omega
    simp only [this, if_false]; exact h
  | succ k ih =>
    intro x d hlen h
    rw [reduceLoop]
    split
    · have := ih (reduceStep (dep f) x) (d + 1) (by rw [length_reduceStep]; rw [Nat.pow_succ] at hlen; omega)
        (allLe_reduceStep f d x h)
      rw [Nat.add_assoc, Nat.add_comm 1 k] at this; exact this
    · exact h.mono (by omega)

theorem allLe_skl (f : α → α → α) : ∀ (k : Nat) (s : List (α × Nat)) (d : Nat),
    s.length ≤ 2 ^ k → AllLe s d → AllLe (skl (dep f) s) (d + k) := by
  intro k
  induction k with
  | zero =>
    intro s d hlen h
    rw [skl]
    have : ¬ 2 ≤ s.length := by simp at hlen; omega
    simp only [this, if_false]; exact h
  | succ k ih =>
    intro s d hlen h
    rw [skl]
    split
    · rw [Nat.pow_succ] at hlen
      have hL := ih (s.take (s.length / 2)) d (by rw [List.length_take]; omega)
        (fun e he => h e (List.mem_of_mem_take he))
      have hR := ih (s.drop (s.length / 2)) d (by rw [List.length_drop]; omega)
        (fun e he => h e (List.mem_of_mem_drop he))
      simp only
      split
      · rename_i a ha
        have haL : a.2 ≤ d + k := hL a (List.mem_of_getLast? ha)
        intro e he
        rw [List.mem_append] at he
        rcases he with he | he
        · exact Nat.le_succ_of_le (hL e he)
        · rw [List.mem_map] at he
          obtain ⟨b, hb, rfl⟩ := he
          have := hR b hb
          simp only [dep]; omega
      · intro e he
        rw [List.mem_append] at he
        rcases he with he | he
        · exact Nat.le_succ_of_le (hL e he)
        · exact Nat.le_succ_of_le (hR e he)
    · exact h.mono (by omega)

theorem exists_concat_of_ne_nil {β : Type} {M : List β} (h : M ≠ []) : ∃ I z, M = I ++ [z] :=
  ⟨M.dropLast, M.getLast h, (List.dropLast_concat_getLast h).symm⟩

theorem bk_single (f : α → α → α) (p : Option α) (s : List α) (h : ¬ 2 ≤ s.length) : bk f p s = s := by
  rw [bk]; simp only [h, if_false]

theorem bk_ne_nil (f : α → α → α) (p : Option α) (s : List α) (h : s ≠ []) : bk f p s ≠ [] := by
  intro h0
  have := length_bk f p s
  rw [h0] at this
  exact h (List.eq_nil_of_length_eq_zero this.symm)

/-- one unfolding of `bk` on a slice with at least two elements, in concatenated form -/
theorem bk_unfold (f : α → α → α) (p : Option α) (s : List α) (h : 2 ≤ s.length) :
    ∃ I a J b, bk f p (s.take (s.length / 2)) = I ++ [a] ∧
      (let P' := match p with | some q => f q a | none => a
       bk f (some P') (s.drop (s.length / 2)) = J ++ [b] ∧
       bk f p s = I ++ [P'] ++ J ++ [f a b]) := by
  obtain ⟨a0, l0, b0, r0, hL, hR⟩ := split_half s h
  obtain ⟨I, a, hI⟩ := exists_concat_of_ne_nil (bk_ne_nil f p (s.take (s.length / 2)) (by rw [hL]; simp))
  refine ⟨I, a, ?_⟩
  have hJ := fun P' => exists_concat_of_ne_nil (bk_ne_nil f (some P') (s.drop (s.length / 2)) (by rw [hR]; simp))
  cases p with
  | none =>
    obtain ⟨J, b, hJ⟩ := hJ a
    refine ⟨J, b, hI, hJ, ?_⟩
    rw [bk]
    simp only [h, if_true, hI, List.getLast?_append, List.getLast?_singleton, Option.or_some,
      mapLast_concat]
    simp [List.append_assoc]
    rw [hJ, mapLast_concat]
  | some q =>
    obtain ⟨J, b, hJ⟩ := hJ (f q a)
    refine ⟨J, b, hI, hJ, ?_⟩
    rw [bk]
    simp only [h, if_true, hI, List.getLast?_append, List.getLast?_singleton, Option.or_some,
      mapLast_concat]
    simp [List.append_assoc]
    rw [hJ, mapLast_concat]

theorem allLe_append {l r : List (α × Nat)} {b : Nat} : AllLe (l ++ r) b ↔ AllLe l b ∧ AllLe r b := by
  constructor
  · intro h; exact ⟨fun e he => h e (by simp [he]), fun e he => h e (by simp [he])⟩
  · intro ⟨h1, h2⟩ e he
    rw [List.mem_append] at he
    rcases he with he | he
    · exact h1 e he
    · exact h2 e he

theorem allLe_singleton {a : α × Nat} {b : Nat} : AllLe [a] b ↔ a.2 ≤ b := by
  constructor
  · intro h; exact h a (by simp)
  · intro h e he; simp at he; subst he; exact h

/-- Brent–Kung with a left neighbour `q` of depth ≤ dq on a slice of ≤ 2^k elements of depth ≤ d:
interior results have depth ≤ max (dq + k) (d + 2k), the last one (the fold of the slice alone,
a balanced tree) depth ≤ d + k. -/
theorem depth_bk_some (f : α → α → α) : ∀ (k : Nat) (s : List (α × Nat)) (q : α × Nat) (dq d : Nat),
    s.length ≤ 2 ^ k → s ≠ [] → AllLe s d → q.2 ≤ dq →
    ∃ I z, bk (dep f) (some q) s = I ++ [z] ∧ AllLe I (max (dq + k) (d + 2 * k)) ∧ z.2 ≤ d + k := by
  intro k
  induction k with
  | zero =>
    intro s q dq d hlen hne h hq
    have h1 : ¬ 2 ≤ s.length := by simp at hlen; omega
    rw [bk_single _ _ _ h1]
    match s, hne, h1 with
    | [x], _, _ => exact ⟨[], x, rfl, fun e he => by simp at he, by simpa using h x (by simp)⟩
    | _ :: _ :: _, _, h1 => simp at h1
  | succ k ih =>
    intro s q dq d hlen hne h hq
    by_cases h2 : 2 ≤ s.length
    · obtain ⟨I, a, J, b, hI, hJ, hres⟩ := bk_unfold (dep f) (some q) s h2
      simp only at hJ hres
      obtain ⟨a0, l0, b0, r0, hL, hR⟩ := split_half s h2
      rw [Nat.pow_succ] at hlen
      obtain ⟨I', a', hI', hIle, hale⟩ := ih (s.take (s.length / 2)) q dq d
        (by rw [List.length_take]; omega) (by rw [hL]; simp)
        (fun e he => h e (List.mem_of_mem_take he)) hq
      rw [hI] at hI'
      obtain ⟨rfl, hh⟩ := List.append_inj' hI' rfl
      obtain rfl : a = a' := by injection hh
      have hP : (dep f q a).2 ≤ max dq (d + k) + 1 := by simp only [dep]; omega
      obtain ⟨J', b', hJ', hJle, hble⟩ := ih (s.drop (s.length / 2)) (dep f q a) (max dq (d + k) + 1) d
        (by rw [List.length_drop]; omega) (by rw [hR]; simp)
        (fun e he => h e (List.mem_of_mem_drop he)) hP
      rw [hJ] at hJ'
      obtain ⟨rfl, hh⟩ := List.append_inj' hJ' rfl
      obtain rfl : b = b' := by injection hh
      refine ⟨I ++ [dep f q a] ++ J, dep f a b, hres, ?_, ?_⟩
      · rw [allLe_append, allLe_append, allLe_singleton]
        refine ⟨⟨hIle.mono (by omega), by omega⟩, hJle.mono (by omega)⟩
      · simp only [dep]; omega
    · rw [bk_single _ _ _ h2]
      match s, hne, h2 with
      | [x], _, _ =>
        exact ⟨[], x, rfl, fun e he => by simp at he, Nat.le_trans (by simpa using h x (by simp)) (by omega)⟩
      | _ :: _ :: _, _, h2 => simp at h2

/-- Brent–Kung from position 0 (`p = none`) on ≤ 2^k elements of depth ≤ d: every result has depth
≤ d + max (2k - 2) k — the documented f-depth `max(2k-2, k)`. -/
theorem depth_bk_none (f : α → α → α) : ∀ (k : Nat) (s : List (α × Nat)) (d : Nat),
    s.length ≤ 2 ^ k → AllLe s d →
    AllLe (bk (dep f) none s) (d + max (2 * k - 2) k) ∧
    ∀ z ∈ (bk (dep f) none s).getLast?, z.2 ≤ d + k := by
  intro k
  induction k with
  | zero =>
    intro s d hlen h
    have h1 : ¬ 2 ≤ s.length := by simp at hlen; omega
    rw [bk_single _ _ _ h1]
    exact ⟨h.mono (by omega), fun z hz => h z (List.mem_of_getLast? hz)⟩
  | succ k ih =>
    intro s d hlen h
    by_cases h2 : 2 ≤ s.length
    · obtain ⟨I, a, J, b, hI, hJ, hres⟩ := bk_unfold (dep f) none s h2
      simp only at hJ hres
      obtain ⟨a0, l0, b0, r0, hL, hR⟩ := split_half s h2
      rw [Nat.pow_succ] at hlen
      obtain ⟨hLall, hLlast⟩ := ih (s.take (s.length / 2)) d (by rw [List.length_take]; omega)
        (fun e he => h e (List.mem_of_mem_take he))
      rw [hI] at hLall hLlast
      have ha : a.2 ≤ d + k := hLlast a (by simp)
      obtain ⟨J', b', hJ', hJle, hble⟩ := depth_bk_some f k (s.drop (s.length / 2)) a (d + k) d
        (by rw [List.length_drop]; omega) (by rw [hR]; simp)
        (fun e he => h e (List.mem_of_mem_drop he)) ha
      rw [hJ] at hJ'
      obtain ⟨rfl, hh⟩ := List.append_inj' hJ' rfl
      obtain rfl : b = b' := by injection hh
      rw [hres]
      refine ⟨?_, ?_⟩
      · rw [allLe_append, allLe_append, allLe_append, allLe_singleton, allLe_singleton]
        rw [allLe_append, allLe_singleton] at hLall
        refine ⟨⟨⟨hLall.1.mono (by omega), by omega⟩, hJle.mono (by omega)⟩, ?_⟩
        simp only [dep]; omega
      · intro z hz
        rw [List.getLast?_concat] at hz
        simp only [Option.mem_def, Option.some.injEq] at hz
        subst hz
        simp only [dep]; omega
    · rw [bk_single _ _ _ h2]
      exact ⟨h.mono (by omega), fun z hz => Nat.le_trans (h z (List.mem_of_getLast? hz)) (by omega)⟩

/-! ### top level -/

theorem scan1_eq_scanl (f : α → α → α) : ∀ (l : List α) (a : α), scan1 f (a :: l) = List.scanl f a l
  | [], a => by simp [scan1, pref]
  | b :: l, a => by
      have := scan1_eq_scanl f l (f a b)
      simp only [scan1, pref, List.foldl_cons, List.scanl_cons, List.cons_append] at this ⊢
      rw [this]

theorem accumulate_eq_slice (f : α → α → α) (x : List α) (initial : Option α) (m : Method) :
    accumulate f x initial m =
      match m with
      | .brentKung => bk f none (withInitial initial x)
      | .sklansky => skl f (withInitial initial x) := by
  unfold accumulate
  generalize withInitial initial x = X
  cases m with
  | brentKung =>
    have := accBK_append f X.length [] X [] rfl
    simpa using this
  | sklansky =>
    have := accSkl_append f X.length [] X [] rfl
    simpa using this

end MpycV.Tools
