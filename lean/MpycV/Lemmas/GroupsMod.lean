import MpycV.Model.Groups
import MpycV.Lemmas.GroupsRepeat
import MpycV.Lemmas.GroupsPerm
import Mathlib.Data.ZMod.Basic
import Mathlib.FieldTheory.Finite.Basic
import Mathlib.NumberTheory.LegendreSymbol.Basic
import Mathlib.GroupTheory.OrderOfElement

/-! QR and Schnorr groups: value-level arithmetic mod p tied to `ZMod p`. -/
namespace MpycV.Groups

theorem powMod_eq (a n p : Nat) : powMod a n p = a ^ n % p := by
  induction n using Nat.strong_induction_on with
  | _ n ih =>
    rw [powMod]
    split
    · next h => simp [h]
    · next h =>
      have hlt : n / 2 < n := by omega
      rw [ih _ hlt]
      simp only
      have hn : n = 2 * (n / 2) + n % 2 := by omega
      split
      · next h1 =>
        conv_rhs => rw [hn, h1, pow_succ, pow_mul', pow_two]
        simp [Nat.mul_mod, Nat.pow_mod]
      · next h1 =>
        have h0 : n % 2 = 0 := by omega
        conv_rhs => rw [hn, h0, add_zero, pow_mul', pow_two]
        simp [Nat.mul_mod]

theorem powMod_lt (a n p : Nat) (hp : 0 < p) : powMod a n p < p := by
  rw [powMod_eq]; exact Nat.mod_lt _ hp

theorem powMod_cast (a n p : Nat) : ((powMod a n p : Nat) : ZMod p) = (a : ZMod p) ^ n := by
  rw [powMod_eq, ZMod.natCast_mod, Nat.cast_pow]

theorem mulMod_cast (p a b : Nat) : ((mulMod p a b : Nat) : ZMod p) = (a : ZMod p) * b := by
  rw [mulMod, ZMod.natCast_mod, Nat.cast_mul]

variable {p : Nat} [hp : Fact p.Prime]

theorem cast_ne_zero_iff (a : Nat) : (a : ZMod p) ≠ 0 ↔ a % p ≠ 0 := by
  rw [Ne, ZMod.natCast_eq_zero_iff, Nat.dvd_iff_mod_eq_zero]

theorem invMod_cast (a : Nat) (ha : a % p ≠ 0) :
    ((powMod a (p - 2) p : Nat) : ZMod p) = (a : ZMod p)⁻¹ := by
  have ha' : (a : ZMod p) ≠ 0 := (cast_ne_zero_iff a).2 ha
  rw [powMod_cast]
  apply eq_inv_of_mul_eq_one_left
  rw [← pow_succ]
  have : p - 2 + 1 = p - 1 := by have := hp.1.two_le; omega
  rw [this]
  exact ZMod.pow_card_sub_one_eq_one ha'

theorem invMod?_cast (a : Nat) : (((invMod? a p).getD 0 : Nat) : ZMod p) = (a : ZMod p)⁻¹ := by
  unfold invMod?
  split
  · next h =>
    have : (a : ZMod p) = 0 := by
      rw [ZMod.natCast_eq_zero_iff, Nat.dvd_iff_mod_eq_zero]; exact h
    simp [this]
  · next h => simpa using invMod_cast a h

/-- ≙ `a ** n` of prime field elements is the integer power in `ZMod p` -/
theorem fpow?_cast (a : Nat) (n : Int) (v : Nat) (h : fpow? a n p = some v) :
    (v : ZMod p) = (a : ZMod p) ^ n := by
  unfold fpow? at h
  split at h
  · next hn =>
    injection h with h
    rw [← h, powMod_cast]
    conv_rhs => rw [← Int.toNat_of_nonneg hn]
    rw [zpow_natCast]
  · next hn =>
    unfold invMod? at h
    split at h
    · simp at h
    · next ha =>
      simp only [Option.map_some, Option.some.injEq] at h
      rw [← h, powMod_cast, invMod_cast a ha]
      have : n = -((-n).toNat : Int) := by omega
      conv_rhs => rw [this]
      rw [zpow_neg, zpow_natCast, inv_pow]

omit hp in
/-- `fpow?` only fails for a zero base with a negative exponent (Python: ZeroDivisionError) -/
theorem fpow?_isSome (a : Nat) (n : Int) (h : a % p ≠ 0 ∨ 0 ≤ n) : (fpow? a n p).isSome := by
  unfold fpow? invMod?
  split
  · rfl
  · next hn =>
    rcases h with h | h
    · simp [h]
    · omega

/-- the QR/Schnorr `GroupOps` on residues computes in `ZMod p` -/
theorem modOps_repeat_cast (a : Nat) (n : Int) :
    ((«repeat» (modOps p) a n : Nat) : ZMod p) = (a : ZMod p) ^ n := by
  rw [← repeat_spec' (GroupOps.ofGroup (ZMod p)) (ofGroup_lawful _) (a : ZMod p) n]
  exact repeat_map (modOps p) (GroupOps.ofGroup (ZMod p)) (fun x : Nat => (x : ZMod p))
    (fun a b => mulMod_cast p a b) (fun a => mulMod_cast p a a) (fun a => invMod?_cast a)
    (by simp [modOps, GroupOps.ofGroup]) a n

/-- generic `repeat` (double-and-add) and the overridden `repeat` (`a.value ** n`) agree in GF(p) -/
theorem modOps_repeat_eq_fpow (a : Nat) (n : Int) (v : Nat) (h : fpow? a n p = some v) :
    ((«repeat» (modOps p) a n : Nat) : ZMod p) = (v : ZMod p) := by
  rw [modOps_repeat_cast, fpow?_cast a n v h]

/-! ### Legendre symbol (Euler) and quadratic residues -/

theorem legendre_eq_one_iff (hp2 : p ≠ 2) (a : Nat) :
    legendre a p = 1 ↔ (a : ZMod p) ≠ 0 ∧ IsSquare (a : ZMod p) := by
  have hodd : (p - 1) / 2 = p / 2 := by
    have := hp.1.eq_two_or_odd; omega
  have h1 : (1 : Nat) % p = 1 := Nat.mod_eq_of_lt hp.1.one_lt
  unfold legendre
  simp only [hodd]
  have hcast : ∀ r : Nat, powMod a (p / 2) p = r → r < p → ((a : ZMod p) ^ (p / 2) = r) := by
    intro r hr _; rw [← hr, powMod_cast]
  by_cases ha : (a : ZMod p) = 0
  · have : powMod a (p / 2) p = 0 := by
      have h0 := powMod_cast a (p / 2) p
      rw [ha, zero_pow (by have := hp.1.two_le; omega)] at h0
      have := (ZMod.natCast_eq_zero_iff _ _).1 h0
      exact Nat.eq_zero_of_dvd_of_lt this (powMod_lt _ _ _ hp.1.pos)
    simp [this, ha]
  · have hne : powMod a (p / 2) p ≠ 0 := by
      intro h0
      have := powMod_cast a (p / 2) p
      rw [h0, Nat.cast_zero] at this
      exact ha (pow_eq_zero_iff (by have := hp.1.two_le; omega) |>.1 this.symm)
    simp only [hne, if_false, ha, ne_eq, not_false_eq_true, true_and]
    rw [ZMod.euler_criterion p ha]
    constructor
    · intro h
      split at h
      · next h1' => rw [← powMod_cast, h1', Nat.cast_one]
      · simp at h
    · intro h
      have : powMod a (p / 2) p = 1 := by
        have hc := powMod_cast a (p / 2) p
        rw [h] at hc
        have := (ZMod.natCast_eq_natCast_iff' _ 1 p).1 (by simpa using hc)
        rwa [Nat.mod_eq_of_lt (powMod_lt _ _ _ hp.1.pos), h1] at this
      simp [this]

/-- quadratic residues are closed under product and inverse -/
theorem qr_closed {a b : ZMod p} (ha : a ≠ 0 ∧ IsSquare a) (hb : b ≠ 0 ∧ IsSquare b) :
    (a * b ≠ 0 ∧ IsSquare (a * b)) ∧ (a⁻¹ ≠ 0 ∧ IsSquare a⁻¹) ∧ ((1 : ZMod p) ≠ 0 ∧ IsSquare (1 : ZMod p)) :=
  ⟨⟨mul_ne_zero ha.1 hb.1, ha.2.mul hb.2⟩, ⟨inv_ne_zero ha.1, ha.2.inv⟩, ⟨one_ne_zero, IsSquare.one⟩⟩

/-- model level: `legendre = 1` is preserved by the group operation and inversion -/
theorem qr_model_closed (hp2 : p ≠ 2) (a b : Nat) (ha : legendre a p = 1) (hb : legendre b p = 1) :
    legendre (mulMod p a b) p = 1 ∧ legendre ((invMod? a p).getD 0) p = 1 := by
  rw [legendre_eq_one_iff hp2] at ha hb ⊢
  rw [legendre_eq_one_iff hp2, mulMod_cast, invMod?_cast]
  exact ⟨(qr_closed ha hb).1, (qr_closed ha hb).2.1⟩

/-- for a safe prime p = 2q + 1 every quadratic residue ≠ 1 has order q (so `QR.generator` does) -/
theorem qr_order_safe_prime (q : Nat) (hq : q.Prime) (hpq : p = 2 * q + 1) (x : ZMod p)
    (hx : x ≠ 0) (hsq : IsSquare x) (h1 : x ≠ 1) : orderOf x = q := by
  obtain ⟨y, rfl⟩ := hsq
  have hy : y ≠ 0 := fun h => hx (by simp [h])
  have hpow : (y * y) ^ q = 1 := by
    rw [← pow_two, ← pow_mul]
    have : 2 * q = p - 1 := by omega
    rw [this]; exact ZMod.pow_card_sub_one_eq_one hy
  have hdvd := orderOf_dvd_of_pow_eq_one hpow
  rcases (Nat.dvd_prime hq).1 hdvd with h | h
  · exact absurd (orderOf_eq_one_iff.1 h) h1
  · exact h

/-! ### QR encode / decode -/

theorem qr_decode_encode (gap m M Z : Nat) (signed : Bool) (hgp : gap < p)
    (hm : (m + 1) * gap ≤ p) (h : qrEncode? p gap m = some (M, Z)) :
    qrDecode? p gap M Z signed = some (m : Int) := by
  unfold qrEncode? at h
  obtain ⟨i, hi, hsome⟩ := List.exists_of_findSome?_eq_some h
  rw [List.mem_range'_1] at hi
  have hgap : 2 ≤ gap := by omega
  split at hsome
  · simp only at hsome
    split at hsome
    · simp only [Option.some.injEq, Prod.mk.injEq] at hsome
      obtain ⟨hM, hZ⟩ := hsome
      have hi2 : i < gap := by omega
      have hexp : (m + 1) * gap = m * gap + gap := by ring
      have hlt : m * gap + i < p := by omega
      have hM' : M = m * gap + i := by rw [← hM, Nat.mod_eq_of_lt hlt]
      have hZ' : Z = i := by rw [← hZ, Nat.mod_eq_of_lt (by omega)]
      have h2m : 2 * m + 2 ≤ p := by
        have : (m + 1) * 2 ≤ (m + 1) * gap := Nat.mul_le_mul_left _ hgap
        omega
      have hmp : m < p := by omega
      unfold qrDecode? invMod?
      have hg : gap % p ≠ 0 := by rw [Nat.mod_eq_of_lt hgp]; omega
      simp only [hg, if_false, Option.map_some, Option.some.injEq]
      have hcast : (((M % p + p - Z % p) % p * powMod gap (p - 2) p % p : Nat) : ZMod p) = (m : ZMod p) := by
        rw [ZMod.natCast_mod, Nat.cast_mul, ZMod.natCast_mod, invMod_cast gap hg]
        have : M % p + p - Z % p = m * gap + p := by
          rw [hM', hZ', Nat.mod_eq_of_lt hlt, Nat.mod_eq_of_lt (by omega : i < p)]; omega
        rw [this]
        have hg' : (gap : ZMod p) ≠ 0 := (cast_ne_zero_iff gap).2 hg
        push_cast
        rw [ZMod.natCast_self, add_zero, mul_assoc, mul_inv_cancel₀ hg', mul_one]
      have := (ZMod.natCast_eq_natCast_iff' _ _ p).1 hcast
      rw [Nat.mod_mod, Nat.mod_eq_of_lt hmp] at this
      rw [this]
      unfold fieldInt
      have : ¬ (m > p / 2) := by omega
      simp [this]
    · simp at hsome
  · simp at hsome

/-! ### Schnorr groups -/

/-- the order-q subgroup is closed: membership test `value ** order == 1` -/
theorem sg_closed (q : Nat) {a b : ZMod p} (ha : a ^ q = 1) (hb : b ^ q = 1) :
    (a * b) ^ q = 1 ∧ (a⁻¹) ^ q = 1 ∧ (1 : ZMod p) ^ q = 1 := by
  refine ⟨by rw [mul_pow, ha, hb, one_mul], by rw [inv_pow, ha, inv_one], one_pow q⟩

theorem sgMember_iff (q a : Nat) : sgMember p q a = true ↔ (a : ZMod p) ^ q = 1 := by
  unfold sgMember
  rw [beq_iff_eq, ← powMod_cast]
  constructor
  · intro h; rw [h, ZMod.natCast_mod, Nat.cast_one]
  · intro h
    have := (ZMod.natCast_eq_natCast_iff' _ 1 p).1 (by simpa using h)
    rwa [Nat.mod_eq_of_lt (powMod_lt _ _ _ hp.1.pos)] at this

theorem sg_model_closed (q a b : Nat) (ha : sgMember p q a = true) (hb : sgMember p q b = true) :
    sgMember p q (mulMod p a b) = true ∧ sgMember p q ((invMod? a p).getD 0) = true := by
  rw [sgMember_iff] at ha hb ⊢
  rw [sgMember_iff, mulMod_cast, invMod?_cast]
  exact ⟨(sg_closed q ha hb).1, (sg_closed q ha hb).2.1⟩

theorem sgDecodeLoop_spec (g m : Nat) (hord : m < orderOf (g : ZMod p)) :
    ∀ fuel k, k ≤ m → m < fuel + k →
      sgDecodeLoop p g (powMod g m p) fuel k (powMod g k p) = m := by
  intro fuel
  induction fuel with
  | zero => intro k h1 h2; omega
  | succ fuel ih =>
    intro k h1 h2
    rw [sgDecodeLoop]
    by_cases hk : k = m
    · subst hk; simp
    · have hne : powMod g k p ≠ powMod g m p := by
        intro e
        have e' : (g : ZMod p) ^ k = (g : ZMod p) ^ m := by
          rw [← powMod_cast, ← powMod_cast, e]
        exact hk (pow_injOn_Iio_orderOf (by simp; omega) (by simpa using hord) e')
      simp only [bne_iff_ne, ne_eq, hne, not_false_eq_true, if_true]
      have hstep : mulMod p g (powMod g k p) = powMod g (k + 1) p := by
        rw [mulMod, powMod_eq, powMod_eq, pow_succ, Nat.mul_mod_mod, mul_comm]
      rw [hstep]
      exact ih (k + 1) (by omega) (by omega)

/-- ≙ `decode(encode(m)) == m` for Schnorr groups, 0 ≤ m < min(1024, order of g) -/
theorem sg_decode_encode (g m : Nat) (hord : m < orderOf (g : ZMod p)) (hm : m < 1024) :
    sgDecode p g (powMod g m p) = m := by
  unfold sgDecode
  have h0 : (1 : Nat) % p = powMod g 0 p := by rw [powMod_eq, pow_zero]
  rw [h0]
  exact sgDecodeLoop_spec g m hord 1024 0 (by omega) (by omega)

/-- soundness of the search: whenever the loop stops before its bound, the power it reports IS the element searched for -/
theorem sgDecodeLoop_sound (g M : Nat) : ∀ fuel m,
    sgDecodeLoop p g M fuel m (powMod g m p) < m + fuel →
      powMod g (sgDecodeLoop p g M fuel m (powMod g m p)) p = M := by
  intro fuel
  induction fuel with
  | zero => intro m h; rw [sgDecodeLoop] at h; omega
  | succ fuel ih =>
    intro m h
    rw [sgDecodeLoop] at h ⊢
    by_cases hne : powMod g m p = M
    · simp only [bne_iff_ne, ne_eq, hne, not_true_eq_false, if_false]
    · simp only [bne_iff_ne, ne_eq, hne, not_false_eq_true, if_true] at h ⊢
      have hstep : mulMod p g (powMod g m p) = powMod g (m + 1) p := by
        rw [mulMod, powMod_eq, powMod_eq, pow_succ, Nat.mul_mod_mod, mul_comm]
      rw [hstep] at h ⊢
      exact ih (m + 1) (by omega)

/-- ≙ `decode` never returns a wrong message: a result below the bound is the discrete logarithm of the argument -/
theorem sg_decode_sound (g M r : Nat) (h : sgDecode? p g M = some r) : r < 1024 ∧ powMod g r p = M := by
  unfold sgDecode? at h
  simp only at h
  split at h
  · rename_i hr
    simp only [Option.some.injEq] at h
    subst h
    refine ⟨hr, ?_⟩
    unfold sgDecode at hr ⊢
    have h0 : (1 : Nat) % p = powMod g 0 p := by rw [powMod_eq, pow_zero]
    rw [h0] at hr ⊢
    exact sgDecodeLoop_sound g M 1024 0 (by omega)
  · cases h

end MpycV.Groups
