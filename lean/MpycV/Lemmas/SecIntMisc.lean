/-
Lemmas for C01 (area SecInt), "misc" operations of the value layer `MpycV.Model.SecInt`:
`pow` (square-and-multiply incl. the addition chain for 254), `if_else`, `if_swap`, `abs`, `sum`,
`in_prod`, `min`/`max`/`min_max` (tournaments, via `MpycV.Lemmas.SortTournament`), `matrix_prod`
(general case and the symmetric case A·Aᵀ which only computes the lower triangle).
-/
import MpycV.Model.SecInt
import MpycV.Lemmas.SortTournament
import Mathlib.Tactic.Ring
import Mathlib.Tactic.Linarith
import Mathlib.Algebra.Order.Group.Unbundled.Int

namespace MpycV.SecInt

/-! ### pow ≙ runtime.py:1298-1331 -/

/-- invariant of the loop: after `s` rounds `d = d₀^(2^s)` and `c = c₀ · d₀^(n mod 2^s)` -/
theorem powLoop_spec : ∀ (s n : Nat) (d c : Int), powLoop s n d c = (d ^ (2 ^ s), c * d ^ (n % 2 ^ s)) := by
  intro s
  induction s with
  | zero =>
    intro n d c
    simp only [powLoop, Nat.mod_one, pow_one, pow_zero, mul_one]
  | succ s ih =>
    intro n d c
    rw [powLoop, ih]
    have h1 : (d * d) ^ (2 ^ s) = d ^ (2 ^ (s + 1)) := by
      rw [Nat.pow_succ', pow_mul, pow_two]
    have h2 : n % 2 ^ (s + 1) = n % 2 + 2 * (n / 2 % 2 ^ s) := by
      rw [Nat.pow_succ', Nat.mod_mul]
    have h3 : (d * d) ^ (n / 2 % 2 ^ s) = d ^ (2 * (n / 2 % 2 ^ s)) := by
      rw [pow_mul, pow_two]
    rw [h1, h2, h3, pow_add d]
    rcases Nat.mod_two_eq_zero_or_one n with h | h
    · rw [h, if_neg (by omega), pow_zero, one_mul]
    · rw [h, if_pos rfl, pow_one, mul_assoc]

theorem pow254_eq (a : Int) : pow254 a = a ^ 254 := by
  unfold pow254
  dsimp only
  ring

/-- `pow(a, n)` for a public exponent `n ≥ 0` is `a ** n` (also for the special cases 254 and 0) -/
theorem pow_correct : ∀ (a : Int) (n : Nat), powModel a n = a ^ n := by
  intro a n
  unfold powModel
  by_cases h254 : n = 254
  · rw [if_pos h254, h254]; exact pow254_eq a
  · rw [if_neg h254]
    by_cases h0 : n = 0
    · rw [if_pos h0, h0, pow_zero]
    · rw [if_neg h0]
      dsimp only
      rw [powLoop_spec]
      dsimp only
      have hle : 2 ^ n.log2 ≤ n := Nat.log2_self_le h0
      have hlt : n < 2 ^ (n.log2 + 1) := Nat.lt_log2_self
      rw [Nat.pow_succ] at hlt
      generalize 2 ^ n.log2 = k at hle hlt
      rw [Nat.mod_eq_sub_mod hle, Nat.mod_eq_of_lt (by omega), one_mul, ← pow_add]
      congr 1
      omega

example : powModel 3 5 = 243 := by decide
example : powModel (-2) 7 = -128 := by decide
example : powModel 2 0 = 1 := by decide
example : powModel 0 0 = 1 := by decide
example : powModel (-1) 254 = 1 := by decide
example : powLoop 2 5 3 1 = (81, 3) := by decide

/-! ### selection, abs, sum, inner product -/

theorem ifElse_correct (x y : Int) : ifElse 1 x y = x ∧ ifElse 0 x y = y := by
  unfold ifElse
  constructor <;> ring

theorem ifSwap_correct (x y : Int) : ifSwap 1 x y = (y, x) ∧ ifSwap 0 x y = (x, y) := by
  unfold ifSwap
  dsimp only
  constructor
  · congr 1 <;> ring
  · congr 1 <;> ring

/-- `abs(a) = (-2*[a < 0] + 1) * a` -/
theorem abs_correct (a : Int) : absModel a (if a < 0 then 1 else 0) = |a| := by
  unfold absModel
  by_cases h : a < 0
  · rw [if_pos h, abs_of_neg h]; ring
  · rw [if_neg h, abs_of_nonneg (by omega)]; ring

theorem abs_correct_natAbs (a : Int) : absModel a (if a < 0 then 1 else 0) = (Int.natAbs a : Int) := by
  rw [abs_correct, Int.abs_eq_natAbs]

/-- `abs` agrees with the specification semantics `evalUn .abs` -/
theorem abs_eq_evalUn (a : Int) : absModel a (if a < 0 then 1 else 0) = evalUn .abs a := by
  unfold absModel evalUn
  by_cases h : a < 0
  · rw [if_pos h]; dsimp only; rw [if_pos h]; ring
  · rw [if_neg h]; dsimp only; rw [if_neg h]; ring

theorem sumI_eq (xs : List Int) : sumI xs = xs.sum := by
  induction xs with
  | nil => rfl
  | cons x xs ih => rw [sumI, ih, List.sum_cons]

theorem dot_eq : ∀ (xs ys : List Int), dot xs ys = (List.zipWith (· * ·) xs ys).sum := by
  intro xs
  induction xs with
  | nil => intro ys; rfl
  | cons x xs ih =>
    intro ys
    cases ys with
    | nil => rfl
    | cons y ys => rw [dot, ih, List.zipWith_cons_cons, List.sum_cons]

theorem dot_comm : ∀ (xs ys : List Int), dot xs ys = dot ys xs := by
  intro xs
  induction xs with
  | nil => intro ys; cases ys <;> rfl
  | cons x xs ih =>
    intro ys
    cases ys with
    | nil => rfl
    | cons y ys => rw [dot, dot, ih, Int.mul_comm]

example : ifSwap 1 3 8 = (8, 3) := by decide
example : absModel (-7) 1 = 7 := by decide
example : dot [1, 2, 3] [4, 5, 6] = 32 := by decide
example : dot [1, 2, 3] [4, 5] = 14 := by decide

/-! ### min, max, min_max ≙ runtime.py:1563-1628 -/

theorem ltOk_ltI : Sort.LtOk ltI (id : Int → Int) := by
  intro a b
  unfold ltI
  exact decide_eq_true_iff

/-- `min(x)` of a nonempty list is an element that is ≤ every element -/
theorem min_correct (xs : List Int) (hx : xs ≠ []) :
    ∃ m, minModel xs = some m ∧ m ∈ xs ∧ ∀ y ∈ xs, m ≤ y := by
  obtain ⟨m, hm⟩ := Option.isSome_iff_exists.mp (Sort.tmin_isSome ltI xs hx)
  exact ⟨m, hm, Sort.tmin_spec ltOk_ltI xs m hm⟩

theorem max_correct (xs : List Int) (hx : xs ≠ []) :
    ∃ m, maxModel xs = some m ∧ m ∈ xs ∧ ∀ y ∈ xs, y ≤ m := by
  obtain ⟨m, hm⟩ := Option.isSome_iff_exists.mp (Sort.tmax_isSome ltI xs hx)
  exact ⟨m, hm, Sort.tmax_spec ltOk_ltI xs m hm⟩

theorem minMax_correct (xs : List Int) (hx : xs ≠ []) :
    ∃ a b, minMaxModel xs = some (a, b) ∧ a ∈ xs ∧ b ∈ xs ∧ ∀ y ∈ xs, a ≤ y ∧ y ≤ b := by
  obtain ⟨⟨a, b⟩, hm⟩ := Option.isSome_iff_exists.mp (Sort.minMax_isSome ltI xs hx)
  exact ⟨a, b, hm, Sort.minMax_spec ltOk_ltI xs a b hm⟩

/-- the empty sequence: `ValueError` -/
theorem min_nil : minModel [] = none := Sort.tmin_nil ltI
theorem max_nil : maxModel [] = none := Sort.tmax_nil ltI
theorem minMax_nil : minMaxModel [] = none := Sort.minMax_nil ltI

/-- `min`/`max` are Python's `min`/`max` (= `List.min?`/`List.max?`, as used by `evalSpec`) on every list -/
theorem minModel_eq_min? (xs : List Int) : minModel xs = xs.min? := by
  cases xs with
  | nil => rw [min_nil]; rfl
  | cons x xs =>
    obtain ⟨m, hm, hmem, hle⟩ := min_correct (x :: xs) (List.cons_ne_nil _ _)
    rw [hm]
    exact (List.min?_eq_some_iff.mpr ⟨hmem, hle⟩).symm

theorem maxModel_eq_max? (xs : List Int) : maxModel xs = xs.max? := by
  cases xs with
  | nil => rw [max_nil]; rfl
  | cons x xs =>
    obtain ⟨m, hm, hmem, hle⟩ := max_correct (x :: xs) (List.cons_ne_nil _ _)
    rw [hm]
    exact (List.max?_eq_some_iff.mpr ⟨hmem, hle⟩).symm

theorem minMaxModel_eq (xs : List Int) :
    minMaxModel xs = (match xs.min?, xs.max? with | some a, some b => some (a, b) | _, _ => none) := by
  cases xs with
  | nil => rw [minMax_nil]; rfl
  | cons x xs =>
    obtain ⟨a, b, hm, ha, hb, hab⟩ := minMax_correct (x :: xs) (List.cons_ne_nil _ _)
    rw [hm, List.min?_eq_some_iff.mpr ⟨ha, fun y hy => (hab y hy).1⟩,
      List.max?_eq_some_iff.mpr ⟨hb, fun y hy => (hab y hy).2⟩]

example : minModel [3, -1, 4, -1, 5] = some (-1) := by rw [minModel_eq_min?]; decide
example : maxModel [3, -1, 4, -1, 5] = some 5 := by rw [maxModel_eq_max?]; decide
example : minMaxModel [3, -1, 4, -1, 5, 9, 2] = some (-1, 9) := by rw [minMaxModel_eq]; decide

/-! ### matrix product ≙ runtime.py:2440-2491 -/

/-- the flattened lower triangle `[f i j for i in range(n) for j in range(i+1)]` -/
def triFlat {α : Type} (f : Nat → Nat → α) (n : Nat) : List α :=
  (List.range n).flatMap (fun i => (List.range (i + 1)).map (f i))

theorem triFlat_succ {α : Type} (f : Nat → Nat → α) (n : Nat) :
    triFlat f (n + 1) = triFlat f n ++ (List.range (n + 1)).map (f n) := by
  unfold triFlat
  rw [List.range_succ, List.flatMap_append, List.flatMap_singleton, ← List.range_succ]

theorem tri_succ (n : Nat) : (n + 1) * (n + 1 + 1) / 2 = n * (n + 1) / 2 + (n + 1) := by
  have h : (n + 1) * (n + 1 + 1) = n * (n + 1) + 2 * (n + 1) := by ring
  rw [h, Nat.add_mul_div_left _ _ (by omega : 0 < 2)]

theorem tri_mono {i n : Nat} (h : i ≤ n) : i * (i + 1) / 2 ≤ n * (n + 1) / 2 :=
  Nat.div_le_div_right (Nat.mul_le_mul h (by omega))

theorem length_triFlat {α : Type} (f : Nat → Nat → α) (n : Nat) : (triFlat f n).length = n * (n + 1) / 2 := by
  induction n with
  | zero => rfl
  | succ n ih =>
    rw [triFlat_succ, List.length_append, ih, List.length_map, List.length_range, tri_succ]

/-- row `i` of the triangle starts at offset `i*(i+1)/2` -/
theorem getElem?_triFlat {α : Type} (f : Nat → Nat → α) (n i j : Nat) (hi : i < n) (hj : j ≤ i) :
    (triFlat f n)[i * (i + 1) / 2 + j]? = some (f i j) := by
  induction n with
  | zero => omega
  | succ n ih =>
    rw [triFlat_succ]
    by_cases hin : i < n
    · have hlt : i * (i + 1) / 2 + j < (triFlat f n).length := by
        rw [length_triFlat]
        have h1 := tri_mono (show i + 1 ≤ n from hin)
        rw [tri_succ] at h1
        omega
      rw [List.getElem?_append_left hlt]
      exact ih hin
    · have hin' : i = n := by omega
      subst hin'
      rw [List.getElem?_append_right (by rw [length_triFlat]; omega), length_triFlat,
        Nat.add_sub_cancel_left, List.getElem?_map, List.getElem?_range (by omega)]
      rfl

theorem matrixProdTri_eq (A : List (List Int)) :
    matrixProdTri A = triFlat (fun i j => dot (A.getD i []) (A.getD j [])) A.length := rfl

/-- the triangular array computed for A·Aᵀ holds entry `(i, j)`, `j ≤ i`, at index `i*(i+1)//2 + j` -/
theorem matrixProdTri_index (A : List (List Int)) (i j : Nat) (hi : i < A.length) (hj : j ≤ i) :
    (matrixProdTri A).getD (i * (i + 1) / 2 + j) 0 = dot (A.getD i []) (A.getD j []) := by
  rw [List.getD_eq_getElem?_getD, matrixProdTri_eq, getElem?_triFlat _ _ _ _ hi hj]
  rfl

theorem matrixProdTri_length (A : List (List Int)) :
    (matrixProdTri A).length = A.length * (A.length + 1) / 2 := by
  rw [matrixProdTri_eq, length_triFlat]

/-- reading through `triIndex` gives the full (symmetric) product for every `i, j` -/
theorem matrixProdTri_triIndex (A : List (List Int)) (i j : Nat) (hi : i < A.length) (hj : j < A.length) :
    (matrixProdTri A).getD (triIndex i j) 0 = dot (A.getD i []) (A.getD j []) := by
  unfold triIndex
  by_cases h : j < i
  · rw [if_pos h]; exact matrixProdTri_index A i j hi (by omega)
  · rw [if_neg h, dot_comm]; exact matrixProdTri_index A j i hj (by omega)

theorem getD_map_range {α : Type} (g : Nat → α) (n i : Nat) (d : α) (hi : i < n) :
    ((List.range n).map g).getD i d = g i := by
  rw [List.getD_eq_getElem?_getD, List.getElem?_map, List.getElem?_range hi]
  rfl

/-- (★) symmetric case `matrix_prod(A, A, tr=True)`: entry `(i, j)` of the result, read from the triangular
array at `i*(i+1)//2 + j` (`j < i`) resp. `j*(j+1)//2 + i`, is the full product entry `Σ_k A[i][k]·A[j][k]` -/
theorem matrixProd_symmetric_index (A : List (List Int)) (i j : Nat) (hi : i < A.length) (hj : j < A.length) :
    ((matrixProdSym A).getD i []).getD j 0 = dot (A.getD i []) (A.getD j []) := by
  unfold matrixProdSym
  dsimp only
  rw [getD_map_range _ _ _ _ hi, getD_map_range _ _ _ _ hj]
  exact matrixProdTri_triIndex A i j hi hj

/-- the symmetric computation agrees with the general one (`tr = True`, `B = A`) entry by entry -/
theorem matrixProdSym_eq_matrixProd (A : List (List Int)) : matrixProdSym A = matrixProd A A true := by
  apply List.ext_getElem?
  intro i
  unfold matrixProdSym matrixProd
  dsimp only
  rw [if_pos rfl, List.getElem?_map, List.getElem?_map]
  by_cases hi : i < A.length
  · rw [List.getElem?_range hi, List.getElem?_eq_getElem hi]
    dsimp only [Option.map_some]
    congr 1
    apply List.map_congr_left
    intro j hj
    have hj' : j < A.length := List.mem_range.mp hj
    rw [matrixProdTri_triIndex A i j hi hj', if_pos rfl]
    congr 1
    rw [List.getD_eq_getElem?_getD, List.getElem?_eq_getElem hi]
    rfl
  · rw [List.getElem?_eq_none (by rw [List.length_range]; omega), List.getElem?_eq_none (by omega)]
    rfl

/-- general case: entry `(i, j)` is the inner product of row `i` of `A` with row `j` of `B` (`tr`) resp.
column `j` of `B`; `n2 = len(B)` if `tr` else `len(B[0])` as in the code -/
theorem matrixProd_entry (A B : List (List Int)) (tr : Bool) (i j : Nat) (hi : i < A.length)
    (hj : j < (if tr then B.length else (B.headD []).length)) :
    ((matrixProd A B tr).getD i []).getD j 0 = dot (A.getD i []) (if tr then B.getD j [] else colOf B j) := by
  unfold matrixProd
  dsimp only
  rw [List.getD_eq_getElem?_getD (l := List.map _ A), List.getElem?_map, List.getElem?_eq_getElem hi]
  dsimp only [Option.map_some, Option.getD_some]
  rw [getD_map_range _ _ _ _ hj, List.getD_eq_getElem?_getD (l := A), List.getElem?_eq_getElem hi]
  rfl

theorem matrixProd_shape (A B : List (List Int)) (tr : Bool) :
    (matrixProd A B tr).length = A.length ∧
    ∀ r ∈ matrixProd A B tr, r.length = (if tr then B.length else (B.headD []).length) := by
  unfold matrixProd
  dsimp only
  refine ⟨List.length_map _, ?_⟩
  intro r hr
  obtain ⟨row, _, rfl⟩ := List.mem_map.mp hr
  rw [List.length_map, List.length_range]

example : matrixProdSym [[1,2],[3,4],[5,6]] = [[5,11,17],[11,25,39],[17,39,61]] := by decide
example : matrixProdTri [[1,2],[3,4],[5,6]] = [5, 11, 25, 17, 39, 61] := by decide
example : matrixProd [[1,2],[3,4]] [[5,6,7],[8,9,10]] false = [[21,24,27],[47,54,61]] := by decide
example : matrixProd [[1,2],[3,4]] [[5,6],[7,8],[9,10]] true = [[17,23,29],[39,53,67]] := by decide
example : triIndex 2 1 = 4 ∧ triIndex 1 2 = 4 ∧ triIndex 2 2 = 5 := by decide

end MpycV.SecInt
