/-
Degree bound for `invert` (≙ gfpx.py `_invert`): the returned inverse is the REDUCED representative,
`deg (invert a b) < deg b`.  (Used by the extension-field model: `1/x` needs no further reduction.)
-/
import MpycV.Lemmas.GFpXGcd

open Polynomial

namespace MpycV.GFpX

variable {p : ℕ}

theorem length_eq_natDegree_succ {a : Poly} (ha : WF p a) (hne : a ≠ []) :
    a.length = (toPoly p a).natDegree + 1 := by
  have := List.length_pos_of_ne_nil hne
  rw [natDegree_toPoly ha hne]; omega

/-- the quotient of `_divmod` has `len a - len b + 1` coefficients -/
theorem length_divmodCore_fst [Fact p.Prime] {a b : Poly} (ha : WF p a) (hb : WF p b) (hbne : b ≠ [])
    (hle : b.length ≤ a.length) : (divmodCore p a b).1.length = a.length - b.length + 1 := by
  unfold divmodCore
  rw [if_neg (by omega)]
  obtain ⟨_, _, _, _, g5⟩ := divmodLoop_spec hb hbne (lc_inv_cast hb hbne)
    (a.length - b.length + 1) [] a ha (by omega) reduced_nil
  simpa using g5

/-- subtracting a shorter polynomial does not change the length -/
theorem length_sub_of_lt [Fact p.Prime] {s m : Poly} (hs : WF p s) (hm : WF p m)
    (hlt : s.length < m.length) : (sub p s m).length = m.length := by
  have hp := (Fact.out : p.Prime).pos
  have hmne : m ≠ [] := by rintro rfl; simp at hlt
  have hw := wf_sub hp hs.1 hm.1
  have hdeg : (toPoly p s).degree < (toPoly p m).degree := by
    rw [degree_toPoly hm hmne]
    refine lt_of_lt_of_le (degree_toPoly_lt s) ?_
    have : s.length ≤ m.length - 1 := by omega
    exact_mod_cast this
  have hd : (toPoly p (sub p s m)).degree = (toPoly p m).degree := by
    rw [toPoly_sub _ hm.1]; exact degree_sub_eq_right_of_degree_lt hdeg
  have hne : sub p s m ≠ [] := by
    intro h0
    rw [h0, toPoly_nil, degree_zero, degree_toPoly hm hmne] at hd
    exact WithBot.bot_ne_coe hd
  have hnd : (toPoly p (sub p s m)).natDegree = (toPoly p m).natDegree := natDegree_eq_of_degree_eq hd
  rw [length_eq_natDegree_succ hw hne, length_eq_natDegree_succ hm hmne, hnd]

/-- invariant of the `_invert` loop from its second state on (`n` = length of the original modulus):
`len s1 + len a = n + 1`, `len s + len a ≤ n` -/
theorem invertLoop_length [Fact p.Prime] (n : ℕ) :
    ∀ (f : ℕ) (a b s s1 : Poly), WF p a → WF p b → WF p s → WF p s1 → b.length < f →
      b.length < a.length → s1 ≠ [] → s1.length + a.length = n + 1 → s.length + a.length ≤ n →
      (invertLoop p f a b s s1).2.length + (invertLoop p f a b s s1).1.length ≤ n ∧
        (invertLoop p f a b s s1).1 ≠ [] := by
  have hp := (Fact.out : p.Prime).pos
  intro f
  induction f with
  | zero => intro a b s s1 _ _ _ _ h; omega
  | succ f ih =>
    intro a b s s1 ha hb hs hs1 hf hba hs1ne e1 e2
    rw [invertLoop]
    split
    · rename_i hb0
      refine ⟨e2, ?_⟩
      rintro rfl
      simp at hba
    · rename_i hbne
      obtain ⟨_, _, wq, wr, lr⟩ := divmodCore_spec ha hb hbne
      have lq := length_divmodCore_fst ha hb hbne (by omega)
      have hqne : (divmodCore p a b).1 ≠ [] := by
        intro h0; rw [h0] at lq; simp at lq
      have wm := wf_mul wq hs1
      have lm := length_mul (p := p) hqne hs1ne
      have lsub := length_sub_of_lt hs wm (by omega)
      have hbpos := List.length_pos_of_ne_nil hbne
      simp only
      apply ih b (divmodCore p a b).2 s1 _ hb wr hs1 (wf_sub hp hs.1 wm.1) (by omega) lr
      · intro h0; rw [h0] at lsub; simp at lsub; omega
      · omega
      · omega

/-- **the inverse returned by `invert` is reduced**: fewer coefficients than the modulus -/
theorem invert_length_lt [Fact p.Prime] {a b s : Poly} (ha : WF p a) (hb : WF p b)
    (h : invert p a b = .ok s) : s.length < b.length := by
  have hp := (Fact.out : p.Prime).pos
  unfold invert at h
  split at h
  · simp at h
  · rename_i hbne
    have hbpos := List.length_pos_of_ne_nil hbne
    -- first loop pass by hand: state (b, r, [], [1])
    have hstep : invertLoop p (b.length + 1) a b [1] [] =
        invertLoop p b.length b (divmodCore p a b).2 [] [1] := by
      rw [invertLoop, if_neg hbne]
      simp [mul_nil_right, sub, zipSub, norm]
    obtain ⟨_, _, _, wr, lr⟩ := divmodCore_spec ha hb hbne
    obtain ⟨hl, hne⟩ := invertLoop_length (p := p) b.length b.length b (divmodCore p a b).2 [] [1]
      hb wr wf_nil ⟨by simp [Reduced, (Fact.out : p.Prime).one_lt], by simp [Normalised]⟩ lr lr (by simp) (by simp; omega) (by simp)
    rw [hstep] at h
    simp only at h
    have hpos := List.length_pos_of_ne_nil hne
    split at h
    · simp only [Except.ok.injEq] at h
      rw [← h, length_scale]
      omega
    · simp at h

end MpycV.GFpX
