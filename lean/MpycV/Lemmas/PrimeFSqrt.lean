/-
Square roots and quadratic residuosity in prime fields:
  * the `jacobi`/`legendre` stub of gmpy.py computes Mathlib's Jacobi/Legendre symbol (`jacobi_eq`, `legendre_eq`)
  * `isSqr` decides `IsSquare` in `ZMod p`
  * p ≡ 3 (mod 4): `a^((p+1)/4)` is a square root of every square, `a^((3p-5)/4)` its inverse (Euler)
-/
import Mathlib.NumberTheory.LegendreSymbol.JacobiSymbol
import MpycV.Lemmas.PrimeF

namespace MpycV.PrimeF
open NumberTheorySymbols jacobiSym

/-- sign contributed by `t` factors of two in the numerator, denominator `b` -/
def twoSign (t b : Nat) : Int := if t % 2 = 1 ∧ (b % 8 = 3 ∨ b % 8 = 5) then -1 else 1

theorem tzF_spec (b : Nat) (hb : b % 2 = 1) : ∀ (f y : Nat), y ≤ f → y ≠ 0 →
    J((y : Int) | b) = twoSign (tzF f y) b * J(((y >>> tzF f y : Nat) : Int) | b) ∧
    (y >>> tzF f y) % 2 = 1 := by
  intro f
  induction f with
  | zero => intro y h1 h2; omega
  | succ f ih =>
    intro y hy hy0
    rw [tzF]
    rw [if_neg hy0]
    split
    · rename_i hodd
      simp [twoSign, hodd]
    · rename_i heven
      have he : y % 2 = 0 := by omega
      obtain ⟨ih1, ih2⟩ := ih (y / 2) (by omega) (by omega)
      have hshift : y >>> (tzF f (y / 2) + 1) = (y / 2) >>> tzF f (y / 2) := by
        rw [Nat.shiftRight_eq_div_pow, Nat.shiftRight_eq_div_pow, pow_succ, mul_comm, Nat.div_div_eq_div_mul]
      rw [hshift]
      refine ⟨?_, ih2⟩
      have hev := even_odd (a := (y : Int)) (b := b) (by omega) hb
      have hdiv : (y : Int) / 2 = ((y / 2 : Nat) : Int) := by omega
      rw [hdiv] at hev
      rw [← hev, ih1]
      unfold twoSign
      split_ifs <;> omega

theorem jacobiLoopF_spec : ∀ (f : Nat) (x : Int) (y : Nat) (j : Int), y < f → y % 2 = 1 →
    jacobiLoopF f x y j = j * J(x | y) := by
  intro f
  induction f with
  | zero => intro x y j h; omega
  | succ f ih =>
    intro x y j hf hy
    have hy0 : y ≠ 0 := by omega
    have hypos : 0 < y := by omega
    rw [jacobiLoopF, if_neg hy0]
    have hmod : J(x | y) = J(((pmod x y : Nat) : Int) | y) := by
      rw [pmod_coe y hypos]; exact jacobiSym.mod_left x y
    have hlt : pmod x y < y := pmod_lt hypos x
    simp only
    split
    · rename_i h0
      rw [hmod, h0]
      split
      · rename_i h1; rw [h1]; simp [jacobiSym.one_right]
      · rename_i h1
        have : 1 < y := by omega
        simp [jacobiSym.zero_left this]
    · rename_i h0
      obtain ⟨s1, s2⟩ := tzF_spec y hy (pmod x y) (pmod x y) (Nat.le_refl _) h0
      rw [show tzF (pmod x y) (pmod x y) = tz (pmod x y) from rfl] at s1 s2
      have hle : pmod x y >>> tz (pmod x y) ≤ pmod x y := by
        rw [Nat.shiftRight_eq_div_pow]; exact Nat.div_le_self _ _
      have hqr := quadratic_reciprocity_if (a := pmod x y >>> tz (pmod x y)) (b := y) s2 hy
      rw [ih _ _ _ (by omega) s2, hmod, s1]
      change _ = j * (twoSign (tz (pmod x y)) y * J(((pmod x y >>> tz (pmod x y) : Nat) : Int) | y))
      rw [← hqr]
      unfold twoSign
      have hm4 : (pmod x y >>> tz (pmod x y)) % 4 = 1 ∨ (pmod x y >>> tz (pmod x y)) % 4 = 3 := by
        omega
      have hy4 : y % 4 = 1 ∨ y % 4 = 3 := by omega
      split_ifs <;> first | omega | ring

theorem jacobi_eq (x : Int) (y : Nat) (hy : y % 2 = 1) : jacobi x y = .ok J(x | y) := by
  unfold jacobi jacobiLoop
  rw [if_neg (by omega), jacobiLoopF_spec _ _ _ _ (Nat.lt_succ_self y) hy, one_mul]

theorem legendre_eq (p : Nat) [Fact p.Prime] (hp2 : p ≠ 2) (x : Int) : legendre x p = .ok (legendreSym p x) := by
  have hodd : p % 2 = 1 := (Nat.Prime.eq_two_or_odd Fact.out).resolve_left hp2
  rw [legendre, jacobi_eq x p hodd, legendreSym.to_jacobiSym]


/-! ### `is_sqr` -/

theorem zmod_two_isSquare : ∀ z : ZMod 2, IsSquare z := by decide

theorem isSqr_eq (p : Nat) [Fact p.Prime] (a : Nat) : isSqr p a = .ok (decide (IsSquare (a : ZMod p))) := by
  unfold isSqr
  split
  · rename_i h2; subst h2
    congr 1
    simp [zmod_two_isSquare]
  · rename_i h2
    rw [legendre_eq p h2]
    simp only [Except.map, Except.ok.injEq]
    have := legendreSym.eq_neg_one_iff p (a := (a : Int))
    simp only [Int.cast_natCast] at this
    by_cases hs : IsSquare (a : ZMod p)
    · have h1 : legendreSym p a ≠ -1 := fun h => (this.mp h) hs
      simp [hs, h1]
    · have h1 : legendreSym p a = -1 := this.mpr hs
      simp [hs, h1]

/-! ### square roots for p ≡ 3 (mod 4) -/

theorem sqrt_zero (p : Nat) : sqrt p 0 false = .ok (mk p 0) ∧ sqrt p 0 true = .error .zeroDivision := by
  constructor <;> rfl

theorem sqrt_blum_val (p a : Nat) (hp3 : p % 4 = 3) (ha : a ≠ 0) (inv : Bool) :
    sqrt p a inv = .ok (mk p (powModNat a (if inv then (p * 3 - 5) >>> 2 else (p + 1) >>> 2) p : Nat)) := by
  have hp2 : p ≠ 2 := by omega
  unfold sqrt sqrtRaw
  rw [if_neg ha, if_neg hp2, if_pos hp3]
  have key : ∀ n : Nat, powmod a (n : Int) p = .ok (powModNat a n p) := by
    intro n; unfold powmod; rw [if_pos (Int.natCast_nonneg n), Int.toNat_natCast]
  simp only [key]
  rfl

section blum
variable {p : Nat} [hpf : Fact p.Prime]

theorem blum_root_sq (hp3 : p % 4 = 3) (z : ZMod p) (hz : z ≠ 0) (hs : IsSquare z) :
    (z ^ ((p + 1) >>> 2)) ^ 2 = z := by
  have he := (ZMod.euler_criterion p hz).mp hs
  have h1 : ((p + 1) >>> 2) * 2 = p / 2 + 1 := by
    rw [Nat.shiftRight_eq_div_pow]; omega
  rw [← pow_mul, h1, pow_succ, he, one_mul]

theorem blum_inv_root (hp3 : p % 4 = 3) (z : ZMod p) (hz : z ≠ 0) :
    z ^ ((p * 3 - 5) >>> 2) * z ^ ((p + 1) >>> 2) = 1 := by
  have h1 : (p * 3 - 5) >>> 2 + (p + 1) >>> 2 = p - 1 := by
    rw [Nat.shiftRight_eq_div_pow, Nat.shiftRight_eq_div_pow]; omega
  rw [← pow_add, h1, ZMod.pow_card_sub_one_eq_one hz]

end blum

end MpycV.PrimeF
