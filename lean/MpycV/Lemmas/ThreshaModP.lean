/-
The executable prime field `modP p` (canonical representatives 0..p-1) is a homomorphic image of `ZMod p`:
`Nat.cast : ℕ → ZMod p` is an `IsHom`, all results are canonical, so the field-level theorems hold for the
executable model literally.
-/
import MpycV.Lemmas.ThreshaHom
import MpycV.Lemmas.ThreshaUniform

open Polynomial

namespace MpycV.Thresha

/-! ### powMod -/

theorem powMod_eq (a e p : ℕ) : powMod a e p = a ^ e % p := by
  induction e using Nat.strong_induction_on with
  | _ e ih =>
    rw [powMod]
    by_cases h : e = 0
    · simp [h]
    · simp only [h, ↓reduceDIte]
      rw [ih (e / 2) (by omega)]
      have he : e = 2 * (e / 2) + e % 2 := by omega
      by_cases h2 : e % 2 = 1
      · simp only [h2, ↓reduceIte]
        conv_rhs => rw [he, h2, pow_succ, two_mul, pow_add]
        simp [Nat.mul_mod]
      · simp only [h2, ↓reduceIte]
        have h0 : e % 2 = 0 := by omega
        conv_rhs => rw [he, h0, add_zero, two_mul, pow_add]
        simp [Nat.mul_mod]

/-! ### the homomorphism -/

variable (p : ℕ) [hp : Fact p.Prime]

theorem modP_isHom : IsHom (modP p) (Nat.cast : ℕ → ZMod p) where
  zero := by simp [modP]
  one := by simp [modP, ZMod.natCast_mod]
  add a b := by simp [modP, ZMod.natCast_mod]
  neg a := by
    have hle : a % p ≤ p := (Nat.mod_lt a hp.out.pos).le
    simp [modP, ZMod.natCast_mod, Nat.cast_sub hle]
  mul a b := by simp [modP, ZMod.natCast_mod]
  inv a := by
    simp only [modP]
    by_cases h0 : a % p = 0
    · have : (a : ZMod p) = 0 := (ZMod.natCast_eq_zero_iff a p).2 (Nat.dvd_of_mod_eq_zero h0)
      simp [h0, this]
    · have hne : (a : ZMod p) ≠ 0 := by
        intro h
        exact h0 (Nat.mod_eq_zero_of_dvd ((ZMod.natCast_eq_zero_iff a p).1 h))
      simp only [h0, ↓reduceIte, powMod_eq, ZMod.natCast_mod, Nat.cast_pow]
      have h2 : 2 ≤ p := hp.out.two_le
      apply eq_inv_of_mul_eq_one_left
      rw [← pow_succ, show p - 2 + 1 = p - 1 by omega]
      exact ZMod.pow_card_sub_one_eq_one hne

/-- the embedding of party numbers induced on `ZMod p` -/
def embP (n : ℕ) : ZMod p := ((n % p : ℕ) : ZMod p)

lemma imageOps_modP : imageOps (modP p) (Nat.cast : ℕ → ZMod p) = fieldOps (ZMod p) (embP p) := rfl

lemma embP_zero : embP p 0 = 0 := by simp [embP]

lemma embP_injOn {m : ℕ} (hm : m < p) : Set.InjOn (embP p) (Set.Iic m) := by
  intro a ha b hb h
  simp only [Set.mem_Iic] at ha hb
  simp only [embP, ZMod.natCast_mod] at h
  have := (ZMod.natCast_eq_natCast_iff' a b p).1 h
  rwa [Nat.mod_eq_of_lt (by omega), Nat.mod_eq_of_lt (by omega)] at this

/-! ### canonical representatives -/

lemma cast_inj_of_lt {a b : ℕ} (ha : a < p) (hb : b < p) (h : (a : ZMod p) = b) : a = b := by
  have := (ZMod.natCast_eq_natCast_iff' a b p).1 h
  rwa [Nat.mod_eq_of_lt ha, Nat.mod_eq_of_lt hb] at this

lemma map_cast_inj : ∀ {a b : List ℕ}, (∀ x ∈ a, x < p) → (∀ x ∈ b, x < p) →
    a.map (Nat.cast : ℕ → ZMod p) = b.map Nat.cast → a = b
  | [], [], _, _, _ => rfl
  | [], _ :: _, _, _, h => by simp at h
  | _ :: _, [], _, _, h => by simp at h
  | x :: a, y :: b, ha, hb, h => by
    simp only [List.map_cons, List.cons.injEq] at h
    rw [cast_inj_of_lt p (ha x (by simp)) (hb y (by simp)) h.1,
      map_cast_inj (fun z hz => ha z (List.mem_cons_of_mem _ hz))
        (fun z hz => hb z (List.mem_cons_of_mem _ hz)) h.2]

omit hp in
lemma dot_modP_lt (hp0 : 0 < p) (a b : List ℕ) : dot (modP p) a b < p := by
  unfold dot
  have : ∀ (L : List (ℕ × ℕ)) (acc : ℕ), acc < p →
      L.foldl (fun acc (xy : ℕ × ℕ) => (modP p).add acc ((modP p).mul xy.1 xy.2)) acc < p := by
    intro L
    induction L with
    | nil => intro acc h; exact h
    | cons x L ih => intro acc _; exact ih _ (Nat.mod_lt _ hp0)
  exact this _ _ hp0

omit hp in
lemma recombine_modP_lt (hp0 : 0 < p) (xs : List ℕ) (shares : List (List ℕ)) (xrs : List ℕ) :
    ∀ row ∈ recombine (modP p) xs shares xrs, ∀ x ∈ row, x < p := by
  intro row hrow x hx
  unfold recombine at hrow
  obtain ⟨xr, _, rfl⟩ := List.mem_map.1 hrow
  obtain ⟨k, _, rfl⟩ := List.mem_map.1 hx
  exact dot_modP_lt p hp0 _ _

omit hp in
lemma recombine1_modP_lt (hp0 : 0 < p) (xs : List ℕ) (shares : List (List ℕ)) (xr : ℕ) :
    ∀ x ∈ recombine1 (modP p) xs shares xr, x < p := by
  intro x hx
  unfold recombine1 at hx
  cases hr : recombine (modP p) xs shares [xr] with
  | nil => simp [hr] at hx
  | cons row rest =>
    rw [hr] at hx
    exact recombine_modP_lt p hp0 xs shares [xr] row (by simp [hr]) x (by simpa using hx)

omit hp in
lemma shareAt_modP_lt (hp0 : 0 < p) (s : ℕ) (c : List ℕ) (i1 : ℕ) : shareAt (modP p) s c i1 < p :=
  Nat.mod_lt _ hp0

/-! ### the theorems for the executable prime field -/

lemma getD_map_nil {α β : Type} (f : α → β) (L : List (List α)) (i : ℕ) :
    (L.getD i []).map f = (L.map (List.map f)).getD i [] := by
  simp only [List.getD_eq_getElem?_getD, List.getElem?_map]
  cases L[i]? <;> simp

/-- ★ `recombine_split` for the executable model over GF(p): for a prime `p`, `m < p` parties, canonical
secrets, ANY coefficients, any `t` and any list of more than `t` distinct parties, recombination at 0 of the
model's shares returns the secrets. -/
theorem recombine_randomSplit_modP {m : ℕ} (hm : m < p) (s coeffs : List ℕ) (hs : ∀ x ∈ s, x < p)
    (t : ℕ) {ps : List ℕ} (hps : ps.Nodup) (hpm : ∀ i ∈ ps, i < m) (ht : t < ps.length) :
    recombine1 (modP p) (ps.map fun i => (modP p).ofNat (i + 1))
        (ps.map fun i => (randomSplit (modP p) s coeffs t m).getD i []) ((modP p).ofNat 0) = s := by
  apply map_cast_inj p (recombine1_modP_lt p hp.out.pos _ _ _) hs
  rw [map_recombine1 (modP_isHom p), imageOps_modP, List.map_map, List.map_map]
  have h1 : (ps.map ((Nat.cast : ℕ → ZMod p) ∘ fun i => (modP p).ofNat (i + 1)))
      = ps.map fun i => embP p (i + 1) := rfl
  have h2 : (ps.map (List.map (Nat.cast : ℕ → ZMod p) ∘ fun i =>
        (randomSplit (modP p) s coeffs t m).getD i []))
      = ps.map fun i => (randomSplit (fieldOps (ZMod p) (embP p)) (s.map Nat.cast)
          (coeffs.map Nat.cast) t m).getD i [] := by
    apply List.map_congr_left
    intro i _
    simp only [Function.comp]
    rw [getD_map_nil, map_randomSplit (modP_isHom p), imageOps_modP]
  rw [h1, h2]
  exact recombine_randomSplit_zero (embP p) (embP_zero p) (embP_injOn p hm) _ _ t hps hpm ht

/-- recombination at an arbitrary point `x_r`: the value of the sharing polynomial over `ZMod p` -/
theorem recombine_randomSplit_modP_at {m : ℕ} (hm : m < p) (s coeffs : List ℕ) (t : ℕ) {ps : List ℕ}
    (hps : ps.Nodup) (hpm : ∀ i ∈ ps, i < m) (ht : t < ps.length) (xrs : List ℕ) :
    (recombine (modP p) (ps.map fun i => (modP p).ofNat (i + 1))
        (ps.map fun i => (randomSplit (modP p) s coeffs t m).getD i [])
        (xrs.map (modP p).ofNat)).map (List.map (Nat.cast : ℕ → ZMod p))
      = xrs.map fun (xr : ℕ) => (List.range s.length).map fun h =>
          (sharePoly (((s.getD h 0 : ℕ) : ZMod p)) (coeffsFor (coeffs.map Nat.cast) t h)).eval
            (xr : ZMod p) := by
  rw [map_recombine (modP_isHom p), imageOps_modP, List.map_map, List.map_map, List.map_map]
  have h1 : (ps.map ((Nat.cast : ℕ → ZMod p) ∘ fun i => (modP p).ofNat (i + 1)))
      = ps.map fun i => embP p (i + 1) := rfl
  have h2 : (ps.map (List.map (Nat.cast : ℕ → ZMod p) ∘ fun i =>
        (randomSplit (modP p) s coeffs t m).getD i []))
      = ps.map fun i => (randomSplit (fieldOps (ZMod p) (embP p)) (s.map Nat.cast)
          (coeffs.map Nat.cast) t m).getD i [] := by
    apply List.map_congr_left
    intro i _
    simp only [Function.comp]
    rw [getD_map_nil, map_randomSplit (modP_isHom p), imageOps_modP]
  rw [h1, h2, recombine_randomSplit (embP p) (embP_injOn p hm) _ _ t hps hpm ht, List.map_map]
  apply List.map_congr_left
  intro xr _
  simp only [Function.comp, List.length_map]
  apply List.map_congr_left
  intro h _
  have e1 : (List.map (Nat.cast : ℕ → ZMod p) s).getD h 0 = ((s.getD h 0 : ℕ) : ZMod p) := by
    simp only [List.getD_eq_getElem?_getD, List.getElem?_map]
    cases s[h]? <;> simp
  have e2 : ((modP p).ofNat xr : ZMod p) = (xr : ZMod p) := by simp [modP, ZMod.natCast_mod]
  rw [e1, e2]

/-- PRSS for the executable model over GF(p): the share computed by party `i` is (the canonical
representative of) the value at `i+1` of the common polynomial `prssPoly` over `ZMod p`. -/
theorem prssShare_modP {m : ℕ} (hm : m < p) (all : List (List ℕ × List ℕ)) (n : ℕ) {i : ℕ}
    (hi : i < m) :
    (prssShare (modP p) m i (prfsOf i all) n).map (Nat.cast : ℕ → ZMod p)
      = (List.range n).map fun h =>
          (prssPoly (embP p) m (mapPrfs Nat.cast all) h).eval (embP p (i + 1)) := by
  rw [map_prssShare (modP_isHom p), imageOps_modP]
  have : mapPrfs (Nat.cast : ℕ → ZMod p) (prfsOf i all) = prfsOf i (mapPrfs Nat.cast all) := by
    simp [mapPrfs, prfsOf, List.filter_map, Function.comp_def]
  rw [this]
  exact prssShare_eq_eval (embP_injOn p hm) _ n hi

theorem prssZero_modP {m : ℕ} (hm : m < p) (all : List (List ℕ × List ℕ)) (n : ℕ) {i : ℕ}
    (hi : i < m) :
    (prssZero (modP p) m i (prfsOf i all) n).map (Nat.cast : ℕ → ZMod p)
      = (List.range n).map fun h =>
          (prssZeroPoly (embP p) m (mapPrfs Nat.cast all) h).eval (embP p (i + 1)) := by
  rw [map_prssZero (modP_isHom p), imageOps_modP]
  have : mapPrfs (Nat.cast : ℕ → ZMod p) (prfsOf i all) = prfsOf i (mapPrfs Nat.cast all) := by
    simp [mapPrfs, prfsOf, List.filter_map, Function.comp_def]
  rw [this]
  exact prssZero_eq_eval (embP_injOn p hm) _ n hi

/-- the executable model's share of a secret, on canonical representatives, is the `ZMod p` share -/
theorem shareAt_modP_val (s : ZMod p) (c : List (ZMod p)) (i1 : ℕ) :
    shareAt (modP p) s.val (c.map ZMod.val) i1
      = (shareAt (fieldOps (ZMod p) (embP p)) s c i1).val := by
  have : NeZero p := ⟨hp.out.ne_zero⟩
  have h := map_shareAt (modP_isHom p) s.val (c.map ZMod.val) i1
  rw [imageOps_modP, List.map_map] at h
  have hc : c.map ((Nat.cast : ℕ → ZMod p) ∘ ZMod.val) = c := by
    conv_rhs => rw [← List.map_id c]
    apply List.map_congr_left
    intro x _
    simp
  rw [hc, ZMod.natCast_zmod_val] at h
  rw [← h, ZMod.val_natCast_of_lt (shareAt_modP_lt p hp.out.pos _ _ _)]

/-- C13 for the executable model over GF(p): coalition `A` with `|A| ≤ t < m < p`: the number of
coefficient vectors (canonical representatives) that explain a view is `p^(t-|A|)`. -/
theorem coalition_view_card_modP {m : ℕ} (hm : m < p) (t : ℕ) (htm : t < m) (A : Finset ℕ)
    (hA : ∀ i ∈ A, i < m) (hAt : A.card ≤ t) (s : ZMod p) (y : ℕ → ZMod p) :
    Nat.card {c : Fin t → ZMod p // ∀ i ∈ A,
        shareAt (modP p) s.val (List.ofFn fun k => (c k).val) (i + 1) = (y i).val}
      = p ^ (t - A.card) := by
  have : NeZero p := ⟨hp.out.ne_zero⟩
  have key := coalition_view_card (embP p) (embP_zero p) (embP_injOn p hm) t htm A hA hAt s y
  rw [ZMod.card] at key
  rw [← key]
  apply Nat.card_congr
  apply Equiv.subtypeEquivRight
  intro c
  have hof : (List.ofFn fun k => (c k).val) = (List.ofFn c).map ZMod.val := by
    simp [List.map_ofFn, Function.comp_def]
  constructor
  · intro h i hi
    have := h i hi
    rw [hof, shareAt_modP_val] at this
    exact ZMod.val_injective p this
  · intro h i hi
    rw [hof, shareAt_modP_val, h i hi]

end MpycV.Thresha
