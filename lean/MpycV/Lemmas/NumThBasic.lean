/-
Basic lemmas for the NumTh model: `powMod`, `tz`, `bitLength`.
-/
import MpycV.Model.NumTh
import Mathlib.Tactic.Ring
import Mathlib.Tactic.Linarith
import Mathlib.Algebra.Order.Ring.Nat
import Mathlib.Data.Nat.Log

namespace MpycV.NumTh

/-! ### powMod -/

theorem powMod_eq (a e m : Nat) : powMod a e m = a ^ e % m := by
  induction e using Nat.strong_induction_on with
  | _ e ih =>
    rw [powMod]
    split
    · next h => subst h; simp
    · next h =>
      have hlt : e / 2 < e := by omega
      have ih' := ih (e / 2) hlt
      simp only [ih']
      have hsq : a ^ (e / 2) % m * (a ^ (e / 2) % m) % m = a ^ (2 * (e / 2)) % m := by
        rw [← Nat.mul_mod, two_mul, pow_add]
      split
      · next ho =>
        rw [hsq, Nat.mod_mul_mod, ← pow_succ]
        congr 2
        omega
      · next he =>
        rw [hsq]
        congr 2
        omega

/-! ### tz: trailing zeros -/

theorem two_pow_tz_dvd (n : Nat) : 2 ^ tz n ∣ n := by
  induction n using Nat.strong_induction_on with
  | _ n ih =>
    rw [tz]
    split
    · simp
    · next h =>
      split
      · simp
      · next h2 =>
        have := ih (n / 2) (by omega)
        rw [pow_succ]
        have h3 : n = n / 2 * 2 := by omega
        rw [h3]
        simp only [Nat.mul_div_cancel _ (by decide : 0 < 2)]
        exact Nat.mul_dvd_mul_right this 2

theorem div_two_pow_tz_odd (n : Nat) (hn : n ≠ 0) : (n / 2 ^ tz n) % 2 = 1 := by
  induction n using Nat.strong_induction_on with
  | _ n ih =>
    rw [tz]
    split
    · contradiction
    · next h =>
      split
      · next h1 => simpa using h1
      · next h2 =>
        have := ih (n / 2) (by omega) (by omega)
        rw [pow_succ, mul_comm, ← Nat.div_div_eq_div_mul]
        exact this

theorem tz_mul_oddPart (n : Nat) : 2 ^ tz n * (n / 2 ^ tz n) = n :=
  Nat.mul_div_cancel' (two_pow_tz_dvd n)

theorem tz_odd (n : Nat) (h : n % 2 = 1) : tz n = 0 := by
  rw [tz]; split
  · rfl
  · simp

theorem tz_pos_of_even (n : Nat) (hn : n ≠ 0) (h : n % 2 = 0) : 0 < tz n := by
  rw [tz]; split
  · contradiction
  · split
    · omega
    · omega

/-! ### bitLength -/

theorem bitLength_natCast (n : Nat) (hn : n ≠ 0) : bitLength (n : Int) = Nat.log2 n + 1 := by
  simp [bitLength, hn]

theorem bitLength_zero : bitLength 0 = 0 := by simp [bitLength]

/-- 2^(bl-1) ≤ n < 2^bl for n > 0 -/
theorem bitLength_spec (n : Nat) (hn : n ≠ 0) :
    2 ^ (bitLength (n : Int) - 1) ≤ n ∧ n < 2 ^ bitLength (n : Int) := by
  rw [bitLength_natCast n hn]
  constructor
  · simpa using Nat.log2_self_le hn
  · exact Nat.lt_log2_self

theorem bitLength_pos (n : Nat) (hn : n ≠ 0) : 0 < bitLength (n : Int) := by
  rw [bitLength_natCast n hn]; omega

end MpycV.NumTh
