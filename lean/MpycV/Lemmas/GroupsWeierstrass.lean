import MpycV.Model.Groups
import MpycV.Lemmas.GroupsCurves
import Mathlib.AlgebraicGeometry.EllipticCurve.Affine.Point

/-! The affine Weierstrass formulas of `fingroups.WeierstrassAffine` are Mathlib's group law on the
nonsingular points of the short Weierstrass curve y² = x³ + a x + b (characteristic ≠ 2). -/
namespace MpycV.Groups

open WeierstrassCurve.Affine

variable {K : Type} [Field K] [DecidableEq K]
set_option linter.unusedSectionVars false

/-- the short Weierstrass curve y² = x³ + a x + b -/
def shortW (a b : K) : WeierstrassCurve.Affine K := ⟨0, 0, 0, a, b⟩

/-- a Mathlib point as the tuple representation of the code (`()` ↦ none) -/
def toModel {a b : K} : (shortW a b).Point → WAff K
  | .zero => none
  | .some x y _ => some (x, y)

theorem toModel_injective {a b : K} : Function.Injective (toModel (a := a) (b := b)) := by
  intro P Q h
  cases P <;> cases Q <;> simp_all [toModel]

theorem toModel_zero {a b : K} : toModel (0 : (shortW a b).Point) = none := rfl

theorem toModel_neg {a b : K} (P : (shortW a b).Point) :
    toModel (-P) = waNeg (Fld.ofField K) (toModel P) := by
  cases P with
  | zero => rfl
  | some x y h =>
    rw [Point.neg_some]
    simp [toModel, waNeg, shortW]

theorem toModel_add {a b : K} (h2 : (2 : K) ≠ 0) (P Q : (shortW a b).Point) :
    toModel (P + Q) = waAdd (Fld.ofField K) a (toModel P) (toModel Q) := by
  cases P with
  | zero =>
    rw [show (Point.zero : (shortW a b).Point) = 0 from rfl, zero_add]
    cases Q <;> rfl
  | some x1 y1 h1 =>
    cases Q with
    | zero =>
      rw [show (Point.zero : (shortW a b).Point) = 0 from rfl, add_zero]
      rfl
    | some x2 y2 hq =>
      have hneg : ∀ x y : K, (shortW a b).negY x y = -y := by intro x y; simp [shortW]
      by_cases hxy : x1 = x2 ∧ y1 = (shortW a b).negY x2 y2
      · obtain ⟨hx, hy⟩ := hxy
        rw [Point.add_of_Y_eq hx hy]
        rw [hneg] at hy
        subst hx
        show none = waAdd (Fld.ofField K) a (some (x1, y1)) (some (x1, y2))
        by_cases hyy : y1 = y2
        · subst hyy
          have hy0 : y1 = 0 := by
            have : (2 : K) * y1 = 0 := by linear_combination hy
            rcases mul_eq_zero.1 this with h | h
            · exact absurd h h2
            · exact h
          subst hy0
          rw [waAdd_same, waDbl_two_torsion]
        · rw [waAdd_opposite a x1 y1 y2 hyy]
      · rw [Point.add_some hxy]
        show some (_, _) = waAdd (Fld.ofField K) a (some (x1, y1)) (some (x2, y2))
        by_cases hx : x1 = x2
        · subst hx
          have hyne : y1 ≠ (shortW a b).negY x1 y2 := fun e => hxy ⟨rfl, e⟩
          have hyy : y1 = y2 := by
            rcases Y_eq_of_X_eq h1.1 hq.1 rfl with e | e
            · exact e
            · exact absurd e hyne
          subst hyy
          rw [hneg] at hyne
          have hy0 : y1 ≠ 0 := by
            intro e; apply hyne; rw [e, neg_zero]
          rw [waAdd_same, waDbl_tangent a x1 y1 hy0]
          rw [slope_of_Y_ne rfl (by rw [hneg]; exact hyne)]
          simp only [addX, addY, negAddY, negY, shortW, Option.some.injEq, Prod.mk.injEq]
          constructor
          · ring_nf
          · ring_nf
        · rw [waAdd_chord a x1 y1 x2 y2 hx, slope_of_X_ne hx]
          simp only [addX, addY, negAddY, negY, shortW, Option.some.injEq, Prod.mk.injEq]
          constructor
          · ring_nf
          · ring_nf

end MpycV.Groups
