/-
Lemmas for the secure-polynomial value model (`MpycV/Model/SecPol.lean`): every padded operation
denotes (under `toPoly`) the corresponding polynomial operation, hence commutes with stripping trailing
zeros and agrees with the normalised `GFpX` operation; result lengths depend on input lengths only.
-/
import MpycV.Lemmas.GFpXInt
import MpycV.Model.SecPol

open Polynomial

namespace MpycV.SecPol
open MpycV.GFpX

variable {p : ℕ}

/-! ### denotation of padded lists -/

theorem toPoly_append (a b : PPoly) : toPoly p (a ++ b) = toPoly p a + X ^ a.length * toPoly p b := by
  induction a with
  | nil => simp
  | cons x a ih => simp [ih, pow_succ]; ring

theorem toPoly_replicate_zero (k : ℕ) : toPoly p (List.replicate k 0) = 0 := by
  induction k with
  | zero => rfl
  | succ k ih => simp [List.replicate_succ, ih]

/-- slack does not change the polynomial -/
theorem toPoly_append_zeros (a : PPoly) (k : ℕ) : toPoly p (a ++ List.replicate k 0) = toPoly p a := by
  rw [toPoly_append, toPoly_replicate_zero]; simp

theorem reduced_append_zeros (hp : 0 < p) {a : PPoly} (ha : Reduced p a) (k : ℕ) :
    Reduced p (a ++ List.replicate k 0) := by
  intro x hx
  rcases List.mem_append.mp hx with h | h
  · exact ha x h
  · rw [List.eq_of_mem_replicate h]; exact hp

/-- two reduced lists with the same denotation have the same stripped form -/
theorem strip_eq_of_toPoly_eq {a b : PPoly} (ha : Reduced p a) (hb : Reduced p b)
    (h : toPoly p a = toPoly p b) : strip a = strip b := by
  apply toPoly_inj (wf_norm ha) (wf_norm hb)
  rw [toPoly_norm, toPoly_norm, h]

theorem strip_append_zeros (hp : 0 < p) {a : PPoly} (ha : Reduced p a) (k : ℕ) :
    strip (a ++ List.replicate k 0) = strip a :=
  strip_eq_of_toPoly_eq (reduced_append_zeros hp ha k) ha (toPoly_append_zeros a k)

/-! ### field operations on residues -/

theorem addF_cast (x y : ℕ) : ((addF p x y : ℕ) : ZMod p) = (x : ZMod p) + y := by
  simp [addF, ZMod.natCast_mod]

theorem negF_cast (hp : 0 < p) (x : ℕ) : ((negF p x : ℕ) : ZMod p) = -(x : ZMod p) := by
  have h : x % p ≤ p := (Nat.mod_lt x hp).le
  simp [negF, ZMod.natCast_mod, Nat.cast_sub h]

theorem subF_cast (hp : 0 < p) (x y : ℕ) : ((subF p x y : ℕ) : ZMod p) = (x : ZMod p) - y := by
  have h : y % p ≤ p := (Nat.mod_lt y hp).le
  simp [subF, ZMod.natCast_mod, Nat.cast_sub h]; ring

theorem addF_lt (hp : 0 < p) (x y : ℕ) : addF p x y < p := Nat.mod_lt _ hp
theorem negF_lt (hp : 0 < p) (x : ℕ) : negF p x < p := Nat.mod_lt _ hp
theorem subF_lt (hp : 0 < p) (x y : ℕ) : subF p x y < p := Nat.mod_lt _ hp

/-! ### neg / add / sub -/

theorem toPoly_neg (hp : 0 < p) (a : PPoly) : toPoly p (neg p a) = -toPoly p a := by
  induction a with
  | nil => simp [neg]
  | cons x a ih =>
    simp only [neg, List.map_cons, toPoly_cons] at ih ⊢
    rw [ih, negF_cast hp]; simp; ring

theorem reduced_neg (hp : 0 < p) (a : PPoly) : Reduced p (neg p a) := by
  intro x hx
  simp only [neg, List.mem_map] at hx
  obtain ⟨y, _, rfl⟩ := hx
  exact negF_lt hp y

theorem length_neg (a : PPoly) : (neg p a).length = a.length := by simp [neg]

theorem toPoly_add : ∀ a b : PPoly, toPoly p (add p a b) = toPoly p a + toPoly p b
  | [], b => by simp [add]
  | x :: a, [] => by simp [add]
  | x :: a, y :: b => by
    simp only [add, toPoly_cons, toPoly_add a b, addF_cast]
    simp; ring

theorem reduced_add (hp : 0 < p) : ∀ {a b : PPoly}, Reduced p a → Reduced p b → Reduced p (add p a b)
  | [], b, _, hb => by simpa [add] using hb
  | x :: a, [], ha, _ => by simpa [add] using ha
  | x :: a, y :: b, ha, hb => by
    simp only [add]
    rw [reduced_cons] at ha hb ⊢
    exact ⟨addF_lt hp x y, reduced_add hp ha.2 hb.2⟩

theorem length_add : ∀ a b : PPoly, (add p a b).length = addLen a.length b.length
  | [], b => by simp [add, addLen]
  | x :: a, [] => by simp [add, addLen]
  | x :: a, y :: b => by simp [add, addLen, length_add a b]

theorem sub_nil_left_eq_neg : ∀ b : PPoly, sub p [] b = neg p b
  | [] => by simp [sub, neg]
  | y :: b => by simp [sub, neg, sub_nil_left_eq_neg b]

theorem toPoly_sub (hp : 0 < p) : ∀ a b : PPoly, toPoly p (sub p a b) = toPoly p a - toPoly p b
  | a, [] => by cases a <;> simp [sub]
  | [], y :: b => by
    simp only [sub, toPoly_cons, toPoly_sub hp [] b, negF_cast hp]
    simp; ring
  | x :: a, y :: b => by
    simp only [sub, toPoly_cons, toPoly_sub hp a b, subF_cast hp]
    simp; ring

theorem reduced_sub (hp : 0 < p) : ∀ {a b : PPoly}, Reduced p a → Reduced p (sub p a b)
  | a, [], ha => by
    have : sub p a [] = a := by cases a <;> simp [sub]
    rw [this]; exact ha
  | [], y :: b, ha => by
    simp only [sub]
    rw [reduced_cons]
    exact ⟨negF_lt hp y, reduced_sub hp ha⟩
  | x :: a, y :: b, ha => by
    simp only [sub]
    rw [reduced_cons] at ha ⊢
    exact ⟨subF_lt hp x y, reduced_sub hp ha.2⟩

theorem length_sub : ∀ a b : PPoly, (sub p a b).length = addLen a.length b.length
  | a, [] => by cases a <;> simp [sub, addLen]
  | [], y :: b => by simp [sub, addLen, length_sub [] b]
  | x :: a, y :: b => by simp [sub, addLen, length_sub a b]

/-! ### mul / shifts -/

theorem toPoly_mul (a b : PPoly) : toPoly p (mul p a b) = toPoly p a * toPoly p b := by
  unfold mul
  split
  · rename_i h
    rcases h with h | h <;> simp [h]
  · rw [toPoly_map_mod, toPoly_convN]

theorem reduced_mul (hp : 0 < p) (a b : PPoly) : Reduced p (mul p a b) := by
  unfold mul
  split
  · simp
  · exact reduced_map_mod hp _

theorem length_mul (a b : PPoly) : (mul p a b).length = mulLen a.length b.length := by
  unfold mul mulLen
  by_cases ha : a = []
  · simp [ha]
  by_cases hb : b = []
  · simp [hb]
  have h1 : a.length ≠ 0 := by simpa using ha
  have h2 : b.length ≠ 0 := by simpa using hb
  simp [ha, hb, h1, h2, length_convN ha hb]

theorem lshift_eq (a : PPoly) (n : ℕ) : lshift a n = GFpX.lshift a n := rfl

theorem toPoly_lshift (a : PPoly) (n : ℕ) : toPoly p (lshift a n) = toPoly p a * X ^ n := by
  rw [lshift_eq, GFpX.toPoly_lshift]

theorem reduced_lshift (hp : 0 < p) {a : PPoly} (ha : Reduced p a) (n : ℕ) : Reduced p (lshift a n) := by
  unfold lshift
  split
  · simp
  · intro x hx
    rcases List.mem_append.mp hx with h | h
    · rw [List.eq_of_mem_replicate h]; exact hp
    · exact ha x h

theorem length_lshift (a : PPoly) (n : ℕ) : (lshift a n).length = lshiftLen a.length n := by
  unfold lshift lshiftLen
  by_cases ha : a = []
  · simp [ha]
  · have : a.length ≠ 0 := by simpa using ha
    simp [ha, this]

theorem norm_drop (a : PPoly) : ∀ n : ℕ, norm (a.drop n) = (norm a).drop n := by
  induction a with
  | nil => intro n; simp [norm]
  | cons x a ih =>
    intro n
    cases n with
    | zero => simp
    | succ n =>
      rw [List.drop_succ_cons, norm_cons]
      split
      · rename_i h
        have hz := (norm_eq_nil_iff a).mp h
        have : norm (a.drop n) = [] := by
          rw [norm_eq_nil_iff]; intro y hy; exact hz y (List.mem_of_mem_drop hy)
        rw [this]
        split <;> simp
      · rw [List.drop_succ_cons, ih n]

theorem strip_rshift (a : PPoly) (n : ℕ) : strip (rshift a n) = GFpX.rshift (strip a) n := norm_drop a n

theorem length_rshift (a : PPoly) (n : ℕ) : (rshift a n).length = rshiftLen a.length n := by
  simp [rshift, rshiftLen]

/-! ### agreement with the normalised `GFpX` operations -/

theorem strip_neg [Fact p.Prime] {a : PPoly} (ha : Reduced p a) :
    strip (neg p a) = GFpX.neg p (strip a) := by
  have hp := (Fact.out : p.Prime).pos
  apply toPoly_inj (wf_norm (reduced_neg hp a)) (wf_neg (wf_norm ha))
  rw [toPoly_norm, toPoly_neg hp, GFpX.toPoly_neg (reduced_norm ha), toPoly_norm]

theorem strip_add {a b : PPoly} (hp : 0 < p) (ha : Reduced p a) (hb : Reduced p b) :
    strip (add p a b) = GFpX.add p (strip a) (strip b) := by
  apply toPoly_inj (wf_norm (reduced_add hp ha hb)) (wf_add (reduced_norm ha) (reduced_norm hb))
  rw [toPoly_norm, toPoly_add, GFpX.toPoly_add, toPoly_norm, toPoly_norm]

theorem strip_sub {a b : PPoly} (hp : 0 < p) (ha : Reduced p a) (hb : Reduced p b) :
    strip (sub p a b) = GFpX.sub p (strip a) (strip b) := by
  apply toPoly_inj (wf_norm (reduced_sub hp ha)) (wf_sub hp (reduced_norm ha) (reduced_norm hb))
  rw [toPoly_norm, toPoly_sub hp, GFpX.toPoly_sub _ (reduced_norm hb), toPoly_norm, toPoly_norm]

theorem strip_mul [Fact p.Prime] {a b : PPoly} (ha : Reduced p a) (hb : Reduced p b) :
    strip (mul p a b) = GFpX.mul p (strip a) (strip b) := by
  have hp := (Fact.out : p.Prime).pos
  apply toPoly_inj (wf_norm (reduced_mul hp a b)) (wf_mul (wf_norm ha) (wf_norm hb))
  rw [toPoly_norm, toPoly_mul, GFpX.toPoly_mul, toPoly_norm, toPoly_norm]

theorem strip_lshift {a : PPoly} (hp : 0 < p) (ha : Reduced p a) (n : ℕ) :
    strip (lshift a n) = GFpX.lshift (strip a) n := by
  apply toPoly_inj (wf_norm (reduced_lshift hp ha n)) (wf_lshift (wf_norm ha) hp n)
  rw [toPoly_norm, toPoly_lshift, GFpX.toPoly_lshift, toPoly_norm]

/-! ### evaluation -/

theorem evalAux_cast (hp : 0 < p) (x : ℕ) : ∀ (a : PPoly) (xi : ℕ),
    ((evalAux p x xi a : ℕ) : ZMod p) = (xi : ZMod p) * (toPoly p a).eval (x : ZMod p)
  | [], xi => by simp [evalAux]
  | c :: a, xi => by
    simp only [evalAux, ZMod.natCast_mod, Nat.cast_add, Nat.cast_mul, evalAux_cast hp x a,
      toPoly_cons, eval_add, eval_C, eval_mul, eval_X]
    ring

theorem eval_cast (hp : 0 < p) (a : PPoly) (x : ℤ) :
    ((eval p a x : ℕ) : ZMod p) = (toPoly p a).eval (x : ZMod p) := by
  unfold eval
  have hx : (((x % (p : ℤ)).toNat : ℕ) : ZMod p) = (x : ZMod p) := by
    have hnn : 0 ≤ x % (p : ℤ) := Int.emod_nonneg _ (by omega)
    rw [← Int.cast_natCast (R := ZMod p), Int.toNat_of_nonneg hnn, ZMod.intCast_mod]
  rw [evalAux_cast hp, hx, ZMod.natCast_mod]
  simp

theorem eval_lt (hp : 0 < p) (a : PPoly) (x : ℤ) : eval p a x < p := by
  unfold eval
  cases a with
  | nil => simpa [evalAux] using hp
  | cons c a => exact Nat.mod_lt _ hp

/-- evaluation of the padded array = Horner evaluation of the stripped gfpx polynomial -/
theorem eval_eq_gfpx (hp : 0 < p) (a : PPoly) (x : ℤ) : eval p a x = GFpX.eval p (strip a) x := by
  apply natCast_inj_of_lt (eval_lt hp a x) (GFpX.eval_lt hp _ x)
  rw [eval_cast hp, GFpX.eval_cast hp]
  simp [strip, toPoly_norm]

/-! ### degree / equality -/

theorem norm_append_singleton (a : PPoly) (x : ℕ) :
    norm (a ++ [x]) = if x = 0 then norm a else a ++ [x] := by
  induction a with
  | nil => simp [norm_cons, norm]
  | cons y a ih =>
    rw [List.cons_append, norm_cons, ih]
    by_cases hx : x = 0
    · simp only [hx, if_true]
      rw [norm_cons]
    · simp [hx]

theorem length_norm_add_trailingZeros (a : PPoly) : (norm a).length + trailingZeros a = a.length := by
  induction a using List.reverseRecOn with
  | nil => simp [norm, trailingZeros]
  | append_singleton a x ih =>
    rw [norm_append_singleton]
    by_cases hx : x = 0
    · simp only [hx, if_true]
      simp only [trailingZeros, List.reverse_append, List.reverse_cons, List.reverse_nil,
        List.nil_append, List.singleton_append, List.length_append, List.length_cons,
        List.length_nil] at ih ⊢
      rw [List.takeWhile_cons_of_pos (by simp)]
      simp only [List.length_cons]
      omega
    · simp only [hx, if_false, trailingZeros, List.reverse_append, List.reverse_cons,
        List.reverse_nil, List.nil_append, List.singleton_append]
      rw [List.takeWhile_cons_of_neg (by simpa using hx)]
      simp

/-- the obliviously computed degree is the degree of the stripped polynomial -/
theorem degree_eq_gfpx (a : PPoly) : degree a = GFpX.degree (strip a) := by
  have := length_norm_add_trailingZeros a
  simp only [degree, GFpX.degree, strip]
  omega

theorem eq_iff_strip {a b : PPoly} (hp : 0 < p) (ha : Reduced p a) (hb : Reduced p b) :
    eq p a b = true ↔ strip a = strip b := by
  have hs : eq p a b = true ↔ norm (sub p a b) = [] := by
    rw [norm_eq_nil_iff]; simp [eq, List.all_eq_true]
  rw [hs]
  have hd := reduced_sub (b := b) hp ha
  constructor
  · intro h
    apply strip_eq_of_toPoly_eq ha hb
    have : toPoly p (sub p a b) = 0 := by rw [← toPoly_norm, h]; rfl
    rw [toPoly_sub hp] at this
    exact sub_eq_zero.mp this
  · intro h
    have e : toPoly p a = toPoly p b := by
      have := congrArg (toPoly p) h
      simpa [strip, toPoly_norm] using this
    apply (toPoly_eq_zero_iff (wf_norm hd)).mp
    rw [toPoly_norm, toPoly_sub hp, e, sub_self]

end MpycV.SecPol
