import MpycV.Lemmas.NumThBasic
import Mathlib.Tactic.Ring
import Mathlib.Tactic.Linarith
import Mathlib.Tactic.LinearCombination
import Mathlib.Algebra.Order.Ring.Int

namespace MpycV.NumTh

/-! ### invert -/

/-- loop invariant of `invert` (M = |m| > 0 the modulus, x the element to invert) -/
structure InvInv (x M a b s s1 : Int) : Prop where
  b_nonneg : 0 ≤ b
  a_gt : b < a ∨ s1 = 0
  bound : b = M ∨ ((a + 1) * s ≤ M ∧ (a + 1) * (-s) ≤ M)
  signs : (0 ≤ s ∧ s1 ≤ 0 ∧ b * s - a * s1 = M) ∨ (s ≤ 0 ∧ 0 ≤ s1 ∧ a * s1 - b * s = M)
  cong_a : M ∣ a - s * x
  cong_b : M ∣ b - s1 * x
  gcd_eq : Int.gcd a b = Int.gcd x M

theorem InvInv.step {x M a b s s1 : Int} (hM : 0 < M) (h : InvInv x M a b s s1) (hb : b ≠ 0) :
    InvInv x M b (a % b) s1 (s - (a / b) * s1) := by
  obtain ⟨h1, h2, h3, h4, h5, h6, h7⟩ := h
  have hbpos : 0 < b := by omega
  have hr0 : 0 ≤ a % b := Int.emod_nonneg _ hb
  have hrb : a % b < b := Int.emod_lt_of_pos _ hbpos
  have hdm : b * (a / b) + a % b = a := Int.mul_ediv_add_emod a b
  refine ⟨hr0, Or.inl hrb, Or.inr ?_, ?_, h6, ?_, ?_⟩
  · rcases h2 with h2 | h2
    · rcases h4 with ⟨p1, p2, p3⟩ | ⟨p1, p2, p3⟩
      · constructor <;> nlinarith
      · constructor <;> nlinarith
    · subst h2; simp; omega
  · rcases h2 with h2 | h2
    · have hq : 0 ≤ a / b := Int.ediv_nonneg (by omega) (by omega)
      rcases h4 with ⟨p1, p2, p3⟩ | ⟨p1, p2, p3⟩
      · right
        refine ⟨p2, by nlinarith, ?_⟩
        have : b * (s - a / b * s1) - a % b * s1 = b * s - (b * (a / b) + a % b) * s1 := by ring
        rw [this, hdm]; exact p3
      · left
        refine ⟨p2, by nlinarith, ?_⟩
        have : a % b * s1 - b * (s - a / b * s1) = (b * (a / b) + a % b) * s1 - b * s := by ring
        rw [this, hdm]; exact p3
    · subst h2
      rcases h4 with ⟨p1, p2, p3⟩ | ⟨p1, p2, p3⟩
      · right; refine ⟨le_refl _, by simpa using p1, by simpa using p3⟩
      · left; refine ⟨le_refl _, by simpa using p1, ?_⟩
        simp at p3 ⊢; linarith
  · have : a % b - (s - a / b * s1) * x = (a - s * x) - (a / b) * (b - s1 * x) := by
      have : a % b = a - b * (a / b) := by linarith
      rw [this]; ring
    rw [this]
    exact Int.dvd_sub h5 (Dvd.dvd.mul_left h6 _)
  · rw [← h7, Int.gcd_comm a b]
    have : a % b = a - b * (a / b) := by linarith
    rw [this, Int.gcd_sub_mul_left_right]

theorem invertLoop_spec (x M : Int) (hM : 0 < M) (fuel : Nat) (a b s s1 : Int)
    (h : InvInv x M a b s s1) (hf : b.toNat < fuel) :
    ∃ a' s' s1', invertLoop fuel a b s s1 = .ok (a', s') ∧ InvInv x M a' 0 s' s1' := by
  induction fuel generalizing a b s s1 with
  | zero => omega
  | succ f ih =>
    simp only [invertLoop]
    by_cases hb : b = 0
    · subst hb; exact ⟨a, s, s1, by simp, h⟩
    · rw [if_neg hb]
      have h' := h.step hM hb
      have hbpos : 0 < b := by have := h.b_nonneg; omega
      have : (a % b).toNat < f := by
        have := Int.emod_lt_of_pos a hbpos
        have := Int.emod_nonneg a hb
        omega
      exact ih _ _ _ _ h' this

theorem invert_zero (x : Int) : invert x 0 = .error .zeroDivisionError := by simp [invert]

theorem invert_unit (x m : Int) (hm : m.natAbs = 1) : invert x m = .ok 0 := by
  have : m ≠ 0 := by omega
  simp [invert, this, hm]

theorem invert_main (x m : Int) (hm : 1 < m.natAbs) :
    (Int.gcd x m ≠ 1 → invert x m = .error .zeroDivisionError) ∧
    (Int.gcd x m = 1 → ∃ y, invert x m = .ok y ∧ 0 < y ∧ y < (m.natAbs : Int) ∧
        x * y % (m.natAbs : Int) = 1) := by
  have hm0 : m ≠ 0 := by omega
  set M : Int := (m.natAbs : Int) with hMdef
  have hM : 0 < M := by omega
  have hM1 : M ≠ 1 := by omega
  have h0 : InvInv x M x M 1 0 := by
    refine ⟨by omega, Or.inr rfl, Or.inl rfl, Or.inl ⟨by omega, le_refl _, by ring⟩, by simp, by simp, rfl⟩
  obtain ⟨a', s', s1', hl, hinv⟩ := invertLoop_spec x M hM (m.natAbs + 2) x M 1 0 h0 (by omega)
  obtain ⟨_, h2, h3, h4, h5, _, h7⟩ := hinv
  have hgm : Int.gcd x M = Int.gcd x m := by
    rw [hMdef]; unfold Int.gcd; rw [Int.natAbs_natCast]
  have ha' : 0 ≤ a' := by
    rcases h2 with h2 | h2
    · omega
    · subst h2; rcases h4 with ⟨_, _, p⟩ | ⟨_, _, p⟩ <;> simp at p <;> omega
  have hga : (Int.gcd x m : Int) = a' := by
    rw [← hgm, ← h7]; simp [Int.gcd]; omega
  have hunf : invert x m = if a' ≠ 1 then .error .zeroDivisionError
      else .ok (if s' < 0 then s' + M else s') := by
    have hMn : M.natAbs = m.natAbs := by rw [hMdef, Int.natAbs_natCast]
    simp only [invert, if_neg hm0, ← hMdef, if_neg hM1]
    rw [hMn, hl]
  constructor
  · intro hg
    rw [hunf, if_pos (by intro h; apply hg; omega)]
  · intro hg
    have ha1 : a' = 1 := by omega
    rw [hunf, if_neg (by omega)]
    subst ha1
    have hb : 2 * s' ≤ M ∧ 2 * (-s') ≤ M := by
      rcases h3 with h3 | h3
      · omega
      · constructor <;> linarith [h3.1, h3.2]
    have hs0 : s' ≠ 0 := by
      intro h; subst h
      simp at h5
      have := Int.eq_one_of_dvd_one (by omega) h5
      omega
    have hdvd : ∀ y, y = s' ∨ y = s' + M → x * y % M = 1 := by
      intro y hy
      have : M ∣ x * y - 1 := by
        rcases hy with rfl | rfl
        · have : x * y - 1 = -(1 - y * x) := by ring
          rw [this]; exact Int.dvd_neg.mpr h5
        · have : x * (s' + M) - 1 = -(1 - s' * x) + M * x := by ring
          rw [this]; exact Int.dvd_add (Int.dvd_neg.mpr h5) (Int.dvd_mul_right _ _)
      have h1 := Int.emod_emod_of_dvd (x * y) (dvd_refl M)
      have := (Int.emod_eq_emod_iff_emod_sub_eq_zero).mpr (Int.emod_eq_zero_of_dvd this)
      rw [this]
      exact Int.emod_eq_of_lt (by omega) (by omega)
    by_cases hneg : s' < 0
    · refine ⟨s' + M, by rw [if_pos hneg], by omega, by omega, hdvd _ (Or.inr rfl)⟩
    · refine ⟨s', by rw [if_neg hneg], by omega, by omega, hdvd _ (Or.inl rfl)⟩

/-! ### gcdext -/

theorem fmod_natAbs_lt (g f : Int) (hf : f ≠ 0) : (Int.fmod g f).natAbs < f.natAbs := by
  rcases lt_or_gt_of_ne hf with h | h
  · have := (Int.fdiv_fmod_unique' (a := g) (b := f) (r := Int.fmod g f) (q := Int.fdiv g f) h).mp ⟨rfl, rfl⟩
    omega
  · have := (Int.fdiv_fmod_unique (a := g) (b := f) (r := Int.fmod g f) (q := Int.fdiv g f) h).mp ⟨rfl, rfl⟩
    omega

theorem gcdextLoop_spec (a b : Int) (fuel : Nat) (g f s s1 t t1 : Int)
    (hg : g = a * s + b * t) (hf : f = a * s1 + b * t1) (hgcd : Int.gcd g f = Int.gcd a b)
    (hfuel : f.natAbs < fuel) :
    ∃ g' s' t', gcdextLoop fuel g f s s1 t t1 = .ok (g', s', t') ∧ g' = a * s' + b * t' ∧
      g'.natAbs = Int.gcd a b := by
  induction fuel generalizing g f s s1 t t1 with
  | zero => omega
  | succ n ih =>
    simp only [gcdextLoop]
    by_cases h0 : f = 0
    · subst h0
      refine ⟨g, s, t, by simp, hg, ?_⟩
      rw [← hgcd]; simp [Int.gcd]
    · rw [if_neg h0]
      have hdef := Int.fmod_def g f
      apply ih
      · exact hf
      · rw [hdef, hg, hf]; ring
      · rw [← hgcd, hdef, Int.gcd_sub_mul_left_right, Int.gcd_comm]
      · have := fmod_natAbs_lt g f h0; omega

theorem gcdext_bezout' (a b : Int) :
    ∃ g s t, gcdext a b = .ok (g, s, t) ∧ g = (Int.gcd a b : Int) ∧ g = a * s + b * t := by
  obtain ⟨g, s, t, hl, hbz, hgc⟩ := gcdextLoop_spec a b (b.natAbs + 2) a b 1 0 0 1
    (by ring) (by ring) rfl (by omega)
  -- first normalisation: sign of g
  have h1 : ∃ g1 s1 t1, (if g < 0 then (-g, -s, -t) else if g = 0 then (g, 0, t) else (g, s, t)) = (g1, s1, t1)
      ∧ g1 = (Int.gcd a b : Int) ∧ g1 = a * s1 + b * t1 := by
    by_cases hneg : g < 0
    · refine ⟨-g, -s, -t, by rw [if_pos hneg], by omega, by rw [hbz]; ring⟩
    · by_cases hz : g = 0
      · refine ⟨g, 0, t, by rw [if_neg hneg, if_pos hz], by omega, ?_⟩
        have hgcd0 : Int.gcd a b = 0 := by omega
        have ha : a = 0 := (Int.gcd_eq_zero_iff.mp hgcd0).1
        have hb : b = 0 := (Int.gcd_eq_zero_iff.mp hgcd0).2
        subst ha hb hz; ring
      · refine ⟨g, s, t, by rw [if_neg hneg, if_neg hz], by omega, hbz⟩
  obtain ⟨g1, s1, t1, hn, hg1, hb1⟩ := h1
  have hunf : gcdext a b =
      if ((a < 0 ∧ 0 < b) ∨ (b < 0 ∧ 0 < a)) ∧ (b.natAbs : Int) = 2 * g1 then
        .ok (g1, -s1, t1 - s1 * ((a.natAbs : Int) / g1))
      else .ok (g1, s1, t1) := by
    simp only [gcdext, hl, hn]
  rw [hunf]
  split
  · next hc =>
    refine ⟨g1, _, _, rfl, hg1, ?_⟩
    obtain ⟨hsg, h2g⟩ := hc
    have hgdvd : g1 ∣ (a.natAbs : Int) := by
      rw [hg1]; exact Int.natCast_dvd_natCast.mpr (by
        have := Int.gcd_dvd_left a b
        exact Int.natAbs_dvd_natAbs.mpr this |> fun h => by simpa using h)
    obtain ⟨k, hk⟩ := hgdvd
    have hg1pos : 0 < g1 := by omega
    have hdiv : (a.natAbs : Int) / g1 = k := by
      rw [hk]; exact Int.mul_ediv_cancel_left k (by omega)
    rw [hdiv]
    rcases hsg with ⟨ha, hb⟩ | ⟨hb, ha⟩
    · have hb2 : b = 2 * g1 := by omega
      have ha2 : a = -(g1 * k) := by omega
      have : b * k = -2 * a := by rw [hb2, ha2]; ring
      rw [hb1]; linear_combination s1 * this
    · have hb2 : b = -(2 * g1) := by omega
      have ha2 : a = g1 * k := by omega
      have : b * k = -2 * a := by rw [hb2, ha2]; ring
      rw [hb1]; linear_combination s1 * this
  · exact ⟨g1, s1, t1, rfl, hg1, hb1⟩

end MpycV.NumTh
