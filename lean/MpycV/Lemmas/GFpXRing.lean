/-
Homomorphism lemmas `toPoly (op a b) = toPoly a ∘ toPoly b` for the ring operations of the list model
(neg add sub mul sq lshift rshift) and preservation of well-formedness.
-/
import MpycV.Lemmas.GFpX

open Polynomial

namespace MpycV.GFpX

variable {p : ℕ}

/-! ### add -/

theorem addC_cast (x y : ℕ) : ((addC p x y : ℕ) : ZMod p) = (x : ZMod p) + (y : ZMod p) := by
  unfold addC
  split
  · rename_i h
    rw [Nat.cast_sub h, Nat.cast_add, ZMod.natCast_self, sub_zero]
  · rw [Nat.cast_add]

theorem addC_lt {x y : ℕ} (hx : x < p) (hy : y < p) : addC p x y < p := by
  unfold addC; split <;> omega

theorem toPoly_zipAdd (a b : Poly) : toPoly p (zipAdd p a b) = toPoly p a + toPoly p b := by
  induction a generalizing b with
  | nil => simp [zipAdd]
  | cons x a ih =>
    cases b with
    | nil => simp [zipAdd]
    | cons y b =>
      simp only [zipAdd, toPoly_cons, ih, addC_cast, C_add]
      ring

theorem reduced_zipAdd {a b : Poly} (ha : Reduced p a) (hb : Reduced p b) :
    Reduced p (zipAdd p a b) := by
  induction a generalizing b with
  | nil => simpa [zipAdd] using hb
  | cons x a ih =>
    cases b with
    | nil => simpa [zipAdd] using ha
    | cons y b =>
      rw [reduced_cons] at ha hb
      simp only [zipAdd, reduced_cons]
      exact ⟨addC_lt ha.1 hb.1, ih ha.2 hb.2⟩

theorem toPoly_add (a b : Poly) : toPoly p (add p a b) = toPoly p a + toPoly p b := by
  rw [add, toPoly_norm, toPoly_zipAdd]

theorem wf_add {a b : Poly} (ha : Reduced p a) (hb : Reduced p b) : WF p (add p a b) :=
  wf_norm (reduced_zipAdd ha hb)

/-! ### sub, neg -/

theorem subC_cast {x y : ℕ} (hy : y ≤ p) :
    ((subC p x y : ℕ) : ZMod p) = (x : ZMod p) - (y : ZMod p) := by
  unfold subC
  split
  · rw [Nat.cast_sub (by omega), Nat.cast_add, ZMod.natCast_self, add_zero]
  · rename_i h
    rw [Nat.cast_sub (by omega)]

theorem subC_lt {x y : ℕ} (hx : x < p) (hy : y < p) : subC p x y < p := by
  unfold subC; split <;> omega

theorem toPoly_zipSub (a : Poly) {b : Poly} (hb : Reduced p b) :
    toPoly p (zipSub p a b) = toPoly p a - toPoly p b := by
  induction b generalizing a with
  | nil => cases a <;> simp [zipSub]
  | cons y b ih =>
    rw [reduced_cons] at hb
    cases a with
    | nil =>
      simp only [zipSub, toPoly_cons, ih [] hb.2, subC_cast hb.1.le, toPoly_nil, Nat.cast_zero,
        C_sub, C_0]
      ring
    | cons x a =>
      simp only [zipSub, toPoly_cons, ih a hb.2, subC_cast hb.1.le, C_sub]
      ring

theorem reduced_zipSub {a b : Poly} (hp : 0 < p) (ha : Reduced p a) (hb : Reduced p b) :
    Reduced p (zipSub p a b) := by
  induction b generalizing a with
  | nil => cases a <;> simp [zipSub, ha]
  | cons y b ih =>
    rw [reduced_cons] at hb
    cases a with
    | nil =>
      simp only [zipSub, reduced_cons]
      exact ⟨subC_lt hp hb.1, ih reduced_nil hb.2⟩
    | cons x a =>
      rw [reduced_cons] at ha
      simp only [zipSub, reduced_cons]
      exact ⟨subC_lt ha.1 hb.1, ih ha.2 hb.2⟩

theorem toPoly_sub (a : Poly) {b : Poly} (hb : Reduced p b) :
    toPoly p (sub p a b) = toPoly p a - toPoly p b := by
  rw [sub, toPoly_norm, toPoly_zipSub a hb]

theorem wf_sub {a b : Poly} (hp : 0 < p) (ha : Reduced p a) (hb : Reduced p b) : WF p (sub p a b) :=
  wf_norm (reduced_zipSub hp ha hb)

theorem toPoly_neg {a : Poly} (ha : Reduced p a) : toPoly p (neg p a) = - toPoly p a := by
  induction a with
  | nil => simp [neg]
  | cons x a ih =>
    rw [reduced_cons] at ha
    have ih' := ih ha.2
    simp only [neg, List.map_cons, toPoly_cons] at ih' ⊢
    rw [ih']
    split
    · rename_i h; simp [h]
    · rw [Nat.cast_sub ha.1.le, ZMod.natCast_self, C_sub, C_0]
      ring

theorem reduced_neg {a : Poly} (ha : Reduced p a) : Reduced p (neg p a) := by
  intro z hz
  simp only [neg, List.mem_map] at hz
  obtain ⟨x, hx, rfl⟩ := hz
  have := ha x hx
  split <;> omega

theorem length_neg (a : Poly) : (neg p a).length = a.length := by simp [neg]

theorem wf_neg {a : Poly} (ha : WF p a) : WF p (neg p a) := by
  refine ⟨reduced_neg ha.1, ?_⟩
  by_cases hne : a = []
  · subst hne; simp [neg]
  · apply normalised_of_coeff_ne_zero (p := p)
    rw [toPoly_neg ha.1, length_neg, coeff_neg, neg_ne_zero]
    exact coeff_last_ne_zero ha hne

/-! ### mul, sq -/

theorem toPoly_zipAddN (a b : List ℕ) : toPoly p (zipAddN a b) = toPoly p a + toPoly p b := by
  induction a generalizing b with
  | nil => simp [zipAddN]
  | cons x a ih =>
    cases b with
    | nil => simp [zipAddN]
    | cons y b =>
      simp only [zipAddN, toPoly_cons, ih, Nat.cast_add, C_add]
      ring

theorem length_zipAddN (a b : List ℕ) : (zipAddN a b).length = max a.length b.length := by
  induction a generalizing b with
  | nil => simp [zipAddN]
  | cons x a ih =>
    cases b with
    | nil => simp [zipAddN]
    | cons y b => simp [zipAddN, ih]

theorem toPoly_map_mul (c : ℕ) (a : List ℕ) :
    toPoly p (a.map (c * ·)) = C (c : ZMod p) * toPoly p a := by
  induction a with
  | nil => simp
  | cons x a ih =>
    simp only [List.map_cons, toPoly_cons, ih, Nat.cast_mul, C_mul]
    ring

theorem toPoly_shift1 (a : List ℕ) : toPoly p (shift1 a) = X * toPoly p a := by
  cases a <;> simp [shift1]

theorem toPoly_shift2 (a : List ℕ) : toPoly p (shift2 a) = X * (X * toPoly p a) := by
  cases a <;> simp [shift2]

theorem length_shift1 (a : List ℕ) : (shift1 a).length = if a = [] then 0 else a.length + 1 := by
  cases a <;> simp [shift1]

theorem length_shift2 (a : List ℕ) : (shift2 a).length = if a = [] then 0 else a.length + 2 := by
  cases a <;> simp [shift2]

theorem toPoly_convN (a b : List ℕ) : toPoly p (convN a b) = toPoly p a * toPoly p b := by
  induction a with
  | nil => simp [convN]
  | cons x a ih =>
    simp only [convN, toPoly_zipAddN, toPoly_map_mul, toPoly_shift1, ih, toPoly_cons]
    ring

theorem length_convN {a b : List ℕ} (ha : a ≠ []) (hb : b ≠ []) :
    (convN a b).length = a.length + b.length - 1 := by
  induction a with
  | nil => exact absurd rfl ha
  | cons x a ih =>
    have hbl := List.length_pos_of_ne_nil hb
    simp only [convN, length_zipAddN, List.length_map, length_shift1, List.length_cons]
    by_cases h : a = []
    · subst h; simp [convN]
    · have hal := List.length_pos_of_ne_nil h
      have hne : convN a b ≠ [] := by
        intro h0
        have := ih h
        rw [h0] at this
        simp at this
        omega
      rw [if_neg hne, ih h]
      omega

theorem toPoly_map_mod (a : List ℕ) : toPoly p (a.map (· % p)) = toPoly p a := by
  induction a with
  | nil => simp
  | cons x a ih => simp only [List.map_cons, toPoly_cons, ih, ZMod.natCast_mod]

theorem reduced_map_mod (hp : 0 < p) (a : List ℕ) : Reduced p (a.map (· % p)) := by
  intro z hz
  simp only [List.mem_map] at hz
  obtain ⟨x, _, rfl⟩ := hz
  exact Nat.mod_lt _ hp

theorem toPoly_mulCore (a b : Poly) : toPoly p (mulCore p a b) = toPoly p a * toPoly p b := by
  unfold mulCore
  split
  · rename_i h; simp [h]
  · rw [toPoly_map_mod, toPoly_convN]

theorem toPoly_mul (a b : Poly) : toPoly p (mul p a b) = toPoly p a * toPoly p b := by
  unfold mul
  split
  · rw [toPoly_mulCore, mul_comm]
  · rw [toPoly_mulCore]

theorem reduced_mulCore (hp : 0 < p) (a b : Poly) : Reduced p (mulCore p a b) := by
  unfold mulCore
  split
  · exact reduced_nil
  · exact reduced_map_mod hp _

theorem reduced_mul (hp : 0 < p) (a b : Poly) : Reduced p (mul p a b) := by
  unfold mul; split <;> exact reduced_mulCore hp _ _

theorem mul_nil_left (b : Poly) : mul p [] b = [] := by
  unfold mul mulCore
  split
  · rename_i h; simp at h
  · simp

theorem mul_nil_right (a : Poly) : mul p a [] = [] := by
  unfold mul mulCore
  split
  · simp
  · rename_i h
    have : a = [] := by
      cases a with
      | nil => rfl
      | cons x a => simp at h
    simp [this]

theorem length_mulCore {a b : Poly} (ha : a ≠ []) (hb : b ≠ []) :
    (mulCore p a b).length = a.length + b.length - 1 := by
  unfold mulCore
  rw [if_neg ha, List.length_map, length_convN ha hb]

theorem length_mul {a b : Poly} (ha : a ≠ []) (hb : b ≠ []) :
    (mul p a b).length = a.length + b.length - 1 := by
  unfold mul
  split
  · rw [length_mulCore hb ha]; omega
  · rw [length_mulCore ha hb]

/-- the product of well-formed lists is well-formed WITHOUT normalisation: needs `p` prime -/
theorem wf_mul [Fact p.Prime] {a b : Poly} (ha : WF p a) (hb : WF p b) : WF p (mul p a b) := by
  have hp : 0 < p := (Fact.out : p.Prime).pos
  refine ⟨reduced_mul hp a b, ?_⟩
  by_cases hane : a = []
  · subst hane; rw [mul_nil_left]; exact normalised_nil
  by_cases hbne : b = []
  · subst hbne; rw [mul_nil_right]; exact normalised_nil
  apply normalised_of_coeff_ne_zero (p := p)
  have hA := toPoly_ne_zero ha hane
  have hB := toPoly_ne_zero hb hbne
  have hal := List.length_pos_of_ne_nil hane
  have hbl := List.length_pos_of_ne_nil hbne
  have hd : a.length + b.length - 1 - 1 = (toPoly p a * toPoly p b).natDegree := by
    rw [natDegree_mul hA hB, natDegree_toPoly ha hane, natDegree_toPoly hb hbne]
    omega
  rw [toPoly_mul, length_mul hane hbne, hd]
  exact leadingCoeff_ne_zero.mpr (mul_ne_zero hA hB)

theorem toPoly_sqN (a : List ℕ) : toPoly p (sqN a) = toPoly p a * toPoly p a := by
  induction a with
  | nil => simp [sqN]
  | cons x a ih =>
    simp only [sqN, toPoly_zipAddN, toPoly_shift2, ih, toPoly_cons, toPoly_map_mul, Nat.cast_mul,
      C_mul, Nat.cast_ofNat, C_ofNat]
    ring

theorem length_sqN {a : List ℕ} (ha : a ≠ []) : (sqN a).length = 2 * a.length - 1 := by
  induction a with
  | nil => exact absurd rfl ha
  | cons x a ih =>
    simp only [sqN, length_zipAddN, List.length_map, length_shift2, List.length_cons]
    by_cases h : a = []
    · subst h; simp [sqN]
    · have hal := List.length_pos_of_ne_nil h
      have hne : sqN a ≠ [] := by
        intro h0
        have := ih h
        rw [h0] at this
        simp at this
        omega
      rw [if_neg hne, ih h]
      omega

theorem toPoly_sq (a : Poly) : toPoly p (sq p a) = toPoly p a * toPoly p a := by
  rw [sq, toPoly_map_mod, toPoly_sqN]

/-- the separate squaring path `_sq` (taken by `_mul` when `a is b`) computes the same list as `_mul` -/
theorem sq_eq_mul_self (hp : 0 < p) (a : Poly) : sq p a = mul p a a := by
  by_cases ha : a = []
  · subst ha; simp [sq, sqN, mul, mulCore]
  apply toPoly_inj_of_length (p := p)
  · exact reduced_map_mod hp _
  · exact reduced_mul hp a a
  · rw [sq, List.length_map, length_sqN ha, length_mul ha ha]; omega
  · rw [toPoly_sq, toPoly_mul]

/-! ### shifts -/

theorem toPoly_replicate_zero_append (n : ℕ) (a : Poly) :
    toPoly p (List.replicate n 0 ++ a) = X ^ n * toPoly p a := by
  induction n with
  | zero => simp
  | succ n ih =>
    simp only [List.replicate_succ, List.cons_append, toPoly_cons, ih, Nat.cast_zero, C_0]
    ring

theorem toPoly_lshift (a : Poly) (n : ℕ) : toPoly p (lshift a n) = toPoly p a * X ^ n := by
  unfold lshift
  split
  · rename_i h; simp [h]
  · rw [toPoly_replicate_zero_append, mul_comm]

theorem wf_lshift {a : Poly} (ha : WF p a) (hp : 0 < p) (n : ℕ) : WF p (lshift a n) := by
  unfold lshift
  split
  · exact wf_nil
  · rename_i hne
    constructor
    · intro x hx
      rcases List.mem_append.mp hx with h | h
      · rw [List.eq_of_mem_replicate h]; exact hp
      · exact ha.1 x h
    · have := ha.2
      unfold Normalised at this ⊢
      rwa [List.getLast?_append_of_ne_nil _ hne]

/-- `a >> n` is the quotient of `a` by `X^n`: `a = (a mod X^n) + X^n * (a >> n)` -/
theorem toPoly_take_add_rshift (a : Poly) (n : ℕ) :
    toPoly p a = toPoly p (a.take n) + X ^ n * toPoly p (rshift a n) := by
  unfold rshift
  induction n generalizing a with
  | zero => simp
  | succ n ih =>
    cases a with
    | nil => simp
    | cons x a =>
      simp only [List.take_succ_cons, List.drop_succ_cons, toPoly_cons]
      rw [ih a]
      ring

theorem wf_rshift {a : Poly} (ha : WF p a) (n : ℕ) : WF p (rshift a n) := by
  unfold rshift
  constructor
  · exact fun x hx => ha.1 x (List.mem_of_mem_drop hx)
  · have := ha.2
    unfold Normalised at this ⊢
    by_cases h : n < a.length
    · rwa [List.getLast?_drop, if_neg (by omega)]
    · rw [List.drop_eq_nil_of_le (by omega)]; simp

end MpycV.GFpX
