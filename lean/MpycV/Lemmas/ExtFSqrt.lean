/-
Square roots in extension fields: `AdjoinRoot (toPoly p m)` is a finite field with `order p m = p^d` elements
(power basis), hence Fermat/Frobenius/Euler hold; transported to the model `MpycV.ExtF.sqrt/isSqr`.
-/
import Mathlib.FieldTheory.Finite.Basic
import Mathlib.FieldTheory.Finiteness
import MpycV.Lemmas.ExtF

open Polynomial

set_option linter.unusedSectionVars false

namespace MpycV.ExtF
open MpycV.GFpX

variable {p : ℕ} [hpf : Fact p.Prime] {m : Poly}

/-- the quotient has exactly `order p m = p^(deg m)` elements; packaged with the instances needed downstream -/
theorem finite_field_facts (hm : IsModulus p m) :
    (∀ x : AdjoinRoot (toPoly p m), x ≠ 0 → x ^ (order p m - 1) = 1) ∧
    (∀ x : AdjoinRoot (toPoly p m), x ^ order p m = x) ∧
    (order p m % 2 = 1 → ∀ x : AdjoinRoot (toPoly p m), x ≠ 0 →
        ((IsSquare x ↔ x ^ (order p m / 2) = 1) ∧ (x ^ (order p m / 2) = 1 ∨ x ^ (order p m / 2) = -1))) := by
  have : Fact (Irreducible (toPoly p m)) := ⟨hm.irr⟩
  let pb := AdjoinRoot.powerBasis hm.poly_ne_zero
  have : Module.Finite (ZMod p) (AdjoinRoot (toPoly p m)) := pb.finite
  have : Finite (AdjoinRoot (toPoly p m)) := Module.finite_of_finite (ZMod p)
  let _ : Fintype (AdjoinRoot (toPoly p m)) := Fintype.ofFinite _
  have hcard : Fintype.card (AdjoinRoot (toPoly p m)) = order p m := by
    rw [Module.card_eq_pow_finrank (K := ZMod p), ZMod.card, pb.finrank, AdjoinRoot.powerBasis_dim,
      natDegree_toPoly hm.wf hm.ne_nil]
    rfl
  refine ⟨?_, ?_, ?_⟩
  · intro x hx
    rw [← hcard]; exact FiniteField.pow_card_sub_one_eq_one x hx
  · intro x
    rw [← hcard]; exact FiniteField.pow_card x
  · intro hodd x hx
    have hchar : ringChar (AdjoinRoot (toPoly p m)) ≠ 2 := by
      intro h2
      have := FiniteField.even_card_of_char_two h2
      rw [hcard] at this; omega
    rw [← hcard]
    exact ⟨FiniteField.isSquare_iff hchar hx, FiniteField.pow_dichotomy hchar hx⟩

/-! ### every element of the quotient field is denoted by a class-invariant list -/

theorem exists_list_of_poly (g : (ZMod p)[X]) : ∃ l : Poly, WF p l ∧ toPoly p l = g := by
  have key : ∃ l : List ℕ, toPoly p l = g := by
    induction g using Polynomial.induction_on with
    | C a => exact ⟨[a.val], by simp⟩
    | add f g hf hg =>
      obtain ⟨lf, rfl⟩ := hf; obtain ⟨lg, rfl⟩ := hg
      exact ⟨zipAddN lf lg, toPoly_zipAddN lf lg⟩
    | monomial n a h =>
      obtain ⟨l, hl⟩ := h
      exact ⟨shift1 l, by rw [toPoly_shift1, hl, pow_succ]; ring⟩
  obtain ⟨l, rfl⟩ := key
  exact ⟨norm (l.map (· % p)), wf_norm (reduced_map_mod hp0 l), by rw [toPoly_norm, toPoly_map_mod]⟩

theorem exists_red (hm : IsModulus p m) (x : AdjoinRoot (toPoly p m)) : ∃ b, Red p m b ∧ φ p m b = x := by
  obtain ⟨g, rfl⟩ := AdjoinRoot.mk_surjective x
  obtain ⟨l, wl, rfl⟩ := exists_list_of_poly (p := p) g
  exact ⟨mk p m l, red_mk hm wl, phi_mk hm wl⟩

/-- `IsSquare` in the quotient field, expressed with the model's multiplication -/
theorem isSquare_iff_model (hm : IsModulus p m) {a : Poly} (ha : Red p m a) :
    IsSquare (φ p m a) ↔ ∃ b, Red p m b ∧ mul p m b b = a := by
  constructor
  · rintro ⟨y, hy⟩
    obtain ⟨b, rb, rfl⟩ := exists_red hm y
    exact ⟨b, rb, phi_inj hm (red_mul hm rb.1 rb.1) ha (by rw [phi_mul hm rb.1 rb.1, hy])⟩
  · rintro ⟨b, rb, hb⟩
    exact ⟨φ p m b, by rw [← hb, phi_mul hm rb.1 rb.1]⟩

/-! ### powers with class-invariant results -/

theorem powmod_one (a m : Poly) : GFpX.powmod p a 1 (some m) = .ok a := rfl

theorem powm_red (hm : IsModulus p m) {a : Poly} (ha : Red p m a) {n : ℕ} (hn : 0 < n) :
    ∃ r, powm p m a (n : ℤ) = .ok r ∧ Red p m r ∧ φ p m r = φ p m a ^ n := by
  rcases Nat.lt_or_ge n 2 with h | h
  · have : n = 1 := by omega
    subst this
    exact ⟨a, by unfold powm; rw [Nat.cast_one, powmod_one]; rfl, ha, by rw [pow_one]⟩
  · obtain ⟨r, e, w, l, c⟩ := powmod_pos_some ha.1 hm.wf hm.ne_nil hn
    refine ⟨r, by unfold powm; rw [e]; rfl, ⟨w, l h⟩, ?_⟩
    unfold φ
    rw [← mk_mod_self, c, mk_mod_self, map_pow]

theorem one_red (hm : IsModulus p m) : Red p m [1] := by
  refine ⟨wf_one, ?_⟩
  have h1 := hm.irr.natDegree_pos
  rw [natDegree_toPoly hm.wf hm.ne_nil] at h1
  simp only [List.length_cons, List.length_nil]; omega

theorem order_ge (hm : IsModulus p m) : p ≤ order p m := by
  have h1 := hm.irr.natDegree_pos
  rw [natDegree_toPoly hm.wf hm.ne_nil] at h1
  unfold order
  calc p = p ^ 1 := (pow_one p).symm
    _ ≤ p ^ (m.length - 1) := Nat.pow_le_pow_right hp0 h1

theorem p_odd_of_order_odd (hm : IsModulus p m) (h : order p m % 2 = 1) : p % 2 = 1 := by
  by_contra hc
  have h2 : p % 2 = 0 := by omega
  have h1 := hm.irr.natDegree_pos
  rw [natDegree_toPoly hm.wf hm.ne_nil] at h1
  have : 2 ∣ order p m := by
    unfold order
    exact dvd_pow (Nat.dvd_of_mod_eq_zero h2) (by omega)
  omega

/-- `[p-1]` denotes `-1` -/
theorem neg_one_red (hm : IsModulus p m) : Red p m [p - 1] ∧ φ p m [p - 1] = -1 := by
  have hp2 : 2 ≤ p := hpf.out.two_le
  constructor
  · refine ⟨⟨by simp [Reduced]; omega, by simp [Normalised]; omega⟩, ?_⟩
    have := (one_red hm).2
    simpa using this
  · unfold φ
    have : ((p - 1 : ℕ) : ZMod p) = -1 := by
      rw [Nat.cast_sub (by omega), ZMod.natCast_self]; simp
    simp [this]

/-! ### `is_sqr` -/

theorem isSqr_spec (hm : IsModulus p m) (hodd : order p m % 2 = 1) {a : Poly} (ha : Red p m a) :
    ∃ b, isSqr p m a = .ok b ∧ (b = true ↔ IsSquare (φ p m a)) := by
  obtain ⟨_, _, heul⟩ := finite_field_facts hm
  have hp3 : 3 ≤ p := by
    have := p_odd_of_order_odd hm hodd; have := hpf.out.two_le; omega
  have hq : 3 ≤ order p m := le_trans hp3 (order_ge hm)
  have hexp : (order p m - 1) >>> 1 = order p m / 2 := by rw [Nat.shiftRight_eq_div_pow]; omega
  obtain ⟨r, e, rr, hr⟩ := powm_red hm ha (n := order p m / 2) (by omega)
  refine ⟨r != [p - 1], ?_, ?_⟩
  · unfold isSqr
    simp only
    rw [if_neg (by omega), hexp, e]; rfl
  · obtain ⟨rneg, hneg⟩ := neg_one_red hm
    have hne1 : φ p m [1] ≠ φ p m [p - 1] := by
      intro h
      have := phi_inj hm (one_red hm) rneg h
      simp at this; omega
    rw [phi_one, hneg] at hne1
    by_cases ha0 : φ p m a = 0
    · have : φ p m r = 0 := by rw [hr, ha0, zero_pow (by omega)]
      have hr0 := (phi_eq_zero_iff hm rr).mp this
      rw [ha0, hr0]
      simp
    · obtain ⟨hiff, hdich⟩ := heul hodd _ ha0
      rw [hiff, ← hr]
      constructor
      · intro hb
        rcases hdich with h1 | h1
        · rw [hr]; exact h1
        · exfalso
          rw [← hr, ← hneg] at h1
          have := phi_inj hm rr rneg h1
          simp [this] at hb
      · intro h1
        have : r ≠ [p - 1] := by
          intro h; rw [h, hneg] at h1; exact hne1 h1.symm
        simpa using this

/-! ### `sqrt`: q ≡ 3 (mod 4) and q even -/

theorem sqrt_q3_val (hm : IsModulus p m) (h3 : order p m % 4 = 3) {a : Poly} (ha : Red p m a) (ha0 : a ≠ [])
    (inv : Bool) :
    ∃ r, sqrt p m a inv = .ok r ∧ Red p m r ∧
      φ p m r = φ p m a ^ (if inv then (order p m * 3 - 5) >>> 2 else (order p m + 1) >>> 2) := by
  have hpos : 0 < (if inv then (order p m * 3 - 5) >>> 2 else (order p m + 1) >>> 2) := by
    cases inv <;> simp only [Bool.false_eq_true, ↓reduceIte] <;> rw [Nat.shiftRight_eq_div_pow] <;> omega
  obtain ⟨r, e, rr, hr⟩ := powm_red hm ha hpos
  refine ⟨mk p m r, ?_, red_mk hm rr.1, by rw [phi_mk hm rr.1, hr]⟩
  unfold sqrt sqrtRaw
  simp only
  have hne : (a == []) = false := by simpa using ha0
  rw [hne]
  simp only [Bool.false_eq_true, ↓reduceIte]
  rw [if_neg (by omega), if_pos h3, e]; rfl

theorem sqrt_even_val (hm : IsModulus p m) (h2 : order p m % 2 = 0) {a : Poly} (ha : Red p m a) (ha0 : a ≠ [])
    (inv : Bool) :
    ∃ r, sqrt p m a inv = .ok r ∧ Red p m r ∧
      φ p m r = φ p m a ^ (if inv then (order p m >>> 1) - 1 else order p m >>> 1) := by
  obtain ⟨r, e, w, hr⟩ := powm_spec hm ha.1 (if inv then (order p m >>> 1) - 1 else order p m >>> 1)
  refine ⟨mk p m r, ?_, red_mk hm w, by rw [phi_mk hm w, hr]⟩
  unfold sqrt sqrtRaw
  simp only
  have hne : (a == []) = false := by simpa using ha0
  rw [hne]
  simp only [Bool.false_eq_true, ↓reduceIte]
  rw [if_pos h2, e]; rfl

end MpycV.ExtF
