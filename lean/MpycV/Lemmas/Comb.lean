/-
Lemmas about `combinations` (itertools order): members are exactly the sublists of the given
length, no repetition, `choose` many; over `range m`: exactly the strictly increasing lists below m.
-/
import MpycV.Model.Comb
import Mathlib.Data.Nat.Choose.Basic
import Mathlib.Data.List.Sort
import Mathlib.Data.List.Dedup

namespace MpycV.Comb

open List

variable {α : Type}

theorem mem_combinations {l : List α} {k : Nat} {s : List α} :
    s ∈ combinations l k ↔ s <+ l ∧ s.length = k := by
  induction l generalizing k s with
  | nil =>
    cases k with
    | zero => simp [combinations]
    | succ k =>
      simp only [combinations, not_mem_nil, sublist_nil, false_iff, not_and]
      rintro rfl; simp
  | cons x xs ih =>
    cases k with
    | zero =>
      simp only [combinations, mem_singleton, length_eq_zero_iff]
      constructor
      · rintro rfl; simp
      · exact fun h => h.2
    | succ k =>
      simp only [combinations, mem_append, mem_map, ih, sublist_cons_iff]
      constructor
      · rintro (⟨r, ⟨hr, hl⟩, rfl⟩ | ⟨hs, hl⟩)
        · exact ⟨Or.inr ⟨r, rfl, hr⟩, by simp [hl]⟩
        · exact ⟨Or.inl hs, hl⟩
      · rintro ⟨hs | ⟨r, rfl, hr⟩, hl⟩
        · exact Or.inr ⟨hs, hl⟩
        · exact Or.inl ⟨r, ⟨hr, by simpa using hl⟩, rfl⟩

theorem length_combinations (l : List α) (k : Nat) :
    (combinations l k).length = l.length.choose k := by
  induction l generalizing k with
  | nil => cases k <;> simp [combinations]
  | cons x xs ih =>
    cases k with
    | zero => simp [combinations]
    | succ k => simp [combinations, ih, Nat.choose_succ_succ]

theorem nodup_combinations {l : List α} (h : l.Nodup) (k : Nat) : (combinations l k).Nodup := by
  induction l generalizing k with
  | nil => cases k <;> simp [combinations]
  | cons x xs ih =>
    cases k with
    | zero => simp [combinations]
    | succ k =>
      rw [nodup_cons] at h
      simp only [combinations]
      rw [nodup_append]
      refine ⟨?_, ih h.2 _, ?_⟩
      · exact (ih h.2 k).map (fun a b hab => by simpa using hab)
      · intro a ha b hb hab
        rw [mem_map] at ha
        obtain ⟨r, _, rfl⟩ := ha
        rw [mem_combinations] at hb
        subst hab
        exact h.1 (hb.1.subset (mem_cons_self))

/-- sublists of `range m` are exactly the strictly increasing lists of numbers below `m` -/
theorem sublist_range_iff {s : List Nat} {m : Nat} :
    s <+ range m ↔ s.Pairwise (· < ·) ∧ ∀ x ∈ s, x < m := by
  constructor
  · intro h
    exact ⟨pairwise_lt_range.sublist h, fun x hx => mem_range.1 (h.subset hx)⟩
  · rintro ⟨hp, hb⟩
    refine sublist_of_subperm_of_pairwise (r := (· < ·)) ?_ hp pairwise_lt_range
    exact subperm_of_subset (hp.imp Nat.ne_of_lt) (fun x hx => mem_range.2 (hb x hx))

/-- members of `subsets m t` ≙ itertools.combinations(range(m), m-t): exactly the strictly
increasing (m-t)-tuples of party indices -/
theorem mem_subsets {m t : Nat} {s : Subset} :
    s ∈ subsets m t ↔ s.Pairwise (· < ·) ∧ (∀ x ∈ s, x < m) ∧ s.length = m - t := by
  simp only [subsets, mem_combinations, sublist_range_iff, and_assoc]

theorem nodup_subsets (m t : Nat) : (subsets m t).Nodup :=
  nodup_combinations nodup_range _

theorem length_subsets (m t : Nat) : (subsets m t).length = m.choose (m - t) := by
  simp [subsets, length_combinations]

/-- the first element of a strictly increasing list is its minimum -/
theorem head_le_of_mem {s : Subset} (hp : s.Pairwise (· < ·)) {i : Nat} (hi : i ∈ s) :
    hd s ≤ i := by
  cases s with
  | nil => simp at hi
  | cons x r =>
    simp only [hd]
    rw [pairwise_cons] at hp
    rcases mem_cons.1 hi with rfl | h
    · exact Nat.le_refl _
    · exact Nat.le_of_lt (hp.1 i h)

theorem headIs_iff {s : Subset} {p : Nat} : headIs s p = true ↔ s ≠ [] ∧ hd s = p := by
  cases s <;> simp [headIs, hd]

theorem hasMem_iff {s : Subset} {p : Nat} : hasMem s p = true ↔ p ∈ s := by
  simp [hasMem]

theorem headIs_mem {s : Subset} {p : Nat} (h : headIs s p = true) : p ∈ s := by
  cases s with
  | nil => simp [headIs] at h
  | cons x r => simp only [headIs, beq_iff_eq] at h; simp [h]

theorem mem_keysGenerated {m t p : Nat} {s : Subset} :
    s ∈ keysGenerated m t p ↔ s ∈ subsets m t ∧ headIs s p = true := by
  simp [keysGenerated]

theorem mem_keysFromPeer {m t i j : Nat} {s : Subset} :
    s ∈ keysFromPeer m t i j ↔ s ∈ subsets m t ∧ headIs s j = true ∧ i ∈ s := by
  simp [keysFromPeer, hasMem_iff]

/-- sender and receiver enumerate the same list in the same order -/
theorem keysToPeer_eq_keysFromPeer (m t j i : Nat) : keysToPeer m t j i = keysFromPeer m t i j := rfl

theorem nodup_keysFromPeer (m t i j : Nat) : (keysFromPeer m t i j).Nodup :=
  (nodup_subsets m t).filter _

theorem nodup_keysGenerated (m t p : Nat) : (keysGenerated m t p).Nodup :=
  (nodup_subsets m t).filter _

/-- a coalition of at most t parties is disjoint from some (m-t)-subset -/
theorem exists_subset_avoiding {m t : Nat} (ht : t ≤ m) (C : List Nat) (hC : C.length ≤ t) :
    ∃ s ∈ subsets m t, ∀ c ∈ C, c ∉ s := by
  let rest := (range m).filter fun x => !C.contains x
  have hsub : rest <+ range m := filter_sublist
  have hlen : m - t ≤ rest.length := by
    have h1 : ((range m).filter fun x => C.contains x).length ≤ C.dedup.length := by
      apply Subperm.length_le
      apply subperm_of_subset (nodup_range.filter _)
      intro x hx
      simp only [mem_filter, contains_iff_mem] at hx
      exact mem_dedup.2 hx.2
    have h2 : C.dedup.length ≤ C.length := (dedup_sublist C).length_le
    have h3 : (range m).length =
        ((range m).filter fun x => C.contains x).length + rest.length := by
      have := length_eq_length_filter_add (l := range m) (fun x => C.contains x)
      simpa [rest] using this
    simp only [length_range] at h3
    omega
  refine ⟨rest.take (m - t), ?_, ?_⟩
  · rw [subsets, mem_combinations]
    exact ⟨(take_sublist _ _).trans hsub, by simp [length_take, hlen]⟩
  · intro c hc hmem
    have := (take_sublist _ _).subset hmem
    simp only [rest, mem_filter, Bool.not_eq_true', contains_eq_mem, decide_eq_false_iff_not] at this
    exact this.2 hc

end MpycV.Comb
