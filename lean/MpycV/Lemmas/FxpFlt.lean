/-
Helper lemmas for the secure-float model (MpycV.Model.Flt): leading-bit search on two's complement
bits (`findIdx`), trailing zeros of a power of two.
-/
import MpycV.Lemmas.Fxp
import MpycV.Model.Flt

namespace MpycV.Flt
open MpycV.Fxp

theorem ediv_eq_of' {x M q : Int} (hM : 0 < M) (h1 : q * M ≤ x) (h2 : x < (q + 1) * M) : x / M = q := by
  apply le_antisymm
  · have := Int.ediv_lt_of_lt_mul hM h2; omega
  · exact Int.le_ediv_of_mul_le hM h1

/-- scanning the bits `k-1 … 0` of `0 ≤ s < 2^k` for a 1 finds the leading bit -/
theorem findIdx_pos (s : Int) : ∀ (k i : Nat), 0 ≤ s → s < (2 : Int) ^ k →
    (s = 0 ∧ findIdx s 1 k i = i + k) ∨
    (∃ q, q < k ∧ (2 : Int) ^ q ≤ s ∧ s < (2 : Int) ^ (q + 1) ∧ findIdx s 1 k i = i + (k - 1 - q))
  | 0, i, h0, h1 => by
    left; simp at h1; exact ⟨by omega, by simp [findIdx]⟩
  | k + 1, i, h0, h1 => by
    have hK : (0 : Int) < (2 : Int) ^ k := two_pow_pos k
    unfold findIdx
    rcases lt_or_ge s ((2 : Int) ^ k) with hlt | hge
    · have hb : bitAt s k = 0 := by
        unfold bitAt; rw [ediv_eq_of' hK (q := 0) (by omega) (by omega)]; rfl
      simp only [hb, zero_ne_one, if_false]
      rcases findIdx_pos s k (i + 1) h0 hlt with ⟨hz, hi⟩ | ⟨q, hq, a, b, hi⟩
      · left; exact ⟨hz, by omega⟩
      · right; exact ⟨q, by omega, a, b, by omega⟩
    · have hb : bitAt s k = 1 := by
        unfold bitAt
        rw [ediv_eq_of' hK (q := 1) (by omega) (by rw [pow_succ] at h1; omega)]; rfl
      simp only [hb, if_true]
      right; exact ⟨k, by omega, hge, h1, by omega⟩

/-- scanning the bits `k-1 … 0` of `-2^k ≤ s < 0` for a 0 finds the leading bit of the magnitude -/
theorem findIdx_neg (s : Int) : ∀ (k i : Nat), -(2 : Int) ^ k ≤ s → s < 0 →
    (s = -1 ∧ findIdx s 0 k i = i + k) ∨
    (∃ q, q < k ∧ -(2 : Int) ^ (q + 1) ≤ s ∧ s < -(2 : Int) ^ q ∧ findIdx s 0 k i = i + (k - 1 - q))
  | 0, i, h0, h1 => by
    left; simp at h0; exact ⟨by omega, by simp [findIdx]⟩
  | k + 1, i, h0, h1 => by
    have hK : (0 : Int) < (2 : Int) ^ k := two_pow_pos k
    unfold findIdx
    rcases lt_or_ge s (-(2 : Int) ^ k) with hlt | hge
    · have hb : bitAt s k = 0 := by
        unfold bitAt
        rw [ediv_eq_of' hK (q := -2) (by rw [pow_succ] at h0; omega) (by omega)]; rfl
      simp only [hb, if_true]
      right; exact ⟨k, by omega, h0, hlt, by omega⟩
    · have hb : bitAt s k = 1 := by
        unfold bitAt; rw [ediv_eq_of' hK (q := -1) (by omega) (by omega)]; rfl
      simp only [hb, one_ne_zero, if_false]
      rcases findIdx_neg s k (i + 1) hge h1 with ⟨hz, hi⟩ | ⟨q, hq, a, b, hi⟩
      · left; exact ⟨hz, by omega⟩
      · right; exact ⟨q, by omega, a, b, by omega⟩

theorem tzF_two_pow : ∀ (n fuel : Nat), n < fuel → tzF fuel (2 ^ n) = n
  | 0, fuel + 1, _ => by simp [tzF]
  | n + 1, fuel + 1, h => by
    unfold tzF
    have h1 : 2 ^ (n + 1) % 2 = 0 := by rw [pow_succ]; omega
    have h2 : 2 ^ (n + 1) / 2 = 2 ^ n := by rw [pow_succ]; omega
    simp only [h1, zero_ne_one, if_false, h2]
    rw [tzF_two_pow n fuel (by omega)]; omega

theorem tz_two_pow (n : Nat) : tz (2 ^ n) = n := tzF_two_pow n _ Nat.lt_two_pow_self

end MpycV.Flt
