/-
Link between the executable list model `MpycV.GFpX` (≙ gfpx.py `Polynomial`) and Mathlib's `(ZMod p)[X]`:
`toPoly`, coefficient formula, normalisation, injectivity on well-formed lists, and the homomorphism
lemmas for `neg add sub mul sq lshift rshift`.
-/
import Mathlib.Algebra.Polynomial.FieldDivision
import Mathlib.Data.ZMod.Basic
import Mathlib.Algebra.Field.ZMod
import MpycV.Model.GFpX

open Polynomial

namespace MpycV.GFpX

variable {p : ℕ}

/-- the polynomial over `ZMod p` denoted by a coefficient list -/
noncomputable def toPoly (p : ℕ) : Poly → (ZMod p)[X]
  | [] => 0
  | x :: a => C (x : ZMod p) + X * toPoly p a

@[simp] theorem toPoly_nil : toPoly p [] = 0 := rfl
@[simp] theorem toPoly_cons (x : ℕ) (a : Poly) :
    toPoly p (x :: a) = C (x : ZMod p) + X * toPoly p a := rfl

theorem coeff_toPoly (a : Poly) (i : ℕ) : (toPoly p a).coeff i = ((a.getD i 0 : ℕ) : ZMod p) := by
  induction a generalizing i with
  | nil => simp
  | cons x a ih =>
    cases i with
    | zero => simp
    | succ i => simp [coeff_X_mul, ih]

/-! ### `Reduced`, `Normalised`, `norm` -/

@[simp] theorem reduced_nil : Reduced p [] := by simp [Reduced]
theorem reduced_cons {x : ℕ} {a : Poly} : Reduced p (x :: a) ↔ x < p ∧ Reduced p a := by
  simp [Reduced]

@[simp] theorem normalised_nil : Normalised [] := by simp [Normalised]
theorem normalised_singleton {x : ℕ} : Normalised [x] ↔ x ≠ 0 := by simp [Normalised]
theorem normalised_cons_cons {x y : ℕ} {a : Poly} :
    Normalised (x :: y :: a) ↔ Normalised (y :: a) := by
  simp [Normalised, List.getLast?_cons_cons]

@[simp] theorem wf_nil : WF p [] := ⟨reduced_nil, normalised_nil⟩

theorem normalised_iff_getLastD {a : Poly} (h : a ≠ []) : Normalised a ↔ a.getLastD 0 ≠ 0 := by
  unfold Normalised
  rw [List.getLastD_eq_getLast?, List.getLast?_eq_some_getLast h]
  simp

theorem norm_cons (x : ℕ) (a : Poly) :
    norm (x :: a) = if norm a = [] then (if x = 0 then [] else [x]) else x :: norm a := by
  rw [norm]
  split <;> simp_all

theorem toPoly_norm (a : Poly) : toPoly p (norm a) = toPoly p a := by
  induction a with
  | nil => rfl
  | cons x a ih =>
    rw [norm_cons]
    split
    · rename_i h
      rw [h] at ih
      split
      · rename_i hx
        simp [← ih, hx]
      · simp [← ih]
    · simp [ih]

theorem norm_normalised (a : Poly) : Normalised (norm a) := by
  induction a with
  | nil => simp [norm]
  | cons x a ih =>
    rw [norm_cons]
    split
    · split
      · simp
      · rename_i hx; exact normalised_singleton.mpr hx
    · rename_i h
      obtain ⟨y, l, hyl⟩ := List.exists_cons_of_ne_nil h
      rw [hyl] at ih ⊢
      exact normalised_cons_cons.mpr ih

theorem norm_eq_self {a : Poly} (h : Normalised a) : norm a = a := by
  induction a with
  | nil => rfl
  | cons x a ih =>
    cases a with
    | nil =>
      have hx := normalised_singleton.mp h
      simp [norm, hx]
    | cons y l =>
      have := ih (normalised_cons_cons.mp h)
      rw [norm_cons, this]
      simp

theorem norm_prefix (a : Poly) : norm a <+: a := by
  induction a with
  | nil => simp [norm]
  | cons x a ih =>
    rw [norm_cons]
    split
    · split
      · exact List.nil_prefix
      · simp
    · exact (List.prefix_cons_inj x).mpr ih

theorem length_norm_le (a : Poly) : (norm a).length ≤ a.length := (norm_prefix a).length_le

theorem reduced_norm {a : Poly} (h : Reduced p a) : Reduced p (norm a) :=
  fun x hx => h x ((norm_prefix a).subset hx)

theorem wf_norm {a : Poly} (h : Reduced p a) : WF p (norm a) := ⟨reduced_norm h, norm_normalised a⟩

theorem norm_eq_nil_iff (a : Poly) : norm a = [] ↔ ∀ x ∈ a, x = 0 := by
  induction a with
  | nil => simp [norm]
  | cons x a ih =>
    rw [norm_cons]
    split
    · rename_i h
      have := ih.mp h
      split
      · rename_i hx
        simp only [List.mem_cons, forall_eq_or_imp, true_iff]
        exact ⟨hx, this⟩
      · rename_i hx
        simp only [reduceCtorEq, List.mem_cons, forall_eq_or_imp, false_iff, not_and]
        intro h0; exact absurd h0 hx
    · rename_i h
      simp only [reduceCtorEq, List.mem_cons, forall_eq_or_imp, false_iff, not_and]
      intro _ h2
      exact h (ih.mpr h2)

/-! ### casts -/

theorem natCast_inj_of_lt {x y : ℕ} (hx : x < p) (hy : y < p) (h : (x : ZMod p) = (y : ZMod p)) :
    x = y := by
  rw [ZMod.natCast_eq_natCast_iff', Nat.mod_eq_of_lt hx, Nat.mod_eq_of_lt hy] at h
  exact h

theorem natCast_ne_zero_of_lt {x : ℕ} (hx : x < p) (h0 : x ≠ 0) : (x : ZMod p) ≠ 0 := by
  intro h
  rw [ZMod.natCast_eq_zero_iff] at h
  exact h0 (Nat.eq_zero_of_dvd_of_lt h hx)

/-! ### degree / injectivity -/

theorem degree_toPoly_lt (a : Poly) : (toPoly p a).degree < a.length := by
  rw [degree_lt_iff_coeff_zero]
  intro m hm
  rw [coeff_toPoly]
  simp [List.getD_eq_getElem?_getD, List.getElem?_eq_none hm]

theorem getLastD_eq_getD (a : Poly) : a.getLastD 0 = a.getD (a.length - 1) 0 := by
  rw [List.getLastD_eq_getLast?, List.getLast?_eq_getElem?, List.getD_eq_getElem?_getD]

theorem coeff_toPoly_last (a : Poly) :
    (toPoly p a).coeff (a.length - 1) = ((a.getLastD 0 : ℕ) : ZMod p) := by
  rw [coeff_toPoly, getLastD_eq_getD]

theorem getLastD_lt {a : Poly} (h : Reduced p a) (hne : a ≠ []) : a.getLastD 0 < p := by
  rw [List.getLastD_eq_getLast?, List.getLast?_eq_some_getLast hne]
  exact h _ (List.getLast_mem hne)

theorem coeff_last_ne_zero {a : Poly} (h : WF p a) (hne : a ≠ []) :
    (toPoly p a).coeff (a.length - 1) ≠ 0 := by
  rw [coeff_toPoly_last]
  exact natCast_ne_zero_of_lt (getLastD_lt h.1 hne) ((normalised_iff_getLastD hne).mp h.2)

theorem toPoly_ne_zero {a : Poly} (h : WF p a) (hne : a ≠ []) : toPoly p a ≠ 0 := by
  intro h0
  have := coeff_last_ne_zero h hne
  rw [h0] at this
  simp at this

theorem toPoly_eq_zero_iff {a : Poly} (h : WF p a) : toPoly p a = 0 ↔ a = [] :=
  ⟨fun h0 => by_contra fun hne => toPoly_ne_zero h hne h0, fun h0 => by rw [h0]; rfl⟩

theorem natDegree_toPoly {a : Poly} (h : WF p a) (hne : a ≠ []) :
    (toPoly p a).natDegree = a.length - 1 := by
  apply le_antisymm
  · have h1 := degree_toPoly_lt (p := p) a
    have h2 := (natDegree_lt_iff_degree_lt (toPoly_ne_zero h hne)).mpr h1
    omega
  · exact le_natDegree_of_ne_zero (coeff_last_ne_zero h hne)

theorem degree_toPoly {a : Poly} (h : WF p a) (hne : a ≠ []) :
    (toPoly p a).degree = ((a.length - 1 : ℕ) : WithBot ℕ) := by
  rw [degree_eq_natDegree (toPoly_ne_zero h hne), natDegree_toPoly h hne]

theorem leadingCoeff_toPoly {a : Poly} (h : WF p a) (hne : a ≠ []) :
    (toPoly p a).leadingCoeff = ((a.getLastD 0 : ℕ) : ZMod p) := by
  rw [leadingCoeff, natDegree_toPoly h hne, coeff_toPoly_last]

/-- lists with reduced coefficients and equal length denote different polynomials unless equal -/
theorem toPoly_inj_of_length {a b : Poly} (ha : Reduced p a) (hb : Reduced p b)
    (hl : a.length = b.length) (h : toPoly p a = toPoly p b) : a = b := by
  apply List.ext_getElem hl
  intro i h1 h2
  have hc := congrArg (fun f => f.coeff i) h
  simp only [coeff_toPoly] at hc
  have e1 : a.getD i 0 = a[i] := by simp [List.getD_eq_getElem?_getD, List.getElem?_eq_getElem h1]
  have e2 : b.getD i 0 = b[i] := by simp [List.getD_eq_getElem?_getD, List.getElem?_eq_getElem h2]
  rw [e1, e2] at hc
  exact natCast_inj_of_lt (ha _ (List.getElem_mem h1)) (hb _ (List.getElem_mem h2)) hc

theorem length_eq_of_toPoly_eq {a b : Poly} (ha : WF p a) (hb : WF p b)
    (h : toPoly p a = toPoly p b) : a.length = b.length := by
  by_cases hane : a = []
  · have : toPoly p b = 0 := by rw [← h, hane]; rfl
    rw [hane, (toPoly_eq_zero_iff hb).mp this]
  · have hbne : b ≠ [] := by
      intro hbe
      have : toPoly p a = 0 := by rw [h, hbe]; rfl
      exact hane ((toPoly_eq_zero_iff ha).mp this)
    have h1 := natDegree_toPoly ha hane
    have h2 := natDegree_toPoly hb hbne
    rw [h] at h1
    have := List.length_pos_of_ne_nil hane
    have := List.length_pos_of_ne_nil hbne
    omega

/-- `toPoly` is injective on well-formed lists: the list is a canonical form -/
theorem toPoly_inj {a b : Poly} (ha : WF p a) (hb : WF p b) (h : toPoly p a = toPoly p b) : a = b :=
  toPoly_inj_of_length ha.1 hb.1 (length_eq_of_toPoly_eq ha hb h) h

theorem normalised_of_coeff_ne_zero {a : Poly} (h : (toPoly p a).coeff (a.length - 1) ≠ 0) :
    Normalised a := by
  by_cases hne : a = []
  · rw [hne]; exact normalised_nil
  · rw [normalised_iff_getLastD hne]
    intro h0
    rw [coeff_toPoly_last, h0] at h
    simp at h

end MpycV.GFpX
