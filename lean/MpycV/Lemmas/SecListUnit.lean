/-
Lemmas for the seclist model, part 3: `runtime.unit_vector(a, n)` returns `e_a` for `0 ≤ a < n`,
and its length does not depend on `a`.
-/
import MpycV.Lemmas.SecList

namespace MpycV.SecList

/-- close goals that are linear arithmetic under `if`s -/
macro "ifs_omega" : tactic => `(tactic| ((repeat' split) <;> omega))

/-- `[j + 1 = A]` for `j = s, …, s+n-1`: the unit vector of position `A - 1` in a window -/
def uvFrom (s A n : Nat) : List Int := (List.range' s n).map (fun j => if j + 1 = A then 1 else 0)

theorem uvFrom_zero (s A : Nat) : uvFrom s A 0 = [] := rfl

theorem uvFrom_succ (s A n : Nat) :
    uvFrom s A (n + 1) = (if s + 1 = A then 1 else 0) :: uvFrom (s + 1) A n := by
  simp [uvFrom, List.range'_succ]

theorem uvFrom_length (s A n : Nat) : (uvFrom s A n).length = n := by simp [uvFrom]

theorem sum_uvFrom (s A n : Nat) : sum (uvFrom s A n) = if s + 1 ≤ A ∧ A ≤ s + n then 1 else 0 := by
  induction n generalizing s with
  | zero =>
    rw [uvFrom_zero, sum]
    ifs_omega
  | succ n ih =>
    rw [uvFrom_succ, sum, ih]
    ifs_omega

theorem sum_scalarMul (c : Int) (u : List Int) : sum (scalarMul c u) = c * sum u := by
  unfold scalarMul
  induction u with
  | nil => simp [sum]
  | cons a u ih => simp only [List.map_cons, sum, ih, Int.mul_add]

/-- the doubling step on the window: interleaving `(1-xi)*u` and `xi*u` -/
theorem interleave_uvFrom (s A n : Nat) (xi : Nat) (hxi : xi < 2) :
    interleave (vectorSub (uvFrom s A n) (scalarMul (xi : Int) (uvFrom s A n))) (scalarMul (xi : Int) (uvFrom s A n))
      = uvFrom (2 * s + 1) (2 * A + xi) (2 * n) := by
  induction n generalizing s with
  | zero => simp [uvFrom_zero, vectorSub, scalarMul, interleave]
  | succ n ih =>
    have e : 2 * (n + 1) = (2 * n + 1) + 1 := by omega
    rw [uvFrom_succ, e, uvFrom_succ, uvFrom_succ]
    have ih' := ih (s + 1)
    have e2 : 2 * (s + 1) + 1 = 2 * s + 1 + 1 + 1 := by omega
    rw [e2] at ih'
    simp only [vectorSub, scalarMul, List.map_cons, List.zipWith_cons_cons, interleave] at ih' ⊢
    rw [ih']
    simp only [List.cons.injEq, and_true]
    constructor <;> ifs_omega

theorem uvFrom_dropLast (s A n : Nat) : (uvFrom s A (n + 1)).dropLast = uvFrom s A n := by
  simp [uvFrom, List.range'_concat]

/-- one round of the loop: from the window for `(A, B)` to the window for `(2A + xi, 2B + bi)` -/
theorem uvStep_spec (b : Int) (i A B xi bi : Nat) (hxi : xi < 2) (hbi : bi < 2)
    (hb : bitAt b i = (bi : Int)) (hle : 2 * A + xi ≤ 2 * B + bi) :
    uvStep b (xi : Int) i (uvFrom 0 A B) = uvFrom 0 (2 * A + xi) (2 * B + bi) := by
  unfold uvStep
  simp only
  rw [interleave_uvFrom 0 A B xi hxi, sum_scalarMul, sum_uvFrom, hb]
  have hhead : ((xi : Int) - (xi : Int) * (if 0 + 1 ≤ A ∧ A ≤ 0 + B then 1 else 0))
      = (if 0 + 1 = 2 * A + xi then 1 else 0) := by
    ifs_omega
  rw [hhead]
  have hcons : ((if 0 + 1 = 2 * A + xi then 1 else 0) : Int) :: uvFrom (2 * 0 + 1) (2 * A + xi) (2 * B)
      = uvFrom 0 (2 * A + xi) (2 * B + 1) := by
    rw [uvFrom_succ]
  rw [hcons]
  have hbi' : bi = 0 ∨ bi = 1 := by omega
  rcases hbi' with rfl | rfl
  · rw [if_pos (by decide), Nat.add_zero]
    exact uvFrom_dropLast _ _ _
  · rw [if_neg (by decide)]

theorem bitAt_natCast (A i : Nat) : bitAt (A : Int) i = ((A / 2 ^ i % 2 : Nat) : Int) := by
  unfold bitAt
  push_cast
  rfl

theorem half_decomp (A i : Nat) : A / 2 ^ i = 2 * (A / 2 ^ (i + 1)) + A / 2 ^ i % 2 := by
  have : A / 2 ^ (i + 1) = A / 2 ^ i / 2 := by
    rw [Nat.pow_succ, Nat.div_div_eq_div_mul]
  omega

theorem uvLoop_spec (A0 B0 : Nat) (hle : A0 ≤ B0) (i : Nat) :
    uvLoop (B0 : Int) (A0 : Int) i (uvFrom 0 (A0 / 2 ^ i) (B0 / 2 ^ i)) = uvFrom 0 A0 B0 := by
  induction i with
  | zero => simp [uvLoop]
  | succ i ih =>
    rw [uvLoop, bitAt_natCast]
    rw [uvStep_spec (B0 : Int) i (A0 / 2 ^ (i + 1)) (B0 / 2 ^ (i + 1)) (A0 / 2 ^ i % 2) (B0 / 2 ^ i % 2)
      (Nat.mod_lt _ (by omega)) (Nat.mod_lt _ (by omega)) (bitAt_natCast B0 i)]
    · rw [← half_decomp, ← half_decomp]
      exact ih
    · rw [← half_decomp, ← half_decomp]
      exact Nat.div_le_div_right hle

theorem lt_two_pow_natBitLen (m : Nat) : m < 2 ^ natBitLen m := by
  unfold natBitLen
  by_cases h : m = 0
  · simp [h]
  · simp only [h, if_false]
    exact Nat.lt_log2_self

/-- `runtime.unit_vector(a, n)` is the unit vector `e_a` for `0 ≤ a < n` -/
theorem unitVector_spec (a n : Nat) (h : a < n) : unitVector (a : Int) n = unitVec a n := by
  obtain ⟨m, rfl⟩ : ∃ m, n = m + 1 := ⟨n - 1, by omega⟩
  unfold unitVector
  simp only
  have hb : ((m + 1 : Nat) : Int) - 1 = (m : Int) := by push_cast; omega
  rw [hb]
  have hk : bitLen (m : Int) = natBitLen m := by simp [bitLen]
  rw [hk]
  have hstart : uvFrom 0 (a / 2 ^ natBitLen m) (m / 2 ^ natBitLen m) = [] := by
    rw [Nat.div_eq_of_lt (lt_two_pow_natBitLen m)]
    rfl
  have := uvLoop_spec a m (by omega) (natBitLen m)
  rw [hstart] at this
  rw [this, sum_uvFrom]
  -- assemble `e_a`
  cases a with
  | zero =>
    have h0 : ¬ (0 + 1 ≤ 0 ∧ 0 ≤ 0 + m) := by omega
    rw [unitVec_zero_succ]
    simp only [h0, if_false, Int.sub_zero, List.cons.injEq, true_and]
    simp only [uvFrom]
    rw [List.eq_replicate_iff]
    simp
  | succ a =>
    have h1 : 0 + 1 ≤ a + 1 ∧ a + 1 ≤ 0 + m := by omega
    rw [unitVec_succ_succ]
    simp only [h1, if_true, Int.sub_self, List.cons.injEq, true_and]
    simp only [uvFrom, unitVec, List.range_eq_range']
    apply List.map_congr_left
    intro j _
    simp

/-! ### the length of `unit_vector(a, n)` does not depend on `a` -/

theorem interleave_length (w v : List Int) (h : w.length = v.length) :
    (interleave w v).length = 2 * v.length := by
  induction w generalizing v with
  | nil => cases v with
    | nil => rfl
    | cons _ _ => simp at h
  | cons a w ih =>
    cases v with
    | nil => simp at h
    | cons b v =>
      simp only [interleave, List.length_cons]
      rw [ih v (by simpa using h)]
      omega

theorem uvStep_length (b xi : Int) (i : Nat) (u : List Int) :
    (uvStep b xi i u).length = if bitAt b i = 0 then 2 * u.length else 2 * u.length + 1 := by
  unfold uvStep
  simp only
  have hl : (interleave (vectorSub u (scalarMul xi u)) (scalarMul xi u)).length = 2 * u.length := by
    rw [interleave_length]
    · simp [scalarMul]
    · simp [vectorSub, scalarMul]
  by_cases h : bitAt b i = 0
  · simp [h, hl]
  · simp [h, hl]

/-- length of the loop result as a function of `b`, the round and the current length -/
def uvLenLoop (b : Int) : Nat → Nat → Nat
  | 0, l => l
  | i + 1, l => uvLenLoop b i (if bitAt b i = 0 then 2 * l else 2 * l + 1)

theorem uvLoop_length (b a : Int) (i : Nat) (u : List Int) :
    (uvLoop b a i u).length = uvLenLoop b i u.length := by
  induction i generalizing u with
  | zero => rfl
  | succ i ih => rw [uvLoop, ih, uvStep_length, uvLenLoop]

theorem unitVector_length_indep (a a' : Int) (n : Nat) :
    (unitVector a n).length = (unitVector a' n).length := by
  unfold unitVector
  simp only [List.length_cons, uvLoop_length]

end MpycV.SecList
