/-
Lemmas for C34 (statistics): `_isqrt` (bitwise integer square root) and `_fsqrt` (fixed-point version
with one rounding bit per product).
-/
import MpycV.Lemmas.StatsBase
import Mathlib.Tactic.Ring
import Mathlib.Tactic.Linarith
namespace MpycV.Stats

/-- what `_isqrt` must return: the integer square root -/
def IsIsqrt (a r : Int) : Prop := 0 ≤ r ∧ r * r ≤ a ∧ a < (r + 1) * (r + 1)

theorem isIsqrt_unique {a r r' : Int} (h : IsIsqrt a r) (h' : IsIsqrt a r') : r = r' := by
  obtain ⟨h0, h1, h2⟩ := h
  obtain ⟨h0', h1', h2'⟩ := h'
  by_contra hne
  rcases lt_or_gt_of_ne hne with hlt | hlt
  · have : r + 1 ≤ r' := hlt
    nlinarith
  · have : r' + 1 ≤ r := hlt
    nlinarith

/-- loop invariant of `_isqrt`: `r2 = r²`, `r² ≤ a < (r + 2j)²` with `j = 2^k`, `k + 1` iterations left -/
theorem isqrtLoop_spec (a : Int) : ∀ (k : Nat) (r r2 : Int), r2 = r * r → 0 ≤ r → r * r ≤ a →
    a < (r + 2 ^ (k + 1)) * (r + 2 ^ (k + 1)) → IsIsqrt a (isqrtLoop a (k + 1) r r2 (2 ^ k))
  | 0, r, r2, h2, h0, hlo, hhi => by
    subst h2
    simp only [isqrtLoop, pow_zero, zero_add, pow_one] at hhi ⊢
    have e : r * r + (2 * r + 1) * 1 = (r + 1) * (r + 1) := by ring
    rw [e]
    split
    · rename_i hle
      refine ⟨by omega, hle, ?_⟩
      have : (r + 1 + 1) = r + 2 := by ring
      rw [this]; exact hhi
    · rename_i hle
      exact ⟨h0, hlo, by omega⟩
  | k + 1, r, r2, h2, h0, hlo, hhi => by
    subst h2
    have hJ : (0 : Int) < 2 ^ k := by positivity
    have e2 : (2 : Int) ^ (k + 1) = 2 ^ k * 2 := pow_succ 2 k
    have e3 : (2 : Int) ^ (k + 1 + 1) = 2 ^ k * 2 * 2 := by rw [pow_succ, pow_succ]
    have ediv : (2 : Int) ^ (k + 1) / 2 = 2 ^ k := by rw [e2]; exact Int.mul_ediv_cancel _ (by norm_num)
    rw [isqrtLoop.eq_2]
    simp only [ediv]
    have e : r * r + (2 * r + 2 ^ (k + 1)) * 2 ^ (k + 1) = (r + 2 ^ (k + 1)) * (r + 2 ^ (k + 1)) := by ring
    rw [e]
    split
    · rename_i hle
      apply isqrtLoop_spec a k _ _ rfl (by positivity) hle
      have : r + 2 ^ (k + 1) + 2 ^ (k + 1) = r + 2 ^ (k + 1 + 1) := by rw [e3, e2]; ring
      rw [this]; exact hhi
    · rename_i hle
      exact isqrtLoop_spec a k _ _ rfl h0 hlo (by omega)

/-- `_isqrt(a)` is the integer square root for every `0 ≤ a < 4^(e+1)`, `e = (l-1)//2` -/
theorem isqrt_isIsqrt (l : Nat) (a : Int) (h0 : 0 ≤ a) (hlt : a < 2 ^ (2 * ((l - 1) / 2 + 1))) :
    IsIsqrt a (isqrt l a) := by
  unfold isqrt
  apply isqrtLoop_spec a _ 0 0 (by ring) (le_refl _) (by simpa using h0)
  have : (2 : Int) ^ (2 * ((l - 1) / 2 + 1)) = (0 + 2 ^ ((l - 1) / 2 + 1)) * (0 + 2 ^ ((l - 1) / 2 + 1)) := by
    rw [zero_add, ← pow_add]; congr 1; omega
  rw [← this]; exact hlt

theorem two_pow_le_isqrt_range (l : Nat) : (2 : Int) ^ (l - 1) ≤ 2 ^ (2 * ((l - 1) / 2 + 1)) := by
  apply pow_le_pow_right₀ (by norm_num); omega

/-! ### `_fsqrt` on scaled integers -/

/-- what the model of `_fsqrt` guarantees for `a ≥ 0` (scaled: `a = A·2^f`, `r = R·2^f`):
`a·2^f ≤ (r+1)²` and `r² < (a+1)·2^f`, i.e. `√A − 2^-f ≤ R < √(A + 2^-f)` -/
def FsqrtBracket (f : Nat) (a r : Int) : Prop :=
  0 ≤ r ∧ r * r < (a + 1) * 2 ^ f ∧ a * 2 ^ f ≤ (r + 1) * (r + 1)

/-- an accepted candidate `h` (`⌊h²/2^f⌋ + ε ≤ a`) has `h² < (a+1)·2^f` -/
theorem fsqrt_accept {f : Nat} {a h : Int} {eps : Bool}
    (hacc : h * h / (2 : Int) ^ f + (if eps then 1 else 0) ≤ a) : h * h < (a + 1) * 2 ^ f := by
  have hP : (0 : Int) < 2 ^ f := by positivity
  have : h * h / (2 : Int) ^ f < a + 1 := by cases eps <;> simp at hacc <;> omega
  exact (Int.ediv_lt_iff_lt_mul hP).mp this

/-- a rejected candidate `h` (`⌊h²/2^f⌋ + ε > a`) has `h² ≥ a·2^f` -/
theorem fsqrt_reject {f : Nat} {a h : Int} {eps : Bool}
    (hrej : ¬ h * h / (2 : Int) ^ f + (if eps then 1 else 0) ≤ a) : a * 2 ^ f ≤ h * h := by
  have hP : (0 : Int) < 2 ^ f := by positivity
  have : a ≤ h * h / (2 : Int) ^ f := by cases eps <;> simp at hrej <;> omega
  exact (Int.le_ediv_iff_mul_le hP).mp this

theorem fsqrtLoop_nil (f : Nat) (a r j : Int) : fsqrtLoop f a [] r j = r := rfl

theorem fsqrtLoop_cons (f : Nat) (a : Int) (e : Bool) (rest : List Bool) (r j : Int) :
    fsqrtLoop f a (e :: rest) r j =
      if (r + j) * (r + j) / (2 : Int) ^ f + (if e then 1 else 0) ≤ a then fsqrtLoop f a rest (r + j) (j / 2)
      else fsqrtLoop f a rest r (j / 2) := rfl

/-- loop invariant of `_fsqrt`: `r² < (a+1)·2^f`, `a·2^f ≤ (r + 2j)²`, `j = 2^k`, `k+1` iterations left -/
theorem fsqrtLoop_spec (f : Nat) (a : Int) : ∀ (k : Nat) (eps : List Bool) (r : Int), eps.length = k + 1 →
    0 ≤ r → r * r < (a + 1) * 2 ^ f → a * 2 ^ f ≤ (r + 2 ^ (k + 1)) * (r + 2 ^ (k + 1)) →
    FsqrtBracket f a (fsqrtLoop f a eps r (2 ^ k))
  | 0, [e], r, _, h0, hhi, hlo => by
    rw [fsqrtLoop_cons]
    simp only [fsqrtLoop_nil, pow_zero, zero_add, pow_one] at hlo ⊢
    by_cases hacc : (r + 1) * (r + 1) / (2 : Int) ^ f + (if e then 1 else 0) ≤ a
    · rw [if_pos hacc]
      refine ⟨by omega, fsqrt_accept hacc, ?_⟩
      have : (r + 1 + 1) = r + 2 := by ring
      rw [this]; exact hlo
    · rw [if_neg hacc]
      exact ⟨h0, hhi, fsqrt_reject hacc⟩
  | k + 1, e :: rest, r, hlen, h0, hhi, hlo => by
    have hJ : (0 : Int) < 2 ^ k := by positivity
    have e2 : (2 : Int) ^ (k + 1) = 2 ^ k * 2 := pow_succ 2 k
    have e3 : (2 : Int) ^ (k + 1 + 1) = 2 ^ k * 2 * 2 := by rw [pow_succ, pow_succ]
    have ediv : (2 : Int) ^ (k + 1) / 2 = 2 ^ k := by rw [e2]; exact Int.mul_ediv_cancel _ (by norm_num)
    have hlen' : rest.length = k + 1 := by simpa using hlen
    rw [fsqrtLoop_cons, ediv]
    by_cases hacc : (r + 2 ^ (k + 1)) * (r + 2 ^ (k + 1)) / (2 : Int) ^ f + (if e then 1 else 0) ≤ a
    · rw [if_pos hacc]
      apply fsqrtLoop_spec f a k rest _ hlen' (by positivity) (fsqrt_accept hacc)
      have : r + 2 ^ (k + 1) + 2 ^ (k + 1) = r + 2 ^ (k + 1 + 1) := by rw [e3, e2]; ring
      rw [this]; exact hlo
    · rw [if_neg hacc]
      exact fsqrtLoop_spec f a k rest _ hlen' h0 hhi (fsqrt_reject hacc)

/-- `_fsqrt(a)` for `0 ≤ a`, `a·2^f ≤ 4^(e+1)` (in particular `a < 2^(l-1)`), `e = (l+f-1)//2`, with any
rounding bits: the result `r` (scaled) satisfies `a·2^f ≤ (r+1)²` and `r² < (a+1)·2^f` -/
theorem fsqrt_spec (l f : Nat) (a : Int) (eps : List Bool) (hlen : eps.length = (l + f - 1) / 2 + 1)
    (h0 : 0 ≤ a) (hlt : a * 2 ^ f ≤ 2 ^ (2 * ((l + f - 1) / 2 + 1))) :
    FsqrtBracket f a (fsqrt l f a eps) := by
  unfold fsqrt
  have hP : (0 : Int) < 2 ^ f := by positivity
  apply fsqrtLoop_spec f a _ eps 0 hlen (le_refl _)
  · have : (0 : Int) < (a + 1) * 2 ^ f := by positivity
    simpa using this
  · have : (2 : Int) ^ (2 * ((l + f - 1) / 2 + 1)) =
        (0 + 2 ^ ((l + f - 1) / 2 + 1)) * (0 + 2 ^ ((l + f - 1) / 2 + 1)) := by
      rw [zero_add, ← pow_add]; congr 1; omega
    rw [← this]; exact hlt

/-- the type range `a < 2^(l-1)` (scaled value of a secure fixed-point number of bit length `l`) suffices -/
theorem fsqrt_range (l f : Nat) (a : Int) (hlt : a < 2 ^ (l - 1)) (hl : 1 ≤ l) :
    a * 2 ^ f ≤ 2 ^ (2 * ((l + f - 1) / 2 + 1)) := by
  have hP : (0 : Int) < 2 ^ f := by positivity
  have h1 : a * 2 ^ f ≤ 2 ^ (l - 1) * 2 ^ f := by
    apply Int.mul_le_mul_of_nonneg_right (le_of_lt hlt) (le_of_lt hP)
  have h2 : (2 : Int) ^ (l - 1) * 2 ^ f = 2 ^ (l - 1 + f) := by rw [pow_add]
  have h3 : (2 : Int) ^ (l - 1 + f) ≤ 2 ^ (2 * ((l + f - 1) / 2 + 1)) := by
    apply pow_le_pow_right₀ (by norm_num); omega
  omega

end MpycV.Stats
