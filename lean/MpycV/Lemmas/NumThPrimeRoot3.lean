import MpycV.Lemmas.NumThPrimeRoot2

namespace MpycV.PrimeRoot
open MpycV.NumTh

/-- result of the n > 2 branch: what is known about a returned triple -/
structure RootSpec (l n p n' w : Int) : Prop where
  n'_prime : Nat.Prime n'.toNat
  n_le : n ≤ n'
  n'_min : ∀ q : Int, Nat.Prime q.toNat → n ≤ q → n' ≤ q
  p_prime : Nat.Prime p.toNat
  p_blum : p % 4 = 3
  p_mod : p % n' = 1
  p_large : 2 ^ (l.toNat - 1) < p
  w_pos : 0 < w
  w_lt : w < p
  w_ne_one : w ≠ 1
  w_pow : w ^ n'.toNat % p = 1
  w_order : orderOf ((w.toNat : ZMod p.toNat)) = n'.toNat

theorem findPrimeRoot_gt2 (isP : Int → Bool) (hP : CorrectOracle isP) (fuel : Nat) (l : Int) (blum : Bool)
    (n : Int) (hl : 2 < l) (hn : 2 < n) :
    (blum = false → findPrimeRoot isP fuel l blum n = .error .assertionError) ∧
    (∀ p n' w, findPrimeRoot isP fuel l blum n = .ok (p, n', w) → RootSpec l n p n' w) := by
  unfold findPrimeRoot
  rw [if_neg (by omega), if_neg (by omega)]
  cases blum
  · exact ⟨fun _ => by simp, fun p n' w h => by simp at h⟩
  · refine ⟨fun h => by simp at h, fun p n' w h => ?_⟩
    simp only [Bool.not_true, Bool.false_eq_true, if_false] at h
    -- the prime n'
    have hn' : ∃ m, (if isP n = true then Except.ok n else nextPrime isP n) = .ok m ∧ Nat.Prime m.toNat ∧
        n ≤ m ∧ ∀ q : Int, Nat.Prime q.toNat → n ≤ q → m ≤ q := by
      by_cases hpn : isP n = true
      · rw [if_pos hpn]; exact ⟨n, rfl, (hP n).mp hpn, le_refl _, fun q _ hq => hq⟩
      · rw [if_neg hpn]
        obtain ⟨m, h1, h2, h3, h4⟩ := nextPrime_spec isP hP n
        refine ⟨m, h1, h2, by omega, fun q hq hnq => h4 q hq ?_⟩
        have : q ≠ n := by rintro rfl; exact hpn ((hP q).mpr hq)
        omega
    obtain ⟨m, hm, hmp, hnm, hmmin⟩ := hn'
    rw [hm] at h
    simp only [] at h
    have hm3 : 3 ≤ m := by omega
    have hmodd : m % 2 = 1 := by
      rcases hmp.eq_two_or_odd with h2 | h2 <;> omega
    split at h
    · simp at h
    · next p1 hs =>
      obtain ⟨j, hj, hpj⟩ := searchUp_form hs
      have hp1p : Nat.Prime p1.toNat := (hP p1).mp hpj
      have hform := blum_form m ((2 : Int) ^ (l - 3).toNat / m) j hmodd (by omega)
      have hlow := blum_form_lower m ((2 : Int) ^ (l - 3).toNat) j (by omega) (by omega)
      have hp1eq : p1 = 1 + 2 * m * (3 + 2 * ((2 : Int) ^ (l - 3).toNat / m)) + 4 * m * j := by
        rw [hj]
      rw [← hp1eq] at hform hlow
      have hpow : (4 : Int) * 2 ^ (l - 3).toNat = 2 ^ (l.toNat - 1) := by
        have : l.toNat - 1 = (l - 3).toNat + 2 := by omega
        rw [this, pow_add]; ring
      rw [hpow] at hlow
      have hp1pos : 1 < p1 := by have := hp1p.two_le; omega
      -- Nat versions
      set pn := p1.toNat with hpn
      set mn := m.toNat with hmn
      have hpc : (pn : Int) = p1 := Int.toNat_of_nonneg (by omega)
      have hmc : (mn : Int) = m := Int.toNat_of_nonneg (by omega)
      have hdvd : mn ∣ pn - 1 := by
        have h1 : m ∣ p1 - 1 := Int.dvd_self_sub_of_emod_eq hform.2
        have h2 : ((mn : Nat) : Int) ∣ ((pn - 1 : Nat) : Int) := by
          rw [Nat.cast_sub (by omega), hpc, hmc]; simpa using h1
        exact Int.natCast_dvd_natCast.mp h2
      have he : ((p1 - 1) / m).toNat = (pn - 1) / mn := by
        have : (p1 - 1) / m = (((pn - 1) / mn : Nat) : Int) := by
          rw [Int.natCast_div, Nat.cast_sub (by omega), hpc, hmc]; simp
        rw [this]; exact Int.toNat_natCast _
      rw [he] at h
      obtain ⟨g, hg2, hgp, hgne⟩ := exists_nonresidue pn mn hp1p hmp hdvd
      obtain ⟨a, ha2, hag, hroot, hane⟩ := rootLoop_spec pn ((pn - 1) / mn) pn 2 g hg2 hgne (by omega)
      rw [hroot] at h
      simp only [Except.ok.injEq, Prod.mk.injEq] at h
      obtain ⟨rfl, rfl, rfl⟩ := h
      -- facts about w = a^e % p
      have : Fact pn.Prime := ⟨hp1p⟩
      have ha0 : (a : ZMod pn) ≠ 0 := by
        rw [Ne, ZMod.natCast_eq_zero_iff]
        intro hd; have := Nat.le_of_dvd (by omega) hd; omega
      have hmul : (pn - 1) / mn * mn = pn - 1 := Nat.div_mul_cancel hdvd
      have hwpow : (a ^ ((pn - 1) / mn) % pn) ^ mn % pn = 1 := by
        rw [← Nat.pow_mod, ← pow_mul, hmul, ← natCast_eq_one_iff pn _ hp1p.one_lt]
        push_cast; exact ZMod.pow_card_sub_one_eq_one ha0
      set w := a ^ ((pn - 1) / mn) % pn with hw
      have hwlt : w < pn := Nat.mod_lt _ (by omega)
      have hw0 : w ≠ 0 := by
        intro h0; rw [h0, zero_pow (by omega), Nat.zero_mod] at hwpow; omega
      have hord : orderOf ((w : ZMod pn)) = mn := by
        have : Fact mn.Prime := ⟨hmp⟩
        apply orderOf_eq_prime
        · rw [← Nat.cast_pow]; exact (natCast_eq_one_iff pn _ hp1p.one_lt).mpr hwpow
        · intro h1
          have := (natCast_eq_one_iff pn _ hp1p.one_lt).mp h1
          rw [Nat.mod_eq_of_lt hwlt] at this
          exact hane this
      refine ⟨hmp, hnm, hmmin, hp1p, hform.1, hform.2, hlow, by omega, by omega, ?_, ?_, ?_⟩
      · intro h1; apply hane; exact_mod_cast h1
      · rw [← hpc]; exact_mod_cast hwpow
      · simpa using hord

/-! ### `_pfield` -/

theorem bitLength_le_iff (p : Int) (k : Nat) (hp : 0 < p) : bitLength p ≤ k ↔ p < 2 ^ k := by
  obtain ⟨pn, rfl⟩ : ∃ pn : Nat, p = (pn : Int) := ⟨p.toNat, (Int.toNat_of_nonneg (by omega)).symm⟩
  have hpn : pn ≠ 0 := by omega
  obtain ⟨h1, h2⟩ := bitLength_spec pn hpn
  have hpos := bitLength_pos pn hpn
  constructor
  · intro h
    have : pn < 2 ^ k := lt_of_lt_of_le h2 (Nat.pow_le_pow_right (by omega) h)
    exact_mod_cast this
  · intro h
    have h' : pn < 2 ^ k := by exact_mod_cast h
    by_contra hlt
    have : 2 ^ k ≤ 2 ^ (bitLength (pn : Int) - 1) := Nat.pow_le_pow_right (by omega) (by omega)
    omega

end MpycV.PrimeRoot
