/-
Lemmas for M5/Level (C35): the `_pc_level` invariant along well-formed histories and the
invariant of the shutdown handshake.
-/
import MpycV.Model.Level
import Mathlib.Data.List.Nodup

namespace MpycV.Level

/-! ### list helpers -/

/-- removing (by `filter`) an element of a duplicate-free list shortens it by exactly one -/
theorem length_filter_ne_of_nodup {l : List Nat} {a : Nat} (hnd : l.Nodup) (ha : a ∈ l) :
    (l.filter (· != a)).length + 1 = l.length := by
  induction l with
  | nil => simp at ha
  | cons b t ih =>
    rw [List.nodup_cons] at hnd
    by_cases hba : b = a
    · subst hba
      have hself : t.filter (· != b) = t := by
        rw [List.filter_eq_self]
        intro x hx
        have : x ≠ b := by
          rintro rfl
          exact hnd.1 hx
        simpa using this
      simp [hself]
    · have hat : a ∈ t := by
        rcases List.mem_cons.mp ha with h | h
        · exact absurd h.symm hba
        · exact h
      have := ih hnd.2 hat
      simp [hba]
      omega

theorem mem_filter_ne {l : List Nat} {a x : Nat} :
    x ∈ l.filter (· != a) ↔ x ∈ l ∧ x ≠ a := by
  simp [List.mem_filter]

/-! ### the bookkeeping invariant -/

/-- invariant of the `_pc_level` bookkeeping; `used` = ids of all task calls so far -/
structure Inv (s : State) (used : List Nat) : Prop where
  lvl : s.level = (s.unreconciled.length : Int)
  nd : s.unreconciled.Nodup
  sub : ∀ id ∈ s.running, id ∈ s.unreconciled
  usd : ∀ id ∈ s.unreconciled, id ∈ used

theorem inv_init : Inv State.init [] := by
  constructor <;> simp [State.init]

theorem inv_call_task {s : State} {used : List Nat} (id : Nat) (h : Inv s used)
    (hfresh : id ∉ used) : Inv (step s (Ev.call id Outcome.task)) (id :: used) := by
  obtain ⟨h1, h2, h3, h4⟩ := h
  refine ⟨?_, ?_, ?_, ?_⟩
  · simp only [step, List.length_cons]
    rw [h1]
    push_cast
    rfl
  · simp only [step]
    exact List.nodup_cons.mpr ⟨fun hm => hfresh (h4 id hm), h2⟩
  · intro x hx
    simp only [step] at hx ⊢
    rcases List.mem_cons.mp hx with hx | hx
    · exact hx ▸ List.mem_cons_self
    · exact List.mem_cons_of_mem _ (h3 x hx)
  · intro x hx
    simp only [step] at hx
    rcases List.mem_cons.mp hx with hx | hx
    · exact hx ▸ List.mem_cons_self
    · exact List.mem_cons_of_mem _ (h4 x hx)

theorem inv_call_other {s : State} {used : List Nat} (id : Nat) (o : Outcome)
    (ho : o ≠ Outcome.task) (h : Inv s used) : Inv (step s (Ev.call id o)) used := by
  obtain ⟨h1, h2, h3, h4⟩ := h
  cases o <;> first | exact absurd rfl ho | exact ⟨by simp only [step]; omega, h2, h3, h4⟩

theorem inv_finish {s : State} {used : List Nat} (id : Nat) (h : Inv s used) :
    Inv (step s (Ev.finish id)) used := by
  obtain ⟨h1, h2, h3, h4⟩ := h
  refine ⟨h1, h2, ?_, h4⟩
  intro x hx
  simp only [step] at hx ⊢
  exact h3 x (mem_filter_ne.mp hx).1

theorem inv_reconcile {s : State} {used : List Nat} (id : Nat) (h : Inv s used)
    (hu : id ∈ s.unreconciled) (hr : id ∉ s.running) :
    Inv (step s (Ev.reconcile id)) used := by
  obtain ⟨h1, h2, h3, h4⟩ := h
  refine ⟨?_, ?_, ?_, ?_⟩
  · simp only [step]
    have := length_filter_ne_of_nodup h2 hu
    omega
  · simp only [step]
    exact h2.filter _
  · intro x hx
    simp only [step] at hx ⊢
    refine mem_filter_ne.mpr ⟨h3 x hx, ?_⟩
    rintro rfl
    exact hr hx
  · intro x hx
    simp only [step] at hx
    exact h4 x (mem_filter_ne.mp hx).1

/-- the invariant is preserved along every well-formed history (from any start state) -/
theorem inv_run (evs : List Ev) : ∀ (s : State) (used : List Nat), Inv s used →
    wfB s used evs = true → ∃ used', Inv (run s evs) used' := by
  induction evs with
  | nil => intro s used h _; exact ⟨used, h⟩
  | cons e rest ih =>
    intro s used h hw
    cases e with
    | call id o =>
      by_cases ho : o = Outcome.task
      · subst ho
        simp only [wfB, Bool.and_eq_true, Bool.not_eq_true', List.contains_eq_mem,
          decide_eq_false_iff_not] at hw
        exact ih _ _ (inv_call_task id h hw.1) hw.2
      · have hw' : wfB (step s (Ev.call id o)) used rest = true := by
          cases o <;> first | exact absurd rfl ho | simpa only [wfB] using hw
        exact ih _ _ (inv_call_other id o ho h) hw'
    | finish id =>
      simp only [wfB, Bool.and_eq_true] at hw
      exact ih _ _ (inv_finish id h) hw.2
    | reconcile id =>
      simp only [wfB, Bool.and_eq_true, Bool.not_eq_true', List.contains_eq_mem,
        decide_eq_true_eq, decide_eq_false_iff_not] at hw
      exact ih _ _ (inv_reconcile id h hw.1.1 hw.1.2) hw.2

theorem inv_run_init {evs : List Ev} (h : wfB State.init [] evs = true) :
    ∃ used', Inv (run State.init evs) used' :=
  inv_run evs _ _ inv_init h

/-- a state satisfying the invariant with level ≤ 0 has nothing running and nothing unreconciled -/
theorem Inv.quiescent {s : State} {used : List Nat} (h : Inv s used) (hb : s.level ≤ 0) :
    s.running = [] ∧ s.unreconciled = [] := by
  have hlen : s.unreconciled.length = 0 := by
    have := h.lvl
    omega
  have hu : s.unreconciled = [] := List.length_eq_zero_iff.mp hlen
  refine ⟨?_, hu⟩
  apply List.eq_nil_iff_forall_not_mem.mpr
  intro x hx
  have := h.sub x hx
  rw [hu] at this
  exact absurd this List.not_mem_nil

/-! ### shutdown handshake -/

theorem getD_set_self {st : List Nat} {i : Nat} (v d : Nat) (hi : i < st.length) :
    (st.set i v).getD i d = v := by
  simp [List.getD_eq_getElem?_getD, hi]

theorem getD_set_ne {st : List Nat} {i j : Nat} (v d : Nat) (hij : i ≠ j) :
    (st.set i v).getD j d = st.getD j d := by
  simp [List.getD_eq_getElem?_getD, hij]

theorem getD_pos_lt {st : List Nat} {i : Nat} (h : st.getD i 0 ≠ 0) : i < st.length := by
  by_contra hlt
  apply h
  simp [List.getD_eq_getElem?_getD, List.getElem?_eq_none (Nat.le_of_not_lt hlt)]

theorem all_ge_one_getD {st : List Nat} (h : st.all (· ≥ 1) = true) {j : Nat}
    (hj : j < st.length) : 1 ≤ st.getD j 0 := by
  rw [List.all_eq_true] at h
  have hm : st[j] ∈ st := List.getElem_mem hj
  have := h _ hm
  simp only [ge_iff_le, decide_eq_true_eq] at this
  simpa [List.getD_eq_getElem?_getD, List.getElem?_eq_getElem hj] using this

/-- invariant of the shutdown handshake -/
structure ShInv (levels : List Int) (m : Nat) (st : Stages) : Prop where
  len : st.length = m
  lvl : ∀ j, j < m → 1 ≤ st.getD j 0 → levels.getD j 1 ≤ 0
  cls : ∀ i, st.getD i 0 = 2 → ∀ j, j < m → 1 ≤ st.getD j 0

theorem shInv_init (levels : List Int) (m : Nat) : ShInv levels m (List.replicate m 0) := by
  have hz : ∀ j, (List.replicate m 0).getD j 0 = 0 := by
    intro j
    by_cases hj : j < m
    · simp [List.getD_eq_getElem?_getD, hj]
    · simp [List.getD_eq_getElem?_getD, hj]
  refine ⟨by simp, ?_, ?_⟩
  · intro j _ h1
    rw [hz] at h1
    omega
  · intro i h2
    rw [hz] at h2
    omega

theorem shInv_step {levels : List Int} {m : Nat} {st : Stages} (h : ShInv levels m st)
    (s : ShStep) (hen : shEnabled levels st s = true) : ShInv levels m (shApply st s) := by
  obtain ⟨hlen, hlvl, hcls⟩ := h
  cases s with
  | pass i =>
    simp only [shEnabled, Bool.and_eq_true, beq_iff_eq, decide_eq_true_eq] at hen
    obtain ⟨hst, hlv⟩ := hen
    by_cases hi : i < st.length
    · refine ⟨by simp [shApply, hlen], ?_, ?_⟩
      · intro j hj h1
        by_cases hij : i = j
        · subst hij; exact hlv
        · simp only [shApply] at h1
          rw [getD_set_ne _ _ hij] at h1
          exact hlvl j hj h1
      · intro k hk j hj
        simp only [shApply] at hk ⊢
        by_cases hik : i = k
        · subst hik
          rw [getD_set_self _ _ hi] at hk
          omega
        · rw [getD_set_ne _ _ hik] at hk
          have hall := hcls k hk
          have hi1 := hall i (hlen ▸ hi)
          omega
    · have hset : shApply st (ShStep.pass i) = st := by
        simp only [shApply]
        exact List.set_eq_of_length_le (Nat.le_of_not_lt hi)
      rw [hset]
      exact ⟨hlen, hlvl, hcls⟩
  | close i =>
    simp only [shEnabled, Bool.and_eq_true, beq_iff_eq] at hen
    obtain ⟨hst, hall⟩ := hen
    have hi : i < st.length := getD_pos_lt (by omega)
    have hge : ∀ j, j < m → 1 ≤ st.getD j 0 := fun j hj => all_ge_one_getD hall (hlen ▸ hj)
    refine ⟨by simp [shApply, hlen], ?_, ?_⟩
    · intro j hj _
      exact hlvl j hj (hge j hj)
    · intro _ _ j hj
      simp only [shApply]
      by_cases hij : i = j
      · subst hij
        rw [getD_set_self _ _ hi]
        omega
      · rw [getD_set_ne _ _ hij]
        exact hge j hj

end MpycV.Level
