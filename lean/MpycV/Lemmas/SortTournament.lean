/-
Lemmas for C29, tournaments (`min`, `max`, `argmin`, `argmax`, `min_max`) for every list length:
`tmin_spec`, `tmax_spec`, `targmin_spec` (first minimum), `targmax_spec` (first maximum, via the order
dual), `minMax_spec` (pairing invariant `pairPrefix_ordered`), emptiness = the ValueError branch.
-/
import MpycV.Lemmas.Sort
import Mathlib.Order.OrderDual

namespace MpycV.Sort
variable {α κ : Type}

/-- `lt` is the strict order of the keys -/
def LtOk [LinearOrder κ] (lt : α → α → Bool) (key : α → κ) : Prop :=
  ∀ a b, lt a b = true ↔ key a < key b

theorem head?_of_length_lt_two {x : List α} {m : α} (h : x.length < 2) (hm : x.head? = some m) : x = [m] := by
  match x, h, hm with
  | [a], _, hm => simp at hm; rw [hm]
  | _ :: _ :: _, h, _ => simp only [List.length_cons] at h; omega

theorem mem_of_mem_take_or_drop {x : List α} {k : Nat} {y : α} (h : y ∈ x) : y ∈ x.take k ∨ y ∈ x.drop k := by
  rw [← List.take_append_drop k x] at h
  exact List.mem_append.mp h

/-! ### min / max -/

theorem tmin_spec [LinearOrder κ] {lt : α → α → Bool} {key : α → κ} (hlt : LtOk lt key) (x : List α) (m : α)
    (h : tmin lt x = some m) : m ∈ x ∧ ∀ y ∈ x, key m ≤ key y := by
  fun_induction tmin lt x generalizing m with
  | case1 x hlen =>
    rw [head?_of_length_lt_two hlen h]; simp
  | case2 x hlen m0 m1 h1 h0 ih0 ih1 =>
    obtain ⟨hm0, hmin0⟩ := ih0 m0 h0
    obtain ⟨hm1, hmin1⟩ := ih1 m1 h1
    simp only [Option.some.injEq] at h
    have hm0x : m0 ∈ x := List.mem_of_mem_take hm0
    have hm1x : m1 ∈ x := List.mem_of_mem_drop hm1
    by_cases hc : lt m0 m1 = true
    · rw [if_pos hc] at h; subst h
      have hk : key m0 < key m1 := (hlt _ _).mp hc
      refine ⟨hm0x, fun y hy => ?_⟩
      rcases mem_of_mem_take_or_drop (k := x.length / 2) hy with hy | hy
      · exact hmin0 y hy
      · exact le_trans (le_of_lt hk) (hmin1 y hy)
    · rw [if_neg hc] at h; subst h
      have hk : key m1 ≤ key m0 := not_lt.mp (fun h' => hc ((hlt _ _).mpr h'))
      refine ⟨hm1x, fun y hy => ?_⟩
      rcases mem_of_mem_take_or_drop (k := x.length / 2) hy with hy | hy
      · exact le_trans hk (hmin0 y hy)
      · exact hmin1 y hy
  | case3 x hlen hnone ih0 ih1 => simp at h

theorem tmin_isSome (lt : α → α → Bool) (x : List α) (hx : x ≠ []) : (tmin lt x).isSome = true := by
  fun_induction tmin lt x with
  | case1 x hlen =>
    cases x with
    | nil => exact absurd rfl hx
    | cons a t => rfl
  | case2 x hlen m0 m1 h1 h0 ih0 ih1 => rfl
  | case3 x hlen hnone ih0 ih1 =>
    exfalso
    have h0 := ih0 (by intro h; have := congrArg List.length h; rw [List.length_take, List.length_nil] at this; omega)
    have h1 := ih1 (by intro h; have := congrArg List.length h; rw [List.length_drop, List.length_nil] at this; omega)
    obtain ⟨a, ha⟩ := Option.isSome_iff_exists.mp h0
    obtain ⟨b, hb⟩ := Option.isSome_iff_exists.mp h1
    exact hnone a b ha hb

theorem tmin_nil (lt : α → α → Bool) : tmin lt ([] : List α) = none := by
  rw [tmin]; rfl

theorem tmax_spec [LinearOrder κ] {lt : α → α → Bool} {key : α → κ} (hlt : LtOk lt key) (x : List α) (m : α)
    (h : tmax lt x = some m) : m ∈ x ∧ ∀ y ∈ x, key y ≤ key m := by
  fun_induction tmax lt x generalizing m with
  | case1 x hlen =>
    rw [head?_of_length_lt_two hlen h]; simp
  | case2 x hlen m0 m1 h1 h0 ih0 ih1 =>
    obtain ⟨hm0, hmax0⟩ := ih0 m0 h0
    obtain ⟨hm1, hmax1⟩ := ih1 m1 h1
    simp only [Option.some.injEq] at h
    have hm0x : m0 ∈ x := List.mem_of_mem_take hm0
    have hm1x : m1 ∈ x := List.mem_of_mem_drop hm1
    by_cases hc : lt m0 m1 = true
    · rw [if_pos hc] at h; subst h
      have hk : key m0 < key m1 := (hlt _ _).mp hc
      refine ⟨hm1x, fun y hy => ?_⟩
      rcases mem_of_mem_take_or_drop (k := x.length / 2) hy with hy | hy
      · exact le_trans (hmax0 y hy) (le_of_lt hk)
      · exact hmax1 y hy
    · rw [if_neg hc] at h; subst h
      have hk : key m1 ≤ key m0 := not_lt.mp (fun h' => hc ((hlt _ _).mpr h'))
      refine ⟨hm0x, fun y hy => ?_⟩
      rcases mem_of_mem_take_or_drop (k := x.length / 2) hy with hy | hy
      · exact hmax0 y hy
      · exact le_trans (hmax1 y hy) hk
  | case3 x hlen hnone ih0 ih1 => simp at h

theorem tmax_isSome (lt : α → α → Bool) (x : List α) (hx : x ≠ []) : (tmax lt x).isSome = true := by
  fun_induction tmax lt x with
  | case1 x hlen =>
    cases x with
    | nil => exact absurd rfl hx
    | cons a t => rfl
  | case2 x hlen m0 m1 h1 h0 ih0 ih1 => rfl
  | case3 x hlen hnone ih0 ih1 =>
    exfalso
    have h0 := ih0 (by intro h; have := congrArg List.length h; rw [List.length_take, List.length_nil] at this; omega)
    have h1 := ih1 (by intro h; have := congrArg List.length h; rw [List.length_drop, List.length_nil] at this; omega)
    obtain ⟨a, ha⟩ := Option.isSome_iff_exists.mp h0
    obtain ⟨b, hb⟩ := Option.isSome_iff_exists.mp h1
    exact hnone a b ha hb

theorem tmax_nil (lt : α → α → Bool) : tmax lt ([] : List α) = none := by
  rw [tmax]; rfl


/-! ### argmin / argmax: index of the FIRST extreme element -/

/-- `(i, m)` is the first minimum of `x` by `key` -/
def IsFirstMin [LinearOrder κ] (key : α → κ) (x : List α) (i : Nat) (m : α) : Prop :=
  x[i]? = some m ∧ (∀ y ∈ x, key m ≤ key y) ∧ ∀ j y, j < i → x[j]? = some y → key m < key y

theorem getElem?_take_drop_split (x : List α) (h j : Nat) (_hh : h ≤ x.length) :
    x[j]? = if j < h then (x.take h)[j]? else (x.drop h)[j - h]? := by
  split
  · rename_i hj; rw [List.getElem?_take]; simp [hj]
  · rename_i hj; rw [List.getElem?_drop]; congr 1; omega

theorem targmin_spec [LinearOrder κ] {lt : α → α → Bool} {key : α → κ} (hlt : LtOk lt key) (x : List α)
    (i : Nat) (m : α) (h : targmin lt x = some (i, m)) : IsFirstMin key x i m := by
  fun_induction targmin lt x generalizing i m with
  | case1 x hlen =>
    cases hx : x.head? with
    | none => rw [hx] at h; simp at h
    | some a =>
      rw [hx] at h
      simp only [Option.map_some, Option.some.injEq, Prod.mk.injEq] at h
      obtain ⟨rfl, rfl⟩ := h
      rw [head?_of_length_lt_two hlen hx]
      exact ⟨rfl, by simp, fun j y hj => by omega⟩
  | case2 x hlen i0 m0 i1 m1 h1 h0 i1' c ih0 ih1 =>
    obtain ⟨hg0, hmin0, hfirst0⟩ := ih0 i0 m0 h0
    obtain ⟨hg1, hmin1, hfirst1⟩ := ih1 i1 m1 h1
    have hh : x.length / 2 ≤ x.length := Nat.div_le_self _ _
    have hi0 : i0 < x.length / 2 := by
      have := (List.getElem?_eq_some_iff.mp hg0).1
      rw [List.length_take] at this; omega
    simp only [Option.some.injEq, Prod.mk.injEq] at h
    by_cases hc : lt m1 m0 = true
    · rw [if_pos hc, if_pos hc] at h
      obtain ⟨hi, hm⟩ := h
      rw [← hi, ← hm]
      show IsFirstMin key x (i1 + x.length / 2) m1
      have hk : key m1 < key m0 := (hlt _ _).mp hc
      refine ⟨?_, ?_, ?_⟩
      · rw [getElem?_take_drop_split x (x.length / 2) _ hh, if_neg (by omega)]
        rw [← hg1]; congr 1; omega
      · intro y hy
        rcases mem_of_mem_take_or_drop (k := x.length / 2) hy with hy | hy
        · exact le_trans (le_of_lt hk) (hmin0 y hy)
        · exact hmin1 y hy
      · intro j y hj hy
        rw [getElem?_take_drop_split x (x.length / 2) j hh] at hy
        split at hy
        · exact lt_of_lt_of_le hk (hmin0 y (List.mem_of_getElem? hy))
        · exact hfirst1 (j - x.length / 2) y (by omega) hy
    · rw [if_neg hc, if_neg hc] at h
      obtain ⟨hi, hm⟩ := h
      rw [← hi, ← hm]
      have hk : key m0 ≤ key m1 := not_lt.mp (fun h' => hc ((hlt _ _).mpr h'))
      refine ⟨?_, ?_, ?_⟩
      · rw [getElem?_take_drop_split x (x.length / 2) _ hh, if_pos hi0]; exact hg0
      · intro y hy
        rcases mem_of_mem_take_or_drop (k := x.length / 2) hy with hy | hy
        · exact hmin0 y hy
        · exact le_trans hk (hmin1 y hy)
      · intro j y hj hy
        rw [getElem?_take_drop_split x (x.length / 2) j hh, if_pos (by omega)] at hy
        exact hfirst0 j y hj hy
  | case3 x hlen hnone ih0 ih1 => simp at h

theorem targmin_isSome (lt : α → α → Bool) (x : List α) (hx : x ≠ []) : (targmin lt x).isSome = true := by
  fun_induction targmin lt x with
  | case1 x hlen =>
    cases x with
    | nil => exact absurd rfl hx
    | cons a t => rfl
  | case2 x hlen i0 m0 i1 m1 h1 h0 i1' c ih0 ih1 => rfl
  | case3 x hlen hnone ih0 ih1 =>
    exfalso
    have h0 := ih0 (by intro h; have := congrArg List.length h; rw [List.length_take, List.length_nil] at this; omega)
    have h1 := ih1 (by intro h; have := congrArg List.length h; rw [List.length_drop, List.length_nil] at this; omega)
    obtain ⟨⟨i0, a⟩, ha⟩ := Option.isSome_iff_exists.mp h0
    obtain ⟨⟨i1, b⟩, hb⟩ := Option.isSome_iff_exists.mp h1
    exact hnone i0 a i1 b ha hb

theorem targmin_nil (lt : α → α → Bool) : targmin lt ([] : List α) = none := by
  rw [targmin]; rfl

/-- `argmax` is `argmin` for the reversed comparison -/
theorem targmax_eq_targmin_flip (lt : α → α → Bool) (x : List α) :
    targmax lt x = targmin (fun a b => lt b a) x := by
  fun_induction targmax lt x with
  | case1 x hlen => rw [targmin, if_pos hlen]
  | case2 x hlen i0 m0 i1 m1 h1 h0 i1' c ih0 ih1 =>
    rw [targmin, if_neg hlen, ← ih0, ← ih1, h0, h1]
  | case3 x hlen hnone ih0 ih1 =>
    rw [targmin, if_neg hlen, ← ih0, ← ih1]
    cases h0 : targmax lt (x.take (x.length / 2)) with
    | none => rfl
    | some p0 =>
      cases h1 : targmax lt (x.drop (x.length / 2)) with
      | none => rfl
      | some p1 => exact absurd h1 (fun h1 => hnone p0.1 p0.2 p1.1 p1.2 h0 h1)

/-- `(i, m)` is the first maximum of `x` by `key` -/
def IsFirstMax [LinearOrder κ] (key : α → κ) (x : List α) (i : Nat) (m : α) : Prop :=
  x[i]? = some m ∧ (∀ y ∈ x, key y ≤ key m) ∧ ∀ j y, j < i → x[j]? = some y → key y < key m

theorem targmax_spec [LinearOrder κ] {lt : α → α → Bool} {key : α → κ} (hlt : LtOk lt key) (x : List α)
    (i : Nat) (m : α) (h : targmax lt x = some (i, m)) : IsFirstMax key x i m := by
  rw [targmax_eq_targmin_flip] at h
  have hlt' : LtOk (κ := κᵒᵈ) (fun a b => lt b a) (fun a => OrderDual.toDual (key a)) := by
    intro a b
    rw [hlt b a]
    exact Iff.rfl
  exact targmin_spec hlt' x i m h

theorem targmax_isSome (lt : α → α → Bool) (x : List α) (hx : x ≠ []) : (targmax lt x).isSome = true := by
  rw [targmax_eq_targmin_flip]; exact targmin_isSome _ x hx

theorem targmax_nil (lt : α → α → Bool) : targmax lt ([] : List α) = none := by
  rw [targmax]; rfl


/-! ### min_max: pairing step, then min of the lower half and max of the upper half -/

theorem keepOk_of_ltOk [LinearOrder κ] {lt : α → α → Bool} {key : α → κ} (hlt : LtOk lt key) : KeepOk lt key := by
  intro a b
  constructor
  · intro h; exact le_of_lt ((hlt a b).mp h)
  · intro h; exact not_lt.mp (fun h' => by rw [(hlt a b).mpr h'] at h; exact Bool.noConfusion h)

/-- `np_sort` compares the other way round: `keep a b = !(lt b a)` -/
theorem keepOk_np_of_ltOk [LinearOrder κ] {lt : α → α → Bool} {key : α → κ} (hlt : LtOk lt key) :
    KeepOk (fun a b => !(lt b a)) key := by
  intro a b
  constructor
  · intro h
    simp only [Bool.not_eq_true'] at h
    exact not_lt.mp (fun h' => by rw [(hlt b a).mpr h'] at h; exact Bool.noConfusion h)
  · intro h
    simp only [Bool.not_eq_false'] at h
    exact le_of_lt ((hlt b a).mp h)

theorem getElem?_cmpSwap (keep : α → α → Bool) (i j : Nat) (x : List α) (a b : α) (hij : i ≠ j)
    (hi : x[i]? = some a) (hj : x[j]? = some b) (k : Nat) :
    (cmpSwap keep (i, j) x)[k]? =
      if k = j then some (if keep a b then b else a)
      else if k = i then some (if keep a b then a else b) else x[k]? := by
  have hil := (List.getElem?_eq_some_iff.mp hi).1
  have hjl := (List.getElem?_eq_some_iff.mp hj).1
  unfold cmpSwap
  simp only [hi, hj]
  by_cases hkj : k = j
  · subst hkj
    rw [List.getElem?_set_self (by rw [List.length_set]; exact hjl)]; simp
  · rw [List.getElem?_set_ne (Ne.symm hkj), if_neg hkj]
    by_cases hki : k = i
    · subst hki
      rw [List.getElem?_set_self hil]; simp
    · rw [List.getElem?_set_ne (Ne.symm hki), if_neg hki]

theorem run_append (keep : α → α → Bool) (n1 n2 : Net) (x : List α) :
    run keep (n1 ++ n2) x = run keep n2 (run keep n1 x) := by
  unfold run; rw [List.foldl_append]

def pairPrefix (n k : Nat) : Net := (List.range k).map (fun i => (i, n - 1 - i))

theorem pairPrefix_succ (n k : Nat) : pairPrefix n (k + 1) = pairPrefix n k ++ [(k, n - 1 - k)] := by
  unfold pairPrefix; rw [List.range_succ, List.map_append]; rfl

theorem pairPrefix_ordered [LinearOrder κ] {keep : α → α → Bool} {key : α → κ} (hk : KeepOk keep key)
    (x : List α) : ∀ k, k ≤ x.length / 2 → ∀ i, i < k →
      ∃ a b, (run keep (pairPrefix x.length k) x)[i]? = some a ∧
        (run keep (pairPrefix x.length k) x)[x.length - 1 - i]? = some b ∧ key a ≤ key b := by
  intro k
  induction k with
  | zero => intro _ i hi; omega
  | succ k ih =>
    intro hk1 i hi
    rw [pairPrefix_succ, run_append]
    generalize hy : run keep (pairPrefix x.length k) x = y at ih ⊢
    have hylen : y.length = x.length := by rw [← hy, length_run]
    have h1 : k < y.length := by omega
    have h2 : x.length - 1 - k < y.length := by omega
    obtain ⟨a, ha⟩ : ∃ a, y[k]? = some a := ⟨y[k], List.getElem?_eq_getElem h1⟩
    obtain ⟨b, hb⟩ : ∃ b, y[x.length - 1 - k]? = some b := ⟨y[x.length - 1 - k], List.getElem?_eq_getElem h2⟩
    have hne : k ≠ x.length - 1 - k := by omega
    show ∃ a b, (cmpSwap keep (k, x.length - 1 - k) y)[i]? = some a ∧
      (cmpSwap keep (k, x.length - 1 - k) y)[x.length - 1 - i]? = some b ∧ key a ≤ key b
    rw [getElem?_cmpSwap keep _ _ y a b hne ha hb, getElem?_cmpSwap keep _ _ y a b hne ha hb]
    by_cases hik : i = k
    · subst hik
      rw [if_neg hne, if_pos rfl, if_pos rfl]
      refine ⟨_, _, rfl, rfl, ?_⟩
      cases hkab : keep a b
      · simpa using (hk a b).2 hkab
      · simpa using (hk a b).1 hkab
    · have hi' : i < k := by omega
      rw [if_neg (by omega), if_neg hik, if_neg (by omega), if_neg (by omega)]
      exact ih (by omega) i hi'

theorem minMax_spec [LinearOrder κ] {lt : α → α → Bool} {key : α → κ} (hlt : LtOk lt key) (x : List α)
    (a b : α) (h : minMax lt x = some (a, b)) :
    a ∈ x ∧ b ∈ x ∧ ∀ z ∈ x, key a ≤ key z ∧ key z ≤ key b := by
  unfold minMax at h
  simp only at h
  generalize hy : run lt (pairNet x.length) x = y at h
  have hperm : y.Perm x := by rw [← hy]; exact run_perm _ _ _
  have hylen : y.length = x.length := hperm.length_eq
  have hord : ∀ i, i < x.length / 2 → ∃ p q, y[i]? = some p ∧ y[x.length - 1 - i]? = some q ∧ key p ≤ key q := by
    intro i hi
    have := pairPrefix_ordered (keepOk_of_ltOk hlt) x (x.length / 2) (Nat.le_refl _) i hi
    rw [← hy]; exact this
  cases h0 : tmin lt (y.take ((x.length + 1) / 2)) with
  | none => rw [h0] at h; simp at h
  | some a' =>
    cases h1 : tmax lt (y.drop (x.length / 2)) with
    | none => rw [h0, h1] at h; simp at h
    | some b' =>
      rw [h0, h1] at h
      simp only [Option.some.injEq, Prod.mk.injEq] at h
      obtain ⟨rfl, rfl⟩ := h
      obtain ⟨hamem, hamin⟩ := tmin_spec hlt _ _ h0
      obtain ⟨hbmem, hbmax⟩ := tmax_spec hlt _ _ h1
      refine ⟨hperm.subset (List.mem_of_mem_take hamem), hperm.subset (List.mem_of_mem_drop hbmem), ?_⟩
      intro z hz
      have hzy : z ∈ y := hperm.symm.subset hz
      obtain ⟨j, hj, rfl⟩ := List.getElem_of_mem hzy
      rw [hylen] at hj
      constructor
      · by_cases hjl : j < (x.length + 1) / 2
        · apply hamin
          rw [List.mem_iff_getElem?]
          exact ⟨j, by rw [List.getElem?_take]; simp [hjl]⟩
        · -- partner position n-1-j lies in the lower half and holds a smaller key
          obtain ⟨p, q, hp, hq, hpq⟩ := hord (x.length - 1 - j) (by omega)
          have e : x.length - 1 - (x.length - 1 - j) = j := by omega
          rw [e, List.getElem?_eq_getElem (by omega)] at hq
          injection hq with hq
          rw [hq]
          refine le_trans (hamin p ?_) hpq
          rw [List.mem_iff_getElem?]
          exact ⟨x.length - 1 - j, by rw [List.getElem?_take]; simp [hp]; omega⟩
      · by_cases hjl : x.length / 2 ≤ j
        · apply hbmax
          rw [List.mem_iff_getElem?]
          exact ⟨j - x.length / 2, by
            rw [List.getElem?_drop, List.getElem?_eq_getElem (by omega)]; congr 2; omega⟩
        · obtain ⟨p, q, hp, hq, hpq⟩ := hord j (by omega)
          rw [List.getElem?_eq_getElem (by omega)] at hp
          injection hp with hp
          rw [hp]
          refine le_trans hpq (hbmax q ?_)
          rw [List.mem_iff_getElem?]
          exact ⟨x.length - 1 - j - x.length / 2, by
            rw [List.getElem?_drop, ← hq]; congr 1; omega⟩

theorem minMax_isSome (lt : α → α → Bool) (x : List α) (hx : x ≠ []) : (minMax lt x).isSome = true := by
  unfold minMax
  simp only
  have hpos : 0 < x.length := List.length_pos_iff.mpr hx
  have hylen : (run lt (pairNet x.length) x).length = x.length := length_run _ _ _
  have h0 := tmin_isSome lt ((run lt (pairNet x.length) x).take ((x.length + 1) / 2))
    (by intro h; have := congrArg List.length h; rw [List.length_take, hylen, List.length_nil] at this; omega)
  have h1 := tmax_isSome lt ((run lt (pairNet x.length) x).drop (x.length / 2))
    (by intro h; have := congrArg List.length h; rw [List.length_drop, hylen, List.length_nil] at this; omega)
  obtain ⟨a, ha⟩ := Option.isSome_iff_exists.mp h0
  obtain ⟨b, hb⟩ := Option.isSome_iff_exists.mp h1
  rw [ha, hb]; rfl

theorem minMax_nil (lt : α → α → Bool) : minMax lt ([] : List α) = none := by
  unfold minMax
  simp [pairNet, run, tmin_nil]

end MpycV.Sort
